package rules

import (
	"fmt"
	"go/token"
	"go/types"
	"sort"
	"strings"

	"golang.org/x/tools/go/ssa"

	"mmverify/kit"
)

const c24Pkg = "internal/health"

// c24SpecExempt is the exempt set of the property statement: health and readiness probes,
// the splash page and the logo.
var c24SpecExempt = []string{"/", "/health", "/healthz", "/logo.png", "/ready"}

// c24SpecGroups: documented path prefixes owned by an endpoint-group flag (ServerConfig /
// HTTPConfig field comments).
var c24SpecGroups = []struct{ Prefix, Flag string }{
	{"/agents", "EnableRemoteAPI"},
	{"/routes/advertise", "EnableRemoteAPI"},
	{"/api/", "EnableDashboard"},
	{"/debug/pprof/", "EnablePprof"},
}

// c24FlagSource: ServerConfig flag -> HTTPConfig pointer field its accessor must consult.
var c24FlagSource = map[string]string{"EnablePprof": "Pprof", "EnableDashboard": "Dashboard", "EnableRemoteAPI": "RemoteAPI"}

func init() {
	register(&Check{
		ID: "C24", Level: "other", Patterns: []string{"./internal/health", "./internal/agent"},
		Technique: "must-pass-through over accepting CFG edges, return-witness analysis, ServeMux pattern resolution, field provenance",
		Explain:   "Decides on the SSA of internal/health that (R1) every delegation to the wrapped handler in the auth middleware is reached only through an exact exempt-path hit or a successful token validation of a token taken from the request, (R2) the exempt set is exactly {/health,/healthz,/ready,/,/logo.png}, keyed by r.URL.Path untransformed and immutable at run time, (R3) the http.Server handler is middleware(mux) whenever TokenHash is non-empty, with a single ServeMux, a single http.Server and no other way to obtain an unwrapped handler, (R4) the validator returns true only after bcrypt.CompareHashAndPassword succeeded or on equality with a cache written only after such a success, (R5) for every flag combination each pattern of a disabled group resolves under http.ServeMux precedence to a handler that only answers 404, and documented group prefixes are registered only under their flag, (R6) the agent fills the flags from the HTTPConfig accessors, which honour Minimal and the explicit false. Behaviour of net/http itself (path cleaning, redirects, bcrypt) is trusted; what an authenticated handler does is not examined.",
		Run:       runC24,
		SelfTests: c24SelfTests,
	})
}

type c24Reg struct {
	call    ssa.CallInstruction
	pattern string
	handler ssa.Value
	hframe  *c24Frame
	flags   map[string]bool // flag name -> polarity required for this registration
	ord     int
}

type c24Ctx struct {
	p   *kit.Program
	r   *kit.Report
	fns []*ssa.Function

	validators   map[*ssa.Function]bool
	ctor         *ssa.Function
	mux          ssa.Value
	mw           *ssa.Function   // first auth middleware function (diagnostics)
	mwFns        []*ssa.Function // request-serving functions of the auth middleware (closure or ServeHTTP method)
	regs         []*c24Reg
	ev           *c24Eval
	exemptSlices map[*ssa.Global]bool

	exemptGlobals map[*ssa.Global]bool
	exemptConsts  map[string]bool
	inexact       []string // diagnostics: inexact exemption atoms seen
	inexactPos    []token.Pos
}

func c24IsHTTP(c kit.Callee, recv, name string) bool {
	return c.Pkg == "net/http" && c.Recv == recv && c.Name == name
}

func c24Named(t types.Type, pkg, name string) bool {
	if p, ok := t.(*types.Pointer); ok {
		t = p.Elem()
	}
	n, ok := t.(*types.Named)
	return ok && n.Obj().Pkg() != nil && n.Obj().Pkg().Path() == pkg && n.Obj().Name() == name
}

func runC24(p *kit.Program, r *kit.Report) {
	r.Rule("C24.R1", "in the auth middleware every call of the wrapped handler's ServeHTTP is reached only through an exact exempt-path hit or a true result of the token validator applied to a token taken from the request")
	r.Rule("C24.R2", "the exempt set is exactly {/health,/healthz,/ready,/,/logo.png}: constant keys, looked up with r.URL.Path itself, never modified after initialisation")
	r.Rule("C24.R3", "http.Server.Handler is middleware(mux) unless TokenHash is empty (then the mux itself); one ServeMux receives every registration; one http.Server; exported accessors return only that handler; nothing is served through DefaultServeMux")
	r.Rule("C24.R4", "the token validator returns true only after bcrypt.CompareHashAndPassword(TokenHash, token) == nil or on equality of the token digest with a cache field that is written only after such a success")
	r.Rule("C24.R5", "for every combination of endpoint-group flags, each pattern registered on a flag's enabled edge resolves (http.ServeMux precedence) in the disabled configuration to a handler that only answers 404; documented group prefixes are registered only under their flag")
	r.Rule("C24.R6", "the agent fills TokenHash and the three group flags of health.ServerConfig from HTTPConfig: TokenHash from HTTP.TokenHash, each flag from an accessor that is false when Minimal is set or the explicit setting is false")
	cx := &c24Ctx{p: p, r: r, validators: map[*ssa.Function]bool{}, exemptGlobals: map[*ssa.Global]bool{}, exemptSlices: map[*ssa.Global]bool{}, exemptConsts: map[string]bool{}}
	cx.ev = &c24Eval{cx: cx}
	cx.fns = p.FuncsInPkg(c24Pkg)
	if !r.Require(len(cx.fns) > 0, "anchor-unresolved: package %s not loaded", c24Pkg) {
		return
	}
	r.Count("functions_analysed", len(cx.fns))
	if !cx.resolve() {
		return
	}
	cx.ruleR3()
	cx.ruleR1()
	cx.ruleR2()
	cx.ruleR4()
	cx.ruleR5()
	cx.ruleR6()
}

// ---------------------------------------------------------------- anchors

func (cx *c24Ctx) resolve() bool {
	r := cx.r
	// validators: bool functions of the package that call bcrypt.CompareHashAndPassword
	for _, f := range cx.fns {
		if len(kit.CallsTo(f, "golang.org/x/crypto/bcrypt", "", "CompareHashAndPassword")) > 0 &&
			f.Signature.Results().Len() == 1 && types.Identical(f.Signature.Results().At(0).Type(), types.Typ[types.Bool]) {
			cx.validators[f] = true
		}
	}
	r.Require(len(cx.validators) > 0, "anchor-unresolved: no bool function in %s calls bcrypt.CompareHashAndPassword (token validator)", c24Pkg)
	// constructor: the function calling http.NewServeMux
	var muxCalls []ssa.CallInstruction
	for _, f := range cx.fns {
		for _, c := range kit.CallsTo(f, "net/http", "", "NewServeMux") {
			muxCalls = append(muxCalls, c)
		}
	}
	if !r.Require(len(muxCalls) >= 1, "anchor-unresolved: no http.NewServeMux call in %s", c24Pkg) {
		return false
	}
	cx.ctor = muxCalls[0].Parent()
	cx.mux = kit.CallValue(muxCalls[0])
	for i, c := range muxCalls[1:] {
		r.Violation("C24.R3", fmt.Sprintf("%s extra ServeMux #%d", kit.FuncName(c.Parent()), i+1), cx.p.Pos(c.Pos()),
			"a second http.ServeMux is created in the package: handlers registered on it are not behind the auth middleware and the group gating of the first mux")
	}
	return len(r.Floors) == 0 && cx.mux != nil
}

// flagOf: v is a load of a bool field of health.ServerConfig; returns the field name.
func (cx *c24Ctx) flagOf(v ssa.Value) (string, bool) {
	f, base := kit.LoadedField(v)
	if f == nil || base == nil {
		return "", false
	}
	if !c24Named(base.Type(), kit.PkgPath(c24Pkg), "ServerConfig") {
		return "", false
	}
	if b, ok := f.Type().Underlying().(*types.Basic); !ok || b.Kind() != types.Bool {
		return "", false
	}
	return f.Name(), true
}

// returnsHandler: fn's first result is an http.Handler / HandlerFunc (a wrapper, judged by R3).
func c24ReturnsHandler(fn *ssa.Function) bool {
	res := fn.Signature.Results()
	return res.Len() >= 1 && (c24Named(res.At(0).Type(), "net/http", "Handler") || c24Named(res.At(0).Type(), "net/http", "HandlerFunc"))
}

// applyConds merges conditions into a flag context; ok=false when they contradict.
func c24ApplyConds(flags map[string]bool, conds []c24Cond) bool {
	for _, c := range conds {
		if c.empty || c.flag == "" {
			continue
		}
		if old, had := flags[c.flag]; had && old != c.pol {
			return false
		}
		flags[c.flag] = c.pol
	}
	return true
}

// collectRegs walks the frame's function for registrations on mux (a value of that function),
// following package-local helpers that receive the mux. Patterns and handlers are resolved
// through locals, struct literals and loops over constant tables; the flag context is
// accumulated from dominating guards (bool parameters are resolved to the caller's argument).
func (cx *c24Ctx) collectRegs(fr *c24Frame, mux ssa.Value, ctx map[string]bool, depth int, seen map[ssa.CallInstruction]bool) {
	ev := cx.ev
	for _, c := range kit.Calls(fr.fn) {
		cal := kit.CalleeOf(c)
		args := c.Common().Args
		hasMux := false
		for _, a := range args {
			if kit.G8Unwrap(a) == mux {
				hasMux = true
			}
		}
		if !hasMux {
			continue
		}
		flags := map[string]bool{}
		for k, v := range ctx {
			flags[k] = v
		}
		conds, inf := ev.condsAt(c.Block(), nil, fr)
		if inf || !c24ApplyConds(flags, conds) {
			continue // unreachable in this activation
		}
		switch {
		case (c24IsHTTP(cal, "ServeMux", "Handle") || c24IsHTTP(cal, "ServeMux", "HandleFunc")) && kit.G8Unwrap(kit.Receiver(c)) == mux:
			seen[c] = true
			ev.budget = 200000
			pats, allConst := ev.constStrings(kit.Arg(c, 0), fr, c24Alt{choice: map[*ssa.Alloc]int64{}})
			if !allConst || len(pats) == 0 {
				cx.r.Floor("anchor-unresolved: ServeMux pattern at %s cannot be resolved to constants", cx.p.Pos(c.Pos()))
				continue
			}
			for _, pa := range pats {
				pat, _ := kit.ConstString(pa.v)
				if strings.ContainsAny(pat, " {") || !strings.HasPrefix(pat, "/") {
					cx.r.Floor("anchor-unresolved: ServeMux pattern %q uses method/host/wildcard syntax not modelled by C24.R5", pat)
					continue
				}
				pflags := map[string]bool{}
				for k, v := range flags {
					pflags[k] = v
				}
				if pa.infeasible || !c24ApplyConds(pflags, pa.conds) {
					continue
				}
				// the handler, in the same table row
				ev.leaves(kit.Arg(c, 1), fr, c24Alt{choice: pa.choice}, 0, func(h c24Alt) {
					hflags := map[string]bool{}
					for k, v := range pflags {
						hflags[k] = v
					}
					if h.infeasible || !c24ApplyConds(hflags, h.conds) {
						return
					}
					cx.regs = append(cx.regs, &c24Reg{call: c, pattern: pat, handler: h.v, hframe: h.fr, flags: hflags})
				})
			}
		case cal.Static != nil && kit.FuncPkgPath(cal.Static) == kit.PkgPath(c24Pkg) && cal.Static.Blocks != nil && depth < 4 && !c24ReturnsHandler(cal.Static):
			nf := &c24Frame{fn: cal.Static, bind: map[ssa.Value]ssa.Value{}, parent: fr, site: c}
			for i, a := range args {
				if i < len(cal.Static.Params) {
					nf.bind[cal.Static.Params[i]] = a
				}
			}
			for i, a := range args {
				if kit.G8Unwrap(a) == mux && i < len(cal.Static.Params) {
					cx.collectRegs(nf, cal.Static.Params[i], flags, depth+1, seen)
				}
			}
		}
	}
}

// ---------------------------------------------------------------- R3

// isEmptyTokenFact: the fact establishes ServerConfig.TokenHash == "".
func (cx *c24Ctx) isEmptyTokenFact(f kit.G8Fact) bool {
	if f.Nil {
		return false
	}
	b, ok := f.V.(*ssa.BinOp)
	if !ok {
		return false
	}
	isTok := func(v ssa.Value) bool {
		_, ok := kit.G8LoadOfField(v, c24Pkg, "ServerConfig", "TokenHash")
		return ok
	}
	isLenTok := func(v ssa.Value) bool {
		c, ok := v.(*ssa.Call)
		return ok && kit.CalleeOf(c).Built == "len" && isTok(c.Call.Args[0])
	}
	x, y, op := b.X, b.Y, b.Op
	if s, ok := kit.ConstString(x); ok && s == "" && isTok(y) {
		x, y = y, x
	} else if k, ok := kit.ConstInt(x); ok && k == 0 && isLenTok(y) {
		x, y, op = y, x, flipCmp(op)
	}
	if s, ok := kit.ConstString(y); ok && s == "" && isTok(x) {
		return (op == token.EQL && f.Pol) || (op == token.NEQ && !f.Pol)
	}
	if k, ok := kit.ConstInt(y); ok && k == 0 && isLenTok(x) {
		// len(tok) OP 0 with polarity must exclude len > 0
		return cmpHolds(op, 1) != f.Pol
	}
	return false
}

func (cx *c24Ctx) ruleR3() {
	p, r := cx.p, cx.r
	ctorName := kit.FuncName(cx.ctor)
	// http.Server values built in the package
	var servers []*ssa.Alloc
	for _, f := range cx.fns {
		kit.Instrs(f, func(in ssa.Instruction) {
			if a, ok := in.(*ssa.Alloc); ok && c24Named(a.Type(), "net/http", "Server") {
				servers = append(servers, a)
			}
		})
	}
	r.Count("http_server_values", len(servers))
	if !r.Require(len(servers) >= 1, "anchor-unresolved: no http.Server value is built in %s", c24Pkg) {
		return
	}
	for i, a := range servers {
		if a.Parent() != cx.ctor {
			r.Violation("C24.R3", fmt.Sprintf("%s extra http.Server #%d", kit.FuncName(a.Parent()), i+1), p.Pos(a.Pos()),
				"an http.Server is built outside the constructor that wraps the mux: its handler is not subject to the auth wrapper")
		}
	}
	// stores to http.Server.Handler in the package
	type hstore struct {
		st *ssa.Store
	}
	var stores []hstore
	for _, f := range cx.fns {
		kit.Instrs(f, func(in ssa.Instruction) {
			st, ok := in.(*ssa.Store)
			if !ok {
				return
			}
			fa, ok := st.Addr.(*ssa.FieldAddr)
			if !ok {
				return
			}
			if fld := kit.FieldOfAddr(fa); fld != nil && fld.Name() == "Handler" && c24Named(fa.X.Type(), "net/http", "Server") {
				stores = append(stores, hstore{st})
			}
		})
	}
	if len(stores) == 0 {
		r.Violation("C24.R3", ctorName+" server handler", p.Pos(cx.ctor.Pos()), "http.Server.Handler is never set: the server falls back to http.DefaultServeMux (pprof registers itself there) without auth or gating")
	}
	cx.findMiddleware()
	for i, hs := range stores {
		key := fmt.Sprintf("%s server handler #%d", kit.FuncName(hs.st.Parent()), i+1)
		pos := p.Pos(hs.st.Pos())
		if hs.st.Parent() != cx.ctor {
			r.Violation("C24.R3", key, pos, "http.Server.Handler is assigned outside the constructor: the assigned handler replaces the auth-wrapped mux")
			continue
		}
		ok, why := cx.checkHandlerValue(hs.st.Val, hs.st)
		r.Decide(ok, "C24.R3", key, pos, "handler is middleware(mux) on every path where TokenHash may be non-empty, the mux itself otherwise", why)
	}
	if !r.Require(len(cx.mwFns) > 0, "anchor-unresolved: no auth middleware (a handler that consults the token validator and invokes a wrapped handler) in %s", c24Pkg) {
		return
	}
	cx.mw = cx.mwFns[0]
	// registrations: all on the single mux
	seen := map[ssa.CallInstruction]bool{}
	cx.collectRegs(&c24Frame{fn: cx.ctor, bind: map[ssa.Value]ssa.Value{}}, cx.mux, map[string]bool{}, 0, seen)
	for i, rg := range cx.regs {
		rg.ord = i + 1
	}
	r.Count("mux_registrations", len(cx.regs))
	r.Require(len(cx.regs) >= 4, "floor: expected at least 4 ServeMux registrations reachable from %s, found %d", ctorName, len(cx.regs))
	n := 0
	for _, f := range cx.fns {
		for _, c := range kit.Calls(f) {
			cal := kit.CalleeOf(c)
			if (c24IsHTTP(cal, "ServeMux", "Handle") || c24IsHTTP(cal, "ServeMux", "HandleFunc")) && !seen[c] {
				n++
				r.Violation("C24.R3", fmt.Sprintf("%s registration on another mux #%d", kit.FuncName(f), n), p.Pos(c.Pos()),
					"a handler is registered on a ServeMux that is not the one wrapped by the auth middleware: it is served without token check or group gating if that mux is reachable")
			}
			if cal.Pkg == "net/http" && cal.Recv == "" {
				switch cal.Name {
				case "Handle", "HandleFunc", "ListenAndServe", "ListenAndServeTLS", "Serve", "ServeTLS":
					n++
					r.Violation("C24.R3", fmt.Sprintf("%s http.%s #%d", kit.FuncName(f), cal.Name, n), p.Pos(c.Pos()),
						"package-level net/http serving/registration bypasses the wrapped mux (DefaultServeMux also carries the pprof handlers)")
				}
			}
		}
	}
	r.OK("C24.R3", "single mux", p.Pos(cx.mux.Pos()), "%d registrations, all on the ServeMux created in %s", len(cx.regs), ctorName)
	// the mux must not escape otherwise: uses of the mux value
	cx.checkMuxUses(cx.ctor, cx.mux, 0)
	// exported accessors returning a handler
	for _, f := range cx.fns {
		if f.Parent() != nil || f.Object() == nil || !f.Object().Exported() {
			continue
		}
		res := f.Signature.Results()
		for i := 0; i < res.Len(); i++ {
			t := res.At(i).Type()
			if !(c24Named(t, "net/http", "Handler") || c24Named(t, "net/http", "ServeMux") || c24Named(t, "net/http", "HandlerFunc")) {
				continue
			}
			for j, ret := range kit.Returns(f) {
				if ret.Block() == f.Recover {
					continue
				}
				v := kit.ReturnResult(ret, i)
				ok := false
				for _, leaf := range kit.PhiLeaves(v) {
					ok = false
					if fld, base := kit.LoadedField(leaf); fld != nil && fld.Name() == "Handler" && c24Named(base.Type(), "net/http", "Server") {
						ok = true
					}
					if kit.IsNilConst(leaf) {
						ok = true
					}
					if !ok {
						break
					}
				}
				r.Decide(ok, "C24.R3", fmt.Sprintf("%s returned handler #%d", kit.FuncName(f), j+1), p.Pos(ret.Pos()),
					"returns the http.Server's (wrapped) handler",
					"an exported function hands out a handler other than http.Server.Handler: embedding it serves the API without the auth wrapper")
			}
		}
	}
}

// checkMuxUses: the mux may only be used as registration receiver, as argument of the
// middleware / package-local helpers, or converted to http.Handler for the server.
func (cx *c24Ctx) checkMuxUses(fn *ssa.Function, mux ssa.Value, depth int) {
	n := 0
	var visit func(v ssa.Value)
	seen := map[ssa.Value]bool{}
	visit = func(v ssa.Value) {
		if seen[v] || v.Referrers() == nil {
			return
		}
		seen[v] = true
		for _, ref := range *v.Referrers() {
			switch x := ref.(type) {
			case *ssa.MakeInterface:
				visit(x)
			case *ssa.ChangeInterface:
				visit(x)
			case *ssa.Phi:
				visit(x)
			case *ssa.Store:
				if fa, ok := x.Addr.(*ssa.FieldAddr); ok && c24Named(fa.X.Type(), "net/http", "Server") {
					continue // judged by the handler-store obligation
				}
				if a, ok := x.Addr.(*ssa.Alloc); ok && x.Val == v {
					visit(a) // local variable
					continue
				}
				n++
				cx.r.Violation("C24.R3", fmt.Sprintf("%s mux stored #%d", kit.FuncName(fn), n), cx.p.Pos(x.Pos()),
					"the raw ServeMux is stored where other code can serve it without the auth wrapper")
			case *ssa.UnOp:
				visit(x)
			case *ssa.Return:
				n++
				cx.r.Violation("C24.R3", fmt.Sprintf("%s mux returned #%d", kit.FuncName(fn), n), cx.p.Pos(x.Pos()),
					"the raw ServeMux is returned: callers can serve it without the auth wrapper")
			case ssa.CallInstruction:
				cal := kit.CalleeOf(x)
				if cal.Pkg == "net/http" && cal.Recv == "ServeMux" {
					continue
				}
				if cal.Static != nil && kit.FuncPkgPath(cal.Static) == kit.PkgPath(c24Pkg) {
					if !c24ReturnsHandler(cal.Static) && depth < 4 {
						for i, a := range x.Common().Args {
							if a == v && i < len(cal.Static.Params) {
								cx.checkMuxUses(cal.Static, cal.Static.Params[i], depth+1)
							}
						}
					}
					continue
				}
				n++
				cx.r.Violation("C24.R3", fmt.Sprintf("%s mux passed to %s #%d", kit.FuncName(fn), cal.String(), n), cx.p.Pos(x.Pos()),
					"the raw ServeMux is handed to code outside the package's auth wrapper")
			}
		}
	}
	visit(mux)
}

// servingFunc: the function that serves requests for handler value v when v is a closure or a
// (pointer to a) struct whose type has a ServeHTTP method; nil otherwise.
func (cx *c24Ctx) servingFunc(v ssa.Value) *ssa.Function {
	switch x := v.(type) {
	case *ssa.MakeClosure:
		f, _ := x.Fn.(*ssa.Function)
		return f
	case *ssa.Function:
		return x
	}
	t := v.Type()
	if _, isAlloc := v.(*ssa.Alloc); !isAlloc {
		if _, isStruct := t.Underlying().(*types.Struct); !isStruct {
			return nil
		}
	}
	for _, tt := range []types.Type{t, types.NewPointer(t)} {
		ms := cx.p.SSA.MethodSets.MethodSet(tt)
		for i := 0; i < ms.Len(); i++ {
			if ms.At(i).Obj().Name() == "ServeHTTP" {
				if f := cx.p.SSA.MethodValue(ms.At(i)); f != nil && f.Blocks != nil {
					return f
				}
			}
		}
	}
	return nil
}

// reachesValidator: f (or package-local callees, 2 levels) calls a token validator.
func (cx *c24Ctx) reachesValidator(f *ssa.Function, depth int) bool {
	for _, c := range kit.Calls(f) {
		cal := kit.CalleeOf(c)
		if cal.Static == nil {
			continue
		}
		if cx.validators[cal.Static] {
			return true
		}
		if depth < 2 && cal.Static.Blocks != nil && kit.FuncPkgPath(cal.Static) == kit.PkgPath(c24Pkg) && cx.reachesValidator(cal.Static, depth+1) {
			return true
		}
	}
	return false
}

func c24IsRequestHandlerSig(f *ssa.Function) bool {
	hasW, hasR := false, false
	for _, prm := range f.Params {
		if c24Named(prm.Type(), "net/http", "ResponseWriter") {
			hasW = true
		}
		if c24Named(prm.Type(), "net/http", "Request") {
			hasR = true
		}
	}
	return hasW && hasR
}

func (cx *c24Ctx) addMw(f *ssa.Function) {
	for _, g := range cx.mwFns {
		if g == f {
			return
		}
	}
	cx.mwFns = append(cx.mwFns, f)
}

// findMiddleware locates the auth middleware by role: request-serving functions of the package
// (closures or ServeHTTP methods) that invoke a wrapped handler's ServeHTTP and consult the
// token validator.
func (cx *c24Ctx) findMiddleware() {
	for _, f := range cx.fns {
		if !c24IsRequestHandlerSig(f) {
			continue
		}
		deleg := false
		for _, c := range kit.Calls(f) {
			if c24IsServeHTTP(c) {
				deleg = true
			}
		}
		if deleg && cx.reachesValidator(f, 0) {
			cx.addMw(f)
		}
	}
}

// resolvesToMux: some alternative of v is the package's ServeMux.
func (cx *c24Ctx) resolvesToMux(v ssa.Value, fr *c24Frame) bool {
	hit := false
	cx.ev.budget = 20000
	cx.ev.leaves(v, fr, c24Alt{choice: map[*ssa.Alloc]int64{}}, 0, func(a c24Alt) {
		if a.v == cx.mux {
			hit = true
		}
	})
	return hit
}

// wrapsMuxValue: the middleware value (closure / struct) holds the mux as its wrapped handler.
func (cx *c24Ctx) wrapsMuxValue(v ssa.Value, fr *c24Frame) bool {
	switch x := v.(type) {
	case *ssa.MakeClosure:
		for _, b := range x.Bindings {
			if cx.resolvesToMux(b, fr) {
				return true
			}
			if a, ok := b.(*ssa.Alloc); ok {
				found := false
				cx.ev.budget = 20000
				cx.ev.read(a, nil, fr, c24Alt{choice: map[*ssa.Alloc]int64{}}, 0, func(al c24Alt) {
					if al.v == cx.mux {
						found = true
					}
				})
				if found {
					return true
				}
			}
		}
	case *ssa.Alloc:
		if x.Referrers() == nil {
			return false
		}
		for _, ref := range *x.Referrers() {
			fa, ok := ref.(*ssa.FieldAddr)
			if !ok || fa.Referrers() == nil {
				continue
			}
			for _, r2 := range *fa.Referrers() {
				if st, ok := r2.(*ssa.Store); ok && st.Addr == fa && cx.resolvesToMux(st.Val, fr) {
					return true
				}
			}
		}
	}
	return false
}

// checkHandlerValue: every alternative of the stored handler (followed through package-local
// wrapper functions) is either an auth middleware around the mux or, under an established
// TokenHash == "" condition, the mux itself.
func (cx *c24Ctx) checkHandlerValue(v ssa.Value, at *ssa.Store) (bool, string) {
	ev := &c24Eval{cx: cx, budget: 200000}
	ev.intoCalls = func(f *ssa.Function) bool { return c24ReturnsHandler(f) }
	var alts []c24Alt
	ev.leaves(v, &c24Frame{fn: cx.ctor, bind: map[ssa.Value]ssa.Value{}}, c24Alt{choice: map[*ssa.Alloc]int64{}}, 0, func(a c24Alt) {
		if !a.infeasible {
			alts = append(alts, a)
		}
	})
	if len(alts) == 0 {
		return false, "the server handler cannot be resolved"
	}
	for _, a := range alts {
		if a.v == cx.mux {
			empty := false
			for _, c := range a.conds {
				if c.empty && c.pol {
					empty = true
				}
			}
			if !empty {
				return false, "the unwrapped ServeMux becomes the server handler on a path where TokenHash may be non-empty: with a token configured, requests are served without any token check"
			}
			continue
		}
		if f := cx.servingFunc(a.v); f != nil && c24IsRequestHandlerSig(f) {
			deleg := false
			for _, c := range kit.Calls(f) {
				if c24IsServeHTTP(c) {
					deleg = true
				}
			}
			if deleg && cx.wrapsMuxValue(a.v, a.fr) {
				cx.addMw(f) // judged by R1 whether or not it consults the validator
				continue
			}
		}
		return false, "the server handler is neither an auth middleware around the package's ServeMux nor the mux itself (nil falls back to http.DefaultServeMux, which carries pprof): requests reach handlers the auth middleware never sees"
	}
	return true, ""
}

// ---------------------------------------------------------------- R1 / R2

// c24Env carries which SSA values denote "the request" and "the request path" in the function
// being examined (extended when a helper is entered).
type c24Env struct {
	req  map[ssa.Value]bool
	path map[ssa.Value]bool
}

func (e *c24Env) isReq(v ssa.Value) bool { return e.req[v] }

// isPath: v is r.URL.Path loaded from a request value, untransformed, or a parameter bound to it.
func (e *c24Env) isPath(v ssa.Value) bool {
	if e.path[v] {
		return true
	}
	base, ok := kit.G8LoadOfField(v, "net/url", "URL", "Path")
	if !ok {
		return false
	}
	rb, ok := kit.G8LoadOfField(base, "net/http", "Request", "URL")
	return ok && e.req[rb]
}

func (e *c24Env) fromReq(v ssa.Value) bool {
	return kit.G8Derives(v, func(x ssa.Value) bool { return e.req[x] || e.path[x] })
}

func c24EnvFor(fn *ssa.Function) *c24Env {
	e := &c24Env{req: map[ssa.Value]bool{}, path: map[ssa.Value]bool{}}
	for _, prm := range fn.Params {
		if c24Named(prm.Type(), "net/http", "Request") {
			e.req[prm] = true
		}
	}
	return e
}

// authAccept builds the acceptance predicate for facts inside fn under env.
func (cx *c24Ctx) authAccept(env *c24Env, depth int) func(kit.G8Fact) bool {
	var acc func(f kit.G8Fact) bool
	acc = func(f kit.G8Fact) bool {
		if f.Nil {
			return false
		}
		// no token configured: the statement only constrains servers with a token
		if cx.isEmptyTokenFact(f) {
			return true
		}
		v := f.V
		// (a) exempt hit by map lookup
		var lk *ssa.Lookup
		switch x := v.(type) {
		case *ssa.Lookup:
			lk = x
		case *ssa.Extract:
			if l, ok := x.Tuple.(*ssa.Lookup); ok {
				lk = l
			}
		}
		if lk != nil {
			if _, isMap := lk.X.Type().Underlying().(*types.Map); !isMap {
				return false
			}
			u, ok := lk.X.(*ssa.UnOp)
			if !ok || u.Op != token.MUL {
				return false
			}
			g, ok := u.X.(*ssa.Global)
			if !ok || g.Pkg == nil || g.Pkg.Pkg.Path() != kit.PkgPath(c24Pkg) {
				return false
			}
			if !f.Pol {
				return false
			}
			if env.isPath(lk.Index) {
				cx.exemptGlobals[g] = true
				return true
			}
			if env.fromReq(lk.Index) {
				cx.noteInexact(lk.Pos(), "the exempt map is looked up with a transformed request path")
			}
			return false
		}
		// (b) exempt hit by comparison with a constant
		if b, ok := v.(*ssa.BinOp); ok && (b.Op == token.EQL || b.Op == token.NEQ) {
			x, y := b.X, b.Y
			if _, isC := kit.ConstString(x); isC {
				x, y = y, x
			}
			if s, isC := kit.ConstString(y); isC && (b.Op == token.EQL) == f.Pol {
				if env.isPath(x) {
					cx.exemptConsts[s] = true
					return true
				}
				if s != "" && strings.HasPrefix(s, "/") && env.fromReq(x) {
					cx.noteInexact(b.Pos(), "a transformed request path is compared with "+s)
				}
			}
			return false
		}
		c, ok := v.(*ssa.Call)
		if !ok {
			return false
		}
		cal := kit.CalleeOf(c)
		// (b') exempt hit by membership in a package-level constant slice
		if cal.Pkg == "slices" && (cal.Name == "Contains" || cal.Name == "Index") && len(c.Call.Args) == 2 {
			if cal.Name == "Index" {
				return false // used through a comparison; not an accepted idiom
			}
			u, ok := c.Call.Args[0].(*ssa.UnOp)
			if !ok || u.Op != token.MUL {
				return false
			}
			g, ok := u.X.(*ssa.Global)
			if !ok || g.Pkg == nil || g.Pkg.Pkg.Path() != kit.PkgPath(c24Pkg) || !f.Pol {
				return false
			}
			if env.isPath(c.Call.Args[1]) {
				cx.exemptSlices[g] = true
				return true
			}
			if env.fromReq(c.Call.Args[1]) {
				cx.noteInexact(c.Pos(), "the exempt list is searched with a transformed request path")
			}
			return false
		}
		// inexact string predicates on the path used as exemption
		if cal.Pkg == "strings" || cal.Pkg == "path" || cal.Pkg == "regexp" || cal.Pkg == "path/filepath" {
			for _, a := range c.Call.Args {
				if env.fromReq(a) && f.Pol {
					cx.noteInexact(c.Pos(), "the request path is tested with "+cal.String()+" instead of exact membership")
				}
			}
			return false
		}
		if cal.Static == nil {
			return false
		}
		// (c) token validator
		if cx.validators[cal.Static] {
			if !f.Pol {
				return false
			}
			for i, prm := range cal.Static.Params {
				if b, ok := prm.Type().Underlying().(*types.Basic); ok && b.Kind() == types.String && i < len(c.Call.Args) {
					if !env.fromReq(c.Call.Args[i]) {
						return false
					}
				}
			}
			return true
		}
		// (d) package-local bool helper: every way it yields this outcome must be accepted
		if kit.FuncPkgPath(cal.Static) != kit.PkgPath(c24Pkg) || depth >= 2 || cal.Static.Blocks == nil {
			return false
		}
		res := cal.Static.Signature.Results()
		if res.Len() != 1 || !types.Identical(res.At(0).Type(), types.Typ[types.Bool]) {
			return false
		}
		sub := &c24Env{req: map[ssa.Value]bool{}, path: map[ssa.Value]bool{}}
		for i, a := range c.Call.Args {
			if i >= len(cal.Static.Params) {
				break
			}
			if env.isReq(a) {
				sub.req[cal.Static.Params[i]] = true
			}
			if env.isPath(a) {
				sub.path[cal.Static.Params[i]] = true
			}
		}
		// free variables of closures are not followed
		ws := kit.G8Witnesses(cal.Static, 0, f.Pol)
		if len(ws) == 0 {
			return false
		}
		subAcc := cx.authAccept(sub, depth+1)
		for _, w := range ws {
			if !w.Passes(subAcc) {
				return false
			}
		}
		return true
	}
	return acc
}

func (cx *c24Ctx) noteInexact(pos token.Pos, msg string) {
	for _, q := range cx.inexactPos {
		if q == pos {
			return
		}
	}
	cx.inexactPos = append(cx.inexactPos, pos)
	cx.inexact = append(cx.inexact, msg)
}

func c24IsServeHTTP(c ssa.CallInstruction) bool {
	cal := kit.CalleeOf(c)
	return cal.Name == "ServeHTTP" && cal.Pkg == "net/http"
}

// mwAll: the middleware's request-serving functions with their nested closures.
func (cx *c24Ctx) mwAll() []*ssa.Function {
	seen := map[*ssa.Function]bool{}
	var out []*ssa.Function
	for _, m := range cx.mwFns {
		for _, f := range kit.WithClosures(m) {
			if !seen[f] {
				seen[f] = true
				out = append(out, f)
			}
		}
	}
	return out
}

func (cx *c24Ctx) ruleR1() {
	p, r := cx.p, cx.r
	if cx.mw == nil {
		return
	}
	n := 0
	for _, f := range cx.mwAll() {
		env := c24EnvFor(f)
		k := 0
		for _, c := range kit.Calls(f) {
			if !c24IsServeHTTP(c) {
				continue
			}
			k++
			n++
			key := fmt.Sprintf("%s delegation #%d", kit.FuncName(f), k)
			if len(env.req) == 0 {
				r.Violation("C24.R1", key, p.Pos(c.Pos()), "the wrapped handler is invoked from a function without a request parameter to authenticate")
				continue
			}
			ok := kit.G8MustPass(c, cx.authAccept(env, 0))
			r.Decide(ok, "C24.R1", key, p.Pos(c.Pos()),
				"reached only through an exact exempt-path hit or a successful validation of the request's token",
				"a path reaches next.ServeHTTP without an exact exempt-path hit and without a successful token validation: a request without the valid token is dispatched (no 401)")
		}
	}
	r.Count("middleware_delegation_sites", n)
	// the request URL must not be rewritten between the decision and the dispatch
	nw := 0
	for _, f := range cx.mwAll() {
		kit.Instrs(f, func(in ssa.Instruction) {
			st, ok := in.(*ssa.Store)
			if !ok {
				return
			}
			fa, ok := st.Addr.(*ssa.FieldAddr)
			if !ok {
				return
			}
			fld := kit.FieldOfAddr(fa)
			if c24Named(fa.X.Type(), "net/url", "URL") || (c24Named(fa.X.Type(), "net/http", "Request") && fld != nil && (fld.Name() == "URL" || fld.Name() == "RequestURI")) {
				nw++
				r.Violation("C24.R1", fmt.Sprintf("%s request URL rewritten #%d", kit.FuncName(f), nw), p.Pos(st.Pos()),
					"the auth middleware modifies the request URL: the path that was judged (exempt or not) is not the path the mux dispatches, so a non-exempt endpoint can be reached through an exempt spelling")
			}
		})
	}
	r.Require(n >= 1, "anchor-unresolved: the auth middleware %s never invokes the wrapped handler", kit.FuncName(cx.mw))
	// ServeHTTP delegations elsewhere in the package are listed (they are behind the wrapper
	// as long as R3 holds)
	inMw := map[*ssa.Function]bool{}
	for _, f := range cx.mwAll() {
		inMw[f] = true
	}
	for _, f := range cx.fns {
		if inMw[f] {
			continue
		}
		for _, c := range kit.Calls(f) {
			if c24IsServeHTTP(c) {
				r.Infof("C24.R1", kit.FuncName(f)+" other delegation", p.Pos(c.Pos()), "ServeHTTP delegation outside the auth middleware (inside the wrapped mux per R3)")
			}
		}
	}
}

func (cx *c24Ctx) ruleR2() {
	p, r := cx.p, cx.r
	if cx.mw == nil {
		return
	}
	for i, msg := range cx.inexact {
		r.Violation("C24.R2", fmt.Sprintf("%s inexact exemption #%d", kit.FuncName(cx.mw), i+1), p.Pos(cx.inexactPos[i]),
			"%s: a non-exempt path spelled to satisfy the test (e.g. /healthx, /HEALTH, /health/) bypasses the 401", msg)
	}
	have := map[string]bool{}
	for s := range cx.exemptConsts {
		have[s] = true
	}
	for g := range cx.exemptGlobals {
		gname := g.Name()
		// initialisation: MapUpdate on the map stored into g inside the package initialiser
		var inits []*ssa.MapUpdate
		if sp := p.SSAPkg(c24Pkg); sp != nil {
			if initFn := sp.Func("init"); initFn != nil {
				kit.Instrs(initFn, func(in ssa.Instruction) {
					if mu, ok := in.(*ssa.MapUpdate); ok && cx.mapIsGlobal(mu.Map, g) {
						inits = append(inits, mu)
					}
				})
			}
		}
		for _, f := range p.RepoFuncs() {
			kit.Instrs(f, func(in ssa.Instruction) {
				switch x := in.(type) {
				case *ssa.Store:
					if x.Addr == g {
						r.Violation("C24.R2", "exempt map "+gname+" reassigned in "+kit.FuncName(f), p.Pos(x.Pos()), "the exempt map is replaced at run time: the exempt set is no longer the fixed five paths")
					}
				case *ssa.MapUpdate:
					if cx.mapIsGlobal(x.Map, g) {
						r.Violation("C24.R2", "exempt map "+gname+" written in "+kit.FuncName(f), p.Pos(x.Pos()), "an entry is added to the exempt map at run time: that path bypasses the token check")
					}
				case ssa.CallInstruction:
					cal := kit.CalleeOf(x)
					for _, a := range x.Common().Args {
						if cx.mapIsGlobal(a, g) && cal.Built != "len" {
							r.Violation("C24.R2", "exempt map "+gname+" passed to "+cal.String()+" in "+kit.FuncName(f), p.Pos(x.Pos()), "the exempt map escapes to code that can modify it (delete/clear/maps.Copy): the exempt set is not fixed")
						}
					}
				}
			})
		}
		for _, mu := range inits {
			k, ok1 := kit.ConstString(mu.Key)
			b, ok2 := kit.ConstBool(mu.Value)
			if !ok1 {
				r.Violation("C24.R2", "exempt map "+gname+" non-constant key", p.Pos(mu.Pos()), "an exempt key is computed: the exempt set cannot be the fixed five paths")
				continue
			}
			if _, isBoolMap := mu.Value.Type().Underlying().(*types.Basic); isBoolMap && ok2 && !b {
				continue // explicit false entry: not exempt for the value form
			}
			have[k] = true
		}
		r.Count("exempt_map_entries", len(inits))
	}
	for g := range cx.exemptSlices {
		gname := g.Name()
		st := cx.globalInitStore(g)
		n := 0
		if st != nil {
			cx.ev.budget = 20000
			cx.ev.arrayOf(st.Val, nil, c24Alt{choice: map[*ssa.Alloc]int64{}}, 0, func(arr *ssa.Alloc, _ *c24Frame, _ c24Alt) {
				if arr.Referrers() == nil {
					return
				}
				for _, ref := range *arr.Referrers() {
					ia, ok := ref.(*ssa.IndexAddr)
					if !ok || ia.Referrers() == nil {
						continue
					}
					for _, r2 := range *ia.Referrers() {
						if es, ok := r2.(*ssa.Store); ok && es.Addr == ia {
							n++
							if k, isC := kit.ConstString(es.Val); isC {
								have[k] = true
							} else {
								r.Violation("C24.R2", "exempt list "+gname+" non-constant entry", p.Pos(es.Pos()), "an exempt entry is computed: the exempt set cannot be the fixed five paths")
							}
						}
					}
				}
			})
		}
		if st == nil || n == 0 {
			r.Violation("C24.R2", "exempt list "+gname+" initialiser", p.Pos(g.Pos()), "the exempt list is not a constant literal: the exempt set cannot be the fixed five paths")
		}
		r.Count("exempt_list_entries", n)
		for _, f := range p.RepoFuncs() {
			kit.Instrs(f, func(in ssa.Instruction) {
				switch x := in.(type) {
				case *ssa.Store:
					if x.Addr == g {
						r.Violation("C24.R2", "exempt list "+gname+" reassigned in "+kit.FuncName(f), p.Pos(x.Pos()), "the exempt list is replaced or extended at run time: the exempt set is no longer the fixed five paths")
					}
					if ia, ok := x.Addr.(*ssa.IndexAddr); ok {
						if u, ok := ia.X.(*ssa.UnOp); ok && u.Op == token.MUL && u.X == g {
							r.Violation("C24.R2", "exempt list "+gname+" element written in "+kit.FuncName(f), p.Pos(x.Pos()), "an element of the exempt list is overwritten at run time: that path bypasses the token check")
						}
					}
				case ssa.CallInstruction:
					cal := kit.CalleeOf(x)
					for _, a := range x.Common().Args {
						if u, ok := a.(*ssa.UnOp); ok && u.Op == token.MUL && u.X == g {
							if cal.Built == "len" || cal.Built == "cap" || (cal.Pkg == "slices" && (cal.Name == "Contains" || cal.Name == "Index")) {
								continue
							}
							r.Violation("C24.R2", "exempt list "+gname+" passed to "+cal.String()+" in "+kit.FuncName(f), p.Pos(x.Pos()), "the exempt list escapes to code that can modify it: the exempt set is not fixed")
						}
					}
				}
			})
		}
	}
	r.Require(len(have) > 0, "anchor-unresolved: no exempt-path test found in the auth middleware")
	spec := map[string]bool{}
	for _, s := range c24SpecExempt {
		spec[s] = true
		r.Decide(have[s], "C24.R2", "exempt path "+s, p.Pos(cx.mw.Pos()), "exempt as specified",
			"the specified exempt endpoint "+s+" is not in the exempt set: probes/splash are answered 401 (the exempt endpoints are exactly the five of the statement)")
	}
	var extra []string
	for s := range have {
		if !spec[s] {
			extra = append(extra, s)
		}
	}
	sort.Strings(extra)
	for _, s := range extra {
		r.Violation("C24.R2", "exempt path "+s, p.Pos(cx.mw.Pos()), "path %s is exempt from authentication but is not one of the five specified endpoints: it is served without a token", s)
	}
}

// mapIsGlobal: v is (a load of) global g, or the MakeMap stored into it.
func (cx *c24Ctx) mapIsGlobal(v ssa.Value, g *ssa.Global) bool {
	if u, ok := v.(*ssa.UnOp); ok && u.Op == token.MUL && u.X == g {
		return true
	}
	if mm, ok := v.(*ssa.MakeMap); ok && mm.Referrers() != nil {
		for _, ref := range *mm.Referrers() {
			if st, ok := ref.(*ssa.Store); ok && st.Addr == g {
				return true
			}
		}
	}
	return false
}

// ---------------------------------------------------------------- R4

// c24TokEnv: which SSA values of the function under examination are the presented token and
// which are digests of the whole token (extended when a helper is entered).
type c24TokEnv struct {
	tok map[ssa.Value]bool
	dig map[ssa.Value]bool
}

func (e *c24TokEnv) fromTok(x ssa.Value) bool {
	return kit.G8Derives(x, func(y ssa.Value) bool { return e.tok[y] || e.dig[y] })
}

// fullDigest: v is (a full slice / load of) a crypto digest of the whole token, or a value
// already known as such.
func (e *c24TokEnv) fullDigest(v ssa.Value) bool {
	if sl, ok := v.(*ssa.Slice); ok {
		if sl.Low != nil || sl.High != nil || sl.Max != nil {
			return false
		}
		v = sl.X
	}
	if e.dig[v] {
		return true
	}
	if u, ok := v.(*ssa.UnOp); ok && u.Op == token.MUL {
		v = u.X
	}
	isDigest := func(x ssa.Value) bool {
		if e.dig[x] {
			return true
		}
		c, ok := x.(*ssa.Call)
		if !ok || len(c.Call.Args) == 0 {
			return false
		}
		cal := kit.CalleeOf(c)
		if !strings.HasPrefix(cal.Pkg, "crypto/") && !strings.HasPrefix(cal.Pkg, "golang.org/x/crypto/") {
			return false
		}
		a := c.Call.Args[0]
		if cv, ok := a.(*ssa.Convert); ok {
			a = cv.X
		}
		return e.tok[a]
	}
	if isDigest(v) {
		return true
	}
	a, ok := v.(*ssa.Alloc)
	if !ok || a.Referrers() == nil {
		return false
	}
	n, good := 0, 0
	for _, ref := range *a.Referrers() {
		if st, ok := ref.(*ssa.Store); ok && st.Addr == a {
			n++
			if isDigest(st.Val) {
				good++
			}
		}
	}
	return n >= 1 && n == good
}

func c24IsHashLoad(x ssa.Value) bool {
	return kit.G8Derives(x, func(y ssa.Value) bool {
		_, ok := kit.G8LoadOfField(y, c24Pkg, "ServerConfig", "TokenHash")
		return ok
	})
}

func (cx *c24Ctx) bcryptFact(env *c24TokEnv) func(kit.G8Fact) bool {
	return func(f kit.G8Fact) bool {
		if !f.Nil || !f.Pol {
			return false
		}
		c, ok := f.V.(*ssa.Call)
		if !ok || !kit.CalleeOf(c).Is("golang.org/x/crypto/bcrypt", "", "CompareHashAndPassword") {
			return false
		}
		pw := c.Call.Args[1]
		if cv, ok := pw.(*ssa.Convert); ok {
			pw = cv.X
		}
		return c24IsHashLoad(c.Call.Args[0]) && env.tok[pw]
	}
}

// validatorAccept: facts under which the validator may answer true. cacheFields collects the
// Server fields used as digest cache.
func (cx *c24Ctx) validatorAccept(env *c24TokEnv, cacheFields map[*types.Var]bool, depth int) func(kit.G8Fact) bool {
	bcryptOK := cx.bcryptFact(env)
	var acc func(f kit.G8Fact) bool
	acc = func(f kit.G8Fact) bool {
		if bcryptOK(f) {
			return true
		}
		if f.Nil {
			return false
		}
		var a, b ssa.Value
		switch x := f.V.(type) {
		case *ssa.BinOp:
			xl, xr := x.X, x.Y
			if _, isConst := xl.(*ssa.Const); isConst {
				xl, xr = xr, xl
			}
			k, isK := kit.ConstInt(xr)
			if c, ok := xl.(*ssa.Call); ok && isK && kit.CalleeOf(c).Is("crypto/subtle", "", "ConstantTimeCompare") {
				if !((x.Op == token.EQL && k == 1 && f.Pol) || (x.Op == token.NEQ && k == 1 && !f.Pol)) {
					return false
				}
				a, b = c.Call.Args[0], c.Call.Args[1]
			} else if (x.Op == token.EQL && f.Pol) || (x.Op == token.NEQ && !f.Pol) {
				a, b = x.X, x.Y
			} else {
				return false
			}
		case *ssa.Call:
			cal := kit.CalleeOf(x)
			if f.Pol && (cal.Is("bytes", "", "Equal") || cal.Is("crypto/hmac", "", "Equal")) {
				a, b = x.Call.Args[0], x.Call.Args[1]
				break
			}
			// package-local bool helper fed with the token or its digest
			if cal.Static == nil || cal.Static.Blocks == nil || kit.FuncPkgPath(cal.Static) != kit.PkgPath(c24Pkg) || cx.validators[cal.Static] || depth >= 2 {
				return false
			}
			res := cal.Static.Signature.Results()
			if res.Len() != 1 || !types.Identical(res.At(0).Type(), types.Typ[types.Bool]) {
				return false
			}
			sub := &c24TokEnv{tok: map[ssa.Value]bool{}, dig: map[ssa.Value]bool{}}
			for i, arg := range x.Call.Args {
				if i >= len(cal.Static.Params) {
					break
				}
				raw := arg
				if cv, ok := raw.(*ssa.Convert); ok {
					raw = cv.X
				}
				switch {
				case env.tok[raw]:
					sub.tok[cal.Static.Params[i]] = true
				case c24IsArrayOrSlice(arg.Type()) && env.fullDigest(arg):
					sub.dig[cal.Static.Params[i]] = true
				}
			}
			if len(sub.tok)+len(sub.dig) == 0 {
				return false
			}
			ws := kit.G8Witnesses(cal.Static, 0, f.Pol)
			if len(ws) == 0 {
				return false
			}
			subAcc := cx.validatorAccept(sub, cacheFields, depth+1)
			for _, w := range ws {
				if !w.Passes(subAcc) {
					return false
				}
			}
			return true
		default:
			return false
		}
		fieldOf := func(v ssa.Value) *types.Var {
			var hit *types.Var
			kit.G8Derives(v, func(y ssa.Value) bool {
				if fa, ok := y.(*ssa.FieldAddr); ok && c24Named(fa.X.Type(), kit.PkgPath(c24Pkg), "Server") {
					hit = kit.FieldOfAddr(fa)
					return true
				}
				return false
			})
			return hit
		}
		if env.fromTok(b) && !env.fromTok(a) {
			a, b = b, a
		}
		if !env.fromTok(a) || env.fromTok(b) {
			return false
		}
		// the cache must be keyed by the digest of the whole token and compared in full
		if !env.fullDigest(a) || !c24FullValue(b) {
			return false
		}
		fld := fieldOf(b)
		if fld == nil || fld.Name() == "cfg" {
			return false // comparing the token with the configured hash itself is not authentication by bcrypt
		}
		cacheFields[fld] = true
		return true
	}
	return acc
}

func (cx *c24Ctx) ruleR4() {
	p, r := cx.p, cx.r
	var vs []*ssa.Function
	for f := range cx.validators {
		vs = append(vs, f)
	}
	sort.Slice(vs, func(i, j int) bool { return vs[i].Pos() < vs[j].Pos() })
	for _, v := range vs {
		vname := kit.FuncName(v)
		var tok ssa.Value
		for _, prm := range v.Params {
			if b, ok := prm.Type().Underlying().(*types.Basic); ok && b.Kind() == types.String {
				tok = prm
			}
		}
		if !r.Require(tok != nil, "anchor-unresolved: validator %s has no string token parameter", vname) {
			continue
		}
		env := &c24TokEnv{tok: map[ssa.Value]bool{tok: true}, dig: map[ssa.Value]bool{}}
		bcryptOK := cx.bcryptFact(env)
		cacheFields := map[*types.Var]bool{}
		acc := cx.validatorAccept(env, cacheFields, 0)
		ws := kit.G8Witnesses(v, 0, true)
		r.Count("validator_true_returns", len(ws))
		if len(ws) == 0 {
			r.Violation("C24.R4", vname+" never true", p.Pos(v.Pos()), "the validator can never return true: every authenticated request is rejected")
		}
		for i, w := range ws {
			r.Decide(w.Passes(acc), "C24.R4", fmt.Sprintf("%s true-return #%d", vname, i+1), p.Pos(w.Pos()),
				"true only after bcrypt success or a full-digest cache hit",
				"the validator returns true on a path without bcrypt.CompareHashAndPassword(TokenHash, token) == nil and without a hit of a cache keyed by the digest of the whole token: a token that does not match the configured hash is accepted")
		}
		// cache fields: written only after bcrypt success, with the validated token's digest
		var cfs []*types.Var
		for f := range cacheFields {
			cfs = append(cfs, f)
		}
		sort.Slice(cfs, func(i, j int) bool { return cfs[i].Name() < cfs[j].Name() })
		for _, fld := range cfs {
			n := 0
			for _, a := range p.FieldAccessesOfKind(fld, kit.FieldStore, kit.FieldAddrUse) {
				if a.Kind == kit.FieldAddrUse {
					if _, isSlice := a.Instr.(*ssa.Slice); isSlice {
						continue // address taken for reading
					}
				}
				n++
				key := fmt.Sprintf("%s cache %s write #%d in %s", vname, fld.Name(), n, kit.FuncName(a.Fn))
				ok := false
				valOK := func(e *c24TokEnv, val ssa.Value) bool {
					if c24IsArrayOrSlice(val.Type()) {
						return e.fullDigest(val)
					}
					return e.fromTok(val)
				}
				switch {
				case a.Kind != kit.FieldStore:
				case a.Fn == v:
					ok = kit.G8MustPass(a.Instr, bcryptOK) && valOK(env, a.Val)
				case kit.FuncPkgPath(a.Fn) == kit.PkgPath(c24Pkg) && a.Fn.Parent() == nil:
					// store helper: every call site lies in the validator behind the bcrypt success
					// and passes the validated token / its digest
					sites := p.StaticCallers(a.Fn)
					ok = len(sites) > 0
					for _, site := range sites {
						if site.Parent() != v || !kit.G8MustPass(site, bcryptOK) {
							ok = false
							break
						}
						sub := &c24TokEnv{tok: map[ssa.Value]bool{}, dig: map[ssa.Value]bool{}}
						for i, arg := range site.Common().Args {
							if i >= len(a.Fn.Params) {
								break
							}
							raw := arg
							if cv, isCv := raw.(*ssa.Convert); isCv {
								raw = cv.X
							}
							switch {
							case env.tok[raw]:
								sub.tok[a.Fn.Params[i]] = true
							case c24IsArrayOrSlice(arg.Type()) && env.fullDigest(arg):
								sub.dig[a.Fn.Params[i]] = true
							}
						}
						if !valOK(sub, a.Val) {
							ok = false
							break
						}
					}
				}
				r.Decide(ok, "C24.R4", key, p.Pos(a.Instr.Pos()), "written only after bcrypt success, with the validated token's digest",
					"the token cache is written on a path without a preceding bcrypt success (or with a value that is not the digest of the validated token): a rejected token is remembered and the next request presenting it is accepted without ever having been verified")
			}
		}
	}
}

// c24FullValue: v is a whole value (no partial slice): a full slice x[:] or a non-slice value.
func c24FullValue(v ssa.Value) bool {
	if sl, ok := v.(*ssa.Slice); ok {
		return sl.Low == nil && sl.High == nil && sl.Max == nil
	}
	return true
}

func c24IsArrayOrSlice(t types.Type) bool {
	switch t.Underlying().(type) {
	case *types.Array, *types.Slice:
		return true
	}
	return false
}

// ---------------------------------------------------------------- R5

// handlerBodies resolves a registered handler value to the function bodies that serve it.
func (cx *c24Ctx) handlerBodies(v ssa.Value) []*ssa.Function {
	v = kit.G8Unwrap(v)
	if c, ok := v.(*ssa.Call); ok {
		cal := kit.CalleeOf(c)
		if cal.Static == nil || cal.Static.Blocks == nil {
			return nil
		}
		var out []*ssa.Function
		for _, ret := range kit.Returns(cal.Static) {
			if ret.Block() == cal.Static.Recover {
				continue
			}
			for _, leaf := range kit.PhiLeaves(kit.ReturnResult(ret, 0)) {
				f := kit.G8FuncOfValue(cx.p, leaf)
				if f == nil {
					return nil
				}
				out = append(out, f)
			}
		}
		return out
	}
	if f := kit.G8FuncOfValue(cx.p, v); f != nil {
		return []*ssa.Function{f}
	}
	return nil
}

func c24Is404Call(c ssa.CallInstruction) bool {
	cal := kit.CalleeOf(c)
	switch {
	case cal.Is("net/http", "", "NotFound"):
		return true
	case cal.Is("net/http", "", "Error"):
		k, ok := kit.ConstInt(kit.Arg(c, 2))
		return ok && k == 404
	case cal.Name == "WriteHeader" && cal.Pkg == "net/http":
		k, ok := kit.ConstInt(kit.Arg(c, 0))
		return ok && k == 404
	}
	return false
}

func c24HarmlessCall(c ssa.CallInstruction) bool {
	cal := kit.CalleeOf(c)
	if cal.Built != "" || c24Is404Call(c) {
		return true
	}
	switch cal.Pkg {
	case "log/slog", "log", "fmt", "strings":
		return true
	case "net/http":
		switch cal.Name {
		case "Header", "Set", "Add", "Write", "Get":
			return true
		}
	}
	return false
}

// only404From: starting at block start of fn, every call is harmless and every return is
// preceded by a 404 answer.
func (cx *c24Ctx) only404From(fn *ssa.Function, start *ssa.BasicBlock) (bool, string) {
	if fn.Blocks == nil {
		return false, "handler " + kit.FuncName(fn) + " has no analysable body"
	}
	has404 := map[*ssa.BasicBlock]bool{}
	for _, b := range fn.Blocks {
		for _, in := range b.Instrs {
			if c, ok := in.(ssa.CallInstruction); ok && c24Is404Call(c) {
				has404[b] = true
			}
		}
	}
	reach := kit.Reach(start, nil, nil)
	for b := range reach {
		for _, in := range b.Instrs {
			switch x := in.(type) {
			case ssa.CallInstruction:
				if !c24HarmlessCall(x) {
					return false, "handler " + kit.FuncName(fn) + " calls " + kit.CalleeOf(x).String()
				}
			case *ssa.Go:
				return false, "handler " + kit.FuncName(fn) + " starts a goroutine"
			}
		}
	}
	if has404[start] {
		return true, ""
	}
	for b := range kit.Reach(start, nil, has404) {
		if has404[b] {
			continue
		}
		if n := len(b.Instrs); n > 0 {
			if _, ok := b.Instrs[n-1].(*ssa.Return); ok {
				return false, "handler " + kit.FuncName(fn) + " can return without answering 404"
			}
		}
	}
	return true, ""
}

// answers404For: the handler value answers only 404 for request paths matching pattern pat
// (registered under regPattern).
func (cx *c24Ctx) answers404For(rg *c24Reg, pat string) (bool, string) {
	bodies := cx.handlerBodies(rg.handler)
	if len(bodies) == 0 {
		return false, "handler registered for " + rg.pattern + " cannot be resolved to a function"
	}
	for _, fn := range bodies {
		if ok, _ := cx.only404From(fn, fn.Blocks[0]); ok {
			continue
		}
		// catch-all idiom: `if r.URL.Path != K { http.NotFound; return }` with K outside pat
		ok, why := false, ""
		if n := len(fn.Blocks[0].Instrs); n > 0 {
			if ifi, isIf := fn.Blocks[0].Instrs[n-1].(*ssa.If); isIf {
				pure := true
				for _, in := range fn.Blocks[0].Instrs {
					if _, isCall := in.(ssa.CallInstruction); isCall {
						pure = false
					}
				}
				f := kit.G8Norm(ifi.Cond, true)
				if b, isB := f.V.(*ssa.BinOp); isB && pure && !f.Nil && (b.Op == token.EQL || b.Op == token.NEQ) {
					env := c24EnvFor(fn)
					x, y := b.X, b.Y
					if _, isC := kit.ConstString(x); isC {
						x, y = y, x
					}
					if k, isC := kit.ConstString(y); isC && env.isPath(x) {
						covers := k == pat || (strings.HasSuffix(pat, "/") && strings.HasPrefix(k, pat))
						if !covers {
							mismatch := fn.Blocks[0].Succs[0]
							if (b.Op == token.EQL) == f.Pol {
								mismatch = fn.Blocks[0].Succs[1]
							}
							ok, why = cx.only404From(fn, mismatch)
						}
					}
				}
			}
		}
		if !ok {
			if why == "" {
				_, why = cx.only404From(fn, fn.Blocks[0])
			}
			return false, why
		}
	}
	return true, ""
}

func c24Matches(q, path string) bool {
	if strings.HasSuffix(q, "/") {
		return strings.HasPrefix(path, q)
	}
	return q == path
}

func (cx *c24Ctx) ruleR5() {
	p, r := cx.p, cx.r
	flagSet := map[string]bool{}
	for _, rg := range cx.regs {
		for f := range rg.flags {
			flagSet[f] = true
		}
	}
	var flags []string
	for f := range flagSet {
		flags = append(flags, f)
	}
	sort.Strings(flags)
	r.Count("group_flags", len(flags))
	r.Require(len(flags) >= 1, "floor: no ServeMux registration is guarded by a ServerConfig flag")
	// duplicate handling: ServeMux panics on duplicate patterns within one configuration; not judged here
	for _, F := range flags {
		var others []string
		for _, g := range flags {
			if g != F {
				others = append(others, g)
			}
		}
		seenPat := map[string]bool{}
		nEnabled := 0
		for _, en := range cx.regs {
			if pol, ok := en.flags[F]; !ok || !pol || seenPat[en.pattern] {
				continue
			}
			seenPat[en.pattern] = true
			nEnabled++
			bad := ""
			for mask := 0; mask < 1<<len(others) && bad == ""; mask++ {
				assign := map[string]bool{F: false}
				for i, g := range others {
					assign[g] = mask&(1<<i) != 0
				}
				var present []*c24Reg
				for _, rg := range cx.regs {
					okc := true
					for fl, pol := range rg.flags {
						if assign[fl] != pol {
							okc = false
						}
					}
					if okc {
						present = append(present, rg)
					}
				}
				// most specific match for the pattern's own path, plus every deeper pattern
				var best *c24Reg
				var check []*c24Reg
				for _, rg := range present {
					if c24Matches(rg.pattern, en.pattern) && (best == nil || len(rg.pattern) > len(best.pattern)) {
						best = rg
					}
					if strings.HasSuffix(en.pattern, "/") && strings.HasPrefix(rg.pattern, en.pattern) && rg.pattern != en.pattern {
						check = append(check, rg)
					}
				}
				if best != nil {
					check = append(check, best)
				}
				for _, rg := range check {
					if ok, why := cx.answers404For(rg, en.pattern); !ok {
						bad = fmt.Sprintf("with %s=false requests for %s are routed to the handler registered for %q at %s, which does not only answer 404 (%s)", F, en.pattern, rg.pattern, p.Pos(rg.call.Pos()), why)
						break
					}
				}
			}
			r.Decide(bad == "", "C24.R5", fmt.Sprintf("%s pattern %s", F, en.pattern), p.Pos(en.call.Pos()),
				"resolves to a 404-only handler in every configuration with the group disabled",
				bad+": a disabled endpoint group still acts on requests")
		}
		r.Count("enabled_patterns_"+F, nEnabled)
	}
	// a group's handler must not be reachable through a handler outside the group
	ownFlags := map[*ssa.Function]map[string]bool{} // handler body -> flags (=true) it is registered under; "" = unconditional
	for _, rg := range cx.regs {
		for _, h := range cx.handlerBodies(rg.handler) {
			if ownFlags[h] == nil {
				ownFlags[h] = map[string]bool{}
			}
			gated := false
			for fl, pol := range rg.flags {
				if pol {
					ownFlags[h][fl] = true
					gated = true
				}
			}
			if !gated {
				if ok404, _ := cx.only404From(h, h.Blocks[0]); !ok404 {
					ownFlags[h][""] = true
				}
			}
		}
	}
	var hs []*ssa.Function
	for h := range ownFlags {
		hs = append(hs, h)
	}
	sort.Slice(hs, func(i, j int) bool { return hs[i].Pos() < hs[j].Pos() })
	for _, h := range hs {
		if ownFlags[h][""] || kit.FuncPkgPath(h) != kit.PkgPath(c24Pkg) {
			continue
		}
		k := 0
		for _, site := range p.StaticCallers(h) {
			caller := kit.TopLevel(site.Parent())
			if caller == h {
				continue
			}
			k++
			cf := ownFlags[caller]
			ok := cf != nil && !cf[""]
			for fl := range cf {
				if fl != "" && !ownFlags[h][fl] {
					ok = false
				}
			}
			if cf == nil {
				// an ordinary helper: acceptable only if all of ITS callers are in the group (one level)
				ok = true
				up := p.StaticCallers(caller)
				if len(up) == 0 {
					ok = false
				}
				for _, s2 := range up {
					c2 := ownFlags[kit.TopLevel(s2.Parent())]
					if c2 == nil || c2[""] {
						ok = false
						continue
					}
					for fl := range c2 {
						if !ownFlags[h][fl] {
							ok = false
						}
					}
				}
			}
			r.Decide(ok, "C24.R5", fmt.Sprintf("%s invoked from %s #%d", kit.FuncName(h), kit.FuncName(caller), k), p.Pos(site.Pos()),
				"invoked only from handlers of its own endpoint group",
				"a handler of a flag-gated endpoint group is also invoked from code outside that group: with the group disabled its action is still reachable through the other route")
		}
	}
	// documented group prefixes are registered only under their flag
	for _, rg := range cx.regs {
		for _, g := range c24SpecGroups {
			if !strings.HasPrefix(rg.pattern, g.Prefix) {
				continue
			}
			_, gated := rg.flags[g.Flag]
			r.Decide(gated, "C24.R5", fmt.Sprintf("%s registration #%d of %s", g.Flag, rg.ord, rg.pattern), p.Pos(rg.call.Pos()),
				"registered under its group flag",
				fmt.Sprintf("pattern %s belongs to the group controlled by %s but is registered regardless of the flag: with the group disabled the endpoint still serves", rg.pattern, g.Flag))
		}
	}
}

// ---------------------------------------------------------------- R6

func (cx *c24Ctx) ruleR6() {
	p, r := cx.p, cx.r
	var sites []ssa.CallInstruction
	for _, c := range p.StaticCallers(cx.ctor) {
		if kit.FuncPkgPath(c.Parent()) != kit.PkgPath(c24Pkg) {
			sites = append(sites, c)
		}
	}
	r.Count("constructor_call_sites", len(sites))
	if !r.Require(len(sites) >= 1, "anchor-unresolved: no call of %s outside %s (is internal/agent loaded?)", kit.FuncName(cx.ctor), c24Pkg) {
		return
	}
	for i, site := range sites {
		fn := site.Parent()
		base := fmt.Sprintf("%s call #%d", kit.FuncName(fn), i+1)
		var cfgArg ssa.Value
		for _, a := range site.Common().Args {
			if c24Named(a.Type(), kit.PkgPath(c24Pkg), "ServerConfig") {
				cfgArg = a
			}
		}
		var alloc ssa.Value
		if u, ok := cfgArg.(*ssa.UnOp); ok && u.Op == token.MUL {
			alloc = u.X
		}
		if alloc == nil {
			r.Violation("C24.R6", base+" config value", p.Pos(site.Pos()), "the ServerConfig passed to the constructor is not a locally built value: the flags' origin cannot be the HTTPConfig accessors")
			continue
		}
		stores := map[string][]*ssa.Store{}
		kit.Instrs(fn, func(in ssa.Instruction) {
			if st, ok := in.(*ssa.Store); ok {
				if fa, ok := st.Addr.(*ssa.FieldAddr); ok && fa.X == alloc {
					stores[kit.FieldOfAddr(fa).Name()] = append(stores[kit.FieldOfAddr(fa).Name()], st)
				}
				if st.Addr == alloc {
					stores["*"] = append(stores["*"], st)
				}
			}
		})
		if len(stores["*"]) > 0 {
			r.Violation("C24.R6", base+" config value", p.Pos(site.Pos()), "the ServerConfig is copied from another value (defaults enable every group and no token) before being passed on")
			continue
		}
		// TokenHash
		okTok := len(stores["TokenHash"]) > 0
		for _, st := range stores["TokenHash"] {
			if _, ok := kit.G8LoadOfField(st.Val, "internal/config", "HTTPConfig", "TokenHash"); !ok {
				okTok = false
			}
		}
		r.Decide(okTok, "C24.R6", base+" TokenHash", p.Pos(site.Pos()), "TokenHash comes from HTTPConfig.TokenHash",
			"ServerConfig.TokenHash is not filled from HTTPConfig.TokenHash: a configured token is not enforced")
		var names []string
		for fl := range c24FlagSource {
			names = append(names, fl)
		}
		sort.Strings(names)
		for _, fl := range names {
			src := c24FlagSource[fl]
			sts := stores[fl]
			ok, why := len(sts) > 0, "the flag is never set from the configuration"
			for _, st := range sts {
				c, isCall := st.Val.(*ssa.Call)
				if !isCall {
					ok, why = false, "the flag is not the result of an HTTPConfig accessor"
					break
				}
				cal := kit.CalleeOf(c)
				if cal.Static == nil || cal.Pkg != kit.PkgPath("internal/config") || cal.Recv != "HTTPConfig" {
					ok, why = false, "the flag is not the result of an HTTPConfig accessor"
					break
				}
				if good, w := cx.accessorOK(cal.Static, src); !good {
					ok, why = false, w
					break
				}
			}
			r.Decide(ok, "C24.R6", base+" "+fl, p.Pos(site.Pos()), "set from an accessor that honours Minimal and "+src,
				fmt.Sprintf("%s: %s: a group the operator disabled (minimal mode or %s: false) stays enabled", fl, why, strings.ToLower(src)))
		}
	}
}

// accessorOK: the HTTPConfig accessor returns true only when Minimal is false and the
// pointer field src is nil or points to true.
func (cx *c24Ctx) accessorOK(fn *ssa.Function, src string) (bool, string) {
	isFld := func(v ssa.Value, name string) bool {
		_, ok := kit.G8LoadOfField(v, "internal/config", "HTTPConfig", name)
		return ok
	}
	minimalFalse := func(f kit.G8Fact) bool { return !f.Nil && !f.Pol && isFld(f.V, "Minimal") }
	setting := func(f kit.G8Fact) bool {
		if f.Nil {
			return f.Pol && isFld(f.V, src)
		}
		if u, ok := f.V.(*ssa.UnOp); ok && u.Op == token.MUL && f.Pol {
			return isFld(u.X, src)
		}
		return false
	}
	ws := kit.G8Witnesses(fn, 0, true)
	if len(ws) == 0 {
		return true, ""
	}
	for _, w := range ws {
		if !w.Passes(minimalFalse) {
			return false, "accessor " + kit.FuncName(fn) + " can return true while Minimal is set"
		}
		if !w.Passes(setting) {
			return false, "accessor " + kit.FuncName(fn) + " can return true although " + src + " is explicitly false (or consults another setting)"
		}
	}
	return true, ""
}

// ---------------------------------------------------------------- self-tests

const c24File = "internal/health/server.go"

var c24SelfTests = []SelfTest{
	// ---- mutants
	{Name: "HasPrefix exemption", ExpectRule: "C24.R2", ExpectKey: "inexact", Edits: []Edit{
		{File: c24File, Old: "if authExemptPaths[r.URL.Path] {", New: "if authExemptPaths[r.URL.Path] || strings.HasPrefix(r.URL.Path, \"/health\") {"},
	}},
	{Name: "HasPrefix exemption leaves a delegation unguarded", ExpectRule: "C24.R1", ExpectKey: "delegation #1", Edits: []Edit{
		{File: c24File, Old: "if authExemptPaths[r.URL.Path] {", New: "if strings.HasPrefix(r.URL.Path, \"/health\") {"},
	}},
	{Name: "exempt lookup with lower-cased path", ExpectRule: "C24.R2", ExpectKey: "inexact", Edits: []Edit{
		{File: c24File, Old: "if authExemptPaths[r.URL.Path] {", New: "if authExemptPaths[strings.ToLower(r.URL.Path)] {"},
	}},
	{Name: "extra exempt entry", ExpectRule: "C24.R2", ExpectKey: "exempt path /agents", Edits: []Edit{
		{File: c24File, Old: "\t\"/logo.png\": true,\n", New: "\t\"/logo.png\": true,\n\t\"/agents\": true,\n"},
	}},
	{Name: "exempt entry dropped", ExpectRule: "C24.R2", ExpectKey: "exempt path /ready", Edits: []Edit{
		{File: c24File, Old: "\t\"/ready\":   true,\n", New: ""},
	}},
	{Name: "exempt map extended at run time", ExpectRule: "C24.R2", ExpectKey: "written in", Edits: []Edit{
		{File: c24File, Old: "func (s *Server) SetSleepProvider(provider SleepProvider) {\n", New: "func (s *Server) SetSleepProvider(provider SleepProvider) {\n\tauthExemptPaths[\"/sleep/status\"] = true\n"},
	}},
	{Name: "401 path falls through to the handler", ExpectRule: "C24.R1", ExpectKey: "delegation #2", Edits: []Edit{
		{File: c24File, Old: "http.Error(w, \"unauthorized\", http.StatusUnauthorized)\n\t\t\treturn\n", New: "http.Error(w, \"unauthorized\", http.StatusUnauthorized)\n"},
	}},
	{Name: "|| weakened to &&", ExpectRule: "C24.R1", ExpectKey: "delegation #2", Edits: []Edit{
		{File: c24File, Old: "if token == \"\" || !s.validateToken(token) {", New: "if token == \"\" && !s.validateToken(token) {"},
	}},
	{Name: "validator result inverted", ExpectRule: "C24.R1", ExpectKey: "delegation #2", Edits: []Edit{
		{File: c24File, Old: "if token == \"\" || !s.validateToken(token) {", New: "if token == \"\" || s.validateToken(token) {"},
	}},
	{Name: "validator applied to a constant, not the request token", ExpectRule: "C24.R1", ExpectKey: "delegation #2", Edits: []Edit{
		{File: c24File, Old: "if token == \"\" || !s.validateToken(token) {", New: "if token == \"\" || !s.validateToken(s.cfg.TokenHash) {"},
	}},
	{Name: "token compared without bcrypt", ExpectRule: "C24.R4", ExpectKey: "true-return", Edits: []Edit{
		{File: c24File, Old: "if bcrypt.CompareHashAndPassword([]byte(s.cfg.TokenHash), []byte(token)) != nil {", New: "if token != s.cfg.TokenHash && bcrypt.CompareHashAndPassword([]byte(s.cfg.TokenHash), []byte(token)) != nil {"},
	}},
	{Name: "bcrypt failure accepted", ExpectRule: "C24.R4", ExpectKey: "true-return", Edits: []Edit{
		{File: c24File, Old: "[]byte(token)) != nil {\n\t\treturn false\n\t}\n\n\t// Update cache on success", New: "[]byte(token)) == nil {\n\t\treturn false\n\t}\n\n\t// Update cache on success"},
	}},
	{Name: "cache filled before verification", ExpectRule: "C24.R4", ExpectKey: "cache", Edits: []Edit{
		{File: c24File, Old: "\t// Update cache on success\n\ts.tokenCacheMu.Lock()\n\ts.cachedTokenSHA = tokenSHA\n\ts.tokenCacheValid = true\n\ts.tokenCacheMu.Unlock()\n\n\treturn true", New: "\treturn true"},
		{File: c24File, Old: "\t// Slow path: bcrypt verify\n", New: "\ts.tokenCacheMu.Lock()\n\ts.cachedTokenSHA = tokenSHA\n\ts.tokenCacheValid = true\n\ts.tokenCacheMu.Unlock()\n"},
	}},
	{Name: "wrapping depends on an unrelated flag", ExpectRule: "C24.R3", ExpectKey: "server handler", Edits: []Edit{
		{File: c24File, Old: "if cfg.TokenHash != \"\" {\n\t\thandler = s.requireAuth(mux)", New: "if cfg.TokenHash != \"\" && cfg.EnableRemoteAPI {\n\t\thandler = s.requireAuth(mux)"},
	}},
	{Name: "wrapper result discarded", ExpectRule: "C24.R3", ExpectKey: "server handler", Edits: []Edit{
		{File: c24File, Old: "\t\thandler = s.requireAuth(mux)\n", New: "\t\t_ = s.requireAuth(mux)\n"},
	}},
	{Name: "handler registered on an outer mux after wrapping", ExpectRule: "C24.R3", ExpectKey: "extra ServeMux", Edits: []Edit{
		{File: c24File, Old: "\t\thandler = s.requireAuth(mux)\n\t}\n", New: "\t\thandler = s.requireAuth(mux)\n\t}\n\touter := http.NewServeMux()\n\touter.Handle(\"/\", handler)\n\touter.HandleFunc(\"/agents/\", s.handleAgentInfo)\n\thandler = outer\n"},
	}},
	{Name: "outer mux: registration not on the wrapped mux", ExpectRule: "C24.R3", ExpectKey: "registration on another mux", Edits: []Edit{
		{File: c24File, Old: "\t\thandler = s.requireAuth(mux)\n\t}\n", New: "\t\thandler = s.requireAuth(mux)\n\t}\n\touter := http.NewServeMux()\n\touter.Handle(\"/\", handler)\n\touter.HandleFunc(\"/agents/\", s.handleAgentInfo)\n\thandler = outer\n"},
	}},
	{Name: "Handler() hands out an unwrapped handler", ExpectRule: "C24.R3", ExpectKey: "returned handler", Edits: []Edit{
		{File: c24File, Old: "\treturn s.server.Handler\n", New: "\treturn http.HandlerFunc(s.handleAgentInfo)\n"},
	}},
	{Name: "live handler registered in a disabled branch", ExpectRule: "C24.R5", ExpectKey: "EnableRemoteAPI pattern /agents/", Edits: []Edit{
		{File: c24File, Old: "mux.HandleFunc(\"/agents/\", disabledHandler(\"agents\"))", New: "mux.HandleFunc(\"/agents/\", s.handleAgentInfo)"},
	}},
	{Name: "live sub-path registered in a disabled branch", ExpectRule: "C24.R5", ExpectKey: "EnablePprof pattern /debug/pprof/", Edits: []Edit{
		{File: c24File, Old: "mux.HandleFunc(\"/debug/\", disabledHandler(\"pprof\"))", New: "mux.HandleFunc(\"/debug/\", disabledHandler(\"pprof\"))\n\t\tmux.HandleFunc(\"/debug/pprof/heap\", pprof.Index)"},
	}},
	{Name: "disabled handler no longer answers 404", ExpectRule: "C24.R5", ExpectKey: "pattern /wake", Edits: []Edit{
		{File: c24File, Old: "return func(w http.ResponseWriter, r *http.Request) {\n\t\thttp.NotFound(w, r)\n\t}", New: "return func(w http.ResponseWriter, r *http.Request) {\n\t\tw.WriteHeader(http.StatusOK)\n\t}"},
	}},
	{Name: "disabled pattern dropped and the catch-all no longer answers 404", ExpectRule: "C24.R5", ExpectKey: "EnableDashboard pattern /api/topology", Edits: []Edit{
		{File: c24File, Old: "\t\tmux.HandleFunc(\"/api/\", disabledHandler(\"dashboard_api\"))\n", New: ""},
		{File: c24File, Old: "\tif r.URL.Path != \"/\" {\n\t\thttp.NotFound(w, r)\n\t\treturn\n\t}\n", New: ""},
	}},
	{Name: "enabled and disabled branches swapped", ExpectRule: "C24.R5", ExpectKey: "EnableDashboard pattern /api/", Edits: []Edit{
		{File: c24File, Old: "\tif cfg.EnableDashboard {\n", New: "\tif !cfg.EnableDashboard {\n"},
	}},
	{Name: "pprof registered regardless of its flag", ExpectRule: "C24.R5", ExpectKey: "of /debug/pprof/", Edits: []Edit{
		{File: c24File, Old: "\tif cfg.EnablePprof {\n\t\tmux.HandleFunc(\"/debug/pprof/\", pprof.Index)\n", New: "\tmux.HandleFunc(\"/debug/pprof/\", pprof.Index)\n\tif cfg.EnablePprof {\n"},
	}},
	{Name: "agent hard-wires a group flag", ExpectRule: "C24.R6", ExpectKey: "EnablePprof", Edits: []Edit{
		{File: "internal/agent/agent.go", Old: "EnablePprof:     a.cfg.HTTP.PprofEnabled(),", New: "EnablePprof:     true,"},
	}},
	{Name: "agent crosses two accessors", ExpectRule: "C24.R6", ExpectKey: "EnableRemoteAPI", Edits: []Edit{
		{File: "internal/agent/agent.go", Old: "EnableRemoteAPI: a.cfg.HTTP.RemoteAPIEnabled(),", New: "EnableRemoteAPI: a.cfg.HTTP.DashboardEnabled(),"},
	}},
	{Name: "agent drops the token hash", ExpectRule: "C24.R6", ExpectKey: "TokenHash", Edits: []Edit{
		{File: "internal/agent/agent.go", Old: "\t\t\tTokenHash:       a.cfg.HTTP.TokenHash,\n", New: ""},
	}},
	{Name: "accessor ignores minimal mode", ExpectRule: "C24.R6", ExpectKey: "EnablePprof", Edits: []Edit{
		{File: "internal/config/config.go", Old: "func (h HTTPConfig) PprofEnabled() bool {\n\tif h.Minimal {\n\t\treturn false\n\t}\n", New: "func (h HTTPConfig) PprofEnabled() bool {\n"},
	}},
	{Name: "accessor ignores the explicit false", ExpectRule: "C24.R6", ExpectKey: "EnableDashboard", Edits: []Edit{
		{File: "internal/config/config.go", Old: "return h.Dashboard == nil || *h.Dashboard", New: "return h.Dashboard == nil || !h.Minimal"},
	}},
	// ---- behaviour-preserving rewrites
	{Name: "rewrite: middleware with a single delegation after a merged check", Edits: []Edit{
		{File: c24File, Old: "if authExemptPaths[r.URL.Path] {\n\t\t\tnext.ServeHTTP(w, r)\n\t\t\treturn\n\t\t}\n\n\t\ttoken := extractBearerToken(r)\n\t\tif token == \"\" || !s.validateToken(token) {", New: "if !authExemptPaths[r.URL.Path] {\n\t\ttoken := extractBearerToken(r)\n\t\tif token == \"\" || !s.validateToken(token) {"},
		{File: c24File, Old: "http.Error(w, \"unauthorized\", http.StatusUnauthorized)\n\t\t\treturn\n\t\t}\n", New: "http.Error(w, \"unauthorized\", http.StatusUnauthorized)\n\t\t\treturn\n\t\t}\n\t\t}\n"},
	}},
	{Name: "rewrite: middleware passes everything through when no token is configured", Edits: []Edit{
		{File: c24File, Old: "if authExemptPaths[r.URL.Path] {", New: "if s.cfg.TokenHash == \"\" || authExemptPaths[r.URL.Path] {"},
	}},
	{Name: "rewrite: exempt set as a switch over constants", Edits: []Edit{
		{File: c24File, Old: "if authExemptPaths[r.URL.Path] {", New: "switch r.URL.Path {\n\t\tcase \"/health\", \"/healthz\", \"/ready\", \"/\", \"/logo.png\":"},
	}},
	{Name: "rewrite: exempt test extracted into a helper", Edits: []Edit{
		{File: c24File, Old: "if authExemptPaths[r.URL.Path] {", New: "if isExemptPath(r.URL.Path) {"},
		{File: c24File, Old: "// extractBearerToken extracts the bearer token from the Authorization header,", New: "func isExemptPath(p string) bool { return authExemptPaths[p] }\n\n// extractBearerToken extracts the bearer token from the Authorization header,"},
	}},
	{Name: "rewrite: whole authorisation decision extracted into a helper", Edits: []Edit{
		{File: c24File, Old: "\t\ttoken := extractBearerToken(r)\n\t\tif token == \"\" || !s.validateToken(token) {", New: "\t\tif !s.authorized(r) {"},
		{File: c24File, Old: "// extractBearerToken extracts the bearer token from the Authorization header,", New: "func (s *Server) authorized(r *http.Request) bool {\n\ttoken := extractBearerToken(r)\n\treturn token != \"\" && s.validateToken(token)\n}\n\n// extractBearerToken extracts the bearer token from the Authorization header,"},
	}},
	{Name: "rewrite: positive validation first, 401 last", Edits: []Edit{
		{File: c24File, Old: "\t\tif token == \"\" || !s.validateToken(token) {\n\t\t\tw.Header().Set(\"WWW-Authenticate\", `Bearer realm=\"muti-metroo\"`)\n\t\t\thttp.Error(w, \"unauthorized\", http.StatusUnauthorized)\n\t\t\treturn\n\t\t}\n\n\t\tnext.ServeHTTP(w, r)\n", New: "\t\tif ok := s.validateToken(token); ok && token != \"\" {\n\t\t\tnext.ServeHTTP(w, r)\n\t\t\treturn\n\t\t}\n\t\tw.Header().Set(\"WWW-Authenticate\", `Bearer realm=\"muti-metroo\"`)\n\t\thttp.Error(w, \"unauthorized\", http.StatusUnauthorized)\n"},
	}},
	{Name: "rewrite: wrap decided by len(TokenHash) > 0", Edits: []Edit{
		{File: c24File, Old: "if cfg.TokenHash != \"\" {\n\t\thandler = s.requireAuth(mux)", New: "if len(s.cfg.TokenHash) > 0 {\n\t\thandler = s.requireAuth(mux)"},
	}},
	{Name: "rewrite: handler chosen by if/else without a default", Edits: []Edit{
		{File: c24File, Old: "\tvar handler http.Handler = mux\n\tif cfg.TokenHash != \"\" {\n\t\thandler = s.requireAuth(mux)\n\t}\n", New: "\tvar handler http.Handler\n\tif cfg.TokenHash == \"\" {\n\t\thandler = mux\n\t} else {\n\t\thandler = s.requireAuth(mux)\n\t}\n"},
	}},
	{Name: "rewrite: bcrypt error bound to a variable", Edits: []Edit{
		{File: c24File, Old: "if bcrypt.CompareHashAndPassword([]byte(s.cfg.TokenHash), []byte(token)) != nil {\n\t\treturn false\n\t}", New: "err := bcrypt.CompareHashAndPassword([]byte(s.cfg.TokenHash), []byte(token))\n\tif err != nil {\n\t\treturn false\n\t}"},
	}},
	{Name: "rewrite: validator without the digest cache", Edits: []Edit{
		{File: c24File, Old: "\ts.tokenCacheMu.RLock()\n\tif s.tokenCacheValid && subtle.ConstantTimeCompare(tokenSHA[:], s.cachedTokenSHA[:]) == 1 {\n\t\ts.tokenCacheMu.RUnlock()\n\t\treturn true\n\t}\n\ts.tokenCacheMu.RUnlock()\n", New: "\t_ = subtle.ConstantTimeCompare\n"},
	}},
	{Name: "rewrite: dashboard registrations extracted into a helper", Edits: []Edit{
		{File: c24File, Old: "\tif cfg.EnableDashboard {\n\t\tmux.HandleFunc(\"/api/topology\", s.handleTopology)\n\t\tmux.HandleFunc(\"/api/dashboard\", s.handleDashboard)\n\t\tmux.HandleFunc(\"/api/nodes\", s.handleNodes)\n\t\tmux.HandleFunc(\"/api/mesh-test\", s.handleMeshTest)\n\t} else {", New: "\tif cfg.EnableDashboard {\n\t\ts.registerDashboard(mux)\n\t} else {"},
		{File: c24File, Old: "// SetRemoteProvider sets the remote status provider.", New: "func (s *Server) registerDashboard(mux *http.ServeMux) {\n\tmux.HandleFunc(\"/api/topology\", s.handleTopology)\n\tmux.HandleFunc(\"/api/dashboard\", s.handleDashboard)\n\tmux.HandleFunc(\"/api/nodes\", s.handleNodes)\n\tmux.HandleFunc(\"/api/mesh-test\", s.handleMeshTest)\n}\n\n// SetRemoteProvider sets the remote status provider."},
	}},
	{Name: "rewrite: disabled dashboard relies on the 404 catch-all", Edits: []Edit{
		{File: c24File, Old: "\t\tmux.HandleFunc(\"/api/\", disabledHandler(\"dashboard_api\"))\n", New: ""},
	}},
	{Name: "rewrite: flag tested negatively with branches exchanged", Edits: []Edit{
		{File: c24File, Old: "\tif cfg.EnablePprof {\n", New: "\tif cfg.EnablePprof == false {\n\t\tmux.HandleFunc(\"/debug/\", disabledHandler(\"pprof\"))\n\t} else {\n"},
		{File: c24File, Old: "\t} else {\n\t\tmux.HandleFunc(\"/debug/\", disabledHandler(\"pprof\"))\n\t}\n", New: "\t}\n"},
	}},
	{Name: "rewrite: disabled handler logs before answering 404", Edits: []Edit{
		{File: c24File, Old: "return func(w http.ResponseWriter, r *http.Request) {\n\t\thttp.NotFound(w, r)\n\t}", New: "return func(w http.ResponseWriter, r *http.Request) {\n\t\tw.Header().Set(\"X-Disabled\", \"1\")\n\t\thttp.Error(w, \"not found\", http.StatusNotFound)\n\t}"},
	}},
	// ---- round 2
	{Name: "cache written whatever the bcrypt outcome", ExpectRule: "C24.R4", ExpectKey: "cache cachedTokenSHA write", Edits: []Edit{
		{File: c24File, Old: "\tif bcrypt.CompareHashAndPassword([]byte(s.cfg.TokenHash), []byte(token)) != nil {\n\t\treturn false\n\t}\n\n\t// Update cache on success\n\ts.tokenCacheMu.Lock()\n\ts.cachedTokenSHA = tokenSHA\n\ts.tokenCacheValid = true\n\ts.tokenCacheMu.Unlock()\n\n\treturn true", New: "\tok := bcrypt.CompareHashAndPassword([]byte(s.cfg.TokenHash), []byte(token)) == nil\n\ts.tokenCacheMu.Lock()\n\ts.cachedTokenSHA = tokenSHA\n\tif ok {\n\t\ts.tokenCacheValid = true\n\t}\n\ts.tokenCacheMu.Unlock()\n\treturn ok"},
	}},
	{Name: "cache store helper called with the bcrypt outcome", ExpectRule: "C24.R4", ExpectKey: "cache cachedTokenSHA write", Edits: []Edit{
		{File: c24File, Old: "\tif bcrypt.CompareHashAndPassword([]byte(s.cfg.TokenHash), []byte(token)) != nil {\n\t\treturn false\n\t}\n\n\t// Update cache on success\n\ts.tokenCacheMu.Lock()\n\ts.cachedTokenSHA = tokenSHA\n\ts.tokenCacheValid = true\n\ts.tokenCacheMu.Unlock()\n\n\treturn true\n}\n", New: "\tok := bcrypt.CompareHashAndPassword([]byte(s.cfg.TokenHash), []byte(token)) == nil\n\ts.tokenCacheStore(tokenSHA, ok)\n\treturn ok\n}\n\nfunc (s *Server) tokenCacheStore(tokenSHA [32]byte, ok bool) {\n\ts.tokenCacheMu.Lock()\n\tdefer s.tokenCacheMu.Unlock()\n\ts.cachedTokenSHA = tokenSHA\n\tif ok {\n\t\ts.tokenCacheValid = true\n\t}\n}\n"},
	}},
	{Name: "rewrite: cache hit and cache store extracted into helpers, store only on success", Edits: []Edit{
		{File: c24File, Old: "\ts.tokenCacheMu.RLock()\n\tif s.tokenCacheValid && subtle.ConstantTimeCompare(tokenSHA[:], s.cachedTokenSHA[:]) == 1 {\n\t\ts.tokenCacheMu.RUnlock()\n\t\treturn true\n\t}\n\ts.tokenCacheMu.RUnlock()\n", New: "\tif s.tokenCacheHit(tokenSHA) {\n\t\treturn true\n\t}\n"},
		{File: c24File, Old: "\t// Update cache on success\n\ts.tokenCacheMu.Lock()\n\ts.cachedTokenSHA = tokenSHA\n\ts.tokenCacheValid = true\n\ts.tokenCacheMu.Unlock()\n\n\treturn true\n}\n", New: "\ts.tokenCacheStore(tokenSHA)\n\treturn true\n}\n\nfunc (s *Server) tokenCacheHit(tokenSHA [32]byte) bool {\n\ts.tokenCacheMu.RLock()\n\tdefer s.tokenCacheMu.RUnlock()\n\treturn s.tokenCacheValid && subtle.ConstantTimeCompare(tokenSHA[:], s.cachedTokenSHA[:]) == 1\n}\n\nfunc (s *Server) tokenCacheStore(tokenSHA [32]byte) {\n\ts.tokenCacheMu.Lock()\n\tdefer s.tokenCacheMu.Unlock()\n\ts.cachedTokenSHA = tokenSHA\n\ts.tokenCacheValid = true\n}\n"},
	}},
	{Name: "cache compared on a digest prefix only", ExpectRule: "C24.R4", ExpectKey: "true-return", Edits: []Edit{
		{File: c24File, Old: "subtle.ConstantTimeCompare(tokenSHA[:], s.cachedTokenSHA[:]) == 1", New: "subtle.ConstantTimeCompare(tokenSHA[:4], s.cachedTokenSHA[:4]) == 1"},
	}},
	{Name: "cache keyed by the digest of a token prefix", ExpectRule: "C24.R4", ExpectKey: "true-return", Edits: []Edit{
		{File: c24File, Old: "tokenSHA := sha256.Sum256([]byte(token))", New: "tokenSHA := sha256.Sum256([]byte(token[:min(8, len(token))]))"},
	}},
	{Name: "group endpoint registered under either of two flags", ExpectRule: "C24.R5", ExpectKey: "of /api/mesh-test", Edits: []Edit{
		{File: c24File, Old: "\t\tmux.HandleFunc(\"/api/mesh-test\", s.handleMeshTest)\n\t} else {\n\t\tmux.HandleFunc(\"/api/\", disabledHandler(\"dashboard_api\"))\n\t}\n", New: "\t} else {\n\t\tmux.HandleFunc(\"/api/\", disabledHandler(\"dashboard_api\"))\n\t}\n\tif cfg.EnableDashboard || cfg.EnableRemoteAPI {\n\t\tmux.HandleFunc(\"/api/mesh-test\", s.handleMeshTest)\n\t}\n"},
	}},
	{Name: "group endpoint registered under another group's flag", ExpectRule: "C24.R5", ExpectKey: "of /api/nodes", Edits: []Edit{
		{File: c24File, Old: "\t\tmux.HandleFunc(\"/api/nodes\", s.handleNodes)\n", New: ""},
		{File: c24File, Old: "\t\tmux.HandleFunc(\"/wake\", s.handleWake)\n", New: "\t\tmux.HandleFunc(\"/wake\", s.handleWake)\n\t\tmux.HandleFunc(\"/api/nodes\", s.handleNodes)\n"},
	}},
	{Name: "dashboard handler reachable through the remote API dispatcher", ExpectRule: "C24.R5", ExpectKey: "invoked from", Edits: []Edit{
		{File: c24File, Old: "\t\tcase parts[1] == \"icmp\":\n", New: "\t\tcase parts[1] == \"mesh-test\":\n\t\t\ts.handleMeshTest(w, r)\n\t\t\treturn\n\t\tcase parts[1] == \"icmp\":\n"},
	}},
	{Name: "middleware rewrites the path after the exemption decision", ExpectRule: "C24.R1", ExpectKey: "request URL rewritten", Edits: []Edit{
		{File: c24File, Old: "if authExemptPaths[r.URL.Path] {\n\t\t\tnext.ServeHTTP(w, r)", New: "if authExemptPaths[r.URL.Path] {\n\t\t\tif p := r.Header.Get(\"X-Original-URI\"); p != \"\" {\n\t\t\t\tr.URL.Path = p\n\t\t\t}\n\t\t\tnext.ServeHTTP(w, r)"},
	}},
	{Name: "clients remembered by address skip the token check", ExpectRule: "C24.R1", ExpectKey: "delegation", Edits: []Edit{
		{File: c24File, Old: "\t\ttoken := extractBearerToken(r)\n", New: "\t\tif r.RemoteAddr == s.cfg.Address {\n\t\t\tnext.ServeHTTP(w, r)\n\t\t\treturn\n\t\t}\n\t\ttoken := extractBearerToken(r)\n"},
	}},
	// ---- round 3: refactoring classes (named middleware type, constant tables, helpers)
	{Name: "rewrite: middleware as a named handler type with ServeHTTP", Edits: []Edit{
		{File: c24File, Old: "func (s *Server) requireAuth(next http.Handler) http.Handler {\n\treturn http.HandlerFunc(func(w http.ResponseWriter, r *http.Request) {", New: "type tokenGate struct {\n\tsrv  *Server\n\tnext http.Handler\n}\n\nfunc (s *Server) requireAuth(next http.Handler) http.Handler {\n\treturn &tokenGate{srv: s, next: next}\n}\n\nfunc (g *tokenGate) ServeHTTP(w http.ResponseWriter, r *http.Request) {\n\ts, next := g.srv, g.next\n\t{"},
		{File: c24File, Old: "\t\tnext.ServeHTTP(w, r)\n\t})\n}", New: "\t\tnext.ServeHTTP(w, r)\n\t}\n}"},
	}},
	{Name: "named middleware type forgets the token check", ExpectRule: "C24.R1", ExpectKey: "delegation", Edits: []Edit{
		{File: c24File, Old: "func (s *Server) requireAuth(next http.Handler) http.Handler {\n\treturn http.HandlerFunc(func(w http.ResponseWriter, r *http.Request) {", New: "type tokenGate struct {\n\tsrv  *Server\n\tnext http.Handler\n}\n\nfunc (s *Server) requireAuth(next http.Handler) http.Handler {\n\treturn &tokenGate{srv: s, next: next}\n}\n\nfunc (g *tokenGate) ServeHTTP(w http.ResponseWriter, r *http.Request) {\n\ts, next := g.srv, g.next\n\t{"},
		{File: c24File, Old: "\t\tnext.ServeHTTP(w, r)\n\t})\n}", New: "\t\tnext.ServeHTTP(w, r)\n\t}\n}"},
		{File: c24File, Old: "if token == \"\" || !s.validateToken(token) {", New: "if token == \"\" && !s.validateToken(token) {"},
	}},
	{Name: "rewrite: exempt set as a constant slice searched with slices.Contains", Edits: []Edit{
		{File: c24File, Old: "\t\"sort\"\n", New: "\t\"slices\"\n\t\"sort\"\n"},
		{File: c24File, Old: "var authExemptPaths = map[string]bool{\n\t\"/health\":  true,\n\t\"/healthz\": true,\n\t\"/ready\":   true,\n\t\"/\":        true,\n\t\"/logo.png\": true,\n}", New: "var authExemptPaths = []string{\"/\", \"/logo.png\", \"/health\", \"/healthz\", \"/ready\"}"},
		{File: c24File, Old: "if authExemptPaths[r.URL.Path] {", New: "if slices.Contains(authExemptPaths, r.URL.Path) {"},
	}},
	{Name: "exempt slice with an extra entry", ExpectRule: "C24.R2", ExpectKey: "exempt path /agents", Edits: []Edit{
		{File: c24File, Old: "\t\"sort\"\n", New: "\t\"slices\"\n\t\"sort\"\n"},
		{File: c24File, Old: "var authExemptPaths = map[string]bool{\n\t\"/health\":  true,\n\t\"/healthz\": true,\n\t\"/ready\":   true,\n\t\"/\":        true,\n\t\"/logo.png\": true,\n}", New: "var authExemptPaths = []string{\"/\", \"/logo.png\", \"/health\", \"/healthz\", \"/ready\", \"/agents\"}"},
		{File: c24File, Old: "if authExemptPaths[r.URL.Path] {", New: "if slices.Contains(authExemptPaths, r.URL.Path) {"},
	}},
	{Name: "exempt slice extended at run time", ExpectRule: "C24.R2", ExpectKey: "reassigned", Edits: []Edit{
		{File: c24File, Old: "\t\"sort\"\n", New: "\t\"slices\"\n\t\"sort\"\n"},
		{File: c24File, Old: "var authExemptPaths = map[string]bool{\n\t\"/health\":  true,\n\t\"/healthz\": true,\n\t\"/ready\":   true,\n\t\"/\":        true,\n\t\"/logo.png\": true,\n}", New: "var authExemptPaths = []string{\"/\", \"/logo.png\", \"/health\", \"/healthz\", \"/ready\"}"},
		{File: c24File, Old: "if authExemptPaths[r.URL.Path] {", New: "if slices.Contains(authExemptPaths, r.URL.Path) {"},
		{File: c24File, Old: "func (s *Server) SetSleepProvider(provider SleepProvider) {\n", New: "func (s *Server) SetSleepProvider(provider SleepProvider) {\n\tauthExemptPaths = append(authExemptPaths, \"/sleep/status\")\n"},
	}},
	{Name: "rewrite: wrapping decision extracted into a guard helper", Edits: []Edit{
		{File: c24File, Old: "\tvar handler http.Handler = mux\n\tif cfg.TokenHash != \"\" {\n\t\thandler = s.requireAuth(mux)\n\t}\n", New: "\thandler := s.guard(mux)\n"},
		{File: c24File, Old: "// SetRemoteProvider sets the remote status provider.", New: "func (s *Server) guard(router http.Handler) http.Handler {\n\tif s.cfg.TokenHash == \"\" {\n\t\treturn router\n\t}\n\treturn s.requireAuth(router)\n}\n\n// SetRemoteProvider sets the remote status provider."},
	}},
	{Name: "guard helper with the token test inverted", ExpectRule: "C24.R3", ExpectKey: "server handler", Edits: []Edit{
		{File: c24File, Old: "\tvar handler http.Handler = mux\n\tif cfg.TokenHash != \"\" {\n\t\thandler = s.requireAuth(mux)\n\t}\n", New: "\thandler := s.guard(mux)\n"},
		{File: c24File, Old: "// SetRemoteProvider sets the remote status provider.", New: "func (s *Server) guard(router http.Handler) http.Handler {\n\tif s.cfg.TokenHash != \"\" {\n\t\treturn router\n\t}\n\treturn s.requireAuth(router)\n}\n\n// SetRemoteProvider sets the remote status provider."},
	}},
	{Name: "rewrite: wrapping decided by a switch on 0 < len(TokenHash)", Edits: []Edit{
		{File: c24File, Old: "\tvar handler http.Handler = mux\n\tif cfg.TokenHash != \"\" {\n\t\thandler = s.requireAuth(mux)\n\t}\n", New: "\ttokenConfigured := 0 < len(cfg.TokenHash)\n\tvar handler http.Handler\n\tswitch {\n\tcase tokenConfigured:\n\t\thandler = s.requireAuth(mux)\n\tdefault:\n\t\thandler = mux\n\t}\n"},
	}},
	{Name: "rewrite: table-driven group mounting over a route struct", Edits: []Edit{
		{File: c24File, Old: "\tif cfg.EnableRemoteAPI {\n\t\tmux.HandleFunc(\"/agents\", s.handleListAgents)\n\t\tmux.HandleFunc(\"/agents/\", s.handleAgentInfo)\n\t\tmux.HandleFunc(\"/routes/advertise\", s.handleTriggerAdvertise)\n\t\tmux.HandleFunc(\"/routes/manage\", s.handleRouteManage)\n\t\tmux.HandleFunc(\"/forward/manage\", s.handleForwardManage)\n\t\tmux.HandleFunc(\"/display-name/manage\", s.handleDisplayNameManage)\n\t\t// Sleep mode endpoints\n\t\tmux.HandleFunc(\"/sleep\", s.handleSleep)\n\t\tmux.HandleFunc(\"/sleep/status\", s.handleSleepStatus)\n\t\tmux.HandleFunc(\"/wake\", s.handleWake)\n\t} else {\n\t\tmux.HandleFunc(\"/agents\", disabledHandler(\"agents\"))\n\t\tmux.HandleFunc(\"/agents/\", disabledHandler(\"agents\"))\n\t\tmux.HandleFunc(\"/routes/advertise\", disabledHandler(\"routes_advertise\"))\n\t\tmux.HandleFunc(\"/routes/manage\", disabledHandler(\"routes_manage\"))\n\t\tmux.HandleFunc(\"/forward/manage\", disabledHandler(\"forward_manage\"))\n\t\tmux.HandleFunc(\"/display-name/manage\", disabledHandler(\"display_name_manage\"))\n\t\tmux.HandleFunc(\"/sleep\", disabledHandler(\"sleep\"))\n\t\tmux.HandleFunc(\"/sleep/status\", disabledHandler(\"sleep_status\"))\n\t\tmux.HandleFunc(\"/wake\", disabledHandler(\"wake\"))\n\t}\n", New: "\tmountGroup(mux, cfg.EnableRemoteAPI, []endpointRoute{\n\t\t{\"/agents\", \"agents\", s.handleListAgents},\n\t\t{\"/agents/\", \"agents\", s.handleAgentInfo},\n\t\t{\"/routes/advertise\", \"routes_advertise\", s.handleTriggerAdvertise},\n\t\t{\"/routes/manage\", \"routes_manage\", s.handleRouteManage},\n\t\t{\"/forward/manage\", \"forward_manage\", s.handleForwardManage},\n\t\t{\"/display-name/manage\", \"display_name_manage\", s.handleDisplayNameManage},\n\t\t{\"/sleep\", \"sleep\", s.handleSleep},\n\t\t{\"/sleep/status\", \"sleep_status\", s.handleSleepStatus},\n\t\t{\"/wake\", \"wake\", s.handleWake},\n\t})\n"},
		{File: c24File, Old: "// SetRemoteProvider sets the remote status provider.", New: "type endpointRoute struct {\n\tpattern string\n\tlabel   string\n\tserve   http.HandlerFunc\n}\n\nfunc mountGroup(mux *http.ServeMux, enabled bool, routes []endpointRoute) {\n\tfor _, route := range routes {\n\t\tserve := route.serve\n\t\tif !enabled {\n\t\t\tserve = disabledHandler(route.label)\n\t\t}\n\t\tmux.HandleFunc(route.pattern, serve)\n\t}\n}\n\n// SetRemoteProvider sets the remote status provider."},
	}},
	{Name: "table-driven mounting picks the 404 stub for the enabled group", ExpectRule: "C24.R5", ExpectKey: "EnableRemoteAPI pattern", Edits: []Edit{
		{File: c24File, Old: "\tif cfg.EnableRemoteAPI {\n\t\tmux.HandleFunc(\"/agents\", s.handleListAgents)\n\t\tmux.HandleFunc(\"/agents/\", s.handleAgentInfo)\n\t\tmux.HandleFunc(\"/routes/advertise\", s.handleTriggerAdvertise)\n\t\tmux.HandleFunc(\"/routes/manage\", s.handleRouteManage)\n\t\tmux.HandleFunc(\"/forward/manage\", s.handleForwardManage)\n\t\tmux.HandleFunc(\"/display-name/manage\", s.handleDisplayNameManage)\n\t\t// Sleep mode endpoints\n\t\tmux.HandleFunc(\"/sleep\", s.handleSleep)\n\t\tmux.HandleFunc(\"/sleep/status\", s.handleSleepStatus)\n\t\tmux.HandleFunc(\"/wake\", s.handleWake)\n\t} else {\n\t\tmux.HandleFunc(\"/agents\", disabledHandler(\"agents\"))\n\t\tmux.HandleFunc(\"/agents/\", disabledHandler(\"agents\"))\n\t\tmux.HandleFunc(\"/routes/advertise\", disabledHandler(\"routes_advertise\"))\n\t\tmux.HandleFunc(\"/routes/manage\", disabledHandler(\"routes_manage\"))\n\t\tmux.HandleFunc(\"/forward/manage\", disabledHandler(\"forward_manage\"))\n\t\tmux.HandleFunc(\"/display-name/manage\", disabledHandler(\"display_name_manage\"))\n\t\tmux.HandleFunc(\"/sleep\", disabledHandler(\"sleep\"))\n\t\tmux.HandleFunc(\"/sleep/status\", disabledHandler(\"sleep_status\"))\n\t\tmux.HandleFunc(\"/wake\", disabledHandler(\"wake\"))\n\t}\n", New: "\tmountGroup(mux, cfg.EnableRemoteAPI, []endpointRoute{\n\t\t{\"/agents\", \"agents\", s.handleListAgents},\n\t\t{\"/agents/\", \"agents\", s.handleAgentInfo},\n\t\t{\"/routes/advertise\", \"routes_advertise\", s.handleTriggerAdvertise},\n\t\t{\"/routes/manage\", \"routes_manage\", s.handleRouteManage},\n\t\t{\"/forward/manage\", \"forward_manage\", s.handleForwardManage},\n\t\t{\"/display-name/manage\", \"display_name_manage\", s.handleDisplayNameManage},\n\t\t{\"/sleep\", \"sleep\", s.handleSleep},\n\t\t{\"/sleep/status\", \"sleep_status\", s.handleSleepStatus},\n\t\t{\"/wake\", \"wake\", s.handleWake},\n\t})\n"},
		{File: c24File, Old: "// SetRemoteProvider sets the remote status provider.", New: "type endpointRoute struct {\n\tpattern string\n\tlabel   string\n\tserve   http.HandlerFunc\n}\n\nfunc mountGroup(mux *http.ServeMux, enabled bool, routes []endpointRoute) {\n\tfor _, route := range routes {\n\t\tserve := route.serve\n\t\tif enabled {\n\t\t\tserve = disabledHandler(route.label)\n\t\t}\n\t\tmux.HandleFunc(route.pattern, serve)\n\t}\n}\n\n// SetRemoteProvider sets the remote status provider."},
	}},
	{Name: "rewrite: disabled registrations as a loop over the patterns with one NotFound handler", Edits: []Edit{
		{File: c24File, Old: "\t\tmux.HandleFunc(\"/agents\", disabledHandler(\"agents\"))\n\t\tmux.HandleFunc(\"/agents/\", disabledHandler(\"agents\"))\n\t\tmux.HandleFunc(\"/routes/advertise\", disabledHandler(\"routes_advertise\"))\n\t\tmux.HandleFunc(\"/routes/manage\", disabledHandler(\"routes_manage\"))\n\t\tmux.HandleFunc(\"/forward/manage\", disabledHandler(\"forward_manage\"))\n\t\tmux.HandleFunc(\"/display-name/manage\", disabledHandler(\"display_name_manage\"))\n\t\tmux.HandleFunc(\"/sleep\", disabledHandler(\"sleep\"))\n\t\tmux.HandleFunc(\"/sleep/status\", disabledHandler(\"sleep_status\"))\n\t\tmux.HandleFunc(\"/wake\", disabledHandler(\"wake\"))\n", New: "\t\tgone := http.HandlerFunc(http.NotFound)\n\t\tfor _, pattern := range []string{\"/agents\", \"/agents/\", \"/routes/advertise\", \"/routes/manage\", \"/forward/manage\", \"/display-name/manage\", \"/sleep\", \"/sleep/status\", \"/wake\"} {\n\t\t\tmux.Handle(pattern, gone)\n\t\t}\n"},
	}},
	{Name: "loop over disabled patterns registers a live handler", ExpectRule: "C24.R5", ExpectKey: "EnableRemoteAPI pattern /agents/", Edits: []Edit{
		{File: c24File, Old: "\t\tmux.HandleFunc(\"/agents\", disabledHandler(\"agents\"))\n\t\tmux.HandleFunc(\"/agents/\", disabledHandler(\"agents\"))\n\t\tmux.HandleFunc(\"/routes/advertise\", disabledHandler(\"routes_advertise\"))\n\t\tmux.HandleFunc(\"/routes/manage\", disabledHandler(\"routes_manage\"))\n\t\tmux.HandleFunc(\"/forward/manage\", disabledHandler(\"forward_manage\"))\n\t\tmux.HandleFunc(\"/display-name/manage\", disabledHandler(\"display_name_manage\"))\n\t\tmux.HandleFunc(\"/sleep\", disabledHandler(\"sleep\"))\n\t\tmux.HandleFunc(\"/sleep/status\", disabledHandler(\"sleep_status\"))\n\t\tmux.HandleFunc(\"/wake\", disabledHandler(\"wake\"))\n", New: "\t\tfor _, pattern := range []string{\"/agents\", \"/agents/\", \"/routes/advertise\", \"/routes/manage\", \"/forward/manage\", \"/display-name/manage\", \"/sleep\", \"/sleep/status\", \"/wake\"} {\n\t\t\tmux.HandleFunc(pattern, s.handleAgentInfo)\n\t\t}\n"},
	}},
	{Name: "rewrite: validator with a single RUnlock, swapped operands and a nested cache update", Edits: []Edit{
		{File: c24File, Old: "\ts.tokenCacheMu.RLock()\n\tif s.tokenCacheValid && subtle.ConstantTimeCompare(tokenSHA[:], s.cachedTokenSHA[:]) == 1 {\n\t\ts.tokenCacheMu.RUnlock()\n\t\treturn true\n\t}\n\ts.tokenCacheMu.RUnlock()\n\n\t// Slow path: bcrypt verify\n\tif bcrypt.CompareHashAndPassword([]byte(s.cfg.TokenHash), []byte(token)) != nil {\n\t\treturn false\n\t}\n\n\t// Update cache on success\n\ts.tokenCacheMu.Lock()\n\ts.cachedTokenSHA = tokenSHA\n\ts.tokenCacheValid = true\n\ts.tokenCacheMu.Unlock()\n\n\treturn true\n", New: "\ts.tokenCacheMu.RLock()\n\tcached := s.tokenCacheValid && 1 == subtle.ConstantTimeCompare(s.cachedTokenSHA[:], tokenSHA[:])\n\ts.tokenCacheMu.RUnlock()\n\tif cached {\n\t\treturn true\n\t}\n\n\tverified := bcrypt.CompareHashAndPassword([]byte(s.cfg.TokenHash), []byte(token)) == nil\n\tif verified {\n\t\ts.tokenCacheMu.Lock()\n\t\ts.tokenCacheValid = true\n\t\ts.cachedTokenSHA = tokenSHA\n\t\ts.tokenCacheMu.Unlock()\n\t}\n\treturn verified\n"},
	}},
	{Name: "validator trusts the cache-valid flag alone", ExpectRule: "C24.R4", ExpectKey: "validateToken", Edits: []Edit{
		{File: c24File, Old: "\ts.tokenCacheMu.RLock()\n\tif s.tokenCacheValid && subtle.ConstantTimeCompare(tokenSHA[:], s.cachedTokenSHA[:]) == 1 {\n\t\ts.tokenCacheMu.RUnlock()\n\t\treturn true\n\t}\n\ts.tokenCacheMu.RUnlock()\n\n\t// Slow path: bcrypt verify\n\tif bcrypt.CompareHashAndPassword([]byte(s.cfg.TokenHash), []byte(token)) != nil {\n\t\treturn false\n\t}\n\n\t// Update cache on success\n\ts.tokenCacheMu.Lock()\n\ts.cachedTokenSHA = tokenSHA\n\ts.tokenCacheValid = true\n\ts.tokenCacheMu.Unlock()\n\n\treturn true\n", New: "\ts.tokenCacheMu.RLock()\n\tcached := s.tokenCacheValid && 1 == subtle.ConstantTimeCompare(s.cachedTokenSHA[:], tokenSHA[:])\n\ts.tokenCacheMu.RUnlock()\n\tif cached || s.tokenCacheValid {\n\t\treturn true\n\t}\n\n\tverified := bcrypt.CompareHashAndPassword([]byte(s.cfg.TokenHash), []byte(token)) == nil\n\tif verified || cached {\n\t\ts.tokenCacheMu.Lock()\n\t\ts.tokenCacheValid = true\n\t\ts.cachedTokenSHA = tokenSHA\n\t\ts.tokenCacheMu.Unlock()\n\t}\n\treturn verified\n"},
	}},
}
