package rules

import (
	"fmt"
	"go/token"
	"go/types"
	"regexp"
	"sort"
	"strings"

	"golang.org/x/tools/go/ssa"

	"mmverify/kit"
)

func init() {
	const cfgFile = "internal/config/config.go"
	yamlCopy := func(onMarshalErr, onUnmarshalErr string) string {
		return "data, err := yaml.Marshal(c)\n\tif err != nil {\n\t\treturn " + onMarshalErr + "\n\t}\n\tredacted := &Config{}\n\tif err := yaml.Unmarshal(data, redacted); err != nil {\n\t\treturn " + onUnmarshalErr + "\n\t}"
	}
	register(&Check{
		ID: "C35", Level: "other", Patterns: []string{"./internal/config"},
		Technique: "type walk over config.Config matched against the access paths of the blanking calls, return-value aliasing, copy freshness of the slices written through",
		Explain: "Decides that Config.Redacted() blanks every secret-typed string field reachable from config.Config (TLS Key/KeyPEM, proxy and SOCKS5 passwords and hashes, agent, management and signing private keys, shell and file-transfer password hashes; enumerated by a type walk, so a secret-typed struct added anywhere is included) on every path to every return that yields a populated configuration: a call of a total blanking helper on exactly that access path of the returned copy, unconditional, inside a loop over the whole slice for each slice on the path, directly or through helpers. Decides that no return yields the receiver (no fail-open), that the helper and Redacted write only into the copy and that every slice written through is freshly allocated in the copy (original untouched), and that String() touches the receiver only to call Redacted(). " +
			"Not decided: secrets an operator puts in non-secret fields, the YAML emitter, nested slices below the first slice of a path.",
		Run: runC35,
		SelfTests: []SelfTest{
			{Name: "one redact call removed", ExpectRule: "C35.R1", ExpectKey: "Management.SigningPrivateKey", Edits: []Edit{
				{File: cfgFile, Old: "\tredact(&redacted.Management.SigningPrivateKey)\n", New: ""},
			}},
			{Name: "one redact call removed inside a loop", ExpectRule: "C35.R1", ExpectKey: "Peers[].ProxyAuth.Password", Edits: []Edit{
				{File: cfgFile, Old: "\t\tredact(&redacted.Peers[i].ProxyAuth.Password)\n", New: ""},
			}},
			{Name: "fail-open: receiver returned when the copy fails (the original defect)", ExpectRule: "C35.R2", Edits: []Edit{
				{File: cfgFile, Old: "redacted := c.deepCopy()", New: yamlCopy("c", "c")},
			}},
			{Name: "partially decoded, unredacted copy returned on error", ExpectRule: "C35.R1", Edits: []Edit{
				{File: cfgFile, Old: "redacted := c.deepCopy()", New: yamlCopy("&Config{}", "redacted")},
			}},
			{Name: "redaction applied to the original", ExpectRule: "C35.R3", Edits: []Edit{
				{File: cfgFile, Old: "\tredact(&redacted.Agent.PrivateKey)\n", New: "\tredact(&c.Agent.PrivateKey)\n"},
			}},
			{Name: "shallow copy of a slice that is written through", ExpectRule: "C35.R3", ExpectKey: "SOCKS5.Auth.Users", Edits: []Edit{
				{File: cfgFile, Old: "cp.SOCKS5.Auth.Users = slices.Clone(c.SOCKS5.Auth.Users)", New: "cp.SOCKS5.Auth.Users = c.SOCKS5.Auth.Users"},
			}},
			{Name: "slice clone dropped after the struct copy", ExpectRule: "C35.R3", ExpectKey: "Peers", Edits: []Edit{
				{File: cfgFile, Old: "\tcp.Peers = slices.Clone(c.Peers)\n", New: ""},
			}},
			{Name: "loop skips the first element", ExpectRule: "C35.R1", ExpectKey: "Listeners[].TLS.Key", Edits: []Edit{
				{File: cfgFile, Old: "\tfor i := range redacted.Listeners {\n\t\tredact(", New: "\tfor i := 1; i < len(redacted.Listeners); i++ {\n\t\tredact("},
			}},
			{Name: "short secrets left in place by the helper", ExpectRule: "C35.R1", ExpectKey: "blanks every non-empty string", Edits: []Edit{
				{File: cfgFile, Old: "\tif *s != \"\" {\n\t\t*s = redactedValue", New: "\tif len(*s) > 8 {\n\t\t*s = redactedValue"},
			}},
			{Name: "redaction made conditional", ExpectRule: "C35.R1", ExpectKey: "Shell.PasswordHash", Edits: []Edit{
				{File: cfgFile, Old: "\tredact(&redacted.Shell.PasswordHash)\n", New: "\tif redacted.Shell.Enabled {\n\t\tredact(&redacted.Shell.PasswordHash)\n\t}\n"},
			}},
			{Name: "redaction inside the loop made conditional", ExpectRule: "C35.R1", ExpectKey: "Peers[].ProxyAuth.Password", Edits: []Edit{
				{File: cfgFile, Old: "\t\tredact(&redacted.Peers[i].ProxyAuth.Password)\n", New: "\t\tif redacted.Peers[i].Proxy != \"\" {\n\t\t\tredact(&redacted.Peers[i].ProxyAuth.Password)\n\t\t}\n"},
			}},
			{Name: "copy helper returns the receiver", ExpectRule: "C35.R2", Edits: []Edit{
				{File: cfgFile, Old: "\tcp := *c\n\n\tcp.Listeners", New: "\tcp := c\n\n\tcp.Listeners"},
				{File: cfgFile, Old: "\n\treturn &cp\n}", New: "\n\treturn cp\n}"},
			}},
			{Name: "either/or helper: only the first non-empty form of a TLS key is blanked", ExpectRule: "C35.R1", ExpectKey: "TLS.KeyPEM", Edits: []Edit{
				{File: cfgFile, Old: "\tredact(&redacted.TLS.Key)\n\tredact(&redacted.TLS.KeyPEM)\n", New: "\tredactEither(&redacted.TLS.Key, &redacted.TLS.KeyPEM)\n"},
				{File: cfgFile, Old: "// Redacted returns a copy of the config with sensitive values redacted.", New: "func redactEither(a, b *string) {\n\tswitch {\n\tcase *a != \"\":\n\t\tredact(a)\n\tcase *b != \"\":\n\t\tredact(b)\n\t}\n}\n\n// Redacted returns a copy of the config with sensitive values redacted."},
			}},
			{Name: "fast path: unredacted copy returned when another predicate sees no secrets", ExpectRule: "C35.R1", Edits: []Edit{
				{File: cfgFile, Old: "redacted := c.deepCopy()", New: "redacted := c.deepCopy()\n\tif !c.HasSensitiveData() {\n\t\treturn redacted\n\t}"},
			}},
			{Name: "String takes the unsafe renderer when a predicate sees no secrets", ExpectRule: "C35.R4", Edits: []Edit{
				{File: cfgFile, Old: "\tredacted := c.Redacted()\n\tdata, _ := yaml.Marshal(redacted)", New: "\tif !c.HasSensitiveData() {\n\t\treturn c.StringUnsafe()\n\t}\n\tredacted := c.Redacted()\n\tdata, _ := yaml.Marshal(redacted)"},
			}},
			{Name: "loop blanks a per-iteration copy of the element", ExpectRule: "C35.R1", ExpectKey: "Listeners[].TLS.Key", Edits: []Edit{
				{File: cfgFile, Old: "\tfor i := range redacted.Listeners {\n\t\tredact(&redacted.Listeners[i].TLS.Key)\n\t\tredact(&redacted.Listeners[i].TLS.KeyPEM)\n\t}", New: "\tfor _, l := range redacted.Listeners {\n\t\tredact(&l.TLS.Key)\n\t\tredact(&l.TLS.KeyPEM)\n\t}"},
			}},
			{Name: "only the first list entry is blanked", ExpectRule: "C35.R1", ExpectKey: "SOCKS5.Auth.Users[].Password", Edits: []Edit{
				{File: cfgFile, Old: "\tfor i := range redacted.SOCKS5.Auth.Users {", New: "\tfor i := range redacted.SOCKS5.Auth.Users[:min(1, len(redacted.SOCKS5.Auth.Users))] {"},
			}},
			{Name: "rewrite: value-returning masked(string) string and a sanitized() struct helper", Edits: []Edit{
				{File: cfgFile, Old: "\tredact(&redacted.Agent.PrivateKey)\n", New: "\tredacted.Agent.PrivateKey = masked(redacted.Agent.PrivateKey)\n"},
				{File: cfgFile, Old: "\t\tredact(&redacted.Peers[i].TLS.Key)\n\t\tredact(&redacted.Peers[i].TLS.KeyPEM)\n", New: "\t\tp := &redacted.Peers[i]\n\t\tp.TLS = p.TLS.sanitized()\n"},
				{File: cfgFile, Old: "// Redacted returns a copy of the config with sensitive values redacted.", New: "func masked(secret string) string {\n\tswitch secret {\n\tcase \"\":\n\t\treturn \"\"\n\tdefault:\n\t\treturn redactedValue\n\t}\n}\n\nfunc (t TLSConfig) sanitized() TLSConfig {\n\tt.KeyPEM = masked(t.KeyPEM)\n\tt.Key = masked(t.Key)\n\treturn t\n}\n\n// Redacted returns a copy of the config with sensitive values redacted."},
			}},
			{Name: "value masker lets short secrets through", ExpectRule: "C35.R1", ExpectKey: "Agent.PrivateKey", Edits: []Edit{
				{File: cfgFile, Old: "\tredact(&redacted.Agent.PrivateKey)\n", New: "\tredacted.Agent.PrivateKey = masked(redacted.Agent.PrivateKey)\n"},
				{File: cfgFile, Old: "// Redacted returns a copy of the config with sensitive values redacted.", New: "func masked(secret string) string {\n\tif len(secret) < 8 {\n\t\treturn secret\n\t}\n\treturn redactedValue\n}\n\n// Redacted returns a copy of the config with sensitive values redacted."},
			}},
			{Name: "sanitized() struct helper forgets one of the two key forms", ExpectRule: "C35.R1", ExpectKey: "Peers[].TLS.KeyPEM", Edits: []Edit{
				{File: cfgFile, Old: "\t\tredact(&redacted.Peers[i].TLS.Key)\n\t\tredact(&redacted.Peers[i].TLS.KeyPEM)\n", New: "\t\tredacted.Peers[i].TLS = redacted.Peers[i].TLS.sanitized()\n"},
				{File: cfgFile, Old: "// Redacted returns a copy of the config with sensitive values redacted.", New: "func (t TLSConfig) sanitized() TLSConfig {\n\tt.Key = redactedValue\n\treturn t\n}\n\n// Redacted returns a copy of the config with sensitive values redacted."},
			}},
			{Name: "rewrite: table of pointers to secret fields blanked by a loop helper", Edits: []Edit{
				{File: cfgFile, Old: "\tredact(&redacted.Management.PrivateKey)\n\tredact(&redacted.Management.SigningPrivateKey)\n", New: "\tredactAll(redacted.moreSecrets())\n"},
				{File: cfgFile, Old: "\tfor i := range redacted.SOCKS5.Auth.Users {\n\t\tredact(&redacted.SOCKS5.Auth.Users[i].Password)\n\t\tredact(&redacted.SOCKS5.Auth.Users[i].PasswordHash)\n\t}\n", New: ""},
				{File: cfgFile, Old: "// Redacted returns a copy of the config with sensitive values redacted.", New: "func redactAll(fields []*string) {\n\tfor _, f := range fields {\n\t\tif len(*f) == 0 {\n\t\t\tcontinue\n\t\t}\n\t\t*f = redactedValue\n\t}\n}\n\nfunc (c *Config) moreSecrets() []*string {\n\tfields := []*string{&c.Management.PrivateKey, &c.Management.SigningPrivateKey}\n\tusers := c.SOCKS5.Auth.Users\n\tfor i := range users {\n\t\tfields = append(fields, &users[i].Password, &users[i].PasswordHash)\n\t}\n\treturn fields\n}\n\n// Redacted returns a copy of the config with sensitive values redacted."},
			}},
			{Name: "pointer table misses a secret field", ExpectRule: "C35.R1", ExpectKey: "Management.SigningPrivateKey", Edits: []Edit{
				{File: cfgFile, Old: "\tredact(&redacted.Management.PrivateKey)\n\tredact(&redacted.Management.SigningPrivateKey)\n", New: "\tredactAll(redacted.moreSecrets())\n"},
				{File: cfgFile, Old: "// Redacted returns a copy of the config with sensitive values redacted.", New: "func redactAll(fields []*string) {\n\tfor _, f := range fields {\n\t\tif len(*f) == 0 {\n\t\t\tcontinue\n\t\t}\n\t\t*f = redactedValue\n\t}\n}\n\nfunc (c *Config) moreSecrets() []*string {\n\treturn []*string{&c.Management.PrivateKey}\n}\n\n// Redacted returns a copy of the config with sensitive values redacted."},
			}},
			{Name: "pointer table taken from the original instead of the copy", ExpectRule: "C35.R3", Edits: []Edit{
				{File: cfgFile, Old: "\tredact(&redacted.Management.PrivateKey)\n\tredact(&redacted.Management.SigningPrivateKey)\n", New: "\tredactAll(c.moreSecrets())\n"},
				{File: cfgFile, Old: "// Redacted returns a copy of the config with sensitive values redacted.", New: "func redactAll(fields []*string) {\n\tfor _, f := range fields {\n\t\tif len(*f) == 0 {\n\t\t\tcontinue\n\t\t}\n\t\t*f = redactedValue\n\t}\n}\n\nfunc (c *Config) moreSecrets() []*string {\n\treturn []*string{&c.Management.PrivateKey, &c.Management.SigningPrivateKey}\n}\n\n// Redacted returns a copy of the config with sensitive values redacted."},
			}},
			{Name: "rewrite: slices unshared by a pointer-receiver helper on the shallow copy", Edits: []Edit{
				{File: cfgFile, Old: "\tcp.Peers = slices.Clone(c.Peers)\n", New: "\tcp.unsharePeers()\n"},
				{File: cfgFile, Old: "// Redacted returns a copy of the config with sensitive values redacted.", New: "func (c *Config) unsharePeers() {\n\tc.Peers = slices.Clone(c.Peers)\n}\n\n// Redacted returns a copy of the config with sensitive values redacted."},
			}},
			{Name: "String renders the receiver", ExpectRule: "C35.R4", Edits: []Edit{
				{File: cfgFile, Old: "\tredacted := c.Redacted()\n\tdata, _ := yaml.Marshal(redacted)", New: "\tdata, _ := yaml.Marshal(c)"},
			}},
			{Name: "secret-typed struct added elsewhere without redaction", ExpectRule: "C35.R1", ExpectKey: "Forward.Listeners[].TLS.Key", Edits: []Edit{
				{File: cfgFile, Old: "\t// MaxConnections limits concurrent connections (0 = unlimited).\n\tMaxConnections int `yaml:\"max_connections,omitempty\"`", New: "\t// MaxConnections limits concurrent connections (0 = unlimited).\n\tMaxConnections int `yaml:\"max_connections,omitempty\"`\n\tTLS TLSConfig `yaml:\"tls,omitempty\"`"},
			}},
			{Name: "rewrite: helper for the TLS pair, classic for loop", Edits: []Edit{
				{File: cfgFile, Old: "\t\tredact(&redacted.Peers[i].TLS.Key)\n\t\tredact(&redacted.Peers[i].TLS.KeyPEM)\n", New: "\t\tredactTLSKeys(&redacted.Peers[i].TLS)\n"},
				{File: cfgFile, Old: "\tfor i := range redacted.Listeners {\n\t\tredact(", New: "\tfor i := 0; i < len(redacted.Listeners); i++ {\n\t\tredact("},
				{File: cfgFile, Old: "// Redacted returns a copy of the config with sensitive values redacted.", New: "func redactTLSKeys(t *TLSConfig) {\n\tredact(&t.Key)\n\tredact(&t.KeyPEM)\n}\n\n// Redacted returns a copy of the config with sensitive values redacted."},
			}},
			{Name: "rewrite: inline struct copy with append/make+copy clones", Edits: []Edit{
				{File: cfgFile, Old: "redacted := c.deepCopy()", New: "cp := *c\n\tcp.Peers = append([]PeerConfig(nil), c.Peers...)\n\tcp.Listeners = make([]ListenerConfig, len(c.Listeners))\n\tcopy(cp.Listeners, c.Listeners)\n\tcp.SOCKS5.Auth.Users = append(c.SOCKS5.Auth.Users[:0:0], c.SOCKS5.Auth.Users...)\n\tredacted := &cp"},
			}},
			{Name: "rewrite: YAML round-trip copy that fails closed (blank configuration)", Edits: []Edit{
				{File: cfgFile, Old: "redacted := c.deepCopy()", New: yamlCopy("&Config{}", "nil")},
			}},
			{Name: "rewrite: String through the redacted copy's unsafe renderer; helper tests length", Edits: []Edit{
				{File: cfgFile, Old: "\tredacted := c.Redacted()\n\tdata, _ := yaml.Marshal(redacted)\n\treturn string(data)", New: "\treturn c.Redacted().StringUnsafe()"},
				{File: cfgFile, Old: "\tif *s != \"\" {\n\t\t*s = redactedValue", New: "\tif len(*s) > 0 {\n\t\t*s = redactedValue"},
			}},
		},
	})
}

// c35Secrets is the secret table of the property statement: (struct type, field) pairs of
// package config whose values must never appear in the redacted rendering.
var c35Secrets = map[string][]string{
	"GlobalTLSConfig":    {"Key", "KeyPEM"},
	"TLSConfig":          {"Key", "KeyPEM"},
	"ProxyAuth":          {"Password"},
	"SOCKS5UserConfig":   {"Password", "PasswordHash"},
	"AgentConfig":        {"PrivateKey"},
	"FileTransferConfig": {"PasswordHash"},
	"ShellConfig":        {"PasswordHash"},
	"ManagementConfig":   {"PrivateKey", "SigningPrivateKey"},
}

var c35Suspicious = regexp.MustCompile(`(?i)password|secret|private|token|(^|_)key(pem)?$`)

type c35Blanker struct {
	total bool
	why   string
}

type c35Site struct {
	root   ssa.Value
	path   []kit.PathStep
	top    ssa.Instruction
	header *ssa.BasicBlock // outermost loop header in the analysed function (nil: straight-line)
	body   *ssa.BasicBlock
	ok     bool
	why    string
}

type c35Cx struct {
	p        *kit.Program
	r        *kit.Report
	blankers map[*ssa.Function]*c35Blanker
	maskers  map[*ssa.Function]*c35Blanker // value-returning func(string) string
	tblanks  map[*ssa.Function]*c35Blanker // func([]*string) blanking every element
}

func c35IsStringPtr(t types.Type) bool {
	ptr, ok := t.Underlying().(*types.Pointer)
	if !ok {
		return false
	}
	b, ok := ptr.Elem().Underlying().(*types.Basic)
	return ok && b.Kind() == types.String
}

// blanker: fn has the shape func(*string) and, if so, whether it blanks every non-empty string.
func (cx *c35Cx) blanker(fn *ssa.Function) *c35Blanker {
	if b, ok := cx.blankers[fn]; ok {
		return b
	}
	cx.blankers[fn] = nil
	sig := fn.Signature
	if sig.Recv() != nil || sig.Params().Len() != 1 || sig.Results().Len() != 0 || !c35IsStringPtr(sig.Params().At(0).Type()) || fn.Blocks == nil {
		return nil
	}
	b := &c35Blanker{}
	cx.blankers[fn] = b
	param := ssa.Value(fn.Params[0])
	stops := map[*ssa.BasicBlock]bool{}
	foreign := ""
	kit.Instrs(fn, func(in ssa.Instruction) {
		st, ok := in.(*ssa.Store)
		if !ok {
			return
		}
		if st.Addr == param {
			if _, isConst := st.Val.(*ssa.Const); isConst {
				stops[in.Block()] = true
			}
			return
		}
		if _, local := st.Addr.(*ssa.Alloc); !local {
			foreign = cx.p.Pos(st.Pos())
		}
	})
	if foreign != "" {
		b.why = "it also writes memory other than its argument (" + foreign + ")"
		return b
	}
	if len(stops) == 0 {
		b.why = "it never stores a constant through its argument"
		return b
	}
	entry := fn.Blocks[0]
	if stops[entry] {
		b.total = true
		return b
	}
	blocked := map[kit.Edge]bool{}
	for _, blk := range fn.Blocks {
		if len(blk.Instrs) == 0 || len(blk.Succs) != 2 {
			continue
		}
		ifi, ok := blk.Instrs[len(blk.Instrs)-1].(*ssa.If)
		if !ok {
			continue
		}
		if onTrue, onFalse := c35EmptyEdges(ifi.Cond, param); onTrue {
			blocked[kit.Edge{From: blk, To: blk.Succs[0]}] = true
		} else if onFalse {
			blocked[kit.Edge{From: blk, To: blk.Succs[1]}] = true
		}
	}
	reach := kit.Reach(entry, blocked, stops)
	b.total = true
	for _, ret := range kit.Returns(fn) {
		if ret.Block() == fn.Recover {
			continue
		}
		if reach[ret.Block()] && !stops[ret.Block()] {
			b.total = false
			b.why = "some non-empty strings reach its return without being overwritten (its guard is not an emptiness test)"
		}
	}
	return b
}

// c35EmptyEdges: which edge of a branch on cond implies that *param is the empty string.
func c35EmptyEdges(cond ssa.Value, param ssa.Value) (onTrue, onFalse bool) {
	return c35EmptyEdgesF(cond, func(v ssa.Value) bool {
		u, ok := v.(*ssa.UnOp)
		return ok && u.Op == token.MUL && u.X == param
	})
}

// c35EmptyEdgesF: which edge of a branch on cond implies that the string recognised by isStr
// is empty.
func c35EmptyEdgesF(cond ssa.Value, isLoad func(ssa.Value) bool) (onTrue, onFalse bool) {
	neg := false
	for {
		u, ok := cond.(*ssa.UnOp)
		if !ok || u.Op != token.NOT {
			break
		}
		neg, cond = !neg, u.X
	}
	b, ok := cond.(*ssa.BinOp)
	if !ok {
		return false, false
	}
	isLen := func(v ssa.Value) bool {
		c, ok := v.(*ssa.Call)
		return ok && kit.CalleeOf(c).Built == "len" && len(c.Call.Args) == 1 && isLoad(c.Call.Args[0])
	}
	op, x, y := b.Op, b.X, b.Y
	if isLoad(y) || isLen(y) {
		x, y = y, x
		op = flipCmp(op)
	}
	var t, f bool
	switch {
	case isLoad(x):
		if s, isStr := kit.ConstString(y); !isStr || s != "" {
			return false, false
		}
		t, f = op == token.EQL, op == token.NEQ
	case isLen(x):
		k, isInt := kit.ConstInt(y)
		if !isInt || k < -1 || k > 1<<20 {
			return false, false
		}
		implies := func(edge bool) bool {
			if c35CmpInt(op, 0, k) != edge {
				return false
			}
			for n := int64(1); n <= k+2; n++ {
				if c35CmpInt(op, n, k) == edge {
					return false
				}
			}
			return true
		}
		t, f = implies(true), implies(false)
	default:
		return false, false
	}
	if neg {
		t, f = f, t
	}
	return t, f
}

func c35CmpInt(op token.Token, a, b int64) bool {
	ord := 0
	if a < b {
		ord = -1
	} else if a > b {
		ord = 1
	}
	return cmpHolds(op, ord)
}

// ---------- sites

func c35Concat(a, b []kit.PathStep) []kit.PathStep {
	return append(append([]kit.PathStep{}, a...), b...)
}

// c35SamePlace: two slice values are loads of the same access path of the same root.
func c35SamePlace(a, b ssa.Value) bool {
	if a == b {
		return true
	}
	ua, ok1 := a.(*ssa.UnOp)
	ub, ok2 := b.(*ssa.UnOp)
	if !ok1 || !ok2 || ua.Op != token.MUL || ub.Op != token.MUL {
		return false
	}
	ra, pa, ia, _, oka := kit.AddrPath(ua.X)
	rb, pb, ib, _, okb := kit.AddrPath(ub.X)
	if !oka || !okb || ra != rb || !kit.SamePath(pa, pb) || len(ia) != len(ib) {
		return false
	}
	for i := range ia {
		if ia[i] != ib[i] {
			return false
		}
	}
	return true
}

// c35LoopGuard finds, among the guards, the condition of a loop that runs idx over the whole
// of slice sl (for i := range s / for i := 0; i < len(s); i++).
func c35LoopGuard(gs []kit.Guard, idx, sl ssa.Value) int {
	// the counter
	okCounter := false
	switch x := idx.(type) {
	case *ssa.BinOp: // range lowering: idx = phi + 1, phi = [-1, idx, idx...] (one back edge per continue)
		if phi, ok := x.X.(*ssa.Phi); ok && x.Op == token.ADD && len(phi.Edges) >= 2 {
			one, _ := kit.ConstInt(x.Y)
			inits, backs := 0, 0
			for _, e := range phi.Edges {
				if k, isc := kit.ConstInt(e); isc && k == -1 {
					inits++
				} else if e == ssa.Value(x) {
					backs++
				}
			}
			okCounter = one == 1 && inits == 1 && backs == len(phi.Edges)-1
		}
	case *ssa.Phi: // classic: phi = [0, phi + 1]
		if len(x.Edges) >= 2 {
			inits, backs := 0, 0
			for _, e := range x.Edges {
				if k, isc := kit.ConstInt(e); isc && k == 0 {
					inits++
				} else if inc, ok := e.(*ssa.BinOp); ok && inc.Op == token.ADD && inc.X == ssa.Value(x) {
					if one, isOne := kit.ConstInt(inc.Y); isOne && one == 1 {
						backs++
					}
				}
			}
			okCounter = inits == 1 && backs == len(x.Edges)-1
		}
	}
	if !okCounter {
		return -1
	}
	for i, g := range gs {
		b, ok := g.Cond.(*ssa.BinOp)
		if !ok || !g.Polarity {
			continue
		}
		var n ssa.Value
		switch {
		case (b.Op == token.LSS || b.Op == token.NEQ) && b.X == idx:
			n = b.Y
		case (b.Op == token.GTR || b.Op == token.NEQ) && b.Y == idx:
			n = b.X
		default:
			continue
		}
		c, ok := n.(*ssa.Call)
		if !ok || kit.CalleeOf(c).Built != "len" || len(c.Call.Args) != 1 {
			continue
		}
		if c35SamePlace(c.Call.Args[0], sl) {
			return i
		}
	}
	return -1
}

// unconditional: call c executes for every element of every slice on its argument's path and
// under no other condition.
func (cx *c35Cx) unconditional(c ssa.Instruction, idx, sl []ssa.Value) (bool, string, *ssa.BasicBlock, *ssa.BasicBlock) {
	gs := kit.GuardsOf(c)
	used := map[int]bool{}
	var header, body *ssa.BasicBlock
	for k := range idx {
		gi := c35LoopGuard(gs, idx[k], sl[k])
		if gi < 0 {
			return false, "the element index at " + cx.p.Pos(c.Pos()) + " is not the counter of a loop over the whole slice (some elements are skipped)", nil, nil
		}
		used[gi] = true
		if header == nil {
			header = gs[gi].If.Block()
			body = header.Succs[0]
		}
	}
	if header == nil {
		// straight-line call: whether it lies on every path to a return is decided by dominance
		return true, "", nil, nil
	}
	// inside the loop body nothing but the loop conditions may guard the call; conditions
	// that already guard the loop header guard everything after it as well
	outer := map[*ssa.If]bool{}
	for _, g := range kit.Guards(header) {
		outer[g.If] = true
	}
	for i, g := range gs {
		if !used[i] && !outer[g.If] && !c35LoopExit(g) {
			return false, "inside the loop it is executed only under the condition at " + cx.p.Pos(g.If.Block().Instrs[0].Pos()) + " (" + g.Cond.String() + ")", nil, nil
		}
	}
	return true, "", header, body
}

// c35LoopExit: the guard is the exit condition of a loop that has been left; code after a loop
// runs regardless of it.
func c35LoopExit(g kit.Guard) bool {
	h := g.If.Block()
	if len(h.Succs) != 2 {
		return false
	}
	taken, other := h.Succs[1], h.Succs[0]
	if g.Polarity {
		taken, other = other, taken
	}
	reaches := func(from *ssa.BasicBlock) bool {
		seen := map[*ssa.BasicBlock]bool{}
		work := []*ssa.BasicBlock{from}
		for len(work) > 0 {
			b := work[len(work)-1]
			work = work[:len(work)-1]
			if b == h {
				return true
			}
			if seen[b] {
				continue
			}
			seen[b] = true
			work = append(work, b.Succs...)
		}
		return false
	}
	return reaches(other) && !reaches(taken)
}

func c35DomOK(s c35Site, ret *ssa.Return) bool {
	if s.header == nil {
		return kit.Precedes(s.top, ret)
	}
	return s.header.Dominates(ret.Block()) && !s.body.Dominates(ret.Block())
}

// collect finds the blanking sites of fn whose argument is rooted at one of the bound roots.
func (cx *c35Cx) collect(fn *ssa.Function, bind map[ssa.Value][]kit.PathStep, depth int) []c35Site {
	var sites []c35Site
	for _, c := range kit.Calls(fn) {
		if _, isCall := c.(*ssa.Call); !isCall {
			continue // go / defer: not part of the straight-line redaction
		}
		cal := kit.CalleeOf(c)
		if cal.Static == nil || cal.Static.Blocks == nil {
			continue
		}
		for i, a := range c.Common().Args {
			if _, isPtr := a.Type().Underlying().(*types.Pointer); !isPtr {
				continue
			}
			root, path, idx, sl, ok := kit.AddrPath(a)
			if !ok {
				continue
			}
			prefix, tracked := bind[root]
			if !tracked {
				continue
			}
			full := c35Concat(prefix, path)
			uncond, why, header, body := cx.unconditional(c, idx, sl)
			if b := cx.blanker(cal.Static); b != nil {
				s := c35Site{root: root, path: full, top: c, header: header, body: body, ok: uncond && b.total, why: why}
				if !b.total {
					s.why = "the helper " + kit.FuncName(cal.Static) + " does not blank every non-empty string: " + b.why
				}
				sites = append(sites, s)
				continue
			}
			if depth >= 3 || !kit.IsRepoPkg(kit.FuncPkgPath(cal.Static)) || i >= len(cal.Static.Params) {
				continue
			}
			callee := cal.Static
			for _, in := range cx.collect(callee, map[ssa.Value][]kit.PathStep{callee.Params[i]: full}, depth+1) {
				s := c35Site{root: root, path: in.path, top: c, header: header, body: body, ok: uncond && in.ok, why: why}
				if !in.ok {
					s.why = in.why
				}
				if s.ok {
					for _, ret := range kit.Returns(callee) {
						if ret.Block() != callee.Recover && !c35DomOK(in, ret) {
							s.ok, s.why = false, "inside "+kit.FuncName(callee)+" the blanking call is not on every path to the return"
						}
					}
				}
				sites = append(sites, s)
			}
		}
		// a table of pointers into the object handed to a helper that blanks every entry:
		// redactAll(copy.secretFields())
		if tb := cx.tableBlanker(cal.Static); tb != nil && depth < 3 {
			for _, a := range c.Common().Args {
				tcall, ok := a.(*ssa.Call)
				if !ok {
					continue
				}
				tf := kit.CalleeOf(tcall).Static
				if tf == nil || tf.Blocks == nil || !kit.IsRepoPkg(kit.FuncPkgPath(tf)) {
					continue
				}
				for j, ta := range tcall.Call.Args {
					if _, isPtr := ta.Type().Underlying().(*types.Pointer); !isPtr || j >= len(tf.Params) {
						continue
					}
					root, path, idx, sl, ok := kit.AddrPath(ta)
					if !ok {
						continue
					}
					prefix, tracked := bind[root]
					if !tracked {
						continue
					}
					uncond, why, header, body := cx.unconditional(c, idx, sl)
					entries, known := cx.tableOf(tf, j, depth+1)
					if !known {
						continue
					}
					for _, e := range entries {
						s := c35Site{root: root, path: c35Concat(c35Concat(prefix, path), e), top: c, header: header, body: body, ok: uncond && tb.total, why: why}
						if !tb.total {
							s.why = "the helper " + kit.FuncName(cal.Static) + " does not blank every entry of the table: " + tb.why
						}
						sites = append(sites, s)
					}
				}
			}
		}
	}
	// stores of a masked value (constant, result of a total func(string) string) or of a struct
	// returned by a helper that masks its fields: x.f = masked(x.f), l.TLS = l.TLS.sanitized()
	kit.Instrs(fn, func(in ssa.Instruction) {
		st, ok := in.(*ssa.Store)
		if !ok {
			return
		}
		root, path, idx, sl, ok := kit.AddrPath(st.Addr)
		if !ok {
			return
		}
		prefix, tracked := bind[root]
		if !tracked {
			return
		}
		full := c35Concat(prefix, path)
		if b, isB := st.Val.Type().Underlying().(*types.Basic); isB && b.Kind() == types.String {
			isMasked, m := cx.maskedValue(st.Val, 0)
			if !isMasked {
				return
			}
			uncond, why, header, body := cx.unconditional(st, idx, sl)
			s := c35Site{root: root, path: full, top: st, header: header, body: body, ok: uncond, why: why}
			if m != nil {
				if mb := cx.masker(m); mb != nil && !mb.total {
					s.ok, s.why = false, "the helper "+kit.FuncName(m)+" does not mask every non-empty string: "+mb.why
				}
			}
			sites = append(sites, s)
			return
		}
		if _, isStruct := st.Val.Type().Underlying().(*types.Struct); isStruct && depth < 3 {
			call, isCall := st.Val.(*ssa.Call)
			if !isCall {
				return
			}
			f := kit.CalleeOf(call).Static
			if f == nil || f.Blocks == nil || !kit.IsRepoPkg(kit.FuncPkgPath(f)) {
				return
			}
			uncond, why, header, body := cx.unconditional(st, idx, sl)
			for _, rel := range cx.structSummary(f, depth+1) {
				sites = append(sites, c35Site{root: root, path: c35Concat(full, rel), top: st, header: header, body: body, ok: uncond, why: why})
			}
		}
	})
	return sites
}

// masker: fn has the shape func(string) string; total when every value it returns is a
// constant, or its argument on an edge that implies the argument is empty.
func (cx *c35Cx) masker(fn *ssa.Function) *c35Blanker {
	if b, ok := cx.maskers[fn]; ok {
		return b
	}
	cx.maskers[fn] = nil
	sig := fn.Signature
	isStr := func(t types.Type) bool {
		b, ok := t.Underlying().(*types.Basic)
		return ok && b.Kind() == types.String
	}
	if fn.Blocks == nil || sig.Recv() != nil || sig.Params().Len() != 1 || sig.Results().Len() != 1 || !isStr(sig.Params().At(0).Type()) || !isStr(sig.Results().At(0).Type()) {
		return nil
	}
	b := &c35Blanker{total: true}
	cx.maskers[fn] = b
	param := ssa.Value(fn.Params[0])
	n := 0
	for _, ret := range kit.Returns(fn) {
		if ret.Block() == fn.Recover {
			continue
		}
		for _, l := range kit.GuardedLeaves(kit.ReturnResult(ret, 0), ret) {
			n++
			if _, isConst := l.V.(*ssa.Const); isConst {
				continue
			}
			okEmpty := false
			if l.V == param {
				for _, g := range l.Guards {
					t, f := c35EmptyEdgesF(g.Cond, func(v ssa.Value) bool { return v == param })
					if (g.Polarity && t) || (!g.Polarity && f) {
						okEmpty = true
					}
				}
			}
			if !okEmpty {
				b.total = false
				b.why = "it can return a value computed from its argument (" + cx.p.Pos(ret.Pos()) + ")"
			}
		}
	}
	if n == 0 {
		b.total, b.why = false, "it never returns"
	}
	return b
}

// maskedValue: v is a string that cannot carry a secret: a constant or the result of a
// value masker (returned so that its totality can be judged).
func (cx *c35Cx) maskedValue(v ssa.Value, depth int) (bool, *ssa.Function) {
	switch x := v.(type) {
	case *ssa.Const:
		return true, nil
	case *ssa.Call:
		if f := kit.CalleeOf(x).Static; f != nil && cx.masker(f) != nil {
			return true, f
		}
	case *ssa.Phi:
		if depth > 4 {
			return false, nil
		}
		var m *ssa.Function
		for _, e := range x.Edges {
			ok, f := cx.maskedValue(e, depth+1)
			if !ok {
				return false, nil
			}
			if f != nil {
				m = f
			}
		}
		return true, m
	}
	return false, nil
}

// structSummary: the relative access paths that are blanked in the struct value fn returns,
// on every path to every return (fn works on a local copy: func (t T) sanitized() T).
func (cx *c35Cx) structSummary(fn *ssa.Function, depth int) [][]kit.PathStep {
	var common [][]kit.PathStep
	first := true
	for _, ret := range kit.Returns(fn) {
		if ret.Block() == fn.Recover || len(ret.Results) == 0 {
			continue
		}
		var here [][]kit.PathStep
		// (not kit.ReturnResult: the local copy is loaded, not spilled)
		u, ok := ret.Results[0].(*ssa.UnOp)
		if ok && u.Op == token.MUL {
			if a, isAlloc := u.X.(*ssa.Alloc); isAlloc {
				for _, s := range cx.collect(fn, map[ssa.Value][]kit.PathStep{a: nil}, depth) {
					if s.ok && c35DomOK(s, ret) {
						here = append(here, s.path)
					}
				}
			}
		}
		if first {
			common, first = here, false
			continue
		}
		var keep [][]kit.PathStep
		for _, c := range common {
			for _, h := range here {
				if kit.SamePath(c, h) {
					keep = append(keep, c)
					break
				}
			}
		}
		common = keep
	}
	return common
}

// tableBlanker: fn takes a []*string and blanks what every entry points to (a loop over the
// whole slice whose body overwrites *entry with a constant unless it is empty).
func (cx *c35Cx) tableBlanker(fn *ssa.Function) *c35Blanker {
	if b, ok := cx.tblanks[fn]; ok {
		return b
	}
	cx.tblanks[fn] = nil
	if fn.Blocks == nil || fn.Signature.Params().Len() != 1 || len(fn.Params) != 1 {
		return nil
	}
	sl, ok := fn.Signature.Params().At(0).Type().Underlying().(*types.Slice)
	if !ok || !c35IsStringPtr(sl.Elem()) {
		return nil
	}
	b := &c35Blanker{}
	cx.tblanks[fn] = b
	param := ssa.Value(fn.Params[0])
	b.why = "it has no loop over the whole table that overwrites each entry with a constant"
	kit.Instrs(fn, func(in ssa.Instruction) {
		st, ok := in.(*ssa.Store)
		if !ok {
			return
		}
		if _, isConst := st.Val.(*ssa.Const); !isConst {
			return
		}
		// the pointer stored through is table[idx]
		ptr, ok := st.Addr.(*ssa.UnOp)
		if !ok || ptr.Op != token.MUL {
			return
		}
		ia, ok := ptr.X.(*ssa.IndexAddr)
		if !ok || ia.X != param {
			return
		}
		gs := kit.GuardsOf(st)
		gi := c35LoopGuard(gs, ia.Index, param)
		if gi < 0 {
			b.why = "the loop does not run over the whole table"
			return
		}
		header := gs[gi].If.Block()
		body := header.Succs[0]
		// can the next iteration be reached from the loop body without the store, other than
		// on edges that imply the entry is empty?
		stops := map[*ssa.BasicBlock]bool{st.Block(): true}
		blocked := map[kit.Edge]bool{}
		for _, blk := range fn.Blocks {
			if len(blk.Instrs) == 0 || len(blk.Succs) != 2 {
				continue
			}
			ifi, isIf := blk.Instrs[len(blk.Instrs)-1].(*ssa.If)
			if !isIf || blk == header {
				continue
			}
			isEntry := func(v ssa.Value) bool {
				u, ok := v.(*ssa.UnOp)
				if !ok || u.Op != token.MUL {
					return false
				}
				// *entry where entry is (another load of) table[idx]
				pu, ok := u.X.(*ssa.UnOp)
				if !ok || pu.Op != token.MUL {
					return false
				}
				pia, ok := pu.X.(*ssa.IndexAddr)
				return ok && pia.X == param && pia.Index == ia.Index
			}
			if t, f := c35EmptyEdgesF(ifi.Cond, isEntry); t {
				blocked[kit.Edge{From: blk, To: blk.Succs[0]}] = true
			} else if f {
				blocked[kit.Edge{From: blk, To: blk.Succs[1]}] = true
			}
		}
		if stops[body] {
			b.total, b.why = true, ""
			return
		}
		reach := kit.Reach(body, blocked, stops)
		if reach[header] {
			b.total = false
			b.why = "some non-empty entries are skipped (a condition other than an emptiness test guards the overwrite)"
			return
		}
		b.total, b.why = true, ""
	})
	return b
}

// tableOf: the access paths (relative to what parameter k of fn points to) whose addresses are
// in the []*string that fn returns, on every path and for every element of the slices on the
// path. known=false when the construction of the table is not understood.
func (cx *c35Cx) tableOf(fn *ssa.Function, k int, depth int) (entries [][]kit.PathStep, known bool) {
	if depth > 4 || k >= len(fn.Params) || fn.Signature.Results().Len() != 1 {
		return nil, false
	}
	rs, ok := fn.Signature.Results().At(0).Type().Underlying().(*types.Slice)
	if !ok || !c35IsStringPtr(rs.Elem()) {
		return nil, false
	}
	root := ssa.Value(fn.Params[k])
	var rets []*ssa.Return
	for _, ret := range kit.Returns(fn) {
		if ret.Block() != fn.Recover {
			rets = append(rets, ret)
		}
	}
	known = true
	addAddr := func(addr ssa.Value, anchor ssa.Instruction, sub [][]kit.PathStep) {
		r0, path, idx, sl, ok := kit.AddrPath(addr)
		if !ok || r0 != root {
			return // a pointer to something else: irrelevant for this object
		}
		uncond, _, header, body := cx.unconditional(anchor, idx, sl)
		if !uncond {
			return
		}
		site := c35Site{top: anchor, header: header, body: body}
		for _, ret := range rets {
			if !c35DomOK(site, ret) {
				return
			}
		}
		if sub == nil {
			entries = append(entries, path)
			return
		}
		for _, e := range sub {
			entries = append(entries, c35Concat(path, e))
		}
	}
	// elements stored into a backing array (slice literal / varargs)
	fromArray := func(a *ssa.Alloc, anchor ssa.Instruction) {
		if a.Referrers() == nil {
			return
		}
		for _, ref := range *a.Referrers() {
			ia, ok := ref.(*ssa.IndexAddr)
			if !ok || ia.Referrers() == nil {
				continue
			}
			for _, rr := range *ia.Referrers() {
				if st, ok := rr.(*ssa.Store); ok && st.Addr == ssa.Value(ia) {
					addAddr(st.Val, anchor, nil)
				}
			}
		}
	}
	seen := map[ssa.Value]bool{}
	var visit func(v ssa.Value)
	fromCall := func(c *ssa.Call, anchor ssa.Instruction) bool {
		tf := kit.CalleeOf(c).Static
		if tf == nil || tf.Blocks == nil || !kit.IsRepoPkg(kit.FuncPkgPath(tf)) {
			return false
		}
		for j, a := range c.Call.Args {
			if _, isPtr := a.Type().Underlying().(*types.Pointer); !isPtr {
				continue
			}
			sub, ok := cx.tableOf(tf, j, depth+1)
			if !ok {
				return false
			}
			addAddr(a, anchor, sub)
			if len(sub) == 0 {
				_ = sub
			}
		}
		return true
	}
	visit = func(v ssa.Value) {
		if seen[v] || !known {
			return
		}
		seen[v] = true
		switch x := v.(type) {
		case *ssa.Phi:
			for _, e := range x.Edges {
				visit(e)
			}
		case *ssa.Const:
			if x.Value != nil {
				known = false
			}
		case *ssa.Slice:
			if a, ok := x.X.(*ssa.Alloc); ok {
				fromArray(a, x)
			} else {
				visit(x.X)
			}
		case *ssa.MakeSlice:
		case *ssa.Call:
			cal := kit.CalleeOf(x)
			if cal.Built == "append" {
				visit(x.Call.Args[0])
				if len(x.Call.Args) > 1 {
					switch y := x.Call.Args[1].(type) {
					case *ssa.Slice:
						if a, ok := y.X.(*ssa.Alloc); ok {
							fromArray(a, x)
						} else {
							known = false
						}
					case *ssa.Call:
						if !fromCall(y, x) {
							known = false
						}
					case *ssa.Const:
					default:
						known = false
					}
				}
				return
			}
			if !fromCall(x, x) {
				known = false
			}
		default:
			known = false
		}
	}
	for _, ret := range rets {
		visit(kit.ReturnResult(ret, 0))
	}
	if len(rets) == 0 {
		known = false
	}
	return entries, known
}

// ---------- returned values

// c35AliasOf: v is (an alias of) recv, possibly through repository helpers that return their argument.
func c35AliasOf(v, recv ssa.Value, depth int) bool {
	if v == recv {
		return true
	}
	switch x := v.(type) {
	case *ssa.ChangeType:
		return c35AliasOf(x.X, recv, depth)
	case *ssa.Phi:
		for _, e := range x.Edges {
			if c35AliasOf(e, recv, depth+1) && depth < 8 {
				return true
			}
		}
	case *ssa.Call:
		cal := kit.CalleeOf(x)
		if cal.Static == nil || cal.Static.Blocks == nil || depth >= 3 {
			return false
		}
		for i, a := range x.Call.Args {
			if !c35AliasOf(a, recv, depth+1) || i >= len(cal.Static.Params) {
				continue
			}
			for _, ret := range kit.Returns(cal.Static) {
				if len(ret.Results) > 0 {
					for _, l := range kit.PhiLeaves(kit.ReturnResult(ret, 0)) {
						if c35AliasOf(l, cal.Static.Params[i], depth+1) {
							return true
						}
					}
				}
			}
		}
	}
	return false
}

// c35Populated: the freshly allocated a can hold configuration data when ret executes.
func c35Populated(a *ssa.Alloc, ret *ssa.Return) bool {
	pop := false
	seen := map[ssa.Value]bool{}
	var walk func(v ssa.Value)
	walk = func(v ssa.Value) {
		if seen[v] || v.Referrers() == nil {
			return
		}
		seen[v] = true
		for _, ref := range *v.Referrers() {
			switch x := ref.(type) {
			case *ssa.FieldAddr, *ssa.IndexAddr, *ssa.MakeInterface, *ssa.ChangeType:
				walk(x.(ssa.Value))
			case *ssa.Store:
				if x.Addr == v && (kit.CanReach(x, ret) || kit.Precedes(x, ret)) {
					pop = true
				}
			case ssa.CallInstruction:
				if kit.CanReach(x, ret) || kit.Precedes(x, ret) {
					pop = true
				}
			}
		}
	}
	walk(a)
	return pop
}

// ---------- freshness of what is written through

func c35FreshSlice(v ssa.Value, depth int) bool {
	if depth > 6 {
		return false
	}
	switch x := v.(type) {
	case *ssa.Const:
		return x.Value == nil
	case *ssa.MakeSlice:
		return true
	case *ssa.ChangeType:
		return c35FreshSlice(x.X, depth+1)
	case *ssa.Phi:
		for _, e := range x.Edges {
			if !c35FreshSlice(e, depth+1) {
				return false
			}
		}
		return true
	case *ssa.Slice:
		// s[:0:0] forces append to allocate; a slice of a fresh slice is fresh
		if x.Max != nil {
			if k, ok := kit.ConstInt(x.Max); ok && k == 0 {
				return true
			}
		}
		return c35FreshSlice(x.X, depth+1)
	case *ssa.Call:
		cal := kit.CalleeOf(x)
		switch {
		case cal.Built == "append":
			return c35FreshSlice(x.Call.Args[0], depth+1)
		case cal.Pkg == "slices" && cal.Name == "Clone", cal.Pkg == "bytes" && cal.Name == "Clone":
			return true
		case cal.Static != nil && cal.Static.Blocks != nil:
			n := 0
			for _, ret := range kit.Returns(cal.Static) {
				if ret.Block() == cal.Static.Recover || len(ret.Results) == 0 {
					continue
				}
				n++
				for _, l := range kit.PhiLeaves(kit.ReturnResult(ret, 0)) {
					if !c35FreshSlice(l, depth+2) {
						return false
					}
				}
			}
			return n > 0
		}
	}
	return false
}

// refFresh: the slice at access path S of the object root (living in fn) does not share its
// backing array with anything else when instruction before executes.
func (cx *c35Cx) refFresh(root ssa.Value, fn *ssa.Function, S []kit.PathStep, before ssa.Instruction, depth int) (bool, string) {
	sname := kit.PathString(S)
	switch x := root.(type) {
	case *ssa.Alloc:
		copied := false
		var stores []*ssa.Store
		kit.Instrs(fn, func(in ssa.Instruction) {
			st, ok := in.(*ssa.Store)
			if !ok {
				return
			}
			if st.Addr == ssa.Value(x) {
				if u, isLoad := st.Val.(*ssa.UnOp); isLoad && u.Op == token.MUL {
					copied = true
				}
				return
			}
			if r, path, _, _, ok := kit.AddrPath(st.Addr); ok && r == ssa.Value(x) && kit.SamePath(path, S) {
				stores = append(stores, st)
			}
		})
		dominating := false
		// a helper that receives (a prefix of) the object and replaces the slice itself:
		// cp.unshareLists() with c.Listeners = slices.Clone(c.Listeners) inside
		for _, c := range kit.Calls(fn) {
			call, isCall := c.(*ssa.Call)
			h := kit.CalleeOf(c).Static
			if !isCall || h == nil || h.Blocks == nil || !kit.IsRepoPkg(kit.FuncPkgPath(h)) || depth >= 3 {
				continue
			}
			for i, a := range call.Call.Args {
				if _, isPtr := a.Type().Underlying().(*types.Pointer); !isPtr || i >= len(h.Params) {
					continue
				}
				r0, pa, _, _, ok := kit.AddrPath(a)
				if !ok || r0 != ssa.Value(x) || len(pa) > len(S) || !kit.SamePath(pa, S[:len(pa)]) {
					continue
				}
				rel := S[len(pa):]
				good, bad := false, ""
				kit.Instrs(h, func(in ssa.Instruction) {
					st, ok := in.(*ssa.Store)
					if !ok {
						return
					}
					r1, p1, _, _, ok := kit.AddrPath(st.Addr)
					if !ok || r1 != ssa.Value(h.Params[i]) || !kit.SamePath(p1, rel) {
						return
					}
					if !c35FreshSlice(st.Val, 0) {
						bad = cx.p.Pos(st.Pos())
						return
					}
					all := true
					for _, ret := range kit.Returns(h) {
						if ret.Block() != h.Recover && !kit.Precedes(st, ret) {
							all = false
						}
					}
					if all {
						good = true
					}
				})
				if bad != "" {
					return false, "the copy's " + sname + " is assigned a slice that is not freshly allocated (" + bad + "): it shares its elements with the original"
				}
				if good && kit.Precedes(call, before) {
					dominating = true
				}
			}
		}
		for _, st := range stores {
			if !c35FreshSlice(st.Val, 0) {
				return false, "the copy's " + sname + " is assigned a slice that is not freshly allocated (" + cx.p.Pos(st.Pos()) + "): it shares its elements with the original"
			}
			if kit.Precedes(st, before) {
				dominating = true
			}
		}
		if copied && !dominating {
			return false, "the copy is a struct copy of the original and " + sname + " is not replaced by a fresh slice before it is written through: it shares its elements with the original"
		}
		if copied {
			return true, "struct copy, " + sname + " replaced by a freshly allocated slice"
		}
		return true, "freshly allocated object filled by a decoder / field by field"
	case *ssa.Call:
		cal := kit.CalleeOf(x)
		if cal.Static == nil || cal.Static.Blocks == nil || !kit.IsRepoPkg(kit.FuncPkgPath(cal.Static)) || depth >= 3 {
			return true, "copy produced by " + cal.String() + " (trusted to return fresh memory)"
		}
		callee := cal.Static
		why := ""
		n := 0
		for _, ret := range kit.Returns(callee) {
			if ret.Block() == callee.Recover || len(ret.Results) == 0 {
				continue
			}
			for _, l := range kit.PhiLeaves(kit.ReturnResult(ret, 0)) {
				if kit.IsNilConst(l) {
					continue
				}
				n++
				ok, w := cx.refFresh(l, callee, S, ret, depth+1)
				if !ok {
					return false, "in " + kit.FuncName(callee) + ": " + w
				}
				why = "in " + kit.FuncName(callee) + ": " + w
			}
		}
		if n == 0 {
			return true, kit.FuncName(callee) + " returns nil only"
		}
		return true, why
	}
	return false, "the object holding " + sname + " is neither freshly allocated here nor the result of a copying call"
}

// ---------- the check

func runC35(p *kit.Program, r *kit.Report) {
	r.Rule("C35.R1", "on every path to every return of Redacted that yields a populated configuration, each secret-typed string field reachable from config.Config (type walk) has been blanked in the returned copy by a total blanking helper: unconditionally, and for every element of each slice on its access path")
	r.Rule("C35.R2", "no return of Redacted yields the receiver or anything but nil / a fresh copy (no fail-open)")
	r.Rule("C35.R3", "redaction writes only into the copy: no blanking call or store is rooted at the receiver, and every slice that is written through is freshly allocated in the copy")
	r.Rule("C35.R4", "String() uses its receiver only to call Redacted()")
	const pkg = "internal/config"
	cx := &c35Cx{p: p, r: r, blankers: map[*ssa.Function]*c35Blanker{}, maskers: map[*ssa.Function]*c35Blanker{}, tblanks: map[*ssa.Function]*c35Blanker{}}
	cfg := p.NamedType(pkg, "Config")
	red := p.Func(pkg, "Config", "Redacted")
	str := p.Func(pkg, "Config", "String")
	if !r.Require(cfg != nil, "anchor-unresolved: type config.Config") ||
		!r.Require(red != nil && red.Blocks != nil && len(red.Params) >= 1, "anchor-unresolved: method (*config.Config).Redacted") ||
		!r.Require(str != nil && str.Blocks != nil && len(str.Params) >= 1, "anchor-unresolved: method (*config.Config).String") {
		return
	}
	// ---- secret table resolves
	secret := map[*types.Var]bool{}
	for _, tname := range kit.SortedKeys(c35Secrets) {
		for _, fname := range c35Secrets[tname] {
			f := p.Field(pkg, tname, fname)
			if r.Require(f != nil, "anchor-unresolved: secret field config.%s.%s of the property statement does not exist", tname, fname) {
				secret[f] = true
			}
		}
	}
	if len(r.Floors) > 0 {
		return
	}
	// ---- type walk
	type reqPath struct {
		path []kit.PathStep
		name string
	}
	var required []reqPath
	nFields := 0
	kit.WalkStructFields(cfg, func(path []kit.PathStep, owner *types.Named, f *types.Var) {
		nFields++
		if secret[f] {
			name := kit.PathString(path)
			b, isBasic := f.Type().Underlying().(*types.Basic)
			if !isBasic || b.Kind() != types.String {
				r.Floor("unsupported: secret field %s has type %s, not string", name, f.Type())
				return
			}
			for _, s := range path {
				if s.Kind == "mapval" {
					r.Floor("unsupported: secret field %s lies below a map (values are not addressable)", name)
					return
				}
			}
			required = append(required, reqPath{path, name})
			return
		}
		if b, ok := f.Type().Underlying().(*types.Basic); ok && b.Kind() == types.String && c35Suspicious.MatchString(f.Name()) {
			r.Infof("C35.R1", "unclassified "+kit.PathString(path), p.Pos(f.Pos()), "string field with a secret-like name that the property statement does not list; not required to be redacted")
		}
	})
	r.Count("fields_walked", nFields)
	r.Count("secret_paths", len(required))
	if !r.Require(len(required) >= 8, "floor: the type walk found only %d secret paths (expected at least one per secret field type)", len(required)) {
		return
	}

	recv := ssa.Value(red.Params[0])
	rname := kit.FuncName(red)

	// ---- R2 and the roots that are returned
	type retRoot struct {
		ret  *ssa.Return
		ord  int
		root ssa.Value
	}
	var roots []retRoot
	nRet := 0
	for _, ret := range kit.Returns(red) {
		if ret.Block() == red.Recover || len(ret.Results) == 0 {
			continue
		}
		nRet++
		leaves := kit.PhiLeaves(kit.ReturnResult(ret, 0))
		for j, l := range leaves {
			key := fmt.Sprintf("%s return #%d", rname, nRet)
			if len(leaves) > 1 {
				key += fmt.Sprintf(" value #%d", j+1)
			}
			pos := p.Pos(ret.Pos())
			switch x := l.(type) {
			case *ssa.Const:
				r.Decide(x.Value == nil, "C35.R2", key, pos, "returns nil (nothing is rendered)", "returns a constant that is not nil")
				continue
			case *ssa.Alloc:
				if c35Populated(x, ret) {
					roots = append(roots, retRoot{ret, nRet, l})
					r.OK("C35.R2", key, pos, "returns a configuration allocated in this call")
				} else {
					r.OK("C35.R2", key, pos, "returns a blank configuration (nothing of the original is in it)")
				}
				continue
			case *ssa.Call:
				if !c35AliasOf(l, recv, 0) {
					roots = append(roots, retRoot{ret, nRet, l})
					r.OK("C35.R2", key, pos, "returns the result of %s", kit.CalleeOf(x).String())
					continue
				}
			}
			if c35AliasOf(l, recv, 0) {
				r.Violation("C35.R2", key, pos, "this return yields the receiver itself (fail-open): when the copying step fails, e.g. for a field value such as \"\\t\\ttab\\n\\n\" that yaml.v3 cannot re-read, String() renders the original with every secret")
			} else {
				r.Violation("C35.R2", key, pos, "this return yields a value that is neither nil nor a copy made in this call (%T): the rendering is not a redacted copy of the receiver", l)
			}
		}
	}
	r.Count("returns", nRet)
	r.Require(nRet >= 1, "floor: Redacted has no return")

	// ---- sites per root
	sitesOf := map[ssa.Value][]c35Site{}
	nSites := 0
	candidates := map[*ssa.Function]bool{}
	for _, rr := range roots {
		if _, done := sitesOf[rr.root]; done {
			continue
		}
		s := cx.collect(red, map[ssa.Value][]kit.PathStep{rr.root: nil}, 0)
		sitesOf[rr.root] = s
		nSites += len(s)
	}
	r.Count("blanking_sites", nSites)
	for fn, b := range cx.blankers {
		if b != nil {
			candidates[fn] = true
		}
	}
	for fn, b := range cx.tblanks {
		if b != nil {
			candidates[fn] = true
		}
	}
	for fn, b := range cx.maskers {
		// a func(string) string is only a masking helper if it masks; others are judged where used
		if b != nil && b.total {
			candidates[fn] = true
		}
	}
	var cand []*ssa.Function
	for fn := range candidates {
		cand = append(cand, fn)
	}
	sort.Slice(cand, func(i, j int) bool { return cand[i].Pos() < cand[j].Pos() })
	for _, fn := range cand {
		b := cx.blankers[fn]
		if b == nil {
			b = cx.tblanks[fn]
		}
		if b == nil {
			b = cx.maskers[fn]
		}
		r.Decide(b.total, "C35.R1", kit.FuncName(fn)+" blanks every non-empty string", p.Pos(fn.Pos()),
			"every path through the helper replaces a non-empty string by a constant",
			"the blanking helper leaves some non-empty strings in place ("+b.why+"): those secrets appear in the redacted rendering")
	}

	// ---- R1 coverage
	for _, rq := range required {
		ok, why := true, ""
		for _, rr := range roots {
			covered, best := false, "no blanking call addresses this field of the returned copy"
			for _, s := range sitesOf[rr.root] {
				if !kit.SamePath(s.path, rq.path) {
					continue
				}
				switch {
				case !s.ok:
					best = s.why
				case !c35DomOK(s, rr.ret):
					best = "the blanking call at " + p.Pos(s.top.Pos()) + " is not on every path to the return at " + p.Pos(rr.ret.Pos())
				default:
					covered = true
				}
			}
			if !covered {
				ok = false
				why = fmt.Sprintf("return #%d (%s): %s", rr.ord, p.Pos(rr.ret.Pos()), best)
			}
		}
		r.Decide(ok, "C35.R1", rname+" "+rq.name, p.Pos(red.Pos()),
			"blanked in the returned copy on every path, for every element",
			"secret field "+rq.name+" can reach the redacted rendering unblanked — "+why)
	}

	// ---- R3: nothing rooted at the receiver is written
	nOrig := 0
	for _, s := range cx.collect(red, map[ssa.Value][]kit.PathStep{recv: nil}, 0) {
		nOrig++
		r.Violation("C35.R3", fmt.Sprintf("%s blanks the original's %s", rname, kit.PathString(s.path)), p.Pos(s.top.Pos()),
			"a blanking call is applied to the receiver, not to the copy: producing the redacted rendering destroys the secret in the live configuration")
	}
	kit.Instrs(red, func(in ssa.Instruction) {
		st, ok := in.(*ssa.Store)
		if !ok {
			return
		}
		if root, path, _, _, ok := kit.AddrPath(st.Addr); ok && root == recv {
			nOrig++
			r.Violation("C35.R3", fmt.Sprintf("%s stores into the original's %s", rname, kit.PathString(path)), p.Pos(st.Pos()),
				"Redacted writes a field of the receiver: producing the redacted rendering changes the original configuration")
		}
	})
	r.OK("C35.R3", rname+" writes rooted at the receiver", p.Pos(red.Pos()), "%d blanking calls / stores address the receiver", nOrig)

	// ---- R3: slices written through are fresh in the copy
	slicePaths := map[string][]kit.PathStep{}
	for _, rq := range required {
		for i, s := range rq.path {
			if s.Kind == "elem" || s.Kind == "deref" {
				if s.Kind == "elem" {
					slicePaths[kit.PathString(rq.path[:i])] = rq.path[:i]
				}
				break // only the first indirection of a path is analysed
			}
		}
	}
	for _, name := range kit.SortedKeys(slicePaths) {
		S := slicePaths[name]
		ok, why := true, "no populated configuration is returned"
		for _, rr := range roots {
			// first blanking call that writes through this slice
			var before ssa.Instruction = rr.ret
			for _, s := range sitesOf[rr.root] {
				if len(s.path) > len(S) && kit.SamePath(s.path[:len(S)], S) && (before == ssa.Instruction(rr.ret) || kit.Precedes(s.top, before)) {
					before = s.top
					if s.header != nil && len(s.header.Instrs) > 0 {
						before = s.header.Instrs[0]
					}
				}
			}
			o, w := cx.refFresh(rr.root, red, S, before, 0)
			why = w
			if !o {
				ok = false
				break
			}
		}
		r.Decide(ok, "C35.R3", rname+" copy of "+name+" is fresh", p.Pos(red.Pos()), why,
			why+": blanking the copy's elements overwrites the secrets of the original configuration")
	}

	// ---- R4
	sname := kit.FuncName(str)
	srecv := ssa.Value(str.Params[0])
	bad := ""
	nRed := 0
	if refs := srecv.Referrers(); refs != nil {
		for _, ref := range *refs {
			switch x := ref.(type) {
			case *ssa.DebugRef:
			case *ssa.Call:
				if kit.CalleeOf(x).Static == red && len(x.Call.Args) > 0 && x.Call.Args[0] == srecv {
					nRed++
					continue
				}
				bad = p.Pos(x.Pos())
			default:
				bad = p.Pos(ref.Pos())
			}
		}
	}
	r.Decide(bad == "" && nRed >= 1, "C35.R4", sname+" renders Redacted()", p.Pos(str.Pos()),
		"the receiver is used only as the receiver of Redacted()",
		"String() uses its receiver directly ("+bad+") instead of only through Redacted(): the rendering contains the configured secrets")
	// informational: other renderers of a Config receiver
	for _, m := range p.Methods(pkg, "Config") {
		if m == str || m == red || len(m.Params) == 0 {
			continue
		}
		for _, c := range kit.Calls(m) {
			cal := kit.CalleeOf(c)
			if strings.HasSuffix(cal.Pkg, "yaml.v3") && cal.Name == "Marshal" {
				r.Infof("C35.R4", kit.FuncName(m)+" renders the receiver", p.Pos(c.Pos()), "unredacted renderer; %d static caller(s) in non-test code", len(p.StaticCallers(m)))
			}
		}
	}
}
