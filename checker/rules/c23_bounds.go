package rules

// C23.R4: a small bounds prover over go/ssa. Every index / slice operation and every call
// with a documented minimum-length precondition (encoding/binary fixed-size accessors) is turned
// into linear goals G >= 0 over integer SSA values; a goal is discharged from the lower bounds
// of its symbols (lengths, unsigned conversions, range indices) or from one dominating branch
// condition / API post-condition (n <= len(buf) for reads and copy).

import (
	"fmt"
	"go/token"
	"go/types"
	"strings"

	"golang.org/x/tools/go/ssa"

	"mmverify/kit"
)

type c23Prover struct {
	p   *kit.Program
	cur ssa.Instruction // the instruction whose goals are being built (guards valid there)
}

// c23Goal is one proof obligation G >= 0 of an instruction.
type c23Goal struct {
	what string
	g    kit.G7Linear
}

func c23StripCT(v ssa.Value) ssa.Value {
	for {
		if ct, ok := v.(*ssa.ChangeType); ok {
			v = ct.X
			continue
		}
		return v
	}
}

// lenLin: the length of a slice/string/array-pointer valued expression as a linear form. The
// symbol standing for an unknown length is the (ChangeType-stripped) value itself.
func (pv *c23Prover) lenLin(x ssa.Value, depth int) kit.G7Linear {
	x = c23StripCT(x)
	one := func(v ssa.Value) kit.G7Linear { return kit.G7Linear{Terms: map[ssa.Value]int64{v: 1}} }
	if depth > 6 {
		return one(x)
	}
	switch t := x.(type) {
	case *ssa.Const:
		if t.Value == nil {
			return kit.G7Linear{Terms: map[ssa.Value]int64{}}
		}
		if s, ok := kit.ConstString(t); ok {
			return kit.G7Linear{Const: int64(len(s)), Terms: map[ssa.Value]int64{}}
		}
	case *ssa.MakeSlice:
		return pv.lin(t.Len, depth+1)
	case *ssa.Slice:
		var base kit.G7Linear
		if n, ok := c23ArrayLen(t.X.Type()); ok {
			base = kit.G7Linear{Const: n, Terms: map[ssa.Value]int64{}}
		} else {
			base = pv.lenLin(t.X, depth+1)
		}
		hi := base
		if t.High != nil {
			hi = pv.lin(t.High, depth+1)
		}
		if t.Low != nil {
			return hi.Sub(pv.lin(t.Low, depth+1))
		}
		return hi
	case *ssa.Alloc:
		if n, ok := c23ArrayLen(t.Type()); ok {
			return kit.G7Linear{Const: n, Terms: map[ssa.Value]int64{}}
		}
	case *ssa.Phi:
		var first *kit.G7Linear
		same := true
		for _, e := range t.Edges {
			l := pv.lenLin(e, depth+1)
			if first == nil {
				first = &l
			} else if !c23LinEq(*first, l) {
				same = false
			}
		}
		if first != nil && same {
			return *first
		}
	case *ssa.Extract:
		if c, ok := t.Tuple.(*ssa.Call); ok {
			if l, ok := pv.callLen(c, t.Index, depth); ok {
				return l
			}
		}
	case *ssa.Call:
		if l, ok := pv.callLen(t, 0, depth); ok {
			return l
		}
	case *ssa.Convert:
		// []byte(s) / string(b): same length
		if _, ok := t.X.Type().Underlying().(*types.Basic); ok {
			return pv.lenLin(t.X, depth+1)
		}
		if _, ok := t.X.Type().Underlying().(*types.Slice); ok {
			return pv.lenLin(t.X, depth+1)
		}
	}
	return one(x)
}

// callLen summarises the length of result idx of a static repository callee: the common length
// of that result over the callee's returns, with parameters replaced by the call's arguments.
// If the callee also returns an error, only its nil-error returns count and the summary is used
// only where the current instruction is guarded by that error being nil.
func (pv *c23Prover) callLen(c *ssa.Call, idx, depth int) (kit.G7Linear, bool) {
	cal := kit.CalleeOf(c)
	fn := cal.Static
	if fn == nil || fn.Blocks == nil || !kit.IsRepoPkg(cal.Pkg) || depth > 4 {
		return kit.G7Linear{}, false
	}
	res := fn.Signature.Results()
	hasErr := res.Len() > 0 && kit.IsErrorType(res.At(res.Len()-1).Type())
	if hasErr {
		ev := kit.ErrResultOf(c)
		if ev == nil || pv.cur == nil {
			return kit.G7Linear{}, false
		}
		okGuard := false
		for _, g := range kit.NormGuards(kit.GuardsOf(pv.cur)) {
			if x, trueMeansNil, ok := kit.IsErrNilCheck(g.Cond); ok && x == ev && trueMeansNil == g.Polarity {
				okGuard = true
			}
		}
		if !okGuard {
			return kit.G7Linear{}, false
		}
	}
	var out *kit.G7Linear
	for _, ret := range kit.Returns(fn) {
		if ret.Block() == fn.Recover || idx >= len(ret.Results) {
			continue
		}
		if hasErr && !kit.ReturnsNilError(ret) {
			continue
		}
		saved := pv.cur
		pv.cur = ret
		l := pv.lenLin(kit.ReturnResult(ret, idx), depth+1)
		pv.cur = saved
		sub := kit.G7Linear{Const: l.Const, Terms: map[ssa.Value]int64{}}
		for sym, k := range l.Terms {
			prm, isParam := sym.(*ssa.Parameter)
			if !isParam || prm.Parent() != fn {
				return kit.G7Linear{}, false
			}
			pi := -1
			for i, q := range fn.Params {
				if q == prm {
					pi = i
				}
			}
			if pi < 0 || pi >= len(c.Call.Args) {
				return kit.G7Linear{}, false
			}
			var al kit.G7Linear
			switch prm.Type().Underlying().(type) {
			case *types.Slice, *types.Array, *types.Pointer:
				al = pv.lenLin(c.Call.Args[pi], depth+1)
			default:
				if b, ok := prm.Type().Underlying().(*types.Basic); ok && b.Info()&types.IsString != 0 {
					al = pv.lenLin(c.Call.Args[pi], depth+1)
				} else {
					al = pv.lin(c.Call.Args[pi], depth+1)
				}
			}
			sub.Const += k * al.Const
			for s2, k2 := range al.Terms {
				sub.Terms[s2] += k * k2
			}
		}
		for s2, k2 := range sub.Terms {
			if k2 == 0 {
				delete(sub.Terms, s2)
			}
		}
		if out == nil {
			o := sub
			out = &o
		} else if !c23LinEq(*out, sub) {
			return kit.G7Linear{}, false
		}
	}
	if out == nil {
		return kit.G7Linear{}, false
	}
	return *out, true
}

func c23ArrayLen(t types.Type) (int64, bool) {
	if p, ok := t.Underlying().(*types.Pointer); ok {
		t = p.Elem()
	}
	if a, ok := t.Underlying().(*types.Array); ok {
		return a.Len(), true
	}
	return 0, false
}

func c23LinEq(a, b kit.G7Linear) bool {
	d := a.Sub(b)
	return d.Const == 0 && len(d.Terms) == 0
}

// lin linearises an integer expression and expands len(x) symbols.
func (pv *c23Prover) lin(v ssa.Value, depth int) kit.G7Linear {
	l := kit.G7LinearOf(v, nil)
	out := kit.G7Linear{Const: l.Const, Terms: map[ssa.Value]int64{}}
	for sym, k := range l.Terms {
		if arg, ok := kit.LenOf(sym); ok && depth < 6 {
			ll := pv.lenLin(arg, depth+1)
			out.Const += k * ll.Const
			for s2, k2 := range ll.Terms {
				out.Terms[s2] += k * k2
			}
			continue
		}
		out.Terms[sym] += k
	}
	for s, k := range out.Terms {
		if k == 0 {
			delete(out.Terms, s)
		}
	}
	return out
}

// lowerBound of a symbol (ok=false: unbounded below).
func (pv *c23Prover) symLB(v ssa.Value, depth int, visiting map[ssa.Value]bool) (int64, bool) {
	switch v.Type().Underlying().(type) {
	case *types.Slice, *types.Array, *types.Pointer:
		return 0, true // a length symbol
	}
	if b, ok := v.Type().Underlying().(*types.Basic); ok {
		if b.Info()&types.IsString != 0 {
			return 0, true
		}
		if b.Info()&types.IsUnsigned != 0 {
			return 0, true
		}
	}
	if depth > 5 || visiting[v] {
		return 0, false
	}
	switch x := v.(type) {
	case *ssa.Convert:
		if b, ok := x.X.Type().Underlying().(*types.Basic); ok && b.Info()&types.IsUnsigned != 0 {
			return 0, true
		}
	case *ssa.Extract:
		if c, ok := x.Tuple.(*ssa.Call); ok && x.Index == 0 && c23IsCountCall(c) {
			return 0, true
		}
	case *ssa.Call:
		if b, ok := x.Call.Value.(*ssa.Builtin); ok {
			switch b.Name() {
			case "len", "cap", "copy":
				return 0, true
			}
		}
	case *ssa.Parameter:
		// bounded by every static call site (unexported helpers called with constants or lengths)
		fn := x.Parent()
		idx := -1
		for i, q := range fn.Params {
			if q == x {
				idx = i
			}
		}
		sites := pv.p.StaticCallers(fn)
		if idx < 0 || len(sites) == 0 || (fn.Object() != nil && fn.Object().Exported()) {
			return 0, false
		}
		visiting[v] = true
		defer delete(visiting, v)
		best, have := int64(0), false
		for _, s := range sites {
			args := s.Common().Args
			if idx >= len(args) {
				return 0, false
			}
			lb, ok := pv.linLB(pv.lin(args[idx], depth+1), depth+1, visiting)
			if !ok {
				return 0, false
			}
			if !have || lb < best {
				best, have = lb, true
			}
		}
		return best, have
	case *ssa.Phi:
		visiting[v] = true
		defer delete(visiting, v)
		best, have := int64(0), false
		for _, e := range x.Edges {
			l := pv.lin(e, depth+1)
			// inductive edge: phi + k with k >= 0 keeps the bound
			if len(l.Terms) == 1 && l.Terms[v] == 1 && l.Const >= 0 {
				continue
			}
			lb, ok := pv.linLB(l, depth+1, visiting)
			if !ok {
				return 0, false
			}
			if !have || lb < best {
				best, have = lb, true
			}
		}
		return best, have
	}
	return 0, false
}

// c23IsCountCall: a call whose first result n satisfies 0 <= n <= len(buffer argument).
func c23IsCountCall(c *ssa.Call) bool {
	_, ok := c23CountBuf(c)
	return ok
}

// c23CountBuf returns the buffer argument b of a read-like call whose first result n satisfies
// 0 <= n <= len(b).
func c23CountBuf(c *ssa.Call) (ssa.Value, bool) {
	cal := kit.CalleeOf(c)
	switch {
	case cal.Built == "copy" && len(c.Call.Args) == 2:
		return c.Call.Args[0], true
	case cal.Pkg == "io" && (cal.Name == "ReadFull" || cal.Name == "ReadAtLeast") && len(c.Call.Args) >= 2:
		return c.Call.Args[1], true
	case strings.HasPrefix(cal.Name, "Read") && (cal.Pkg == "net" || cal.Pkg == "io" || cal.Pkg == "bufio" || cal.Pkg == "os"):
		if a := kit.Arg(c, 0); a != nil {
			if _, isSlice := a.Type().Underlying().(*types.Slice); isSlice {
				return a, true
			}
		}
	}
	return nil, false
}

func (pv *c23Prover) linLB(l kit.G7Linear, depth int, visiting map[ssa.Value]bool) (int64, bool) {
	lb := l.Const
	for s, k := range l.Terms {
		if k < 0 {
			return 0, false
		}
		b, ok := pv.symLB(s, depth, visiting)
		if !ok {
			return 0, false
		}
		lb += k * b
	}
	return lb, true
}

// facts returns linear forms F known to satisfy F >= 0 at instruction in.
func (pv *c23Prover) facts(in ssa.Instruction, goal kit.G7Linear) []kit.G7Linear {
	var out []kit.G7Linear
	isInt := func(v ssa.Value) bool {
		b, ok := v.Type().Underlying().(*types.Basic)
		return ok && b.Info()&types.IsInteger != 0
	}
	for _, g := range kit.NormGuards(kit.GuardsOf(in)) {
		b, ok := g.Cond.(*ssa.BinOp)
		if !ok || !isInt(b.X) || !isInt(b.Y) {
			continue
		}
		x, y := pv.lin(b.X, 0), pv.lin(b.Y, 0)
		op := b.Op
		if !g.Polarity {
			switch op {
			case token.LSS:
				op = token.GEQ
			case token.LEQ:
				op = token.GTR
			case token.GTR:
				op = token.LEQ
			case token.GEQ:
				op = token.LSS
			case token.EQL:
				op = token.NEQ
			case token.NEQ:
				op = token.EQL
			}
		}
		switch op {
		case token.LSS:
			out = append(out, y.Sub(x).AddConst(-1))
		case token.LEQ:
			out = append(out, y.Sub(x))
		case token.GTR:
			out = append(out, x.Sub(y).AddConst(-1))
		case token.GEQ:
			out = append(out, x.Sub(y))
		case token.EQL:
			out = append(out, x.Sub(y), y.Sub(x))
		}
	}
	// API post-conditions for count symbols in the goal: len(buf) - n >= 0
	for s := range goal.Terms {
		if e, ok := s.(*ssa.Extract); ok && e.Index == 0 {
			if c, ok := e.Tuple.(*ssa.Call); ok {
				if buf, ok := c23CountBuf(c); ok {
					out = append(out, pv.lenLin(buf, 0).Sub(kit.G7Linear{Terms: map[ssa.Value]int64{s: 1}}))
				}
			}
		}
		if c, ok := s.(*ssa.Call); ok {
			if buf, ok := c23CountBuf(c); ok && kit.CalleeOf(c).Built == "copy" {
				out = append(out, pv.lenLin(buf, 0).Sub(kit.G7Linear{Terms: map[ssa.Value]int64{s: 1}}))
			}
		}
	}
	return out
}

func (pv *c23Prover) prove(in ssa.Instruction, g kit.G7Linear) bool {
	if lb, ok := pv.linLB(g, 0, map[ssa.Value]bool{}); ok && lb >= 0 {
		return true
	}
	for _, f := range pv.facts(in, g) {
		if lb, ok := pv.linLB(g.Sub(f), 0, map[ssa.Value]bool{}); ok && lb >= 0 {
			return true
		}
	}
	return false
}

// goals lists the bounds obligations of one instruction.
func (pv *c23Prover) goals(in ssa.Instruction) []c23Goal {
	zero := kit.G7Linear{Terms: map[ssa.Value]int64{}}
	var out []c23Goal
	switch x := in.(type) {
	case *ssa.IndexAddr:
		if _, isConst := x.Index.(*ssa.Const); isConst {
			if _, isArr := c23ArrayLen(x.X.Type()); isArr {
				return nil // constant index into an array: checked by the compiler
			}
		}
		idx := pv.lin(x.Index, 0)
		out = append(out, c23Goal{"index >= 0", idx.Sub(zero)})
		out = append(out, c23Goal{"index < len", pv.lenLin(x.X, 0).Sub(idx).AddConst(-1)})
	case *ssa.Index:
		if _, isConst := x.Index.(*ssa.Const); isConst {
			return nil
		}
		idx := pv.lin(x.Index, 0)
		out = append(out, c23Goal{"index >= 0", idx})
		out = append(out, c23Goal{"index < len", pv.lenLin(x.X, 0).Sub(idx).AddConst(-1)})
	case *ssa.Lookup:
		if b, ok := x.X.Type().Underlying().(*types.Basic); ok && b.Info()&types.IsString != 0 {
			idx := pv.lin(x.Index, 0)
			out = append(out, c23Goal{"index >= 0", idx})
			out = append(out, c23Goal{"index < len", pv.lenLin(x.X, 0).Sub(idx).AddConst(-1)})
		}
	case *ssa.Slice:
		var capLin kit.G7Linear
		if n, ok := c23ArrayLen(x.X.Type()); ok {
			capLin = kit.G7Linear{Const: n, Terms: map[ssa.Value]int64{}}
		} else {
			capLin = pv.lenLin(x.X, 0) // len <= cap: a bound within len is within cap
		}
		lo, hi := zero, capLin
		if x.Low != nil {
			lo = pv.lin(x.Low, 0)
			out = append(out, c23Goal{"low >= 0", lo})
		}
		if x.High != nil {
			hi = pv.lin(x.High, 0)
			out = append(out, c23Goal{"high <= len", capLin.Sub(hi)})
		}
		if x.Low != nil {
			out = append(out, c23Goal{"low <= high", hi.Sub(lo)})
		}
	case *ssa.MakeSlice:
		if _, isConst := x.Len.(*ssa.Const); !isConst {
			out = append(out, c23Goal{"make length >= 0", pv.lin(x.Len, 0)})
		}
	case *ssa.Call:
		cal := kit.CalleeOf(x)
		if cal.Pkg == "encoding/binary" && (cal.Recv == "bigEndian" || cal.Recv == "littleEndian" || cal.Recv == "ByteOrder") {
			need := int64(0)
			switch {
			case strings.HasSuffix(cal.Name, "Uint16"):
				need = 2
			case strings.HasSuffix(cal.Name, "Uint32"):
				need = 4
			case strings.HasSuffix(cal.Name, "Uint64"):
				need = 8
			}
			if need > 0 && strings.HasPrefix(strings.TrimPrefix(cal.Name, "Put"), "Uint") {
				if b := kit.Arg(x, 0); b != nil {
					out = append(out, c23Goal{fmt.Sprintf("%s needs %d bytes", cal.Name, need), pv.lenLin(b, 0).AddConst(-need)})
				}
			}
		}
	}
	return out
}

func c23LinString(l kit.G7Linear) string {
	var parts []string
	for _, s := range l.Syms() {
		k := l.Terms[s]
		name := s.Name()
		switch s.Type().Underlying().(type) {
		case *types.Slice, *types.Pointer, *types.Array:
			name = "len(" + name + ")"
		}
		if k == 1 {
			parts = append(parts, name)
		} else {
			parts = append(parts, fmt.Sprintf("%d*%s", k, name))
		}
	}
	parts = append(parts, fmt.Sprint(l.Const))
	return strings.Join(parts, " + ")
}

// c23CheckBounds runs the prover over one function; it returns the number of goals and the
// descriptions of the unproven ones keyed by a stable ordinal.
func (pv *c23Prover) check(fn *ssa.Function, report func(key, pos string, ok bool, detail string)) int {
	n := 0
	ord := map[string]int{}
	kit.Instrs(fn, func(in ssa.Instruction) {
		pv.cur = in
		gs := pv.goals(in)
		if len(gs) == 0 {
			return
		}
		kind := strings.TrimPrefix(fmt.Sprintf("%T", in), "*ssa.")
		if c, ok := in.(*ssa.Call); ok {
			kind = kit.CalleeOf(c).Name
		}
		ord[kind]++
		bad := ""
		for _, g := range gs {
			n++
			if !pv.prove(in, g.g) {
				bad = g.what + " not established (need " + c23LinString(g.g) + " >= 0)"
				break
			}
		}
		key := fmt.Sprintf("%s %s #%d", kit.FuncName(fn), kind, ord[kind])
		report(key, pv.p.Pos(in.Pos()), bad == "", bad)
	})
	return n
}
