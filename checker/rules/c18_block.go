package rules

import (
	"fmt"
	"go/token"
	"go/types"
	"sort"

	"golang.org/x/tools/go/ssa"

	"mmverify/kit"
)

// C18.R8 — nothing that can block on a peer-controlled condition runs while the lock that tear-down
// needs is held.
//
// Closing or resetting a stream takes the write lock of the table that holds it. A frame-driven
// function that performs a potentially blocking operation (a channel send or receive without a
// default, a blocking select, delivering into a bounded read buffer, a network write, a Wait) while
// it holds that lock — read or write — makes the addressed stream impossible to tear down as soon
// as the operation blocks (buffer full, slow destination): the closer waits for the lock, the
// lock holder waits for the closer. With an RWMutex every later reader queues behind the waiting
// writer, so all other streams stop as well.

// c18MayBlock computes the repository functions that can block: they contain a blocking channel
// operation or a known blocking library call, or statically call (not `go`, not `defer`) such a function.
func (cx *c18Ctx) mayBlock() map[*ssa.Function]string {
	out := map[*ssa.Function]string{}
	fns := cx.p.RepoFuncs()
	for _, f := range fns {
		kit.Instrs(f, func(in ssa.Instruction) {
			if w := c18BlockingOp(in); w != "" && out[f] == "" {
				out[f] = w
			}
		})
	}
	for changed := true; changed; {
		changed = false
		for _, f := range fns {
			if out[f] != "" {
				continue
			}
			for _, c := range kit.Calls(f) {
				if _, isCall := c.(*ssa.Call); !isCall {
					continue
				}
				if s := kit.CalleeOf(c).Static; s != nil && out[s] != "" {
					out[f] = "calls " + kit.FuncName(s)
					changed = true
					break
				}
			}
		}
	}
	return out
}

// c18BlockingOp names the blocking operation an instruction performs itself, "" if none.
func c18BlockingOp(in ssa.Instruction) string {
	switch x := in.(type) {
	case *ssa.Send:
		return "channel send"
	case *ssa.Select:
		if x.Blocking {
			return "blocking select"
		}
	case *ssa.UnOp:
		if x.Op == token.ARROW {
			return "channel receive"
		}
	case *ssa.Call:
		cal := kit.CalleeOf(x)
		switch {
		case cal.Pkg == "sync" && cal.Name == "Wait":
			return "sync " + cal.Recv + ".Wait"
		case cal.Pkg == "time" && cal.Name == "Sleep":
			return "time.Sleep"
		case cal.Iface && cal.Pkg == "net" && cal.Recv == "Conn" && (cal.Name == "Write" || cal.Name == "Read"):
			return "net.Conn." + cal.Name
		case cal.Pkg == "io" && (cal.Name == "Copy" || cal.Name == "ReadFull" || cal.Name == "CopyN" || cal.Name == "ReadAll"):
			return "io." + cal.Name
		case cal.Pkg == "net" && (cal.Name == "Dial" || cal.Name == "DialContext" || cal.Name == "DialTimeout"):
			return "net dial"
		}
	}
	return ""
}

func (cx *c18Ctx) ruleR8() {
	p, r := cx.p, cx.r
	r.Rule("C18.R8", "in the functions that look a stream up by the id they are given, no potentially blocking operation executes while the mutex that guards the stream table (the lock close/reset need) is held")
	tables := cx.streamTables()
	if len(tables) == 0 {
		return // R5 reports the floor
	}
	// the lock tear-down needs: the owner's mutex held where an entry is deleted from the table
	tearLock := map[*types.Var]*types.Var{} // table -> mutex field
	for _, t := range tables {
		for _, acc := range p.FieldAccessesOfKind(t.f, kit.MapDelete) {
			li := kit.Locks(acc.Fn)
			for _, m := range li.AnyHeldAt(acc.Instr) {
				mv, ok := m.(*types.Var)
				if !ok {
					continue
				}
				for _, of := range kit.StructFields(t.ownerT) {
					if of == mv {
						tearLock[t.f] = mv
					}
				}
			}
		}
	}
	blocks := cx.mayBlock()
	type subject struct {
		fn *ssa.Function
		mu *types.Var
		t  c18Table
	}
	seen := map[*ssa.Function]bool{}
	var subs []subject
	for _, t := range tables {
		mu := tearLock[t.f]
		if mu == nil {
			continue
		}
		for _, acc := range p.FieldAccessesOfKind(t.f, kit.MapLookup, kit.MapInsert, kit.MapDelete) {
			fn := acc.Fn
			if seen[fn] || acc.Key == nil {
				continue
			}
			// keyed by a uint64 parameter of the function: a frame/API entry addressed by stream id
			addressed := false
			for v := range kit.FlowSet(acc.Key, nil) {
				if q, ok := v.(*ssa.Parameter); ok && q.Parent() == fn && c18IsU64(q.Type()) {
					addressed = true
				}
			}
			if !addressed {
				continue
			}
			seen[fn] = true
			subs = append(subs, subject{fn, mu, t})
		}
	}
	sort.Slice(subs, func(i, j int) bool { return subs[i].fn.Pos() < subs[j].fn.Pos() })
	r.Count("r8_addressed_table_functions", len(subs))
	r.Require(len(subs) >= 1, "floor: no function that looks a stream up in its table by an id parameter found")
	for _, sb := range subs {
		li := kit.Locks(sb.fn)
		bad, what := "", ""
		kit.Instrs(sb.fn, func(in ssa.Instruction) {
			if _, held := li.HeldAt(in, sb.mu); !held {
				return
			}
			w := c18BlockingOp(in)
			if w == "" {
				if c, ok := in.(*ssa.Call); ok {
					if s := kit.CalleeOf(c).Static; s != nil && blocks[s] != "" {
						w = kit.FuncName(s) + " (" + blocks[s] + ")"
					}
				}
			}
			if w != "" && bad == "" {
				bad, what = p.Pos(in.Pos()), w
			}
		})
		r.Decide(bad == "", "C18.R8", fmt.Sprintf("%s holds %s only around the table access", kit.FuncName(sb.fn), sb.mu.Name()), p.Pos(sb.fn.Pos()),
			"no blocking operation executes while the table lock is held",
			"at "+bad+" "+what+" can block while "+sb.mu.Name()+" of "+sb.t.owner+" is held: when it blocks (full read buffer, slow destination) a close/reset of that stream waits for the lock forever, the addressed stream is never torn down and every other stream of the table stalls behind the queued writer")
	}
}
