package rules

import (
	"fmt"
	"go/token"
	"go/types"
	"sort"
	"strings"

	"golang.org/x/tools/go/ssa"

	"mmverify/kit"
)

func init() {
	register(&Check{
		ID: "C03", Level: "other",
		Explain:   "Decides, for every static call of crypto.DeriveSessionKey in the repository, that the role is a constant, that the public-key arguments are in role order (own freshly generated key vs. the peer's key decoded from the open/ack message), that the secret is ComputeECDH of the private half of the same key generation and the same remote key on its err==nil edge, and that both ends mix the same request identifier; that open/ack messages carry these keys unchanged through relays; that ComputeECDH refuses all-zero input and output; and that DeriveSessionKey binds secret, identifier and both keys into HKDF. Field flows are type-based (object-insensitive) and HKDF/X25519 are trusted.",
		Technique: "call-site provenance table over go/ssa (origin tracing through fields, closures and call-graph edges), dominating guards",
		Run:       runC03,
		SelfTests: c03SelfTests,
	})
}

var c03SelfTests = []SelfTest{
	{Name: "responder swaps the two public keys (exit)", ExpectRule: "C03.R2", ExpectKey: "handleStreamOpenAsync", Edits: []Edit{
		{File: "internal/exit/handler.go", Old: "crypto.DeriveSessionKey(sharedSecret, requestID, remoteEphemeralPub, ephPub, false)", New: "crypto.DeriveSessionKey(sharedSecret, requestID, ephPub, remoteEphemeralPub, false)"},
	}},
	{Name: "shell responder claims the initiator role", ExpectRule: "C03.R2", ExpectKey: "shell", Edits: []Edit{
		{File: "internal/shell/handler.go", Old: "crypto.DeriveSessionKey(sharedSecret, requestID, remoteEphemeralPub, ephPub, false)", New: "crypto.DeriveSessionKey(sharedSecret, requestID, remoteEphemeralPub, ephPub, true)"},
	}},
	{Name: "role computed at run time", ExpectRule: "C03.R1", ExpectKey: "forward", Edits: []Edit{
		{File: "internal/forward/handler.go", Old: "crypto.DeriveSessionKey(sharedSecret, requestID, remoteEphemeralPub, ephPub, false)", New: "crypto.DeriveSessionKey(sharedSecret, requestID, remoteEphemeralPub, ephPub, requestID == 0)"},
	}},
	{Name: "exit mixes the per-hop stream id instead of the request id", ExpectRule: "C03.R4", ExpectKey: "handleStreamOpenAsync", Edits: []Edit{
		{File: "internal/exit/handler.go", Old: "crypto.DeriveSessionKey(sharedSecret, requestID, remoteEphemeralPub, ephPub, false)", New: "crypto.DeriveSessionKey(sharedSecret, streamID, remoteEphemeralPub, ephPub, false)"},
	}},
	{Name: "initiator mixes the stream id instead of the request id", ExpectRule: "C03.R4", ExpectKey: "DialForward", Edits: []Edit{
		{File: "internal/agent/agent.go", Old: "\tsessionKey := crypto.DeriveSessionKey(sharedSecret, pending.RequestID, ephPub, result.RemoteEphemeral, true)\n\tcrypto.ZeroKey(&sharedSecret)\n\n\t// Store session key in stream\n\tresult.Stream.SetSessionKey(sessionKey)\n\n\t// Return a MeshConn wrapper\n\treturn &meshConn{\n\t\tagent:    a,\n\t\tstream:   result.Stream,\n\t\tpeerID:   route.NextHop,\n\t\tstreamID: streamID,\n\t\tlocalAddr: &net.TCPAddr{\n\t\t\tIP:   result.BoundIP,\n\t\t\tPort: int(result.BoundPort),\n\t\t},\n\t\tremoteAddr: &forwardAddr_{", New: "\tsessionKey := crypto.DeriveSessionKey(sharedSecret, streamID, ephPub, result.RemoteEphemeral, true)\n\tcrypto.ZeroKey(&sharedSecret)\n\n\t// Store session key in stream\n\tresult.Stream.SetSessionKey(sessionKey)\n\n\t// Return a MeshConn wrapper\n\treturn &meshConn{\n\t\tagent:    a,\n\t\tstream:   result.Stream,\n\t\tpeerID:   route.NextHop,\n\t\tstreamID: streamID,\n\t\tlocalAddr: &net.TCPAddr{\n\t\t\tIP:   result.BoundIP,\n\t\t\tPort: int(result.BoundPort),\n\t\t},\n\t\tremoteAddr: &forwardAddr_{"},
	}},
	{Name: "ECDH error ignored (udp exit)", ExpectRule: "C03.R3", ExpectKey: "performKeyExchange", Edits: []Edit{
		{File: "internal/udp/handler.go", Old: "\tsharedSecret, err := crypto.ComputeECDH(ephPriv, remoteEphemeralPub)\n\tif err != nil {", New: "\tsharedSecret, err := crypto.ComputeECDH(ephPriv, remoteEphemeralPub)\n\tif err != nil && open.RequestID == 0 {"},
	}},
	{Name: "private key zeroed before the ECDH (icmp exit)", ExpectRule: "C03.R3", ExpectKey: "icmp", Edits: []Edit{
		{File: "internal/icmp/handler.go", Old: "\tsharedSecret, err := crypto.ComputeECDH(ephPriv, remoteEphemeralPub)\n", New: "\tcrypto.ZeroKey(&ephPriv)\n\tsharedSecret, err := crypto.ComputeECDH(ephPriv, remoteEphemeralPub)\n"},
	}},
	{Name: "secret zeroed before the derivation (forward)", ExpectRule: "C03.R3", ExpectKey: "forward", Edits: []Edit{
		{File: "internal/forward/handler.go", Old: "\tsessionKey := crypto.DeriveSessionKey(sharedSecret, requestID, remoteEphemeralPub, ephPub, false)\n\tcrypto.ZeroKey(&sharedSecret)\n", New: "\tcrypto.ZeroKey(&sharedSecret)\n\tsessionKey := crypto.DeriveSessionKey(sharedSecret, requestID, remoteEphemeralPub, ephPub, false)\n"},
	}},
	{Name: "ECDH against the own public key (udp ingress)", ExpectRule: "C03.R3", ExpectKey: "handleUDPOpenAck", Edits: []Edit{
		{File: "internal/agent/udp.go", Old: "crypto.ComputeECDH(dest.EphemeralPrivKey, ack.EphemeralPubKey)", New: "crypto.ComputeECDH(dest.EphemeralPrivKey, dest.EphemeralPubKey)"},
	}},
	{Name: "icmp ingress pairs the private key of one session with the public key of another", ExpectRule: "C03.R3", ExpectKey: "deriveICMPSessionKey", Edits: []Edit{
		{File: "internal/agent/icmp.go", Old: "deriveICMPSessionKey(&ingress.EphemeralPrivKey, ingress.EphemeralPubKey, ack.EphemeralPubKey, ack.RequestID)", New: "deriveICMPSessionKey(&ingress.EphemeralPrivKey, a.icmpIngressByStream[0].EphemeralPubKey, ack.EphemeralPubKey, ack.RequestID)"},
	}},
	{Name: "udp relay drops the ephemeral key", ExpectRule: "C03.R5", ExpectKey: "handleUDPOpen", Edits: []Edit{
		{File: "internal/agent/udp.go", Old: "\t\tEphemeralPubKey: open.EphemeralPubKey,\n", New: ""},
	}},
	{Name: "tcp relay rewrites the request id", ExpectRule: "C03.R5", ExpectKey: "handleStreamOpen", Edits: []Edit{
		{File: "internal/agent/agent.go", Old: "\t\tRequestID:       open.RequestID,\n\t\tAddressType:     open.AddressType,\n\t\tAddress:         open.Address,\n\t\tPort:            open.Port,\n\t\tRemainingPath:   newPath,", New: "\t\tRequestID:       downstreamID,\n\t\tAddressType:     open.AddressType,\n\t\tAddress:         open.Address,\n\t\tPort:            open.Port,\n\t\tRemainingPath:   newPath,"},
	}},
	{Name: "exit acks with a key that is not the one it derived with", ExpectRule: "C03.R5", ExpectKey: "key sent", Edits: []Edit{
		{File: "internal/agent/agent.go", Old: "\t\tBoundPort:       boundPort,\n\t\tEphemeralPubKey: ephemeralPubKey,\n", New: "\t\tBoundPort:       boundPort,\n"},
	}},
	{Name: "low-order result check dropped", ExpectRule: "C03.R6", ExpectKey: "low-order", Edits: []Edit{
		{File: "internal/crypto/crypto.go", Old: "\tif sharedSecret == zeroKey {\n\t\treturn sharedSecret, fmt.Errorf(\"invalid ECDH result: low-order point\")\n\t}\n", New: ""},
	}},
	{Name: "rewrite: explicit zero-input test dropped, the result test still refuses the zero point", Edits: []Edit{
		{File: "internal/crypto/crypto.go", Old: "\tif remotePublicKey == zeroKey {\n", New: "\tif privateKey == zeroKey {\n"},
	}},
	{Name: "salt binds the initiator key twice", ExpectRule: "C03.R7", ExpectKey: "responderPub", Edits: []Edit{
		{File: "internal/crypto/crypto.go", Old: "copy(salt[8+KeySize:], responderPub[:])", New: "copy(salt[8+KeySize:], initiatorPub[:])"},
	}},
	{Name: "salt fields overlap", ExpectRule: "C03.R7", ExpectKey: "every input byte", Edits: []Edit{
		{File: "internal/crypto/crypto.go", Old: "copy(salt[8+KeySize:], responderPub[:])", New: "copy(salt[8:], responderPub[:])"},
	}},
	{Name: "request id truncated to 32 bits at the udp exit", ExpectRule: "C03.R4", ExpectKey: "performKeyExchange", Edits: []Edit{
		{File: "internal/udp/handler.go", Old: "crypto.DeriveSessionKey(sharedSecret, open.RequestID, remoteEphemeralPub, ephPub, false)", New: "crypto.DeriveSessionKey(sharedSecret, uint64(uint32(open.RequestID)), remoteEphemeralPub, ephPub, false)"},
	}},
	{Name: "salt binds only the low 32 bits of the identifier", ExpectRule: "C03.R7", ExpectKey: "full width", Edits: []Edit{
		{File: "internal/crypto/crypto.go", Old: "binary.BigEndian.PutUint64(salt[0:8], streamID)", New: "binary.BigEndian.PutUint64(salt[0:8], uint64(uint32(streamID)))"},
	}},
	{Name: "ECDH error overwritten by a later call before it is tested (seed C03-b class)", ExpectRule: "C03.R3", ExpectKey: "forward", Edits: []Edit{
		{File: "internal/forward/handler.go", Old: "\tsharedSecret, err := crypto.ComputeECDH(ephPriv, remoteEphemeralPub)\n\tif err != nil {", New: "\tsharedSecret, err := crypto.ComputeECDH(ephPriv, remoteEphemeralPub)\n\t_, err = crypto.ComputeECDH(ephPriv, ephPub)\n\tif err != nil {"},
	}},
	{Name: "output check replaced by an input blocklist (seed C03-a class)", ExpectRule: "C03.R6", ExpectKey: "low-order", Edits: []Edit{
		{File: "internal/crypto/crypto.go", Old: "\tif sharedSecret == zeroKey {\n\t\treturn sharedSecret, fmt.Errorf(\"invalid ECDH result: low-order point\")\n\t}\n", New: ""},
		{File: "internal/crypto/crypto.go", Old: "\tif remotePublicKey == zeroKey {\n", New: "\tvar one [KeySize]byte\n\tone[0] = 1\n\tif remotePublicKey == zeroKey || remotePublicKey == one {\n"},
	}},
	{Name: "udp exit acks with a second, unrelated key pair", ExpectRule: "C03.R5", ExpectKey: "key sent", Edits: []Edit{
		{File: "internal/udp/handler.go", Old: "\t\tack.EphemeralPubKey = ephPub\n", New: "\t\t_, other, _ := crypto.GenerateEphemeralKeypair()\n\t\tack.EphemeralPubKey = other\n\t\t_ = ephPub\n"},
	}},
	{Name: "exit derives after the dial and tests only the dial error", ExpectRule: "C03.R3", ExpectKey: "handleStreamOpenAsync", Edits: []Edit{
		{File: "internal/exit/handler.go", Old: "\tsharedSecret, err := crypto.ComputeECDH(ephPriv, remoteEphemeralPub)\n\tif err != nil {\n\t\tcrypto.ZeroKey(&ephPriv)\n\t\th.sendOpenErr(remoteID, streamID, requestID, protocol.ErrGeneralFailure, \"key exchange failed\")\n\t\treturn\n\t}\n", New: "\tsharedSecret, err := crypto.ComputeECDH(ephPriv, remoteEphemeralPub)\n\tif err != nil {\n\t\th.logger.Debug(\"key exchange failed\")\n\t}\n"},
	}},
	{Name: "rewrite: result test through a pointer helper with the branches swapped (refactoring C03/a)", Edits: []Edit{
		{File: "internal/crypto/crypto.go", Old: "\tif sharedSecret == zeroKey {\n\t\treturn sharedSecret, fmt.Errorf(\"invalid ECDH result: low-order point\")\n\t}\n\n\treturn sharedSecret, nil\n}\n", New: "\tif !isAllZeroKey(&sharedSecret) {\n\t\treturn sharedSecret, nil\n\t}\n\treturn sharedSecret, fmt.Errorf(\"invalid ECDH result: low-order point\")\n}\n\nfunc isAllZeroKey(k *[KeySize]byte) bool {\n\treturn *k == [KeySize]byte{}\n}\n"},
	}},
	{Name: "rewrite: result test through a scan-loop helper over a slice", Edits: []Edit{
		{File: "internal/crypto/crypto.go", Old: "\tif sharedSecret == zeroKey {\n", New: "\tif !anyNonZeroByte(sharedSecret[:]) {\n"},
		{File: "internal/crypto/crypto.go", Old: "// DeriveSessionKey derives a symmetric encryption key from an ECDH shared secret.\n", New: "func anyNonZeroByte(b []byte) bool {\n\tfor _, x := range b {\n\t\tif x != 0 {\n\t\t\treturn true\n\t\t}\n\t}\n\treturn false\n}\n\n// DeriveSessionKey derives a symmetric encryption key from an ECDH shared secret.\n"},
	}},
	{Name: "rewrite: DeriveSessionKey split into salt and expand helpers, salt built with append (refactoring C03/a)", Edits: []Edit{
		{File: "internal/crypto/crypto.go", Old: "\tsalt := make([]byte, 8+KeySize+KeySize)\n\tbinary.BigEndian.PutUint64(salt[0:8], streamID)\n\tcopy(salt[8:8+KeySize], initiatorPub[:])\n\tcopy(salt[8+KeySize:], responderPub[:])\n", New: "\tsalt := tunnelSalt(streamID, &initiatorPub, &responderPub)\n"},
		{File: "internal/crypto/crypto.go", Old: "\treader := hkdf.New(sha256.New, sharedSecret[:], salt, []byte(hkdfInfo))\n", New: "\treader := tunnelKDF(sharedSecret[:], salt)\n"},
		{File: "internal/crypto/crypto.go", Old: "// DeriveSessionKey derives a symmetric encryption key from an ECDH shared secret.\n", New: "func tunnelSalt(id uint64, a, b *[KeySize]byte) []byte {\n\ts := make([]byte, 0, 8+2*KeySize)\n\ts = binary.BigEndian.AppendUint64(s, id)\n\ts = append(s, a[:]...)\n\treturn append(s, b[:]...)\n}\n\nfunc tunnelKDF(secret, salt []byte) io.Reader {\n\treturn hkdf.New(sha256.New, secret, salt, []byte(hkdfInfo))\n}\n\n// DeriveSessionKey derives a symmetric encryption key from an ECDH shared secret.\n"},
	}},
	{Name: "split DeriveSessionKey whose salt helper forgets the responder key", ExpectRule: "C03.R7", ExpectKey: "responderPub", Edits: []Edit{
		{File: "internal/crypto/crypto.go", Old: "\tsalt := make([]byte, 8+KeySize+KeySize)\n\tbinary.BigEndian.PutUint64(salt[0:8], streamID)\n\tcopy(salt[8:8+KeySize], initiatorPub[:])\n\tcopy(salt[8+KeySize:], responderPub[:])\n", New: "\tsalt := tunnelSalt(streamID, &initiatorPub, &responderPub)\n"},
		{File: "internal/crypto/crypto.go", Old: "// DeriveSessionKey derives a symmetric encryption key from an ECDH shared secret.\n", New: "func tunnelSalt(id uint64, a, b *[KeySize]byte) []byte {\n\ts := make([]byte, 0, 8+2*KeySize)\n\ts = binary.BigEndian.AppendUint64(s, id)\n\ts = append(s, a[:]...)\n\t_ = b\n\treturn append(s, a[:]...)\n}\n\n// DeriveSessionKey derives a symmetric encryption key from an ECDH shared secret.\n"},
	}},
	{Name: "zero-test helper with inverted meaning used as if it meant all-zero", ExpectRule: "C03.R6", ExpectKey: "low-order", Edits: []Edit{
		{File: "internal/crypto/crypto.go", Old: "\tif sharedSecret == zeroKey {\n", New: "\tif anyNonZeroByte(sharedSecret[:]) {\n"},
		{File: "internal/crypto/crypto.go", Old: "// DeriveSessionKey derives a symmetric encryption key from an ECDH shared secret.\n", New: "func anyNonZeroByte(b []byte) bool {\n\tfor _, x := range b {\n\t\tif x != 0 {\n\t\t\treturn true\n\t\t}\n\t}\n\treturn false\n}\n\n// DeriveSessionKey derives a symmetric encryption key from an ECDH shared secret.\n"},
	}},
	{Name: "rewrite: relayed UDP_OPEN built by a helper", Edits: []Edit{
		{File: "internal/agent/udp.go", Old: "\tfwdOpen := &protocol.UDPOpen{\n\t\tRequestID:       open.RequestID,\n\t\tAddressType:     open.AddressType,\n\t\tAddress:         open.Address,\n\t\tPort:            open.Port,\n\t\tTTL:             open.TTL,\n\t\tRemainingPath:   newPath,\n\t\tEphemeralPubKey: open.EphemeralPubKey,\n\t}\n", New: "\tfwdOpen := forwardedUDPOpen(open, newPath)\n"},
		{File: "internal/agent/udp.go", Old: "// handleUDPOpenAck processes a UDP_OPEN_ACK frame.\n", New: "func forwardedUDPOpen(in *protocol.UDPOpen, rest []identity.AgentID) *protocol.UDPOpen {\n\treturn &protocol.UDPOpen{\n\t\tRequestID:       in.RequestID,\n\t\tAddressType:     in.AddressType,\n\t\tAddress:         in.Address,\n\t\tPort:            in.Port,\n\t\tTTL:             in.TTL,\n\t\tRemainingPath:   rest,\n\t\tEphemeralPubKey: in.EphemeralPubKey,\n\t}\n}\n\n// handleUDPOpenAck processes a UDP_OPEN_ACK frame.\n"},
	}},
	{Name: "running offset uses the copy count instead of the end position (seed C03-d class)", ExpectRule: "C03.R7", ExpectKey: "every input byte", Edits: []Edit{
		{File: "internal/crypto/crypto.go", Old: "\tcopy(salt[8:8+KeySize], initiatorPub[:])\n\tcopy(salt[8+KeySize:], responderPub[:])\n", New: "\tn := copy(salt[8:], initiatorPub[:])\n\tcopy(salt[n:], responderPub[:])\n"},
	}},
	{Name: "salt buffer one field too short, responder key truncated", ExpectRule: "C03.R7", ExpectKey: "every input byte", Edits: []Edit{
		{File: "internal/crypto/crypto.go", Old: "\tsalt := make([]byte, 8+KeySize+KeySize)\n", New: "\tsalt := make([]byte, 8+KeySize+KeySize/2)\n"},
	}},
	{Name: "only a prefix of the salt buffer is handed to HKDF", ExpectRule: "C03.R7", ExpectKey: "every input byte", Edits: []Edit{
		{File: "internal/crypto/crypto.go", Old: "hkdf.New(sha256.New, sharedSecret[:], salt, []byte(hkdfInfo))", New: "hkdf.New(sha256.New, sharedSecret[:], salt[:8+KeySize], []byte(hkdfInfo))"},
	}},
	{Name: "appended salt takes only part of the initiator key", ExpectRule: "C03.R7", ExpectKey: "every input byte", Edits: []Edit{
		{File: "internal/crypto/crypto.go", Old: "\tsalt := make([]byte, 8+KeySize+KeySize)\n\tbinary.BigEndian.PutUint64(salt[0:8], streamID)\n\tcopy(salt[8:8+KeySize], initiatorPub[:])\n\tcopy(salt[8+KeySize:], responderPub[:])\n", New: "\tsalt := make([]byte, 0, 8+KeySize+KeySize)\n\tsalt = binary.BigEndian.AppendUint64(salt, streamID)\n\tsalt = append(salt, initiatorPub[:KeySize-8]...)\n\tsalt = append(salt, responderPub[:]...)\n"},
	}},
	{Name: "identifier written after the keys over the first key bytes", ExpectRule: "C03.R7", ExpectKey: "every input byte", Edits: []Edit{
		{File: "internal/crypto/crypto.go", Old: "\tbinary.BigEndian.PutUint64(salt[0:8], streamID)\n\tcopy(salt[8:8+KeySize], initiatorPub[:])\n\tcopy(salt[8+KeySize:], responderPub[:])\n", New: "\tcopy(salt[0:KeySize], initiatorPub[:])\n\tcopy(salt[KeySize:], responderPub[:])\n\tbinary.BigEndian.PutUint64(salt[0:8], streamID)\n"},
	}},
	{Name: "only half of the shared secret is used as keying material", ExpectRule: "C03.R7", ExpectKey: "secret handed over in full", Edits: []Edit{
		{File: "internal/crypto/crypto.go", Old: "hkdf.New(sha256.New, sharedSecret[:], salt, []byte(hkdfInfo))", New: "hkdf.New(sha256.New, sharedSecret[:KeySize/2], salt, []byte(hkdfInfo))"},
	}},
	{Name: "rewrite: running offset advanced correctly with the copy counts", Edits: []Edit{
		{File: "internal/crypto/crypto.go", Old: "\tcopy(salt[8:8+KeySize], initiatorPub[:])\n\tcopy(salt[8+KeySize:], responderPub[:])\n", New: "\toff := 8\n\toff += copy(salt[off:], initiatorPub[:])\n\tcopy(salt[off:], responderPub[:])\n"},
	}},
	{Name: "rewrite: salt in a stack array with len-based offsets", Edits: []Edit{
		{File: "internal/crypto/crypto.go", Old: "\tsalt := make([]byte, 8+KeySize+KeySize)\n\tbinary.BigEndian.PutUint64(salt[0:8], streamID)\n\tcopy(salt[8:8+KeySize], initiatorPub[:])\n\tcopy(salt[8+KeySize:], responderPub[:])\n\n\t// Use HKDF-SHA256 to derive the session key\n\treader := hkdf.New(sha256.New, sharedSecret[:], salt, []byte(hkdfInfo))", New: "\tvar saltBuf [8 + 2*KeySize]byte\n\tbinary.BigEndian.PutUint64(saltBuf[:8], streamID)\n\tcopy(saltBuf[8:], initiatorPub[:])\n\tcopy(saltBuf[8+len(initiatorPub):], responderPub[:])\n\n\treader := hkdf.New(sha256.New, sharedSecret[:], saltBuf[:], []byte(hkdfInfo))"},
	}},
	{Name: "rewrite: derivation hoisted into a local helper closure (exit)", Edits: []Edit{
		{File: "internal/exit/handler.go", Old: "sessionKey := crypto.DeriveSessionKey(sharedSecret, requestID, remoteEphemeralPub, ephPub, false)", New: "sessionKey := func(id uint64, remote, local [crypto.KeySize]byte) *crypto.SessionKey {\n\t\treturn crypto.DeriveSessionKey(sharedSecret, id, remote, local, false)\n\t}(requestID, remoteEphemeralPub, ephPub)"},
	}},
	{Name: "rewrite: udp ingress uses the stored request id instead of the echoed one", Edits: []Edit{
		{File: "internal/agent/udp.go", Old: "crypto.DeriveSessionKey(sharedSecret, ack.RequestID, dest.EphemeralPubKey, ack.EphemeralPubKey, true)", New: "crypto.DeriveSessionKey(sharedSecret, dest.RequestID, dest.EphemeralPubKey, ack.EphemeralPubKey, true)"},
	}},
	{Name: "rewrite: zero tests written with bytes.Equal", Edits: []Edit{
		{File: "internal/crypto/crypto.go", Old: "\tif remotePublicKey == zeroKey {\n", New: "\tif bytes.Equal(remotePublicKey[:], zeroKey[:]) {\n"},
		{File: "internal/crypto/crypto.go", Old: "\tif sharedSecret == zeroKey {\n", New: "\tif !(!bytes.Equal(sharedSecret[:], zeroKey[:])) {\n"},
	}},
	{Name: "rewrite: ECDH error checked with the success branch nested", Edits: []Edit{
		{File: "internal/shell/handler.go", Old: "\tif err != nil {\n\t\tcrypto.ZeroKey(&ephPriv)\n\t\th.logger.Error(\"failed to compute ECDH shared secret\",\n\t\t\tlogging.KeyError, err)\n\t\treturn protocol.ErrGeneralFailure, zeroKey\n\t}\n", New: "\tif !(err == nil) {\n\t\th.logger.Error(\"failed to compute ECDH shared secret\",\n\t\t\tlogging.KeyError, err)\n\t\tcrypto.ZeroKey(&ephPriv)\n\t\treturn protocol.ErrGeneralFailure, zeroKey\n\t}\n"},
	}},
}

// ---------------------------------------------------------------------------------------
// C03 — both ends derive the same key; distinct tunnels distinct keys; degenerate keys refused.
// Part 1: anchors and the origin tracer shared by the call-site table.
// ---------------------------------------------------------------------------------------

// c03Ctx holds the role-resolved anchors.
type c03Ctx struct {
	p       *kit.Program
	r       *kit.Report
	gen     *ssa.Function // crypto.GenerateEphemeralKeypair
	ecdh    *ssa.Function // crypto.ComputeECDH
	derive  *ssa.Function // crypto.DeriveSessionKey
	owners  map[*types.Var]*types.Named
	opens   map[*types.Named]bool // protocol messages with RequestID + EphemeralPubKey + RemainingPath
	acks    map[*types.Named]bool // protocol messages with RequestID + EphemeralPubKey, no RemainingPath
	lits    []*c03Lit
	litDone bool
}

func c03Field(n *types.Named, name string) *types.Var {
	for _, f := range kit.StructFields(n) {
		if f.Name() == name {
			return f
		}
	}
	return nil
}

func c03IsKeyArray(t types.Type) bool {
	a, ok := t.Underlying().(*types.Array)
	if !ok || a.Len() != 32 {
		return false
	}
	b, ok := a.Elem().Underlying().(*types.Basic)
	return ok && b.Kind() == types.Uint8
}

func newC03Ctx(p *kit.Program, r *kit.Report) *c03Ctx {
	cx := &c03Ctx{p: p, r: r, opens: map[*types.Named]bool{}, acks: map[*types.Named]bool{}}
	cx.gen = p.Func("internal/crypto", "", "GenerateEphemeralKeypair")
	cx.ecdh = p.Func("internal/crypto", "", "ComputeECDH")
	cx.derive = p.Func("internal/crypto", "", "DeriveSessionKey")
	r.Require(cx.gen != nil, "anchor-unresolved: internal/crypto.GenerateEphemeralKeypair")
	r.Require(cx.ecdh != nil, "anchor-unresolved: internal/crypto.ComputeECDH")
	r.Require(cx.derive != nil, "anchor-unresolved: internal/crypto.DeriveSessionKey")
	cx.owners = p.FieldOwners("internal/protocol")
	seen := map[*types.Named]bool{}
	for _, n := range cx.owners {
		if seen[n] {
			continue
		}
		seen[n] = true
		id, key, path := c03Field(n, "RequestID"), c03Field(n, "EphemeralPubKey"), c03Field(n, "RemainingPath")
		if id == nil || key == nil || !c03IsKeyArray(key.Type()) {
			continue
		}
		if path != nil {
			cx.opens[n] = true
		} else {
			cx.acks[n] = true
		}
	}
	r.Require(len(cx.opens) >= 1, "anchor-unresolved: no open message type (RequestID+EphemeralPubKey+RemainingPath) in internal/protocol")
	r.Require(len(cx.acks) >= 1, "anchor-unresolved: no ack message type (RequestID+EphemeralPubKey) in internal/protocol")
	if len(r.Floors) > 0 {
		return nil
	}
	if len(cx.derive.Params) != 5 || len(cx.ecdh.Params) != 2 {
		r.Floor("anchor-unresolved: unexpected signature of DeriveSessionKey/ComputeECDH")
		return nil
	}
	return cx
}

// c03Origin is one backward leaf of a key/identifier value.
type c03Origin struct {
	Kind  string // gen | ecdh | wire | zero | const | call | param | other
	Call  ssa.CallInstruction
	Idx   int
	Field *types.Var
	Base  ssa.Value
	Val   ssa.Value
	Desc  string
}

func (o c03Origin) id() string {
	switch o.Kind {
	case "gen", "ecdh", "call":
		return fmt.Sprintf("%s|%p|%d", o.Kind, o.Call, o.Idx)
	case "wire":
		return fmt.Sprintf("wire|%p", o.Field)
	case "zero":
		return "zero"
	}
	return fmt.Sprintf("%s|%p|%s", o.Kind, o.Val, o.Desc)
}

func (cx *c03Ctx) originString(o c03Origin) string {
	switch o.Kind {
	case "gen":
		return fmt.Sprintf("result #%d of GenerateEphemeralKeypair in %s", o.Idx, kit.FuncName(o.Call.Parent()))
	case "ecdh":
		return fmt.Sprintf("result #%d of ComputeECDH in %s", o.Idx, kit.FuncName(o.Call.Parent()))
	case "call":
		return fmt.Sprintf("result #%d of %s", o.Idx, kit.CalleeOf(o.Call))
	case "wire":
		own := "?"
		if n := cx.owners[o.Field]; n != nil {
			own = n.Obj().Name()
		}
		return "decoded " + own + "." + o.Field.Name()
	case "zero":
		return "zero value"
	}
	return o.Kind + " " + o.Desc
}

func (cx *c03Ctx) originsString(os []c03Origin) string {
	if len(os) == 0 {
		return "nothing"
	}
	var parts []string
	seen := map[string]bool{}
	for _, o := range os {
		s := cx.originString(o)
		if !seen[s] {
			seen[s] = true
			parts = append(parts, s)
		}
	}
	sort.Strings(parts)
	return strings.Join(parts, ", ")
}

// c03Tracer computes the origin set of a value: through phis, conversions, local variables,
// struct fields (program-wide store set of the field: type-based, object-insensitive), closures'
// captured variables, parameters (every call-graph edge, or only the context site for the
// context function) and the results of repository helpers.
type c03Tracer struct {
	cx      *c03Ctx
	ctxFn   *ssa.Function
	ctxSite ssa.CallInstruction
	seen    map[ssa.Value]bool
	seenFld map[*types.Var]bool
	seenRet map[string]bool
	out     map[string]c03Origin
	order   []string
	n       int
}

func (cx *c03Ctx) trace(v ssa.Value, ctxFn *ssa.Function, ctxSite ssa.CallInstruction) []c03Origin {
	t := &c03Tracer{cx: cx, ctxFn: ctxFn, ctxSite: ctxSite, seen: map[ssa.Value]bool{}, seenFld: map[*types.Var]bool{},
		seenRet: map[string]bool{}, out: map[string]c03Origin{}}
	t.val(v)
	var res []c03Origin
	for _, k := range t.order {
		res = append(res, t.out[k])
	}
	return res
}

func (t *c03Tracer) add(o c03Origin) {
	k := o.id()
	if _, ok := t.out[k]; !ok {
		t.out[k] = o
		t.order = append(t.order, k)
	}
}

func (t *c03Tracer) other(v ssa.Value, desc string) {
	t.add(c03Origin{Kind: "other", Val: v, Desc: desc})
}

func (t *c03Tracer) val(v ssa.Value) {
	if v == nil || t.seen[v] {
		return
	}
	t.seen[v] = true
	t.n++
	if t.n > 6000 {
		t.other(nil, "trace budget exceeded")
		return
	}
	switch x := v.(type) {
	case *ssa.Const:
		if kit.IsZeroConst(x) {
			t.add(c03Origin{Kind: "zero"})
		} else {
			t.add(c03Origin{Kind: "const", Val: nil, Desc: x.String()})
		}
	case *ssa.Phi:
		for _, e := range x.Edges {
			t.val(e)
		}
	case *ssa.Extract:
		switch tup := x.Tuple.(type) {
		case *ssa.Call:
			t.callResult(tup, x.Index)
		case *ssa.TypeAssert:
			t.val(tup.X)
		default:
			t.other(v, "tuple element")
		}
	case *ssa.Call:
		t.callResult(x, 0)
	case *ssa.UnOp:
		switch x.Op {
		case token.MUL:
			t.load(x.X)
		case token.ARROW:
			t.other(v, "channel receive")
		default:
			t.val(x.X)
		}
	case *ssa.ChangeType:
		t.val(x.X)
	case *ssa.Convert:
		if from, to := c03IntBits(x.X.Type()), c03IntBits(x.Type()); from > 0 && to > 0 && to < from {
			t.other(v, fmt.Sprintf("identifier truncated to %d bits", to))
			return
		}
		t.val(x.X)
	case *ssa.MakeInterface:
		t.val(x.X)
	case *ssa.ChangeInterface:
		t.val(x.X)
	case *ssa.TypeAssert:
		t.val(x.X)
	case *ssa.Parameter:
		t.param(x, false)
	case *ssa.Field:
		f := kit.FieldOfAddr(x)
		if f != nil && t.cx.owners[f] != nil {
			t.add(c03Origin{Kind: "wire", Field: f, Base: x.X})
			return
		}
		t.other(v, "field of a struct value")
	case *ssa.BinOp:
		t.other(v, "arithmetic ("+x.Op.String()+")")
	case *ssa.Lookup:
		t.other(v, "map/string lookup")
	default:
		t.other(v, fmt.Sprintf("%T", v))
	}
}

// c03IntBits returns the width of an integer type (0 for non-integers; int/uint/uintptr count as 64).
func c03IntBits(t types.Type) int {
	b, ok := t.Underlying().(*types.Basic)
	if !ok {
		return 0
	}
	switch b.Kind() {
	case types.Int8, types.Uint8:
		return 8
	case types.Int16, types.Uint16:
		return 16
	case types.Int32, types.Uint32:
		return 32
	case types.Int64, types.Uint64, types.Int, types.Uint, types.Uintptr:
		return 64
	}
	return 0
}

// load handles *addr.
func (t *c03Tracer) load(addr ssa.Value) {
	switch a := addr.(type) {
	case *ssa.Alloc:
		t.allocLoad(a)
	case *ssa.FieldAddr:
		t.fieldLoad(kit.FieldOfAddr(a), a.X)
	case *ssa.FreeVar:
		if b := c03FreeVarBinding(a); b != nil {
			t.load(b)
		} else {
			t.other(a, "captured variable")
		}
	case *ssa.Parameter:
		t.param(a, true)
	case *ssa.Phi:
		if t.seen[a] {
			return
		}
		t.seen[a] = true
		for _, e := range a.Edges {
			t.load(e)
		}
	case *ssa.Global:
		t.other(a, "global "+a.Name())
	default:
		t.other(addr, fmt.Sprintf("memory %T", addr))
	}
}

func (t *c03Tracer) allocLoad(a *ssa.Alloc) {
	if t.seen[a] {
		return
	}
	t.seen[a] = true
	vals := c03AllocStores(a)
	if len(vals) == 0 {
		// never stored directly: zero value unless a callee fills it
		if cal := c03EscapesTo(a); cal != "" {
			t.other(a, "buffer written by "+cal)
			return
		}
		t.add(c03Origin{Kind: "zero"})
		return
	}
	for _, v := range vals {
		t.val(v)
	}
}

func (t *c03Tracer) fieldLoad(f *types.Var, base ssa.Value) {
	if f == nil {
		t.other(base, "unknown field")
		return
	}
	if t.cx.owners[f] != nil {
		t.add(c03Origin{Kind: "wire", Field: f, Base: base})
		return
	}
	if t.seenFld[f] {
		return
	}
	t.seenFld[f] = true
	stores := t.cx.p.FieldAccessesOfKind(f, kit.FieldStore)
	if len(stores) == 0 {
		t.add(c03Origin{Kind: "zero"})
		return
	}
	for _, acc := range stores {
		t.val(acc.Val)
	}
}

// param follows a parameter to its arguments. deref: the parameter is a pointer and the traced
// value is its pointee.
func (t *c03Tracer) param(prm *ssa.Parameter, deref bool) {
	fn := prm.Parent()
	pi := kit.ParamIndex(prm)
	follow := func(arg ssa.Value) {
		if deref {
			t.load(arg)
		} else {
			t.val(arg)
		}
	}
	if fn == t.ctxFn && t.ctxSite != nil {
		if a := kit.ArgAt(t.ctxSite, pi); a != nil {
			follow(a)
			return
		}
	}
	binds := t.cx.p.ParamBindingsAt(fn, pi)
	if len(binds) == 0 {
		t.add(c03Origin{Kind: "param", Val: prm, Desc: fmt.Sprintf("#%d of %s (no caller)", pi, kit.FuncName(fn))})
		return
	}
	for _, b := range binds {
		follow(b.Arg)
	}
}

func (t *c03Tracer) callResult(c *ssa.Call, idx int) {
	cal := kit.CalleeOf(c)
	if cal.Static != nil && cal.Static == t.cx.gen {
		t.add(c03Origin{Kind: "gen", Call: c, Idx: idx})
		return
	}
	if cal.Static != nil && cal.Static == t.cx.ecdh {
		t.add(c03Origin{Kind: "ecdh", Call: c, Idx: idx})
		return
	}
	if cal.Built != "" {
		t.add(c03Origin{Kind: "call", Call: c, Idx: idx})
		return
	}
	var callees []*ssa.Function
	if cal.Static != nil {
		callees = []*ssa.Function{cal.Static}
	} else {
		callees = t.cx.p.CalleesAt(c)
	}
	followed := false
	for _, g := range callees {
		if g == nil || g.Blocks == nil || !kit.IsRepoPkg(kit.FuncPkgPath(g)) {
			continue
		}
		// decoders of internal/protocol are wire sources, never followed
		if kit.FuncPkgPath(g) == kit.PkgPath("internal/protocol") {
			continue
		}
		followed = true
		k := fmt.Sprintf("%p|%d", g, idx)
		if t.seenRet[k] {
			continue
		}
		t.seenRet[k] = true
		for _, ret := range kit.Returns(g) {
			if g.Recover != nil && ret.Block() == g.Recover {
				continue
			}
			if rv := kit.ReturnResult(ret, idx); rv != nil {
				t.val(rv)
			}
		}
	}
	if !followed {
		t.add(c03Origin{Kind: "call", Call: c, Idx: idx})
	}
}

// c03FreeVarBinding returns the value bound to a closure's free variable where the closure is created.
func c03FreeVarBinding(fv *ssa.FreeVar) ssa.Value {
	fn := fv.Parent()
	if fn == nil || fn.Parent() == nil {
		return nil
	}
	idx := -1
	for i, q := range fn.FreeVars {
		if q == fv {
			idx = i
		}
	}
	if idx < 0 {
		return nil
	}
	var out ssa.Value
	kit.Instrs(fn.Parent(), func(in ssa.Instruction) {
		if mc, ok := in.(*ssa.MakeClosure); ok && mc.Fn == fn && idx < len(mc.Bindings) {
			out = mc.Bindings[idx]
		}
	})
	return out
}

// c03AllocStores returns the values stored into a local variable, including stores made by
// closures that capture it.
func c03AllocStores(a ssa.Value) []ssa.Value {
	var out []ssa.Value
	for _, st := range kit.StoresTo(a) {
		out = append(out, st.Val)
	}
	if a.Referrers() == nil {
		return out
	}
	for _, r := range *a.Referrers() {
		mc, ok := r.(*ssa.MakeClosure)
		if !ok {
			continue
		}
		cf, ok := mc.Fn.(*ssa.Function)
		if !ok {
			continue
		}
		for i, b := range mc.Bindings {
			if b == a && i < len(cf.FreeVars) {
				out = append(out, c03AllocStores(cf.FreeVars[i])...)
			}
		}
	}
	return out
}

// c03EscapesTo names a callee that receives the address of a (or of a slice of it).
func c03EscapesTo(a ssa.Value) string {
	res := ""
	seen := map[ssa.Value]bool{}
	var walk func(v ssa.Value)
	walk = func(v ssa.Value) {
		if seen[v] || v.Referrers() == nil {
			return
		}
		seen[v] = true
		for _, r := range *v.Referrers() {
			switch x := r.(type) {
			case *ssa.Slice:
				if x.X == v {
					walk(x)
				}
			case *ssa.IndexAddr:
				if x.X == v {
					walk(x)
				}
			case ssa.CallInstruction:
				cal := kit.CalleeOf(x)
				if cal.Built == "len" || cal.Built == "cap" {
					continue
				}
				for i, arg := range x.Common().Args {
					if arg == v && !(cal.Built == "copy" && i == 1) {
						res = cal.String()
					}
				}
			}
		}
	}
	walk(a)
	return res
}

// ---------- small predicates over origin sets ----------

func c03All(os []c03Origin, pred func(c03Origin) bool) bool {
	if len(os) == 0 {
		return false
	}
	for _, o := range os {
		if !pred(o) {
			return false
		}
	}
	return true
}

func c03GenSet(os []c03Origin) map[ssa.CallInstruction]bool {
	m := map[ssa.CallInstruction]bool{}
	for _, o := range os {
		if o.Kind == "gen" {
			m[o.Call] = true
		}
	}
	return m
}

func c03SameCalls(a, b map[ssa.CallInstruction]bool) bool {
	if len(a) != len(b) {
		return false
	}
	for k := range a {
		if !b[k] {
			return false
		}
	}
	return true
}

func c03Intersects(a, b map[ssa.CallInstruction]bool) bool {
	for k := range a {
		if b[k] {
			return true
		}
	}
	return false
}

func c03SameOrigins(a, b []c03Origin) bool {
	ma, mb := map[string]bool{}, map[string]bool{}
	for _, o := range a {
		ma[o.id()] = true
	}
	for _, o := range b {
		mb[o.id()] = true
	}
	if len(ma) != len(mb) || len(ma) == 0 {
		return false
	}
	for k := range ma {
		if !mb[k] {
			return false
		}
	}
	return true
}

// c03DirectField: if v (seen from ctx) is a direct load of a struct field, returns field and base.
func c03DirectField(v ssa.Value, ctxFn *ssa.Function, ctxSite ssa.CallInstruction) (*types.Var, ssa.Value) {
	for i := 0; i < 4; i++ {
		if prm := kit.SpilledParam(v); prm != nil {
			v = prm
		}
		switch x := v.(type) {
		case *ssa.UnOp:
			if x.Op != token.MUL {
				return nil, nil
			}
			switch a := x.X.(type) {
			case *ssa.FieldAddr:
				return kit.FieldOfAddr(a), a.X
			case *ssa.Parameter:
				if a.Parent() == ctxFn && ctxSite != nil {
					if arg := kit.ArgAt(ctxSite, kit.ParamIndex(a)); arg != nil {
						if fa, ok := arg.(*ssa.FieldAddr); ok {
							return kit.FieldOfAddr(fa), fa.X
						}
					}
				}
				return nil, nil
			}
			return nil, nil
		case *ssa.Parameter:
			if x.Parent() == ctxFn && ctxSite != nil {
				if arg := kit.ArgAt(ctxSite, kit.ParamIndex(x)); arg != nil {
					v = arg
					ctxFn, ctxSite = nil, nil
					continue
				}
			}
			return nil, nil
		default:
			return nil, nil
		}
	}
	return nil, nil
}

// c03SameBase: two struct bases denote the same object (same SSA value, or the same chain of
// field loads from the same root).
func c03SameBase(a, b ssa.Value) bool {
	if a == b {
		return true
	}
	ua, ok1 := a.(*ssa.UnOp)
	ub, ok2 := b.(*ssa.UnOp)
	if ok1 && ok2 && ua.Op == token.MUL && ub.Op == token.MUL {
		fa, ok3 := ua.X.(*ssa.FieldAddr)
		fb, ok4 := ub.X.(*ssa.FieldAddr)
		if ok3 && ok4 && fa.Field == fb.Field {
			return c03SameBase(fa.X, fb.X)
		}
	}
	return false
}

// ---------------------------------------------------------------------------------------
// Part 2: message literals (open / ack) that carry the ephemeral keys.
// ---------------------------------------------------------------------------------------

// c03Lit is one composite literal (or local variable) of an open/ack message type outside
// internal/protocol.
type c03Lit struct {
	alloc  *ssa.Alloc
	typ    *types.Named
	isOpen bool
	fn     *ssa.Function
	ord    int
	key    []c03Origin // origins of the values stored into EphemeralPubKey
	id     []c03Origin // origins of the values stored into RequestID
	keyVal []ssa.Value
	idVal  []ssa.Value
}

func c03AllocElemNamed(a *ssa.Alloc) *types.Named {
	pt, ok := a.Type().Underlying().(*types.Pointer)
	if !ok {
		return nil
	}
	n, _ := pt.Elem().(*types.Named)
	return n
}

// c03FieldStoresOf returns the values stored into field f of the struct variable a.
func c03FieldStoresOf(a *ssa.Alloc, f *types.Var) []ssa.Value {
	var out []ssa.Value
	if a.Referrers() == nil {
		return nil
	}
	for _, r := range *a.Referrers() {
		fa, ok := r.(*ssa.FieldAddr)
		if !ok || fa.X != a || kit.FieldOfAddr(fa) != f {
			continue
		}
		for _, st := range kit.StoresTo(fa) {
			out = append(out, st.Val)
		}
	}
	return out
}

func (cx *c03Ctx) literals() []*c03Lit {
	if cx.litDone {
		return cx.lits
	}
	cx.litDone = true
	proto := kit.PkgPath("internal/protocol")
	for _, fn := range cx.p.RepoFuncs() {
		if kit.FuncPkgPath(fn) == proto {
			continue // decoders are the wire source
		}
		ord := map[*types.Named]int{}
		kit.Instrs(fn, func(in ssa.Instruction) {
			a, ok := in.(*ssa.Alloc)
			if !ok {
				return
			}
			n := c03AllocElemNamed(a)
			if n == nil || (!cx.opens[n] && !cx.acks[n]) {
				return
			}
			ord[n]++
			l := &c03Lit{alloc: a, typ: n, isOpen: cx.opens[n], fn: fn, ord: ord[n]}
			l.keyVal = c03FieldStoresOf(a, c03Field(n, "EphemeralPubKey"))
			l.idVal = c03FieldStoresOf(a, c03Field(n, "RequestID"))
			merge := func(vals []ssa.Value) []c03Origin {
				if len(vals) == 0 {
					return []c03Origin{{Kind: "zero"}}
				}
				var out []c03Origin
				seen := map[string]bool{}
				for _, v := range vals {
					for _, o := range cx.trace(v, nil, nil) {
						if !seen[o.id()] {
							seen[o.id()] = true
							out = append(out, o)
						}
					}
				}
				return out
			}
			l.key = merge(l.keyVal)
			l.id = merge(l.idVal)
			cx.lits = append(cx.lits, l)
		})
	}
	return cx.lits
}

func (l *c03Lit) name() string {
	return fmt.Sprintf("%s %s literal #%d", kit.FuncName(l.fn), l.typ.Obj().Name(), l.ord)
}

// ---------------------------------------------------------------------------------------
// Part 3: the call-site table (R1–R4) over every static call of DeriveSessionKey.
// ---------------------------------------------------------------------------------------

// c03Site is the merged verdict of one DeriveSessionKey call site.
type c03Site struct {
	call      *ssa.Call
	fn        *ssa.Function
	key       string
	initiator bool
	roleKnown bool
	gens      map[ssa.CallInstruction]bool
	fails     map[string][]string // rule -> messages
}

func (s *c03Site) fail(rule, format string, a ...any) {
	msg := fmt.Sprintf(format, a...)
	for _, m := range s.fails[rule] {
		if m == msg {
			return
		}
	}
	s.fails[rule] = append(s.fails[rule], msg)
}

// c03UsesParam: v is, directly, a parameter of fn (by value, spilled, or dereferenced).
func c03UsesParam(v ssa.Value, fn *ssa.Function) bool {
	if prm := kit.SpilledParam(v); prm != nil {
		return prm.Parent() == fn
	}
	switch x := v.(type) {
	case *ssa.Parameter:
		return x.Parent() == fn
	case *ssa.UnOp:
		if x.Op == token.MUL {
			if prm, ok := x.X.(*ssa.Parameter); ok {
				return prm.Parent() == fn
			}
		}
	}
	return false
}

// contexts returns the call sites of fn to evaluate a site under (one level of calling
// context keeps the pairing of the arguments a helper receives); nil context = context-free.
func (cx *c03Ctx) contexts(fn *ssa.Function, vals ...ssa.Value) []ssa.CallInstruction {
	need := false
	for _, v := range vals {
		if c03UsesParam(v, fn) {
			need = true
		}
	}
	if !need {
		return []ssa.CallInstruction{nil}
	}
	sites := cx.p.CallSitesInto(fn)
	if len(sites) == 0 || len(sites) > 16 {
		return []ssa.CallInstruction{nil}
	}
	return sites
}

func c03CtxName(site ssa.CallInstruction) string {
	if site == nil {
		return ""
	}
	return " (called from " + kit.FuncName(site.Parent()) + ")"
}

func (cx *c03Ctx) evalSite(s *c03Site) {
	S := s.call
	args := S.Call.Args
	secret, id, ipub, rpub, role := args[0], args[1], args[2], args[3], args[4]
	rb, ok := kit.ConstBool(role)
	if !ok {
		s.fail("C03.R1", "the role argument is not a constant: which end this is cannot be decided at the call site, so nonce direction and key order are not fixed")
		return
	}
	s.roleKnown, s.initiator = true, rb
	local, remote := ipub, rpub
	localSlot, remoteSlot := "initiatorPub", "responderPub"
	if !rb {
		local, remote = rpub, ipub
		localSlot, remoteSlot = "responderPub", "initiatorPub"
	}
	// ECDH calls feeding the secret are located context-free first to know which values need a context
	var ecdhArgs []ssa.Value
	for _, o := range cx.trace(secret, nil, nil) {
		if o.Kind == "ecdh" && o.Call.Parent() == s.fn {
			ecdhArgs = append(ecdhArgs, o.Call.Common().Args...)
		}
	}
	vals := append([]ssa.Value{secret, id, ipub, rpub}, ecdhArgs...)
	for _, ctx := range cx.contexts(s.fn, vals...) {
		cx.evalSiteCtx(s, ctx, secret, id, local, remote, localSlot, remoteSlot)
	}
}

func (cx *c03Ctx) wantedRemoteTypes(initiator bool) (map[*types.Named]bool, string) {
	if initiator {
		return cx.acks, "an open-ack message"
	}
	return cx.opens, "an open message"
}

func (cx *c03Ctx) evalSiteCtx(s *c03Site, ctx ssa.CallInstruction, secret, id, local, remote ssa.Value, localSlot, remoteSlot string) {
	S, F := s.call, s.fn
	cn := c03CtxName(ctx)
	tr := func(v ssa.Value, inFn *ssa.Function) []c03Origin {
		if inFn == F && ctx != nil {
			return cx.trace(v, F, ctx)
		}
		return cx.trace(v, nil, nil)
	}
	// ---- R2: key order matches the role
	lo := tr(local, F)
	ro := tr(remote, F)
	localOK := c03All(lo, func(o c03Origin) bool { return o.Kind == "gen" && o.Idx == 1 })
	if !localOK {
		s.fail("C03.R2", "argument %s must be this end's freshly generated public key (result #1 of GenerateEphemeralKeypair) but is %s%s: the two ends put the keys into the KDF salt in different order and derive different keys", localSlot, cx.originsString(lo), cn)
	}
	want, wantName := cx.wantedRemoteTypes(s.initiator)
	remoteOK := c03All(ro, func(o c03Origin) bool {
		return o.Kind == "wire" && c03IsKeyArray(o.Field.Type()) && want[cx.owners[o.Field]]
	})
	if !remoteOK {
		s.fail("C03.R2", "argument %s must be the peer's public key decoded from %s but is %s%s: the two ends derive different keys", remoteSlot, wantName, cx.originsString(ro), cn)
	}
	for k := range c03GenSet(lo) {
		s.gens[k] = true
	}
	// ---- R3: the secret is ECDH(own private key of the same pair, the same remote key), checked, not zeroed early
	so := tr(secret, F)
	if !c03All(so, func(o c03Origin) bool { return o.Kind == "ecdh" && o.Idx == 0 }) {
		s.fail("C03.R3", "the shared secret is not (only) result #0 of ComputeECDH but %s%s", cx.originsString(so), cn)
	}
	for _, o := range so {
		if o.Kind != "ecdh" {
			continue
		}
		E, _ := o.Call.(*ssa.Call)
		if E == nil {
			continue
		}
		ef := E.Parent()
		eargs := E.Call.Args
		po := tr(eargs[0], ef)
		if !c03All(po, func(o c03Origin) bool { return o.Kind == "gen" && o.Idx == 0 }) {
			s.fail("C03.R3", "the private key given to ComputeECDH is not result #0 of GenerateEphemeralKeypair but %s%s", cx.originsString(po), cn)
		} else if localOK && !c03SameCalls(c03GenSet(po), c03GenSet(lo)) {
			s.fail("C03.R3", "the private key given to ComputeECDH and the public key bound into the salt come from different key generations%s: the peer computes a different shared secret", cn)
		}
		pubo := tr(eargs[1], ef)
		if remoteOK && !c03SameOrigins(pubo, ro) {
			s.fail("C03.R3", "ComputeECDH uses %s as the remote key but the salt binds %s%s: the ends derive different keys", cx.originsString(pubo), cx.originsString(ro), cn)
		}
		if ef == F {
			// same object for private/public and for the two uses of the remote key
			cf, cs := F, ctx
			if lf, lb := c03DirectField(local, cf, cs); lf != nil {
				if pf, pb := c03DirectField(eargs[0], cf, cs); pf != nil && !c03SameBase(lb, pb) {
					s.fail("C03.R3", "the private key and the public key are read from different objects%s", cn)
				}
			}
			if rf, rbase := c03DirectField(remote, cf, cs); rf != nil {
				if pf, pb := c03DirectField(eargs[1], cf, cs); pf != nil && (pf != rf || !c03SameBase(rbase, pb)) {
					s.fail("C03.R3", "the remote key given to ComputeECDH and the one bound into the salt are read from different messages%s", cn)
				}
			}
		}
		// error of ComputeECDH checked before the derivation
		if !cx.errChecked(S, E, secret) {
			s.fail("C03.R3", "DeriveSessionKey is reachable without the err==nil edge of ComputeECDH: for an all-zero or low-order remote key the all-zero secret is turned into a usable session key")
		}
		// the private key is not overwritten before its use, nor the secret before the derivation
		if z := c03OverwrittenBefore(c03AddrOf(eargs[0]), E); z != "" {
			s.fail("C03.R3", "the private key is overwritten by %s before ComputeECDH uses it: the secret is computed from a constant scalar and differs from the peer's", z)
		}
		if ef == F {
			if z := c03OverwrittenBefore(c03AddrOf(secret), S); z != "" {
				s.fail("C03.R3", "the shared secret is overwritten by %s before DeriveSessionKey uses it: the key is derived from zeros and differs from the peer's", z)
			}
		}
	}
	// ---- R4: request identifier agreement
	io := tr(id, F)
	isReqID := func(types map[*types.Named]bool) func(c03Origin) bool {
		return func(o c03Origin) bool {
			return o.Kind == "wire" && o.Field.Name() == "RequestID" && types[cx.owners[o.Field]]
		}
	}
	if !s.initiator {
		if !c03All(io, isReqID(cx.opens)) {
			s.fail("C03.R4", "the responder's identifier must be the RequestID decoded from the open message but is %s%s: stream ids change per hop, so the ends mix different identifiers into the salt", cx.originsString(io), cn)
		}
		return
	}
	if c03All(io, isReqID(cx.acks)) {
		return // the identifier echoed by the exit in the ack
	}
	matched := false
	nCand := 0
	for _, l := range cx.literals() {
		if !l.isOpen || !c03Intersects(c03GenSet(l.key), c03GenSet(lo)) {
			continue
		}
		nCand++
		if !c03SameOrigins(l.id, io) {
			continue
		}
		okBase := true
		if l.fn == F && len(l.idVal) == 1 {
			if f1, b1 := c03DirectField(l.idVal[0], nil, nil); f1 != nil {
				if f2, b2 := c03DirectField(id, F, ctx); f2 != nil && (f1 != f2 || !c03SameBase(b1, b2)) {
					okBase = false
				}
			}
		}
		if okBase {
			matched = true
		}
	}
	if !matched {
		s.fail("C03.R4", "the initiator's identifier (%s) is neither the RequestID echoed in the ack nor the RequestID written into the open message that carries this key pair (%d candidate open message(s))%s: the exit mixes a different identifier into the salt", cx.originsString(io), nCand, cn)
	}
}

// c03AddrOf: the address a loaded value was read from (nil when v is not a load).
func c03AddrOf(v ssa.Value) ssa.Value {
	if u, ok := v.(*ssa.UnOp); ok && u.Op == token.MUL {
		return u.X
	}
	return nil
}

func c03SameAddr(a, b ssa.Value) bool {
	if a == b {
		return true
	}
	fa, ok1 := a.(*ssa.FieldAddr)
	fb, ok2 := b.(*ssa.FieldAddr)
	return ok1 && ok2 && fa.Field == fb.Field && c03SameBase(fa.X, fb.X) && types.Identical(fa.X.Type(), fb.X.Type())
}

// c03OverwrittenBefore: a call in use's function that receives addr, writes through it and can
// execute before use. Returns the callee name, "" when none.
func c03OverwrittenBefore(addr ssa.Value, use ssa.Instruction) string {
	if addr == nil {
		return ""
	}
	res := ""
	kit.Instrs(use.Parent(), func(in ssa.Instruction) {
		c, ok := in.(ssa.CallInstruction)
		if !ok || in == use {
			return
		}
		if _, isDefer := in.(*ssa.Defer); isDefer {
			return
		}
		cal := kit.CalleeOf(c)
		if cal.Static == nil {
			return
		}
		for i, a := range c.Common().Args {
			if c03SameAddr(a, addr) && kit.WritesThroughParam(cal.Static, i) && kit.CanReach(in, use) {
				res = cal.String()
			}
		}
	})
	return res
}

// errChecked: S executes only on the err==nil edge of E (directly; through a local error
// variable; or, when E lives in a helper, on the err==nil edge of the helper call whose own
// nil-error returns are guarded by E's err==nil).
func (cx *c03Ctx) errChecked(S *ssa.Call, E *ssa.Call, secret ssa.Value) bool {
	if E.Parent() == S.Parent() {
		return c03ErrNilAt(S, E)
	}
	// S inside a closure nested in E's function: the closure must be created on the err==nil edge
	for f := S.Parent(); f != nil && f.Parent() != nil; f = f.Parent() {
		if f.Parent() != E.Parent() {
			continue
		}
		ok := false
		kit.Instrs(f.Parent(), func(in ssa.Instruction) {
			if mc, isMC := in.(*ssa.MakeClosure); isMC && mc.Fn == ssa.Value(f) {
				ok = c03ErrNilAt(mc, E)
			}
		})
		return ok
	}
	// helper: find the call in S's function that yields the secret
	var viaCalls []*ssa.Call
	seen := map[ssa.Value]bool{}
	var walk func(v ssa.Value)
	walk = func(v ssa.Value) {
		if v == nil || seen[v] {
			return
		}
		seen[v] = true
		switch x := v.(type) {
		case *ssa.Phi:
			for _, e := range x.Edges {
				walk(e)
			}
		case *ssa.Extract:
			if c, ok := x.Tuple.(*ssa.Call); ok {
				viaCalls = append(viaCalls, c)
			}
		case *ssa.Call:
			viaCalls = append(viaCalls, x)
		case *ssa.UnOp:
			if a, ok := x.X.(*ssa.Alloc); ok && x.Op == token.MUL {
				for _, sv := range c03AllocStores(a) {
					walk(sv)
				}
			}
		}
	}
	walk(secret)
	if len(viaCalls) == 0 {
		return false
	}
	for _, c := range viaCalls {
		if kit.ErrResultOf(c) == nil || !c03ErrNilAt(S, c) {
			return false
		}
		g := kit.CalleeOf(c).Static
		if g == nil || g != E.Parent() {
			return false
		}
		for _, ret := range kit.Returns(g) {
			if g.Recover != nil && ret.Block() == g.Recover {
				continue
			}
			if kit.ReturnsNilError(ret) && !c03ErrNilAt(ret, E) {
				return false
			}
		}
	}
	return true
}

// c03ErrNilAt: the guards at instruction `at` establish that the error result of call c is nil.
func c03ErrNilAt(at ssa.Instruction, c *ssa.Call) bool {
	errVal := kit.ErrResultOf(c)
	if errVal == nil {
		return false
	}
	for _, g := range kit.GuardsOf(at) {
		x, trueMeansNil, ok := kit.IsErrNilCheck(g.Cond)
		if !ok || trueMeansNil != g.Polarity {
			continue
		}
		if x == errVal {
			return true
		}
		// error kept in a local variable: the load must see the store of c's error
		if u, ok := x.(*ssa.UnOp); ok && u.Op == token.MUL {
			if a, ok := u.X.(*ssa.Alloc); ok {
				var mine *ssa.Store
				stores := kit.StoresTo(a)
				for _, st := range stores {
					if st.Val == errVal && kit.Precedes(st, u) {
						mine = st
					}
				}
				if mine == nil {
					continue
				}
				clobbered := false
				for _, st := range stores {
					if st != mine && kit.CanReach(mine, st) && kit.CanReach(st, u) {
						clobbered = true
					}
				}
				if !clobbered {
					return true
				}
			}
		}
	}
	return false
}

// ---------------------------------------------------------------------------------------
// Part 4: R5 (keys and identifiers travel unchanged), R6 (ComputeECDH), R7 (DeriveSessionKey).
// ---------------------------------------------------------------------------------------

func (cx *c03Ctx) checkTransport(sites []*c03Site) {
	r, p := cx.r, cx.p
	lits := cx.literals()
	nInit, nRelay, nAck := 0, 0, 0
	for _, l := range lits {
		pos := p.Pos(l.alloc.Pos())
		allGen := c03All(l.key, func(o c03Origin) bool { return o.Kind == "gen" && o.Idx == 1 })
		genOrZero := c03All(l.key, func(o c03Origin) bool { return (o.Kind == "gen" && o.Idx == 1) || o.Kind == "zero" })
		keyFld, idFld := c03Field(l.typ, "EphemeralPubKey"), c03Field(l.typ, "RequestID")
		sameMsg := c03All(l.key, func(o c03Origin) bool { return o.Kind == "wire" && o.Field == keyFld }) &&
			c03All(l.id, func(o c03Origin) bool { return o.Kind == "wire" && o.Field == idFld })
		if sameMsg && len(l.keyVal) == 1 && len(l.idVal) == 1 {
			_, b1 := c03DirectField(l.keyVal[0], nil, nil)
			_, b2 := c03DirectField(l.idVal[0], nil, nil)
			if b1 != nil && b2 != nil && !c03SameBase(b1, b2) {
				sameMsg = false
			}
		}
		switch {
		case l.isOpen && allGen:
			nInit++
			r.OK("C03.R5", l.name(), pos, "initiator open message carries the freshly generated public key")
		case !l.isOpen && genOrZero:
			nAck++
			r.OK("C03.R5", l.name(), pos, "ack carries this end's freshly generated public key")
		case sameMsg:
			nRelay++
			r.OK("C03.R5", l.name(), pos, "relayed message copies RequestID and EphemeralPubKey field-to-field from the received %s", l.typ.Obj().Name())
		default:
			r.Violation("C03.R5", l.name(), pos,
				"this %s carries EphemeralPubKey from %s and RequestID from %s: it is neither a fresh local key nor the received message's own fields, so the two ends bind different keys/identifiers into the salt",
				l.typ.Obj().Name(), cx.originsString(l.key), cx.originsString(l.id))
		}
	}
	r.Count("open_ack_literals", len(lits))
	r.Count("initiator_open_literals", nInit)
	r.Count("relayed_open_literals", nRelay)
	r.Count("responder_ack_literals", nAck)
	// every site's public key actually reaches the peer
	for _, s := range sites {
		if !s.roleKnown || len(s.gens) == 0 {
			continue
		}
		found := false
		for _, l := range lits {
			if l.isOpen == s.initiator && c03Intersects(c03GenSet(l.key), s.gens) {
				found = true
			}
		}
		what := "open message"
		if !s.initiator {
			what = "ack message"
		}
		r.Decide(found, "C03.R5", s.key+" key sent", p.Pos(s.call.Pos()),
			"the public key of this key pair is written into an "+what,
			"the public key bound into the salt at this site is never written into an "+what+": the peer cannot derive the same key")
	}
}

// c03ZeroTest recognises a comparison of a 32-byte buffer with the zero value. Returns the
// root of the tested buffer and whether cond==true means "is zero".
func c03ZeroTest(cond ssa.Value) (root ssa.Value, trueMeansZero bool, ok bool) {
	neg := false
	for {
		u, isU := cond.(*ssa.UnOp)
		if !isU || u.Op != token.NOT {
			break
		}
		neg = !neg
		cond = u.X
	}
	isZeroBuf := func(v ssa.Value) bool {
		if kit.IsZeroConst(v) {
			return true
		}
		rg, ok := kit.AddrRange(v)
		if !ok {
			return false
		}
		a, isA := rg.Root.(*ssa.Alloc)
		return isA && len(c03AllocStores(a)) == 0 && c03EscapesToWriter(a) == ""
	}
	rootOf := func(v ssa.Value) ssa.Value {
		if prm := kit.SpilledParam(v); prm != nil {
			return prm
		}
		if u, isU := v.(*ssa.UnOp); isU && u.Op == token.MUL {
			if prm, isP := u.X.(*ssa.Parameter); isP {
				return prm // *k for a pointer parameter k
			}
		}
		rg, ok := kit.AddrRange(v)
		if !ok {
			return nil
		}
		if a, isA := rg.Root.(*ssa.Alloc); isA {
			if prm := kit.AllocOfParam(a); prm != nil {
				return prm
			}
		}
		return rg.Root
	}
	switch x := cond.(type) {
	case *ssa.BinOp:
		if x.Op != token.EQL && x.Op != token.NEQ {
			return nil, false, false
		}
		eq := x.Op == token.EQL
		// subtle.ConstantTimeCompare(a, b) == 1 / != 1 / == 0
		for _, pair := range [][2]ssa.Value{{x.X, x.Y}, {x.Y, x.X}} {
			if c, isC := pair[0].(*ssa.Call); isC && kit.CalleeOf(c).Name == "ConstantTimeCompare" {
				k, isK := kit.ConstInt(pair[1])
				if !isK || len(c.Call.Args) != 2 {
					return nil, false, false
				}
				equalWhenTrue := (k == 1) == eq
				a, b := c.Call.Args[0], c.Call.Args[1]
				switch {
				case isZeroBuf(a) && !isZeroBuf(b):
					return rootOf(b), equalWhenTrue != neg, true
				case isZeroBuf(b) && !isZeroBuf(a):
					return rootOf(a), equalWhenTrue != neg, true
				}
				return nil, false, false
			}
		}
		switch {
		case isZeroBuf(x.Y) && !isZeroBuf(x.X):
			return rootOf(x.X), eq != neg, true
		case isZeroBuf(x.X) && !isZeroBuf(x.Y):
			return rootOf(x.Y), eq != neg, true
		}
	case *ssa.Call:
		cal := kit.CalleeOf(x)
		if g := cal.Static; g != nil && g.Blocks != nil && kit.IsRepoPkg(kit.FuncPkgPath(g)) {
			// a repository predicate such as isAllZero(&k): summarise it by what its result implies
			pi, tmz, ok := c03ZeroHelper(g, 0)
			if !ok || pi >= len(x.Call.Args) {
				return nil, false, false
			}
			arg := x.Call.Args[pi]
			var root ssa.Value
			if _, isPtr := g.Params[pi].Type().Underlying().(*types.Pointer); isPtr {
				root = arg
				if a, isA := arg.(*ssa.Alloc); isA {
					if prm := kit.AllocOfParam(a); prm != nil {
						root = prm
					}
				}
			} else {
				root = rootOf(arg)
			}
			if root == nil {
				return nil, false, false
			}
			return root, tmz != neg, true
		}
		if cal.Name == "Equal" && cal.Pkg == "bytes" && len(x.Call.Args) == 2 {
			a, b := x.Call.Args[0], x.Call.Args[1]
			switch {
			case isZeroBuf(a) && !isZeroBuf(b):
				return rootOf(b), !neg, true
			case isZeroBuf(b) && !isZeroBuf(a):
				return rootOf(a), !neg, true
			}
		}
	}
	return nil, false, false
}

// c03ZeroHelper summarises a repository predicate over one buffer parameter: it returns the
// index of that parameter and whether a true result means "all bytes are zero". Accepted bodies:
// a returned zero test of the parameter (array ==, bytes.Equal, ConstantTimeCompare, another such
// helper), or a scan loop that returns a constant as soon as one element differs from zero.
func c03ZeroHelper(g *ssa.Function, depth int) (paramIdx int, trueMeansZero bool, ok bool) {
	if depth > 2 || g.Signature.Results().Len() != 1 {
		return 0, false, false
	}
	if b, isB := g.Signature.Results().At(0).Type().Underlying().(*types.Basic); !isB || b.Kind() != types.Bool {
		return 0, false, false
	}
	var rets []*ssa.Return
	for _, ret := range kit.Returns(g) {
		if g.Recover != nil && ret.Block() == g.Recover {
			continue
		}
		rets = append(rets, ret)
	}
	if len(rets) == 0 {
		return 0, false, false
	}
	allConst := true
	for _, ret := range rets {
		if _, isC := kit.ConstBool(kit.ReturnResult(ret, 0)); !isC {
			allConst = false
		}
	}
	if !allConst {
		// every return is itself a zero test of the same parameter with the same meaning
		var prm *ssa.Parameter
		for i, ret := range rets {
			root, tmz, ok := c03ZeroTest(kit.ReturnResult(ret, 0))
			q, isP := root.(*ssa.Parameter)
			if !ok || !isP || q.Parent() != g {
				return 0, false, false
			}
			if i == 0 {
				prm, trueMeansZero = q, tmz
			} else if q != prm || tmz != trueMeansZero {
				return 0, false, false
			}
		}
		return kit.ParamIndex(prm), trueMeansZero, true
	}
	// scan loop: the "found a non-zero element" exits all return one constant, the fall-through the other
	var prm *ssa.Parameter
	nonZeroExit := func(ret *ssa.Return) bool {
		for _, gd := range kit.GuardsOf(ret) {
			b, isB := gd.Cond.(*ssa.BinOp)
			if !isB || (b.Op != token.EQL && b.Op != token.NEQ) {
				continue
			}
			elem, other := b.X, b.Y
			if k, isK := kit.ConstInt(elem); isK && k == 0 {
				elem, other = other, elem
			}
			if k, isK := kit.ConstInt(other); !isK || k != 0 {
				continue
			}
			if (b.Op == token.NEQ) != gd.Polarity {
				continue // this path is the "element is zero" side
			}
			q := c03ElemOfParam(elem)
			if q == nil || q.Parent() != g {
				continue
			}
			if prm == nil || prm == q {
				prm = q
				return true
			}
		}
		return false
	}
	var onNonZero, onFallthrough []bool
	for _, ret := range rets {
		v, _ := kit.ConstBool(kit.ReturnResult(ret, 0))
		if nonZeroExit(ret) {
			onNonZero = append(onNonZero, v)
		} else {
			onFallthrough = append(onFallthrough, v)
		}
	}
	if prm == nil || len(onNonZero) == 0 || len(onFallthrough) == 0 {
		return 0, false, false
	}
	for _, v := range onNonZero {
		if v != onNonZero[0] {
			return 0, false, false
		}
	}
	for _, v := range onFallthrough {
		if v == onNonZero[0] {
			return 0, false, false
		}
	}
	return kit.ParamIndex(prm), !onNonZero[0], true
}

// c03ElemOfParam: v is one element (byte) of a buffer parameter: k[i], (*k)[i], or the value of a range over it.
func c03ElemOfParam(v ssa.Value) *ssa.Parameter {
	for i := 0; i < 6; i++ {
		switch x := v.(type) {
		case *ssa.UnOp:
			if x.Op != token.MUL {
				return nil
			}
			if prm := kit.SpilledParam(x); prm != nil {
				return prm
			}
			v = x.X
		case *ssa.IndexAddr:
			v = x.X
		case *ssa.Index:
			v = x.X
		case *ssa.Slice:
			v = x.X
		case *ssa.Alloc:
			return kit.AllocOfParam(x)
		case *ssa.Parameter:
			return x
		default:
			return nil
		}
	}
	return nil
}

// c03EscapesToWriter: like c03EscapesTo but ignores callees that only read (bytes.Equal,
// subtle.ConstantTimeCompare) so that a zero buffer compared by slice stays "never written".
func c03EscapesToWriter(a ssa.Value) string {
	res := ""
	seen := map[ssa.Value]bool{}
	var walk func(v ssa.Value)
	walk = func(v ssa.Value) {
		if seen[v] || v.Referrers() == nil {
			return
		}
		seen[v] = true
		for _, r := range *v.Referrers() {
			switch x := r.(type) {
			case *ssa.Slice:
				if x.X == v {
					walk(x)
				}
			case *ssa.IndexAddr:
				if x.X == v {
					walk(x)
				}
			case ssa.CallInstruction:
				cal := kit.CalleeOf(x)
				if cal.Built == "len" || cal.Built == "cap" || (cal.Pkg == "bytes" && cal.Name == "Equal") || cal.Name == "ConstantTimeCompare" {
					continue
				}
				for i, arg := range x.Common().Args {
					if arg == v && !(cal.Built == "copy" && i == 1) {
						res = cal.String()
					}
				}
			}
		}
	}
	walk(a)
	return res
}

func (cx *c03Ctx) checkECDH() {
	r, p := cx.r, cx.p
	fn := cx.ecdh
	key := kit.FuncName(fn)
	var mult, x25519 *ssa.Call
	for _, c := range kit.Calls(fn) {
		cal := kit.CalleeOf(c)
		if cal.Pkg != "golang.org/x/crypto/curve25519" {
			continue
		}
		cv, _ := c.(*ssa.Call)
		switch cal.Name {
		case "ScalarMult":
			mult = cv
		case "X25519":
			x25519 = cv
		}
	}
	if !r.Require(mult != nil || x25519 != nil, "anchor-unresolved: ComputeECDH calls neither curve25519.ScalarMult nor curve25519.X25519") {
		return
	}
	var okRets []*ssa.Return
	for _, ret := range kit.Returns(fn) {
		if fn.Recover != nil && ret.Block() == fn.Recover {
			continue
		}
		if kit.ReturnsNilError(ret) {
			okRets = append(okRets, ret)
		}
	}
	if len(okRets) == 0 {
		r.Violation("C03.R6", key+" success return", p.Pos(fn.Pos()), "ComputeECDH never returns a nil error: no tunnel can derive a key")
		return
	}
	if x25519 != nil && mult == nil {
		ok := true
		for _, ret := range okRets {
			if !c03ErrNilAt(ret, x25519) {
				ok = false
			}
		}
		r.Decide(ok, "C03.R6", key+" X25519 error propagated", p.Pos(x25519.Pos()),
			"every nil-error return lies on the err==nil edge of curve25519.X25519 (which rejects low-order inputs and all-zero results)",
			"a nil-error return is reachable although curve25519.X25519 reported a low-order point: a degenerate remote key yields a usable secret")
		return
	}
	pubPrm := ssa.Value(fn.Params[1])
	outRg, okOut := kit.AddrRange(mult.Call.Args[0])
	inOK, outOK := true, okOut
	for _, ret := range okRets {
		gotIn, gotOut := false, false
		for _, g := range kit.GuardsOf(ret) {
			root, trueMeansZero, ok := c03ZeroTest(g.Cond)
			if !ok || g.Polarity == trueMeansZero {
				continue // not a zero test, or this path is the "is zero" side
			}
			if root == pubPrm {
				gotIn = true
			}
			if okOut && root == outRg.Root && kit.Precedes(mult, g.If) {
				gotOut = true
			}
		}
		if !gotIn {
			inOK = false
		}
		if !gotOut {
			outOK = false
		}
	}
	// X25519 maps the all-zero point to the all-zero secret, so the result test subsumes the input test
	inMsg := "every nil-error return is dominated by a test that the remote public key is not all-zero"
	if !inOK && outOK {
		inOK, inMsg = true, "an all-zero remote key yields an all-zero secret, which the result test rejects on every nil-error path"
	}
	r.Decide(inOK, "C03.R6", key+" zero remote key rejected", p.Pos(fn.Pos()),
		inMsg,
		"a nil-error return is reachable with an all-zero remote public key: the degenerate key is not refused")
	r.Decide(outOK, "C03.R6", key+" low-order result rejected", p.Pos(mult.Pos()),
		"every nil-error return is dominated by a test, after ScalarMult, that the shared secret is not all-zero",
		"a nil-error return is reachable with an all-zero shared secret: a low-order remote key (e.g. the point of order 8) yields a secret every observer knows")
}

// c03Scope: DeriveSessionKey and the repository functions it reaches through static calls.
func (cx *c03Ctx) deriveScope() map[*ssa.Function]bool {
	scope := map[*ssa.Function]bool{cx.derive: true}
	work := []*ssa.Function{cx.derive}
	for len(work) > 0 {
		f := work[len(work)-1]
		work = work[:len(work)-1]
		for _, fc := range kit.WithClosures(f) {
			for _, c := range kit.Calls(fc) {
				g := kit.CalleeOf(c).Static
				if g == nil || g.Blocks == nil || scope[g] || !kit.IsRepoPkg(kit.FuncPkgPath(g)) || len(scope) > 40 {
					continue
				}
				scope[g] = true
				work = append(work, g)
			}
		}
	}
	return scope
}

// c03Deps is a backward data-dependence closure inside a set of functions: operands of every
// instruction, the writers of local buffers (stores, copy, callees that receive the buffer),
// the arguments bound to a helper's parameters at its call sites in scope, and the returned
// values of helpers in scope.
type c03Deps struct {
	cx    *c03Ctx
	scope map[*ssa.Function]bool
	seen  map[ssa.Value]bool
}

func (d *c03Deps) walk(v ssa.Value) {
	if v == nil || d.seen[v] || len(d.seen) > 20000 {
		return
	}
	d.seen[v] = true
	switch x := v.(type) {
	case *ssa.Parameter:
		fn := x.Parent()
		if fn == d.cx.derive || !d.scope[fn] {
			return
		}
		pi := kit.ParamIndex(x)
		for _, site := range d.cx.p.StaticCallers(fn) {
			if d.scope[kit.TopLevel(site.Parent())] || d.scope[site.Parent()] {
				d.walk(kit.ArgAt(site, pi))
			}
		}
		return
	case *ssa.FreeVar:
		d.walk(c03FreeVarBinding(x))
		return
	case *ssa.Alloc:
		d.writers(x)
		return
	case *ssa.MakeSlice:
		d.writers(x)
	case *ssa.Call:
		if g := kit.CalleeOf(x).Static; g != nil && d.scope[g] {
			// a helper in scope: its result depends on what it returns; its parameters are
			// resolved through the call sites when (and only when) the returned values use them
			for _, ret := range kit.Returns(g) {
				for _, rv := range ret.Results {
					d.walk(rv)
				}
			}
			return
		}
	case *ssa.Const, *ssa.Global, *ssa.Function, *ssa.Builtin:
		return
	}
	if in, ok := v.(ssa.Instruction); ok {
		for _, op := range in.Operands(nil) {
			if *op != nil {
				d.walk(*op)
			}
		}
	}
}

// writers walks everything written into the buffer root (through derived slices/element addresses).
func (d *c03Deps) writers(root ssa.Value) {
	seen := map[ssa.Value]bool{}
	var rec func(a ssa.Value)
	rec = func(a ssa.Value) {
		if seen[a] || a.Referrers() == nil {
			return
		}
		seen[a] = true
		for _, r := range *a.Referrers() {
			switch x := r.(type) {
			case *ssa.Store:
				if x.Addr == a {
					d.walk(x.Val)
				}
			case *ssa.Slice:
				if x.X == a {
					rec(x)
				}
			case *ssa.IndexAddr:
				if x.X == a {
					rec(x)
				}
			case *ssa.FieldAddr:
				if x.X == a {
					rec(x)
				}
			case ssa.CallInstruction:
				cal := kit.CalleeOf(x)
				args := x.Common().Args
				if cal.Built == "copy" {
					if len(args) == 2 && args[0] == a {
						d.walk(args[1])
					}
					continue
				}
				if cal.Built == "len" || cal.Built == "cap" {
					continue
				}
				isArg := false
				for _, arg := range args {
					if arg == a {
						isArg = true
					}
				}
				if !isArg {
					continue
				}
				// the callee may write through the address: its other inputs flow into the buffer
				if g := cal.Static; g != nil && d.scope[g] {
					for i, arg := range args {
						if arg == a && !kit.WritesThroughParam(g, i) {
							isArg = false
						}
					}
					if !isArg {
						continue
					}
				}
				for _, arg := range args {
					if arg != a {
						d.walk(arg)
					}
				}
				if x.Common().IsInvoke() {
					d.walk(x.Common().Value)
				}
			}
		}
	}
	rec(root)
}

func (cx *c03Ctx) depsOf(scope map[*ssa.Function]bool, vals ...ssa.Value) map[ssa.Value]bool {
	d := &c03Deps{cx: cx, scope: scope, seen: map[ssa.Value]bool{}}
	for _, v := range vals {
		d.walk(v)
	}
	return d.seen
}

// c03ToDeriveParam follows v through conversions and helper parameters (all call sites in scope must
// agree) to a parameter of DeriveSessionKey. narrowed reports a truncating conversion on the way.
func (cx *c03Ctx) toDeriveParam(v ssa.Value, scope map[*ssa.Function]bool, depth int) (prm *ssa.Parameter, narrowed bool) {
	for i := 0; i < 8; i++ {
		if sp := kit.SpilledParam(v); sp != nil {
			v = sp
		}
		switch x := v.(type) {
		case *ssa.Convert:
			if from, to := c03IntBits(x.X.Type()), c03IntBits(x.Type()); from > 0 && to > 0 && to < from {
				narrowed = true
			}
			v = x.X
			continue
		case *ssa.ChangeType:
			v = x.X
			continue
		case *ssa.Parameter:
			if x.Parent() == cx.derive {
				return x, narrowed
			}
			if depth > 3 || !scope[x.Parent()] {
				return nil, narrowed
			}
			var res *ssa.Parameter
			for _, site := range cx.p.StaticCallers(x.Parent()) {
				q, n := cx.toDeriveParam(kit.ArgAt(site, kit.ParamIndex(x)), scope, depth+1)
				if q == nil || (res != nil && q != res) {
					return nil, narrowed
				}
				res, narrowed = q, narrowed || n
			}
			return res, narrowed
		}
		return nil, narrowed
	}
	return nil, narrowed
}

// ---------- exact salt accounting ----------

// c03EvalInt evaluates an integer SSA expression built from constants, + - *, len(), min/max and
// the result of copy() (= min(len(dst), len(src))).
func c03EvalInt(v ssa.Value, depth int) (int64, bool) {
	if v == nil || depth > 12 {
		return 0, false
	}
	if k, ok := kit.ConstInt(v); ok {
		return k, true
	}
	switch x := v.(type) {
	case *ssa.Convert:
		return c03EvalInt(x.X, depth+1)
	case *ssa.ChangeType:
		return c03EvalInt(x.X, depth+1)
	case *ssa.BinOp:
		a, ok1 := c03EvalInt(x.X, depth+1)
		b, ok2 := c03EvalInt(x.Y, depth+1)
		if !ok1 || !ok2 {
			return 0, false
		}
		switch x.Op {
		case token.ADD:
			return a + b, true
		case token.SUB:
			return a - b, true
		case token.MUL:
			return a * b, true
		}
		return 0, false
	case *ssa.Phi:
		var val int64
		for i, e := range x.Edges {
			k, ok := c03EvalInt(e, depth+1)
			if !ok || (i > 0 && k != val) {
				return 0, false
			}
			val = k
		}
		return val, len(x.Edges) > 0
	case *ssa.Call:
		cal := kit.CalleeOf(x)
		args := x.Call.Args
		switch cal.Built {
		case "len", "cap":
			if len(args) == 1 {
				if _, lo, hi, ok := c03BufRange(args[0], depth+1); ok {
					return hi - lo, true
				}
			}
		case "copy":
			if len(args) == 2 {
				_, dlo, dhi, ok1 := c03BufRange(args[0], depth+1)
				_, slo, shi, ok2 := c03BufRange(args[1], depth+1)
				if ok1 && ok2 {
					n := dhi - dlo
					if shi-slo < n {
						n = shi - slo
					}
					return n, true
				}
			}
		case "min", "max":
			var val int64
			for i, a := range args {
				k, ok := c03EvalInt(a, depth+1)
				if !ok {
					return 0, false
				}
				if i == 0 || (cal.Built == "min" && k < val) || (cal.Built == "max" && k > val) {
					val = k
				}
			}
			return val, len(args) > 0
		}
	}
	return 0, false
}

// c03BufRange resolves a slice / array-pointer value to (root buffer, lo, hi) with evaluated bounds.
// Roots: an array variable (Alloc), an array-pointer parameter, a make([]byte, n), a constant string.
func c03BufRange(v ssa.Value, depth int) (root ssa.Value, lo, hi int64, ok bool) {
	if v == nil || depth > 12 {
		return nil, 0, 0, false
	}
	arrLen := func(t types.Type) (int64, bool) {
		if pt, isP := t.Underlying().(*types.Pointer); isP {
			if arr, isA := pt.Elem().Underlying().(*types.Array); isA {
				return arr.Len(), true
			}
		}
		return 0, false
	}
	switch x := v.(type) {
	case *ssa.Slice:
		var blo, bhi int64
		if n, isArr := arrLen(x.X.Type()); isArr {
			root, blo, bhi = x.X, 0, n
		} else {
			var okb bool
			root, blo, bhi, okb = c03BufRange(x.X, depth+1)
			if !okb {
				return nil, 0, 0, false
			}
		}
		lo, hi = blo, bhi
		if x.Low != nil {
			k, okk := c03EvalInt(x.Low, depth+1)
			if !okk {
				return nil, 0, 0, false
			}
			lo = blo + k
		}
		if x.High != nil {
			k, okk := c03EvalInt(x.High, depth+1)
			if !okk {
				return nil, 0, 0, false
			}
			hi = blo + k
		}
		if lo < blo || hi < lo {
			return nil, 0, 0, false
		}
		return root, lo, hi, true
	case *ssa.MakeSlice:
		n, okn := c03EvalInt(x.Len, depth+1)
		if !okn {
			return nil, 0, 0, false
		}
		return x, 0, n, true
	case *ssa.Convert:
		if s, isS := kit.ConstString(x.X); isS {
			return x, 0, int64(len(s)), true
		}
	case *ssa.Const:
		if s, isS := kit.ConstString(x); isS {
			return x, 0, int64(len(s)), true
		}
		if x.Value == nil {
			return x, 0, 0, true // nil slice
		}
	}
	return nil, 0, 0, false
}

// c03Piece is a run of salt bytes taken from one DeriveSessionKey parameter (prm == nil: other content).
type c03Piece struct {
	prm    *ssa.Parameter
	lo, hi int64 // source byte range inside the parameter
}

// derivePrmOfBuffer maps a source buffer root (spill slot of a parameter, or a helper's array /
// array-pointer parameter bound at its call sites) to the DeriveSessionKey parameter it holds.
func (cx *c03Ctx) derivePrmOfBuffer(root ssa.Value, scope map[*ssa.Function]bool, depth int) *ssa.Parameter {
	if root == nil || depth > 4 {
		return nil
	}
	switch x := root.(type) {
	case *ssa.Alloc:
		if prm := kit.AllocOfParam(x); prm != nil {
			return cx.derivePrmOfBuffer(prm, scope, depth)
		}
	case *ssa.UnOp:
		if x.Op == token.MUL {
			return cx.derivePrmOfBuffer(x.X, scope, depth)
		}
	case *ssa.Parameter:
		if x.Parent() == cx.derive {
			return x
		}
		if !scope[x.Parent()] {
			return nil
		}
		var res *ssa.Parameter
		for _, site := range cx.p.StaticCallers(x.Parent()) {
			q := cx.derivePrmOfBuffer(kit.ArgAt(site, kit.ParamIndex(x)), scope, depth+1)
			if q == nil || (res != nil && q != res) {
				return nil
			}
			res = q
		}
		return res
	}
	return nil
}

// saltValue resolves the salt argument through helper parameters (single binding) and helper
// results (single return) to the value that is built locally.
func (cx *c03Ctx) saltValue(v ssa.Value, scope map[*ssa.Function]bool, depth int) ssa.Value {
	for i := 0; i < 8 && v != nil; i++ {
		switch x := v.(type) {
		case *ssa.Parameter:
			if x.Parent() == cx.derive || !scope[x.Parent()] {
				return v
			}
			sites := cx.p.StaticCallers(x.Parent())
			if len(sites) != 1 {
				return v
			}
			v = kit.ArgAt(sites[0], kit.ParamIndex(x))
			continue
		case *ssa.Call:
			g := kit.CalleeOf(x).Static
			if g == nil || !scope[g] {
				return v
			}
			var rets []*ssa.Return
			for _, ret := range kit.Returns(g) {
				if g.Recover == nil || ret.Block() != g.Recover {
					rets = append(rets, ret)
				}
			}
			if len(rets) != 1 {
				return v
			}
			v = kit.ReturnResult(rets[0], 0)
			continue
		}
		return v
	}
	return v
}

// saltPieces evaluates an append-built salt into its sequence of pieces.
func (cx *c03Ctx) saltPieces(v ssa.Value, scope map[*ssa.Function]bool, depth int) ([]c03Piece, bool) {
	if depth > 16 {
		return nil, false
	}
	v = cx.saltValue(v, scope, 0)
	if _, lo, hi, ok := c03BufRange(v, 0); ok && lo == hi {
		return nil, true // empty start: make([]byte, 0, n), nil, buf[:0]
	}
	c, isCall := v.(*ssa.Call)
	if !isCall {
		return nil, false
	}
	cal := kit.CalleeOf(c)
	switch {
	case cal.Built == "append" && len(c.Call.Args) == 2:
		base, ok := cx.saltPieces(c.Call.Args[0], scope, depth+1)
		if !ok {
			return nil, false
		}
		root, lo, hi, ok := c03BufRange(c.Call.Args[1], 0)
		if !ok {
			return nil, false
		}
		return append(base, c03Piece{cx.derivePrmOfBuffer(root, scope, 0), lo, hi}), true
	case cal.Pkg == "encoding/binary" && strings.HasPrefix(cal.Name, "AppendUint"):
		base, ok := cx.saltPieces(kit.Arg(c, 0), scope, depth+1)
		if !ok {
			return nil, false
		}
		w := map[string]int64{"AppendUint64": 8, "AppendUint32": 4, "AppendUint16": 2}[cal.Name]
		prm, narrowed := cx.toDeriveParam(kit.Arg(c, 1), scope, 0)
		if prm == nil || narrowed || w*8 < int64(c03IntBits(prm.Type())) {
			return append(base, c03Piece{nil, 0, w}), true
		}
		return append(base, c03Piece{prm, 0, w}), true
	}
	return nil, false
}

// saltCoverage decides, when the construction of the salt can be evaluated exactly, which bytes
// of the request identifier and of the two public keys are missing from the salt handed to
// hkdf.New. Two constructions are understood: a fixed buffer filled by PutUintN / copy at
// evaluable offsets (constants, + - *, len, the result of copy) in straight-line order, and a
// slice grown with append / AppendUintN. decided=false: neither applies.
func (cx *c03Ctx) saltCoverage(hk *ssa.Call, scope map[*ssa.Function]bool) (lost []string, model string, decided bool) {
	fn := cx.derive
	want := map[*ssa.Parameter]int64{fn.Params[1]: 8, fn.Params[2]: 32, fn.Params[3]: 32}
	names := map[*ssa.Parameter]string{fn.Params[1]: "the request identifier", fn.Params[2]: "initiatorPub", fn.Params[3]: "responderPub"}
	have := map[*ssa.Parameter]map[int64]bool{}
	mark := func(prm *ssa.Parameter, i int64) {
		if prm == nil {
			return
		}
		if have[prm] == nil {
			have[prm] = map[int64]bool{}
		}
		have[prm][i] = true
	}
	report := func() []string {
		var out []string
		for _, prm := range []*ssa.Parameter{fn.Params[1], fn.Params[2], fn.Params[3]} {
			first, n := int64(-1), int64(0)
			for i := int64(0); i < want[prm]; i++ {
				if !have[prm][i] {
					if first < 0 {
						first = i
					}
					n++
				}
			}
			if n > 0 {
				out = append(out, fmt.Sprintf("%d byte(s) of %s (from byte %d)", n, names[prm], first))
			}
		}
		return out
	}
	sv := cx.saltValue(hk.Call.Args[2], scope, 0)
	// (1) append-built salt
	if pieces, ok := cx.saltPieces(sv, scope, 0); ok && len(pieces) > 0 {
		for _, pc := range pieces {
			for i := pc.lo; i < pc.hi; i++ {
				mark(pc.prm, i)
			}
		}
		return report(), "built with append", true
	}
	// (2) fixed buffer
	root, argLo, argHi, ok := c03BufRange(sv, 0)
	if !ok {
		return nil, "", false
	}
	rootIn, isIn := root.(ssa.Instruction)
	if !isIn {
		return nil, "", false
	}
	bf := rootIn.Parent()
	type write struct {
		in     ssa.Instruction
		lo, hi int64
		prm    *ssa.Parameter
		slo    int64
	}
	var writes []write
	evaluable := true
	derived := map[ssa.Value]bool{root: true}
	changed := true
	for changed {
		changed = false
		kit.Instrs(bf, func(in ssa.Instruction) {
			v, isV := in.(ssa.Value)
			if !isV || derived[v] {
				return
			}
			switch x := in.(type) {
			case *ssa.Slice:
				if derived[x.X] {
					derived[v], changed = true, true
				}
			case *ssa.IndexAddr:
				if derived[x.X] {
					derived[v], changed = true, true
				}
			}
		})
	}
	kit.Instrs(bf, func(in ssa.Instruction) {
		switch x := in.(type) {
		case *ssa.Store:
			if !derived[x.Addr] {
				return
			}
			if ia, isIA := x.Addr.(*ssa.IndexAddr); isIA {
				if k, okk := c03EvalInt(ia.Index, 0); okk {
					if _, blo, _, okb := c03BufRange(ia.X, 0); okb || ia.X == root {
						writes = append(writes, write{in: in, lo: blo + k, hi: blo + k + 1})
						return
					}
				}
			}
			evaluable = false
		case ssa.CallInstruction:
			if in == ssa.Instruction(hk) {
				return
			}
			cal := kit.CalleeOf(x)
			args := x.Common().Args
			uses := false
			for _, a := range args {
				if derived[a] {
					uses = true
				}
			}
			if !uses {
				return
			}
			switch {
			case cal.Built == "copy" && len(args) == 2:
				if !derived[args[0]] {
					return // read
				}
				_, dlo, dhi, ok1 := c03BufRange(args[0], 0)
				sroot, slo, shi, ok2 := c03BufRange(args[1], 0)
				if !ok1 || !ok2 {
					evaluable = false
					return
				}
				n := dhi - dlo
				if shi-slo < n {
					n = shi - slo
				}
				writes = append(writes, write{in: in, lo: dlo, hi: dlo + n, prm: cx.derivePrmOfBuffer(sroot, scope, 0), slo: slo})
			case cal.Built == "len" || cal.Built == "cap":
			case cal.Built != "":
				evaluable = false
			case cal.Pkg == "encoding/binary" && strings.HasPrefix(cal.Name, "PutUint"):
				w := map[string]int64{"PutUint64": 8, "PutUint32": 4, "PutUint16": 2}[cal.Name]
				_, dlo, dhi, ok1 := c03BufRange(kit.Arg(x, 0), 0)
				if !ok1 || w == 0 || dhi-dlo < w {
					evaluable = false
					return
				}
				prm, narrowed := cx.toDeriveParam(kit.Arg(x, 1), scope, 0)
				if narrowed || (prm != nil && w*8 < int64(c03IntBits(prm.Type()))) {
					prm = nil
				}
				writes = append(writes, write{in: in, lo: dlo, hi: dlo + w, prm: prm})
			default:
				// another callee receives (part of) the buffer
				if g := cal.Static; g != nil && scope[g] {
					for i, a := range args {
						if derived[a] && kit.WritesThroughParam(g, i) {
							evaluable = false
						}
					}
					return
				}
				if cal.Pkg == "golang.org/x/crypto/hkdf" || c04ReaderName(cal.Name) {
					return
				}
				evaluable = false
			}
		}
	})
	if !evaluable || len(writes) == 0 {
		return nil, "", false
	}
	// program order: no write inside a loop, all writes totally ordered by dominance
	for _, w := range writes {
		if kit.CanReach(w.in, w.in) {
			return nil, "", false
		}
	}
	for i := range writes {
		for j := i + 1; j < len(writes); j++ {
			if !kit.Precedes(writes[i].in, writes[j].in) && !kit.Precedes(writes[j].in, writes[i].in) {
				return nil, "", false
			}
		}
	}
	sort.SliceStable(writes, func(i, j int) bool { return kit.Precedes(writes[i].in, writes[j].in) })
	type cell struct {
		prm *ssa.Parameter
		idx int64
	}
	content := map[int64]cell{}
	for _, w := range writes {
		for b := w.lo; b < w.hi; b++ {
			if w.prm != nil {
				content[b] = cell{w.prm, w.slo + (b - w.lo)}
			} else {
				content[b] = cell{}
			}
		}
	}
	for b := argLo; b < argHi; b++ {
		if c, okc := content[b]; okc {
			mark(c.prm, c.idx)
		}
	}
	return report(), fmt.Sprintf("a %d-byte buffer filled at evaluated offsets", argHi-argLo), true
}

func (cx *c03Ctx) checkDerive() {
	r, p := cx.r, cx.p
	fn := cx.derive
	key := kit.FuncName(fn)
	scope := cx.deriveScope()
	var hk *ssa.Call
	for f := range scope {
		for _, fc := range kit.WithClosures(f) {
			for _, c := range kit.Calls(fc) {
				if cal := kit.CalleeOf(c); cal.Pkg == "golang.org/x/crypto/hkdf" && cal.Name == "New" {
					if cv, ok := c.(*ssa.Call); ok && (hk == nil || cv.Pos() < hk.Pos()) {
						hk = cv
					}
				}
			}
		}
	}
	if !r.Require(hk != nil && len(hk.Call.Args) == 4, "anchor-unresolved: neither DeriveSessionKey nor a helper it calls uses hkdf.New") {
		return
	}
	r.Count("derive_helper_functions", len(scope)-1)
	sec := cx.depsOf(scope, hk.Call.Args[1])
	salt := cx.depsOf(scope, hk.Call.Args[2])
	info := cx.depsOf(scope, hk.Call.Args[3])
	names := []string{"sharedSecret", "request identifier", "initiatorPub", "responderPub"}
	r.Decide(sec[fn.Params[0]], "C03.R7", key+" secret is the HKDF input key", p.Pos(hk.Pos()),
		"the shared secret is the HKDF input keying material", "the shared secret does not reach hkdf.New as input keying material: the key does not depend on the key exchange")
	// the whole secret, not a prefix, is the input keying material (when the range can be evaluated)
	if root, lo, hi, ok := c03BufRange(cx.saltValue(hk.Call.Args[1], scope, 0), 0); ok {
		if cx.derivePrmOfBuffer(root, scope, 0) == fn.Params[0] {
			r.Decide(lo == 0 && hi >= 32, "C03.R7", key+" secret handed over in full", p.Pos(hk.Pos()),
				"all 32 bytes of the shared secret are the HKDF input keying material",
				fmt.Sprintf("only bytes %d..%d of the shared secret are handed to hkdf.New: the key depends on a fraction of the key exchange", lo, hi))
		}
	}
	for i := 1; i <= 3; i++ {
		ok := salt[fn.Params[i]] || sec[fn.Params[i]] || info[fn.Params[i]]
		r.Decide(ok, "C03.R7", fmt.Sprintf("%s %s bound", key, names[i]), p.Pos(hk.Pos()),
			names[i]+" flows into the HKDF salt",
			names[i]+" does not flow into hkdf.New: tunnels that differ only in it derive the same key")
	}
	role := fn.Params[4]
	r.Decide(!sec[role] && !salt[role] && !info[role], "C03.R7", key+" role not in key", p.Pos(hk.Pos()),
		"the role flag does not influence the key bytes", "the role flag flows into hkdf.New: initiator and responder derive different keys")

	// the identifier enters the salt in full width; buffers assembled at constant offsets have disjoint fields
	type wr struct {
		lo, hi int64
		what   string
	}
	byRoot := map[ssa.Value][]wr{}
	undecidable := map[ssa.Value]bool{}
	idChecked := false
	for f := range scope {
		for _, c := range kit.Calls(f) {
			cal := kit.CalleeOf(c)
			var dst, src ssa.Value
			width := int64(-1)
			switch {
			case cal.Built == "copy":
				dst, src = c.Common().Args[0], c.Common().Args[1]
				if sr, ok := kit.AddrRange(src); ok {
					if a, isA := sr.Root.(*ssa.Alloc); isA {
						if arr, isArr := a.Type().Underlying().(*types.Pointer).Elem().Underlying().(*types.Array); isArr && sr.Hi < 0 {
							width = arr.Len() - sr.Lo
						}
					}
					if prm, isP := sr.Root.(*ssa.Parameter); isP && sr.Hi < 0 {
						if pt, isPtr := prm.Type().Underlying().(*types.Pointer); isPtr {
							if arr, isArr := pt.Elem().Underlying().(*types.Array); isArr {
								width = arr.Len() - sr.Lo
							}
						}
					}
					if sr.Hi >= 0 {
						width = sr.Hi - sr.Lo
					}
				}
			case cal.Pkg == "encoding/binary" && (strings.HasPrefix(cal.Name, "PutUint") || strings.HasPrefix(cal.Name, "AppendUint")):
				switch strings.TrimPrefix(strings.TrimPrefix(cal.Name, "Put"), "Append") {
				case "Uint64":
					width = 8
				case "Uint32":
					width = 4
				case "Uint16":
					width = 2
				}
				if prm, narrowed := cx.toDeriveParam(kit.Arg(c, 1), scope, 0); prm == fn.Params[1] && salt[kit.Arg(c, 1)] {
					idChecked = true
					full := !narrowed && width*8 >= int64(c03IntBits(fn.Params[1].Type()))
					r.Decide(full, "C03.R7", key+" identifier in full width", p.Pos(c.Pos()),
						"the request identifier is written into the salt without truncation",
						"the request identifier is truncated before it enters the salt: tunnels whose identifiers differ only in the dropped bits derive the same key")
				}
				if strings.HasPrefix(cal.Name, "Append") {
					continue // appended fields follow each other: disjoint by construction
				}
				dst = kit.Arg(c, 0)
			default:
				continue
			}
			dr, ok := kit.AddrRange(dst)
			if !ok {
				continue
			}
			if !salt[dr.Root] {
				continue // not a buffer that reaches the salt
			}
			if width < 0 {
				undecidable[dr.Root] = true
				continue
			}
			hi := dr.Lo + width
			if dr.Hi >= 0 && dr.Hi < hi {
				hi = dr.Hi
			}
			byRoot[dr.Root] = append(byRoot[dr.Root], wr{dr.Lo, hi, cal.String()})
		}
	}
	_ = idChecked
	// exact byte accounting of the salt, when its construction can be evaluated
	if lost, model, decided := cx.saltCoverage(hk, scope); decided {
		r.Decide(len(lost) == 0, "C03.R7", key+" salt carries every input byte", p.Pos(hk.Pos()),
			"every byte of the request identifier and of both public keys is present in the salt handed to hkdf.New ("+model+")",
			"the salt handed to hkdf.New ("+model+") does not contain "+strings.Join(lost, ", ")+": tunnels that differ only in those bytes derive the same key")
		return
	}
	nLayout := 0
	for root, ws := range byRoot {
		if undecidable[root] {
			continue
		}
		nLayout++
		disjoint := true
		for i := range ws {
			for j := i + 1; j < len(ws); j++ {
				if ws[i].lo < ws[j].hi && ws[j].lo < ws[i].hi {
					disjoint = false
				}
			}
		}
		k := key + " salt fields disjoint"
		if nLayout > 1 {
			k = fmt.Sprintf("%s #%d", k, nLayout)
		}
		r.Decide(disjoint, "C03.R7", k, p.Pos(root.Pos()),
			fmt.Sprintf("%d salt fields occupy pairwise disjoint byte ranges", len(ws)),
			"two salt fields overlap: one overwrites the other, so tunnels differing only in the overwritten field derive the same key")
	}
	if nLayout == 0 {
		r.Infof("C03.R7", key+" salt layout", p.Pos(hk.Pos()), "the salt is not assembled at constant offsets (appended fields are disjoint by construction); layout not evaluated")
	}
}

// ---------------------------------------------------------------------------------------
// Part 5: run.
// ---------------------------------------------------------------------------------------

func runC03(p *kit.Program, r *kit.Report) {
	r.Rule("C03.R1", "the role argument of every DeriveSessionKey call is a constant")
	r.Rule("C03.R2", "key order matches the role: the slot of this end holds result #1 of GenerateEphemeralKeypair, the other slot holds the peer's key decoded from the open (responder) / ack (initiator) message")
	r.Rule("C03.R3", "the secret is result #0 of ComputeECDH(own private key of the same key generation, the same remote key), used only on its err==nil edge, and neither key nor secret is zeroed before use")
	r.Rule("C03.R4", "request-id agreement: the responder uses the RequestID decoded from the open message; the initiator uses the RequestID it wrote into the open message carrying this key pair, or the one echoed in the ack")
	r.Rule("C03.R5", "keys and identifiers travel unchanged: every open/ack message literal carries either a freshly generated local key or, when relayed, the received message's own RequestID and EphemeralPubKey; each site's public key is written into such a message")
	r.Rule("C03.R6", "ComputeECDH returns a nil error only after rejecting an all-zero remote key and an all-zero (low-order) result, or propagates the error of curve25519.X25519")
	r.Rule("C03.R7", "DeriveSessionKey feeds the secret, the identifier and both public keys (disjoint salt ranges) into hkdf.New; the role flag does not influence the key")
	cx := newC03Ctx(p, r)
	if cx == nil {
		return
	}
	var sites []*c03Site
	ord := map[*ssa.Function]int{}
	nECDH, nECDHOther := 0, 0
	ecdhUsed := map[ssa.CallInstruction]bool{}
	for _, fn := range p.RepoFuncs() {
		for _, c := range kit.Calls(fn) {
			cal := kit.CalleeOf(c)
			if cal.Static == cx.ecdh && cal.Static != nil {
				nECDH++
			}
			if cal.Static == nil || cal.Static != cx.derive {
				continue
			}
			cv, isCall := c.(*ssa.Call)
			if !isCall || len(cv.Call.Args) != 5 {
				r.Violation("C03.R1", kit.FuncName(fn)+" DeriveSessionKey via go/defer", p.Pos(c.Pos()), "DeriveSessionKey is started with go/defer: its key is discarded")
				continue
			}
			ord[fn]++
			s := &c03Site{call: cv, fn: fn, key: fmt.Sprintf("%s DeriveSessionKey #%d", kit.FuncName(fn), ord[fn]),
				gens: map[ssa.CallInstruction]bool{}, fails: map[string][]string{}}
			cx.evalSite(s)
			sites = append(sites, s)
			for _, o := range cx.trace(cv.Call.Args[0], nil, nil) {
				if o.Kind == "ecdh" {
					ecdhUsed[o.Call] = true
				}
			}
		}
	}
	// dynamic uses of the two functions (function values) escape the table: refuse to judge
	for _, fn := range p.RepoFuncs() {
		kit.Instrs(fn, func(in ssa.Instruction) {
			for _, op := range in.Operands(nil) {
				if *op == ssa.Value(cx.derive) || *op == ssa.Value(cx.ecdh) {
					if c, ok := in.(ssa.CallInstruction); ok && c.Common().Value == *op {
						continue
					}
					r.Violation("C03.R1", kit.FuncName(fn)+" function value of "+(*op).Name(), p.Pos(in.Pos()),
						"DeriveSessionKey/ComputeECDH is used as a function value: its call sites cannot be enumerated, role and argument order are unchecked")
				}
			}
		})
	}
	nInit, nResp := 0, 0
	for _, s := range sites {
		pos := p.Pos(s.call.Pos())
		if s.roleKnown {
			if s.initiator {
				nInit++
			} else {
				nResp++
			}
		}
		role := "responder"
		if s.initiator {
			role = "initiator"
		}
		for _, rule := range []string{"C03.R1", "C03.R2", "C03.R3", "C03.R4"} {
			if msgs := s.fails[rule]; len(msgs) > 0 {
				r.Violation(rule, s.key, pos, "%s", strings.Join(msgs, "; "))
			} else if s.roleKnown || rule == "C03.R1" {
				r.OK(rule, s.key, pos, "%s site conforms", role)
			}
		}
	}
	nECDHOther = nECDH - len(ecdhUsed)
	r.Count("derive_call_sites", len(sites))
	r.Count("initiator_sites", nInit)
	r.Count("responder_sites", nResp)
	r.Count("ecdh_call_sites", nECDH)
	r.Count("ecdh_call_sites_not_feeding_session_keys", nECDHOther)
	r.Require(nInit >= 1, "floor: no initiator DeriveSessionKey call site found")
	r.Require(nResp >= 1, "floor: no responder DeriveSessionKey call site found")
	cx.checkTransport(sites)
	cx.checkECDH()
	cx.checkDerive()
}
