// Package rules holds one file per property (cNN.go). Each registers a Check.
package rules

import (
	"sort"

	"mmverify/kit"
)

// Check is one property's rule set.
type Check struct {
	ID        string
	Level     string   // evidence level: "other" or "proof"
	Patterns  []string // packages to load ("" => default: everything under internal/ and cmd/muti-metroo)
	Explain   string   // what is decided, in one paragraph
	Technique string   // a few words naming the deciding method
	Note      string   // trusted base / assumptions for the level
	Section   string   // DESIGN.md section
	Run       func(p *kit.Program, r *kit.Report)
	// Thorough, when non-nil, is run in addition in the thorough tier (after Run).
	Thorough func(p *kit.Program, r *kit.Report)
	// OtherGOOS lists additional GOOS values analysed in the thorough tier with RunGOOS.
	OtherGOOS []string
	RunGOOS   func(p *kit.Program, r *kit.Report, goos string)
	// SelfTests are checker self-tests run in the thorough tier: source variants applied
	// through the loader's overlay (nothing is written to disk, /repo is not copied).
	SelfTests []SelfTest
}

// Edit is one textual substitution in a repository file (path relative to the repo root).
// Old must occur exactly once in the file, otherwise the variant is skipped (it tests the
// checker, not the repository).
type Edit struct {
	File     string
	Old, New string
}

// SelfTest is a variant of the source that must (Mutant) make the named rule report a
// violation, or (Rewrite: ExpectRule == "") must leave the check silent.
type SelfTest struct {
	Name       string
	Edits      []Edit
	ExpectRule string // e.g. "C01.R1"; "" = behaviour-preserving rewrite, must stay silent
	ExpectKey  string // optional substring of the violated obligation's key
}

var registry = map[string]*Check{}

func register(c *Check) { registry[c.ID] = c }

// Get returns the check for a property id.
func Get(id string) *Check { return registry[id] }

// IDs lists registered property ids.
func IDs() []string {
	var out []string
	for k := range registry {
		out = append(out, k)
	}
	sort.Strings(out)
	return out
}

// NotApplicable gives, for properties without a registered check, the reason.
var NotApplicable = map[string]string{}
