package rules

// Shared model of internal/routing used by C08, C09 and C10 (one owner: group g3).
// Everything is resolved by role: route types by their exported fields, table types by
// "has a map[K][]*Route field", bucket writes / sorts by instruction shape.

import (
	"fmt"
	"go/token"
	"go/types"
	"sort"
	"strings"

	"golang.org/x/tools/go/ssa"

	"mmverify/kit"
)

const c08Pkg = "internal/routing"

func init() {
	const f = "internal/routing/table.go"
	register(&Check{
		ID: "C08", Level: "other", Patterns: []string{"./internal/routing"},
		Technique: "invariant maintenance over bucket writes, comparator and lookup truth tables (abstract CFG walk)",
		Explain:   "Decides the invariants the CIDR lookup relies on: every write that lets a metric enter a Table bucket is followed, on every path and under the same lock, by a sort of that bucket, every other bucket write is an order-preserving removal, the sort comparator puts lower metrics first, and one iteration of the lookup scan considers a bucket only when its network contains the address, takes the bucket head, and replaces the best candidate exactly when the prefix is longer or equally long with a lower metric (truth table over the orderings of prefix length and metric); nil is returned only when no candidate was found, and Manager.Lookup returns that result unmodified. Equivalence with a reference model over histories and the numeric meaning of prefix lengths of IPv4-mapped IPv6 networks are not decided.",
		Run:       runC08,
		SelfTests: []SelfTest{
			{Name: "sortRoutes dropped after an update", ExpectRule: "C08.R1", ExpectKey: "AddRoute bucket replace", Edits: []Edit{
				{File: f, Old: "\t\t\t\tt.routes[key][i] = cloned\n\t\t\t\tt.sortRoutes(key)\n", New: "\t\t\t\tt.routes[key][i] = cloned\n"},
			}},
			{Name: "sortRoutes dropped after an insertion", ExpectRule: "C08.R1", ExpectKey: "AddRoute bucket insert", Edits: []Edit{
				{File: f, Old: "\tt.routes[key] = append(t.routes[key], cloned)\n\tt.sortRoutes(key)\n", New: "\tt.routes[key] = append(t.routes[key], cloned)\n"},
			}},
			{Name: "sort before the insertion instead of after", ExpectRule: "C08.R1", ExpectKey: "AddRoute bucket insert", Edits: []Edit{
				{File: f, Old: "\tt.routes[key] = append(t.routes[key], cloned)\n\tt.sortRoutes(key)\n", New: "\tt.sortRoutes(key)\n\tt.routes[key] = append(t.routes[key], cloned)\n"},
			}},
			{Name: "in-place metric update without sort", ExpectRule: "C08.R1", ExpectKey: "AddRoute bucket inplace", Edits: []Edit{
				{File: f, Old: "\t\t\t\tcloned := route.Clone()\n\t\t\t\tcloned.LastUpdate = now\n\t\t\t\tt.routes[key][i] = cloned\n\t\t\t\tt.sortRoutes(key)\n", New: "\t\t\t\texisting[i].Metric, r.Sequence, r.NextHop, r.LastUpdate = route.Metric, route.Sequence, route.NextHop, now\n"},
			}},
			{Name: "removal re-orders the bucket (swap with last)", ExpectRule: "C08.R1", ExpectKey: "RemoveRoute bucket replace", Edits: []Edit{
				{File: f, Old: "\t\t\tt.routes[key] = append(routes[:i], routes[i+1:]...)\n", New: "\t\t\troutes[i] = routes[len(routes)-1]\n\t\t\tt.routes[key] = routes[:len(routes)-1]\n"},
			}},
			{Name: "comparator descending", ExpectRule: "C08.R2", Edits: []Edit{
				{File: f, Old: "\t\treturn routes[i].Metric < routes[j].Metric\n\t})\n}", New: "\t\treturn routes[i].Metric > routes[j].Metric\n\t})\n}"},
			}},
			{Name: "comparator on sequence", ExpectRule: "C08.R2", Edits: []Edit{
				{File: f, Old: "\t\treturn routes[i].Metric < routes[j].Metric\n\t})\n}", New: "\t\treturn routes[i].Sequence < routes[j].Sequence\n\t})\n}"},
			}},
			{Name: ">= instead of > in the prefix comparison", ExpectRule: "C08.R3", ExpectKey: "replace table", Edits: []Edit{
				{File: f, Old: "\t\tif ones > bestPrefixLen ||\n\t\t\t(ones == bestPrefixLen && first.Metric < bestRoute.Metric) {", New: "\t\tif ones >= bestPrefixLen {"},
			}},
			{Name: "equal prefix length not decided by metric", ExpectRule: "C08.R3", ExpectKey: "replace table", Edits: []Edit{
				{File: f, Old: "\t\tif ones > bestPrefixLen ||\n\t\t\t(ones == bestPrefixLen && first.Metric < bestRoute.Metric) {", New: "\t\tif ones > bestPrefixLen {"},
			}},
			{Name: "<= in the metric tie-break", ExpectRule: "C08.R3", ExpectKey: "replace table", Edits: []Edit{
				{File: f, Old: "first.Metric < bestRoute.Metric) {", New: "first.Metric > bestRoute.Metric) {"},
			}},
			{Name: "shortest prefix wins", ExpectRule: "C08.R3", ExpectKey: "replace table", Edits: []Edit{
				{File: f, Old: "\t\tif ones > bestPrefixLen ||", New: "\t\tif ones < bestPrefixLen || bestRoute == nil ||"},
			}},
			{Name: "best prefix initialised at 0 (default route never matches)", ExpectRule: "C08.R3", ExpectKey: "replace table", Edits: []Edit{
				{File: f, Old: "\tvar bestPrefixLen int = -1\n", New: "\tvar bestPrefixLen int = 0\n"},
			}},
			{Name: "containment test dropped", ExpectRule: "C08.R3", ExpectKey: "containment", Edits: []Edit{
				{File: f, Old: "\t\tfirst := routes[0]\n\t\tif !first.Network.Contains(ip) {\n\t\t\tcontinue\n\t\t}\n\n\t\t// Calculate prefix length.", New: "\t\tfirst := routes[0]\n\n\t\t// Calculate prefix length."},
			}},
			{Name: "containment polarity inverted", ExpectRule: "C08.R3", Edits: []Edit{
				{File: f, Old: "\t\tif !first.Network.Contains(ip) {\n\t\t\tcontinue\n\t\t}\n\n\t\t// Calculate prefix length.", New: "\t\tif first.Network.Contains(ip) {\n\t\t\tcontinue\n\t\t}\n\n\t\t// Calculate prefix length."},
			}},
			{Name: "candidate is the last element of the bucket", ExpectRule: "C08.R3", ExpectKey: "bucket head", Edits: []Edit{
				{File: f, Old: "\t\tfirst := routes[0]\n\t\tif !first.Network.Contains(ip) {\n\t\t\tcontinue\n\t\t}\n\n\t\t// Calculate prefix length.", New: "\t\tfirst := routes[len(routes)-1]\n\t\tif !first.Network.Contains(ip) {\n\t\t\tcontinue\n\t\t}\n\n\t\t// Calculate prefix length."},
			}},
			{Name: "first match returned", ExpectRule: "C08.R3", Edits: []Edit{
				{File: f, Old: "\t\t\tbestPrefixLen = ones\n\t\t\tbestRoute = first // First is best due to sorting by metric\n", New: "\t\t\treturn first.Clone()\n"},
			}},
			{Name: "best prefix length not recorded", ExpectRule: "C08.R3", ExpectKey: "replace table", Edits: []Edit{
				{File: f, Old: "\t\t\tbestPrefixLen = ones\n\t\t\tbestRoute = first // First is best due to sorting by metric\n", New: "\t\t\tbestRoute = first\n"},
			}},
			{Name: "Manager.Lookup post-filters the result", ExpectRule: "C08.R4", Edits: []Edit{
				{File: "internal/routing/manager.go", Old: "func (m *Manager) Lookup(ip net.IP) *Route {\n\treturn m.table.Lookup(ip)\n}", New: "func (m *Manager) Lookup(ip net.IP) *Route {\n\tr := m.table.Lookup(ip)\n\tif r != nil && r.Metric > 16 {\n\t\treturn nil\n\t}\n\treturn r\n}"},
			}},
			{Name: "Table.Lookup scans without the lock", ExpectRule: "C08.R4", Edits: []Edit{
				{File: f, Old: "func (t *Table) Lookup(ip net.IP) *Route {\n\tt.mu.RLock()\n\tdefer t.mu.RUnlock()\n\n\treturn t.lookupUnlocked(ip)\n}", New: "func (t *Table) Lookup(ip net.IP) *Route {\n\treturn t.lookupUnlocked(ip)\n}"},
			}},
			{Name: "round2: host-route fast path in front of the scan", ExpectRule: "C08.R3", ExpectKey: "every result comes out of the scan", Edits: []Edit{
				{File: f, Old: "func (t *Table) lookupUnlocked(ip net.IP) *Route {\n\tvar bestRoute *Route\n", New: "func (t *Table) lookupUnlocked(ip net.IP) *Route {\n\tif routes := t.routes[ip.String()+\"/32\"]; len(routes) > 0 {\n\t\treturn routes[0].Clone()\n\t}\n\tvar bestRoute *Route\n"},
			}},
			{Name: "round2: negative cache in front of the scan", ExpectRule: "C08.R3", ExpectKey: "every result comes out of the scan", Edits: []Edit{
				{File: f, Old: "func (t *Table) lookupUnlocked(ip net.IP) *Route {\n\tvar bestRoute *Route\n", New: "func (t *Table) lookupUnlocked(ip net.IP) *Route {\n\tif _, miss := lookupMiss.Load(ip.String()); miss {\n\t\treturn nil\n\t}\n\tvar bestRoute *Route\n"},
				{File: f, Old: "// lookupUnlocked performs lookup without locking (caller must hold lock).\nfunc (t *Table) lookupUnlocked", New: "var lookupMiss sync.Map\n\n// lookupUnlocked performs lookup without locking (caller must hold lock).\nfunc (t *Table) lookupUnlocked"},
			}},
			{Name: "round2: IPv6 addresses rejected before the scan", ExpectRule: "C08.R3", ExpectKey: "every result comes out of the scan", Edits: []Edit{
				{File: f, Old: "func (t *Table) lookupUnlocked(ip net.IP) *Route {\n\tvar bestRoute *Route\n", New: "func (t *Table) lookupUnlocked(ip net.IP) *Route {\n\tif ip.To4() == nil {\n\t\treturn nil\n\t}\n\tvar bestRoute *Route\n"},
			}},
			{Name: "round2: result cache in Table.Lookup", ExpectRule: "C08.R4", Edits: []Edit{
				{File: f, Old: "\tdefer t.mu.RUnlock()\n\n\treturn t.lookupUnlocked(ip)\n}", New: "\tdefer t.mu.RUnlock()\n\n\tif r, ok := lookupHot.Load(ip.String()); ok {\n\t\treturn r.(*Route).Clone()\n\t}\n\tr := t.lookupUnlocked(ip)\n\tif r != nil {\n\t\tlookupHot.Store(ip.String(), r)\n\t}\n\treturn r\n}"},
				{File: f, Old: "// lookupUnlocked performs lookup without locking (caller must hold lock).\nfunc (t *Table) lookupUnlocked", New: "var lookupHot sync.Map\n\n// lookupUnlocked performs lookup without locking (caller must hold lock).\nfunc (t *Table) lookupUnlocked"},
			}},
			{Name: "round2: scan stops once a /32 or longer was found", ExpectRule: "C08.R3", Edits: []Edit{
				{File: f, Old: "\t\t\tbestRoute = first // First is best due to sorting by metric\n\t\t}\n", New: "\t\t\tbestRoute = first // First is best due to sorting by metric\n\t\t}\n\t\tif bestPrefixLen >= 32 {\n\t\t\tbreak\n\t\t}\n"},
			}},
			{Name: "round2: re-sort only when the updated entry can move ahead", ExpectRule: "C08.R1", ExpectKey: "AddRoute bucket replace", Edits: []Edit{
				{File: f, Old: "\t\t\t\tt.routes[key][i] = cloned\n\t\t\t\tt.sortRoutes(key)\n", New: "\t\t\t\tt.routes[key][i] = cloned\n\t\t\t\tif i > 0 && cloned.Metric < existing[i-1].Metric {\n\t\t\t\t\tt.sortRoutes(key)\n\t\t\t\t}\n"},
			}},
			{Name: "round2 rewrite: nil/empty guards in front of the scan and in Lookup", Edits: []Edit{
				{File: f, Old: "func (t *Table) lookupUnlocked(ip net.IP) *Route {\n\tvar bestRoute *Route\n", New: "func (t *Table) lookupUnlocked(ip net.IP) *Route {\n\tif ip == nil || len(t.routes) == 0 {\n\t\treturn nil\n\t}\n\tvar bestRoute *Route\n"},
				{File: f, Old: "func (t *Table) Lookup(ip net.IP) *Route {\n\tt.mu.RLock()", New: "func (t *Table) Lookup(ip net.IP) *Route {\n\tif len(ip) == 0 {\n\t\treturn nil\n\t}\n\tt.mu.RLock()"},
			}},
			{Name: "round3 rewrite: replace decision extracted into a switch-form predicate helper", Edits: []Edit{
				{File: f, Old: "\t\tif ones > bestPrefixLen ||\n\t\t\t(ones == bestPrefixLen && first.Metric < bestRoute.Metric) {\n", New: "\t\tif betterCandidate(ones, bestPrefixLen, first, bestRoute) {\n"},
				{File: f, Old: "// lookupUnlocked performs lookup without locking (caller must hold lock).\nfunc (t *Table) lookupUnlocked", New: "func betterCandidate(ones, bestLen int, cand, best *Route) bool {\n\tswitch {\n\tcase ones > bestLen:\n\t\treturn true\n\tcase ones < bestLen:\n\t\treturn false\n\t}\n\treturn best != nil && cand.Metric < best.Metric\n}\n\n// lookupUnlocked performs lookup without locking (caller must hold lock).\nfunc (t *Table) lookupUnlocked"},
			}},
			{Name: "round3: extracted replace predicate accepts an equal prefix length", ExpectRule: "C08.R3", ExpectKey: "replace table", Edits: []Edit{
				{File: f, Old: "\t\tif ones > bestPrefixLen ||\n\t\t\t(ones == bestPrefixLen && first.Metric < bestRoute.Metric) {\n", New: "\t\tif betterCandidate(ones, bestPrefixLen, first, bestRoute) {\n"},
				{File: f, Old: "// lookupUnlocked performs lookup without locking (caller must hold lock).\nfunc (t *Table) lookupUnlocked", New: "func betterCandidate(ones, bestLen int, cand, best *Route) bool {\n\tswitch {\n\tcase ones >= bestLen:\n\t\treturn true\n\tcase ones < bestLen:\n\t\treturn false\n\t}\n\treturn best != nil && cand.Metric < best.Metric\n}\n\n// lookupUnlocked performs lookup without locking (caller must hold lock).\nfunc (t *Table) lookupUnlocked"},
			}},
			{Name: "round3b rewrite: bucketHead/prefixLen helpers, negated guards, explicit-unlock wrapper (C08/b shape)", Edits: []Edit{
				{File: f, Old: "// Lookup finds the best route for an IP address using longest-prefix match.\nfunc (t *Table) Lookup(ip net.IP) *Route {\n\tt.mu.RLock()\n\tdefer t.mu.RUnlock()\n\n\treturn t.lookupUnlocked(ip)\n}\n\n// lookupUnlocked performs lookup without locking (caller must hold lock).\nfunc (t *Table) lookupUnlocked(ip net.IP) *Route {\n\tvar bestRoute *Route\n\tvar bestPrefixLen int = -1\n\n\t// Normalize IP to 16-byte form\n\tip = ip.To16()\n\n\tfor _, routes := range t.routes {\n\t\tif len(routes) == 0 {\n\t\t\tcontinue\n\t\t}\n\n\t\t// Check if IP is in this network\n\t\tfirst := routes[0]\n\t\tif !first.Network.Contains(ip) {\n\t\t\tcontinue\n\t\t}\n\n\t\t// Calculate prefix length. Two buckets can hold the same network under\n\t\t// different keys (e.g. a prefix advertised with host bits set), so an\n\t\t// equal prefix length is decided by the lower metric.\n\t\tones, _ := first.Network.Mask.Size()\n\t\tif ones > bestPrefixLen ||\n\t\t\t(ones == bestPrefixLen && first.Metric < bestRoute.Metric) {\n\t\t\tbestPrefixLen = ones\n\t\t\tbestRoute = first // First is best due to sorting by metric\n\t\t}\n\t}\n\n\tif bestRoute != nil {\n\t\treturn bestRoute.Clone()\n\t}\n\treturn nil\n}\n\n// LookupAll returns all routes for an IP address, sorted by prefix length then metric.\nfunc (t *Table) LookupAll(ip net.IP) []*Route {\n\tt.mu.RLock()\n\tdefer t.mu.RUnlock()\n\n\tip = ip.To16()\n\tvar matches []*Route\n\n\tfor _, routes := range t.routes {\n\t\tif len(routes) == 0 {\n\t\t\tcontinue\n\t\t}\n\n\t\tfirst := routes[0]\n\t\tif !first.Network.Contains(ip) {\n\t\t\tcontinue\n\t\t}\n\n\t\t// Add best route from each matching prefix\n\t\tmatches = append(matches, first.Clone())\n\t}\n\n\t// Sort by prefix length (longest first), then by metric\n\tsort.Slice(matches, func(i, j int) bool {\n\t\tonesI, _ := matches[i].Network.Mask.Size()\n\t\tonesJ, _ := matches[j].Network.Mask.Size()\n\t\tif onesI != onesJ {\n\t\t\treturn onesI > onesJ\n\t\t}\n\t\treturn matches[i].Metric < matches[j].Metric\n\t})\n\n\treturn matches\n}\n", New: "// Lookup finds the best route for an IP address using longest-prefix match.\nfunc (t *Table) Lookup(ip net.IP) *Route {\n\tt.mu.RLock()\n\tbest := t.bestMatchLocked(ip)\n\tif best == nil {\n\t\tt.mu.RUnlock()\n\t\treturn nil\n\t}\n\tresult := best.Clone()\n\tt.mu.RUnlock()\n\treturn result\n}\n\n// bestMatchLocked performs the longest-prefix match without locking (caller\n// must hold lock). The returned route is the stored entry, not a copy.\nfunc (t *Table) bestMatchLocked(ip net.IP) *Route {\n\t// Normalize IP to 16-byte form\n\tip = ip.To16()\n\n\tvar best *Route\n\tbestLen := -1\n\n\tfor _, routes := range t.routes {\n\t\thead := bucketHead(routes, ip)\n\t\tif head == nil {\n\t\t\tcontinue\n\t\t}\n\n\t\t// Two buckets can hold the same network under different keys (e.g. a\n\t\t// prefix advertised with host bits set), so an equal prefix length is\n\t\t// decided by the lower metric.\n\t\tones := prefixLen(head)\n\t\tif ones < bestLen {\n\t\t\tcontinue\n\t\t}\n\t\tif ones == bestLen && best.Metric <= head.Metric {\n\t\t\tcontinue\n\t\t}\n\t\tbest, bestLen = head, ones\n\t}\n\n\treturn best\n}\n\n// bucketHead returns the best route of a per-prefix bucket if the bucket's\n// network contains ip, and nil otherwise. The first route is the best one\n// because buckets are kept sorted by metric.\nfunc bucketHead(routes []*Route, ip net.IP) *Route {\n\tif len(routes) == 0 {\n\t\treturn nil\n\t}\n\tif first := routes[0]; first.Network.Contains(ip) {\n\t\treturn first\n\t}\n\treturn nil\n}\n\n// prefixLen returns the number of leading one bits in the route's netmask.\nfunc prefixLen(r *Route) int {\n\tones, _ := r.Network.Mask.Size()\n\treturn ones\n}\n\n// LookupAll returns all routes for an IP address, sorted by prefix length then metric.\nfunc (t *Table) LookupAll(ip net.IP) []*Route {\n\tt.mu.RLock()\n\tdefer t.mu.RUnlock()\n\n\tip = ip.To16()\n\tvar matches []*Route\n\n\tfor _, routes := range t.routes {\n\t\t// Add best route from each matching prefix\n\t\tif head := bucketHead(routes, ip); head != nil {\n\t\t\tmatches = append(matches, head.Clone())\n\t\t}\n\t}\n\n\t// Sort by prefix length (longest first), then by metric\n\tsort.Slice(matches, func(i, j int) bool {\n\t\tonesI, onesJ := prefixLen(matches[i]), prefixLen(matches[j])\n\t\tif onesI != onesJ {\n\t\t\treturn onesI > onesJ\n\t\t}\n\t\treturn matches[i].Metric < matches[j].Metric\n\t})\n\n\treturn matches\n}\n"},
			}},
			{Name: "round3b rewrite: positive merged condition, nil test, outranks helper (C08/c shape)", Edits: []Edit{
				{File: f, Old: "// Lookup finds the best route for an IP address using longest-prefix match.\nfunc (t *Table) Lookup(ip net.IP) *Route {\n\tt.mu.RLock()\n\tdefer t.mu.RUnlock()\n\n\treturn t.lookupUnlocked(ip)\n}\n\n// lookupUnlocked performs lookup without locking (caller must hold lock).\nfunc (t *Table) lookupUnlocked(ip net.IP) *Route {\n\tvar bestRoute *Route\n\tvar bestPrefixLen int = -1\n\n\t// Normalize IP to 16-byte form\n\tip = ip.To16()\n\n\tfor _, routes := range t.routes {\n\t\tif len(routes) == 0 {\n\t\t\tcontinue\n\t\t}\n\n\t\t// Check if IP is in this network\n\t\tfirst := routes[0]\n\t\tif !first.Network.Contains(ip) {\n\t\t\tcontinue\n\t\t}\n\n\t\t// Calculate prefix length. Two buckets can hold the same network under\n\t\t// different keys (e.g. a prefix advertised with host bits set), so an\n\t\t// equal prefix length is decided by the lower metric.\n\t\tones, _ := first.Network.Mask.Size()\n\t\tif ones > bestPrefixLen ||\n\t\t\t(ones == bestPrefixLen && first.Metric < bestRoute.Metric) {\n\t\t\tbestPrefixLen = ones\n\t\t\tbestRoute = first // First is best due to sorting by metric\n\t\t}\n\t}\n\n\tif bestRoute != nil {\n\t\treturn bestRoute.Clone()\n\t}\n\treturn nil\n}\n\n// LookupAll returns all routes for an IP address, sorted by prefix length then metric.\nfunc (t *Table) LookupAll(ip net.IP) []*Route {\n\tt.mu.RLock()\n\tdefer t.mu.RUnlock()\n\n\tip = ip.To16()\n\tvar matches []*Route\n\n\tfor _, routes := range t.routes {\n\t\tif len(routes) == 0 {\n\t\t\tcontinue\n\t\t}\n\n\t\tfirst := routes[0]\n\t\tif !first.Network.Contains(ip) {\n\t\t\tcontinue\n\t\t}\n\n\t\t// Add best route from each matching prefix\n\t\tmatches = append(matches, first.Clone())\n\t}\n\n\t// Sort by prefix length (longest first), then by metric\n\tsort.Slice(matches, func(i, j int) bool {\n\t\tonesI, _ := matches[i].Network.Mask.Size()\n\t\tonesJ, _ := matches[j].Network.Mask.Size()\n\t\tif onesI != onesJ {\n\t\t\treturn onesI > onesJ\n\t\t}\n\t\treturn matches[i].Metric < matches[j].Metric\n\t})\n\n\treturn matches\n}\n", New: "// Lookup finds the best route for an IP address using longest-prefix match.\nfunc (t *Table) Lookup(ip net.IP) *Route {\n\tt.mu.RLock()\n\tdefer t.mu.RUnlock()\n\n\tif match := t.longestMatchLocked(ip); match != nil {\n\t\treturn match.Clone()\n\t}\n\treturn nil\n}\n\n// longestMatchLocked returns the stored route that best matches ip, or nil if\n// no stored network contains it (caller must hold lock).\nfunc (t *Table) longestMatchLocked(ip net.IP) *Route {\n\tvar (\n\t\tmatch    *Route\n\t\tmatchLen int\n\t)\n\n\t// Normalize IP to 16-byte form\n\tip = ip.To16()\n\n\tfor _, routes := range t.routes {\n\t\t// Only the first route of a prefix is considered: it is the best one\n\t\t// due to sorting by metric. Skip prefixes that do not contain the IP.\n\t\tif len(routes) > 0 && routes[0].Network.Contains(ip) {\n\t\t\tcandidate := routes[0]\n\t\t\tcandidateLen, _ := candidate.Network.Mask.Size()\n\t\t\tif match == nil || outranks(candidateLen, candidate.Metric, matchLen, match.Metric) {\n\t\t\t\tmatch, matchLen = candidate, candidateLen\n\t\t\t}\n\t\t}\n\t}\n\n\treturn match\n}\n\n// outranks reports whether a matching route with prefix length lenA and metric\n// metricA is preferred over one with lenB and metricB. Two buckets can hold the\n// same network under different keys (e.g. a prefix advertised with host bits\n// set), so an equal prefix length is decided by the lower metric.\nfunc outranks(lenA int, metricA uint16, lenB int, metricB uint16) bool {\n\tif lenA != lenB {\n\t\treturn lenB < lenA\n\t}\n\treturn metricA < metricB\n}\n\n// LookupAll returns all routes for an IP address, sorted by prefix length then metric.\nfunc (t *Table) LookupAll(ip net.IP) []*Route {\n\tt.mu.RLock()\n\tdefer t.mu.RUnlock()\n\n\tip = ip.To16()\n\tvar matches []*Route\n\n\tfor _, routes := range t.routes {\n\t\t// Add best route from each matching prefix\n\t\tif len(routes) > 0 && routes[0].Network.Contains(ip) {\n\t\t\tmatches = append(matches, routes[0].Clone())\n\t\t}\n\t}\n\n\t// Sort by prefix length (longest first), then by metric\n\tsort.Slice(matches, func(i, j int) bool {\n\t\tonesI, _ := matches[i].Network.Mask.Size()\n\t\tonesJ, _ := matches[j].Network.Mask.Size()\n\t\treturn outranks(onesI, matches[i].Metric, onesJ, matches[j].Metric)\n\t})\n\n\treturn matches\n}\n"},
			}},
			{Name: "round3b: outranks helper accepts an equal prefix length", ExpectRule: "C08.R3", Edits: []Edit{
				{File: f, Old: "// Lookup finds the best route for an IP address using longest-prefix match.\nfunc (t *Table) Lookup(ip net.IP) *Route {\n\tt.mu.RLock()\n\tdefer t.mu.RUnlock()\n\n\treturn t.lookupUnlocked(ip)\n}\n\n// lookupUnlocked performs lookup without locking (caller must hold lock).\nfunc (t *Table) lookupUnlocked(ip net.IP) *Route {\n\tvar bestRoute *Route\n\tvar bestPrefixLen int = -1\n\n\t// Normalize IP to 16-byte form\n\tip = ip.To16()\n\n\tfor _, routes := range t.routes {\n\t\tif len(routes) == 0 {\n\t\t\tcontinue\n\t\t}\n\n\t\t// Check if IP is in this network\n\t\tfirst := routes[0]\n\t\tif !first.Network.Contains(ip) {\n\t\t\tcontinue\n\t\t}\n\n\t\t// Calculate prefix length. Two buckets can hold the same network under\n\t\t// different keys (e.g. a prefix advertised with host bits set), so an\n\t\t// equal prefix length is decided by the lower metric.\n\t\tones, _ := first.Network.Mask.Size()\n\t\tif ones > bestPrefixLen ||\n\t\t\t(ones == bestPrefixLen && first.Metric < bestRoute.Metric) {\n\t\t\tbestPrefixLen = ones\n\t\t\tbestRoute = first // First is best due to sorting by metric\n\t\t}\n\t}\n\n\tif bestRoute != nil {\n\t\treturn bestRoute.Clone()\n\t}\n\treturn nil\n}\n\n// LookupAll returns all routes for an IP address, sorted by prefix length then metric.\nfunc (t *Table) LookupAll(ip net.IP) []*Route {\n\tt.mu.RLock()\n\tdefer t.mu.RUnlock()\n\n\tip = ip.To16()\n\tvar matches []*Route\n\n\tfor _, routes := range t.routes {\n\t\tif len(routes) == 0 {\n\t\t\tcontinue\n\t\t}\n\n\t\tfirst := routes[0]\n\t\tif !first.Network.Contains(ip) {\n\t\t\tcontinue\n\t\t}\n\n\t\t// Add best route from each matching prefix\n\t\tmatches = append(matches, first.Clone())\n\t}\n\n\t// Sort by prefix length (longest first), then by metric\n\tsort.Slice(matches, func(i, j int) bool {\n\t\tonesI, _ := matches[i].Network.Mask.Size()\n\t\tonesJ, _ := matches[j].Network.Mask.Size()\n\t\tif onesI != onesJ {\n\t\t\treturn onesI > onesJ\n\t\t}\n\t\treturn matches[i].Metric < matches[j].Metric\n\t})\n\n\treturn matches\n}\n", New: "// Lookup finds the best route for an IP address using longest-prefix match.\nfunc (t *Table) Lookup(ip net.IP) *Route {\n\tt.mu.RLock()\n\tdefer t.mu.RUnlock()\n\n\tif match := t.longestMatchLocked(ip); match != nil {\n\t\treturn match.Clone()\n\t}\n\treturn nil\n}\n\n// longestMatchLocked returns the stored route that best matches ip, or nil if\n// no stored network contains it (caller must hold lock).\nfunc (t *Table) longestMatchLocked(ip net.IP) *Route {\n\tvar (\n\t\tmatch    *Route\n\t\tmatchLen int\n\t)\n\n\t// Normalize IP to 16-byte form\n\tip = ip.To16()\n\n\tfor _, routes := range t.routes {\n\t\t// Only the first route of a prefix is considered: it is the best one\n\t\t// due to sorting by metric. Skip prefixes that do not contain the IP.\n\t\tif len(routes) > 0 && routes[0].Network.Contains(ip) {\n\t\t\tcandidate := routes[0]\n\t\t\tcandidateLen, _ := candidate.Network.Mask.Size()\n\t\t\tif match == nil || outranks(candidateLen, candidate.Metric, matchLen, match.Metric) {\n\t\t\t\tmatch, matchLen = candidate, candidateLen\n\t\t\t}\n\t\t}\n\t}\n\n\treturn match\n}\n\n// outranks reports whether a matching route with prefix length lenA and metric\n// metricA is preferred over one with lenB and metricB. Two buckets can hold the\n// same network under different keys (e.g. a prefix advertised with host bits\n// set), so an equal prefix length is decided by the lower metric.\nfunc outranks(lenA int, metricA uint16, lenB int, metricB uint16) bool {\n\treturn lenB <= lenA\n}\n\n// LookupAll returns all routes for an IP address, sorted by prefix length then metric.\nfunc (t *Table) LookupAll(ip net.IP) []*Route {\n\tt.mu.RLock()\n\tdefer t.mu.RUnlock()\n\n\tip = ip.To16()\n\tvar matches []*Route\n\n\tfor _, routes := range t.routes {\n\t\t// Add best route from each matching prefix\n\t\tif len(routes) > 0 && routes[0].Network.Contains(ip) {\n\t\t\tmatches = append(matches, routes[0].Clone())\n\t\t}\n\t}\n\n\t// Sort by prefix length (longest first), then by metric\n\tsort.Slice(matches, func(i, j int) bool {\n\t\tonesI, _ := matches[i].Network.Mask.Size()\n\t\tonesJ, _ := matches[j].Network.Mask.Size()\n\t\treturn outranks(onesI, matches[i].Metric, onesJ, matches[j].Metric)\n\t})\n\n\treturn matches\n}\n"},
			}},
			{Name: "round3b: bucketHead helper returns the last element", ExpectRule: "C08.R3", Edits: []Edit{
				{File: f, Old: "// Lookup finds the best route for an IP address using longest-prefix match.\nfunc (t *Table) Lookup(ip net.IP) *Route {\n\tt.mu.RLock()\n\tdefer t.mu.RUnlock()\n\n\treturn t.lookupUnlocked(ip)\n}\n\n// lookupUnlocked performs lookup without locking (caller must hold lock).\nfunc (t *Table) lookupUnlocked(ip net.IP) *Route {\n\tvar bestRoute *Route\n\tvar bestPrefixLen int = -1\n\n\t// Normalize IP to 16-byte form\n\tip = ip.To16()\n\n\tfor _, routes := range t.routes {\n\t\tif len(routes) == 0 {\n\t\t\tcontinue\n\t\t}\n\n\t\t// Check if IP is in this network\n\t\tfirst := routes[0]\n\t\tif !first.Network.Contains(ip) {\n\t\t\tcontinue\n\t\t}\n\n\t\t// Calculate prefix length. Two buckets can hold the same network under\n\t\t// different keys (e.g. a prefix advertised with host bits set), so an\n\t\t// equal prefix length is decided by the lower metric.\n\t\tones, _ := first.Network.Mask.Size()\n\t\tif ones > bestPrefixLen ||\n\t\t\t(ones == bestPrefixLen && first.Metric < bestRoute.Metric) {\n\t\t\tbestPrefixLen = ones\n\t\t\tbestRoute = first // First is best due to sorting by metric\n\t\t}\n\t}\n\n\tif bestRoute != nil {\n\t\treturn bestRoute.Clone()\n\t}\n\treturn nil\n}\n\n// LookupAll returns all routes for an IP address, sorted by prefix length then metric.\nfunc (t *Table) LookupAll(ip net.IP) []*Route {\n\tt.mu.RLock()\n\tdefer t.mu.RUnlock()\n\n\tip = ip.To16()\n\tvar matches []*Route\n\n\tfor _, routes := range t.routes {\n\t\tif len(routes) == 0 {\n\t\t\tcontinue\n\t\t}\n\n\t\tfirst := routes[0]\n\t\tif !first.Network.Contains(ip) {\n\t\t\tcontinue\n\t\t}\n\n\t\t// Add best route from each matching prefix\n\t\tmatches = append(matches, first.Clone())\n\t}\n\n\t// Sort by prefix length (longest first), then by metric\n\tsort.Slice(matches, func(i, j int) bool {\n\t\tonesI, _ := matches[i].Network.Mask.Size()\n\t\tonesJ, _ := matches[j].Network.Mask.Size()\n\t\tif onesI != onesJ {\n\t\t\treturn onesI > onesJ\n\t\t}\n\t\treturn matches[i].Metric < matches[j].Metric\n\t})\n\n\treturn matches\n}\n", New: "// Lookup finds the best route for an IP address using longest-prefix match.\nfunc (t *Table) Lookup(ip net.IP) *Route {\n\tt.mu.RLock()\n\tbest := t.bestMatchLocked(ip)\n\tif best == nil {\n\t\tt.mu.RUnlock()\n\t\treturn nil\n\t}\n\tresult := best.Clone()\n\tt.mu.RUnlock()\n\treturn result\n}\n\n// bestMatchLocked performs the longest-prefix match without locking (caller\n// must hold lock). The returned route is the stored entry, not a copy.\nfunc (t *Table) bestMatchLocked(ip net.IP) *Route {\n\t// Normalize IP to 16-byte form\n\tip = ip.To16()\n\n\tvar best *Route\n\tbestLen := -1\n\n\tfor _, routes := range t.routes {\n\t\thead := bucketHead(routes, ip)\n\t\tif head == nil {\n\t\t\tcontinue\n\t\t}\n\n\t\t// Two buckets can hold the same network under different keys (e.g. a\n\t\t// prefix advertised with host bits set), so an equal prefix length is\n\t\t// decided by the lower metric.\n\t\tones := prefixLen(head)\n\t\tif ones < bestLen {\n\t\t\tcontinue\n\t\t}\n\t\tif ones == bestLen && best.Metric <= head.Metric {\n\t\t\tcontinue\n\t\t}\n\t\tbest, bestLen = head, ones\n\t}\n\n\treturn best\n}\n\n// bucketHead returns the best route of a per-prefix bucket if the bucket's\n// network contains ip, and nil otherwise. The first route is the best one\n// because buckets are kept sorted by metric.\nfunc bucketHead(routes []*Route, ip net.IP) *Route {\n\tif len(routes) == 0 {\n\t\treturn nil\n\t}\n\tif first := routes[len(routes)-1]; first.Network.Contains(ip) {\n\t\treturn first\n\t}\n\treturn nil\n}\n\n// prefixLen returns the number of leading one bits in the route's netmask.\nfunc prefixLen(r *Route) int {\n\tones, _ := r.Network.Mask.Size()\n\treturn ones\n}\n\n// LookupAll returns all routes for an IP address, sorted by prefix length then metric.\nfunc (t *Table) LookupAll(ip net.IP) []*Route {\n\tt.mu.RLock()\n\tdefer t.mu.RUnlock()\n\n\tip = ip.To16()\n\tvar matches []*Route\n\n\tfor _, routes := range t.routes {\n\t\t// Add best route from each matching prefix\n\t\tif head := bucketHead(routes, ip); head != nil {\n\t\t\tmatches = append(matches, head.Clone())\n\t\t}\n\t}\n\n\t// Sort by prefix length (longest first), then by metric\n\tsort.Slice(matches, func(i, j int) bool {\n\t\tonesI, onesJ := prefixLen(matches[i]), prefixLen(matches[j])\n\t\tif onesI != onesJ {\n\t\t\treturn onesI > onesJ\n\t\t}\n\t\treturn matches[i].Metric < matches[j].Metric\n\t})\n\n\treturn matches\n}\n"},
			}},
			{Name: "round3b rewrite: upsertLocked with slot search and a single store-and-sort tail; pruneLocked (C08/c shape)", Edits: []Edit{
				{File: f, Old: "import (\n\t\"fmt\"\n", New: "import (\n\t\"slices\"\n\t\"fmt\"\n"},
				{File: f, Old: "// AddRoute adds or updates a route in the table.\n// Returns true if the route was added/updated, false if rejected (e.g., loop detected).\nfunc (t *Table) AddRoute(route *Route) bool {\n\tif route == nil || route.Network == nil {\n\t\treturn false\n\t}\n\n\t// Check for routing loops (is our ID in the path?)\n\tfor _, id := range route.Path {\n\t\tif id == t.localID {\n\t\t\treturn false // Loop detected\n\t\t}\n\t}\n\n\tkey := route.Network.String()\n\tnow := time.Now()\n\n\tt.mu.Lock()\n\tdefer t.mu.Unlock()\n\n\t// Check if we already have a route from this origin\n\texisting := t.routes[key]\n\tfor i, r := range existing {\n\t\tif r.OriginAgent == route.OriginAgent {\n\t\t\t// Update if newer sequence or better metric\n\t\t\tif route.Sequence > r.Sequence ||\n\t\t\t\t(route.Sequence == r.Sequence && route.Metric < r.Metric) {\n\t\t\t\tcloned := route.Clone()\n\t\t\t\tcloned.LastUpdate = now\n\t\t\t\tt.routes[key][i] = cloned\n\t\t\t\tt.sortRoutes(key)\n\t\t\t\treturn true\n\t\t\t}\n\t\t\treturn false // Older/worse route\n\t\t}\n\t}\n\n\t// New route from this origin\n\tcloned := route.Clone()\n\tcloned.LastUpdate = now\n\tt.routes[key] = append(t.routes[key], cloned)\n\tt.sortRoutes(key)\n\treturn true\n}\n\n// sortRoutes sorts routes for a key by metric (lowest first).\nfunc (t *Table) sortRoutes(key string) {\n\troutes := t.routes[key]\n\tsort.Slice(routes, func(i, j int) bool {\n\t\treturn routes[i].Metric < routes[j].Metric\n\t})\n}\n\n// RemoveRoute removes a route from a specific origin.\nfunc (t *Table) RemoveRoute(network *net.IPNet, originAgent identity.AgentID) bool {\n\tif network == nil {\n\t\treturn false\n\t}\n\n\tkey := network.String()\n\n\tt.mu.Lock()\n\tdefer t.mu.Unlock()\n\n\troutes := t.routes[key]\n\tfor i, r := range routes {\n\t\tif r.OriginAgent == originAgent {\n\t\t\t// Remove this route\n\t\t\tt.routes[key] = append(routes[:i], routes[i+1:]...)\n\t\t\tif len(t.routes[key]) == 0 {\n\t\t\t\tdelete(t.routes, key)\n\t\t\t}\n\t\t\treturn true\n\t\t}\n\t}\n\treturn false\n}\n\n// RemoveRoutesFromPeer removes all routes learned from a specific peer.\nfunc (t *Table) RemoveRoutesFromPeer(peerID identity.AgentID) int {\n\tt.mu.Lock()\n\tdefer t.mu.Unlock()\n\n\tcount := 0\n\tfor key, routes := range t.routes {\n\t\tfiltered := routes[:0]\n\t\tfor _, r := range routes {\n\t\t\tif r.NextHop != peerID {\n\t\t\t\tfiltered = append(filtered, r)\n\t\t\t} else {\n\t\t\t\tcount++\n\t\t\t}\n\t\t}\n\t\tif len(filtered) == 0 {\n\t\t\tdelete(t.routes, key)\n\t\t} else {\n\t\t\tt.routes[key] = filtered\n\t\t}\n\t}\n\treturn count\n}\n", New: "// AddRoute adds or updates a route in the table.\n// Returns true if the route was added/updated, false if rejected (e.g., loop detected).\nfunc (t *Table) AddRoute(route *Route) bool {\n\tif route == nil || route.Network == nil {\n\t\treturn false\n\t}\n\n\t// Check for routing loops (is our ID in the path?)\n\tif slices.Index(route.Path, t.localID) != -1 {\n\t\treturn false // Loop detected\n\t}\n\n\tkey := route.Network.String()\n\tnow := time.Now()\n\n\tt.mu.Lock()\n\taccepted := t.upsertLocked(key, route, now)\n\tt.mu.Unlock()\n\n\treturn accepted\n}\n\n// upsertLocked stores a copy of route under key, either replacing the entry of\n// the same origin or appending a new one (caller must hold the write lock).\n// Returns false if the stored entry of that origin is newer or at least as good.\nfunc (t *Table) upsertLocked(key string, route *Route, now time.Time) bool {\n\tbucket := t.routes[key]\n\n\t// Find the slot of this origin; default is the append position\n\tslot := len(bucket)\n\tfor i := range bucket {\n\t\tif bucket[i].OriginAgent == route.OriginAgent {\n\t\t\tslot = i\n\t\t\tbreak\n\t\t}\n\t}\n\tisNewOrigin := slot == len(bucket)\n\n\tif !isNewOrigin {\n\t\t// Update only if newer sequence or better metric\n\t\theld := bucket[slot]\n\t\tif route.Sequence < held.Sequence {\n\t\t\treturn false // Older route\n\t\t}\n\t\tif route.Sequence == held.Sequence && held.Metric <= route.Metric {\n\t\t\treturn false // Same version, not better\n\t\t}\n\t}\n\n\tstored := route.Clone()\n\tstored.LastUpdate = now\n\tif isNewOrigin {\n\t\tbucket = append(bucket, stored)\n\t} else {\n\t\tbucket[slot] = stored\n\t}\n\tt.routes[key] = bucket\n\n\t// Keep the bucket sorted by metric (lowest first)\n\tsort.Slice(bucket, func(i, j int) bool {\n\t\treturn bucket[i].Metric < bucket[j].Metric\n\t})\n\treturn true\n}\n\n// RemoveRoute removes a route from a specific origin.\nfunc (t *Table) RemoveRoute(network *net.IPNet, originAgent identity.AgentID) bool {\n\tif network == nil {\n\t\treturn false\n\t}\n\n\tkey := network.String()\n\n\tt.mu.Lock()\n\tdefer t.mu.Unlock()\n\n\troutes := t.routes[key]\n\tfor i := range routes {\n\t\tif routes[i].OriginAgent != originAgent {\n\t\t\tcontinue\n\t\t}\n\t\t// Remove this route\n\t\tif routes = slices.Delete(routes, i, i+1); len(routes) == 0 {\n\t\t\tdelete(t.routes, key)\n\t\t} else {\n\t\t\tt.routes[key] = routes\n\t\t}\n\t\treturn true\n\t}\n\treturn false\n}\n\n// RemoveRoutesFromPeer removes all routes learned from a specific peer.\nfunc (t *Table) RemoveRoutesFromPeer(peerID identity.AgentID) int {\n\tt.mu.Lock()\n\tcount := t.pruneLocked(func(r *Route) bool {\n\t\treturn r.NextHop == peerID\n\t})\n\tt.mu.Unlock()\n\n\treturn count\n}\n\n// pruneLocked drops every route for which drop returns true, deletes prefixes\n// that end up without routes and returns the number of dropped routes (caller\n// must hold the write lock). The relative order of the remaining routes of a\n// prefix is preserved.\nfunc (t *Table) pruneLocked(drop func(*Route) bool) int {\n\tdropped := 0\n\tfor key, routes := range t.routes {\n\t\tkept := routes[:0]\n\t\tfor _, r := range routes {\n\t\t\tif drop(r) {\n\t\t\t\tdropped++\n\t\t\t\tcontinue\n\t\t\t}\n\t\t\tkept = append(kept, r)\n\t\t}\n\t\tif len(kept) > 0 {\n\t\t\tt.routes[key] = kept\n\t\t} else {\n\t\t\tdelete(t.routes, key)\n\t\t}\n\t}\n\treturn dropped\n}\n"},
				{File: f, Old: "// CleanupStaleRoutes removes routes that haven't been updated within maxAge.\n// Local routes (where OriginAgent == localID) are never removed.\n// Returns the number of routes removed.\nfunc (t *Table) CleanupStaleRoutes(maxAge time.Duration) int {\n\tt.mu.Lock()\n\tdefer t.mu.Unlock()\n\n\tnow := time.Now()\n\tremoved := 0\n\n\tfor key, routes := range t.routes {\n\t\tvar kept []*Route\n\t\tfor _, r := range routes {\n\t\t\t// Never remove local routes\n\t\t\tif r.OriginAgent == t.localID {\n\t\t\t\tkept = append(kept, r)\n\t\t\t\tcontinue\n\t\t\t}\n\n\t\t\t// Keep routes that are still fresh\n\t\t\tif now.Sub(r.LastUpdate) <= maxAge {\n\t\t\t\tkept = append(kept, r)\n\t\t\t} else {\n\t\t\t\tremoved++\n\t\t\t}\n\t\t}\n\n\t\tif len(kept) > 0 {\n\t\t\tt.routes[key] = kept\n\t\t} else {\n\t\t\tdelete(t.routes, key)\n\t\t}\n\t}\n\n\treturn removed\n}\n", New: "// CleanupStaleRoutes removes routes that haven't been updated within maxAge.\n// Local routes (where OriginAgent == localID) are never removed.\n// Returns the number of routes removed.\nfunc (t *Table) CleanupStaleRoutes(maxAge time.Duration) int {\n\tt.mu.Lock()\n\n\tnow := time.Now()\n\tremoved := t.pruneLocked(func(r *Route) bool {\n\t\t// Never remove local routes; keep remote routes that are still fresh\n\t\treturn r.OriginAgent != t.localID && now.Sub(r.LastUpdate) > maxAge\n\t})\n\n\tt.mu.Unlock()\n\n\treturn removed\n}\n"},
			}},
			{Name: "round3b: store-and-sort tail sorts only new origins", ExpectRule: "C08.R1", Edits: []Edit{
				{File: f, Old: "import (\n\t\"fmt\"\n", New: "import (\n\t\"slices\"\n\t\"fmt\"\n"},
				{File: f, Old: "// AddRoute adds or updates a route in the table.\n// Returns true if the route was added/updated, false if rejected (e.g., loop detected).\nfunc (t *Table) AddRoute(route *Route) bool {\n\tif route == nil || route.Network == nil {\n\t\treturn false\n\t}\n\n\t// Check for routing loops (is our ID in the path?)\n\tfor _, id := range route.Path {\n\t\tif id == t.localID {\n\t\t\treturn false // Loop detected\n\t\t}\n\t}\n\n\tkey := route.Network.String()\n\tnow := time.Now()\n\n\tt.mu.Lock()\n\tdefer t.mu.Unlock()\n\n\t// Check if we already have a route from this origin\n\texisting := t.routes[key]\n\tfor i, r := range existing {\n\t\tif r.OriginAgent == route.OriginAgent {\n\t\t\t// Update if newer sequence or better metric\n\t\t\tif route.Sequence > r.Sequence ||\n\t\t\t\t(route.Sequence == r.Sequence && route.Metric < r.Metric) {\n\t\t\t\tcloned := route.Clone()\n\t\t\t\tcloned.LastUpdate = now\n\t\t\t\tt.routes[key][i] = cloned\n\t\t\t\tt.sortRoutes(key)\n\t\t\t\treturn true\n\t\t\t}\n\t\t\treturn false // Older/worse route\n\t\t}\n\t}\n\n\t// New route from this origin\n\tcloned := route.Clone()\n\tcloned.LastUpdate = now\n\tt.routes[key] = append(t.routes[key], cloned)\n\tt.sortRoutes(key)\n\treturn true\n}\n\n// sortRoutes sorts routes for a key by metric (lowest first).\nfunc (t *Table) sortRoutes(key string) {\n\troutes := t.routes[key]\n\tsort.Slice(routes, func(i, j int) bool {\n\t\treturn routes[i].Metric < routes[j].Metric\n\t})\n}\n\n// RemoveRoute removes a route from a specific origin.\nfunc (t *Table) RemoveRoute(network *net.IPNet, originAgent identity.AgentID) bool {\n\tif network == nil {\n\t\treturn false\n\t}\n\n\tkey := network.String()\n\n\tt.mu.Lock()\n\tdefer t.mu.Unlock()\n\n\troutes := t.routes[key]\n\tfor i, r := range routes {\n\t\tif r.OriginAgent == originAgent {\n\t\t\t// Remove this route\n\t\t\tt.routes[key] = append(routes[:i], routes[i+1:]...)\n\t\t\tif len(t.routes[key]) == 0 {\n\t\t\t\tdelete(t.routes, key)\n\t\t\t}\n\t\t\treturn true\n\t\t}\n\t}\n\treturn false\n}\n\n// RemoveRoutesFromPeer removes all routes learned from a specific peer.\nfunc (t *Table) RemoveRoutesFromPeer(peerID identity.AgentID) int {\n\tt.mu.Lock()\n\tdefer t.mu.Unlock()\n\n\tcount := 0\n\tfor key, routes := range t.routes {\n\t\tfiltered := routes[:0]\n\t\tfor _, r := range routes {\n\t\t\tif r.NextHop != peerID {\n\t\t\t\tfiltered = append(filtered, r)\n\t\t\t} else {\n\t\t\t\tcount++\n\t\t\t}\n\t\t}\n\t\tif len(filtered) == 0 {\n\t\t\tdelete(t.routes, key)\n\t\t} else {\n\t\t\tt.routes[key] = filtered\n\t\t}\n\t}\n\treturn count\n}\n", New: "// AddRoute adds or updates a route in the table.\n// Returns true if the route was added/updated, false if rejected (e.g., loop detected).\nfunc (t *Table) AddRoute(route *Route) bool {\n\tif route == nil || route.Network == nil {\n\t\treturn false\n\t}\n\n\t// Check for routing loops (is our ID in the path?)\n\tif slices.Index(route.Path, t.localID) != -1 {\n\t\treturn false // Loop detected\n\t}\n\n\tkey := route.Network.String()\n\tnow := time.Now()\n\n\tt.mu.Lock()\n\taccepted := t.upsertLocked(key, route, now)\n\tt.mu.Unlock()\n\n\treturn accepted\n}\n\n// upsertLocked stores a copy of route under key, either replacing the entry of\n// the same origin or appending a new one (caller must hold the write lock).\n// Returns false if the stored entry of that origin is newer or at least as good.\nfunc (t *Table) upsertLocked(key string, route *Route, now time.Time) bool {\n\tbucket := t.routes[key]\n\n\t// Find the slot of this origin; default is the append position\n\tslot := len(bucket)\n\tfor i := range bucket {\n\t\tif bucket[i].OriginAgent == route.OriginAgent {\n\t\t\tslot = i\n\t\t\tbreak\n\t\t}\n\t}\n\tisNewOrigin := slot == len(bucket)\n\n\tif !isNewOrigin {\n\t\t// Update only if newer sequence or better metric\n\t\theld := bucket[slot]\n\t\tif route.Sequence < held.Sequence {\n\t\t\treturn false // Older route\n\t\t}\n\t\tif route.Sequence == held.Sequence && held.Metric <= route.Metric {\n\t\t\treturn false // Same version, not better\n\t\t}\n\t}\n\n\tstored := route.Clone()\n\tstored.LastUpdate = now\n\tif isNewOrigin {\n\t\tbucket = append(bucket, stored)\n\t} else {\n\t\tbucket[slot] = stored\n\t}\n\tt.routes[key] = bucket\n\n\tif isNewOrigin {\n\t\tsort.Slice(bucket, func(i, j int) bool {\n\t\t\treturn bucket[i].Metric < bucket[j].Metric\n\t\t})\n\t}\n\treturn true\n}\n\n// RemoveRoute removes a route from a specific origin.\nfunc (t *Table) RemoveRoute(network *net.IPNet, originAgent identity.AgentID) bool {\n\tif network == nil {\n\t\treturn false\n\t}\n\n\tkey := network.String()\n\n\tt.mu.Lock()\n\tdefer t.mu.Unlock()\n\n\troutes := t.routes[key]\n\tfor i := range routes {\n\t\tif routes[i].OriginAgent != originAgent {\n\t\t\tcontinue\n\t\t}\n\t\t// Remove this route\n\t\tif routes = slices.Delete(routes, i, i+1); len(routes) == 0 {\n\t\t\tdelete(t.routes, key)\n\t\t} else {\n\t\t\tt.routes[key] = routes\n\t\t}\n\t\treturn true\n\t}\n\treturn false\n}\n\n// RemoveRoutesFromPeer removes all routes learned from a specific peer.\nfunc (t *Table) RemoveRoutesFromPeer(peerID identity.AgentID) int {\n\tt.mu.Lock()\n\tcount := t.pruneLocked(func(r *Route) bool {\n\t\treturn r.NextHop == peerID\n\t})\n\tt.mu.Unlock()\n\n\treturn count\n}\n\n// pruneLocked drops every route for which drop returns true, deletes prefixes\n// that end up without routes and returns the number of dropped routes (caller\n// must hold the write lock). The relative order of the remaining routes of a\n// prefix is preserved.\nfunc (t *Table) pruneLocked(drop func(*Route) bool) int {\n\tdropped := 0\n\tfor key, routes := range t.routes {\n\t\tkept := routes[:0]\n\t\tfor _, r := range routes {\n\t\t\tif drop(r) {\n\t\t\t\tdropped++\n\t\t\t\tcontinue\n\t\t\t}\n\t\t\tkept = append(kept, r)\n\t\t}\n\t\tif len(kept) > 0 {\n\t\t\tt.routes[key] = kept\n\t\t} else {\n\t\t\tdelete(t.routes, key)\n\t\t}\n\t}\n\treturn dropped\n}\n"},
				{File: f, Old: "// CleanupStaleRoutes removes routes that haven't been updated within maxAge.\n// Local routes (where OriginAgent == localID) are never removed.\n// Returns the number of routes removed.\nfunc (t *Table) CleanupStaleRoutes(maxAge time.Duration) int {\n\tt.mu.Lock()\n\tdefer t.mu.Unlock()\n\n\tnow := time.Now()\n\tremoved := 0\n\n\tfor key, routes := range t.routes {\n\t\tvar kept []*Route\n\t\tfor _, r := range routes {\n\t\t\t// Never remove local routes\n\t\t\tif r.OriginAgent == t.localID {\n\t\t\t\tkept = append(kept, r)\n\t\t\t\tcontinue\n\t\t\t}\n\n\t\t\t// Keep routes that are still fresh\n\t\t\tif now.Sub(r.LastUpdate) <= maxAge {\n\t\t\t\tkept = append(kept, r)\n\t\t\t} else {\n\t\t\t\tremoved++\n\t\t\t}\n\t\t}\n\n\t\tif len(kept) > 0 {\n\t\t\tt.routes[key] = kept\n\t\t} else {\n\t\t\tdelete(t.routes, key)\n\t\t}\n\t}\n\n\treturn removed\n}\n", New: "// CleanupStaleRoutes removes routes that haven't been updated within maxAge.\n// Local routes (where OriginAgent == localID) are never removed.\n// Returns the number of routes removed.\nfunc (t *Table) CleanupStaleRoutes(maxAge time.Duration) int {\n\tt.mu.Lock()\n\n\tnow := time.Now()\n\tremoved := t.pruneLocked(func(r *Route) bool {\n\t\t// Never remove local routes; keep remote routes that are still fresh\n\t\treturn r.OriginAgent != t.localID && now.Sub(r.LastUpdate) > maxAge\n\t})\n\n\tt.mu.Unlock()\n\n\treturn removed\n}\n"},
			}},
			{Name: "round3b rewrite: originIndex / sortByMetric / pathHasLoop helpers (C08/b shape)", Edits: []Edit{
				{File: f, Old: "import (\n\t\"fmt\"\n", New: "import (\n\t\"slices\"\n\t\"fmt\"\n"},
				{File: f, Old: "// AddRoute adds or updates a route in the table.\n// Returns true if the route was added/updated, false if rejected (e.g., loop detected).\nfunc (t *Table) AddRoute(route *Route) bool {\n\tif route == nil || route.Network == nil {\n\t\treturn false\n\t}\n\n\t// Check for routing loops (is our ID in the path?)\n\tfor _, id := range route.Path {\n\t\tif id == t.localID {\n\t\t\treturn false // Loop detected\n\t\t}\n\t}\n\n\tkey := route.Network.String()\n\tnow := time.Now()\n\n\tt.mu.Lock()\n\tdefer t.mu.Unlock()\n\n\t// Check if we already have a route from this origin\n\texisting := t.routes[key]\n\tfor i, r := range existing {\n\t\tif r.OriginAgent == route.OriginAgent {\n\t\t\t// Update if newer sequence or better metric\n\t\t\tif route.Sequence > r.Sequence ||\n\t\t\t\t(route.Sequence == r.Sequence && route.Metric < r.Metric) {\n\t\t\t\tcloned := route.Clone()\n\t\t\t\tcloned.LastUpdate = now\n\t\t\t\tt.routes[key][i] = cloned\n\t\t\t\tt.sortRoutes(key)\n\t\t\t\treturn true\n\t\t\t}\n\t\t\treturn false // Older/worse route\n\t\t}\n\t}\n\n\t// New route from this origin\n\tcloned := route.Clone()\n\tcloned.LastUpdate = now\n\tt.routes[key] = append(t.routes[key], cloned)\n\tt.sortRoutes(key)\n\treturn true\n}\n\n// sortRoutes sorts routes for a key by metric (lowest first).\nfunc (t *Table) sortRoutes(key string) {\n\troutes := t.routes[key]\n\tsort.Slice(routes, func(i, j int) bool {\n\t\treturn routes[i].Metric < routes[j].Metric\n\t})\n}\n\n// RemoveRoute removes a route from a specific origin.\nfunc (t *Table) RemoveRoute(network *net.IPNet, originAgent identity.AgentID) bool {\n\tif network == nil {\n\t\treturn false\n\t}\n\n\tkey := network.String()\n\n\tt.mu.Lock()\n\tdefer t.mu.Unlock()\n\n\troutes := t.routes[key]\n\tfor i, r := range routes {\n\t\tif r.OriginAgent == originAgent {\n\t\t\t// Remove this route\n\t\t\tt.routes[key] = append(routes[:i], routes[i+1:]...)\n\t\t\tif len(t.routes[key]) == 0 {\n\t\t\t\tdelete(t.routes, key)\n\t\t\t}\n\t\t\treturn true\n\t\t}\n\t}\n\treturn false\n}\n\n// RemoveRoutesFromPeer removes all routes learned from a specific peer.\nfunc (t *Table) RemoveRoutesFromPeer(peerID identity.AgentID) int {\n\tt.mu.Lock()\n\tdefer t.mu.Unlock()\n\n\tcount := 0\n\tfor key, routes := range t.routes {\n\t\tfiltered := routes[:0]\n\t\tfor _, r := range routes {\n\t\t\tif r.NextHop != peerID {\n\t\t\t\tfiltered = append(filtered, r)\n\t\t\t} else {\n\t\t\t\tcount++\n\t\t\t}\n\t\t}\n\t\tif len(filtered) == 0 {\n\t\t\tdelete(t.routes, key)\n\t\t} else {\n\t\t\tt.routes[key] = filtered\n\t\t}\n\t}\n\treturn count\n}\n", New: "// AddRoute adds or updates a route in the table.\n// Returns true if the route was added/updated, false if rejected (e.g., loop detected).\nfunc (t *Table) AddRoute(route *Route) bool {\n\tif route == nil || route.Network == nil {\n\t\treturn false\n\t}\n\n\tif t.pathHasLoop(route.Path) {\n\t\treturn false // Loop detected\n\t}\n\n\tnow := time.Now()\n\tkey := route.Network.String()\n\n\tt.mu.Lock()\n\tdefer t.mu.Unlock()\n\n\t// Check if we already have a route from this origin\n\tidx := originIndex(t.routes[key], route.OriginAgent)\n\tif idx < 0 {\n\t\t// New route from this origin\n\t\tcloned := route.Clone()\n\t\tcloned.LastUpdate = now\n\t\tt.routes[key] = append(t.routes[key], cloned)\n\t\tsortByMetric(t.routes[key])\n\t\treturn true\n\t}\n\n\t// Update if newer sequence or better metric\n\tprev := t.routes[key][idx]\n\tisNewer := route.Sequence > prev.Sequence\n\tisCheaper := route.Sequence == prev.Sequence && route.Metric < prev.Metric\n\tif !isNewer && !isCheaper {\n\t\treturn false // Older/worse route\n\t}\n\n\tcloned := route.Clone()\n\tcloned.LastUpdate = now\n\tt.routes[key][idx] = cloned\n\tsortByMetric(t.routes[key])\n\treturn true\n}\n\n// pathHasLoop reports whether our own ID already appears in an advertised path.\nfunc (t *Table) pathHasLoop(path []identity.AgentID) bool {\n\tfor _, hop := range path {\n\t\tif hop == t.localID {\n\t\t\treturn true\n\t\t}\n\t}\n\treturn false\n}\n\n// originIndex returns the position of the first route advertised by origin,\n// or -1 if origin has no route in the given slice.\nfunc originIndex(routes []*Route, origin identity.AgentID) int {\n\treturn slices.IndexFunc(routes, func(r *Route) bool {\n\t\treturn r.OriginAgent == origin\n\t})\n}\n\n// sortByMetric sorts routes of one prefix by metric (lowest first).\nfunc sortByMetric(routes []*Route) {\n\tsort.Slice(routes, func(i, j int) bool {\n\t\treturn routes[i].Metric < routes[j].Metric\n\t})\n}\n\n// RemoveRoute removes a route from a specific origin.\nfunc (t *Table) RemoveRoute(network *net.IPNet, originAgent identity.AgentID) bool {\n\tif network == nil {\n\t\treturn false\n\t}\n\n\tkey := network.String()\n\n\tt.mu.Lock()\n\tdefer t.mu.Unlock()\n\n\troutes := t.routes[key]\n\tidx := originIndex(routes, originAgent)\n\tif idx < 0 {\n\t\treturn false\n\t}\n\n\t// Remove this route\n\tt.routes[key] = append(routes[:idx], routes[idx+1:]...)\n\tif len(t.routes[key]) == 0 {\n\t\tdelete(t.routes, key)\n\t}\n\treturn true\n}\n\n// RemoveRoutesFromPeer removes all routes learned from a specific peer.\nfunc (t *Table) RemoveRoutesFromPeer(peerID identity.AgentID) int {\n\tt.mu.Lock()\n\tdefer t.mu.Unlock()\n\n\tcount := 0\n\tfor key, routes := range t.routes {\n\t\tfiltered := routes[:0]\n\t\tfor _, r := range routes {\n\t\t\tif r.NextHop != peerID {\n\t\t\t\tfiltered = append(filtered, r)\n\t\t\t} else {\n\t\t\t\tcount++\n\t\t\t}\n\t\t}\n\t\tif len(filtered) == 0 {\n\t\t\tdelete(t.routes, key)\n\t\t} else {\n\t\t\tt.routes[key] = filtered\n\t\t}\n\t}\n\treturn count\n}\n"},
			}},
			// behaviour-preserving rewrites
			{Name: "rewrite: operands swapped and !(a<=b)", Edits: []Edit{
				{File: f, Old: "\t\tif ones > bestPrefixLen ||\n\t\t\t(ones == bestPrefixLen && first.Metric < bestRoute.Metric) {", New: "\t\tif !(ones <= bestPrefixLen) ||\n\t\t\t(bestPrefixLen == ones && bestRoute.Metric > first.Metric) {"},
				{File: f, Old: "\t\treturn routes[i].Metric < routes[j].Metric\n\t})\n}", New: "\t\treturn routes[j].Metric > routes[i].Metric\n\t})\n}"},
			}},
			{Name: "rewrite: early-continue form of the replace decision", Edits: []Edit{
				{File: f, Old: "\t\tif ones > bestPrefixLen ||\n\t\t\t(ones == bestPrefixLen && first.Metric < bestRoute.Metric) {\n\t\t\tbestPrefixLen = ones\n\t\t\tbestRoute = first // First is best due to sorting by metric\n\t\t}", New: "\t\tif ones < bestPrefixLen {\n\t\t\tcontinue\n\t\t}\n\t\tif ones == bestPrefixLen && first.Metric >= bestRoute.Metric {\n\t\t\tcontinue\n\t\t}\n\t\tbestPrefixLen, bestRoute = ones, first"},
			}},
			{Name: "rewrite: slices.SortFunc with cmp.Compare, inlined sort", Edits: []Edit{
				{File: f, Old: "import (\n\t\"fmt\"\n", New: "import (\n\t\"cmp\"\n\t\"slices\"\n\t\"fmt\"\n"},
				{File: f, Old: "\troutes := t.routes[key]\n\tsort.Slice(routes, func(i, j int) bool {\n\t\treturn routes[i].Metric < routes[j].Metric\n\t})\n}", New: "\tslices.SortFunc(t.routes[key], func(a, b *Route) int {\n\t\treturn cmp.Compare(a.Metric, b.Metric)\n\t})\n}"},
			}},
			{Name: "rewrite: stable sort, comparator with if/else", Edits: []Edit{
				{File: f, Old: "\tsort.Slice(routes, func(i, j int) bool {\n\t\treturn routes[i].Metric < routes[j].Metric\n\t})\n}", New: "\tsort.SliceStable(routes, func(i, j int) bool {\n\t\tif routes[i].Metric >= routes[j].Metric {\n\t\t\treturn false\n\t\t}\n\t\treturn true\n\t})\n}"},
			}},
			{Name: "rewrite: sort inlined in AddRoute", Edits: []Edit{
				{File: f, Old: "\tt.routes[key] = append(t.routes[key], cloned)\n\tt.sortRoutes(key)\n\treturn true\n}", New: "\tt.routes[key] = append(t.routes[key], cloned)\n\tbucket := t.routes[key]\n\tsort.Slice(bucket, func(a, b int) bool { return bucket[a].Metric < bucket[b].Metric })\n\treturn true\n}"},
			}},
			{Name: "rewrite: positive containment test, nested", Edits: []Edit{
				{File: f, Old: "\t\tif !first.Network.Contains(ip) {\n\t\t\tcontinue\n\t\t}\n\n\t\t// Calculate prefix length.", New: "\t\tif ok := first.Network.Contains(ip); ok == false {\n\t\t\tcontinue\n\t\t}\n\n\t\t// Calculate prefix length."},
			}},
			{Name: "rewrite: scan inlined into Lookup", Edits: []Edit{
				{File: f, Old: "\tdefer t.mu.RUnlock()\n\n\treturn t.lookupUnlocked(ip)\n}\n\n// lookupUnlocked performs lookup without locking (caller must hold lock).\nfunc (t *Table) lookupUnlocked(ip net.IP) *Route {\n", New: "\tdefer t.mu.RUnlock()\n\n"},
			}},
		},
	})
}

func runC08(p *kit.Program, r *kit.Report) {
	r.Rule("C08.R1", "every write that lets a metric enter a Table bucket (append, slot replacement, in-place metric store) is followed on every path to the function exit, under the same lock, by a sort of the same bucket; every other bucket write is an order-preserving removal")
	r.Rule("C08.R2", "the comparator of every sort applied to a Table bucket orders a before b when metric(a) < metric(b) and never when metric(a) > metric(b)")
	r.Rule("C08.R3", "one iteration of the lookup scan: a bucket is a candidate only on the true edge of Network.Contains(address), the candidate is element 0, the best candidate is replaced iff prefix longer, or equally long with a lower metric (truth table), the first candidate is always taken; nil is returned only when no candidate was set")
	r.Rule("C08.R4", "Table.Lookup runs the scan under the table lock with its own argument and Manager.Lookup returns its result unmodified")
	m := c08Build(p, r)
	if m == nil {
		return
	}
	tbl := m.cidrTable()
	if !r.Require(tbl != nil, "anchor-unresolved: table whose route type carries a *net.IPNet") {
		return
	}
	// bounded model of the table (shape-independent) as obligations of its own and as second
	// opinion on what the structural rules below do not recognise
	sem := m.sem()
	sem.report(r, "C08.R1", "sorted", "buckets stay sorted by metric under every operation", tbl,
		"element 0 of a bucket is not the lowest metric, which is the route lookups return")
	sem.report(r, "C08.R3", "lookup", "Lookup returns the longest containing prefix with the lowest metric", tbl,
		"the lookup does not return the longest-prefix, lowest-metric route")
	defer sem.override(r, func(rule, key, detail string) string {
		switch rule {
		case "C08.R1":
			if strings.Contains(key, " bucket ") && !strings.HasSuffix(key, " lock") {
				return "sorted"
			}
		case "C08.R2":
			return "sorted"
		case "C08.R3":
			for _, sub := range []string{"candidate containment", "candidate is bucket head", "replace table", " result"} {
				if strings.HasSuffix(key, sub) {
					return "lookup"
				}
			}
		}
		return ""
	}, func(floor string) (string, *c08Table) {
		if strings.HasPrefix(floor, "floor:") {
			return "sorted", m.tableNamed(floor)
		}
		return "", nil
	})
	counts := m.checkSorted(r, "C08.R1", "C08.R2", []*c08Table{tbl})
	for k, v := range counts {
		r.Count("bucket_writes_"+strings.ReplaceAll(k, " ", "_"), v)
	}
	r.Require(counts[tbl.name+" insert"] >= 1, "floor: no insertion into a %s bucket found", tbl.name)
	r.Require(counts[tbl.name+" replace"]+counts[tbl.name+" inplace"] >= 1, "floor: no update of a stored %s route found", tbl.name)
	r.Require(counts[tbl.name+" rewrite"] >= 2, "floor: fewer than 2 order-preserving removals on %s buckets", tbl.name)
	r.Require(counts[tbl.name+" sort"] >= 1, "floor: no sort of a %s bucket found", tbl.name)
	r.Count("functions_analysed", len(m.funcs))

	// ---- R3: the scan function(s): methods of the table returning *R that range over the bucket map
	var scans []*ssa.Function
	for _, fn := range p.Methods(c08Pkg, tbl.name) {
		res := fn.Signature.Results()
		if res.Len() != 1 || c08RouteOfPtr(res.At(0).Type()) != tbl.route {
			continue
		}
		if m.rangeOverBuckets(fn, tbl) != nil {
			scans = append(scans, fn)
		}
	}
	if !r.Require(len(scans) >= 1, "anchor-unresolved: no %s method returning *%s ranges over the bucket map", tbl.name, tbl.route.Obj().Name()) {
		return
	}
	isScan := map[*ssa.Function]bool{}
	for _, fn := range scans {
		isScan[fn] = true
		m.checkScan(r, tbl, fn)
	}
	r.Count("scan_functions", len(scans))

	// ---- R4: entry points
	entry := p.Func(c08Pkg, tbl.name, "Lookup")
	if !r.Require(entry != nil, "anchor-unresolved: %s.Lookup", tbl.name) {
		return
	}
	ename := kit.FuncName(entry)
	if !isScan[entry] {
		c, ok := c08WrapsScan(entry, tbl, isScan)
		r.Decide(ok, "C08.R4", ename+" returns the scan result", p.Pos(entry.Pos()),
			"every return is the result of the scan called with the receiver and the address argument",
			"Table.Lookup does not return the scan's result for its own argument unmodified: the route handed out is not the longest-prefix, lowest-metric one")
		if c != nil {
			_, held := kit.Locks(entry).HeldAt(c, tbl.mu)
			r.Decide(held, "C08.R4", ename+" scan under lock", p.Pos(c.Pos()),
				"the scan runs with the table mutex held",
				"the scan runs without the table mutex: a concurrent AddRoute between append and sort exposes an unsorted bucket (and races on the map)")
		}
	} else {
		held := false
		if rg := m.rangeOverBuckets(entry, tbl); rg != nil {
			_, held = kit.Locks(entry).HeldAt(rg, tbl.mu)
		}
		r.Decide(held, "C08.R4", ename+" scan under lock", p.Pos(entry.Pos()),
			"the scan runs with the table mutex held",
			"the scan runs without the table mutex: a concurrent AddRoute between append and sort exposes an unsorted bucket (and races on the map)")
	}
	// Manager: struct with a field of type *Table; its methods returning *R
	nMgr := 0
	for _, nm := range p.Package(c08Pkg).Types.Scope().Names() {
		n := p.NamedType(c08Pkg, nm)
		if n == nil || m.byType[n] != nil {
			continue
		}
		has := false
		for _, f := range kit.StructFields(n) {
			if pt, ok := f.Type().(*types.Pointer); ok && pt.Elem() == types.Type(tbl.named) {
				has = true
			}
		}
		if !has {
			continue
		}
		for _, fn := range p.Methods(c08Pkg, nm) {
			res := fn.Signature.Results()
			if res.Len() != 1 || c08RouteOfPtr(res.At(0).Type()) != tbl.route || fn.Name() != "Lookup" {
				continue
			}
			nMgr++
			c := c08ReturnedCall(fn)
			ok := c != nil && kit.CalleeOf(c).Static == entry && len(fn.Params) == 2 && len(c.Call.Args) == 2 && c.Call.Args[1] == ssa.Value(fn.Params[1])
			if ok {
				f, base := c08Field(c.Call.Args[0])
				ok = f != nil && base == ssa.Value(fn.Params[0])
			}
			r.Decide(ok, "C08.R4", kit.FuncName(fn)+" returns the table lookup", p.Pos(fn.Pos()),
				"every return is the result of Table.Lookup on the manager's table for the address argument",
				"Manager.Lookup does not hand out Table.Lookup's result for its own argument unmodified")
		}
	}
	r.Require(nMgr >= 1, "anchor-unresolved: Manager.Lookup (method named Lookup returning *%s on the struct holding *%s)", tbl.route.Obj().Name(), tbl.name)
}

// c08WrapsScan: entry calls one scan function with its own receiver and address and every
// return hands out that call's result, a copy of it made by a one-argument helper of the
// package (Clone), or nil — nil only where the scan's result was tested to be nil or for an
// empty argument / empty table. Result variables, phis and early returns are looked through.
func c08WrapsScan(entry *ssa.Function, tbl *c08Table, isScan map[*ssa.Function]bool) (*ssa.Call, bool) {
	var scan *ssa.Call
	n := 0
	kit.Instrs(entry, func(in ssa.Instruction) {
		if c, ok := in.(*ssa.Call); ok && isScan[kit.CalleeOf(c).Static] {
			scan = c
			n++
		}
	})
	if n != 1 || len(entry.Params) != 2 || len(scan.Call.Args) != 2 ||
		c08Resolve(scan.Call.Args[0]) != ssa.Value(entry.Params[0]) || c08Resolve(scan.Call.Args[1]) != ssa.Value(entry.Params[1]) {
		return scan, false
	}
	fromScan := func(v ssa.Value) bool {
		v = c08Resolve(v)
		if v == ssa.Value(scan) {
			return true
		}
		if c, ok := v.(*ssa.Call); ok && kit.CalleeOf(c).Static != nil && kit.FuncPkgPath(kit.CalleeOf(c).Static) == kit.PkgPath(c08Pkg) &&
			len(c.Call.Args) == 1 && c08RouteOfPtr(c.Call.Args[0].Type()) == tbl.route && c08RouteOfPtr(c.Type()) == tbl.route {
			return c08Resolve(c.Call.Args[0]) == ssa.Value(scan)
		}
		return false
	}
	nilTested := func(ret *ssa.Return) bool {
		for _, g := range kit.Guards(ret.Block()) {
			c, pol := c08NormCond(g.Cond, g.Polarity)
			b, ok := c.(*ssa.BinOp)
			if !ok || (b.Op != token.EQL && b.Op != token.NEQ) {
				continue
			}
			var other ssa.Value
			if kit.IsNilConst(b.Y) {
				other = b.X
			} else if kit.IsNilConst(b.X) {
				other = b.Y
			}
			if other != nil && c08Resolve(other) == ssa.Value(scan) && (b.Op == token.EQL) == pol {
				return true
			}
		}
		return false
	}
	for _, ret := range kit.Returns(entry) {
		if ret.Block() == entry.Recover {
			continue
		}
		if len(ret.Results) != 1 {
			return scan, false
		}
		v := kit.ReturnResult(ret, 0)
		for _, leaf := range kit.PhiLeaves(c08Resolve(v)) {
			if kit.IsNilConst(leaf) {
				if kit.IsNilConst(v) && !(nilTested(ret) || c08TrivialNilReturn(entry, ret)) {
					return scan, false
				}
				continue
			}
			if !fromScan(leaf) {
				return scan, false
			}
		}
	}
	return scan, true
}

// rangeOverBuckets returns the Range instruction of fn over a bucket map field of tbl loaded
// from the receiver, or nil.
func (m *c08Model) rangeOverBuckets(fn *ssa.Function, tbl *c08Table) *ssa.Range {
	var out *ssa.Range
	kit.Instrs(fn, func(in ssa.Instruction) {
		rg, ok := in.(*ssa.Range)
		if !ok || c08RouteOfMap(rg.X.Type()) != tbl.route {
			return
		}
		if f, base := c08Field(rg.X); f != nil && len(fn.Params) > 0 && base == ssa.Value(fn.Params[0]) {
			out = rg
		}
	})
	return out
}

// checkScan decides C08.R3 on one scan function.
func (m *c08Model) checkScan(r *kit.Report, tbl *c08Table, fn *ssa.Function) {
	p := m.p
	fname := kit.FuncName(fn)
	pos := p.Pos(fn.Pos())
	for _, sub := range []string{"replace table", "candidate containment", "candidate is bucket head", "result"} {
		m.note("C08.R3", fname+" "+sub, tbl)
	}
	fail := func(sub, msg string) {
		r.Violation("C08.R3", fname+" "+sub, pos, "%s", msg)
	}
	rg := m.rangeOverBuckets(fn, tbl)
	// the returned best candidate: a phi in the loop header with a nil edge
	var best *ssa.Phi
	for _, ret := range kit.Returns(fn) {
		if ret.Block() == fn.Recover || len(ret.Results) != 1 {
			continue
		}
		v := kit.ReturnResult(ret, 0)
		if c, ok := v.(*ssa.Call); ok && kit.CalleeOf(c).Static != nil && len(c.Call.Args) == 1 && c08RouteOfPtr(c.Call.Args[0].Type()) == tbl.route {
			v = c.Call.Args[0] // Clone(best)
		}
		if ph, ok := v.(*ssa.Phi); ok {
			best = ph
		}
	}
	if best == nil {
		fail("replace table", "the scan does not return a best candidate carried through the bucket loop (a loop-carried *Route variable, possibly cloned): longest-prefix selection over all buckets cannot be established")
		return
	}
	h := best.Block()
	var next *ssa.Next
	for _, in := range h.Instrs {
		if nx, ok := in.(*ssa.Next); ok && nx.Iter == ssa.Value(rg) {
			next = nx
		}
	}
	body, exit := c08LoopSuccs(h)
	if next == nil || body == nil || exit == nil {
		fail("replace table", "the best candidate is not carried by the loop that ranges over the table's bucket map")
		return
	}
	var bestLen *ssa.Phi
	for _, in := range h.Instrs {
		if ph, ok := in.(*ssa.Phi); ok && ph != best {
			if b, ok := ph.Type().Underlying().(*types.Basic); ok && b.Info()&types.IsInteger != 0 {
				// the prefix-length variable: receives a Mask.Size() result somewhere
				for _, l := range kit.PhiLeaves(ph) {
					if m.isOnes(l) != nil {
						bestLen = ph
					}
				}
			}
		}
	}
	// classification helpers
	isBucket := func(s ssa.Value) bool {
		b := m.bucketOf(s)
		return b != nil && b.next == next
	}
	// while a predicate helper of the package is being evaluated, its parameters stand for the
	// caller's arguments
	var curSub c08Sub
	tr := func(v ssa.Value) ssa.Value { return c08Subst(c08Resolve(kit.Unwrap(v)), curSub) }
	isCand := func(v ssa.Value) (*ssa.IndexAddr, bool) { // element of this iteration's bucket
		v = tr(v)
		u, ok := v.(*ssa.UnOp)
		if !ok || u.Op != token.MUL {
			return nil, false
		}
		ia, ok := u.X.(*ssa.IndexAddr)
		if !ok || !isBucket(ia.X) {
			return nil, false
		}
		return ia, true
	}
	onesSide := func(v ssa.Value) string { // "cand" | "best" | ""
		v = tr(v)
		if v == ssa.Value(bestLen) && bestLen != nil {
			return "best"
		}
		if base := m.isOnes(v); base != nil {
			if _, ok := isCand(base); ok {
				return "cand"
			}
			if tr(base) == ssa.Value(best) {
				return "best"
			}
		}
		return ""
	}
	metricSide := func(v ssa.Value) string {
		f, base := c08Field(tr(v))
		if f == nil || f != tbl.rf["Metric"] {
			return ""
		}
		if _, ok := isCand(base); ok {
			return "cand"
		}
		if tr(base) == ssa.Value(best) {
			return "best"
		}
		return ""
	}
	ipDerived := func(v ssa.Value) bool {
		for i := 0; i < 4; i++ {
			if len(fn.Params) >= 2 && v == ssa.Value(fn.Params[1]) {
				return true
			}
			c, ok := v.(*ssa.Call)
			if !ok {
				return false
			}
			cal := kit.CalleeOf(c)
			if cal.Pkg == "net" && cal.Recv == "IP" && (cal.Name == "To16" || cal.Name == "To4") && len(c.Call.Args) == 1 {
				v = c.Call.Args[0]
				continue
			}
			return false
		}
		return false
	}
	isContains := func(v ssa.Value) (c *ssa.Call, wellFormed bool) {
		c, ok := v.(*ssa.Call)
		if !ok {
			return nil, false
		}
		cal := kit.CalleeOf(c)
		if !(cal.Pkg == "net" && cal.Recv == "IPNet" && cal.Name == "Contains") || len(c.Call.Args) != 2 {
			return nil, false
		}
		f, base := c08Field(c.Call.Args[0])
		_, candOK := isCand(base)
		return c, f != nil && f.Name() == "Network" && candOK && ipDerived(c.Call.Args[1])
	}

	type scen struct {
		contains bool
		bestNil  bool
		ordLen   kit.Ordering
		ordMet   kit.Ordering
	}
	badContains := ""
	var mkAtom func(s scen, metKnown bool) kit.AtomEval
	predDepth := 0
	mkAtom = func(s scen, metKnown bool) kit.AtomEval {
		return func(c ssa.Value) (bool, bool) {
			if u, ok := c.(*ssa.UnOp); ok && u.Op == token.MUL {
				if cv, ok := c08CellValue(u); ok {
					c = cv
				}
			}
			if predDepth < 2 {
				if g, sub2, ok := c08PredCall(c, curSub); ok {
					save := curSub
					curSub = sub2
					predDepth++
					v, known := c08EvalPred(g, mkAtom(s, metKnown))
					predDepth--
					curSub = save
					return v, known
				}
			}
			if call, wf := isContains(c); call != nil {
				if !wf {
					badContains = "Contains at " + p.Pos(call.Pos()) + " is not applied to the candidate's network and the looked-up address"
					return false, false
				}
				return s.contains, true
			}
			b, ok := c.(*ssa.BinOp)
			if !ok {
				return false, false
			}
			// len(bucket) against a constant: the bucket holds one route
			lenOf := func(v ssa.Value) bool {
				cl, ok := v.(*ssa.Call)
				return ok && kit.CalleeOf(cl).Built == "len" && isBucket(cl.Call.Args[0])
			}
			if lenOf(b.X) {
				if k, ok := kit.ConstInt(b.Y); ok {
					return kit.CmpUnder(b.Op, c08Sign(1-k)), true
				}
			}
			if lenOf(b.Y) {
				if k, ok := kit.ConstInt(b.X); ok {
					return kit.CmpUnder(b.Op, c08Sign(k-1)), true
				}
			}
			// nil tests
			if b.Op == token.EQL || b.Op == token.NEQ {
				var other ssa.Value
				if kit.IsNilConst(b.Y) {
					other = b.X
				} else if kit.IsNilConst(b.X) {
					other = b.Y
				}
				if other != nil {
					isNil := false
					if tr(other) == ssa.Value(best) {
						isNil = s.bestNil
					}
					return isNil == (b.Op == token.EQL), true
				}
			}
			// a bool temp compared with a constant (ok == false)
			if cb, ok := kit.ConstBool(b.Y); ok && (b.Op == token.EQL || b.Op == token.NEQ) {
				if call, wf := isContains(b.X); call != nil && wf {
					return (s.contains == cb) == (b.Op == token.EQL), true
				}
			}
			lx, ly := onesSide(b.X), onesSide(b.Y)
			if lx == "cand" && ly == "best" {
				return kit.CmpUnder(b.Op, s.ordLen), true
			}
			if lx == "best" && ly == "cand" {
				return kit.CmpUnder(b.Op, -s.ordLen), true
			}
			mx, my := metricSide(b.X), metricSide(b.Y)
			if (mx == "cand" && my == "best") || (mx == "best" && my == "cand") {
				if !metKnown || s.bestNil {
					return false, false
				}
				if mx == "cand" {
					return kit.CmpUnder(b.Op, s.ordMet), true
				}
				return kit.CmpUnder(b.Op, -s.ordMet), true
			}
			return false, false
		}
	}
	// one iteration under scenario s: returns (replaced, candidate value, description of a defect)
	step := func(s scen) (replaced bool, cand ssa.Value, defect string) {
		res := kit.WalkCFG(body, mkAtom(s, true), func(b *ssa.BasicBlock) bool { return b == h })
		if !res.Known {
			if badContains != "" {
				return false, nil, badContains
			}
			return false, nil, "the iteration consults a condition at " + p.Pos(c08LastPos(res.Block)) + " that is not one of: bucket emptiness, Contains, prefix-length comparison, metric comparison, best==nil"
		}
		if !res.Stopped {
			return false, nil, "the iteration leaves the scan (returns) before all buckets have been considered"
		}
		pred := res.Path[len(res.Path)-2]
		in := c08PhiIncoming(best, pred)
		if in == nil {
			return false, nil, "cannot determine the best candidate after the iteration"
		}
		replaced = in != ssa.Value(best)
		if bestLen != nil {
			lin := c08PhiIncoming(bestLen, pred)
			if replaced {
				base := m.isOnes(lin)
				if base == nil || base != in {
					return replaced, in, "the best candidate is replaced but the recorded best prefix length is not the candidate's Mask.Size(): later buckets are compared against a stale length"
				}
			} else if lin != ssa.Value(bestLen) {
				return replaced, in, "the recorded best prefix length changes although the best candidate is kept"
			}
		}
		return replaced, in, ""
	}

	// --- every result comes out of the scan (no fast path, cache or early return)
	loopBlocks := c08NaturalLoop(h)
	var early []string
	for _, ret := range kit.Returns(fn) {
		if ret.Block() == fn.Recover || len(ret.Results) != 1 {
			continue
		}
		after := ret.Block() == exit || exit.Dominates(ret.Block())
		v := kit.ReturnResult(ret, 0)
		if c, ok := v.(*ssa.Call); ok && kit.CalleeOf(c).Static != nil && len(c.Call.Args) == 1 && c08RouteOfPtr(c.Call.Args[0].Type()) == tbl.route {
			v = c.Call.Args[0]
		}
		switch {
		case after && (kit.IsNilConst(v) || v == ssa.Value(best)):
			// judged by the result obligation below
		case after:
			early = append(early, "the return at "+p.Pos(ret.Pos())+" after the scan hands out something other than the best candidate")
		case loopBlocks[ret.Block()]:
			early = append(early, "the return at "+p.Pos(ret.Pos())+" leaves the scan before every bucket has been considered")
		case kit.IsNilConst(v):
			if !c08TrivialNilReturn(fn, ret) {
				early = append(early, "nil is returned at "+p.Pos(ret.Pos())+" before the scan on a condition other than a nil/empty address or an empty table (a stored route containing the address is not reported)")
			}
		default:
			early = append(early, "a route is returned at "+p.Pos(ret.Pos())+" without the scan over all buckets (fast path / cache / early return): a longer stored prefix containing the address, or a lower metric, is never looked at")
		}
	}
	r.Decide(len(early) == 0, "C08.R3", fname+" every result comes out of the scan", pos,
		"every return lies behind the complete scan and returns the best candidate or nil",
		strings.Join(early, "; "))

	// --- containment and head-of-bucket, per candidate leaf
	nCand := 0
	headOK, headBad := true, ""
	for _, l := range kit.PhiLeaves(best) {
		if kit.IsNilConst(l) {
			continue
		}
		nCand++
		ia, ok := isCand(l)
		if !ok {
			headOK, headBad = false, "a best candidate is not an element of the bucket of the current iteration"
			continue
		}
		if k, isc := kit.ConstInt(ia.Index); !isc || k != 0 {
			headOK, headBad = false, "the candidate taken from a prefix bucket is not element 0 (the lowest metric after sorting)"
		}
	}
	if nCand == 0 {
		headOK, headBad = false, "the scan never sets a candidate"
	}
	r.Decide(headOK, "C08.R3", fname+" candidate is bucket head", pos,
		"every candidate is element 0 of the current bucket", headBad+": the returned route is not the lowest-metric route of the longest matching prefix")

	// containment: not contained -> kept in every cell; contained first candidate -> replaced
	contBad := ""
	for _, bn := range []bool{true, false} {
		for _, ol := range []kit.Ordering{kit.Less, kit.Equal, kit.Greater} {
			for _, om := range []kit.Ordering{kit.Less, kit.Equal, kit.Greater} {
				rep, _, d := step(scen{contains: false, bestNil: bn, ordLen: ol, ordMet: om})
				if d == "" && rep {
					contBad = "a bucket whose network does not contain the address can become the best candidate"
				}
				if badContains != "" {
					contBad = badContains
				}
			}
		}
	}
	sawContains := false
	kit.Instrs(fn, func(in ssa.Instruction) {
		if c, ok := in.(*ssa.Call); ok {
			if cc, wf := isContains(c); cc != nil && wf {
				sawContains = true
			}
		}
	})
	if !sawContains && contBad == "" {
		contBad = "no Network.Contains(address) test on the candidate in the scan"
	}
	r.Decide(contBad == "", "C08.R3", fname+" candidate containment", pos,
		"a bucket is considered only on the true edge of candidate.Network.Contains(address)",
		contBad+": the lookup can return a route whose network does not contain the address")

	// replace table
	var tblBad []string
	// first candidate: best == nil, prefix ordering fixed by the initial value
	firstOrds := []kit.Ordering{kit.Less, kit.Equal, kit.Greater}
	if bestLen != nil {
		for i, pr := range h.Preds {
			if !h.Dominates(pr) { // entry edge
				if c0, ok := kit.ConstInt(bestLen.Edges[i]); ok && c0 < 0 {
					firstOrds = []kit.Ordering{kit.Greater}
				}
			}
		}
	}
	for _, ol := range firstOrds {
		rep, _, d := step(scen{contains: true, bestNil: true, ordLen: ol, ordMet: kit.Equal})
		if d != "" {
			tblBad = append(tblBad, fmt.Sprintf("first candidate (prefix %s initial best): %s", c08OrdName(ol), d))
		} else if !rep {
			tblBad = append(tblBad, fmt.Sprintf("first matching bucket is not taken when its prefix length is %s the initial best value (initial value must lie below every prefix length, /0 included)", c08OrdName(ol)))
		}
	}
	for _, ol := range []kit.Ordering{kit.Less, kit.Equal, kit.Greater} {
		for _, om := range []kit.Ordering{kit.Less, kit.Equal, kit.Greater} {
			want := ol == kit.Greater || (ol == kit.Equal && om == kit.Less)
			rep, _, d := step(scen{contains: true, bestNil: false, ordLen: ol, ordMet: om})
			if d != "" {
				tblBad = append(tblBad, fmt.Sprintf("prefix %s, metric %s: %s", c08OrdName(ol), c08OrdName(om), d))
			} else if rep != want {
				tblBad = append(tblBad, fmt.Sprintf("prefix %s best and metric %s best: replaced=%v, expected %v", c08OrdName(ol), c08OrdName(om), rep, want))
			}
		}
	}
	r.Decide(len(tblBad) == 0, "C08.R3", fname+" replace table", pos,
		"9-cell table (prefix length x metric) and first-candidate cell match: replace iff longer prefix, or equal prefix and lower metric",
		"best-candidate update deviates from longest-prefix/lowest-metric: "+strings.Join(tblBad, "; ")+" — e.g. two buckets with the same prefix length containing the address (a prefix advertised with host bits set is a distinct key) make the lookup return the higher metric")

	// result: walk from the loop exit
	resBad := ""
	for _, bn := range []bool{true, false} {
		res := kit.WalkCFG(exit, mkAtom(scen{bestNil: bn}, false), nil)
		if exit != nil && len(exit.Instrs) > 0 {
			// WalkCFG does not evaluate stop on the start block; start is the exit block itself
		}
		if !res.Known || res.Block == nil {
			resBad = "the code after the scan consults a condition other than best==nil"
			continue
		}
		ret, ok := res.Block.Instrs[len(res.Block.Instrs)-1].(*ssa.Return)
		if !ok || len(ret.Results) != 1 {
			resBad = "the scan does not end in a return"
			continue
		}
		v := kit.ReturnResult(ret, 0)
		if ph, ok := v.(*ssa.Phi); ok && ph != best && len(res.Path) >= 2 {
			if in := c08PhiIncoming(ph, res.Path[len(res.Path)-2]); in != nil {
				v = in
			}
		}
		fromBest := v == ssa.Value(best)
		if c, ok := v.(*ssa.Call); ok && len(c.Call.Args) == 1 && c.Call.Args[0] == ssa.Value(best) {
			fromBest = true
		}
		switch {
		case bn && !(kit.IsNilConst(v) || v == ssa.Value(best)):
			resBad = "a non-nil result is produced although no candidate was found"
		case !bn && !fromBest:
			resBad = "nil (or something other than the best candidate) is returned although a candidate was found"
		}
	}
	r.Decide(resBad == "", "C08.R3", fname+" result", pos,
		"returns (a copy of) the best candidate when one was set and nil otherwise", resBad)
}

// isOnes: v is result #0 of net.IPMask.Size() applied to X.Network.Mask: returns X.
func (m *c08Model) isOnes(v ssa.Value) ssa.Value {
	ex, ok := v.(*ssa.Extract)
	if !ok || ex.Index != 0 {
		return nil
	}
	c, ok := ex.Tuple.(*ssa.Call)
	if !ok {
		return nil
	}
	cal := kit.CalleeOf(c)
	if !(cal.Pkg == "net" && cal.Recv == "IPMask" && cal.Name == "Size") || len(c.Call.Args) != 1 {
		return nil
	}
	f, base := c08Field(c.Call.Args[0])
	if f == nil || f.Name() != "Mask" {
		return nil
	}
	f2, base2 := c08Field(base)
	if f2 == nil || f2.Name() != "Network" {
		return nil
	}
	return base2
}

func c08Sign(x int64) kit.Ordering {
	switch {
	case x < 0:
		return kit.Less
	case x > 0:
		return kit.Greater
	}
	return kit.Equal
}

func c08OrdName(o kit.Ordering) string {
	switch o {
	case kit.Less:
		return "<"
	case kit.Greater:
		return ">"
	}
	return "="
}

func c08LastPos(b *ssa.BasicBlock) token.Pos {
	if b == nil {
		return token.NoPos
	}
	for i := len(b.Instrs) - 1; i >= 0; i-- {
		if b.Instrs[i].Pos().IsValid() {
			return b.Instrs[i].Pos()
		}
	}
	return token.NoPos
}

// c08Table is one route table type (Table, DomainTable, ForwardTable, AgentTable today).
type c08Table struct {
	named   *types.Named
	name    string
	route   *types.Named          // element struct type R of the buckets ([]*R)
	buckets []*types.Var          // fields of type map[K][]*R
	mu      *types.Var            // sync.(RW)Mutex field
	localID *types.Var            // field with the type of R.OriginAgent
	rf      map[string]*types.Var // fields of R by name
}

// c08Bucket names one bucket (map, key) by canonical expressions.
type c08Bucket struct {
	mapCanon, keyCanon string
	mapVal, keyVal     ssa.Value
	next               *ssa.Next // set when the bucket is the value of a map range
	tbl                *c08Table
}

func (b *c08Bucket) same(o *c08Bucket) bool {
	return b != nil && o != nil && b.mapCanon == o.mapCanon && b.keyCanon == o.keyCanon
}

// c08Event is one write that can change the content or order of a bucket.
type c08Event struct {
	fn        *ssa.Function
	instr     ssa.Instruction
	kind      string // insert | replace | inplace | rewrite | delete | reset | reset-unknown
	bucket    *c08Bucket
	tbl       *c08Table
	needsSort bool
	val       ssa.Value // stored value (insert: the new slice; replace: the element)
	index     ssa.Value // replace: slot index
}

// c08Sort is one call of a std sort on a []*R value.
type c08Sort struct {
	fn         *ssa.Function
	call       ssa.CallInstruction
	sliceVal   ssa.Value
	bucket     *c08Bucket     // nil when the sorted slice is a parameter
	sliceParam *ssa.Parameter // sorted slice is this parameter (helper taking the bucket)
	cmp        *ssa.Function
	indexStyle bool // less(i, j int) bool; false: cmp(a, b *R) int
	tbl        *c08Table
}

type c08SortSite struct {
	instr  ssa.Instruction
	bucket *c08Bucket
	srt    *c08Sort
}

type c08Model struct {
	p       *kit.Program
	tables  []*c08Table
	byRoute map[*types.Named]*c08Table
	byType  map[*types.Named]*c08Table
	funcs   []*ssa.Function
	events  []*c08Event
	sorts   []*c08Sort
	semc    *c08Sem
}

func c08IsRouteStruct(n *types.Named) map[string]*types.Var {
	st, ok := n.Underlying().(*types.Struct)
	if !ok {
		return nil
	}
	rf := map[string]*types.Var{}
	for i := 0; i < st.NumFields(); i++ {
		rf[st.Field(i).Name()] = st.Field(i)
	}
	for _, need := range []string{"Metric", "Sequence", "NextHop", "OriginAgent", "Path", "LastUpdate"} {
		if rf[need] == nil {
			return nil
		}
	}
	if b, ok := rf["Metric"].Type().Underlying().(*types.Basic); !ok || b.Info()&types.IsInteger == 0 {
		return nil
	}
	return rf
}

// c08RouteOfSlice: t is []*R for a named struct R -> R.
func c08RouteOfSlice(t types.Type) *types.Named {
	sl, ok := t.Underlying().(*types.Slice)
	if !ok {
		return nil
	}
	pt, ok := sl.Elem().(*types.Pointer)
	if !ok {
		return nil
	}
	n, _ := pt.Elem().(*types.Named)
	return n
}

// c08RouteOfMap: t is map[K][]*R -> R.
func c08RouteOfMap(t types.Type) *types.Named {
	mp, ok := t.Underlying().(*types.Map)
	if !ok {
		return nil
	}
	return c08RouteOfSlice(mp.Elem())
}

func c08RouteOfPtr(t types.Type) *types.Named {
	pt, ok := t.(*types.Pointer)
	if !ok {
		return nil
	}
	n, _ := pt.Elem().(*types.Named)
	return n
}

func c08Build(p *kit.Program, r *kit.Report) *c08Model {
	m := &c08Model{p: p, byRoute: map[*types.Named]*c08Table{}, byType: map[*types.Named]*c08Table{}}
	pk := p.Package(c08Pkg)
	if !r.Require(pk != nil && pk.Types != nil, "anchor-unresolved: package %s not loaded", c08Pkg) {
		return nil
	}
	scope := pk.Types.Scope()
	routes := map[*types.Named]map[string]*types.Var{}
	for _, nm := range scope.Names() {
		tn, ok := scope.Lookup(nm).(*types.TypeName)
		if !ok {
			continue
		}
		n, ok := tn.Type().(*types.Named)
		if !ok {
			continue
		}
		if rf := c08IsRouteStruct(n); rf != nil {
			routes[n] = rf
		}
	}
	for _, nm := range scope.Names() {
		tn, ok := scope.Lookup(nm).(*types.TypeName)
		if !ok {
			continue
		}
		n, ok := tn.Type().(*types.Named)
		if !ok {
			continue
		}
		var t *c08Table
		for _, f := range kit.StructFields(n) {
			if rt := c08RouteOfMap(f.Type()); rt != nil && routes[rt] != nil {
				if t == nil {
					t = &c08Table{named: n, name: nm, route: rt, rf: routes[rt]}
				}
				if rt == t.route {
					t.buckets = append(t.buckets, f)
				}
			}
		}
		if t == nil {
			continue
		}
		nLocal := 0
		for _, f := range kit.StructFields(n) {
			if fn, ok := f.Type().(*types.Named); ok && fn.Obj().Pkg() != nil && fn.Obj().Pkg().Path() == "sync" {
				t.mu = f
			}
			if types.Identical(f.Type(), t.rf["OriginAgent"].Type()) {
				t.localID = f
				nLocal++
			}
		}
		if nLocal != 1 {
			t.localID = nil
		}
		m.tables = append(m.tables, t)
		m.byRoute[t.route] = t
		m.byType[n] = t
	}
	sort.Slice(m.tables, func(i, j int) bool { return m.tables[i].name < m.tables[j].name })
	if !r.Require(len(m.tables) >= 4, "anchor-unresolved: expected at least 4 route table types (struct with a map[K][]*Route field) in %s, found %d", c08Pkg, len(m.tables)) {
		return nil
	}
	for _, t := range m.tables {
		r.Require(t.mu != nil, "anchor-unresolved: mutex field of %s", t.name)
		r.Require(t.localID != nil, "anchor-unresolved: local agent id field of %s", t.name)
	}
	m.funcs = p.FuncsInPkg(c08Pkg)
	m.scan()
	return m
}

func (m *c08Model) table(name string) *c08Table {
	for _, t := range m.tables {
		if t.name == name {
			return t
		}
	}
	return nil
}

// cidrTable: the table whose route type carries a *net.IPNet (longest-prefix table).
func (m *c08Model) cidrTable() *c08Table {
	for _, t := range m.tables {
		for _, f := range t.rf {
			if pt, ok := f.Type().(*types.Pointer); ok {
				if n, ok := pt.Elem().(*types.Named); ok && n.Obj().Pkg() != nil && n.Obj().Pkg().Path() == "net" && n.Obj().Name() == "IPNet" {
					return t
				}
			}
		}
	}
	return nil
}

// ---------- canonical expressions ----------

func c08Ident(v ssa.Value) string {
	if v.Parent() != nil {
		return v.Parent().String() + "#" + v.Name()
	}
	return v.Name()
}

// c08Binding resolves a free variable of a closure to the value bound at its MakeClosure.
func c08Binding(fv *ssa.FreeVar) ssa.Value {
	fn := fv.Parent()
	parent := fn.Parent()
	if parent == nil {
		return nil
	}
	idx := -1
	for i, f := range fn.FreeVars {
		if f == fv {
			idx = i
		}
	}
	if idx < 0 {
		return nil
	}
	var out ssa.Value
	kit.Instrs(parent, func(in ssa.Instruction) {
		if mc, ok := in.(*ssa.MakeClosure); ok && mc.Fn == ssa.Value(fn) && idx < len(mc.Bindings) {
			out = mc.Bindings[idx]
		}
	})
	return out
}

// c08SingleStore returns the only store into a local cell, or nil.
func c08SingleStore(a *ssa.Alloc) *ssa.Store {
	if a.Referrers() == nil {
		return nil
	}
	var st *ssa.Store
	n := 0
	for _, ref := range *a.Referrers() {
		if s, ok := ref.(*ssa.Store); ok && s.Addr == ssa.Value(a) {
			st = s
			n++
		}
	}
	if n == 1 {
		return st
	}
	return nil
}

// c08CellValue: v is a load of a local cell (directly or through a captured variable) that is
// stored exactly once: returns the stored value.
func c08CellValue(v ssa.Value) (ssa.Value, bool) {
	u, ok := v.(*ssa.UnOp)
	if !ok || u.Op != token.MUL {
		return nil, false
	}
	var cell ssa.Value = u.X
	for i := 0; i < 4; i++ {
		if fv, ok := cell.(*ssa.FreeVar); ok {
			cell = c08Binding(fv)
			continue
		}
		break
	}
	if a, ok := cell.(*ssa.Alloc); ok {
		if st := c08SingleStore(a); st != nil {
			return st.Val, true
		}
	}
	return nil, false
}

type c08Sub map[*ssa.Parameter]ssa.Value

func c08Canon(v ssa.Value) string { return c08CanonSub(v, nil, 0) }

// c08CanonSub renders a pure expression canonically: equal strings denote the same value
// (the same field of the same object, the same map bucket, the same parameter ...).
func c08CanonSub(v ssa.Value, sub c08Sub, d int) string {
	if v == nil {
		return "<nil>"
	}
	if d > 14 {
		return c08Ident(v)
	}
	rec := func(x ssa.Value) string { return c08CanonSub(x, sub, d+1) }
	switch x := v.(type) {
	case *ssa.Const:
		return "const(" + x.String() + ")"
	case *ssa.Parameter:
		if s, ok := sub[x]; ok {
			return c08CanonSub(s, nil, d+1)
		}
		return "param(" + c08Ident(x) + ")"
	case *ssa.FreeVar:
		if b := c08Binding(x); b != nil {
			return rec(b)
		}
		return "free(" + c08Ident(x) + ")"
	case *ssa.Alloc:
		return "cell(" + c08Ident(x) + ")"
	case *ssa.UnOp:
		if x.Op == token.MUL {
			if cv, ok := c08CellValue(x); ok {
				return rec(cv)
			}
			switch a := x.X.(type) {
			case *ssa.FieldAddr:
				f := kit.FieldOfAddr(a)
				fname := "?"
				if f != nil {
					fname = f.Name()
				}
				return "load(" + rec(a.X) + "." + fname + ")"
			case *ssa.IndexAddr:
				return "elem(" + rec(a.X) + "," + rec(a.Index) + ")"
			}
			return "deref(" + rec(x.X) + ")"
		}
		return x.Op.String() + "(" + rec(x.X) + ")"
	case *ssa.Field:
		f := kit.FieldOfAddr(x)
		fname := "?"
		if f != nil {
			fname = f.Name()
		}
		return "load(" + rec(x.X) + "." + fname + ")"
	case *ssa.Lookup:
		if x.CommaOk {
			return "lookupok(" + rec(x.X) + "," + rec(x.Index) + ")"
		}
		return "lookup(" + rec(x.X) + "," + rec(x.Index) + ")"
	case *ssa.Extract:
		if lk, ok := x.Tuple.(*ssa.Lookup); ok && x.Index == 0 {
			return "lookup(" + rec(lk.X) + "," + rec(lk.Index) + ")"
		}
		if nx, ok := x.Tuple.(*ssa.Next); ok {
			switch x.Index {
			case 1:
				return "rkey(" + c08Ident(nx) + ")"
			case 2:
				return "rval(" + c08Ident(nx) + ")"
			}
		}
		return fmt.Sprintf("ext%d(%s)", x.Index, rec(x.Tuple))
	case *ssa.Call:
		cal := kit.CalleeOf(x)
		if cal.Static != nil || cal.Built != "" {
			var as []string
			for _, a := range x.Call.Args {
				as = append(as, rec(a))
			}
			return "call " + cal.String() + "(" + strings.Join(as, ",") + ")"
		}
		return c08Ident(x)
	case *ssa.Convert:
		return rec(x.X)
	case *ssa.ChangeType:
		return rec(x.X)
	case *ssa.MakeInterface:
		return rec(x.X)
	case *ssa.Slice:
		return "slice(" + rec(x.X) + "," + rec(x.Low) + "," + rec(x.High) + ")"
	case *ssa.BinOp:
		return "(" + rec(x.X) + x.Op.String() + rec(x.Y) + ")"
	}
	return c08Ident(v)
}

// ---------- buckets ----------

func (m *c08Model) mkBucket(mp, key ssa.Value, sub c08Sub) *c08Bucket {
	rt := c08RouteOfMap(mp.Type())
	if rt == nil || m.byRoute[rt] == nil {
		return nil
	}
	return &c08Bucket{mapCanon: c08CanonSub(mp, sub, 0), keyCanon: c08CanonSub(key, sub, 0), mapVal: mp, keyVal: key, tbl: m.byRoute[rt]}
}

// bucketOf resolves a []*R value to the map bucket it denotes (nil: not a bucket, e.g. a
// freshly built result slice).
func (m *c08Model) bucketOf(s ssa.Value) *c08Bucket { return m.bucketOfD(s, 0) }

func (m *c08Model) bucketOfD(s ssa.Value, d int) *c08Bucket {
	if s == nil || d > 8 {
		return nil
	}
	switch x := s.(type) {
	case *ssa.Lookup:
		if !x.CommaOk {
			return m.mkBucket(x.X, x.Index, nil)
		}
	case *ssa.Extract:
		if lk, ok := x.Tuple.(*ssa.Lookup); ok && x.Index == 0 && lk.CommaOk {
			return m.mkBucket(lk.X, lk.Index, nil)
		}
		if nx, ok := x.Tuple.(*ssa.Next); ok && x.Index == 2 {
			if rg, ok := nx.Iter.(*ssa.Range); ok {
				rt := c08RouteOfMap(rg.X.Type())
				if rt == nil || m.byRoute[rt] == nil {
					return nil
				}
				return &c08Bucket{mapCanon: c08Canon(rg.X), keyCanon: "rkey(" + c08Ident(nx) + ")", mapVal: rg.X, next: nx, tbl: m.byRoute[rt]}
			}
		}
	case *ssa.UnOp:
		if cv, ok := c08CellValue(x); ok {
			return m.bucketOfD(cv, d+1)
		}
	case *ssa.Slice:
		return m.bucketOfD(x.X, d+1)
	case *ssa.Phi:
		var b *c08Bucket
		for _, e := range x.Edges {
			if e == ssa.Value(x) {
				continue
			}
			eb := m.bucketOfD(e, d+1)
			if eb == nil || (b != nil && !b.same(eb)) {
				return nil
			}
			b = eb
		}
		return b
	}
	return nil
}

// c08LoopIndex: i is a loop counter that only increases (range-over-slice lowering or a
// classic for i := c; ...; i++ loop). Returns the header phi.
func c08LoopIndex(i ssa.Value) (*ssa.Phi, bool) {
	incOf := func(phi *ssa.Phi) bool {
		inc := false
		for _, e := range phi.Edges {
			if e == ssa.Value(phi) {
				continue
			}
			if b, ok := e.(*ssa.BinOp); ok && b.Op == token.ADD && b.X == ssa.Value(phi) {
				if c, ok := kit.ConstInt(b.Y); ok && c > 0 {
					inc = true
					continue
				}
				return false
			}
			if b, ok := e.(*ssa.BinOp); ok && (b.Op == token.SUB || b.Op == token.ADD) {
				return false
			}
		}
		return inc
	}
	if b, ok := i.(*ssa.BinOp); ok && b.Op == token.ADD {
		if phi, ok := b.X.(*ssa.Phi); ok {
			if c, ok := kit.ConstInt(b.Y); ok && c > 0 && incOf(phi) {
				return phi, true
			}
		}
	}
	if phi, ok := i.(*ssa.Phi); ok && incOf(phi) {
		return phi, true
	}
	return nil, false
}

// elemOfBucket: e is *(&S[i]) with S a bucket; returns bucket, S and index.
func (m *c08Model) elemOfBucket(e ssa.Value) (*c08Bucket, *ssa.IndexAddr) {
	u, ok := e.(*ssa.UnOp)
	if !ok || u.Op != token.MUL {
		return nil, nil
	}
	ia, ok := u.X.(*ssa.IndexAddr)
	if !ok {
		return nil, nil
	}
	if b := m.bucketOf(ia.X); b != nil {
		return b, ia
	}
	return nil, nil
}

// c08VarargElems: bs is `slice arr[:]` over a fresh array literal: returns the stored elements.
func c08VarargElems(bs ssa.Value) ([]ssa.Value, bool) {
	sl, ok := bs.(*ssa.Slice)
	if !ok {
		return nil, false
	}
	a, ok := sl.X.(*ssa.Alloc)
	if !ok || a.Referrers() == nil {
		return nil, false
	}
	var out []ssa.Value
	for _, ref := range *a.Referrers() {
		ia, ok := ref.(*ssa.IndexAddr)
		if !ok {
			continue
		}
		if ia.Referrers() == nil {
			continue
		}
		for _, r2 := range *ia.Referrers() {
			if st, ok := r2.(*ssa.Store); ok && st.Addr == ssa.Value(ia) {
				out = append(out, st.Val)
			}
		}
	}
	return out, len(out) > 0
}

// c08GE: lo >= hi structurally (same value, or hi + non-negative constant).
func c08GE(lo, hi ssa.Value) bool {
	if lo == nil || hi == nil {
		return false
	}
	if lo == hi || c08Canon(lo) == c08Canon(hi) {
		return true
	}
	if b, ok := lo.(*ssa.BinOp); ok && b.Op == token.ADD {
		if c, ok := kit.ConstInt(b.Y); ok && c >= 0 && (b.X == hi || c08Canon(b.X) == c08Canon(hi)) {
			return true
		}
	}
	return false
}

// subseq: v is a subsequence of bucket b in bucket order (an order-preserving removal).
func (m *c08Model) subseq(v ssa.Value, b *c08Bucket, seen map[ssa.Value]bool) bool {
	if v == nil || seen[v] {
		return v != nil
	}
	seen[v] = true
	switch x := v.(type) {
	case *ssa.Const:
		return x.Value == nil // nil slice
	case *ssa.MakeSlice:
		n, ok := kit.ConstInt(x.Len)
		return ok && n == 0
	case *ssa.Slice:
		return b.same(m.bucketOf(x.X))
	case *ssa.Phi:
		for _, e := range x.Edges {
			if !m.subseq(e, b, seen) {
				return false
			}
		}
		return true
	case *ssa.UnOp:
		if cv, ok := c08CellValue(x); ok {
			return m.subseq(cv, b, seen)
		}
		if x.Op == token.MUL {
			// a local cell with several stores (captured or address-taken accumulator)
			if a, ok := x.X.(*ssa.Alloc); ok && a.Referrers() != nil {
				n := 0
				for _, ref := range *a.Referrers() {
					if st, ok := ref.(*ssa.Store); ok && st.Addr == ssa.Value(a) {
						n++
						if !m.subseq(st.Val, b, seen) {
							return false
						}
					}
				}
				return n > 0
			}
		}
	case *ssa.Call:
		cal := kit.CalleeOf(x)
		if cal.Built == "append" && len(x.Call.Args) == 2 {
			a, bs := x.Call.Args[0], x.Call.Args[1]
			if elems, ok := c08VarargElems(bs); ok {
				if !m.subseq(a, b, seen) {
					return false
				}
				for _, e := range elems {
					eb, ia := m.elemOfBucket(e)
					if !b.same(eb) {
						return false
					}
					if _, inc := c08LoopIndex(ia.Index); !inc {
						return false
					}
				}
				return true
			}
			// append(S[:i], S[j:]...) with j >= i
			as, ok1 := a.(*ssa.Slice)
			ys, ok2 := bs.(*ssa.Slice)
			if ok1 && ok2 && as.Low == nil && ys.High == nil && b.same(m.bucketOf(as.X)) && b.same(m.bucketOf(ys.X)) {
				return c08GE(ys.Low, as.High)
			}
			return false
		}
		if cal.Pkg == "slices" && (cal.Name == "Delete" || cal.Name == "DeleteFunc") && len(x.Call.Args) >= 1 {
			return b.same(m.bucketOf(x.Call.Args[0]))
		}
	}
	return false
}

// ---------- scan: events and sorts ----------

func (m *c08Model) scan() {
	for _, fn := range m.funcs {
		fn := fn
		kit.Instrs(fn, func(in ssa.Instruction) {
			switch x := in.(type) {
			case *ssa.MapUpdate:
				rt := c08RouteOfMap(x.Map.Type())
				if rt == nil || m.byRoute[rt] == nil {
					return
				}
				b := m.mkBucket(x.Map, x.Key, nil)
				ev := &c08Event{fn: fn, instr: in, bucket: b, tbl: b.tbl, val: x.Value}
				if m.subseq(x.Value, b, map[ssa.Value]bool{}) {
					ev.kind = "rewrite"
				} else {
					ev.kind, ev.needsSort = "insert", true
				}
				m.events = append(m.events, ev)
			case *ssa.Store:
				if ia, ok := x.Addr.(*ssa.IndexAddr); ok {
					if rt := c08RouteOfSlice(ia.X.Type()); rt != nil && m.byRoute[rt] != nil {
						if b := m.bucketOf(ia.X); b != nil {
							m.events = append(m.events, &c08Event{fn: fn, instr: in, kind: "replace", bucket: b, tbl: b.tbl, needsSort: true, val: x.Val, index: ia.Index})
						}
					}
					return
				}
				fa, ok := x.Addr.(*ssa.FieldAddr)
				if !ok {
					return
				}
				f := kit.FieldOfAddr(fa)
				if f == nil {
					return
				}
				// in-place metric write on a stored route
				if rt := c08RouteOfPtr(fa.X.Type()); rt != nil && m.byRoute[rt] != nil && f == m.byRoute[rt].rf["Metric"] {
					if b, ia := m.elemOfBucket(fa.X); b != nil {
						m.events = append(m.events, &c08Event{fn: fn, instr: in, kind: "inplace", bucket: b, tbl: b.tbl, needsSort: true, val: x.Val, index: ia.Index})
					}
					return
				}
				// whole-map assignment to a bucket field
				if rt := c08RouteOfMap(f.Type()); rt != nil && m.byRoute[rt] != nil {
					ev := &c08Event{fn: fn, instr: in, kind: "reset", tbl: m.byRoute[rt], val: x.Val}
					if _, isMake := x.Val.(*ssa.MakeMap); !isMake {
						ev.kind = "reset-unknown"
					}
					m.events = append(m.events, ev)
				}
			case ssa.CallInstruction:
				cal := kit.CalleeOf(x)
				if cal.Built == "delete" && len(x.Common().Args) == 2 {
					if b := m.mkBucket(x.Common().Args[0], x.Common().Args[1], nil); b != nil {
						m.events = append(m.events, &c08Event{fn: fn, instr: in, kind: "delete", bucket: b, tbl: b.tbl})
					}
					return
				}
				if s := m.sortOf(fn, x); s != nil {
					m.sorts = append(m.sorts, s)
				}
			}
		})
	}
}

func (m *c08Model) sortOf(fn *ssa.Function, call ssa.CallInstruction) *c08Sort {
	cal := kit.CalleeOf(call)
	args := call.Common().Args
	if len(args) != 2 {
		return nil
	}
	s := &c08Sort{fn: fn, call: call}
	switch {
	case cal.Pkg == "sort" && cal.Recv == "" && (cal.Name == "Slice" || cal.Name == "SliceStable"):
		s.indexStyle = true
		s.sliceVal = kit.Unwrap(args[0])
	case cal.Pkg == "slices" && (cal.Name == "SortFunc" || cal.Name == "SortStableFunc"):
		s.sliceVal = args[0]
	default:
		return nil
	}
	rt := c08RouteOfSlice(s.sliceVal.Type())
	if rt == nil || m.byRoute[rt] == nil {
		return nil
	}
	s.tbl = m.byRoute[rt]
	switch c := args[1].(type) {
	case *ssa.MakeClosure:
		s.cmp, _ = c.Fn.(*ssa.Function)
	case *ssa.Function:
		s.cmp = c
	}
	s.bucket = m.bucketOf(s.sliceVal)
	if s.bucket == nil {
		root := s.sliceVal
		if cv, ok := c08CellValue(root); ok {
			root = cv
		}
		if prm, ok := root.(*ssa.Parameter); ok {
			s.sliceParam = prm
		} else {
			return nil // a local result slice (e.g. LookupAll), not a stored bucket
		}
	}
	return s
}

// sortSitesIn lists the points of fn at which a bucket is (re)sorted: direct std sort calls
// and calls of helpers in the package that sort a bucket named by their parameters.
func (m *c08Model) sortSitesIn(fn *ssa.Function) []c08SortSite {
	var out []c08SortSite
	for _, s := range m.sorts {
		if s.fn == fn && s.bucket != nil {
			out = append(out, c08SortSite{s.call, s.bucket, s})
		}
	}
	for _, c := range kit.Calls(fn) {
		g := kit.CalleeOf(c).Static
		if g == nil || g == fn {
			continue
		}
		for _, s := range m.sorts {
			if s.fn != g {
				continue
			}
			sub := c08Sub{}
			for i, prm := range g.Params {
				if i < len(c.Common().Args) {
					sub[prm] = c.Common().Args[i]
				}
			}
			var b *c08Bucket
			if s.sliceParam != nil {
				if a, ok := sub[s.sliceParam]; ok {
					b = m.bucketOf(a)
				}
			} else {
				b = m.mkBucket(s.bucket.mapVal, s.bucket.keyVal, sub)
			}
			if b != nil {
				out = append(out, c08SortSite{c, b, s})
			}
		}
	}
	return out
}

// ---------- comparator truth table ----------

// cmpSide classifies v as the metric of compared element 0 or 1 of sort s (-1: neither).
func (m *c08Model) cmpSide(s *c08Sort, v ssa.Value) int {
	v = kit.Unwrap(v)
	f, base := c08Field(v)
	if f == nil || f != s.tbl.rf["Metric"] {
		return -1
	}
	if s.indexStyle {
		u, ok := base.(*ssa.UnOp)
		if !ok || u.Op != token.MUL {
			return -1
		}
		ia, ok := u.X.(*ssa.IndexAddr)
		if !ok {
			return -1
		}
		prm, ok := ia.Index.(*ssa.Parameter)
		if !ok || prm.Parent() != s.cmp {
			return -1
		}
		if c08Canon(ia.X) != c08Canon(s.sliceVal) {
			return -1
		}
		for i, q := range s.cmp.Params {
			if q == prm {
				return i
			}
		}
		return -1
	}
	prm, ok := base.(*ssa.Parameter)
	if !ok || prm.Parent() != s.cmp {
		return -1
	}
	for i, q := range s.cmp.Params {
		if q == prm {
			return i
		}
	}
	return -1
}

// lessUnder evaluates the comparator of s when metric(elem0) ? metric(elem1) = ord:
// returns whether the sort treats elem0 as ordered before elem1.
func (m *c08Model) lessUnder(s *c08Sort, ord kit.Ordering) (less bool, known bool, why string) {
	if s.cmp == nil || len(s.cmp.Blocks) == 0 || len(s.cmp.Params) != 2 {
		return false, false, "comparator is not a function literal or named function of the package"
	}
	atom := func(c ssa.Value) (bool, bool) {
		b, ok := c.(*ssa.BinOp)
		if !ok {
			return false, false
		}
		sx, sy := m.cmpSide(s, b.X), m.cmpSide(s, b.Y)
		switch {
		case sx == 0 && sy == 1:
			return kit.CmpUnder(b.Op, ord), true
		case sx == 1 && sy == 0:
			return kit.CmpUnder(b.Op, -ord), true
		}
		return false, false
	}
	res := kit.WalkCFG(s.cmp.Blocks[0], atom, nil)
	if !res.Known || res.Block == nil || len(res.Block.Instrs) == 0 {
		return false, false, "comparator consults something other than the two metrics while they differ"
	}
	ret, ok := res.Block.Instrs[len(res.Block.Instrs)-1].(*ssa.Return)
	if !ok || len(ret.Results) != 1 {
		return false, false, "comparator does not return"
	}
	var prev *ssa.BasicBlock
	if n := len(res.Path); n >= 2 {
		prev = res.Path[n-2]
	}
	if s.indexStyle {
		v, ok := kit.EvalBool(ret.Results[0], atom, prev, res.Block)
		if !ok {
			return false, false, "comparator result does not depend on the two metrics only"
		}
		return v, true, ""
	}
	sign, ok := m.signOf(s, ret.Results[0], ord, prev, res.Block)
	if !ok {
		return false, false, "three-way comparator result does not depend on the two metrics only"
	}
	return sign < 0, true, ""
}

func (m *c08Model) signOf(s *c08Sort, v ssa.Value, ord kit.Ordering, prev, cur *ssa.BasicBlock) (int, bool) {
	switch x := v.(type) {
	case *ssa.Const:
		if c, ok := kit.ConstInt(x); ok {
			switch {
			case c < 0:
				return -1, true
			case c > 0:
				return 1, true
			}
			return 0, true
		}
	case *ssa.Phi:
		if x.Block() == cur && prev != nil {
			for i, p := range cur.Preds {
				if p == prev {
					return m.signOf(s, x.Edges[i], ord, nil, nil)
				}
			}
		}
	case *ssa.Call:
		cal := kit.CalleeOf(x)
		if cal.Pkg == "cmp" && cal.Name == "Compare" && len(x.Call.Args) == 2 {
			sx, sy := m.cmpSide(s, x.Call.Args[0]), m.cmpSide(s, x.Call.Args[1])
			if sx == 0 && sy == 1 {
				return int(ord), true
			}
			if sx == 1 && sy == 0 {
				return -int(ord), true
			}
		}
	case *ssa.BinOp:
		if x.Op == token.SUB {
			// int(a.Metric) - int(b.Metric): widened before subtracting
			wide := func(v ssa.Value) bool {
				b, ok := v.Type().Underlying().(*types.Basic)
				return ok && (b.Kind() == types.Int || b.Kind() == types.Int64 || b.Kind() == types.Int32)
			}
			sx, sy := m.cmpSide(s, x.X), m.cmpSide(s, x.Y)
			if wide(x.X) && wide(x.Y) {
				if sx == 0 && sy == 1 {
					return int(ord), true
				}
				if sx == 1 && sy == 0 {
					return -int(ord), true
				}
			}
		}
	case *ssa.Convert:
		return m.signOf(s, x.X, ord, prev, cur)
	}
	return 0, false
}

// ---------- shared rule: sortedness maintenance + comparator (C08.R1/R2, C09.R4) ----------

func c08Ordinal(ord map[string]int, k string) int {
	ord[k]++
	return ord[k]
}

// checkSorted emits, for the given tables, one obligation per bucket write (ruleMaint) and
// one per sort call (ruleCmp). Returns counts per kind.
func (m *c08Model) checkSorted(r *kit.Report, ruleMaint, ruleCmp string, tables []*c08Table) map[string]int {
	p := m.p
	want := map[*c08Table]bool{}
	for _, t := range tables {
		want[t] = true
	}
	counts := map[string]int{}
	ord := map[string]int{}
	for _, ev := range m.events {
		if !want[ev.tbl] {
			continue
		}
		counts[ev.tbl.name+" "+ev.kind]++
		fname := kit.FuncName(ev.fn)
		key := fmt.Sprintf("%s bucket %s #%d", fname, ev.kind, c08Ordinal(ord, fname+ev.kind))
		m.noteFn(ruleMaint, key, ev.tbl, ev.fn)
		pos := p.Pos(ev.instr.Pos())
		switch ev.kind {
		case "rewrite", "delete", "reset":
			r.OK(ruleMaint, key, pos, "order-preserving removal / empty map: the bucket stays sorted by metric")
			continue
		case "reset-unknown":
			r.Violation(ruleMaint, key, pos, "a bucket map field is replaced by a map that is not freshly made: its buckets are not known to be sorted by metric, so lookups (element 0) can return a route that is not the lowest metric")
			continue
		}
		// insert / replace / inplace: a sort of the same bucket on every path to the exit
		var match []c08SortSite
		other := 0
		for _, s := range m.sortSitesIn(ev.fn) {
			if s.bucket.same(ev.bucket) {
				match = append(match, s)
			} else {
				other++
			}
		}
		avoid := map[ssa.Instruction]bool{}
		for _, s := range match {
			avoid[s.instr] = true
		}
		bad := ""
		for _, ret := range kit.Returns(ev.fn) {
			if ret.Block() == ev.fn.Recover {
				continue
			}
			if kit.CanReachAvoiding(ev.instr, ret, avoid) {
				bad = "the function can return at " + p.Pos(ret.Pos()) + " without re-sorting the bucket"
			}
		}
		if len(match) > 0 && ev.tbl.mu != nil {
			badLock := ""
			li := kit.Locks(ev.fn)
			for _, op := range li.Ops {
				if op.Mutex == ev.tbl.mu && !op.Acquire && !op.Defer && kit.CanReachAvoiding(ev.instr, op.Instr, avoid) {
					badLock = "the table lock is released at " + p.Pos(op.Instr.Pos()) + " before the bucket is re-sorted"
				}
			}
			if badLock != "" {
				r.Violation(ruleMaint, key+" lock", pos, "a route (metric) enters the bucket and %s: a concurrent lookup sees element 0 that is not the lowest metric", badLock)
			}
		}
		if len(match) == 0 {
			bad = "no sort of this bucket follows in the function"
			if other > 0 {
				bad = "the sort that follows is applied to a different bucket (map or key differs)"
			}
		}
		r.Decide(bad == "", ruleMaint, key, pos,
			"every path from this write to the function exit re-sorts the same bucket under the same lock",
			"a route (metric) enters the bucket and "+bad+": element 0 of the bucket is no longer the lowest metric, which lookups return")
	}
	// comparators
	for _, s := range m.sorts {
		if !want[s.tbl] {
			continue
		}
		counts[s.tbl.name+" sort"]++
		fname := kit.FuncName(s.fn)
		key := fmt.Sprintf("%s sort #%d", fname, c08Ordinal(ord, fname+"sort"))
		m.noteFn(ruleCmp, key, s.tbl, s.fn)
		pos := p.Pos(s.call.Pos())
		lL, k1, why1 := m.lessUnder(s, kit.Less)
		lG, k2, why2 := m.lessUnder(s, kit.Greater)
		switch {
		case !k1 || !k2:
			why := why1
			if why == "" {
				why = why2
			}
			r.Violation(ruleCmp, key, pos, "the bucket comparator is not a function of the two metrics (%s): buckets are not ordered lowest metric first", why)
		case lL && !lG:
			r.OK(ruleCmp, key, pos, "comparator orders a before b when metric(a) < metric(b) and not when metric(a) > metric(b)")
		default:
			r.Violation(ruleCmp, key, pos, "comparator truth table is before(metric<)=%v before(metric>)=%v, expected true/false: buckets are not sorted ascending by metric, so element 0 is not the lowest metric", lL, lG)
		}
	}
	return counts
}

// ---------- small CFG helpers shared by the three checks ----------

// c08NormCond strips negations: returns the positive condition and the adjusted polarity.
func c08NormCond(c ssa.Value, pol bool) (ssa.Value, bool) {
	for {
		u, ok := c.(*ssa.UnOp)
		if !ok || u.Op != token.NOT {
			return c, pol
		}
		c, pol = u.X, !pol
	}
}

func c08BlockReaches(from, to *ssa.BasicBlock) bool {
	seen := map[*ssa.BasicBlock]bool{}
	work := append([]*ssa.BasicBlock{}, from.Succs...)
	for len(work) > 0 {
		b := work[len(work)-1]
		work = work[:len(work)-1]
		if seen[b] {
			continue
		}
		seen[b] = true
		if b == to {
			return true
		}
		work = append(work, b.Succs...)
	}
	return false
}

// c08NaturalLoop returns the natural loop of header h: h plus the blocks that reach a
// back-edge source without passing through h.
func c08NaturalLoop(h *ssa.BasicBlock) map[*ssa.BasicBlock]bool {
	in := map[*ssa.BasicBlock]bool{h: true}
	var work []*ssa.BasicBlock
	for _, p := range h.Preds {
		if h.Dominates(p) && !in[p] {
			in[p] = true
			work = append(work, p)
		}
	}
	for len(work) > 0 {
		b := work[len(work)-1]
		work = work[:len(work)-1]
		for _, p := range b.Preds {
			if !in[p] {
				in[p] = true
				work = append(work, p)
			}
		}
	}
	return in
}

// c08LoopSuccs splits the successors of loop header h into the body entry and the exit.
func c08LoopSuccs(h *ssa.BasicBlock) (body, exit *ssa.BasicBlock) {
	in := c08NaturalLoop(h)
	for _, s := range h.Succs {
		if in[s] && s != h {
			if body == nil {
				body = s
			}
		} else if exit == nil {
			exit = s
		}
	}
	return
}

// c08PhiIncoming returns the value phi receives when its block is entered from pred.
func c08PhiIncoming(phi *ssa.Phi, pred *ssa.BasicBlock) ssa.Value {
	for i, p := range phi.Block().Preds {
		if p == pred {
			return phi.Edges[i]
		}
	}
	return nil
}

func c08InPath(path []*ssa.BasicBlock, in ssa.Instruction, excludeLast bool) bool {
	n := len(path)
	if excludeLast {
		n--
	}
	for i := 0; i < n; i++ {
		if path[i] == in.Block() {
			return true
		}
	}
	return false
}

// c08Resolve looks through loads of local cells that are stored exactly once (parameters and
// locals captured by a closure are lowered to such cells).
func c08Resolve(v ssa.Value) ssa.Value {
	for i := 0; i < 6 && v != nil; i++ {
		cv, ok := c08CellValue(v)
		if !ok {
			break
		}
		v = cv
	}
	return v
}

// c08Field is kit.LoadedField with the loaded value and the base resolved through cells.
func c08Field(v ssa.Value) (*types.Var, ssa.Value) {
	f, base := kit.LoadedField(c08Resolve(v))
	if f != nil {
		base = c08Resolve(base)
	}
	return f, base
}

// c08Subst maps a callee parameter to the caller's value under substitution sub.
func c08Subst(v ssa.Value, sub c08Sub) ssa.Value {
	if prm, ok := v.(*ssa.Parameter); ok {
		if s, ok := sub[prm]; ok {
			return s
		}
	}
	return v
}

// c08PredCall: v is a call of a predicate helper of the routing package (bool result, with
// body). Returns the callee and the substitution of its parameters by the caller's values.
func c08PredCall(v ssa.Value, sub c08Sub) (*ssa.Function, c08Sub, bool) {
	c, ok := v.(*ssa.Call)
	if !ok {
		return nil, nil, false
	}
	g := kit.CalleeOf(c).Static
	if g == nil || len(g.Blocks) == 0 || kit.FuncPkgPath(g) != kit.PkgPath(c08Pkg) || g.Signature.Results().Len() != 1 {
		return nil, nil, false
	}
	if b, ok := g.Signature.Results().At(0).Type().Underlying().(*types.Basic); !ok || b.Kind() != types.Bool {
		return nil, nil, false
	}
	sub2 := c08Sub{}
	for i, prm := range g.Params {
		if i < len(c.Call.Args) {
			sub2[prm] = c08Subst(kit.Unwrap(c.Call.Args[i]), sub)
		}
	}
	return g, sub2, true
}

// c08EvalPred abstractly evaluates predicate g under atom and returns its result.
func c08EvalPred(g *ssa.Function, atom kit.AtomEval) (bool, bool) {
	res := kit.WalkCFG(g.Blocks[0], atom, nil)
	if !res.Known || res.Block == nil || len(res.Block.Instrs) == 0 {
		return false, false
	}
	ret, ok := res.Block.Instrs[len(res.Block.Instrs)-1].(*ssa.Return)
	if !ok || len(ret.Results) != 1 {
		return false, false
	}
	var prev *ssa.BasicBlock
	if n := len(res.Path); n >= 2 {
		prev = res.Path[n-2]
	}
	return kit.EvalBool(kit.ReturnResult(ret, 0), atom, prev, res.Block)
}

// c08ReturnedCall: every non-recover return of fn returns directly the result of one static
// call (returns of nil justified only by an empty/nil argument or an empty table are
// tolerated); returns that call (nil when the shape differs).
func c08ReturnedCall(fn *ssa.Function) *ssa.Call {
	var call *ssa.Call
	for _, ret := range kit.Returns(fn) {
		if ret.Block() == fn.Recover {
			continue
		}
		if len(ret.Results) != 1 {
			return nil
		}
		if c08TrivialNilReturn(fn, ret) {
			continue
		}
		c, ok := kit.ReturnResult(ret, 0).(*ssa.Call)
		if !ok || kit.CalleeOf(c).Static == nil {
			return nil
		}
		if call != nil && call != c {
			return nil
		}
		call = c
	}
	return call
}

// c08TrivialNilReturn: ret returns nil and is reached only through tests of the kind
// "argument is nil / empty" or "the table's bucket map is empty" (at least one of them in
// the justifying polarity). Such a return cannot hide a stored route: no bucket can match a
// nil/empty argument and an empty table holds nothing. Anything else in front of a nil
// return (negative cache, address-family filter, ...) is not trivial.
func c08TrivialNilReturn(fn *ssa.Function, ret *ssa.Return) bool {
	if len(ret.Results) != 1 || !kit.IsNilConst(kit.ReturnResult(ret, 0)) {
		return false
	}
	subject := func(v ssa.Value) (isMap bool, ok bool) {
		v = kit.Unwrap(v)
		for i := 0; i < 3; i++ {
			if c, isCall := v.(*ssa.Call); isCall && len(c.Call.Args) == 1 {
				cal := kit.CalleeOf(c)
				if (cal.Pkg == "net" && cal.Recv == "IP" && cal.Name == "To16") || (cal.Pkg == "strings" && (cal.Name == "TrimSpace" || cal.Name == "ToLower")) {
					v = c.Call.Args[0]
					continue
				}
			}
			break
		}
		if _, isPrm := v.(*ssa.Parameter); isPrm {
			return false, true
		}
		if f, base := c08Field(v); f != nil && c08RouteOfMap(f.Type()) != nil && len(fn.Params) > 0 && base == ssa.Value(fn.Params[0]) {
			return true, true
		}
		return false, false
	}
	// classify one branch condition under a polarity: trivial kind? justifying a nil result?
	classify := func(cond ssa.Value, polarity bool) (trivial, justifies bool) {
		c, pol := c08NormCond(cond, polarity)
		b, ok := c.(*ssa.BinOp)
		if !ok {
			return false, false
		}
		holds := func(n int64) (bool, bool) { // value of the guard when len(subject) == n
			for _, pr := range [][2]ssa.Value{{b.X, b.Y}, {b.Y, b.X}} {
				cl, isCall := pr[0].(*ssa.Call)
				if !isCall || kit.CalleeOf(cl).Built != "len" {
					continue
				}
				if _, ok := subject(cl.Call.Args[0]); !ok {
					continue
				}
				k, isc := kit.ConstInt(pr[1])
				if !isc {
					continue
				}
				o := c08Sign(n - k)
				if pr[0] != b.X {
					o = -o
				}
				return kit.CmpUnder(b.Op, o) == pol, true
			}
			return false, false
		}
		if h0, ok := holds(0); ok {
			h1, _ := holds(1)
			h16, _ := holds(16)
			return true, h0 && !h1 && !h16
		}
		if b.Op == token.EQL || b.Op == token.NEQ {
			var other ssa.Value
			switch {
			case kit.IsNilConst(b.Y):
				other = b.X
			case kit.IsNilConst(b.X):
				other = b.Y
			default:
				if sv, isS := kit.ConstString(b.Y); isS && sv == "" {
					other = b.X
				} else if sv, isS := kit.ConstString(b.X); isS && sv == "" {
					other = b.Y
				}
			}
			if other != nil {
				if isMap, ok := subject(other); ok && !isMap {
					return true, (b.Op == token.EQL) == pol
				}
			}
		}
		return false, false
	}
	blk := ret.Block()
	if len(blk.Preds) == 0 {
		return false
	}
	// every edge into the returning block is the justifying edge of a trivial test, and the
	// tests passed before it are of the trivial kind as well (handles `a || b`)
	for _, pr := range blk.Preds {
		ifi, ok := pr.Instrs[len(pr.Instrs)-1].(*ssa.If)
		if !ok || pr.Succs[0] == pr.Succs[1] {
			return false
		}
		if _, just := classify(ifi.Cond, pr.Succs[0] == blk); !just {
			return false
		}
		for _, g := range kit.Guards(pr) {
			if triv, _ := classify(g.Cond, g.Polarity); !triv {
				return false
			}
		}
	}
	return true
}
