package rules

import (
	"fmt"
	"go/token"
	"go/types"
	"sort"
	"strings"

	"golang.org/x/tools/go/ssa"

	"mmverify/kit"
)

func init() {
	register(&Check{
		ID: "C04", Level: "other",
		Explain:   "Decides, for every construction of a protocol.Frame whose Type can be STREAM_DATA, UDP_DATAGRAM or ICMP_ECHO, that the application bytes it carries (Payload, or the Data field of the UDPDatagram/ICMPEcho whose Encode() feeds Payload) come, on every data-flow path, from (*crypto.SessionKey).Encrypt, from a received frame/datagram relayed unchanged, or are empty; parameters are followed to every caller in the VTA call graph and wrappers are summarised by their return values, so a pass-through fallback is reported at the wrapper. Also decides that relay state holds no key material and that no key derivation shares a path with the forwarding of an open message. Header metadata (addresses, ports, sizes, timing) is plaintext by design and not covered.",
		Technique: "sink/source provenance over go/ssa with call-graph parameter following and return-value summaries",
		Run:       runC04,
		SelfTests: c04SelfTests,
	})
}

var c04SelfTests = []SelfTest{
	{Name: "key agreement accepts a wiped (all-zero) private key again", ExpectRule: "C04.R6", ExpectKey: "key agreement on a wiped private key", Edits: []Edit{
		{File: "internal/crypto/crypto.go", Old: "\tif privateKey == ([KeySize]byte{}) {\n\t\treturn [KeySize]byte{}, fmt.Errorf(\"invalid private key: zero key\")\n\t}\n", New: ""},
	}},
	{Name: "zero-private-key test only logs (no refusal)", ExpectRule: "C04.R6", ExpectKey: "key agreement on a wiped private key", Edits: []Edit{
		{File: "internal/crypto/crypto.go", Old: "\tif privateKey == ([KeySize]byte{}) {\n\t\treturn [KeySize]byte{}, fmt.Errorf(\"invalid private key: zero key\")\n\t}\n", New: "\tif privateKey == ([KeySize]byte{}) {\n\t\t_ = fmt.Sprintf(\"zero private key\")\n\t}\n"},
	}},
	{Name: "rewrite: zero-private-key refusal written after the remote-key test with the shared zero value", Edits: []Edit{
		{File: "internal/crypto/crypto.go", Old: "\tif privateKey == ([KeySize]byte{}) {\n\t\treturn [KeySize]byte{}, fmt.Errorf(\"invalid private key: zero key\")\n\t}\n", New: ""},
		{File: "internal/crypto/crypto.go", Old: "\t\treturn sharedSecret, fmt.Errorf(\"invalid remote public key: zero key\")\n\t}\n", New: "\t\treturn sharedSecret, fmt.Errorf(\"invalid remote public key: zero key\")\n\t}\n\tif zeroKey == privateKey {\n\t\treturn sharedSecret, fmt.Errorf(\"invalid private key: zero key\")\n\t}\n"},
	}},
	{Name: "meshConn.Write sends the plaintext chunk", ExpectRule: "C04.R1", ExpectKey: "(*agent.meshConn).Write", Edits: []Edit{
		{File: "internal/agent/agent.go", Old: "\t\tframe := &protocol.Frame{\n\t\t\tType:     protocol.FrameStreamData,\n\t\t\tStreamID: c.streamID,\n\t\t\tPayload:  ciphertext,\n", New: "\t\t_ = ciphertext\n\t\tframe := &protocol.Frame{\n\t\t\tType:     protocol.FrameStreamData,\n\t\t\tStreamID: c.streamID,\n\t\t\tPayload:  chunk,\n"},
	}},
	{Name: "forward read loop forwards the raw buffer", ExpectRule: "C04.R1", ExpectKey: "forward", Edits: []Edit{
		{File: "internal/forward/handler.go", Old: "\t\t\tif writeErr := h.writer.WriteStreamData(ac.RemoteID, ac.StreamID, ciphertext, 0); writeErr != nil {", New: "\t\t\t_ = ciphertext\n\t\t\tif writeErr := h.writer.WriteStreamData(ac.RemoteID, ac.StreamID, buf[:n], 0); writeErr != nil {"},
	}},
	{Name: "exit read loop falls back to plaintext when encryption fails", ExpectRule: "C04.R1", ExpectKey: "exit", Edits: []Edit{
		{File: "internal/exit/handler.go", Old: "\t\t\tif encErr != nil {\n\t\t\t\th.logger.Error(\"encrypt failed in readLoop\",\n\t\t\t\t\tlogging.KeyStreamID, ac.StreamID,\n\t\t\t\t\tlogging.KeyError, encErr)\n\t\t\t\treturn\n\t\t\t}\n", New: "\t\t\tif encErr != nil {\n\t\t\t\tciphertext = buf[:n]\n\t\t\t}\n"},
	}},
	{Name: "shell output written unencrypted", ExpectRule: "C04.R1", ExpectKey: "shell", Edits: []Edit{
		{File: "internal/shell/handler.go", Old: "\treturn h.writer.WriteStreamData(ss.PeerID, ss.StreamID, ciphertext, flags)", New: "\t_ = ciphertext\n\treturn h.writer.WriteStreamData(ss.PeerID, ss.StreamID, data, flags)"},
	}},
	{Name: "file download sends the file buffer", ExpectRule: "C04.R1", ExpectKey: "WriteStreamData", Edits: []Edit{
		{File: "internal/agent/agent.go", Old: "\t\t\tif err := a.WriteStreamData(fts.PeerID, fts.StreamID, encryptedData, flags); err != nil {", New: "\t\t\t_ = encryptedData\n\t\t\tif err := a.WriteStreamData(fts.PeerID, fts.StreamID, buf[:n], flags); err != nil {"},
	}},
	{Name: "UDP ingress plaintext fallback reintroduced", ExpectRule: "C04.R1", ExpectKey: "RelayUDPDatagram", Edits: []Edit{
		{File: "internal/agent/udp.go", Old: "\tif sessionKey == nil {\n\t\treturn ErrUDPNoSessionKey\n\t}\n\tciphertext, err := sessionKey.Encrypt(data)\n\tif err != nil {\n\t\treturn err\n\t}\n", New: "\tciphertext := data\n\tif sessionKey != nil {\n\t\tciphertext, err = sessionKey.Encrypt(data)\n\t\tif err != nil {\n\t\t\treturn err\n\t\t}\n\t}\n"},
	}},
	{Name: "ICMP ingress plaintext fallback reintroduced", ExpectRule: "C04.R1", ExpectKey: "RelayICMPEcho", Edits: []Edit{
		{File: "internal/agent/icmp.go", Old: "\tif sessionKey == nil {\n\t\treturn ErrICMPNoSessionKey\n\t}\n\tciphertext, err := sessionKey.Encrypt(payload)\n\tif err != nil {\n\t\treturn err\n\t}\n", New: "\tciphertext := payload\n\tif sessionKey != nil {\n\t\tvar err error\n\t\tciphertext, err = sessionKey.Encrypt(payload)\n\t\tif err != nil {\n\t\t\treturn err\n\t\t}\n\t}\n"},
	}},
	{Name: "WebSocket ping sender sends the request payload", ExpectRule: "C04.R1", ExpectKey: "runWSICMPSender", Edits: []Edit{
		{File: "internal/agent/icmp.go", Old: "\t\t\t\tData:       ciphertext,\n\t\t\t}\n", New: "\t\t\t\tData:       req.Payload,\n\t\t\t}\n\t\t\t_ = ciphertext\n"},
	}},
	{Name: "udp.Association.Encrypt passes the plaintext through without a key", ExpectRule: "C04.R1", ExpectKey: "(*udp.Association).Encrypt", Edits: []Edit{
		{File: "internal/udp/association.go", Old: "\t\treturn nil, ErrNoSessionKey\n", New: "\t\treturn plaintext, nil\n"},
	}},
	{Name: "udp exit read loop sends the datagram when encryption fails", ExpectRule: "C04.R1", ExpectKey: "WriteUDPDatagram", Edits: []Edit{
		{File: "internal/udp/handler.go", Old: "\t\tciphertext, err := assoc.Encrypt(plaintext)\n\t\tif err != nil {\n\t\t\tcontinue\n\t\t}\n", New: "\t\tciphertext, err := assoc.Encrypt(plaintext)\n\t\tif err != nil {\n\t\t\tciphertext = plaintext\n\t\t}\n"},
	}},
	{Name: "relay entry keeps a session key", ExpectRule: "C04.R3", ExpectKey: "relayEntry", Edits: []Edit{
		{File: "internal/agent/relay_table.go", Old: "\tDownstreamID   uint64 // ID space of the downstream peer connection (allocated locally)\n}", New: "\tDownstreamID   uint64 // ID space of the downstream peer connection (allocated locally)\n\tKey            *crypto.SessionKey\n}"},
		{File: "internal/agent/relay_table.go", Old: "import (\n", New: "import (\n\t\"github.com/postalsys/muti-metroo/internal/crypto\"\n"},
	}},
	{Name: "transit derives a responder key while relaying a UDP_OPEN", ExpectRule: "C04.R3", ExpectKey: "handleUDPOpen", Edits: []Edit{
		{File: "internal/agent/udp.go", Old: "\t// Update remaining path\n\tnewPath := open.RemainingPath[1:]\n", New: "\tif k, _, err := deriveResponderSessionKey(open.RequestID, open.EphemeralPubKey); err == nil {\n\t\t_ = k\n\t}\n\tnewPath := open.RemainingPath[1:]\n"},
	}},
	{Name: "exit connection wipes its key on Close while the read loop seals with it (seed C04-a class)", ExpectRule: "C04.R4", ExpectKey: "readLoop", Edits: []Edit{
		{File: "internal/exit/handler.go", Old: "\t\tif ac.Conn != nil {\n\t\t\terr = ac.Conn.Close()\n\t\t}\n", New: "\t\tif ac.Conn != nil {\n\t\t\terr = ac.Conn.Close()\n\t\t}\n\t\tif ac.sessionKey != nil {\n\t\t\tac.sessionKey.Zero()\n\t\t}\n"},
	}},
	{Name: "udp association seals outside its lock with a key fetched through the getter (seed C04-b class)", ExpectRule: "C04.R4", ExpectKey: "(*udp.Association).Encrypt", Edits: []Edit{
		{File: "internal/udp/association.go", Old: "\ta.mu.RLock()\n\tdefer a.mu.RUnlock()\n\n\tif a.SessionKey == nil {\n\t\treturn nil, ErrNoSessionKey\n\t}\n\n\treturn a.SessionKey.Encrypt(plaintext)\n", New: "\tkey := a.GetSessionKey()\n\tif key == nil {\n\t\treturn nil, ErrNoSessionKey\n\t}\n\n\treturn key.Encrypt(plaintext)\n"},
	}},
	{Name: "icmp session checks the key in one critical section and seals in another", ExpectRule: "C04.R4", ExpectKey: "(*icmp.Session).Encrypt", Edits: []Edit{
		{File: "internal/icmp/session.go", Old: "\ts.mu.RLock()\n\tdefer s.mu.RUnlock()\n\n\tif s.SessionKey == nil {\n\t\treturn plaintext, nil\n\t}\n\n\treturn s.SessionKey.Encrypt(plaintext)\n", New: "\ts.mu.RLock()\n\tkey := s.SessionKey\n\ts.mu.RUnlock()\n\tif key == nil {\n\t\treturn plaintext, nil\n\t}\n\ts.mu.RLock()\n\tdefer s.mu.RUnlock()\n\treturn key.Encrypt(plaintext)\n"},
	}},
	{Name: "udp association wipes the key under the read lock only", ExpectRule: "C04.R4", ExpectKey: "(*udp.Association).Close", Edits: []Edit{
		{File: "internal/udp/association.go", Old: "func (a *Association) Close() error {\n\ta.mu.Lock()\n\tdefer a.mu.Unlock()\n", New: "func (a *Association) Close() error {\n\ta.mu.RLock()\n\tdefer a.mu.RUnlock()\n"},
	}},
	{Name: "udp association wipes the key but keeps the pointer", ExpectRule: "C04.R4", ExpectKey: "(*udp.Association).Encrypt", Edits: []Edit{
		{File: "internal/udp/association.go", Old: "\t\ta.SessionKey.Zero()\n\t\ta.SessionKey = nil\n", New: "\t\ta.SessionKey.Zero()\n"},
	}},
	{Name: "stream wipes its key on Close while meshConn.Write seals with it", ExpectRule: "C04.R4", ExpectKey: "(*agent.meshConn).Write", Edits: []Edit{
		{File: "internal/stream/manager.go", Old: "\t\tclose(s.closed)\n", New: "\t\tif s.sessionKey != nil {\n\t\t\ts.sessionKey.Zero()\n\t\t}\n\t\tclose(s.closed)\n"},
	}},
	{Name: "short chunks bypass encryption on a fast path", ExpectRule: "C04.R1", ExpectKey: "(*agent.meshConn).Write", Edits: []Edit{
		{File: "internal/agent/agent.go", Old: "\t\tframe := &protocol.Frame{\n\t\t\tType:     protocol.FrameStreamData,\n\t\t\tStreamID: c.streamID,\n\t\t\tPayload:  ciphertext,\n", New: "\t\tif len(chunk) < 16 {\n\t\t\tciphertext = chunk\n\t\t}\n\t\tframe := &protocol.Frame{\n\t\t\tType:     protocol.FrameStreamData,\n\t\t\tStreamID: c.streamID,\n\t\t\tPayload:  ciphertext,\n"},
	}},
	{Name: "exit read loop falls back to a zero-value SessionKey when none was negotiated", ExpectRule: "C04.R5", ExpectKey: "(*exit.Handler).readLoop", Edits: []Edit{
		{File: "internal/exit/handler.go", Old: "\t\t\tif ac.sessionKey == nil {\n\t\t\t\th.logger.Error(\"no session key in readLoop\",\n\t\t\t\t\tlogging.KeyStreamID, ac.StreamID)\n\t\t\t\treturn\n\t\t\t}\n", New: "\t\t\tif ac.sessionKey == nil {\n\t\t\t\tac.sessionKey = &crypto.SessionKey{}\n\t\t\t}\n"},
	}},
	{Name: "udp associations start with a placeholder zero-value key", ExpectRule: "C04.R5", ExpectKey: "(*udp.Association).Encrypt", Edits: []Edit{
		{File: "internal/udp/association.go", Old: "\t\tLastActivity: now,\n\t\tctx:          ctx,\n", New: "\t\tLastActivity: now,\n\t\tSessionKey:   new(crypto.SessionKey),\n\t\tctx:          ctx,\n"},
	}},
	{Name: "rewrite: relayed UDP_OPEN built by a helper", Edits: []Edit{
		{File: "internal/agent/udp.go", Old: "\tfwdOpen := &protocol.UDPOpen{\n\t\tRequestID:       open.RequestID,\n\t\tAddressType:     open.AddressType,\n\t\tAddress:         open.Address,\n\t\tPort:            open.Port,\n\t\tTTL:             open.TTL,\n\t\tRemainingPath:   newPath,\n\t\tEphemeralPubKey: open.EphemeralPubKey,\n\t}\n", New: "\tfwdOpen := forwardedUDPOpen(open, newPath)\n"},
		{File: "internal/agent/udp.go", Old: "// handleUDPOpenAck processes a UDP_OPEN_ACK frame.\n", New: "func forwardedUDPOpen(in *protocol.UDPOpen, rest []identity.AgentID) *protocol.UDPOpen {\n\treturn &protocol.UDPOpen{\n\t\tRequestID:       in.RequestID,\n\t\tAddressType:     in.AddressType,\n\t\tAddress:         in.Address,\n\t\tPort:            in.Port,\n\t\tTTL:             in.TTL,\n\t\tRemainingPath:   rest,\n\t\tEphemeralPubKey: in.EphemeralPubKey,\n\t}\n}\n\n// handleUDPOpenAck processes a UDP_OPEN_ACK frame.\n"},
	}},
	{Name: "rewrite: udp association hands the key to a sealing helper inside its critical section", Edits: []Edit{
		{File: "internal/udp/association.go", Old: "\treturn a.SessionKey.Encrypt(plaintext)\n}\n", New: "\treturn sealWith(a.SessionKey, plaintext)\n}\n\nfunc sealWith(k *crypto.SessionKey, p []byte) ([]byte, error) {\n\treturn k.Encrypt(p)\n}\n"},
	}},
	{Name: "sealing helper called after the critical section was left", ExpectRule: "C04.R4", ExpectKey: "sealWith", Edits: []Edit{
		{File: "internal/udp/association.go", Old: "\ta.mu.RLock()\n\tdefer a.mu.RUnlock()\n\n\tif a.SessionKey == nil {\n\t\treturn nil, ErrNoSessionKey\n\t}\n\n\treturn a.SessionKey.Encrypt(plaintext)\n}\n", New: "\ta.mu.RLock()\n\tkey := a.SessionKey\n\ta.mu.RUnlock()\n\tif key == nil {\n\t\treturn nil, ErrNoSessionKey\n\t}\n\treturn sealWith(key, plaintext)\n}\n\nfunc sealWith(k *crypto.SessionKey, p []byte) ([]byte, error) {\n\treturn k.Encrypt(p)\n}\n"},
	}},
	{Name: "rewrite: datagram payload encoded through a helper", Edits: []Edit{
		{File: "internal/agent/udp.go", Old: "\t\tStreamID: streamID,\n\t\tPayload:  datagram.Encode(),\n", New: "\t\tStreamID: streamID,\n\t\tPayload:  datagramPayload(datagram),\n"},
		{File: "internal/agent/udp.go", Old: "// Compile-time interface verification\nvar _ udp.DataWriter = (*Agent)(nil)", New: "func datagramPayload(d *protocol.UDPDatagram) []byte {\n\treturn d.Encode()\n}\n\n// Compile-time interface verification\nvar _ udp.DataWriter = (*Agent)(nil)"},
	}},
	{Name: "rewrite: reply datagram built by a constructor helper", Edits: []Edit{
		{File: "internal/udp/handler.go", Old: "\t\tdatagram := &protocol.UDPDatagram{\n\t\t\tAddressType: addrType,\n\t\t\tAddress:     addr,\n\t\t\tPort:        uint16(remoteAddr.Port),\n\t\t\tData:        ciphertext,\n\t\t}\n", New: "\t\tdatagram := newReplyDatagram(addrType, addr, uint16(remoteAddr.Port), ciphertext)\n"},
		{File: "internal/udp/handler.go", Old: "// cleanupLoop periodically removes expired associations.\n", New: "func newReplyDatagram(t uint8, addr []byte, port uint16, data []byte) *protocol.UDPDatagram {\n\treturn &protocol.UDPDatagram{AddressType: t, Address: addr, Port: port, Data: data}\n}\n\n// cleanupLoop periodically removes expired associations.\n"},
	}},
	{Name: "constructor helper fed with the plaintext datagram", ExpectRule: "C04.R1", ExpectKey: "WriteUDPDatagram", Edits: []Edit{
		{File: "internal/udp/handler.go", Old: "\t\tdatagram := &protocol.UDPDatagram{\n\t\t\tAddressType: addrType,\n\t\t\tAddress:     addr,\n\t\t\tPort:        uint16(remoteAddr.Port),\n\t\t\tData:        ciphertext,\n\t\t}\n", New: "\t\t_ = ciphertext\n\t\tdatagram := newReplyDatagram(addrType, addr, uint16(remoteAddr.Port), plaintext)\n"},
		{File: "internal/udp/handler.go", Old: "// cleanupLoop periodically removes expired associations.\n", New: "func newReplyDatagram(t uint8, addr []byte, port uint16, data []byte) *protocol.UDPDatagram {\n\treturn &protocol.UDPDatagram{AddressType: t, Address: addr, Port: port, Data: data}\n}\n\n// cleanupLoop periodically removes expired associations.\n"},
	}},
	{Name: "rewrite: udp association seals with explicit unlocks instead of defer", Edits: []Edit{
		{File: "internal/udp/association.go", Old: "\ta.mu.RLock()\n\tdefer a.mu.RUnlock()\n\n\tif a.SessionKey == nil {\n\t\treturn nil, ErrNoSessionKey\n\t}\n\n\treturn a.SessionKey.Encrypt(plaintext)\n", New: "\ta.mu.RLock()\n\tkey := a.SessionKey\n\tif key == nil {\n\t\ta.mu.RUnlock()\n\t\treturn nil, ErrNoSessionKey\n\t}\n\tct, err := key.Encrypt(plaintext)\n\ta.mu.RUnlock()\n\treturn ct, err\n"},
	}},
	{Name: "rewrite: udp association clears the pointer first and wipes through a local", Edits: []Edit{
		{File: "internal/udp/association.go", Old: "\t\ta.SessionKey.Zero()\n\t\ta.SessionKey = nil\n", New: "\t\tkey := a.SessionKey\n\t\ta.SessionKey = nil\n\t\tkey.Zero()\n"},
	}},
	{Name: "rewrite: exit encrypts through a local wrapper that fails without a key", Edits: []Edit{
		{File: "internal/exit/handler.go", Old: "ciphertext, encErr := ac.sessionKey.Encrypt(buf[:n])", New: "ciphertext, encErr := func(p []byte) ([]byte, error) {\n\t\t\t\tif ac.sessionKey == nil {\n\t\t\t\t\treturn nil, fmt.Errorf(\"no session key\")\n\t\t\t\t}\n\t\t\t\treturn ac.sessionKey.Encrypt(p)\n\t\t\t}(buf[:n])"},
	}},
	{Name: "rewrite: ciphertext copied into a fresh buffer before framing", Edits: []Edit{
		{File: "internal/agent/agent.go", Old: "\t\t\tPayload:  ciphertext,\n", New: "\t\t\tPayload:  append(make([]byte, 0, len(ciphertext)), ciphertext...),\n"},
	}},
	{Name: "rewrite: UDP ingress guard written as if/else", Edits: []Edit{
		{File: "internal/agent/udp.go", Old: "\tif sessionKey == nil {\n\t\treturn ErrUDPNoSessionKey\n\t}\n\tciphertext, err := sessionKey.Encrypt(data)\n\tif err != nil {\n\t\treturn err\n\t}\n", New: "\tvar ciphertext []byte\n\tif sessionKey != nil {\n\t\tciphertext, err = sessionKey.Encrypt(data)\n\t\tif err != nil {\n\t\t\treturn err\n\t\t}\n\t} else {\n\t\treturn ErrUDPNoSessionKey\n\t}\n"},
	}},
	{Name: "rewrite: WriteStreamData copies each chunk", Edits: []Edit{
		{File: "internal/agent/agent.go", Old: "\t\tchunk := data[offset:end]\n\t\tisLast := end >= len(data)\n", New: "\t\tchunk := make([]byte, end-offset)\n\t\tcopy(chunk, data[offset:end])\n\t\tisLast := end >= len(data)\n"},
	}},
}

// ---------------------------------------------------------------------------------------
// anchors
// ---------------------------------------------------------------------------------------

type c04Ctx struct {
	p        *kit.Program
	r        *kit.Report
	frame    *types.Named
	fType    *types.Var
	fPayload *types.Var
	kinds    map[int64]string                // frame type constant -> name
	dgram    map[*types.Named]*types.Var     // UDPDatagram / ICMPEcho -> Data field
	dgramOf  map[int64]map[*types.Named]bool // frame kind -> message types whose Encode() may feed it
	encrypt  *ssa.Function                   // (*crypto.SessionKey) method calling cipher.AEAD.Seal
	owners   map[*types.Var]*types.Named     // fields of internal/protocol structs
	unref    map[string]bool                 // parameters without any caller (dead API), reported as info
	reaches  map[*ssa.Function]bool          // functions from which DeriveSessionKey is reachable
	c03      *c03Ctx                         // shares the open/ack literal classification
}

func c04IsSeal(c ssa.CallInstruction) bool {
	cal := kit.CalleeOf(c)
	return cal.Iface && cal.Pkg == "crypto/cipher" && cal.Recv == "AEAD" && cal.Name == "Seal"
}

func newC04Ctx(p *kit.Program, r *kit.Report) *c04Ctx {
	cx := &c04Ctx{p: p, r: r, kinds: map[int64]string{}, dgram: map[*types.Named]*types.Var{}, dgramOf: map[int64]map[*types.Named]bool{}, unref: map[string]bool{}}
	cx.frame = p.NamedType("internal/protocol", "Frame")
	if !r.Require(cx.frame != nil, "anchor-unresolved: type internal/protocol.Frame") {
		return nil
	}
	cx.fType = p.Field("internal/protocol", "Frame", "Type")
	cx.fPayload = p.Field("internal/protocol", "Frame", "Payload")
	r.Require(cx.fType != nil && cx.fPayload != nil, "anchor-unresolved: fields Type/Payload of protocol.Frame")
	for _, pair := range [][2]string{{"FrameStreamData", ""}, {"FrameUDPDatagram", "UDPDatagram"}, {"FrameICMPEcho", "ICMPEcho"}} {
		v, ok := p.ConstValue("internal/protocol", pair[0])
		var k int64
		if ok {
			_, err := fmt.Sscanf(v, "%d", &k)
			ok = err == nil
		}
		if !r.Require(ok, "anchor-unresolved: constant internal/protocol.%s", pair[0]) {
			continue
		}
		cx.kinds[k] = strings.TrimPrefix(pair[0], "Frame")
		if pair[1] != "" {
			n := p.NamedType("internal/protocol", pair[1])
			d := p.Field("internal/protocol", pair[1], "Data")
			if r.Require(n != nil && d != nil, "anchor-unresolved: internal/protocol.%s.Data", pair[1]) {
				cx.dgram[n] = d
				cx.dgramOf[k] = map[*types.Named]bool{n: true}
			}
		}
	}
	// the exported SessionKey method that (transitively, inside internal/crypto) reaches AEAD.Seal
	cx.encrypt = sessionSealEntry(p)
	r.Require(cx.encrypt != nil, "anchor-unresolved: SessionKey method calling cipher.AEAD.Seal")
	cx.owners = p.FieldOwners("internal/protocol")
	if len(r.Floors) > 0 {
		return nil
	}
	return cx
}

// ---------------------------------------------------------------------------------------
// sealedness evaluator
// ---------------------------------------------------------------------------------------

// c04Leaf is a place where unsealed bytes enter a value that reaches a sink.
type c04Leaf struct {
	Fn     *ssa.Function
	What   string // stable description (part of the obligation key)
	Detail string
	Pos    token.Pos
}

func (l c04Leaf) key() string { return kit.FuncName(l.Fn) + ": " + l.What }

// c04Frame is the calling context while summarising the return values of a wrapper.
type c04Frame struct {
	fn     *ssa.Function
	site   ssa.CallInstruction
	parent *c04Frame
}

func (f *c04Frame) depth() int {
	n := 0
	for ; f != nil; f = f.parent {
		n++
	}
	return n
}

type c04Eval struct {
	cx      *c04Ctx
	seen    map[string]bool
	seenFld map[*types.Var]bool
	n       int
}

func (cx *c04Ctx) newEval() *c04Eval {
	return &c04Eval{cx: cx, seen: map[string]bool{}, seenFld: map[*types.Var]bool{}}
}

func c04Dedup(ls []c04Leaf) []c04Leaf {
	seen := map[string]bool{}
	var out []c04Leaf
	for _, l := range ls {
		if !seen[l.key()] {
			seen[l.key()] = true
			out = append(out, l)
		}
	}
	return out
}

func c04FnOf(v ssa.Value) *ssa.Function {
	if in, ok := v.(ssa.Instruction); ok {
		return in.Parent()
	}
	if v != nil {
		return v.Parent()
	}
	return nil
}

func (e *c04Eval) leaf(v ssa.Value, what string) []c04Leaf {
	return []c04Leaf{{Fn: c04FnOf(v), What: what, Pos: v.Pos()}}
}

// sealed returns the places where bytes that are not sealed (and not relayed/empty) enter v.
func (e *c04Eval) sealed(v ssa.Value, fr *c04Frame) []c04Leaf {
	if v == nil {
		return nil
	}
	var site ssa.CallInstruction
	if fr != nil {
		site = fr.site
	}
	k := fmt.Sprintf("%p|%p", v, site)
	if e.seen[k] {
		return nil
	}
	e.seen[k] = true
	e.n++
	if e.n > 20000 || fr.depth() > 8 {
		return e.leaf(v, "analysis budget exceeded")
	}
	switch x := v.(type) {
	case *ssa.Const:
		return nil // nil, empty or constant bytes: not application data
	case *ssa.Phi:
		var out []c04Leaf
		for _, ed := range x.Edges {
			out = append(out, e.sealed(ed, fr)...)
		}
		return out
	case *ssa.Extract:
		if c, ok := x.Tuple.(*ssa.Call); ok {
			return e.call(c, x.Index, fr)
		}
		if ta, ok := x.Tuple.(*ssa.TypeAssert); ok {
			return e.sealed(ta.X, fr)
		}
		if u, ok := x.Tuple.(*ssa.UnOp); ok && u.Op == token.ARROW {
			return e.leaf(v, "value received from a channel")
		}
		return e.leaf(v, "tuple element")
	case *ssa.Call:
		return e.call(x, 0, fr)
	case *ssa.UnOp:
		switch x.Op {
		case token.MUL:
			return e.load(x, x.X, fr)
		case token.ARROW:
			return e.leaf(v, "value received from a channel")
		}
		return e.sealed(x.X, fr)
	case *ssa.Slice:
		if _, isPtr := x.X.Type().Underlying().(*types.Pointer); isPtr {
			return e.load(x, x.X, fr)
		}
		return e.sealed(x.X, fr)
	case *ssa.Convert:
		return e.sealed(x.X, fr)
	case *ssa.ChangeType:
		return e.sealed(x.X, fr)
	case *ssa.MakeInterface:
		return e.sealed(x.X, fr)
	case *ssa.ChangeInterface:
		return e.sealed(x.X, fr)
	case *ssa.TypeAssert:
		return e.sealed(x.X, fr)
	case *ssa.BinOp:
		return append(e.sealed(x.X, fr), e.sealed(x.Y, fr)...)
	case *ssa.MakeSlice:
		return e.buffer(x, fr)
	case *ssa.Alloc:
		return e.buffer(x, fr)
	case *ssa.Parameter:
		return e.param(x, fr)
	case *ssa.FreeVar:
		return e.leaf(v, "captured variable")
	case *ssa.Field:
		f := kit.FieldOfAddr(x)
		if e.relayedField(f) {
			return nil
		}
		return e.leaf(v, "field of a struct value")
	case *ssa.Lookup:
		return e.leaf(v, "map or string element")
	case *ssa.Index:
		return e.leaf(v, "array element")
	}
	return e.leaf(v, fmt.Sprintf("%T", v))
}

// relayedField: f holds bytes received from the mesh (a frame's payload, a decoded datagram's
// data): forwarding them unchanged does not expose anything the sender did not send.
func (e *c04Eval) relayedField(f *types.Var) bool {
	if f == nil {
		return false
	}
	if f == e.cx.fPayload {
		return true
	}
	for _, d := range e.cx.dgram {
		if d == f {
			return true
		}
	}
	return false
}

// load handles *addr and addr[:] for array pointers.
func (e *c04Eval) load(at ssa.Value, addr ssa.Value, fr *c04Frame) []c04Leaf {
	switch a := addr.(type) {
	case *ssa.Alloc:
		return e.buffer(a, fr)
	case *ssa.FieldAddr:
		f := kit.FieldOfAddr(a)
		if e.relayedField(f) {
			if al, ok := a.X.(*ssa.Alloc); ok {
				// a frame/datagram built locally: its field is whatever was stored into it
				var out []c04Leaf
				for _, v := range c03FieldStoresOf(al, f) {
					out = append(out, e.sealed(v, fr)...)
				}
				return out
			}
			return nil
		}
		if f == nil {
			return e.leaf(at, "unknown field")
		}
		if al, ok := a.X.(*ssa.Alloc); ok {
			var out []c04Leaf
			for _, v := range c03FieldStoresOf(al, f) {
				out = append(out, e.sealed(v, fr)...)
			}
			return append(out, e.filledBy(al)...)
		}
		if e.cx.owners[f] != nil {
			return e.leaf(at, "decoded protocol field "+e.cx.owners[f].Obj().Name()+"."+f.Name())
		}
		if e.seenFld[f] {
			return nil
		}
		e.seenFld[f] = true
		var out []c04Leaf
		stores := e.cx.p.FieldAccessesOfKind(f, kit.FieldStore)
		for _, acc := range stores {
			out = append(out, e.sealed(acc.Val, nil)...)
		}
		if len(stores) == 0 {
			// never assigned directly: filled through its address (copy, Read, Unmarshal) or by reflection
			for _, acc := range e.cx.p.FieldAccessesOfKind(f, kit.FieldAddrUse) {
				if c, ok := acc.Instr.(ssa.CallInstruction); ok {
					if cal := kit.CalleeOf(c); cal.Built == "len" || cal.Built == "cap" {
						continue
					}
				}
				out = append(out, c04Leaf{Fn: acc.Fn, What: "field " + f.Name() + " written through its address", Pos: acc.Instr.Pos()})
			}
		}
		return out
	case *ssa.FreeVar:
		if b := c03FreeVarBinding(a); b != nil {
			return e.load(at, b, nil)
		}
		return e.leaf(at, "captured variable")
	case *ssa.Parameter:
		// pointer parameter: follow to the pointed-to storage at the callers
		var out []c04Leaf
		for _, b := range e.cx.p.ParamBindings(a) {
			out = append(out, e.load(at, b.Arg, nil)...)
		}
		return out
	case *ssa.IndexAddr:
		return e.leaf(at, "element of a collection")
	case *ssa.Global:
		return e.leaf(at, "global "+a.Name())
	}
	return e.leaf(at, fmt.Sprintf("memory %T", addr))
}

// filledBy: calls that receive the address of a local struct and may fill it (decoders, Unmarshal).
func (e *c04Eval) filledBy(al *ssa.Alloc) []c04Leaf {
	var out []c04Leaf
	aliases := map[ssa.Value]bool{al: true}
	if al.Referrers() != nil {
		for _, r := range *al.Referrers() {
			if mi, ok := r.(*ssa.MakeInterface); ok {
				aliases[mi] = true
			}
		}
	}
	for v := range aliases {
		if v.Referrers() == nil {
			continue
		}
		for _, r := range *v.Referrers() {
			c, ok := r.(ssa.CallInstruction)
			if !ok {
				continue
			}
			cal := kit.CalleeOf(c)
			if cal.Built != "" {
				continue
			}
			for i, a := range c.Common().Args {
				if !aliases[a] {
					continue
				}
				if cal.Static != nil && cal.Static.Blocks != nil && kit.IsRepoPkg(kit.FuncPkgPath(cal.Static)) {
					if kit.WritesThroughParam(cal.Static, i) {
						out = append(out, c04Leaf{Fn: c.Parent(), What: "struct filled by " + cal.String(), Pos: c.Pos()})
					}
					continue
				}
				if c04ReaderName(cal.Name) {
					continue
				}
				out = append(out, c04Leaf{Fn: c.Parent(), What: "struct filled by " + cal.String(), Pos: c.Pos()})
			}
		}
	}
	return c04Dedup(out)
}

func c04ReaderName(name string) bool {
	for _, p := range []string{"Write", "Equal", "Compare", "HasPrefix", "HasSuffix", "Sum", "EncodeToString", "String", "Index", "Contains", "Uint", "Debug", "Info", "Warn", "Error", "Printf", "Sprintf", "Errorf"} {
		if strings.HasPrefix(name, p) {
			return true
		}
	}
	return false
}

// buffer: the bytes of a local buffer (make / array variable) are whatever is written into it.
func (e *c04Eval) buffer(root ssa.Value, fr *c04Frame) []c04Leaf {
	var out []c04Leaf
	seen := map[ssa.Value]bool{}
	var walk func(v ssa.Value)
	walk = func(v ssa.Value) {
		if seen[v] || v.Referrers() == nil {
			return
		}
		seen[v] = true
		for _, r := range *v.Referrers() {
			switch x := r.(type) {
			case *ssa.Slice:
				if x.X == v {
					walk(x)
				}
			case *ssa.IndexAddr:
				if x.X == v {
					walk(x)
				}
			case *ssa.Store:
				if x.Addr == v {
					if _, isByte := x.Val.Type().Underlying().(*types.Basic); isByte {
						continue // single header bytes
					}
					out = append(out, e.sealed(x.Val, fr)...)
				}
			case *ssa.MakeClosure:
				for i, b := range x.Bindings {
					if cf, ok := x.Fn.(*ssa.Function); ok && b == v && i < len(cf.FreeVars) {
						walk(cf.FreeVars[i])
					}
				}
			case ssa.CallInstruction:
				cal := kit.CalleeOf(x)
				args := x.Common().Args
				switch {
				case cal.Built == "copy":
					if len(args) == 2 && args[0] == v {
						out = append(out, e.sealed(args[1], fr)...)
					}
					continue
				case cal.Built != "":
					continue
				case cal.Pkg == "encoding/binary":
					continue
				}
				for i, a := range args {
					if a != v {
						continue
					}
					if cal.Static != nil && cal.Static.Blocks != nil && kit.IsRepoPkg(kit.FuncPkgPath(cal.Static)) {
						if kit.WritesThroughParam(cal.Static, i) {
							out = append(out, c04Leaf{Fn: x.Parent(), What: "buffer filled by " + cal.String(), Pos: x.Pos()})
						}
						continue
					}
					if c04ReaderName(cal.Name) {
						continue
					}
					out = append(out, c04Leaf{Fn: x.Parent(), What: "buffer filled by " + cal.String(), Pos: x.Pos()})
				}
			}
		}
	}
	walk(root)
	return out
}

func c04Bytesish(t types.Type) bool {
	switch u := t.Underlying().(type) {
	case *types.Slice:
		b, ok := u.Elem().Underlying().(*types.Basic)
		return ok && b.Kind() == types.Uint8
	case *types.Basic:
		return u.Kind() == types.String
	}
	return false
}

func (e *c04Eval) call(c *ssa.Call, idx int, fr *c04Frame) []c04Leaf {
	cal := kit.CalleeOf(c)
	if cal.Built != "" {
		if cal.Built == "append" {
			var out []c04Leaf
			for _, a := range c.Call.Args {
				out = append(out, e.sealed(a, fr)...)
			}
			return out
		}
		return e.leaf(c, "result of builtin "+cal.Built)
	}
	callees := e.cx.p.CalleesAt(c)
	if len(callees) == 0 {
		return e.leaf(c, "result of a call that cannot be resolved")
	}
	var out []c04Leaf
	for _, g := range callees {
		switch {
		case g == e.cx.encrypt:
			if idx != 0 {
				out = append(out, e.leaf(c, "non-ciphertext result of Encrypt")...)
			}
		case g.Blocks != nil && kit.IsRepoPkg(kit.FuncPkgPath(g)):
			// recursion guard on the context chain
			rec := false
			for f := fr; f != nil; f = f.parent {
				if f.fn == g {
					rec = true
				}
			}
			if rec {
				continue
			}
			nf := &c04Frame{fn: g, site: c, parent: fr}
			for _, ret := range kit.Returns(g) {
				if g.Recover != nil && ret.Block() == g.Recover {
					continue
				}
				if rv := kit.ReturnResult(ret, idx); rv != nil {
					out = append(out, e.sealed(rv, nf)...)
				}
			}
		default:
			// external function: its result is a function of its byte-ish arguments
			any := false
			args := c.Call.Args
			if c.Call.IsInvoke() {
				args = append([]ssa.Value{c.Call.Value}, args...)
			}
			var sub []c04Leaf
			for _, a := range args {
				if c04Bytesish(a.Type()) {
					any = true
					sub = append(sub, e.sealed(a, fr)...)
				}
			}
			if !any {
				out = append(out, e.leaf(c, "data returned by "+cal.String())...)
			} else {
				out = append(out, sub...)
			}
		}
	}
	return out
}

// callsEncrypt: fn calls (*SessionKey).Encrypt itself or through repository helpers (static, depth-limited):
// such a function is an encrypting wrapper, and a path on which it returns its argument is a fallback.
func (cx *c04Ctx) callsEncrypt(fn *ssa.Function, depth int) bool {
	if fn == nil || depth < 0 {
		return false
	}
	for _, f := range kit.WithClosures(fn) {
		for _, c := range kit.Calls(f) {
			g := kit.CalleeOf(c).Static
			if g == nil {
				continue
			}
			if g == cx.encrypt {
				return true
			}
			if g != fn && g.Blocks != nil && kit.IsRepoPkg(kit.FuncPkgPath(g)) && cx.callsEncrypt(g, depth-1) {
				return true
			}
		}
	}
	return false
}

func (e *c04Eval) param(prm *ssa.Parameter, fr *c04Frame) []c04Leaf {
	fn := prm.Parent()
	pi := kit.ParamIndex(prm)
	for f := fr; f != nil; f = f.parent {
		if f.fn != fn {
			continue
		}
		arg := kit.ArgAt(f.site, pi)
		if arg == nil {
			return e.leaf(prm, fmt.Sprintf("parameter #%d cannot be bound", pi))
		}
		ls := c04Dedup(e.sealed(arg, f.parent))
		if len(ls) == 0 {
			return nil
		}
		if !e.cx.callsEncrypt(fn, 3) {
			return ls // a plain helper (parser, slicer): the origin of the bytes is the finding
		}
		var ds []string
		for _, l := range ls {
			ds = append(ds, l.key())
		}
		return []c04Leaf{{Fn: fn, What: fmt.Sprintf("returns its parameter #%d without sealing it", pi), Detail: "the argument comes from " + strings.Join(ds, "; "), Pos: fn.Pos()}}
	}
	binds := e.cx.p.ParamBindingsAt(fn, pi)
	if len(binds) == 0 {
		e.cx.unref[fmt.Sprintf("%s parameter #%d", kit.FuncName(fn), pi)] = true
		return nil
	}
	var out []c04Leaf
	for _, b := range binds {
		caller := b.Caller
		if caller.Synthetic == "" && !kit.IsRepoPkg(kit.FuncPkgPath(caller)) {
			out = append(out, c04Leaf{Fn: fn, What: fmt.Sprintf("parameter #%d is supplied by callers outside the repository", pi), Detail: "e.g. " + caller.String(), Pos: fn.Pos()})
			continue
		}
		out = append(out, e.sealed(b.Arg, nil)...)
	}
	return out
}

// ---------------------------------------------------------------------------------------
// sinks
// ---------------------------------------------------------------------------------------

type c04Sink struct {
	alloc *ssa.Alloc
	fn    *ssa.Function
	kind  int64
	key   string
}

// typeKinds returns the data-frame kinds a Type value may take (constants, through phis and
// parameters bound at the callers).
func (cx *c04Ctx) typeKinds(v ssa.Value, depth int, seen map[ssa.Value]bool) map[int64]bool {
	out := map[int64]bool{}
	if v == nil || seen[v] || depth > 4 {
		return out
	}
	seen[v] = true
	switch x := v.(type) {
	case *ssa.Const, *ssa.Convert:
		if k, ok := kit.ConstInt(v); ok {
			if _, isData := cx.kinds[k]; isData {
				out[k] = true
			}
		}
	case *ssa.Phi:
		for _, e := range x.Edges {
			for k := range cx.typeKinds(e, depth, seen) {
				out[k] = true
			}
		}
	case *ssa.Parameter:
		for _, b := range cx.p.ParamBindings(x) {
			for k := range cx.typeKinds(b.Arg, depth+1, seen) {
				out[k] = true
			}
		}
	case *ssa.UnOp:
		if prm := kit.SpilledParam(x); prm != nil {
			return cx.typeKinds(prm, depth, seen)
		}
	}
	return out
}

func (cx *c04Ctx) sinks() []*c04Sink {
	var out []*c04Sink
	for _, fn := range cx.p.RepoFuncs() {
		ord := map[int64]int{}
		kit.Instrs(fn, func(in ssa.Instruction) {
			a, ok := in.(*ssa.Alloc)
			if !ok || c03AllocElemNamed(a) != cx.frame {
				return
			}
			kinds := map[int64]bool{}
			for _, tv := range c03FieldStoresOf(a, cx.fType) {
				for k := range cx.typeKinds(tv, 0, map[ssa.Value]bool{}) {
					kinds[k] = true
				}
			}
			var ks []int64
			for k := range kinds {
				ks = append(ks, k)
			}
			sort.Slice(ks, func(i, j int) bool { return ks[i] < ks[j] })
			for _, k := range ks {
				ord[k]++
				out = append(out, &c04Sink{alloc: a, fn: fn, kind: k, key: fmt.Sprintf("%s %s #%d", kit.FuncName(fn), cx.kinds[k], ord[k])})
			}
		})
	}
	return out
}

// payloadLeaves evaluates one sink.
func (cx *c04Ctx) payloadLeaves(s *c04Sink) []c04Leaf {
	e := cx.newEval()
	var out []c04Leaf
	msgTypes := cx.dgramOf[s.kind]
	for _, pv := range c03FieldStoresOf(s.alloc, cx.fPayload) {
		if msgTypes == nil {
			out = append(out, e.sealed(pv, nil)...)
			continue
		}
		out = append(out, cx.encodedPayload(e, pv, msgTypes, map[ssa.Value]bool{})...)
	}
	return c04Dedup(out)
}

// encodedPayload: the payload of a UDP_DATAGRAM / ICMP_ECHO frame must be a relayed payload, empty,
// or X.Encode() of the datagram message type; then the Data field of X must be sealed.
func (cx *c04Ctx) encodedPayload(e *c04Eval, pv ssa.Value, msgTypes map[*types.Named]bool, seen map[ssa.Value]bool) []c04Leaf {
	if pv == nil || seen[pv] {
		return nil
	}
	seen[pv] = true
	switch x := pv.(type) {
	case *ssa.Const:
		return nil
	case *ssa.Phi:
		var out []c04Leaf
		for _, ed := range x.Edges {
			out = append(out, cx.encodedPayload(e, ed, msgTypes, seen)...)
		}
		return out
	case *ssa.UnOp:
		if x.Op == token.MUL {
			if fa, ok := x.X.(*ssa.FieldAddr); ok && kit.FieldOfAddr(fa) == cx.fPayload {
				return e.sealed(pv, nil)
			}
		}
	case *ssa.Parameter:
		binds := cx.p.ParamBindings(x)
		if len(binds) == 0 {
			cx.unref[fmt.Sprintf("%s parameter #%d", kit.FuncName(x.Parent()), kit.ParamIndex(x))] = true
			return nil
		}
		var out []c04Leaf
		for _, b := range binds {
			out = append(out, cx.encodedPayload(e, b.Arg, msgTypes, seen)...)
		}
		return out
	case *ssa.Extract:
		if c, ok := x.Tuple.(*ssa.Call); ok && x.Index == 0 {
			return cx.encodeCall(e, c, msgTypes, seen)
		}
	case *ssa.Call:
		return cx.encodeCall(e, x, msgTypes, seen)
	}
	return []c04Leaf{{Fn: c04FnOf(pv), What: "payload is not produced by Encode() of the datagram message", Pos: pv.Pos()}}
}

func (cx *c04Ctx) encodeCall(e *c04Eval, c *ssa.Call, msgTypes map[*types.Named]bool, seen map[ssa.Value]bool) []c04Leaf {
	cal := kit.CalleeOf(c)
	recv := kit.Receiver(c)
	if cal.Static != nil && recv != nil && kit.FuncPkgPath(cal.Static) == kit.PkgPath("internal/protocol") {
		var n *types.Named
		t := recv.Type()
		if pt, ok := t.Underlying().(*types.Pointer); ok {
			t = pt.Elem()
		}
		n, _ = t.(*types.Named)
		if n != nil && msgTypes[n] {
			return cx.dataOf(e, recv, n, map[ssa.Value]bool{})
		}
	}
	// a repository helper that wraps the encoding: judge what it returns
	if g := cal.Static; g != nil && g.Blocks != nil && kit.IsRepoPkg(kit.FuncPkgPath(g)) && kit.FuncPkgPath(g) != kit.PkgPath("internal/protocol") {
		var out []c04Leaf
		for _, ret := range kit.Returns(g) {
			if g.Recover != nil && ret.Block() == g.Recover {
				continue
			}
			out = append(out, cx.encodedPayload(e, kit.ReturnResult(ret, 0), msgTypes, seen)...)
		}
		return out
	}
	return []c04Leaf{{Fn: c.Parent(), What: "payload is produced by " + cal.String() + ", not by Encode() of the datagram message", Pos: c.Pos()}}
}

// dataOf: the Data field of the message value msg (a literal, a parameter, a phi of those).
func (cx *c04Ctx) dataOf(e *c04Eval, msg ssa.Value, n *types.Named, seen map[ssa.Value]bool) []c04Leaf {
	if msg == nil || seen[msg] {
		return nil
	}
	seen[msg] = true
	data := cx.dgram[n]
	switch x := msg.(type) {
	case *ssa.Alloc:
		var out []c04Leaf
		for _, v := range c03FieldStoresOf(x, data) {
			out = append(out, e.sealed(v, nil)...)
		}
		return out
	case *ssa.Phi:
		var out []c04Leaf
		for _, ed := range x.Edges {
			out = append(out, cx.dataOf(e, ed, n, seen)...)
		}
		return out
	case *ssa.Parameter:
		binds := cx.p.ParamBindings(x)
		if len(binds) == 0 {
			cx.unref[fmt.Sprintf("%s parameter #%d", kit.FuncName(x.Parent()), kit.ParamIndex(x))] = true
			return nil
		}
		var out []c04Leaf
		for _, b := range binds {
			out = append(out, cx.dataOf(e, b.Arg, n, seen)...)
		}
		return out
	case *ssa.Extract:
		// a datagram decoded from a received frame and re-encoded: relayed unchanged
		if c, ok := x.Tuple.(*ssa.Call); ok {
			if g := kit.CalleeOf(c).Static; g != nil && kit.FuncPkgPath(g) == kit.PkgPath("internal/protocol") {
				return nil
			}
			return cx.dataOfCall(e, c, x.Index, n, seen)
		}
	case *ssa.Call:
		return cx.dataOfCall(e, x, 0, n, seen)
	case *ssa.UnOp:
		if x.Op == token.MUL {
			if a, ok := x.X.(*ssa.Alloc); ok {
				var out []c04Leaf
				for _, v := range c03AllocStores(a) {
					out = append(out, cx.dataOf(e, v, n, seen)...)
				}
				return out
			}
		}
	}
	return []c04Leaf{{Fn: c04FnOf(msg), What: "datagram message of unknown construction", Pos: msg.Pos()}}
}

// dataOfCall: the message is built by a repository constructor helper: judge what it returns.
func (cx *c04Ctx) dataOfCall(e *c04Eval, c *ssa.Call, idx int, n *types.Named, seen map[ssa.Value]bool) []c04Leaf {
	g := kit.CalleeOf(c).Static
	if g == nil || g.Blocks == nil || !kit.IsRepoPkg(kit.FuncPkgPath(g)) {
		return []c04Leaf{{Fn: c.Parent(), What: "datagram message returned by " + kit.CalleeOf(c).String(), Pos: c.Pos()}}
	}
	if kit.FuncPkgPath(g) == kit.PkgPath("internal/protocol") {
		return nil // decoded from the wire
	}
	var out []c04Leaf
	for _, ret := range kit.Returns(g) {
		if g.Recover != nil && ret.Block() == g.Recover {
			continue
		}
		if rv := kit.ReturnResult(ret, idx); rv != nil {
			if kit.IsNilConst(rv) {
				continue
			}
			out = append(out, cx.dataOf(e, rv, n, seen)...)
		}
	}
	return out
}

// ---------------------------------------------------------------------------------------
// R3: relay state holds no key; no key derivation on the forwarding path of an open message
// ---------------------------------------------------------------------------------------

// c04HoldsKey walks a type and reports a path to key material (crypto.SessionKey or a 32-byte array).
func c04HoldsKey(t types.Type, seen map[types.Type]bool, path string) string {
	if seen[t] {
		return ""
	}
	seen[t] = true
	if n, ok := t.(*types.Named); ok {
		if o := n.Obj(); o.Pkg() != nil && o.Pkg().Path() == kit.PkgPath("internal/crypto") {
			return path + " (" + o.Name() + ")"
		}
		if o := n.Obj(); o.Pkg() == nil || !kit.IsRepoPkg(o.Pkg().Path()) {
			return "" // std types (sync.Mutex, time.Time, ...)
		}
	}
	switch u := t.Underlying().(type) {
	case *types.Struct:
		for i := 0; i < u.NumFields(); i++ {
			if s := c04HoldsKey(u.Field(i).Type(), seen, path+"."+u.Field(i).Name()); s != "" {
				return s
			}
		}
	case *types.Pointer:
		return c04HoldsKey(u.Elem(), seen, path)
	case *types.Slice:
		return c04HoldsKey(u.Elem(), seen, path+"[]")
	case *types.Map:
		if s := c04HoldsKey(u.Key(), seen, path+"[key]"); s != "" {
			return s
		}
		return c04HoldsKey(u.Elem(), seen, path+"[]")
	case *types.Array:
		if c03IsKeyArray(t) {
			return path + " ([32]byte)"
		}
		return c04HoldsKey(u.Elem(), seen, path+"[]")
	}
	return ""
}

func (cx *c04Ctx) reachesDerive() map[*ssa.Function]bool {
	if cx.reaches != nil {
		return cx.reaches
	}
	// static call edges and closure nesting only: interface dispatch is deliberately not
	// followed (an over-approximated call graph connects everything with everything)
	cx.reaches = map[*ssa.Function]bool{cx.c03.derive: true}
	work := []*ssa.Function{cx.c03.derive}
	for len(work) > 0 {
		f := work[len(work)-1]
		work = work[:len(work)-1]
		var preds []*ssa.Function
		for _, site := range cx.p.StaticCallers(f) {
			preds = append(preds, site.Parent())
		}
		if f.Parent() != nil {
			preds = append(preds, f.Parent())
		}
		for _, q := range preds {
			if q != nil && !cx.reaches[q] {
				cx.reaches[q] = true
				work = append(work, q)
			}
		}
	}
	return cx.reaches
}

// relayStateTypes judges the struct types of fn's own package that fn instantiates.
func (cx *c04Ctx) relayStateTypes(fn *ssa.Function, doneType map[*types.Named]bool, nTypes *int) {
	r, p := cx.r, cx.p
	kit.Instrs(fn, func(in ssa.Instruction) {
		a, ok := in.(*ssa.Alloc)
		if !ok {
			return
		}
		n := c03AllocElemNamed(a)
		if n == nil || n.Obj().Pkg() == nil || n.Obj().Pkg().Path() != kit.FuncPkgPath(fn) || doneType[n] {
			return
		}
		if _, isStruct := n.Underlying().(*types.Struct); !isStruct {
			return
		}
		doneType[n] = true
		*nTypes++
		where := c04HoldsKey(n, map[types.Type]bool{}, n.Obj().Name())
		r.Decide(where == "", "C04.R3", "relay state type "+n.Obj().Name(), p.Pos(a.Pos()),
			"the state a relay records holds no key material",
			"relay state can hold key material at "+where+": a transit agent would keep a tunnel key")
	})
}

func (cx *c04Ctx) checkRelays() {
	r, p := cx.r, cx.p
	reach := cx.reachesDerive()
	nRelayFns, nTypes := 0, 0
	doneType := map[*types.Named]bool{}
	for _, l := range cx.c03.literals() {
		if !l.isOpen || !c03All(l.key, func(o c03Origin) bool { return o.Kind == "wire" }) {
			continue
		}
		nRelayFns++
		fn := l.fn
		// (a) state recorded while relaying holds no key (the forwarding function and, when the
		// literal lives in a helper, its static callers)
		before := nTypes
		cx.relayStateTypes(fn, doneType, &nTypes)
		if nTypes == before {
			for _, cs := range p.StaticCallers(fn) {
				cx.relayStateTypes(cs.Parent(), doneType, &nTypes)
			}
		}
		// (b) no call that can reach DeriveSessionKey shares a path with the forwarded open
		bad := ""
		for _, c := range kit.Calls(fn) {
			g := kit.CalleeOf(c).Static
			if g == nil || !reach[g] {
				continue
			}
			if kit.CanReach(c, l.alloc) || kit.CanReach(l.alloc, c) {
				bad = kit.CalleeOf(c).String() + " at " + p.Pos(c.Pos())
			}
		}
		r.Decide(bad == "", "C04.R3", l.name()+" forwarding path", p.Pos(l.alloc.Pos()),
			"no call on the forwarding path of this relayed open message can reach DeriveSessionKey",
			"a call that can reach DeriveSessionKey ("+bad+") lies on the same path as the forwarding of this open message: the transit agent derives a key for a tunnel it relays")
	}
	r.Count("relay_open_sites", nRelayFns)
	r.Count("relay_state_types", nTypes)
	if nRelayFns == 0 {
		r.Infof("C04.R3", "relay sites", "-", "no open message literal copying a received EphemeralPubKey was found (relays may re-encode the decoded message in place); R3 has nothing to judge")
	}
}

// ---------------------------------------------------------------------------------------
// R4: a session key is never wiped while a sealing path can still use it
// ---------------------------------------------------------------------------------------

// c04KeyOrigin: a *SessionKey value was loaded from holder field F by instruction Load.
type c04KeyOrigin struct {
	F      *types.Var
	Load   ssa.Instruction // the load of the holder field
	Base   ssa.Value       // the holder object the field was selected from
	Direct bool            // Load lies in the function of the use itself (not in a getter, caller or enclosing function)
	// Via: the key was loaded in a caller and handed down as an argument; Via is the call, in the
	// function of Load, inside whose dynamic extent the use executes (nil otherwise).
	Via ssa.CallInstruction
}

func c04IsSessionKeyPtr(t types.Type) bool {
	pt, ok := t.Underlying().(*types.Pointer)
	if !ok {
		return false
	}
	n, ok := pt.Elem().(*types.Named)
	return ok && n.Obj().Name() == "SessionKey" && n.Obj().Pkg() != nil && n.Obj().Pkg().Path() == kit.PkgPath("internal/crypto")
}

// keyOrigins finds the holder fields a *SessionKey value was read from.
func (cx *c04Ctx) keyOrigins(v ssa.Value, direct bool, seen map[ssa.Value]bool, depth int) []c04KeyOrigin {
	if v == nil || seen[v] || depth > 6 {
		return nil
	}
	seen[v] = true
	var out []c04KeyOrigin
	switch x := v.(type) {
	case *ssa.Phi:
		for _, e := range x.Edges {
			out = append(out, cx.keyOrigins(e, direct, seen, depth)...)
		}
	case *ssa.Extract:
		if c, ok := x.Tuple.(*ssa.Call); ok {
			out = append(out, cx.keyCallOrigins(c, x.Index, seen, depth)...)
		}
	case *ssa.Call:
		out = append(out, cx.keyCallOrigins(x, 0, seen, depth)...)
	case *ssa.ChangeType:
		return cx.keyOrigins(x.X, direct, seen, depth)
	case *ssa.Parameter:
		for _, b := range cx.p.ParamBindings(x) {
			for _, o := range cx.keyOrigins(b.Arg, true, seen, depth+1) {
				if o.Direct && o.Via == nil && o.Load.Parent() == b.Site.Parent() {
					// loaded in the caller and passed down: the use runs inside this call
					o.Via = b.Site
				}
				o.Direct = false
				out = append(out, o)
			}
		}
	case *ssa.UnOp:
		if x.Op != token.MUL {
			return nil
		}
		switch a := x.X.(type) {
		case *ssa.FieldAddr:
			if f := kit.FieldOfAddr(a); f != nil && c04IsSessionKeyPtr(f.Type()) {
				out = append(out, c04KeyOrigin{F: f, Load: x, Base: a.X, Direct: direct})
			}
		case *ssa.Alloc:
			for _, sv := range c03AllocStores(a) {
				out = append(out, cx.keyOrigins(sv, direct, seen, depth)...)
			}
		case *ssa.FreeVar:
			if b := c03FreeVarBinding(a); b != nil {
				if al, ok := b.(*ssa.Alloc); ok {
					for _, sv := range c03AllocStores(al) {
						out = append(out, cx.keyOrigins(sv, false, seen, depth+1)...)
					}
				}
			}
		}
	}
	return out
}

func (cx *c04Ctx) keyCallOrigins(c *ssa.Call, idx int, seen map[ssa.Value]bool, depth int) []c04KeyOrigin {
	var out []c04KeyOrigin
	for _, g := range cx.p.CalleesAt(c) {
		if g == nil || g.Blocks == nil || !kit.IsRepoPkg(kit.FuncPkgPath(g)) {
			continue
		}
		for _, ret := range kit.Returns(g) {
			if g.Recover != nil && ret.Block() == g.Recover {
				continue
			}
			if rv := kit.ReturnResult(ret, idx); rv != nil {
				out = append(out, cx.keyOrigins(rv, false, seen, depth+1)...)
			}
		}
	}
	return out
}

// c04MutexFields lists the sync.Mutex / sync.RWMutex fields of the struct the holder base points to.
func c04MutexFields(base ssa.Value) []*types.Var {
	t := base.Type()
	if pt, ok := t.Underlying().(*types.Pointer); ok {
		t = pt.Elem()
	}
	st, ok := t.Underlying().(*types.Struct)
	if !ok {
		return nil
	}
	var out []*types.Var
	for i := 0; i < st.NumFields(); i++ {
		f := st.Field(i)
		if n, ok := f.Type().(*types.Named); ok && n.Obj().Pkg() != nil && n.Obj().Pkg().Path() == "sync" &&
			(n.Obj().Name() == "Mutex" || n.Obj().Name() == "RWMutex") {
			out = append(out, f)
		}
	}
	return out
}

func c04HolderName(base ssa.Value, f *types.Var) string {
	t := base.Type()
	if pt, ok := t.Underlying().(*types.Pointer); ok {
		t = pt.Elem()
	}
	if n, ok := t.(*types.Named); ok {
		return n.Obj().Pkg().Name() + "." + n.Obj().Name() + "." + f.Name()
	}
	return f.Name()
}

// c04WriteHeld: mutex m is held in write mode (Lock, not RLock) at instruction at.
func c04WriteHeld(li *kit.LockInfo, at ssa.Instruction, m *types.Var) bool {
	acq, held := li.HeldAt(at, m)
	if !held || acq == nil {
		return false
	}
	c, ok := acq.(ssa.CallInstruction)
	return ok && kit.CalleeOf(c).Name == "Lock"
}

type c04Wipe struct {
	site   ssa.Instruction
	fn     *ssa.Function
	what   string
	origin c04KeyOrigin
	mutex  *types.Var          // held in write mode around the wipe (nil: none)
	marks  map[*types.Var]bool // holder fields stored in the same critical section as the wipe
	key    string
}

func (cx *c04Ctx) checkKeyLifetime() {
	r, p := cx.r, cx.p
	sk := p.NamedType("internal/crypto", "SessionKey")
	if !r.Require(sk != nil, "anchor-unresolved: type internal/crypto.SessionKey") {
		return
	}
	var keyFld *types.Var
	for _, f := range kit.StructFields(sk) {
		if c03IsKeyArray(f.Type()) {
			keyFld = f
		}
	}
	if !r.Require(keyFld != nil, "anchor-unresolved: 32-byte key field of SessionKey") {
		return
	}
	// methods of SessionKey that overwrite the key bytes in place
	wipers := map[*ssa.Function]bool{}
	for _, m := range p.Methods("internal/crypto", "SessionKey") {
		kit.Instrs(m, func(in ssa.Instruction) {
			fa, ok := in.(*ssa.FieldAddr)
			if !ok || kit.FieldOfAddr(fa) != keyFld || fa.Referrers() == nil {
				return
			}
			derived := map[ssa.Value]bool{fa: true}
			for _, rf := range *fa.Referrers() {
				if sl, ok := rf.(*ssa.Slice); ok {
					derived[sl] = true
				}
				if ia, ok := rf.(*ssa.IndexAddr); ok {
					derived[ia] = true
				}
			}
			for d := range derived {
				if d.Referrers() == nil {
					continue
				}
				for _, rf := range *d.Referrers() {
					switch x := rf.(type) {
					case *ssa.Store:
						if x.Addr == d {
							wipers[m] = true
						}
					case ssa.CallInstruction:
						cal := kit.CalleeOf(x)
						for i, a := range x.Common().Args {
							if a != d {
								continue
							}
							if (cal.Built == "copy" && i == 0) || cal.Built == "clear" {
								wipers[m] = true
							}
							if cal.Static != nil && kit.IsRepoPkg(kit.FuncPkgPath(cal.Static)) && kit.WritesThroughParam(cal.Static, i) {
								wipers[m] = true
							}
						}
					}
				}
			}
		})
	}
	r.Count("key_wiping_methods", len(wipers))
	crypt := kit.PkgPath("internal/crypto")
	// wipe sites outside internal/crypto
	var wipes []*c04Wipe
	ord := map[*ssa.Function]int{}
	for _, fn := range p.RepoFuncs() {
		if kit.FuncPkgPath(fn) == crypt {
			continue
		}
		kit.Instrs(fn, func(in ssa.Instruction) {
			var keyVal ssa.Value
			what := ""
			switch x := in.(type) {
			case ssa.CallInstruction:
				if g := kit.CalleeOf(x).Static; g != nil && wipers[g] {
					keyVal, what = kit.Receiver(x), g.Name()
				}
			case *ssa.Store:
				// *holder.F = SessionKey{...}: overwrites the key object in place
				if c04IsSessionKeyPtr(x.Addr.Type()) {
					if _, isAlloc := x.Addr.(*ssa.Alloc); !isAlloc {
						keyVal, what = x.Addr, "overwrite"
					}
				}
			}
			if keyVal == nil {
				return
			}
			for _, o := range cx.keyOrigins(keyVal, true, map[ssa.Value]bool{}, 0) {
				ord[fn]++
				w := &c04Wipe{site: in, fn: fn, what: what, origin: o, marks: map[*types.Var]bool{}}
				w.key = fmt.Sprintf("%s %s of %s #%d", kit.FuncName(fn), what, c04HolderName(o.Base, o.F), ord[fn])
				li := kit.Locks(fn)
				for _, m := range c04MutexFields(o.Base) {
					if c04WriteHeld(li, in, m) {
						w.mutex = m
					}
				}
				if w.mutex == nil {
					// one level: a helper that is only called with the holder's lock held
					callers := p.StaticCallers(fn)
					for _, m := range c04MutexFields(o.Base) {
						all := len(callers) > 0
						for _, cs := range callers {
							if !c04WriteHeld(kit.Locks(cs.Parent()), cs, m) {
								all = false
							}
						}
						if all {
							w.mutex = m
						}
					}
				}
				if w.mutex != nil {
					// holder fields (re)written in the same critical section tell later users that the key is gone
					kit.Instrs(fn, func(in2 ssa.Instruction) {
						st, ok := in2.(*ssa.Store)
						if !ok {
							return
						}
						fa, ok := st.Addr.(*ssa.FieldAddr)
						if !ok || !types.Identical(fa.X.Type(), o.Base.Type()) {
							return
						}
						if _, held := li.HeldAt(st, w.mutex); held || len(p.StaticCallers(fn)) > 0 && !c04WriteHeld(li, in, w.mutex) {
							w.marks[kit.FieldOfAddr(fa)] = true
						}
					})
				}
				wipes = append(wipes, w)
			}
		})
	}
	r.Count("key_wipe_sites", len(wipes))
	byField := map[*types.Var][]*c04Wipe{}
	for _, w := range wipes {
		byField[w.origin.F] = append(byField[w.origin.F], w)
	}
	// sealing uses of keys read from a holder field that is wiped somewhere
	type use struct {
		call ssa.CallInstruction
		o    c04KeyOrigin
	}
	uses := map[*types.Var][]use{}
	nUses := 0
	for _, fn := range p.RepoFuncs() {
		if kit.FuncPkgPath(fn) == crypt {
			continue
		}
		for _, c := range kit.Calls(fn) {
			if kit.CalleeOf(c).Static != cx.encrypt {
				continue
			}
			nUses++
			for _, o := range cx.keyOrigins(kit.Receiver(c), true, map[ssa.Value]bool{}, 0) {
				if len(byField[o.F]) > 0 {
					uses[o.F] = append(uses[o.F], use{c, o})
				}
			}
		}
	}
	r.Count("encrypt_call_sites", nUses)
	for _, w := range wipes {
		us := uses[w.origin.F]
		pos := p.Pos(w.site.Pos())
		holder := c04HolderName(w.origin.Base, w.origin.F)
		switch {
		case len(us) == 0:
			r.OK("C04.R4", w.key, pos, "no sealing path reads its key from %s", holder)
		case w.mutex == nil:
			u := us[0]
			r.Violation("C04.R4", w.key, pos,
				"the key bytes of %s are wiped in place without holding a lock of the holder, while %s (at %s) seals with the same key: a chunk read just before the close is sealed under the all-zero key and every transit agent can open it",
				holder, kit.FuncName(u.call.Parent()), p.Pos(u.call.Pos()))
		default:
			r.OK("C04.R4", w.key, pos, "key wiped while holding %s in write mode", w.mutex.Name())
		}
	}
	useOrd := map[*ssa.Function]int{}
	for f, us := range uses {
		_ = f
		for _, u := range us {
			fn := u.call.Parent()
			useOrd[fn]++
			holder := c04HolderName(u.o.Base, u.o.F)
			key := fmt.Sprintf("%s Encrypt with %s #%d", kit.FuncName(fn), holder, useOrd[fn])
			pos := p.Pos(u.call.Pos())
			// the instruction that stands for the use inside the function that loaded the key
			var at ssa.Instruction = u.call
			direct := u.o.Direct
			if !direct && u.o.Via != nil {
				at, direct = u.o.Via, true
			}
			li := kit.Locks(at.Parent())
			bad := ""
			for _, w := range byField[u.o.F] {
				wp := kit.FuncName(w.fn) + " (" + p.Pos(w.site.Pos()) + ")"
				switch {
				case w.mutex == nil:
					bad = "the key is wiped by " + wp + " under no lock, so nothing excludes the wipe while this call seals"
				case !direct:
					bad = "the key pointer is obtained in another function (getter, caller or enclosing function), i.e. outside the critical section of this call, while " + wp + " wipes the key bytes in place under " + w.mutex.Name()
				case !li.SameRegion(u.o.Load, at, w.mutex):
					bad = "the key pointer is read and used without holding " + w.mutex.Name() + " across both, while " + wp + " wipes the key bytes in place under that lock"
				default:
					// the sealing path must learn, inside its critical section, that the key is gone
					seen := false
					for _, g := range kit.GuardsOf(at) {
						_, leaves := kit.ExprReads(g.Cond)
						for _, l := range leaves {
							if lf, _ := kit.LoadedField(l); lf != nil && w.marks[lf] {
								if li2, ok := l.(ssa.Instruction); ok && li.SameRegion(li2, at, w.mutex) {
									seen = true
								}
							}
						}
					}
					if !seen {
						bad = "after " + wp + " wiped the key nothing this call tests inside its critical section has changed (the wipe does not clear the field or set a flag that is checked here): a later call seals under the all-zero key"
					}
				}
				if bad != "" {
					break
				}
			}
			r.Decide(bad == "", "C04.R4", key, pos,
				"key pointer read, validity test and Encrypt lie in one critical section of the lock under which the key is wiped",
				bad+"; the frame is sealed under a key every transit agent knows")
		}
	}
}

// ---------------------------------------------------------------------------------------
// R5: every sealing call uses a key that came out of the tunnel's own key exchange
// ---------------------------------------------------------------------------------------

// keySources returns the places where a *SessionKey value that is not a result of
// DeriveSessionKey (or nil) enters v.
func (cx *c04Ctx) keySources(v ssa.Value, seen map[ssa.Value]bool, seenFld map[*types.Var]bool, depth int) []c04Leaf {
	if v == nil || seen[v] {
		return nil
	}
	seen[v] = true
	if depth > 10 || len(seen) > 4000 {
		return []c04Leaf{{Fn: c04FnOf(v), What: "key provenance too deep to follow", Pos: v.Pos()}}
	}
	bad := func(what string) []c04Leaf { return []c04Leaf{{Fn: c04FnOf(v), What: what, Pos: v.Pos()}} }
	var out []c04Leaf
	switch x := v.(type) {
	case *ssa.Const:
		return nil // nil key: the call panics, nothing is sent
	case *ssa.Phi:
		for _, e := range x.Edges {
			out = append(out, cx.keySources(e, seen, seenFld, depth)...)
		}
		return out
	case *ssa.ChangeType:
		return cx.keySources(x.X, seen, seenFld, depth)
	case *ssa.Extract:
		if c, ok := x.Tuple.(*ssa.Call); ok {
			return cx.keyCallSources(c, x.Index, seen, seenFld, depth)
		}
		if ta, ok := x.Tuple.(*ssa.TypeAssert); ok {
			return cx.keySources(ta.X, seen, seenFld, depth)
		}
		return bad("key taken from a map, channel or tuple")
	case *ssa.Call:
		return cx.keyCallSources(x, 0, seen, seenFld, depth)
	case *ssa.Parameter:
		binds := cx.p.ParamBindings(x)
		for _, b := range binds {
			if b.Caller.Synthetic == "" && !kit.IsRepoPkg(kit.FuncPkgPath(b.Caller)) {
				continue
			}
			out = append(out, cx.keySources(b.Arg, seen, seenFld, depth+1)...)
		}
		return out
	case *ssa.Alloc:
		// &crypto.SessionKey{} : a key object that never saw a key exchange (all-zero key)
		return bad("SessionKey constructed without DeriveSessionKey (zero-value key)")
	case *ssa.UnOp:
		if x.Op != token.MUL {
			return bad("key of unknown origin")
		}
		switch a := x.X.(type) {
		case *ssa.FieldAddr:
			f := kit.FieldOfAddr(a)
			if f == nil {
				return bad("key of unknown origin")
			}
			if al, ok := a.X.(*ssa.Alloc); ok {
				for _, sv := range c03FieldStoresOf(al, f) {
					out = append(out, cx.keySources(sv, seen, seenFld, depth)...)
				}
				return out
			}
			if seenFld[f] {
				return nil
			}
			seenFld[f] = true
			for _, acc := range cx.p.FieldAccessesOfKind(f, kit.FieldStore) {
				out = append(out, cx.keySources(acc.Val, seen, seenFld, depth+1)...)
			}
			return out
		case *ssa.Alloc:
			for _, sv := range c03AllocStores(a) {
				out = append(out, cx.keySources(sv, seen, seenFld, depth)...)
			}
			return out
		case *ssa.FreeVar:
			if b := c03FreeVarBinding(a); b != nil {
				if al, ok := b.(*ssa.Alloc); ok {
					for _, sv := range c03AllocStores(al) {
						out = append(out, cx.keySources(sv, seen, seenFld, depth+1)...)
					}
					return out
				}
			}
			return bad("key captured from an enclosing function in an unknown way")
		case *ssa.Global:
			return bad("package-level key " + a.Name())
		}
		return bad("key loaded from a collection or unknown memory")
	case *ssa.Lookup:
		return bad("key taken from a map")
	}
	return bad(fmt.Sprintf("key of unknown origin (%T)", v))
}

func (cx *c04Ctx) keyCallSources(c *ssa.Call, idx int, seen map[ssa.Value]bool, seenFld map[*types.Var]bool, depth int) []c04Leaf {
	var out []c04Leaf
	callees := cx.p.CalleesAt(c)
	if len(callees) == 0 {
		return []c04Leaf{{Fn: c.Parent(), What: "key returned by a call that cannot be resolved", Pos: c.Pos()}}
	}
	for _, g := range callees {
		switch {
		case g == cx.c03.derive:
			// the tunnel's own key exchange
		case g.Blocks != nil && kit.IsRepoPkg(kit.FuncPkgPath(g)):
			for _, ret := range kit.Returns(g) {
				if g.Recover != nil && ret.Block() == g.Recover {
					continue
				}
				if rv := kit.ReturnResult(ret, idx); rv != nil {
					out = append(out, cx.keySources(rv, seen, seenFld, depth+1)...)
				}
			}
		default:
			out = append(out, c04Leaf{Fn: c.Parent(), What: "key returned by " + kit.CalleeOf(c).String(), Pos: c.Pos()})
		}
	}
	return out
}

func (cx *c04Ctx) checkKeySources() {
	r, p := cx.r, cx.p
	crypt := kit.PkgPath("internal/crypto")
	n := 0
	for _, fn := range p.RepoFuncs() {
		if kit.FuncPkgPath(fn) == crypt {
			continue
		}
		ord := 0
		for _, c := range kit.Calls(fn) {
			if kit.CalleeOf(c).Static != cx.encrypt {
				continue
			}
			ord++
			n++
			key := fmt.Sprintf("%s Encrypt #%d key source", kit.FuncName(fn), ord)
			leaves := c04Dedup(cx.keySources(kit.Receiver(c), map[ssa.Value]bool{}, map[*types.Var]bool{}, 0))
			if len(leaves) == 0 {
				r.OK("C04.R5", key, p.Pos(c.Pos()), "the sealing key is a result of DeriveSessionKey on every path")
				continue
			}
			var ds []string
			for _, l := range leaves {
				ds = append(ds, l.key()+" at "+p.Pos(l.Pos))
			}
			r.Violation("C04.R5", key, p.Pos(c.Pos()),
				"this call seals with a key that did not come out of the tunnel's key exchange (%s): the frame is not protected by the end-to-end key, e.g. a zero-value SessionKey is the all-zero key every transit agent knows",
				strings.Join(ds, "; "))
		}
	}
	r.Count("encrypt_sites_key_source_checked", n)
}

// ---------------------------------------------------------------------------------------
// run
// ---------------------------------------------------------------------------------------

func runC04(p *kit.Program, r *kit.Report) {
	r.Rule("C04.R1", "the application bytes of every STREAM_DATA / UDP_DATAGRAM / ICMP_ECHO frame come only from (*SessionKey).Encrypt, from a received frame or datagram relayed unchanged, or are empty (parameters followed to all callers, wrappers summarised by their return values)")
	r.Rule("C04.R4", "key lifetime: wherever a session key held in a struct field is wiped in place, the wipe holds the holder's lock in write mode, and every Encrypt with a key read from that field reads the pointer, tests a field the wipe's critical section changes, and seals inside one critical section of the same lock")
	r.Rule("C04.R5", "every Encrypt call outside internal/crypto uses a key that is, on every data-flow path, a result of DeriveSessionKey (never a zero-value SessionKey, a package-level key or a key of unknown origin)")
	r.Rule("C04.R3", "the state a relay records holds no key material, and no call that can reach DeriveSessionKey lies on the forwarding path of a relayed open message")
	c04ConsumedKey(p, r)
	cx := newC04Ctx(p, r)
	if cx == nil {
		return
	}
	sinks := cx.sinks()
	r.Count("data_frame_constructions", len(sinks))
	perKind := map[int64]int{}
	for _, s := range sinks {
		perKind[s.kind]++
		pos := p.Pos(s.alloc.Pos())
		leaves := cx.payloadLeaves(s)
		if len(leaves) == 0 {
			r.OK("C04.R1", s.key, pos, "payload is sealed, relayed or empty on every path")
			continue
		}
		for _, l := range leaves {
			d := ""
			if l.Detail != "" {
				d = " (" + l.Detail + ")"
			}
			r.Violation("C04.R1", s.key+" <- "+l.key(), pos,
				"unsealed bytes reach this %s frame: %s at %s%s; a transit agent relaying the frame reads them",
				cx.kinds[s.kind], l.key(), p.Pos(l.Pos), d)
		}
	}
	for k, name := range cx.kinds {
		r.Count("sinks_"+name, perKind[k])
		r.Require(perKind[k] >= 1, "floor: no construction of a %s frame found", name)
	}
	var un []string
	for k := range cx.unref {
		un = append(un, k)
	}
	sort.Strings(un)
	for _, k := range un {
		r.Infof("C04.R1", "unreferenced "+k, "-", "no caller in non-test code: nothing can reach this sink through it")
	}
	// R3
	r2 := kit.NewReport("C03", "aux")
	cx.c03 = newC03Ctx(p, r2)
	if cx.c03 == nil {
		for _, f := range r2.Floors {
			r.Floor("%s", f)
		}
		return
	}
	cx.checkRelays()
	cx.checkKeyLifetime()
	cx.checkKeySources()
}
