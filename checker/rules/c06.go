package rules

import (
	"fmt"
	"go/types"
	"sort"

	"golang.org/x/tools/go/ssa"

	"mmverify/kit"
)

func init() {
	register(&Check{
		ID: "C06", Level: "other", Patterns: []string{"./internal/agent"},
		Technique: "narrowing-conversion sites + program-wide store set of the counted field with interprocedural length upper bounds; dominating length guards at local-route admission",
		Explain:   "Decides, for every uintN(len(X.Routes)) conversion in the encoders of protocol.RouteAdvertise and protocol.RouteWithdraw, that the count cannot wrap: either a guard in the encoder excludes larger lengths, or every store to that Routes field anywhere in the repository stores a slice whose length is structurally bounded by the count width (chunk idiom, make sized by a narrow wire integer, a value already carried by such a field, followed through parameters to all callers). Decides that the string parameters of the local domain/forward route admission methods are stored only under a guard (direct, or through a validator whose success returns are guarded) that excludes lengths above 255, the width of their wire length prefix. Display name, path and seen-by counts (C15) and the 16 KiB frame budget are not covered.",
		Run:       runC06,
		SelfTests: append(c06MoreSelfTests, []SelfTest{
			{Name: "local announcement sends the whole set in one message", ExpectRule: "C06.R1", ExpectKey: "AnnounceLocalRoutes", Edits: []Edit{
				{File: "internal/flood/flood.go", Old: "\t\t\tSequence:          f.routeMgr.IncrementSequence(),\n\t\t\tRoutes:            routes[start:end],\n\t\t\tPath:              path,    // Keep for backwards compat", New: "\t\t\tSequence:          f.routeMgr.IncrementSequence(),\n\t\t\tRoutes:            routes,\n\t\t\tPath:              path,    // Keep for backwards compat"},
			}},
			{Name: "full-table replay chunk of 256", ExpectRule: "C06.R1", ExpectKey: "SendFullTable", Edits: []Edit{
				{File: "internal/flood/flood.go", Old: "\t\t\tend := start + maxRoutesPerMessage\n\t\t\tif end > len(routes) {\n\t\t\t\tend = len(routes)\n\t\t\t}\n\n\t\t\tadv := &protocol.RouteAdvertise{", New: "\t\t\tend := start + maxRoutesPerMessage + 1\n\t\t\tif end > len(routes) {\n\t\t\t\tend = len(routes)\n\t\t\t}\n\n\t\t\tadv := &protocol.RouteAdvertise{"},
			}},
			{Name: "chunk size constant raised to 256", ExpectRule: "C06.R1", Edits: []Edit{
				{File: "internal/flood/flood.go", Old: "const maxRoutesPerMessage = 255", New: "const maxRoutesPerMessage = 256"},
			}},
			{Name: "withdrawal chunk end not clamped by the chunk size", ExpectRule: "C06.R1", ExpectKey: "WithdrawLocalRoutes", Edits: []Edit{
				{File: "internal/flood/flood.go", Old: "\t\t\tRoutes:      routes[start:end],\n", New: "\t\t\tRoutes:      routes[start:],\n"},
			}},
			{Name: "decoder route count read as 16 bits", ExpectRule: "C06.R1", ExpectKey: "DecodeRouteWithdraw", Edits: []Edit{
				{File: "internal/protocol/frame.go", Old: "\trouteCount := int(rd.readUint8())\n\trw.Routes = make([]Route, routeCount)", New: "\trouteCount := int(rd.readUint16())\n\trw.Routes = make([]Route, routeCount)"},
			}},
			{Name: "domain pattern length check dropped", ExpectRule: "C06.R2", ExpectKey: "AddLocalDomainRoute", Edits: []Edit{
				{File: "internal/routing/domain.go", Old: "\tif len(pattern) > MaxAdvertisedStringLen {\n", New: "\tif len(pattern) > MaxAdvertisedStringLen && false {\n"},
			}},
			{Name: "forward target not length-checked", ExpectRule: "C06.R2", ExpectKey: "target", Edits: []Edit{
				{File: "internal/routing/manager.go", Old: "\tif len(key) > MaxAdvertisedStringLen || len(target) > MaxAdvertisedStringLen {", New: "\tif len(key) > MaxAdvertisedStringLen {"},
			}},
			{Name: "forward key limit off by one", ExpectRule: "C06.R2", ExpectKey: "key", Edits: []Edit{
				{File: "internal/routing/manager.go", Old: "\tif len(key) > MaxAdvertisedStringLen || len(target) > MaxAdvertisedStringLen {", New: "\tif len(key) > MaxAdvertisedStringLen+1 || len(target) > MaxAdvertisedStringLen {"},
			}},
			{Name: "validator result ignored at admission", ExpectRule: "C06.R2", ExpectKey: "AddLocalDomainRoute", Edits: []Edit{
				{File: "internal/routing/manager.go", Old: "\tif err := ValidateDomainPattern(pattern); err != nil {\n\t\treturn false\n\t}\n", New: "\tif err := ValidateDomainPattern(pattern); err != nil {\n\t\tm.notifyChange(RouteChange{})\n\t}\n"},
			}},
			{Name: "rewrite: chunk by re-slicing with min()", Edits: []Edit{
				{File: "internal/flood/flood.go", Old: "\tfor start := 0; start < len(routes); start += maxRoutesPerMessage {\n\t\tend := start + maxRoutesPerMessage\n\t\tif end > len(routes) {\n\t\t\tend = len(routes)\n\t\t}\n\n\t\twithdraw := &protocol.RouteWithdraw{\n\t\t\tOriginAgent: f.localID,\n\t\t\tSequence:    f.routeMgr.IncrementSequence(),\n\t\t\tRoutes:      routes[start:end],", New: "\tfor rest := routes; len(rest) > 0; {\n\t\tn := min(len(rest), maxRoutesPerMessage)\n\t\tchunk := rest[:n]\n\t\trest = rest[n:]\n\n\t\twithdraw := &protocol.RouteWithdraw{\n\t\t\tOriginAgent: f.localID,\n\t\t\tSequence:    f.routeMgr.IncrementSequence(),\n\t\t\tRoutes:      chunk,"},
			}},
			{Name: "rewrite: chunks produced by a helper returning [][]Route", Edits: []Edit{
				{File: "internal/flood/flood.go", Old: "\tfor start := 0; start < len(routes); start += maxRoutesPerMessage {\n\t\tend := start + maxRoutesPerMessage\n\t\tif end > len(routes) {\n\t\t\tend = len(routes)\n\t\t}\n\n\t\twithdraw := &protocol.RouteWithdraw{\n\t\t\tOriginAgent: f.localID,\n\t\t\tSequence:    f.routeMgr.IncrementSequence(),\n\t\t\tRoutes:      routes[start:end],", New: "\tfor _, chunk := range chunkRoutes(routes) {\n\t\twithdraw := &protocol.RouteWithdraw{\n\t\t\tOriginAgent: f.localID,\n\t\t\tSequence:    f.routeMgr.IncrementSequence(),\n\t\t\tRoutes:      chunk,"},
				{File: "internal/flood/flood.go", Old: "// SetLocalDisplayName updates the local display name used in route advertisements.", New: "func chunkRoutes(routes []protocol.Route) [][]protocol.Route {\n\tvar out [][]protocol.Route\n\tfor len(routes) > maxRoutesPerMessage {\n\t\tout = append(out, routes[:maxRoutesPerMessage])\n\t\troutes = routes[maxRoutesPerMessage:]\n\t}\n\tif len(routes) > 0 {\n\t\tout = append(out, routes)\n\t}\n\treturn out\n}\n\n// SetLocalDisplayName updates the local display name used in route advertisements."},
			}},
			{Name: "chunk helper keeps an oversize tail", ExpectRule: "C06.R1", ExpectKey: "WithdrawLocalRoutes", Edits: []Edit{
				{File: "internal/flood/flood.go", Old: "\tfor start := 0; start < len(routes); start += maxRoutesPerMessage {\n\t\tend := start + maxRoutesPerMessage\n\t\tif end > len(routes) {\n\t\t\tend = len(routes)\n\t\t}\n\n\t\twithdraw := &protocol.RouteWithdraw{\n\t\t\tOriginAgent: f.localID,\n\t\t\tSequence:    f.routeMgr.IncrementSequence(),\n\t\t\tRoutes:      routes[start:end],", New: "\tfor _, chunk := range chunkRoutes(routes) {\n\t\twithdraw := &protocol.RouteWithdraw{\n\t\t\tOriginAgent: f.localID,\n\t\t\tSequence:    f.routeMgr.IncrementSequence(),\n\t\t\tRoutes:      chunk,"},
				{File: "internal/flood/flood.go", Old: "// SetLocalDisplayName updates the local display name used in route advertisements.", New: "func chunkRoutes(routes []protocol.Route) [][]protocol.Route {\n\tvar out [][]protocol.Route\n\tfor len(routes) > 2*maxRoutesPerMessage {\n\t\tout = append(out, routes[:maxRoutesPerMessage])\n\t\troutes = routes[maxRoutesPerMessage:]\n\t}\n\tif len(routes) > 0 {\n\t\tout = append(out, routes)\n\t}\n\treturn out\n}\n\n// SetLocalDisplayName updates the local display name used in route advertisements."},
			}},
			{Name: "rewrite: length checks in admission with >= 256 and early returns", Edits: []Edit{
				{File: "internal/routing/manager.go", Old: "\tif len(key) > MaxAdvertisedStringLen || len(target) > MaxAdvertisedStringLen {\n\t\treturn false\n\t}", New: "\tif n := len(key); n >= 256 {\n\t\treturn false\n\t}\n\tif !(len(target) <= MaxAdvertisedStringLen) {\n\t\treturn false\n\t}"},
			}},
			{Name: "rewrite: encoder refuses oversize sets itself", Edits: []Edit{
				{File: "internal/protocol/frame.go", Old: "func (r *RouteWithdraw) Encode() []byte {\n", New: "func (r *RouteWithdraw) Encode() []byte {\n\tif len(r.Routes) > 255 {\n\t\tpanic(\"too many routes\")\n\t}\n"},
				{File: "internal/flood/flood.go", Old: "\t\t\tRoutes:      routes[start:end],\n", New: "\t\t\tRoutes:      routes,\n"},
			}},
		}...),
	})
}

type c06site struct {
	fn    *ssa.Function
	conv  *ssa.Convert
	field *types.Var
	max   int64
}

func runC06(p *kit.Program, r *kit.Report) {
	r.Rule("C06.R1", "each uintN(len(Routes)) in the RouteAdvertise/RouteWithdraw encoders is covered by an encoder guard excluding larger lengths, or every store to that Routes field in the repository stores a slice structurally bounded by 2^N-1 elements")
	r.Rule("C06.R2", "string parameters of the local domain/forward route admission methods are stored only under a dominating guard (direct or validator) excluding lengths above 255")

	// ---- anchors
	var counted []*types.Var
	owner := map[*types.Var]string{}
	for _, tn := range []string{"RouteAdvertise", "RouteWithdraw"} {
		f := p.Field("internal/protocol", tn, "Routes")
		if !r.Require(f != nil, "anchor-unresolved: field protocol.%s.Routes", tn) {
			return
		}
		counted = append(counted, f)
		owner[f] = tn
	}
	isCounted := func(f *types.Var) bool {
		for _, c := range counted {
			if c == f {
				return true
			}
		}
		return false
	}

	// ---- narrowing sites in internal/protocol
	var sites []c06site
	nOther := 0
	for _, fn := range p.FuncsInPkg("internal/protocol") {
		kit.Instrs(fn, func(in ssa.Instruction) {
			cv, ok := in.(*ssa.Convert)
			if !ok {
				return
			}
			b, ok := cv.Type().Underlying().(*types.Basic)
			if !ok {
				return
			}
			var max int64
			switch b.Kind() {
			case types.Uint8:
				max = 255
			case types.Uint16:
				max = 65535
			default:
				return
			}
			c, ok := g2stripConv(cv.X).(*ssa.Call)
			if !ok || kit.CalleeOf(c).Built != "len" {
				return
			}
			f, _ := kit.LoadedField(c.Call.Args[0])
			if f != nil && isCounted(f) {
				sites = append(sites, c06site{fn, cv, f, max})
				return
			}
			nOther++
			what := "local value"
			if f != nil {
				what = "field " + f.Name()
			} else if pp, ok := c.Call.Args[0].(*ssa.Parameter); ok {
				what = "parameter " + pp.Name()
			}
			r.Infof("C06.R1", fmt.Sprintf("%s narrowing of len(%s) #%d", kit.FuncName(fn), what, nOther), p.Pos(cv.Pos()),
				"narrowing conversion of a length that is not a route count (display name / path / seen-by / per-route prefix / other message); not judged by R1")
		})
	}
	r.Count("route_count_narrowing_sites", len(sites))
	r.Count("other_narrowing_sites_listed", nOther)
	r.Require(len(sites) >= 2, "floor: %d narrowing conversions of len(Routes) found in the RouteAdvertise/RouteWithdraw encoders (expected 2)", len(sites))

	// ---- R1
	ord := map[string]int{}
	for _, s := range sites {
		fname := kit.FuncName(s.fn)
		ord[fname]++
		key := fmt.Sprintf("%s count of %s.Routes #%d", fname, owner[s.field], ord[fname])
		pos := p.Pos(s.conv.Pos())
		isLen := func(v ssa.Value) bool { return g2lenOfField(v, s.field) }
		guarded := false
		for _, g := range kit.GuardsOf(s.conv) {
			all := true
			for _, n := range []int64{s.max + 1, s.max + 2, 2*s.max + 1, 1 << 20, 1 << 40} {
				if ex, rel := g2guardExcludes(g, isLen, n); !rel || !ex {
					all = false
					break
				}
			}
			if all {
				guarded = true
			}
		}
		if guarded {
			r.OK("C06.R1", key, pos, "the encoder itself excludes more than %d routes before narrowing", s.max)
			continue
		}
		// every store to the field must be bounded
		stores := p.FieldAccessesOfKind(s.field, kit.FieldStore)
		sort.SliceStable(stores, func(i, j int) bool { return stores[i].Instr.Pos() < stores[j].Instr.Pos() })
		r.Count("stores_to_"+owner[s.field]+".Routes", len(stores))
		sord := map[string]int{}
		allOK := len(stores) > 0
		for _, acc := range stores {
			sf := kit.FuncName(acc.Fn)
			sord[sf]++
			skey := fmt.Sprintf("store to %s.Routes in %s #%d", owner[s.field], sf, sord[sf])
			u := &g2ub{p: p, busy: map[ssa.Value]int{}}
			u.fieldLen = func(f *types.Var) ([]g2alt, bool) {
				if isCounted(f) {
					// carried by a counted field already: bounded iff all stores are (this rule)
					return []g2alt{{n: s.max, origin: "carried by a Routes field"}}, true
				}
				return nil, false
			}
			alts := u.lenUBAt(acc.Val, &g2frame{fn: acc.Fn}, acc.Instr)
			bad := ""
			var worst int64
			for _, a := range alts {
				if a.top {
					bad = "no structural bound (" + a.origin + ")"
				} else if a.n > s.max {
					bad = fmt.Sprintf("up to %d routes (%s)", a.n, a.origin)
				} else if a.n > worst {
					worst = a.n
				}
			}
			if len(alts) == 0 {
				bad = "no structural bound"
			}
			if bad != "" {
				allOK = false
			}
			r.Decide(bad == "", "C06.R1", skey, p.Pos(acc.Instr.Pos()),
				fmt.Sprintf("stored slice has at most %d elements (count width allows %d)", worst, s.max),
				fmt.Sprintf("the stored route slice has %s while %s narrows the count to %d: a larger set wraps the count and neighbours decode a different or no route set", bad, fname, s.max))
		}
		r.Decide(allOK, "C06.R1", key, pos,
			fmt.Sprintf("every store to %s.Routes is bounded by %d", owner[s.field], s.max),
			fmt.Sprintf("len(Routes) is narrowed to a count of at most %d with no guard in the encoder, and not every producer bounds the set (see the store obligations)", s.max))
	}

	// ---- R2
	type adm struct{ recv, name string }
	nParams := 0
	for _, a := range []adm{{"Manager", "AddLocalDomainRoute"}, {"Manager", "AddLocalForwardRoute"}} {
		fn := p.Func("internal/routing", a.recv, a.name)
		if !r.Require(fn != nil, "anchor-unresolved: routing.%s.%s", a.recv, a.name) {
			continue
		}
		for _, prm := range fn.Params {
			if b, ok := prm.Type().Underlying().(*types.Basic); !ok || b.Kind() != types.String {
				continue
			}
			// stores of the parameter into struct fields
			var stores []*ssa.Store
			kit.Instrs(fn, func(in ssa.Instruction) {
				if st, ok := in.(*ssa.Store); ok && st.Val == ssa.Value(prm) {
					if _, isF := st.Addr.(*ssa.FieldAddr); isF {
						stores = append(stores, st)
					}
				}
			})
			if len(stores) == 0 {
				continue
			}
			nParams++
			ok := true
			for _, st := range stores {
				if !c06lenGuarded(kit.GuardsOf(st), prm, 255) {
					ok = false
				}
			}
			r.Decide(ok, "C06.R2", fmt.Sprintf("%s parameter %s", kit.FuncName(fn), prm.Name()), p.Pos(fn.Pos()),
				"every store of the string into a route record is dominated by a guard excluding len > 255",
				"the string is admitted into a local route without a length limit of 255: its one-byte wire length prefix wraps and neighbours cannot decode the announcement")
		}
	}
	r.Count("admission_string_parameters", nParams)
	r.Require(nParams >= 3, "floor: %d admitted string parameters found (expected pattern, key, target)", nParams)
	c06more(p, r, counted, owner)
	c06family(p, r)
	kit.DumpObs(r)
}

// c06lenGuarded: the guards exclude len(v) > max, directly or through a validator call on v whose
// success returns are themselves guarded that way.
func c06lenGuarded(gs []kit.Guard, v ssa.Value, max int64) bool {
	q := func(of ssa.Value) func(ssa.Value) bool {
		return func(x ssa.Value) bool {
			c, ok := g2stripConv(x).(*ssa.Call)
			return ok && kit.CalleeOf(c).Built == "len" && len(c.Call.Args) == 1 && c.Call.Args[0] == of
		}
	}
	return g2lenGuarded(gs, v, q, []int64{max + 1, max + 2, 2*max + 1, 1 << 16, 1 << 30})
}
