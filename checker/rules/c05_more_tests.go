package rules

// Self-tests of the round-2 rules of C05 (R5 tail tolerance, R6 minimum-length pre-checks).
var c05MoreSelfTests = []SelfTest{
	{Name: "nested sleep command decoder rejects trailing bytes", ExpectRule: "C05.R5", ExpectKey: "SleepCommand", Edits: []Edit{
		{File: "internal/protocol/frame.go", Old: "\ts.SeenBy = r.readAgentIDs()\n\n\tif r.err != nil {\n\t\treturn nil, r.err\n\t}\n\treturn s, nil\n", New: "\ts.SeenBy = r.readAgentIDs()\n\n\tif r.err != nil {\n\t\treturn nil, r.err\n\t}\n\tif r.remaining() > 0 {\n\t\treturn nil, fmt.Errorf(\"%w: trailing bytes\", ErrInvalidFrame)\n\t}\n\treturn s, nil\n"},
	}},
	{Name: "nested sleep command decoder records trailing bytes as a cursor error", ExpectRule: "C05.R5", ExpectKey: "SleepCommand", Edits: []Edit{
		{File: "internal/protocol/frame.go", Old: "\ts.SeenBy = r.readAgentIDs()\n\n\tif r.err != nil {\n\t\treturn nil, r.err\n\t}\n\treturn s, nil\n", New: "\ts.SeenBy = r.readAgentIDs()\n\tif r.offset != len(r.buf) {\n\t\tr.setError(\"trailing bytes\")\n\t}\n\n\tif r.err != nil {\n\t\treturn nil, r.err\n\t}\n\treturn s, nil\n"},
	}},
	{Name: "encrypted-data wrapper insists on an exact length", ExpectRule: "C05.R5", ExpectKey: "EncryptedData", Edits: []Edit{
		{File: "internal/protocol/frame.go", Old: "\treturn e, 3 + dataLen, nil\n", New: "\tif len(buf) != 3+dataLen {\n\t\treturn nil, 0, fmt.Errorf(\"%w: EncryptedData length mismatch\", ErrInvalidFrame)\n\t}\n\treturn e, 3 + dataLen, nil\n"},
	}},
	{Name: "encrypted-data wrapper caps the length of the tail it is given", ExpectRule: "C05.R5", ExpectKey: "EncryptedData", Edits: []Edit{
		{File: "internal/protocol/frame.go", Old: "\tif len(buf) < 3 {\n\t\treturn nil, 0, fmt.Errorf(\"%w: EncryptedData too short\", ErrInvalidFrame)\n\t}\n", New: "\tif len(buf) < 3 || len(buf) > 4096 {\n\t\treturn nil, 0, fmt.Errorf(\"%w: EncryptedData too short\", ErrInvalidFrame)\n\t}\n"},
	}},
	{Name: "rewrite: the last nested command may insist on an exact length", Edits: []Edit{
		{File: "internal/protocol/frame.go", Old: "\tw.SeenBy = r.readAgentIDs()\n\n\tif r.err != nil {\n\t\treturn nil, r.err\n\t}\n\treturn w, nil\n", New: "\tw.SeenBy = r.readAgentIDs()\n\n\tif r.err != nil {\n\t\treturn nil, r.err\n\t}\n\tif r.remaining() > 0 {\n\t\treturn nil, fmt.Errorf(\"%w: trailing bytes\", ErrInvalidFrame)\n\t}\n\treturn w, nil\n"},
	}},
	{Name: "keepalive decoder demands one byte more than the encoder writes", ExpectRule: "C05.R6", ExpectKey: "DecodeKeepalive", Edits: []Edit{
		{File: "internal/protocol/frame.go", Old: "\tif len(buf) < 8 {\n\t\treturn nil, fmt.Errorf(\"%w: Keepalive too short\", ErrInvalidFrame)", New: "\tif len(buf) < 9 {\n\t\treturn nil, fmt.Errorf(\"%w: Keepalive too short\", ErrInvalidFrame)"},
	}},
	{Name: "control request minimum off by one", ExpectRule: "C05.R6", ExpectKey: "DecodeControlRequest", Edits: []Edit{
		{File: "internal/protocol/frame.go", Old: "\tif len(buf) < 30 { // 8 + 1 + 16 + 1 + 4", New: "\tif len(buf) <= 30 { // 8 + 1 + 16 + 1 + 4"},
	}},
	{Name: "sleep command minimum counts one seen-by entry", ExpectRule: "C05.R6", ExpectKey: "DecodeSleepCommand", Edits: []Edit{
		{File: "internal/protocol/frame.go", Old: "\tif len(buf) < 16+8+8+SignatureSize+1 { // Minimum with signature\n\t\treturn nil, fmt.Errorf(\"%w: SleepCommand too short\"", New: "\tif len(buf) < 16+8+8+SignatureSize+1+16 { // Minimum with signature\n\t\treturn nil, fmt.Errorf(\"%w: SleepCommand too short\""},
	}},
	{Name: "rewrite: pre-check relaxed and written with swapped operands", Edits: []Edit{
		{File: "internal/protocol/frame.go", Old: "\tif len(buf) < 8 {\n\t\treturn nil, fmt.Errorf(\"%w: Keepalive too short\", ErrInvalidFrame)", New: "\tif !(len(buf) >= 1) {\n\t\treturn nil, fmt.Errorf(\"%w: Keepalive too short\", ErrInvalidFrame)"},
	}},
	{Name: "rewrite: readBytes on top of a bounds-checking take helper (swapped operands)", Edits: []Edit{
		{File: "internal/protocol/frame.go", Old: "\tif r.err != nil || r.offset+n > len(r.buf) {\n\t\tr.setError(\"truncated\")\n\t\treturn nil\n\t}\n\tdata := make([]byte, n)\n\tcopy(data, r.buf[r.offset:r.offset+n])\n\tr.offset += n\n\treturn data\n}\n", New: "\tsrc, ok := r.take(n, \"truncated\")\n\tif !ok {\n\t\treturn nil\n\t}\n\tdata := make([]byte, n)\n\tcopy(data, src)\n\treturn data\n}\n\nfunc (r *bufferReader) take(n int, msg string) ([]byte, bool) {\n\tif r.err != nil || len(r.buf) < r.offset+n {\n\t\tr.setError(msg)\n\t\treturn nil, false\n\t}\n\tview := r.buf[r.offset : r.offset+n]\n\tr.offset += n\n\treturn view, true\n}\n"},
	}},
	{Name: "take helper that does not check the remaining input", ExpectRule: "C05.R3", ExpectKey: "readBytes", Edits: []Edit{
		{File: "internal/protocol/frame.go", Old: "\tif r.err != nil || r.offset+n > len(r.buf) {\n\t\tr.setError(\"truncated\")\n\t\treturn nil\n\t}\n\tdata := make([]byte, n)\n\tcopy(data, r.buf[r.offset:r.offset+n])\n\tr.offset += n\n\treturn data\n}\n", New: "\tsrc, ok := r.take(n, \"truncated\")\n\tif !ok {\n\t\treturn nil\n\t}\n\tdata := make([]byte, n)\n\tcopy(data, src)\n\treturn data\n}\n\nfunc (r *bufferReader) take(n int, msg string) ([]byte, bool) {\n\tif r.err != nil {\n\t\tr.setError(msg)\n\t\treturn nil, false\n\t}\n\tview := r.buf[r.offset : r.offset+n]\n\tr.offset += n\n\treturn view, true\n}\n"},
	}},
	{Name: "rewrite: header limit as a predicate helper, payload read in a helper taking the length", Edits: []Edit{
		{File: "internal/protocol/frame.go", Old: "// DecodeHeader decodes a frame header from bytes.", New: "func payloadTooLarge(n uint64) bool {\n\treturn n > MaxPayloadSize\n}\n\n// DecodeHeader decodes a frame header from bytes."},
		{File: "internal/protocol/frame.go", Old: "\tif length > MaxPayloadSize {\n\t\treturn 0, 0, 0, 0, ErrFrameTooLarge\n\t}\n\n\treturn\n", New: "\tif payloadTooLarge(uint64(length)) {\n\t\treturn 0, 0, 0, 0, ErrFrameTooLarge\n\t}\n\n\treturn\n"},
		{File: "internal/protocol/frame.go", Old: "\tpayload := make([]byte, length)\n\tif length > 0 {\n\t\tif _, err := io.ReadFull(fr.r, payload); err != nil {\n\t\t\treturn nil, err\n\t\t}\n\t}\n", New: "\tpayload, err := fr.readPayload(length)\n\tif err != nil {\n\t\treturn nil, err\n\t}\n"},
		{File: "internal/protocol/frame.go", Old: "// FrameWriter writes frames to an io.Writer.", New: "func (fr *FrameReader) readPayload(length uint32) ([]byte, error) {\n\tpayload := make([]byte, length)\n\tif length == 0 {\n\t\treturn payload, nil\n\t}\n\tif _, err := io.ReadFull(fr.r, payload); err != nil {\n\t\treturn nil, err\n\t}\n\treturn payload, nil\n}\n\n// FrameWriter writes frames to an io.Writer."},
	}},
	{Name: "payload helper fed with an unchecked header length", ExpectRule: "C05.R3", ExpectKey: "readPayload", Edits: []Edit{
		{File: "internal/protocol/frame.go", Old: "\tif length > MaxPayloadSize {\n\t\treturn 0, 0, 0, 0, ErrFrameTooLarge\n\t}\n\n\treturn\n", New: "\treturn\n"},
		{File: "internal/protocol/frame.go", Old: "\tpayload := make([]byte, length)\n\tif length > 0 {\n\t\tif _, err := io.ReadFull(fr.r, payload); err != nil {\n\t\t\treturn nil, err\n\t\t}\n\t}\n", New: "\tpayload, err := fr.readPayload(length)\n\tif err != nil {\n\t\treturn nil, err\n\t}\n"},
		{File: "internal/protocol/frame.go", Old: "// FrameWriter writes frames to an io.Writer.", New: "func (fr *FrameReader) readPayload(length uint32) ([]byte, error) {\n\tpayload := make([]byte, length)\n\tif length == 0 {\n\t\treturn payload, nil\n\t}\n\tif _, err := io.ReadFull(fr.r, payload); err != nil {\n\t\treturn nil, err\n\t}\n\treturn payload, nil\n}\n\n// FrameWriter writes frames to an io.Writer."},
	}},
	{Name: "rewrite: keepalive codec delegates to a shared unexported payload type", Edits: []Edit{
		{File: "internal/protocol/frame.go", Old: "func (k *Keepalive) Encode() []byte {\n\tw := newBufferWriter(8)\n\tw.writeUint64(k.Timestamp)\n\treturn w.bytes()\n}\n", New: "func (k *Keepalive) Encode() []byte {\n\treturn (&timestampPayload{at: k.Timestamp}).encode()\n}\n\ntype timestampPayload struct{ at uint64 }\n\nfunc (t *timestampPayload) encode() []byte {\n\tw := newBufferWriter(8)\n\tw.writeUint64(t.at)\n\treturn w.bytes()\n}\n\nfunc decodeTimestampPayload(buf []byte, name string) (*timestampPayload, error) {\n\tif len(buf) < 8 {\n\t\treturn nil, fmt.Errorf(\"%w: %s too short\", ErrInvalidFrame, name)\n\t}\n\tr := newBufferReader(buf, name)\n\treturn &timestampPayload{at: r.readUint64()}, nil\n}\n"},
		{File: "internal/protocol/frame.go", Old: "\tif len(buf) < 8 {\n\t\treturn nil, fmt.Errorf(\"%w: Keepalive too short\", ErrInvalidFrame)\n\t}\n\tr := newBufferReader(buf, \"Keepalive\")\n\treturn &Keepalive{Timestamp: r.readUint64()}, nil\n", New: "\tt, err := decodeTimestampPayload(buf, \"Keepalive\")\n\tif err != nil {\n\t\treturn nil, err\n\t}\n\treturn &Keepalive{Timestamp: t.at}, nil\n"},
	}},
	{Name: "shared payload decoder reads a narrower integer than the encoder writes", ExpectRule: "C05.R1", ExpectKey: "Keepalive", Edits: []Edit{
		{File: "internal/protocol/frame.go", Old: "func (k *Keepalive) Encode() []byte {\n\tw := newBufferWriter(8)\n\tw.writeUint64(k.Timestamp)\n\treturn w.bytes()\n}\n", New: "func (k *Keepalive) Encode() []byte {\n\treturn (&timestampPayload{at: k.Timestamp}).encode()\n}\n\ntype timestampPayload struct{ at uint64 }\n\nfunc (t *timestampPayload) encode() []byte {\n\tw := newBufferWriter(8)\n\tw.writeUint64(t.at)\n\treturn w.bytes()\n}\n\nfunc decodeTimestampPayload(buf []byte, name string) (*timestampPayload, error) {\n\tif len(buf) < 8 {\n\t\treturn nil, fmt.Errorf(\"%w: %s too short\", ErrInvalidFrame, name)\n\t}\n\tr := newBufferReader(buf, name)\n\treturn &timestampPayload{at: uint64(r.readUint32())}, nil\n}\n"},
		{File: "internal/protocol/frame.go", Old: "\tif len(buf) < 8 {\n\t\treturn nil, fmt.Errorf(\"%w: Keepalive too short\", ErrInvalidFrame)\n\t}\n\tr := newBufferReader(buf, \"Keepalive\")\n\treturn &Keepalive{Timestamp: r.readUint64()}, nil\n", New: "\tt, err := decodeTimestampPayload(buf, \"Keepalive\")\n\tif err != nil {\n\t\treturn nil, err\n\t}\n\treturn &Keepalive{Timestamp: t.at}, nil\n"},
	}},
	{Name: "rewrite: trailing flags written by a loop over a fixed array", Edits: []Edit{
		{File: "internal/protocol/frame.go", Old: "\t// FileTransferEnabled\n\tw.writeBool(info.FileTransferEnabled)\n\n\t// ShellEnabled\n\tw.writeBool(info.ShellEnabled)\n\n\t// IcmpEnabled\n\tw.writeBool(info.IcmpEnabled)\n", New: "\tfor _, flag := range [...]bool{info.FileTransferEnabled, info.ShellEnabled, info.IcmpEnabled} {\n\t\tw.writeBool(flag)\n\t}\n"},
	}},
	{Name: "flag loop writes one flag too few", ExpectRule: "C05.R1", ExpectKey: "NodeInfo", Edits: []Edit{
		{File: "internal/protocol/frame.go", Old: "\t// FileTransferEnabled\n\tw.writeBool(info.FileTransferEnabled)\n\n\t// ShellEnabled\n\tw.writeBool(info.ShellEnabled)\n\n\t// IcmpEnabled\n\tw.writeBool(info.IcmpEnabled)\n", New: "\tfor _, flag := range [...]bool{info.FileTransferEnabled, info.ShellEnabled} {\n\t\tw.writeBool(flag)\n\t}\n"},
	}},
}
