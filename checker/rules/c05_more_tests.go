package rules

// Self-tests of the round-2 rules of C05 (R5 tail tolerance, R6 minimum-length pre-checks).
var c05MoreSelfTests = []SelfTest{
	{Name: "nested sleep command decoder rejects trailing bytes", ExpectRule: "C05.R5", ExpectKey: "SleepCommand", Edits: []Edit{
		{File: "internal/protocol/frame.go", Old: "\ts.SeenBy = r.readAgentIDs()\n\n\tif r.err != nil {\n\t\treturn nil, r.err\n\t}\n\treturn s, nil\n", New: "\ts.SeenBy = r.readAgentIDs()\n\n\tif r.err != nil {\n\t\treturn nil, r.err\n\t}\n\tif r.remaining() > 0 {\n\t\treturn nil, fmt.Errorf(\"%w: trailing bytes\", ErrInvalidFrame)\n\t}\n\treturn s, nil\n"},
	}},
	{Name: "nested sleep command decoder records trailing bytes as a cursor error", ExpectRule: "C05.R5", ExpectKey: "SleepCommand", Edits: []Edit{
		{File: "internal/protocol/frame.go", Old: "\ts.SeenBy = r.readAgentIDs()\n\n\tif r.err != nil {\n\t\treturn nil, r.err\n\t}\n\treturn s, nil\n", New: "\ts.SeenBy = r.readAgentIDs()\n\tif r.offset != len(r.buf) {\n\t\tr.setError(\"trailing bytes\")\n\t}\n\n\tif r.err != nil {\n\t\treturn nil, r.err\n\t}\n\treturn s, nil\n"},
	}},
	{Name: "encrypted-data wrapper insists on an exact length", ExpectRule: "C05.R5", ExpectKey: "EncryptedData", Edits: []Edit{
		{File: "internal/protocol/frame.go", Old: "\treturn e, 3 + dataLen, nil\n", New: "\tif len(buf) != 3+dataLen {\n\t\treturn nil, 0, fmt.Errorf(\"%w: EncryptedData length mismatch\", ErrInvalidFrame)\n\t}\n\treturn e, 3 + dataLen, nil\n"},
	}},
	{Name: "encrypted-data wrapper caps the length of the tail it is given", ExpectRule: "C05.R5", ExpectKey: "EncryptedData", Edits: []Edit{
		{File: "internal/protocol/frame.go", Old: "\tif len(buf) < 3 {\n\t\treturn nil, 0, fmt.Errorf(\"%w: EncryptedData too short\", ErrInvalidFrame)\n\t}\n", New: "\tif len(buf) < 3 || len(buf) > 4096 {\n\t\treturn nil, 0, fmt.Errorf(\"%w: EncryptedData too short\", ErrInvalidFrame)\n\t}\n"},
	}},
	{Name: "rewrite: the last nested command may insist on an exact length", Edits: []Edit{
		{File: "internal/protocol/frame.go", Old: "\tw.SeenBy = r.readAgentIDs()\n\n\tif r.err != nil {\n\t\treturn nil, r.err\n\t}\n\treturn w, nil\n", New: "\tw.SeenBy = r.readAgentIDs()\n\n\tif r.err != nil {\n\t\treturn nil, r.err\n\t}\n\tif r.remaining() > 0 {\n\t\treturn nil, fmt.Errorf(\"%w: trailing bytes\", ErrInvalidFrame)\n\t}\n\treturn w, nil\n"},
	}},
	{Name: "keepalive decoder demands one byte more than the encoder writes", ExpectRule: "C05.R6", ExpectKey: "DecodeKeepalive", Edits: []Edit{
		{File: "internal/protocol/frame.go", Old: "\tif len(buf) < 8 {\n\t\treturn nil, fmt.Errorf(\"%w: Keepalive too short\", ErrInvalidFrame)", New: "\tif len(buf) < 9 {\n\t\treturn nil, fmt.Errorf(\"%w: Keepalive too short\", ErrInvalidFrame)"},
	}},
	{Name: "control request minimum off by one", ExpectRule: "C05.R6", ExpectKey: "DecodeControlRequest", Edits: []Edit{
		{File: "internal/protocol/frame.go", Old: "\tif len(buf) < 30 { // 8 + 1 + 16 + 1 + 4", New: "\tif len(buf) <= 30 { // 8 + 1 + 16 + 1 + 4"},
	}},
	{Name: "sleep command minimum counts one seen-by entry", ExpectRule: "C05.R6", ExpectKey: "DecodeSleepCommand", Edits: []Edit{
		{File: "internal/protocol/frame.go", Old: "\tif len(buf) < 16+8+8+SignatureSize+1 { // Minimum with signature\n\t\treturn nil, fmt.Errorf(\"%w: SleepCommand too short\"", New: "\tif len(buf) < 16+8+8+SignatureSize+1+16 { // Minimum with signature\n\t\treturn nil, fmt.Errorf(\"%w: SleepCommand too short\""},
	}},
	{Name: "rewrite: pre-check relaxed and written with swapped operands", Edits: []Edit{
		{File: "internal/protocol/frame.go", Old: "\tif len(buf) < 8 {\n\t\treturn nil, fmt.Errorf(\"%w: Keepalive too short\", ErrInvalidFrame)", New: "\tif !(len(buf) >= 1) {\n\t\treturn nil, fmt.Errorf(\"%w: Keepalive too short\", ErrInvalidFrame)"},
	}},
}
