package rules

import (
	"fmt"
	"go/token"
	"go/types"
	"sort"

	"golang.org/x/tools/go/ssa"

	"mmverify/kit"
)

// C18.R6 — tear-down through a relay table acts on the entry of the side the id was found on.
//
// A relay table indexes every relayed stream twice: by the id it has on the upstream peer's
// connection and by the id it has on the downstream peer's connection. Stream ids are allocated per
// connection, so the same number routinely means different streams in the two indices and on other
// connections. An entry obtained from index M by a frame's stream id is the addressed stream only
// if the frame's sender is the peer of M's side. The rule decides, for every place where an entry
// looked up by id is removed, that the removal is unreachable when the sender is NOT that side's
// peer — in particular when it happens to be the peer of the other side (the merged-branches
// defect: "peer is one of the two endpoints").

type c18Relay struct {
	tableT   *types.Named
	entryT   *types.Named
	maps     []*types.Var              // the index fields of the table
	idOfMap  map[*types.Var]*types.Var // index field -> entry id field it is keyed by
	peerOfID map[*types.Var]*types.Var // entry id field -> entry peer field of the same side
	agentID  types.Type
}

func c18IsAgentID(t types.Type) bool {
	n, ok := t.(*types.Named)
	return ok && n.Obj().Name() == "AgentID" && n.Obj().Pkg() != nil && n.Obj().Pkg().Path() == kit.PkgPath("internal/identity")
}

func c18IsU64(t types.Type) bool {
	b, ok := t.Underlying().(*types.Basic)
	return ok && b.Kind() == types.Uint64
}

// resolveRelay finds the relay table type by shape: a struct of package agent with two or more
// map[uint64]*E fields where E is a struct with exactly two AgentID fields and two uint64 fields.
func (cx *c18Ctx) resolveRelay() *c18Relay {
	p, r := cx.p, cx.r
	pk := p.Package("internal/agent")
	if pk == nil || pk.Types == nil {
		return nil
	}
	rl := &c18Relay{idOfMap: map[*types.Var]*types.Var{}, peerOfID: map[*types.Var]*types.Var{}}
	names := pk.Types.Scope().Names()
	sort.Strings(names)
	for _, name := range names {
		tn, ok := pk.Types.Scope().Lookup(name).(*types.TypeName)
		if !ok {
			continue
		}
		n, ok := tn.Type().(*types.Named)
		if !ok {
			continue
		}
		var ms []*types.Var
		var elem *types.Named
		for _, f := range kit.StructFields(n) {
			m, ok := f.Type().Underlying().(*types.Map)
			if !ok || !c18IsU64(m.Key()) {
				continue
			}
			pt, ok := m.Elem().(*types.Pointer)
			if !ok {
				continue
			}
			en, ok := pt.Elem().(*types.Named)
			if !ok {
				continue
			}
			nPeer, nID := 0, 0
			for _, ef := range kit.StructFields(en) {
				if c18IsAgentID(ef.Type()) {
					nPeer++
				}
				if c18IsU64(ef.Type()) {
					nID++
				}
			}
			if nPeer == 2 && nID == 2 && (elem == nil || elem == en) {
				elem = en
				ms = append(ms, f)
			}
		}
		if len(ms) >= 2 {
			rl.tableT, rl.entryT, rl.maps = n, elem, ms
			break
		}
	}
	if rl.tableT == nil {
		return nil
	}
	// index -> id field: the key of every insertion is a field of the inserted entry
	for _, m := range rl.maps {
		for _, acc := range p.FieldAccessesOfKind(m, kit.MapInsert) {
			if f, base := kit.LoadedField(acc.Key); f != nil && c18IsU64(f.Type()) && c18SameOrigins(base, acc.Val) {
				if old, ok := rl.idOfMap[m]; ok && old != f {
					r.Floor("anchor-unresolved: relay index %s is keyed by more than one entry field", m.Name())
					return nil
				}
				rl.idOfMap[m] = f
			}
		}
	}
	// id field -> peer field of the same side: where a frame handler builds an entry, the side that
	// receives the handler's sender also receives the frame's own stream id
	frameT := p.NamedType("internal/protocol", "Frame")
	sid := p.Field("internal/protocol", "Frame", "StreamID")
	var peers, ids []*types.Var
	for _, ef := range kit.StructFields(rl.entryT) {
		if c18IsAgentID(ef.Type()) {
			peers = append(peers, ef)
		}
		if c18IsU64(ef.Type()) {
			ids = append(ids, ef)
		}
	}
	nLit := 0
	for _, f := range p.FuncsInPkg("internal/agent") {
		var sender, frame *ssa.Parameter
		for _, q := range f.Params {
			if c18IsAgentID(q.Type()) {
				sender = q
			}
			if pt, ok := q.Type().(*types.Pointer); ok {
				if n, ok := pt.Elem().(*types.Named); ok && n == frameT {
					frame = q
				}
			}
		}
		if sender == nil || frame == nil {
			continue
		}
		// stores into one freshly allocated entry
		byAlloc := map[*ssa.Alloc]map[*types.Var]ssa.Value{}
		kit.Instrs(f, func(in ssa.Instruction) {
			st, ok := in.(*ssa.Store)
			if !ok {
				return
			}
			fa, ok := st.Addr.(*ssa.FieldAddr)
			if !ok {
				return
			}
			a, ok := fa.X.(*ssa.Alloc)
			if !ok {
				return
			}
			if pt, ok := a.Type().(*types.Pointer); !ok || pt.Elem() != types.Type(rl.entryT) {
				return
			}
			if byAlloc[a] == nil {
				byAlloc[a] = map[*types.Var]ssa.Value{}
			}
			byAlloc[a][kit.FieldOfAddr(fa)] = st.Val
		})
		for _, vals := range byAlloc {
			var pf, idf *types.Var
			for fld, v := range vals {
				if c18IsAgentID(fld.Type()) && v == ssa.Value(sender) {
					pf = fld
				}
				if lf, base := kit.LoadedField(v); c18IsU64(fld.Type()) && lf == sid && base == ssa.Value(frame) {
					idf = fld
				}
			}
			if pf == nil || idf == nil {
				continue
			}
			nLit++
			if old, ok := rl.peerOfID[idf]; ok && old != pf {
				r.Floor("anchor-unresolved: relay entry literals pair %s with different peer fields", idf.Name())
				return nil
			}
			rl.peerOfID[idf] = pf
		}
	}
	if len(rl.peerOfID) == 1 && len(peers) == 2 && len(ids) == 2 {
		for idf, pf := range rl.peerOfID {
			oi, op := ids[0], peers[0]
			if oi == idf {
				oi = ids[1]
			}
			if op == pf {
				op = peers[1]
			}
			rl.peerOfID[oi] = op
		}
	}
	r.Count("r6_relay_entry_literals", nLit)
	return rl
}

func c18SameOrigins(a, b ssa.Value) bool {
	oa, ob := kit.Origins(a), kit.Origins(b)
	if len(oa) == 0 || len(oa) != len(ob) {
		return a == b
	}
	set := map[ssa.Value]bool{}
	for _, v := range oa {
		set[v] = true
	}
	for _, v := range ob {
		if !set[v] {
			return false
		}
	}
	return true
}

// c18EntrySource is a value obtained from one index by an id: the map lookup itself, or the result
// of a peer-agnostic lookup method of the table.
type c18EntrySource struct {
	val ssa.Value
	at  ssa.Instruction
	m   *types.Var
}

func (cx *c18Ctx) ruleR6() {
	p, r := cx.p, cx.r
	r.Rule("C18.R6", "an entry obtained from one index of a relay table by stream id is removed only when the frame's sender is the peer of that index's side: the removal is unreachable when the sender differs from that side's peer, even if it equals the other side's peer")
	rl := cx.resolveRelay()
	if !r.Require(rl != nil && len(rl.idOfMap) >= 2 && len(rl.peerOfID) >= 2, "anchor-unresolved: relay table shape (two id-keyed indices over entries with two (peer, id) sides)") {
		return
	}
	isMap := map[*types.Var]bool{}
	for _, m := range rl.maps {
		isMap[m] = true
	}
	// peer-agnostic lookup methods: result i is always a lookup in one index
	type resKey struct {
		fn  *ssa.Function
		idx int
	}
	summary := map[resKey]*types.Var{}
	directLookup := func(v ssa.Value) (*ssa.Lookup, *types.Var) {
		var lk *ssa.Lookup
		switch x := v.(type) {
		case *ssa.Lookup:
			lk = x
		case *ssa.Extract:
			if l, ok := x.Tuple.(*ssa.Lookup); ok && x.Index == 0 {
				lk = l
			}
		}
		if lk == nil {
			return nil, nil
		}
		if f, _ := kit.LoadedField(lk.X); f != nil && isMap[f] {
			return lk, f
		}
		return nil, nil
	}
	for _, m := range p.Methods("internal/agent", rl.tableT.Obj().Name()) {
		hasPeer := false
		for _, q := range m.Params {
			if c18IsAgentID(q.Type()) {
				hasPeer = true
			}
		}
		if hasPeer {
			continue
		}
		for i := 0; i < m.Signature.Results().Len(); i++ {
			var mf *types.Var
			ok := true
			n := 0
			for _, ret := range kit.Returns(m) {
				if ret.Block() == m.Recover {
					continue
				}
				for _, o := range kit.Origins(kit.ReturnResult(ret, i)) {
					if kit.IsNilConst(o) {
						continue
					}
					_, f := directLookup(o)
					if f == nil || (mf != nil && mf != f) {
						ok = false
						continue
					}
					mf = f
					n++
				}
			}
			if ok && mf != nil && n > 0 {
				summary[resKey{m, i}] = mf
			}
		}
	}
	// functions of package agent that delete (directly or through an entry-taking method)
	deleters := map[*ssa.Function]int{} // method -> index in Common().Args of the entry whose keys it deletes
	for _, m := range p.Methods("internal/agent", rl.tableT.Obj().Name()) {
		for _, c := range kit.Calls(m) {
			if kit.CalleeOf(c).Built != "delete" || len(c.Common().Args) != 2 {
				continue
			}
			if f, _ := kit.LoadedField(c.Common().Args[0]); f == nil || !isMap[f] {
				continue
			}
			if _, base := kit.LoadedField(c.Common().Args[1]); base != nil {
				if q, ok := base.(*ssa.Parameter); ok {
					for i, fp := range m.Params {
						if fp == q {
							deleters[m] = i
						}
					}
				}
			}
		}
	}
	nSrc, nFn := 0, 0
	for _, f := range p.FuncsInPkg("internal/agent") {
		var sender []*ssa.Parameter
		for _, q := range f.Params {
			if c18IsAgentID(q.Type()) {
				sender = append(sender, q)
			}
		}
		if len(sender) == 0 {
			continue
		}
		// sources in f
		var srcs []c18EntrySource
		kit.Instrs(f, func(in ssa.Instruction) {
			v, ok := in.(ssa.Value)
			if !ok {
				return
			}
			if lk, m := directLookup(v); lk != nil && ssa.Value(lk) == v {
				val := ssa.Value(lk)
				if lk.CommaOk {
					if e := c18ExtractOf(lk, 0); e != nil {
						val = e
					}
				}
				srcs = append(srcs, c18EntrySource{val, lk, m})
				return
			}
			if c, ok := v.(*ssa.Call); ok {
				s := kit.CalleeOf(c).Static
				if s == nil {
					return
				}
				if m, ok := summary[resKey{s, 0}]; ok && s.Signature.Results().Len() == 1 {
					srcs = append(srcs, c18EntrySource{c, c, m})
				}
				for i := 0; i < s.Signature.Results().Len() && s.Signature.Results().Len() > 1; i++ {
					if m, ok := summary[resKey{s, i}]; ok {
						if e := c18ExtractOf(c, i); e != nil {
							srcs = append(srcs, c18EntrySource{e, c, m})
						}
					}
				}
			}
		})
		if len(srcs) == 0 {
			continue
		}
		// sinks in f: removals acting on an entry value
		type sink struct {
			in    ssa.Instruction
			entry ssa.Value
		}
		var sinks []sink
		for _, c := range kit.Calls(f) {
			cal := kit.CalleeOf(c)
			if cal.Built == "delete" && len(c.Common().Args) == 2 {
				if mf, _ := kit.LoadedField(c.Common().Args[0]); mf != nil && isMap[mf] {
					if _, base := kit.LoadedField(c.Common().Args[1]); base != nil {
						sinks = append(sinks, sink{c, base})
					}
				}
			}
			if cal.Static != nil {
				if idx, ok := deleters[cal.Static]; ok && idx < len(c.Common().Args) {
					sinks = append(sinks, sink{c, c.Common().Args[idx]})
				}
			}
		}
		if len(sinks) == 0 {
			continue
		}
		nFn++
		fname := kit.FuncName(f)
		isSender := func(v ssa.Value) bool {
			for _, o := range kit.Origins(v) {
				q, ok := o.(*ssa.Parameter)
				if !ok || !c18IsAgentID(q.Type()) {
					return false
				}
			}
			return len(kit.Origins(v)) > 0
		}
		ord := map[string]int{}
		for _, src := range srcs {
			idF := rl.idOfMap[src.m]
			sideP := rl.peerOfID[idF]
			if sideP == nil {
				continue
			}
			nSrc++
			// mayHold: v can be the entry obtained at src, ignoring which stores actually execute
			mayHold := func(v ssa.Value) bool {
				for _, o := range kit.Origins(v) {
					if o == src.val {
						return true
					}
				}
				return false
			}
			// A local variable holds the entry only after a store of it has executed. The stores that
			// can execute depend on the branch conditions, which are evaluated on values that hold the
			// entry: iterate (definitions found dead under the assignment stop counting).
			deadDef := map[*ssa.Store]bool{}
			var holds func(v ssa.Value) bool
			busy := map[ssa.Value]bool{}
			holds = func(v ssa.Value) bool {
				if busy[v] {
					return false
				}
				busy[v] = true
				defer delete(busy, v)
				switch x := v.(type) {
				case *ssa.Phi:
					for _, e := range x.Edges {
						if holds(e) {
							return true
						}
					}
					return false
				case *ssa.ChangeType:
					return holds(x.X)
				case *ssa.UnOp:
					a, ok := x.X.(*ssa.Alloc)
					if x.Op != token.MUL || !ok || a.Referrers() == nil {
						return v == src.val
					}
					// stores into the variable: those that carry the entry, and the others (which end it)
					var defs []*ssa.Store
					others := map[ssa.Instruction]bool{}
					for _, ref := range *a.Referrers() {
						st, ok := ref.(*ssa.Store)
						if !ok || st.Addr != ssa.Value(a) {
							continue
						}
						if lv, isLoad := st.Val.(*ssa.UnOp); isLoad && lv.X == ssa.Value(a) {
							continue // x = x
						}
						if mayHold(st.Val) && holds(st.Val) {
							defs = append(defs, st)
						} else {
							others[st] = true
						}
					}
					for _, d := range defs {
						if deadDef[d] {
							continue
						}
						if kit.CanReachAvoiding(d, x, others) {
							return true
						}
					}
					return false
				}
				return v == src.val
			}
			// executions in which the variable holds this source: cut phi edges that carry other values,
			// and stop at stores that overwrite a local holding it
			blocked := map[kit.Edge]bool{}
			kills := map[ssa.Instruction]bool{}
			kit.Instrs(f, func(in ssa.Instruction) {
				switch x := in.(type) {
				case *ssa.Phi:
					if !mayHold(x) {
						return
					}
					for i, e := range x.Edges {
						if !mayHold(e) && i < len(x.Block().Preds) {
							blocked[kit.Edge{From: x.Block().Preds[i], To: x.Block()}] = true
						}
					}
				case *ssa.Store:
					a, ok := x.Addr.(*ssa.Alloc)
					if !ok || mayHold(x.Val) {
						return
					}
					// a store of another value into a local that can hold the source
					if pt, ok := a.Type().(*types.Pointer); ok && types.Identical(pt.Elem(), src.val.Type()) {
						for _, ref := range *a.Referrers() {
							if st, ok := ref.(*ssa.Store); ok && st.Addr == ssa.Value(a) && mayHold(st.Val) {
								kills[in] = true
							}
						}
					}
				}
			})
			atom := func(cond ssa.Value) (bool, bool) {
				b, ok := cond.(*ssa.BinOp)
				if !ok || (b.Op != token.EQL && b.Op != token.NEQ) {
					return false, false
				}
				for _, side := range [][2]ssa.Value{{b.X, b.Y}, {b.Y, b.X}} {
					x, y := side[0], side[1]
					// entry == nil
					if kit.IsNilConst(y) && holds(x) {
						return b.Op == token.NEQ, true // the entry exists
					}
					// entry.Peer == sender
					if fld, base := kit.LoadedField(x); fld != nil && c18IsAgentID(fld.Type()) && base != nil && holds(base) && isSender(y) {
						equal := fld != sideP // sender is not this side's peer; worst case it is the other side's
						return equal == (b.Op == token.EQL), true
					}
				}
				return false, false
			}
			var l *kit.Live
			for iter := 0; iter < 4; iter++ {
				l = kit.LiveFrom(f, src.at.Block(), atom, blocked)
				changed := false
				kit.Instrs(f, func(in ssa.Instruction) {
					st, ok := in.(*ssa.Store)
					if !ok || deadDef[st] {
						return
					}
					if _, isAlloc := st.Addr.(*ssa.Alloc); !isAlloc || !mayHold(st.Val) {
						return
					}
					if ssa.Instruction(st) != src.at && !l.CanReach(src.at, st, kills) {
						deadDef[st] = true
						changed = true
					}
				})
				if !changed {
					break
				}
			}
			bad := ""
			for _, sk := range sinks {
				if !holds(sk.entry) {
					continue
				}
				if l.CanReach(src.at, sk.in, kills) {
					bad = p.Pos(sk.in.Pos())
				}
			}
			base := fmt.Sprintf("%s entry from %s", fname, src.m.Name())
			ord[base]++
			r.Decide(bad == "", "C18.R6", fmt.Sprintf("%s #%d", base, ord[base]), p.Pos(src.at.Pos()),
				"no removal of this entry is reachable unless the sender equals "+sideP.Name(),
				"the removal at "+bad+" stays reachable when the sender is not the entry's "+sideP.Name()+" (e.g. it is the peer of the other side): a close/reset for the sender's own stream with the same number tears down an unrelated relayed stream, and the addressed stream is left open")
		}
	}
	r.Count("r6_functions_removing_looked_up_entries", nFn)
	r.Count("r6_entry_sources_judged", nSrc)
	r.Require(nSrc >= 1, "floor: no id-lookup feeding a relay-entry removal found in internal/agent")
}

func c18ExtractOf(tuple ssa.Value, idx int) ssa.Value {
	if tuple.Referrers() == nil {
		return nil
	}
	for _, ref := range *tuple.Referrers() {
		if e, ok := ref.(*ssa.Extract); ok && e.Index == idx {
			return e
		}
	}
	return nil
}

// C18.R7 — a transit agent forwards stream-data frames with their flags: the FIN-write flag travels
// with the payload it came with, otherwise the end-of-write signal is lost on relayed paths.
func (cx *c18Ctx) ruleR7() {
	p, r := cx.p, cx.r
	r.Rule("C18.R7", "every stream-data frame a transit agent builds from a received frame's payload carries that frame's flags unchanged")
	frameT := p.NamedType("internal/protocol", "Frame")
	fPayload := p.Field("internal/protocol", "Frame", "Payload")
	fFlags := p.Field("internal/protocol", "Frame", "Flags")
	fType := p.Field("internal/protocol", "Frame", "Type")
	dv, ok := p.ConstValue("internal/protocol", "FrameStreamData")
	if !r.Require(frameT != nil && fPayload != nil && fFlags != nil && fType != nil && ok, "anchor-unresolved: protocol.Frame fields / FrameStreamData") {
		return
	}
	var dataType int64
	fmt.Sscan(dv, &dataType)
	n := 0
	ord := map[string]int{}
	for _, f := range p.FuncsInPkg("internal/agent") {
		var frame *ssa.Parameter
		for _, q := range f.Params {
			if pt, ok := q.Type().(*types.Pointer); ok {
				if nt, ok := pt.Elem().(*types.Named); ok && nt == frameT {
					frame = q
				}
			}
		}
		if frame == nil {
			continue
		}
		lits := map[*ssa.Alloc]map[*types.Var]ssa.Value{}
		var order []*ssa.Alloc
		kit.Instrs(f, func(in ssa.Instruction) {
			st, ok := in.(*ssa.Store)
			if !ok {
				return
			}
			fa, ok := st.Addr.(*ssa.FieldAddr)
			if !ok {
				return
			}
			a, ok := fa.X.(*ssa.Alloc)
			if !ok {
				return
			}
			if pt, ok := a.Type().(*types.Pointer); !ok || pt.Elem() != types.Type(frameT) {
				return
			}
			if lits[a] == nil {
				lits[a] = map[*types.Var]ssa.Value{}
				order = append(order, a)
			}
			lits[a][kit.FieldOfAddr(fa)] = st.Val
		})
		for _, a := range order {
			vals := lits[a]
			if k, isc := kit.ConstInt(vals[fType]); !isc || k != dataType {
				continue
			}
			if lf, base := kit.LoadedField(vals[fPayload]); lf != fPayload || base != ssa.Value(frame) {
				continue // not a relayed payload
			}
			n++
			lf, base := kit.LoadedField(vals[fFlags])
			okFlags := vals[fFlags] != nil && lf == fFlags && base == ssa.Value(frame)
			fname := kit.FuncName(f)
			ord[fname]++
			r.Decide(okFlags, "C18.R7", fmt.Sprintf("%s relayed data frame #%d", fname, ord[fname]), p.Pos(a.Pos()),
				"the forwarded frame carries the received frame's flags",
				"the forwarded stream-data frame does not carry the received frame's Flags: a FIN-write flag is dropped at this transit hop, the far reader gets the data but never end-of-stream")
		}
	}
	r.Count("r7_relayed_data_frames", n)
}
