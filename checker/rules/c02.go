package rules

import (
	"fmt"
	"go/token"
	"go/types"
	"strings"

	"golang.org/x/tools/go/ssa"

	"mmverify/kit"
)

func init() {
	register(&Check{
		ID: "C02", Level: "other",
		Explain:   "Evaluates every path of the exported SessionKey method that (through any helpers) reaches cipher.AEAD.Seal, together with its callees, over an abstract domain (role concrete, counters symbolic with one version per critical section / atomic step, nonce bytes tracked individually) and decides: the counter value placed in the nonce handed to Seal and the single increment of the send counter belong to one critical section (or one atomic read-modify-write), wherever the nonce buffer is assembled; every nonce byte is a role constant or a byte of that claimed value and all eight counter bytes are present; the nonces of the two roles differ in a constant byte; the counter and the role field have no other writer in the repository; the raw key and AEADs built from it stay on the sealing/opening paths; stored ephemeral private keys are consumed by the key agreement. Uniqueness beyond 2^64 messages is not covered.",
		Technique: "path-enumerating abstract evaluation of the SSA; repository-wide field write-sets",
		Run:       runC02,
		SelfTests: []SelfTest{
			{Name: "increment outside the critical section", ExpectRule: "C02.R1", Edits: []Edit{
				{File: "internal/crypto/crypto.go", Old: "\tnonce := s.buildSendNonce()\n\ts.sendNonce++\n\ts.mu.Unlock()\n", New: "\tnonce := s.buildSendNonce()\n\ts.mu.Unlock()\n\ts.sendNonce++\n"},
			}},
			{Name: "counter reset elsewhere", ExpectRule: "C02.R1", Edits: []Edit{
				{File: "internal/crypto/crypto.go", Old: "\tZeroKey(&s.key)\n", New: "\tZeroKey(&s.key)\n\ts.sendNonce = 1\n"},
			}},
			{Name: "role byte set for both roles", ExpectRule: "C02.R3", Edits: []Edit{
				{File: "internal/crypto/crypto.go", Old: "\tif !s.isInitiator {\n\t\t// Responder sends with high bit set\n\t\tnonce[0] = 0x80\n\t}", New: "\tnonce[0] = 0x80"},
			}},
			{Name: "role byte inside counter bytes", ExpectRule: "C02.R3", Edits: []Edit{
				{File: "internal/crypto/crypto.go", Old: "\t\t// Responder sends with high bit set\n\t\tnonce[0] = 0x80\n", New: "\t\tnonce[4] = 0x80\n"},
			}},
			{Name: "separate atomic load and add", ExpectRule: "C02.R1", Edits: []Edit{
				{File: "internal/crypto/crypto.go", Old: "\t\"io\"\n\t\"sync\"\n", New: "\t\"io\"\n\t\"sync\"\n\t\"sync/atomic\"\n"},
				{File: "internal/crypto/crypto.go", Old: "\ts.mu.Lock()\n\tnonce := s.buildSendNonce()\n\ts.sendNonce++\n\ts.mu.Unlock()\n", New: "\tnonce := s.buildSendNonce()\n\tatomic.AddUint64(&s.sendNonce, 1)\n"},
				{File: "internal/crypto/crypto.go", Old: "binary.BigEndian.PutUint64(nonce[4:], s.sendNonce)", New: "binary.BigEndian.PutUint64(nonce[4:], atomic.LoadUint64(&s.sendNonce))"},
			}},
			{Name: "rewrite: single atomic read-modify-write feeds the nonce", Edits: []Edit{
				{File: "internal/crypto/crypto.go", Old: "\t\"io\"\n\t\"sync\"\n", New: "\t\"io\"\n\t\"sync\"\n\t\"sync/atomic\"\n"},
				{File: "internal/crypto/crypto.go", Old: "\ts.mu.Lock()\n\tnonce := s.buildSendNonce()\n\ts.sendNonce++\n\ts.mu.Unlock()\n", New: "\tnonce := s.buildSendNonce()\n"},
				{File: "internal/crypto/crypto.go", Old: "binary.BigEndian.PutUint64(nonce[4:], s.sendNonce)", New: "binary.BigEndian.PutUint64(nonce[4:], atomic.AddUint64(&s.sendNonce, 1)-1)"},
			}},
			{Name: "stored private key not consumed (local copy zeroed)", ExpectRule: "C02.R6", Edits: []Edit{
				{File: "internal/agent/udp.go", Old: "\t\tsharedSecret, err := crypto.ComputeECDH(dest.EphemeralPrivKey, ack.EphemeralPubKey)", New: "\t\tephPriv := dest.EphemeralPrivKey\n\t\tsharedSecret, err := crypto.ComputeECDH(ephPriv, ack.EphemeralPubKey)"},
				{File: "internal/agent/udp.go", Old: "\t\tcrypto.ZeroKey(&dest.EphemeralPrivKey)\n\n\t\t// Derive session key", New: "\t\tcrypto.ZeroKey(&ephPriv)\n\n\t\t// Derive session key"},
			}},
			{Name: "pointer-passed private key not zeroed", ExpectRule: "C02.R6", Edits: []Edit{
				{File: "internal/agent/icmp.go", Old: "\t// Zero out private key immediately\n\tcrypto.ZeroKey(ephPrivKey)\n", New: ""},
			}},
			{Name: "key-agreement helper takes the stored private key by value (zeroes its copy)", ExpectRule: "C02.R6", Edits: []Edit{
				{File: "internal/agent/icmp.go", Old: "\tephPrivKey *[32]byte,\n", New: "\tephPrivKey [32]byte,\n"},
				{File: "internal/agent/icmp.go", Old: "crypto.ComputeECDH(*ephPrivKey, remotePubKey)", New: "crypto.ComputeECDH(ephPrivKey, remotePubKey)"},
				{File: "internal/agent/icmp.go", Old: "\tcrypto.ZeroKey(ephPrivKey)\n", New: "\tcrypto.ZeroKey(&ephPrivKey)\n"},
				{File: "internal/agent/icmp.go", Old: "deriveICMPSessionKey(&ingress.EphemeralPrivKey,", New: "deriveICMPSessionKey(ingress.EphemeralPrivKey,"},
				{File: "internal/agent/icmp.go", Old: "deriveICMPSessionKey(&wsSession.EphemeralPrivKey,", New: "deriveICMPSessionKey(wsSession.EphemeralPrivKey,"},
			}},
			{Name: "address of a local copy of the stored private key handed to the consuming helper", ExpectRule: "C02.R6", Edits: []Edit{
				{File: "internal/agent/icmp.go", Old: "\t\tsessionKey, err := deriveICMPSessionKey(&ingress.EphemeralPrivKey,", New: "\t\tpriv := ingress.EphemeralPrivKey\n\t\tsessionKey, err := deriveICMPSessionKey(&priv,"},
			}},
			{Name: "rewrite: by-value helper, callers zero the stored field after the call", Edits: []Edit{
				{File: "internal/agent/icmp.go", Old: "\tephPrivKey *[32]byte,\n", New: "\tephPrivKey [32]byte,\n"},
				{File: "internal/agent/icmp.go", Old: "crypto.ComputeECDH(*ephPrivKey, remotePubKey)", New: "crypto.ComputeECDH(ephPrivKey, remotePubKey)"},
				{File: "internal/agent/icmp.go", Old: "\tcrypto.ZeroKey(ephPrivKey)\n", New: "\tcrypto.ZeroKey(&ephPrivKey)\n"},
				{File: "internal/agent/icmp.go", Old: "\t\tsessionKey, err := deriveICMPSessionKey(&ingress.EphemeralPrivKey, ingress.EphemeralPubKey, ack.EphemeralPubKey, ack.RequestID)\n", New: "\t\tsessionKey, err := deriveICMPSessionKey(ingress.EphemeralPrivKey, ingress.EphemeralPubKey, ack.EphemeralPubKey, ack.RequestID)\n\t\tcrypto.ZeroKey(&ingress.EphemeralPrivKey)\n"},
				{File: "internal/agent/icmp.go", Old: "\tsessionKey, err := deriveICMPSessionKey(&wsSession.EphemeralPrivKey, wsSession.EphemeralPubKey, ack.EphemeralPubKey, ack.RequestID)\n", New: "\tsessionKey, err := deriveICMPSessionKey(wsSession.EphemeralPrivKey, wsSession.EphemeralPubKey, ack.EphemeralPubKey, ack.RequestID)\n\tcrypto.ZeroKey(&wsSession.EphemeralPrivKey)\n"},
			}},
			{Name: "rewrite: deferred unlock, seal under the lock", Edits: []Edit{
				{File: "internal/crypto/crypto.go", Old: "\tnonce := s.buildSendNonce()\n\ts.sendNonce++\n\ts.mu.Unlock()\n", New: "\tdefer s.mu.Unlock()\n\tnonce := s.buildSendNonce()\n\ts.sendNonce++\n"},
			}},
			{Name: "nonce byte overwritten after the claim", ExpectRule: "C02.R2", Edits: []Edit{
				{File: "internal/crypto/crypto.go", Old: "\ts.sendNonce++\n\ts.mu.Unlock()\n", New: "\ts.sendNonce++\n\ts.mu.Unlock()\n\tnonce[11] = 0\n"},
			}},
			{Name: "counter truncated to 32 bits in the nonce", ExpectRule: "C02.R2", Edits: []Edit{
				{File: "internal/crypto/crypto.go", Old: "binary.BigEndian.PutUint64(nonce[4:], s.sendNonce)", New: "binary.BigEndian.PutUint32(nonce[8:], uint32(s.sendNonce))"},
			}},
			{Name: "claim split into two critical sections", ExpectRule: "C02.R1", Edits: []Edit{
				{File: "internal/crypto/crypto.go", Old: "\ts.mu.Lock()\n\tnonce := s.buildSendNonce()\n\ts.sendNonce++\n\ts.mu.Unlock()\n", New: "\ts.mu.Lock()\n\tnonce := s.buildSendNonce()\n\ts.mu.Unlock()\n\ts.mu.Lock()\n\ts.sendNonce++\n\ts.mu.Unlock()\n"},
			}},
			{Name: "claim helper releases the lock between read and increment", ExpectRule: "C02.R1", Edits: []Edit{
				{File: "internal/crypto/crypto.go", Old: "\ts.mu.Lock()\n\tnonce := s.buildSendNonce()\n\ts.sendNonce++\n\ts.mu.Unlock()\n", New: "\tvar nonce [NonceSize]byte\n\tif !s.isInitiator {\n\t\tnonce[0] = 0x80\n\t}\n\tbinary.BigEndian.PutUint64(nonce[4:], s.claimSeq())\n"},
				{File: "internal/crypto/crypto.go", Old: "// Key returns a copy of the session key bytes.", New: "func (s *SessionKey) claimSeq() uint64 {\n\ts.mu.Lock()\n\tseq := s.sendNonce\n\ts.mu.Unlock()\n\ts.mu.Lock()\n\ts.sendNonce = seq + 1\n\ts.mu.Unlock()\n\treturn seq\n}\n\n// Key returns a copy of the session key bytes."},
			}},
			{Name: "role changed after construction", ExpectRule: "C02.R3", Edits: []Edit{
				{File: "internal/crypto/crypto.go", Old: "// Key returns a copy of the session key bytes.", New: "func (s *SessionKey) SetInitiator(v bool) {\n\ts.mu.Lock()\n\ts.isInitiator = v\n\ts.mu.Unlock()\n}\n\n// Key returns a copy of the session key bytes."},
			}},
			{Name: "AEAD from the session key handed out by an exported method", ExpectRule: "C02.R5", Edits: []Edit{
				{File: "internal/crypto/crypto.go", Old: "\t\"bytes\"\n", New: "\t\"bytes\"\n\t\"crypto/cipher\"\n"},
				{File: "internal/crypto/crypto.go", Old: "// Key returns a copy of the session key bytes.", New: "func (s *SessionKey) Cipher() (cipher.AEAD, error) {\n\treturn chacha20poly1305.New(s.key[:])\n}\n\n// Key returns a copy of the session key bytes."},
			}},
			{Name: "rewrite: claim helper with deferred unlock returns the nonce, merged builder with bool parameter", Edits: []Edit{
				{File: "internal/crypto/crypto.go", Old: "\ts.mu.Lock()\n\tnonce := s.buildSendNonce()\n\ts.sendNonce++\n\ts.mu.Unlock()\n", New: "\tnonce := s.takeSendNonce()\n"},
				{File: "internal/crypto/crypto.go", Old: "// Key returns a copy of the session key bytes.", New: "func (s *SessionKey) takeSendNonce() [NonceSize]byte {\n\ts.mu.Lock()\n\tdefer s.mu.Unlock()\n\tcounter := s.sendNonce\n\ts.sendNonce = counter + 1\n\treturn makeNonce(!s.isInitiator, counter)\n}\n\nfunc makeNonce(fromResponder bool, counter uint64) [NonceSize]byte {\n\tvar n [NonceSize]byte\n\tif fromResponder {\n\t\tn[0] = 0x80\n\t}\n\tbinary.BigEndian.PutUint64(n[NonceSize-8:], counter)\n\treturn n\n}\n\n// Key returns a copy of the session key bytes."},
			}},
			{Name: "rewrite: counter claimed in a helper, nonce assembled after the unlock, role byte from a helper", Edits: []Edit{
				{File: "internal/crypto/crypto.go", Old: "\ts.mu.Lock()\n\tnonce := s.buildSendNonce()\n\ts.sendNonce++\n\ts.mu.Unlock()\n", New: "\tvar nonce [NonceSize]byte\n\tnonce[0] = s.directionByte(true)\n\tbinary.BigEndian.PutUint64(nonce[4:], s.claimSendSeq())\n"},
				{File: "internal/crypto/crypto.go", Old: "// Key returns a copy of the session key bytes.", New: "func (s *SessionKey) claimSendSeq() uint64 {\n\ts.mu.Lock()\n\tseq := s.sendNonce\n\ts.sendNonce++\n\ts.mu.Unlock()\n\treturn seq\n}\n\nfunc (s *SessionKey) directionByte(sending bool) byte {\n\tif s.isInitiator == sending {\n\t\treturn 0x00\n\t}\n\treturn 0x80\n}\n\n// Key returns a copy of the session key bytes."},
			}},
			{Name: "rewrite: builder inlined, locals claimed under the lock, switch, append", Edits: []Edit{
				{File: "internal/crypto/crypto.go", Old: "\ts.mu.Lock()\n\tnonce := s.buildSendNonce()\n\ts.sendNonce++\n\ts.mu.Unlock()\n", New: "\tvar nonce [NonceSize]byte\n\ts.mu.Lock()\n\tseq := s.sendNonce\n\ts.sendNonce = seq + 1\n\tfromInitiator := s.isInitiator\n\ts.mu.Unlock()\n\tbinary.BigEndian.PutUint64(nonce[4:], seq)\n\tswitch {\n\tcase fromInitiator:\n\tdefault:\n\t\tnonce[0] = 0x80\n\t}\n"},
				{File: "internal/crypto/crypto.go", Old: "\tciphertext := make([]byte, NonceSize, NonceSize+len(plaintext)+TagSize)\n\tcopy(ciphertext, nonce[:])\n", New: "\tciphertext := make([]byte, 0, EncryptionOverhead+len(plaintext))\n\tciphertext = append(ciphertext, nonce[:]...)\n"},
			}},
			{Name: "two Seal calls under one claimed counter value", ExpectRule: "C02.R1", Edits: []Edit{
				{File: "internal/crypto/crypto.go", Old: "\tciphertext = aead.Seal(ciphertext, nonce[:], plaintext, nil)\n", New: "\tciphertext = aead.Seal(ciphertext, nonce[:], plaintext, nil)\n\tciphertext = append(ciphertext, aead.Seal(nil, nonce[:], nil, plaintext)...)\n"},
			}},
			{Name: "rewrite: a loop over the plaintext between claim and Seal", Edits: []Edit{
				{File: "internal/crypto/crypto.go", Old: "\ts.sendNonce++\n\ts.mu.Unlock()\n", New: "\ts.sendNonce++\n\ts.mu.Unlock()\n\n\tsum := 0\n\tfor _, b := range plaintext {\n\t\tsum += int(b)\n\t}\n\t_ = sum\n"},
			}},
			{Name: "rewrite: counter bytes written with shifts in a loop", Edits: []Edit{
				{File: "internal/crypto/crypto.go", Old: "binary.BigEndian.PutUint64(nonce[4:], s.sendNonce)", New: "for i := 0; i < 8; i++ {\n\t\tnonce[4+i] = byte(s.sendNonce >> (56 - 8*uint(i)))\n\t}"},
			}},
			{Name: "rewrite: AEAD cached in the session by the constructor", Edits: []Edit{
				{File: "internal/crypto/crypto.go", Old: "\t\"bytes\"\n", New: "\t\"bytes\"\n\t\"crypto/cipher\"\n"},
				{File: "internal/crypto/crypto.go", Old: "\tmu sync.Mutex\n}", New: "\tmu sync.Mutex\n\n\taead cipher.AEAD\n}"},
				{File: "internal/crypto/crypto.go", Old: "\treturn sk\n}", New: "\taead, err := chacha20poly1305.New(sk.key[:])\n\tif err != nil {\n\t\tpanic(err)\n\t}\n\tsk.aead = aead\n\n\treturn sk\n}"},
				{File: "internal/crypto/crypto.go", Old: "\taead, err := chacha20poly1305.New(s.key[:])\n\tif err != nil {\n\t\treturn nil, fmt.Errorf(\"create cipher: %w\", err)\n\t}\n\n\t// Output: nonce", New: "\taead := s.aead\n\n\t// Output: nonce"},
				{File: "internal/crypto/crypto.go", Old: "\taead, err := chacha20poly1305.New(s.key[:])\n\tif err != nil {\n\t\treturn nil, fmt.Errorf(\"create cipher: %w\", err)\n\t}\n\n\tplaintext, err", New: "\taead := s.aead\n\n\tplaintext, err"},
			}},
			{Name: "rewrite: shared newAEAD helper, Seal in a free function", Edits: []Edit{
				{File: "internal/crypto/crypto.go", Old: "\t\"bytes\"\n", New: "\t\"bytes\"\n\t\"crypto/cipher\"\n"},
				{File: "internal/crypto/crypto.go", Old: "\taead, err := chacha20poly1305.New(s.key[:])\n\tif err != nil {\n\t\treturn nil, fmt.Errorf(\"create cipher: %w\", err)\n\t}\n\n\t// Output: nonce", New: "\taead, err := s.newAEAD()\n\tif err != nil {\n\t\treturn nil, err\n\t}\n\n\t// Output: nonce"},
				{File: "internal/crypto/crypto.go", Old: "\taead, err := chacha20poly1305.New(s.key[:])\n\tif err != nil {\n\t\treturn nil, fmt.Errorf(\"create cipher: %w\", err)\n\t}\n\n\tplaintext, err", New: "\taead, err := s.newAEAD()\n\tif err != nil {\n\t\treturn nil, err\n\t}\n\n\tplaintext, err"},
				{File: "internal/crypto/crypto.go", Old: "\tciphertext = aead.Seal(ciphertext, nonce[:], plaintext, nil)\n\n\treturn ciphertext, nil\n", New: "\treturn sealInto(aead, ciphertext, nonce, plaintext), nil\n"},
				{File: "internal/crypto/crypto.go", Old: "// Key returns a copy of the session key bytes.", New: "func (s *SessionKey) newAEAD() (cipher.AEAD, error) {\n\taead, err := chacha20poly1305.New(s.key[:])\n\tif err != nil {\n\t\treturn nil, fmt.Errorf(\"create cipher: %w\", err)\n\t}\n\treturn aead, nil\n}\n\nfunc sealInto(aead cipher.AEAD, dst []byte, nonce [NonceSize]byte, plaintext []byte) []byte {\n\treturn aead.Seal(dst, nonce[:], plaintext, nil)\n}\n\n// Key returns a copy of the session key bytes."},
			}},
		},
	})
}

func runC02(p *kit.Program, r *kit.Report) {
	r.Rule("C02.R1", "on every path of the sealing entry that reaches Seal, the counter value placed in the nonce and the single increment (+k, k>=1) of the send counter belong to one critical section of the session mutex (or to one atomic read-modify-write); the nonce uses the same offset from the claimed value on all paths; the send counter has no other writer in the repository")
	r.Rule("C02.R2", "every byte of the nonce handed to AEAD.Seal is a role-determined constant or a byte of the claimed counter value, and all eight bytes of the claimed value are present")
	r.Rule("C02.R3", "the nonces of the two roles differ in a constant byte (disjoint nonce spaces under the shared key); the role field is written only by the key-derivation constructor")
	r.Rule("C02.R6", "a long-lived (stored) ephemeral private key is consumed by the key agreement: where ComputeECDH takes its private key from a struct field or through a pointer parameter - directly or, followed through by-value and pointer parameters into every static caller, via a copy - that same location is zeroed (zeroing a copy does not count) before the session key is derived, so a duplicated handshake message cannot re-derive the same key with fresh (zero) nonce counters")
	r.Rule("C02.R5", "the key field is accessed only by SessionKey methods, functions confined to the sealing/opening paths and the key-derivation constructor; the AEAD is constructed from it only on the sealing/opening paths; the key getter has no caller in non-test code")
	cx := newCryptoCtx(p, r)
	if cx == nil {
		return
	}
	cx.sendCover = newSxCoverage()
	layouts := map[bool]sxLayout{}
	layoutWhy := map[bool]string{}
	var counter *types.Var
	for _, entry := range cx.sealEntries {
		fname := kit.FuncName(entry)
		pos := p.Pos(entry.Pos())
		runs := cx.exploreSend(entry, cx.sendCover)
		nPaths, nSeal := 0, 0
		var claimBad, valueBad, contentBad []string
		add := func(list *[]string, s string) {
			for _, x := range *list {
				if x == s {
					return
				}
			}
			*list = append(*list, s)
		}
		offsets := map[int64]bool{}
		incomplete := ""
		for _, run := range runs {
			if run.incomplete != "" {
				incomplete = run.incomplete
			}
			nPaths += len(run.paths)
			for _, pt := range run.paths {
				claims := map[any]bool{}
				for _, ev := range pt.events {
					if ev.kind != seSeal {
						continue
					}
					nSeal++
					at := p.Pos(ev.instr.Pos())
					if ev.nonce == nil {
						add(&contentBad, "the nonce handed to Seal at "+at+" has no constant length")
						continue
					}
					// R2: content
					var sym *sxSym
					var off int64
					seen := map[int]int{}
					okContent := true
					for i, b := range ev.nonce {
						switch b.kind {
						case sbUnknown:
							okContent = false
							add(&contentBad, fmt.Sprintf("byte %d of the nonce handed to Seal at %s is neither a constant nor a byte of the claimed counter value", i, at))
						case sbPart:
							if sym == nil {
								sym, off = b.sym, b.off
							} else if sym != b.sym || off != b.off {
								okContent = false
								add(&contentBad, "the counter bytes of the nonce handed to Seal at "+at+" stem from different reads of the counter")
							}
							seen[b.k]++
						}
					}
					if sym == nil {
						add(&contentBad, "the nonce handed to Seal at "+at+" contains no counter: every message is sealed with the same nonce")
						continue
					}
					for k := 0; k < 8; k++ {
						if seen[k] == 0 {
							okContent = false
							add(&contentBad, fmt.Sprintf("byte %d of the 64-bit counter is missing from the nonce handed to Seal at %s: nonces repeat when the counter passes 2^%d", k, at, 8*k))
							break
						}
					}
					if !okContent {
						continue
					}
					if sym.field == nil || !cx.counters[sym.field] {
						add(&contentBad, "the counter in the nonce handed to Seal at "+at+" is not a counter field of the session")
						continue
					}
					counter = sym.field
					offsets[off] = true
					// R1: the claim
					type claim struct {
						sym *sxSym
						off int64
					}
					if claims[claim{sym, off}] {
						add(&claimBad, "a path seals twice with the same claimed counter value (second Seal at "+at+"): two messages share one nonce")
					}
					claims[claim{sym, off}] = true
					var mine []sxEvent
					for _, e2 := range pt.events {
						if e2.kind != seStore || e2.field != sym.field {
							continue
						}
						sat := p.Pos(e2.instr.Pos())
						switch {
						case e2.cur == nil:
							add(&claimBad, "the send counter is stored at "+sat+" without holding the session mutex exclusively (and not by an atomic read-modify-write): two concurrent senders can seal with the same nonce")
						case e2.cur == sym:
							mine = append(mine, e2)
						}
					}
					if len(mine) == 0 {
						add(&claimBad, "the counter value sealed at "+at+" is not advanced in the critical section / atomic step that read it: two concurrent senders can seal with the same nonce, or the next message re-uses it")
						continue
					}
					last := mine[len(mine)-1]
					if v := last.val; !(v.k == sxInt && v.form == siLin && v.sym == sym && v.off >= 1) {
						add(&valueBad, "the counter store at "+p.Pos(last.instr.Pos())+" does not leave the counter at its claimed value plus a positive constant")
					}
				}
			}
			l, why := sendLayout(run)
			if _, have := layouts[run.role]; !have {
				layouts[run.role], layoutWhy[run.role] = l, why
			} else if why == "" && !layouts[run.role].equal(l) {
				layoutWhy[run.role] = "sealing entries disagree on the nonce layout"
			}
		}
		if !r.Require(incomplete == "", "model-incomplete: exploration of %s: %s", fname, incomplete) {
			return
		}
		r.Count("send_paths_explored", nPaths)
		r.Count("seal_events", nSeal)
		if !r.Require(nSeal > 0, "anchor-unresolved: no explored path of %s reaches AEAD.Seal", fname) {
			return
		}
		if len(offsets) > 1 {
			add(&valueBad, "paths place different offsets of the claimed counter value in the nonce")
		}
		r.Decide(len(claimBad) == 0, "C02.R1", fname+" send counter claim", pos,
			"on every sealing path the nonce counter and the single increment share one critical section / atomic step",
			strings.Join(claimBad, "; "))
		r.Decide(len(valueBad) == 0, "C02.R1", fname+" send counter increment value", pos, "counter := counter + k, k>=1; one nonce offset on all paths", strings.Join(valueBad, "; ")+": nonces can repeat")
		r.Decide(len(contentBad) == 0, "C02.R2", fname+" nonce content", pos,
			"every nonce byte is a role constant or a byte of the claimed counter value; all 8 counter bytes present",
			strings.Join(contentBad, "; "))
	}
	if counter == nil {
		counter = cx.sendCtr
	}
	// program-wide write set of the send counter
	if counter != nil {
		nOther, nPath := 0, 0
		for _, acc := range p.FieldAccessesOfKind(counter, kit.FieldStore, kit.FieldAddrUse) {
			if cx.sendCover.instrs[acc.Instr] && cx.confined(kit.TopLevel(acc.Fn), cx.sealEntries) {
				nPath++
				continue // judged on the paths above
			}
			if isAtomicLoadUse(acc) {
				continue
			}
			if acc.Kind == kit.FieldStore {
				if k, ok := kit.ConstInt(acc.Val); ok && k == 0 && c02IsDerivation(p, kit.TopLevel(acc.Fn), 0) {
					continue // zero-initialisation in the constructor
				}
			}
			nOther++
			r.Violation("C02.R1", fmt.Sprintf("%s other writer of send counter #%d", kit.FuncName(acc.Fn), nOther), p.Pos(acc.Instr.Pos()),
				"the send counter is written outside the claim of the sealing path: a reset or rewind re-uses nonces under the same key")
		}
		r.OK("C02.R1", "write-set of send counter", p.Pos(cx.encrypt.Pos()), "%d write(s) on the sealing path, %d elsewhere", nPath, nOther)
	}

	// R3: role separation
	lt, lf := layouts[true], layouts[false]
	sep := -1
	if layoutWhy[true] == "" && layoutWhy[false] == "" && len(lt.bytes) == len(lf.bytes) {
		for i := range lt.bytes {
			if lt.bytes[i].kind == sbConc && lf.bytes[i].kind == sbConc && lt.bytes[i].c != lf.bytes[i].c {
				sep = i
				break
			}
		}
	}
	if layoutWhy[true] == "" && layoutWhy[false] == "" {
		r.Decide(sep >= 0, "C02.R3", "send nonce role separation", p.Pos(cx.encrypt.Pos()),
			fmt.Sprintf("nonce byte %d is a constant that differs between the roles (initiator %s, responder %s)", sep, lt, lf),
			fmt.Sprintf("no constant byte of the nonce differs between the roles (initiator %s, responder %s): both directions can produce the same nonce under the shared key", lt, lf))
	} else {
		r.Violation("C02.R3", "send nonce role separation", p.Pos(cx.encrypt.Pos()), "the nonce layout of a role is not determined (%s %s): the two directions are not provably separated", layoutWhy[true], layoutWhy[false])
	}
	nRoleW := 0
	cfg := cx.configFields()
	for _, f := range cfg {
		for _, acc := range p.FieldAccessesOfKind(f, kit.FieldStore, kit.FieldAddrUse) {
			if c02IsDerivation(p, kit.TopLevel(acc.Fn), 0) {
				continue
			}
			if acc.Kind == kit.FieldAddrUse {
				if c, ok := acc.Instr.(ssa.CallInstruction); !ok || kit.CalleeOf(c).Iface || kit.CalleeOf(c).Built == "len" {
					continue // not handed to a callee that could write it
				}
			}
			nRoleW++
			r.Violation("C02.R3", fmt.Sprintf("%s writes role field #%d", kit.FuncName(acc.Fn), nRoleW), p.Pos(acc.Instr.Pos()),
				"the role/direction state of a session (%s) is changed after construction: the end then sends in the nonce space of its peer", cx.fieldRole(f))
		}
	}
	r.OK("C02.R3", "write-set of role field", p.Pos(cx.encrypt.Pos()), "%d role/configuration field(s) read on the sealing/opening paths, %d write(s) outside the constructor", len(cfg), nRoleW)

	c02R6(p, r)

	// R5: key confinement
	keyFld := cx.keyFld
	if r.Require(keyFld != nil, "anchor-unresolved: 32-byte key field of SessionKey") {
		entries := append(append([]*ssa.Function{}, cx.sealEntries...), cx.openEntries...)
		n := 0
		for _, acc := range p.FieldAccesses(keyFld) {
			n++
			top := kit.TopLevel(acc.Fn)
			okAcc := cx.isSKMethod(top) || c02IsDerivation(p, top, 0) || cx.confined(top, entries)
			if !okAcc {
				r.Violation("C02.R5", fmt.Sprintf("%s accesses key", kit.FuncName(acc.Fn)), p.Pos(acc.Instr.Pos()), "the session key is touched outside the SessionKey methods and the derivation constructor")
			}
		}
		r.Count("key_field_accesses", n)
		// AEAD construction sites
		for _, f := range p.RepoFuncs() {
			for _, c := range kit.Calls(f) {
				cal := kit.CalleeOf(c)
				if cal.Pkg == "golang.org/x/crypto/chacha20poly1305" && (cal.Name == "New" || cal.Name == "NewX") {
					top := kit.TopLevel(f)
					// only constructions whose key argument is the SessionKey key field
					ar, ok := kit.AddrRange(kit.Arg(c, 0))
					if !ok {
						continue
					}
					fa, isFA := ar.Root.(*ssa.FieldAddr)
					if !isFA || kit.FieldOfAddr(fa) != keyFld {
						continue // sealed boxes / management keys have their own keys
					}
					okSite := cx.confined(top, entries)
					if !okSite && c02IsDerivation(p, top, 0) {
						// cached in the session by the constructor: the AEAD may only be stored
						// into a SessionKey field, which is then confined like the key
						if fld := c02StoredInSKField(cx, c); fld != nil {
							okSite = true
							for _, acc := range p.FieldAccesses(fld) {
								t2 := kit.TopLevel(acc.Fn)
								if !(cx.isSKMethod(t2) || c02IsDerivation(p, t2, 0) || cx.confined(t2, entries)) {
									okSite = false
								}
							}
						}
					}
					r.Decide(okSite, "C02.R5", "AEAD constructed in "+kit.FuncName(f), p.Pos(c.Pos()),
						"AEAD built from the session key only on the sealing/opening paths", "an AEAD is constructed from the session key in a function that is reachable outside the sealing/opening entries (nonce counter not shared)")
				}
			}
		}
		// getter returning the key: callers
		for _, m := range cx.methods {
			if cx.sealPath[m] || cx.openPath[m] {
				continue
			}
			res := m.Signature.Results()
			if res.Len() == 1 && types.Identical(res.At(0).Type(), keyFld.Type()) {
				callers := p.StaticCallers(m)
				r.Decide(len(callers) == 0, "C02.R5", "callers of "+kit.FuncName(m), p.Pos(m.Pos()),
					"the raw-key getter has no caller in non-test code",
					fmt.Sprintf("the raw session key is extracted by %d non-test call site(s)", len(callers)))
			}
		}
		r.OK("C02.R5", "key field access set", p.Pos(cx.encrypt.Pos()), "%d accesses, all inside SessionKey methods / constructor", n)
	}
}

// c02StoredInSKField: every use of the AEAD returned by the construction call c is a store
// into one field of SessionKey (or the error check); returns that field.
func c02StoredInSKField(cx *cryptoCtx, c ssa.CallInstruction) *types.Var {
	call, ok := c.(*ssa.Call)
	if !ok {
		return nil
	}
	v := kit.ExtractOf(call, 0)
	if v == nil || v.Referrers() == nil {
		return nil
	}
	var fld *types.Var
	for _, ref := range *v.Referrers() {
		switch x := ref.(type) {
		case *ssa.DebugRef:
		case *ssa.Store:
			fa, ok := x.Addr.(*ssa.FieldAddr)
			if !ok || x.Val != v || !cx.fields[kit.FieldOfAddr(fa)] {
				return nil
			}
			if fld != nil && fld != kit.FieldOfAddr(fa) {
				return nil
			}
			fld = kit.FieldOfAddr(fa)
		default:
			return nil
		}
	}
	return fld
}

// c02R6 decides the "stored private key is consumed" clause over every ComputeECDH call site.
func c02R6(p *kit.Program, r *kit.Report) {
	ecdh := p.Func("internal/crypto", "", "ComputeECDH")
	if !r.Require(ecdh != nil, "anchor-unresolved: crypto.ComputeECDH") {
		return
	}
	sites := p.StaticCallers(ecdh)
	r.Count("ecdh_call_sites", len(sites))
	r.Require(len(sites) >= 2, "floor: fewer than 2 ComputeECDH call sites found (%d)", len(sites))
	ord := map[string]int{}
	for _, site := range sites {
		fn := site.Parent()
		if kit.FuncPkgPath(fn) == kit.PkgPath("internal/crypto") {
			continue
		}
		ord[kit.FuncName(fn)]++
		key := fmt.Sprintf("%s ECDH #%d", kit.FuncName(fn), ord[kit.FuncName(fn)])
		j := &c02R6Judge{p: p, r: r, seen: map[string]bool{}}
		j.value(fn, site, kit.Arg(site, 0), key, 0)
	}
}

// c02R6Judge follows the private-key operand of one key agreement back to where the key lives.
// A key that lives in a long-lived location (a field of a struct that is not local to the
// invocation, or memory reached through a pointer parameter) must be zeroed *in that
// location*. By-value parameters and pointer parameters are followed into every static caller:
// zeroing a by-value copy (parameter, local) is a no-op on the owner, so the obligation is
// placed in the frame where the long-lived location is visible.
type c02R6Judge struct {
	p    *kit.Program
	r    *kit.Report
	seen map[string]bool
}

type c02KeyLoc struct {
	field *types.Var // stored struct field
	ptr   ssa.Value  // pointer parameter
}

func c02IsZeroCall(c ssa.CallInstruction) bool {
	cal := kit.CalleeOf(c)
	return cal.Pkg == kit.PkgPath("internal/crypto") && (cal.Name == "ZeroKey" || cal.Name == "ZeroBytes")
}

// origins classifies where the value v (the key, or what is stored at an address when
// fromAddr) comes from inside fn.
func (j *c02R6Judge) origins(fn *ssa.Function, v ssa.Value, fromAddr bool) (stored []c02KeyLoc, byVal []*ssa.Parameter, ptrPar []*ssa.Parameter, fresh bool) {
	seen := map[ssa.Value]bool{}
	var origin func(v ssa.Value)
	var contents func(addr ssa.Value)
	contents = func(addr ssa.Value) {
		switch a := addr.(type) {
		case *ssa.FieldAddr:
			if _, isLocal := a.X.(*ssa.Alloc); isLocal {
				// field of a local struct: follow its stores
				kit.Instrs(fn, func(in ssa.Instruction) {
					if st, ok := in.(*ssa.Store); ok {
						if fa, ok := st.Addr.(*ssa.FieldAddr); ok && fa.X == a.X && fa.Field == a.Field {
							origin(st.Val)
						}
					}
				})
				return
			}
			stored = append(stored, c02KeyLoc{field: kit.FieldOfAddr(a)})
		case *ssa.Alloc:
			kit.Instrs(fn, func(in ssa.Instruction) {
				if st, ok := in.(*ssa.Store); ok && st.Addr == a {
					origin(st.Val)
				}
			})
		case *ssa.Parameter:
			stored = append(stored, c02KeyLoc{ptr: a})
			ptrPar = append(ptrPar, a)
		case *ssa.Phi:
			for _, e := range a.Edges {
				if !seen[e] {
					seen[e] = true
					contents(e)
				}
			}
		}
	}
	origin = func(v ssa.Value) {
		if v == nil || seen[v] {
			return
		}
		seen[v] = true
		switch x := v.(type) {
		case *ssa.Extract:
			if c, ok := x.Tuple.(*ssa.Call); ok && kit.CalleeOf(c).Name == "GenerateEphemeralKeypair" {
				fresh = true
			}
		case *ssa.Phi:
			for _, e := range x.Edges {
				origin(e)
			}
		case *ssa.Parameter:
			if _, isPtr := x.Type().Underlying().(*types.Pointer); !isPtr {
				byVal = append(byVal, x)
			}
		case *ssa.UnOp:
			if x.Op == token.MUL {
				contents(x.X)
			}
		}
	}
	if fromAddr {
		contents(v)
	} else {
		origin(v)
	}
	return
}

// value judges the key operand v of the key-consuming instruction site inside fn.
func (j *c02R6Judge) value(fn *ssa.Function, site ssa.CallInstruction, v ssa.Value, key string, depth int) {
	j.frame(fn, site, v, false, key, depth)
}

func (j *c02R6Judge) frame(fn *ssa.Function, site ssa.CallInstruction, v ssa.Value, fromAddr bool, key string, depth int) {
	p, r := j.p, j.r
	pos := p.Pos(site.Pos())
	stored, byVal, ptrPar, fresh := j.origins(fn, v, fromAddr)
	if fromAddr {
		// an address handed to a callee that consumes the key through it: the location itself is
		// wiped by the callee (judged there); only copies made in this frame matter
		var keep []c02KeyLoc
		for _, l := range stored {
			if fa, ok := v.(*ssa.FieldAddr); ok && l.field == kit.FieldOfAddr(fa) {
				continue
			}
			if l.ptr == v {
				continue
			}
			keep = append(keep, l)
		}
		stored = keep
	}
	if len(stored) == 0 && len(byVal) == 0 && len(ptrPar) == 0 {
		if depth == 0 {
			r.OK("C02.R6", key, pos, "private key operand is local to the invocation (fresh keypair=%v)", fresh)
		}
		return
	}
	// the consuming derivation(s) in the same function
	var derives []ssa.CallInstruction
	for _, c := range kit.Calls(fn) {
		if kit.CalleeOf(c).Is("internal/crypto", "", "DeriveSessionKey") {
			derives = append(derives, c)
		}
	}
	for _, l := range stored {
		zeroed := false
		for _, c := range kit.Calls(fn) {
			if !c02IsZeroCall(c) || len(c.Common().Args) == 0 {
				continue
			}
			a0 := c.Common().Args[0]
			match := false
			if l.field != nil {
				if ar, ok := kit.AddrRange(a0); ok {
					if fa, ok := ar.Root.(*ssa.FieldAddr); ok && kit.FieldOfAddr(fa) == l.field {
						match = true
					}
				}
				if fa, ok := a0.(*ssa.FieldAddr); ok && kit.FieldOfAddr(fa) == l.field {
					match = true
				}
			} else if a0 == l.ptr {
				match = true
			} else if ar, ok := kit.AddrRange(a0); ok && ar.Root == l.ptr {
				match = true
			}
			if !match {
				continue
			}
			okAll := len(derives) > 0 && depth == 0
			for _, d := range derives {
				if !kit.Precedes(c, d) {
					okAll = false
				}
			}
			if len(derives) == 0 || depth > 0 {
				// no derivation here (or the key was consumed by a callee): the zeroing must at
				// least follow the key agreement / the call that consumed the key
				okAll = kit.CanReach(site, c)
			}
			if okAll {
				zeroed = true
			}
		}
		what := "pointer parameter"
		if l.field != nil {
			what = "field " + l.field.Name()
		}
		k := key + " consumes " + what
		if j.seen[k] {
			continue
		}
		j.seen[k] = true
		r.Decide(zeroed, "C02.R6", k, pos,
			"the stored private key is zeroed in place before the session key is derived",
			"the stored ephemeral private key ("+what+") is not zeroed in place (zeroing a by-value copy does not reach it) before the session key is derived: a duplicated handshake reply re-derives the same key with send/receive counters reset to zero, so nonces are reused under one key")
	}
	if depth >= 4 {
		return
	}
	// follow parameters into the callers
	follow := func(prm *ssa.Parameter, asAddr bool) {
		pi := kit.ParamIndex(prm)
		callers := p.StaticCallers(fn)
		ord := map[string]int{}
		for _, c := range callers {
			cf := c.Parent()
			ord[kit.FuncName(cf)]++
			arg := kit.ArgAt(c, pi)
			if arg == nil {
				continue
			}
			j.frame(cf, c, arg, asAddr, fmt.Sprintf("%s <- %s #%d", key, kit.FuncName(cf), ord[kit.FuncName(cf)]), depth+1)
		}
	}
	for _, prm := range byVal {
		follow(prm, false)
	}
	for _, prm := range ptrPar {
		follow(prm, true)
	}
}

// c02IsDerivation: fn is the key-derivation constructor (calls hkdf.New) or an unexported helper
// of internal/crypto all of whose static callers are (two levels).
func c02IsDerivation(p *kit.Program, fn *ssa.Function, depth int) bool {
	if kit.FuncPkgPath(fn) != kit.PkgPath("internal/crypto") {
		return false
	}
	if len(kit.CallsToDeep(fn, "golang.org/x/crypto/hkdf", "", "New")) > 0 {
		return true
	}
	// the constructor role: the function allocates the SessionKey it fills
	alloc := false
	kit.Instrs(fn, func(in ssa.Instruction) {
		if a, ok := in.(*ssa.Alloc); ok {
			if pt, ok := a.Type().(*types.Pointer); ok {
				if n, ok := pt.Elem().(*types.Named); ok && n.Obj().Name() == "SessionKey" && n.Obj().Pkg() != nil && n.Obj().Pkg().Path() == kit.PkgPath("internal/crypto") {
					alloc = true
				}
			}
		}
	})
	if alloc {
		return true
	}
	if depth >= 2 {
		return false
	}
	callers := p.StaticCallers(fn)
	if len(callers) == 0 {
		return false
	}
	for _, c := range callers {
		if !c02IsDerivation(p, kit.TopLevel(c.Parent()), depth+1) {
			// a helper shared with a sibling helper of the constructor (salt builder + expander)
			sib := false
			for _, cc := range p.StaticCallers(kit.TopLevel(c.Parent())) {
				if c02IsDerivation(p, kit.TopLevel(cc.Parent()), depth+1) {
					sib = true
				}
			}
			if !sib {
				return false
			}
		}
	}
	return true
}
