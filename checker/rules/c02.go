package rules

import (
	"fmt"
	"go/token"
	"go/types"
	"strings"

	"golang.org/x/tools/go/ssa"

	"mmverify/kit"
)

func init() {
	register(&Check{
		ID: "C02", Level: "other",
		Explain: "Decides that the send counter read that feeds the nonce and its increment form one mutex region in the method that calls cipher.AEAD.Seal, that the counter field has no other writer anywhere in the repository, that the nonce handed to Seal is produced inside that region and not modified afterwards, that the role byte and the counter bytes of the nonce are disjoint and the role byte differs between roles (send vs. receive builders mirror each other), and that the raw key never leaves the SessionKey methods. Uniqueness beyond 2^64 messages is not covered.",
		Run:     runC02,
		SelfTests: []SelfTest{
			{Name: "increment outside the critical section", ExpectRule: "C02.R1", Edits: []Edit{
				{File: "internal/crypto/crypto.go", Old: "\tnonce := s.buildSendNonce()\n\ts.sendNonce++\n\ts.mu.Unlock()\n", New: "\tnonce := s.buildSendNonce()\n\ts.mu.Unlock()\n\ts.sendNonce++\n"},
			}},
			{Name: "counter reset elsewhere", ExpectRule: "C02.R1", Edits: []Edit{
				{File: "internal/crypto/crypto.go", Old: "\tZeroKey(&s.key)\n", New: "\tZeroKey(&s.key)\n\ts.sendNonce = 1\n"},
			}},
			{Name: "role byte set for both roles", ExpectRule: "C02.R3", Edits: []Edit{
				{File: "internal/crypto/crypto.go", Old: "\tif !s.isInitiator {\n\t\t// Responder sends with high bit set\n\t\tnonce[0] = 0x80\n\t}", New: "\tnonce[0] = 0x80"},
			}},
			{Name: "role byte inside counter bytes", ExpectRule: "C02.R3", Edits: []Edit{
				{File: "internal/crypto/crypto.go", Old: "\t\t// Responder sends with high bit set\n\t\tnonce[0] = 0x80\n", New: "\t\tnonce[4] = 0x80\n"},
			}},
			{Name: "separate atomic load and add", ExpectRule: "C02.R1", Edits: []Edit{
				{File: "internal/crypto/crypto.go", Old: "\t\"io\"\n\t\"sync\"\n", New: "\t\"io\"\n\t\"sync\"\n\t\"sync/atomic\"\n"},
				{File: "internal/crypto/crypto.go", Old: "\ts.mu.Lock()\n\tnonce := s.buildSendNonce()\n\ts.sendNonce++\n\ts.mu.Unlock()\n", New: "\tnonce := s.buildSendNonce()\n\tatomic.AddUint64(&s.sendNonce, 1)\n"},
				{File: "internal/crypto/crypto.go", Old: "binary.BigEndian.PutUint64(nonce[4:], s.sendNonce)", New: "binary.BigEndian.PutUint64(nonce[4:], atomic.LoadUint64(&s.sendNonce))"},
			}},
			{Name: "rewrite: single atomic read-modify-write feeds the nonce", Edits: []Edit{
				{File: "internal/crypto/crypto.go", Old: "\t\"io\"\n\t\"sync\"\n", New: "\t\"io\"\n\t\"sync\"\n\t\"sync/atomic\"\n"},
				{File: "internal/crypto/crypto.go", Old: "\ts.mu.Lock()\n\tnonce := s.buildSendNonce()\n\ts.sendNonce++\n\ts.mu.Unlock()\n", New: "\tnonce := s.buildSendNonce()\n"},
				{File: "internal/crypto/crypto.go", Old: "binary.BigEndian.PutUint64(nonce[4:], s.sendNonce)", New: "binary.BigEndian.PutUint64(nonce[4:], atomic.AddUint64(&s.sendNonce, 1)-1)"},
			}},
			{Name: "stored private key not consumed (local copy zeroed)", ExpectRule: "C02.R6", Edits: []Edit{
				{File: "internal/agent/udp.go", Old: "\t\tsharedSecret, err := crypto.ComputeECDH(dest.EphemeralPrivKey, ack.EphemeralPubKey)", New: "\t\tephPriv := dest.EphemeralPrivKey\n\t\tsharedSecret, err := crypto.ComputeECDH(ephPriv, ack.EphemeralPubKey)"},
				{File: "internal/agent/udp.go", Old: "\t\tcrypto.ZeroKey(&dest.EphemeralPrivKey)\n\n\t\t// Derive session key", New: "\t\tcrypto.ZeroKey(&ephPriv)\n\n\t\t// Derive session key"},
			}},
			{Name: "pointer-passed private key not zeroed", ExpectRule: "C02.R6", Edits: []Edit{
				{File: "internal/agent/icmp.go", Old: "\t// Zero out private key immediately\n\tcrypto.ZeroKey(ephPrivKey)\n", New: ""},
			}},
			{Name: "rewrite: deferred unlock, seal under the lock", Edits: []Edit{
				{File: "internal/crypto/crypto.go", Old: "\tnonce := s.buildSendNonce()\n\ts.sendNonce++\n\ts.mu.Unlock()\n", New: "\tdefer s.mu.Unlock()\n\tnonce := s.buildSendNonce()\n\ts.sendNonce++\n"},
			}},
		},
	})
}

func runC02(p *kit.Program, r *kit.Report) {
	r.Rule("C02.R1", "the send-counter read feeding the nonce and the counter increment are in one mutex region; the increment is +k (k>=1); no other store to the counter exists in the repository")
	r.Rule("C02.R2", "the nonce buffer handed to AEAD.Seal is written only inside that region")
	r.Rule("C02.R3", "the role byte lies outside the counter bytes, is non-zero for exactly one role, and the send and receive nonce builders use opposite role polarity for the same byte")
	r.Rule("C02.R6", "a long-lived (stored) ephemeral private key is consumed by the key agreement: where ComputeECDH takes its private key from a struct field or through a pointer parameter, that same location is zeroed before the session key is derived, so a duplicated handshake message cannot re-derive the same key with fresh (zero) nonce counters")
	r.Rule("C02.R5", "the key field is accessed only by SessionKey methods and the key-derivation constructor; the AEAD is constructed from it only in the sealing/opening methods; the key getter has no caller in non-test code")
	cx := newCryptoCtx(p, r)
	if cx == nil {
		return
	}
	fn, seal := cx.encrypt, cx.sealCall
	fname := kit.FuncName(fn)
	li := kit.Locks(fn)

	// nonce buffer handed to Seal (arg 1)
	nonceArg := kit.Arg(seal, 1)
	nr, ok := kit.AddrRange(nonceArg)
	if !r.Require(ok && nr.Root != nil, "anchor-unresolved: nonce argument of Seal has no constant buffer root") {
		return
	}
	// writers of the nonce buffer inside Encrypt
	type writer struct {
		in   ssa.Instruction
		from ssa.Value
	}
	var writers []writer
	kit.Instrs(fn, func(in ssa.Instruction) {
		switch x := in.(type) {
		case *ssa.Store:
			if ar, ok := kit.AddrRange(x.Addr); ok && ar.Root == nr.Root {
				writers = append(writers, writer{in, x.Val})
			}
		case ssa.CallInstruction:
			if x == ssa.CallInstruction(seal) {
				return
			}
			for i, a := range x.Common().Args {
				if ar, ok := kit.AddrRange(a); ok && ar.Root == nr.Root {
					cal := kit.CalleeOf(x)
					if cal.Built == "copy" && i == 1 {
						continue // read
					}
					if cal.Built == "len" || cal.Built == "cap" {
						continue
					}
					writers = append(writers, writer{in, nil})
				}
			}
		}
	})
	r.Count("nonce_buffer_writers", len(writers))
	// the SessionKey method (if any) whose result is stored into the nonce buffer
	var builder *ssa.Function
	for _, w := range writers {
		if w.from == nil {
			continue
		}
		if c, _, ok := kit.ResultOf(w.from); ok {
			if cal := kit.CalleeOf(c); cal.Static != nil && cx.isSKMethod(cal.Static) {
				builder = cal.Static
			}
		}
	}

	// the counter field: uint64 SessionKey field read on the way to the nonce
	var counter *types.Var
	var counterRead ssa.Instruction // instruction in Encrypt that reads the counter for the nonce
	for _, w := range writers {
		if w.from == nil {
			continue
		}
		if c, _, ok := kit.ResultOf(w.from); ok {
			if cal := kit.CalleeOf(c); cal.Static != nil && cx.isSKMethod(cal.Static) {
				for f := range cx.fields {
					if b, ok := f.Type().(*types.Basic); ok && b.Kind() == types.Uint64 && cx.methodReads(cal.Static, f) {
						counter, counterRead = f, c
					}
				}
			}
		}
	}
	if counter == nil {
		// inline form: PutUint64(nonce[..], s.sendNonce)
		for _, w := range writers {
			if ci, ok := w.in.(ssa.CallInstruction); ok {
				for _, a := range ci.Common().Args {
					if f, _ := kit.LoadedField(a); f != nil && cx.fields[f] {
						counter, counterRead = f, a.(ssa.Instruction)
					}
				}
			}
		}
	}
	if counter == nil {
		// lock-free form: a uint64 field advanced through sync/atomic (or stored) on the send path
		for _, f := range []*ssa.Function{fn, builder} {
			if f == nil {
				continue
			}
			for fld := range cx.fields {
				if b, ok := fld.Type().(*types.Basic); ok && b.Kind() == types.Uint64 && cx.methodReads(f, fld) && !cx.methodReads(cx.decrypt, fld) {
					counter = fld
					for _, c := range kit.Calls(fn) {
						counterRead = c
						break
					}
				}
			}
		}
	}
	if !r.Require(counter != nil, "anchor-unresolved: no uint64 SessionKey field feeds the nonce handed to Seal") {
		return
	}

	// R1: increment in Encrypt, same region
	var incs []*ssa.Store
	kit.Instrs(fn, func(in ssa.Instruction) {
		if st, ok := in.(*ssa.Store); ok {
			if fa, ok := st.Addr.(*ssa.FieldAddr); ok && kit.FieldOfAddr(fa) == counter {
				incs = append(incs, st)
			}
		}
	})
	// sync/atomic operations on the counter along the send path (sealing method + nonce builder)
	type atomicOp struct {
		call ssa.CallInstruction
		name string
		fn   *ssa.Function
	}
	var atomics []atomicOp
	sendPath := []*ssa.Function{fn}
	if builder != nil {
		sendPath = append(sendPath, builder)
	}
	plainLoads := 0
	for _, f := range sendPath {
		for _, c := range kit.Calls(f) {
			if cal := kit.CalleeOf(c); cal.Pkg == "sync/atomic" && len(c.Common().Args) > 0 {
				if fa, ok := c.Common().Args[0].(*ssa.FieldAddr); ok && kit.FieldOfAddr(fa) == counter {
					atomics = append(atomics, atomicOp{c, cal.Name, f})
				}
			}
		}
		kit.Instrs(f, func(in ssa.Instruction) {
			if v, ok := in.(ssa.Value); ok {
				if lf, _ := kit.LoadedField(v); lf == counter {
					plainLoads++
				}
			}
		})
	}
	atomicMode := len(atomics) > 0
	if atomicMode {
		// accepted lock-free idiom: the counter value placed in the nonce is the result of ONE
		// atomic read-modify-write (Add); no separate load (atomic or plain) and no plain store.
		adds, others := 0, 0
		for _, a := range atomics {
			if strings.HasPrefix(a.name, "Add") {
				adds++
			} else {
				others++
			}
		}
		ok := adds == 1 && others == 0 && plainLoads == 0 && len(incs) == 0
		if ok {
			// the nonce bytes must derive from that read-modify-write's result
			fromAdd := false
			for _, src := range kit.Slice(nonceArg, kit.SliceOpts{Prog: p, FollowParams: true, FollowCall: func(c ssa.CallInstruction) bool {
				cal := kit.CalleeOf(c)
				return cal.Static != nil && cx.isSKMethod(cal.Static)
			}}) {
				if src.Kind == kit.SrcCall && src.Call == atomics[0].call {
					fromAdd = true
				}
			}
			for _, a := range atomics {
				if strings.HasPrefix(a.name, "Add") {
					for _, src := range kit.Slice(nonceArg, kit.SliceOpts{Prog: p, FollowParams: true, FollowCall: func(c ssa.CallInstruction) bool {
						cal := kit.CalleeOf(c)
						return cal.Static != nil && cx.isSKMethod(cal.Static)
					}}) {
						if src.Kind == kit.SrcCall && src.Call == a.call {
							fromAdd = true
						}
					}
				}
			}
			ok = fromAdd
		}
		r.Decide(ok, "C02.R1", fname+" lock-free counter", p.Pos(atomics[0].call.Pos()),
			"the nonce counter is obtained by a single atomic read-modify-write",
			fmt.Sprintf("the send counter is read and advanced in separate steps (%d atomic Add, %d other atomic ops, %d plain loads, %d plain stores) without a common critical section: two concurrent senders can seal with the same nonce", adds, others, plainLoads, len(incs)))
	} else if len(incs) == 0 {
		r.Violation("C02.R1", fname+" counter increment", p.Pos(fn.Pos()), "the sealing method never advances %s: every message is sealed with the same nonce", counter.Name())
	}
	for i, st := range incs {
		key := fmt.Sprintf("%s increment %s #%d", fname, counter.Name(), i+1)
		okInc := false
		if b, ok := st.Val.(*ssa.BinOp); ok && b.Op == token.ADD {
			if k, isc := kit.ConstInt(b.Y); isc && k >= 1 {
				if f, _ := kit.LoadedField(b.X); f == counter {
					okInc = true
				}
			}
		}
		r.Decide(okInc, "C02.R1", key+" value", p.Pos(st.Pos()), "counter := counter + k, k>=1", "the counter store is not an increment of the counter by a positive constant")
		same := li.SameRegion(counterRead, st, cx.mu)
		r.Decide(same, "C02.R1", key+" region", p.Pos(st.Pos()),
			"nonce read and increment are in one mutex region",
			"the counter read that feeds the nonce and the increment are not in one critical section: two concurrent writers can seal with the same nonce")
	}
	// program-wide write set
	nOther := 0
	for _, acc := range p.FieldAccessesOfKind(counter, kit.FieldStore, kit.FieldAddrUse) {
		if acc.Fn == fn {
			continue
		}
		if atomicMode && acc.Kind == kit.FieldAddrUse {
			onPath := false
			for _, f := range sendPath {
				if acc.Fn == f {
					onPath = true
				}
			}
			if onPath {
				continue // judged by the lock-free obligation above
			}
		}
		// zero-initialisation in a constructor literal is fine
		if acc.Kind == kit.FieldStore {
			if k, ok := kit.ConstInt(acc.Val); ok && k == 0 {
				continue
			}
		}
		nOther++
		r.Violation("C02.R1", fmt.Sprintf("%s other writer of %s #%d", kit.FuncName(acc.Fn), counter.Name(), nOther), p.Pos(acc.Instr.Pos()),
			"the send counter is written outside the sealing method: a reset or rewind re-uses nonces under the same key")
	}
	r.OK("C02.R1", "write-set of "+counter.Name(), p.Pos(fn.Pos()), "%d store(s) in the sealing method, %d elsewhere", len(incs), nOther)

	// R2: every writer of the nonce buffer is inside the region
	for i, w := range writers {
		if atomicMode {
			break // the nonce buffer is a local filled from the single atomic RMW; R1 judged it
		}
		_, held := li.HeldAt(w.in, cx.mu)
		r.Decide(held, "C02.R2", fmt.Sprintf("%s nonce buffer writer #%d", fname, i+1), p.Pos(w.in.Pos()),
			"written while the mutex is held", "the nonce handed to Seal is written outside the critical section that owns the counter")
	}
	if len(writers) == 0 {
		r.Violation("C02.R2", fname+" nonce buffer", p.Pos(seal.Pos()), "the nonce handed to Seal is never written: constant nonce")
	}

	// R3: role byte vs counter bytes
	type dirStore struct {
		m     *ssa.Function
		idx   int64
		val   int64
		onTru bool // stored when role field is true
	}
	var ds []dirStore
	counterLo := int64(-1)
	for _, m := range cx.methods {
		kit.Instrs(m, func(in ssa.Instruction) {
			switch x := in.(type) {
			case *ssa.Store:
				ia, ok := x.Addr.(*ssa.IndexAddr)
				if !ok {
					return
				}
				idx, ok := kit.ConstInt(ia.Index)
				if !ok {
					return
				}
				for _, g := range kit.GuardsOf(in) {
					if lf, _ := kit.LoadedField(g.Cond); lf == cx.isInit {
						v, _ := kit.ConstInt(x.Val)
						ds = append(ds, dirStore{m, idx, v, g.Polarity})
					}
				}
			case ssa.CallInstruction:
				cal := kit.CalleeOf(x)
				if cal.Name == "PutUint64" && m == builder {
					if ar, ok := kit.AddrRange(kit.Arg(x, 0)); ok {
						counterLo = ar.Lo
					}
				}
			}
		})
	}
	if counterLo < 0 {
		// fall back: any PutUint64 in a SessionKey method that loads the counter
		for _, m := range cx.methods {
			if !cx.methodReads(m, counter) {
				continue
			}
			for _, c := range kit.Calls(m) {
				if kit.CalleeOf(c).Name == "PutUint64" {
					if ar, ok := kit.AddrRange(kit.Arg(c, 0)); ok {
						counterLo = ar.Lo
					}
				}
			}
		}
	}
	r.Require(counterLo >= 0, "anchor-unresolved: counter bytes of the nonce (PutUint64 into the nonce) not found")
	r.Count("role_byte_stores", len(ds))
	var sendTrue, sendFalse, recvTrue, recvFalse []dirStore
	for _, d := range ds {
		isSend := cx.methodReads(d.m, counter)
		switch {
		case isSend && d.onTru:
			sendTrue = append(sendTrue, d)
		case isSend && !d.onTru:
			sendFalse = append(sendFalse, d)
		case !isSend && d.onTru:
			recvTrue = append(recvTrue, d)
		default:
			recvFalse = append(recvFalse, d)
		}
		key := fmt.Sprintf("%s role byte [%d]", kit.FuncName(d.m), d.idx)
		ok := counterLo >= 0 && d.idx < counterLo && d.val != 0
		r.Decide(ok, "C02.R3", key, p.Pos(d.m.Pos()), fmt.Sprintf("role byte index %d is below the counter bytes (from %d) and its value %d is non-zero", d.idx, counterLo, d.val),
			"the role byte overlaps the counter bytes or is zero: both directions can produce the same nonce under the shared key")
	}
	// exactly one polarity on the send side, mirrored on the receive side
	sendOne := (len(sendTrue) > 0) != (len(sendFalse) > 0)
	r.Decide(sendOne, "C02.R3", "send nonce builder role polarity", p.Pos(fn.Pos()),
		"the role byte is set for exactly one role on the send side",
		"the send nonce builder sets the role byte for both roles or for none: the two directions share one nonce space")
	mirror := false
	if sendOne {
		s := append(sendTrue, sendFalse...)[0]
		var opp []dirStore
		if s.onTru {
			opp = recvFalse
		} else {
			opp = recvTrue
		}
		for _, o := range opp {
			if o.idx == s.idx && o.val == s.val {
				mirror = true
			}
		}
		if len(recvTrue)+len(recvFalse) == 0 {
			mirror = true // no separate receive builder (direction checked some other way: C01.R3 decides that)
		}
	}
	r.Decide(mirror, "C02.R3", "receive nonce builder mirrors send", p.Pos(cx.decrypt.Pos()),
		"the receive builder expects the role byte the opposite role sends",
		"the receive-side expected nonce does not mirror the send-side role byte")

	c02R6(p, r)

	// R5: key confinement
	var keyFld *types.Var
	for f := range cx.fields {
		if a, ok := f.Type().Underlying().(*types.Array); ok && a.Len() == 32 {
			keyFld = f
		}
	}
	if r.Require(keyFld != nil, "anchor-unresolved: 32-byte key field of SessionKey") {
		n := 0
		for _, acc := range p.FieldAccesses(keyFld) {
			n++
			top := kit.TopLevel(acc.Fn)
			okAcc := cx.isSKMethod(top) || c02IsDerivation(p, top, 0)
			if !okAcc {
				r.Violation("C02.R5", fmt.Sprintf("%s accesses key", kit.FuncName(acc.Fn)), p.Pos(acc.Instr.Pos()), "the session key is touched outside the SessionKey methods and the derivation constructor")
			}
		}
		r.Count("key_field_accesses", n)
		// AEAD construction sites
		for _, f := range p.RepoFuncs() {
			for _, c := range kit.Calls(f) {
				cal := kit.CalleeOf(c)
				if cal.Pkg == "golang.org/x/crypto/chacha20poly1305" && (cal.Name == "New" || cal.Name == "NewX") {
					top := kit.TopLevel(f)
					// only constructions whose key argument is the SessionKey key field
					ar, ok := kit.AddrRange(kit.Arg(c, 0))
					if !ok {
						continue
					}
					fa, isFA := ar.Root.(*ssa.FieldAddr)
					if !isFA || kit.FieldOfAddr(fa) != keyFld {
						continue // sealed boxes / management keys have their own keys
					}
					r.Decide(top == cx.encrypt || top == cx.decrypt, "C02.R5", "AEAD constructed in "+kit.FuncName(f), p.Pos(c.Pos()),
						"AEAD built from the session key only in the sealing/opening methods", "an AEAD is constructed from the session key outside the sealing/opening methods (nonce counter not shared)")
				}
			}
		}
		// getter returning the key: callers
		for _, m := range cx.methods {
			if m == cx.encrypt || m == cx.decrypt {
				continue
			}
			res := m.Signature.Results()
			if res.Len() == 1 && types.Identical(res.At(0).Type(), keyFld.Type()) {
				callers := p.StaticCallers(m)
				r.Decide(len(callers) == 0, "C02.R5", "callers of "+kit.FuncName(m), p.Pos(m.Pos()),
					"the raw-key getter has no caller in non-test code",
					fmt.Sprintf("the raw session key is extracted by %d non-test call site(s)", len(callers)))
			}
		}
		r.OK("C02.R5", "key field access set", p.Pos(fn.Pos()), "%d accesses, all inside SessionKey methods / constructor", n)
	}
}

// c02R6 decides the "stored private key is consumed" clause over every ComputeECDH call site.
func c02R6(p *kit.Program, r *kit.Report) {
	ecdh := p.Func("internal/crypto", "", "ComputeECDH")
	if !r.Require(ecdh != nil, "anchor-unresolved: crypto.ComputeECDH") {
		return
	}
	isZeroCall := func(c ssa.CallInstruction) bool {
		cal := kit.CalleeOf(c)
		return cal.Pkg == kit.PkgPath("internal/crypto") && (cal.Name == "ZeroKey" || cal.Name == "ZeroBytes")
	}
	sites := p.StaticCallers(ecdh)
	r.Count("ecdh_call_sites", len(sites))
	r.Require(len(sites) >= 2, "floor: fewer than 2 ComputeECDH call sites found (%d)", len(sites))
	ord := map[string]int{}
	for _, site := range sites {
		fn := site.Parent()
		if kit.FuncPkgPath(fn) == kit.PkgPath("internal/crypto") {
			continue
		}
		ord[kit.FuncName(fn)]++
		key := fmt.Sprintf("%s ECDH #%d", kit.FuncName(fn), ord[kit.FuncName(fn)])
		pos := p.Pos(site.Pos())
		// where does the private key operand live?
		type loc struct {
			field *types.Var // stored struct field
			ptr   ssa.Value  // pointer parameter
		}
		var stored []loc
		fresh := false
		seen := map[ssa.Value]bool{}
		var origin func(v ssa.Value)
		origin = func(v ssa.Value) {
			if v == nil || seen[v] {
				return
			}
			seen[v] = true
			switch x := v.(type) {
			case *ssa.Extract:
				if c, ok := x.Tuple.(*ssa.Call); ok && kit.CalleeOf(c).Name == "GenerateEphemeralKeypair" {
					fresh = true
				}
			case *ssa.Phi:
				for _, e := range x.Edges {
					origin(e)
				}
			case *ssa.UnOp:
				if x.Op != token.MUL {
					return
				}
				switch a := x.X.(type) {
				case *ssa.FieldAddr:
					if _, isLocal := a.X.(*ssa.Alloc); isLocal {
						// field of a local struct: follow its stores
						kit.Instrs(fn, func(in ssa.Instruction) {
							if st, ok := in.(*ssa.Store); ok {
								if fa, ok := st.Addr.(*ssa.FieldAddr); ok && fa.X == a.X && fa.Field == a.Field {
									origin(st.Val)
								}
							}
						})
						return
					}
					stored = append(stored, loc{field: kit.FieldOfAddr(a)})
				case *ssa.Alloc:
					kit.Instrs(fn, func(in ssa.Instruction) {
						if st, ok := in.(*ssa.Store); ok && st.Addr == a {
							origin(st.Val)
						}
					})
				case *ssa.Parameter:
					stored = append(stored, loc{ptr: a})
				}
			}
		}
		origin(kit.Arg(site, 0))
		if len(stored) == 0 {
			r.OK("C02.R6", key, pos, "private key operand is local to the invocation (fresh keypair=%v)", fresh)
			continue
		}
		// the consuming derivation(s) in the same function
		var derives []ssa.CallInstruction
		for _, c := range kit.Calls(fn) {
			if kit.CalleeOf(c).Is("internal/crypto", "", "DeriveSessionKey") {
				derives = append(derives, c)
			}
		}
		for _, l := range stored {
			zeroed := false
			for _, c := range kit.Calls(fn) {
				if !isZeroCall(c) || len(c.Common().Args) == 0 {
					continue
				}
				a0 := c.Common().Args[0]
				match := false
				if l.field != nil {
					if ar, ok := kit.AddrRange(a0); ok {
						if fa, ok := ar.Root.(*ssa.FieldAddr); ok && kit.FieldOfAddr(fa) == l.field {
							match = true
						}
					}
					if fa, ok := a0.(*ssa.FieldAddr); ok && kit.FieldOfAddr(fa) == l.field {
						match = true
					}
				} else if a0 == l.ptr {
					match = true
				} else if ar, ok := kit.AddrRange(a0); ok && ar.Root == l.ptr {
					match = true
				}
				if !match {
					continue
				}
				okAll := len(derives) > 0
				for _, d := range derives {
					if !kit.Precedes(c, d) {
						okAll = false
					}
				}
				if len(derives) == 0 {
					// no derivation here: the zeroing must at least follow the key agreement
					okAll = kit.CanReach(site, c)
				}
				if okAll {
					zeroed = true
				}
			}
			what := "pointer parameter"
			if l.field != nil {
				what = "field " + l.field.Name()
			}
			r.Decide(zeroed, "C02.R6", key+" consumes "+what, pos,
				"the stored private key is zeroed in place before the session key is derived",
				"the stored ephemeral private key ("+what+") is not zeroed in place before the session key is derived: a duplicated handshake reply re-derives the same key with send/receive counters reset to zero, so nonces are reused under one key")
		}
	}
}

// c02IsDerivation: fn is the key-derivation constructor (calls hkdf.New) or an unexported helper
// of internal/crypto all of whose static callers are (two levels).
func c02IsDerivation(p *kit.Program, fn *ssa.Function, depth int) bool {
	if kit.FuncPkgPath(fn) != kit.PkgPath("internal/crypto") {
		return false
	}
	if len(kit.CallsToDeep(fn, "golang.org/x/crypto/hkdf", "", "New")) > 0 {
		return true
	}
	// the constructor role: the function allocates the SessionKey it fills
	alloc := false
	kit.Instrs(fn, func(in ssa.Instruction) {
		if a, ok := in.(*ssa.Alloc); ok {
			if pt, ok := a.Type().(*types.Pointer); ok {
				if n, ok := pt.Elem().(*types.Named); ok && n.Obj().Name() == "SessionKey" && n.Obj().Pkg() != nil && n.Obj().Pkg().Path() == kit.PkgPath("internal/crypto") {
					alloc = true
				}
			}
		}
	})
	if alloc {
		return true
	}
	if depth >= 2 {
		return false
	}
	callers := p.StaticCallers(fn)
	if len(callers) == 0 {
		return false
	}
	for _, c := range callers {
		if !c02IsDerivation(p, kit.TopLevel(c.Parent()), depth+1) {
			// a helper shared with a sibling helper of the constructor (salt builder + expander)
			sib := false
			for _, cc := range p.StaticCallers(kit.TopLevel(c.Parent())) {
				if c02IsDerivation(p, kit.TopLevel(cc.Parent()), depth+1) {
					sib = true
				}
			}
			if !sib {
				return false
			}
		}
	}
	return true
}
