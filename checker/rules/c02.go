package rules

import (
	"fmt"
	"go/token"
	"go/types"

	"golang.org/x/tools/go/ssa"

	"mmverify/kit"
)

func init() {
	register(&Check{
		ID: "C02", Level: "other",
		Explain: "Decides that the send counter read that feeds the nonce and its increment form one mutex region in the method that calls cipher.AEAD.Seal, that the counter field has no other writer anywhere in the repository, that the nonce handed to Seal is produced inside that region and not modified afterwards, that the role byte and the counter bytes of the nonce are disjoint and the role byte differs between roles (send vs. receive builders mirror each other), and that the raw key never leaves the SessionKey methods. Uniqueness beyond 2^64 messages is not covered.",
		Run:     runC02,
		SelfTests: []SelfTest{
			{Name: "increment outside the critical section", ExpectRule: "C02.R1", Edits: []Edit{
				{File: "internal/crypto/crypto.go", Old: "\tnonce := s.buildSendNonce()\n\ts.sendNonce++\n\ts.mu.Unlock()\n", New: "\tnonce := s.buildSendNonce()\n\ts.mu.Unlock()\n\ts.sendNonce++\n"},
			}},
			{Name: "counter reset elsewhere", ExpectRule: "C02.R1", Edits: []Edit{
				{File: "internal/crypto/crypto.go", Old: "\tZeroKey(&s.key)\n", New: "\tZeroKey(&s.key)\n\ts.sendNonce = 1\n"},
			}},
			{Name: "role byte set for both roles", ExpectRule: "C02.R3", Edits: []Edit{
				{File: "internal/crypto/crypto.go", Old: "\tif !s.isInitiator {\n\t\t// Responder sends with high bit set\n\t\tnonce[0] = 0x80\n\t}", New: "\tnonce[0] = 0x80"},
			}},
			{Name: "role byte inside counter bytes", ExpectRule: "C02.R3", Edits: []Edit{
				{File: "internal/crypto/crypto.go", Old: "\t\t// Responder sends with high bit set\n\t\tnonce[0] = 0x80\n", New: "\t\tnonce[4] = 0x80\n"},
			}},
			{Name: "rewrite: deferred unlock, seal under the lock", Edits: []Edit{
				{File: "internal/crypto/crypto.go", Old: "\tnonce := s.buildSendNonce()\n\ts.sendNonce++\n\ts.mu.Unlock()\n", New: "\tdefer s.mu.Unlock()\n\tnonce := s.buildSendNonce()\n\ts.sendNonce++\n"},
			}},
		},
	})
}

func runC02(p *kit.Program, r *kit.Report) {
	r.Rule("C02.R1", "the send-counter read feeding the nonce and the counter increment are in one mutex region; the increment is +k (k>=1); no other store to the counter exists in the repository")
	r.Rule("C02.R2", "the nonce buffer handed to AEAD.Seal is written only inside that region")
	r.Rule("C02.R3", "the role byte lies outside the counter bytes, is non-zero for exactly one role, and the send and receive nonce builders use opposite role polarity for the same byte")
	r.Rule("C02.R5", "the key field is accessed only by SessionKey methods and the key-derivation constructor; the AEAD is constructed from it only in the sealing/opening methods; the key getter has no caller in non-test code")
	cx := newCryptoCtx(p, r)
	if cx == nil {
		return
	}
	fn, seal := cx.encrypt, cx.sealCall
	fname := kit.FuncName(fn)
	li := kit.Locks(fn)

	// nonce buffer handed to Seal (arg 1)
	nonceArg := kit.Arg(seal, 1)
	nr, ok := kit.AddrRange(nonceArg)
	if !r.Require(ok && nr.Root != nil, "anchor-unresolved: nonce argument of Seal has no constant buffer root") {
		return
	}
	// writers of the nonce buffer inside Encrypt
	type writer struct {
		in   ssa.Instruction
		from ssa.Value
	}
	var writers []writer
	kit.Instrs(fn, func(in ssa.Instruction) {
		switch x := in.(type) {
		case *ssa.Store:
			if ar, ok := kit.AddrRange(x.Addr); ok && ar.Root == nr.Root {
				writers = append(writers, writer{in, x.Val})
			}
		case ssa.CallInstruction:
			if x == ssa.CallInstruction(seal) {
				return
			}
			for i, a := range x.Common().Args {
				if ar, ok := kit.AddrRange(a); ok && ar.Root == nr.Root {
					cal := kit.CalleeOf(x)
					if cal.Built == "copy" && i == 1 {
						continue // read
					}
					if cal.Built == "len" || cal.Built == "cap" {
						continue
					}
					writers = append(writers, writer{in, nil})
				}
			}
		}
	})
	r.Count("nonce_buffer_writers", len(writers))

	// the counter field: uint64 SessionKey field read on the way to the nonce
	var counter *types.Var
	var counterRead ssa.Instruction // instruction in Encrypt that reads the counter for the nonce
	for _, w := range writers {
		if w.from == nil {
			continue
		}
		if c, _, ok := kit.ResultOf(w.from); ok {
			if cal := kit.CalleeOf(c); cal.Static != nil && cx.isSKMethod(cal.Static) {
				for f := range cx.fields {
					if b, ok := f.Type().(*types.Basic); ok && b.Kind() == types.Uint64 && cx.methodReads(cal.Static, f) {
						counter, counterRead = f, c
					}
				}
			}
		}
	}
	if counter == nil {
		// inline form: PutUint64(nonce[..], s.sendNonce)
		for _, w := range writers {
			if ci, ok := w.in.(ssa.CallInstruction); ok {
				for _, a := range ci.Common().Args {
					if f, _ := kit.LoadedField(a); f != nil && cx.fields[f] {
						counter, counterRead = f, a.(ssa.Instruction)
					}
				}
			}
		}
	}
	if !r.Require(counter != nil, "anchor-unresolved: no uint64 SessionKey field feeds the nonce handed to Seal") {
		return
	}

	// R1: increment in Encrypt, same region
	var incs []*ssa.Store
	kit.Instrs(fn, func(in ssa.Instruction) {
		if st, ok := in.(*ssa.Store); ok {
			if fa, ok := st.Addr.(*ssa.FieldAddr); ok && kit.FieldOfAddr(fa) == counter {
				incs = append(incs, st)
			}
		}
	})
	if len(incs) == 0 {
		r.Violation("C02.R1", fname+" counter increment", p.Pos(fn.Pos()), "the sealing method never advances %s: every message is sealed with the same nonce", counter.Name())
	}
	for i, st := range incs {
		key := fmt.Sprintf("%s increment %s #%d", fname, counter.Name(), i+1)
		okInc := false
		if b, ok := st.Val.(*ssa.BinOp); ok && b.Op == token.ADD {
			if k, isc := kit.ConstInt(b.Y); isc && k >= 1 {
				if f, _ := kit.LoadedField(b.X); f == counter {
					okInc = true
				}
			}
		}
		r.Decide(okInc, "C02.R1", key+" value", p.Pos(st.Pos()), "counter := counter + k, k>=1", "the counter store is not an increment of the counter by a positive constant")
		same := li.SameRegion(counterRead, st, cx.mu)
		r.Decide(same, "C02.R1", key+" region", p.Pos(st.Pos()),
			"nonce read and increment are in one mutex region",
			"the counter read that feeds the nonce and the increment are not in one critical section: two concurrent writers can seal with the same nonce")
	}
	// program-wide write set
	nOther := 0
	for _, acc := range p.FieldAccessesOfKind(counter, kit.FieldStore, kit.FieldAddrUse) {
		if acc.Fn == fn {
			continue
		}
		// zero-initialisation in a constructor literal is fine
		if acc.Kind == kit.FieldStore {
			if k, ok := kit.ConstInt(acc.Val); ok && k == 0 {
				continue
			}
		}
		nOther++
		r.Violation("C02.R1", fmt.Sprintf("%s other writer of %s #%d", kit.FuncName(acc.Fn), counter.Name(), nOther), p.Pos(acc.Instr.Pos()),
			"the send counter is written outside the sealing method: a reset or rewind re-uses nonces under the same key")
	}
	r.OK("C02.R1", "write-set of "+counter.Name(), p.Pos(fn.Pos()), "%d store(s) in the sealing method, %d elsewhere", len(incs), nOther)

	// R2: every writer of the nonce buffer is inside the region
	for i, w := range writers {
		_, held := li.HeldAt(w.in, cx.mu)
		r.Decide(held, "C02.R2", fmt.Sprintf("%s nonce buffer writer #%d", fname, i+1), p.Pos(w.in.Pos()),
			"written while the mutex is held", "the nonce handed to Seal is written outside the critical section that owns the counter")
	}
	if len(writers) == 0 {
		r.Violation("C02.R2", fname+" nonce buffer", p.Pos(seal.Pos()), "the nonce handed to Seal is never written: constant nonce")
	}

	// R3: role byte vs counter bytes
	type dirStore struct {
		m     *ssa.Function
		idx   int64
		val   int64
		onTru bool // stored when role field is true
	}
	var ds []dirStore
	counterLo := int64(-1)
	for _, m := range cx.methods {
		kit.Instrs(m, func(in ssa.Instruction) {
			switch x := in.(type) {
			case *ssa.Store:
				ia, ok := x.Addr.(*ssa.IndexAddr)
				if !ok {
					return
				}
				idx, ok := kit.ConstInt(ia.Index)
				if !ok {
					return
				}
				for _, g := range kit.GuardsOf(in) {
					if lf, _ := kit.LoadedField(g.Cond); lf == cx.isInit {
						v, _ := kit.ConstInt(x.Val)
						ds = append(ds, dirStore{m, idx, v, g.Polarity})
					}
				}
			case ssa.CallInstruction:
				cal := kit.CalleeOf(x)
				if cal.Name == "PutUint64" && m == calleeOfWriter(cx, writers) {
					if ar, ok := kit.AddrRange(kit.Arg(x, 0)); ok {
						counterLo = ar.Lo
					}
				}
			}
		})
	}
	if counterLo < 0 {
		// fall back: any PutUint64 in a SessionKey method that loads the counter
		for _, m := range cx.methods {
			if !cx.methodReads(m, counter) {
				continue
			}
			for _, c := range kit.Calls(m) {
				if kit.CalleeOf(c).Name == "PutUint64" {
					if ar, ok := kit.AddrRange(kit.Arg(c, 0)); ok {
						counterLo = ar.Lo
					}
				}
			}
		}
	}
	r.Require(counterLo >= 0, "anchor-unresolved: counter bytes of the nonce (PutUint64 into the nonce) not found")
	r.Count("role_byte_stores", len(ds))
	var sendTrue, sendFalse, recvTrue, recvFalse []dirStore
	for _, d := range ds {
		isSend := cx.methodReads(d.m, counter)
		switch {
		case isSend && d.onTru:
			sendTrue = append(sendTrue, d)
		case isSend && !d.onTru:
			sendFalse = append(sendFalse, d)
		case !isSend && d.onTru:
			recvTrue = append(recvTrue, d)
		default:
			recvFalse = append(recvFalse, d)
		}
		key := fmt.Sprintf("%s role byte [%d]", kit.FuncName(d.m), d.idx)
		ok := counterLo >= 0 && d.idx < counterLo && d.val != 0
		r.Decide(ok, "C02.R3", key, p.Pos(d.m.Pos()), fmt.Sprintf("role byte index %d is below the counter bytes (from %d) and its value %d is non-zero", d.idx, counterLo, d.val),
			"the role byte overlaps the counter bytes or is zero: both directions can produce the same nonce under the shared key")
	}
	// exactly one polarity on the send side, mirrored on the receive side
	sendOne := (len(sendTrue) > 0) != (len(sendFalse) > 0)
	r.Decide(sendOne, "C02.R3", "send nonce builder role polarity", p.Pos(fn.Pos()),
		"the role byte is set for exactly one role on the send side",
		"the send nonce builder sets the role byte for both roles or for none: the two directions share one nonce space")
	mirror := false
	if sendOne {
		s := append(sendTrue, sendFalse...)[0]
		var opp []dirStore
		if s.onTru {
			opp = recvFalse
		} else {
			opp = recvTrue
		}
		for _, o := range opp {
			if o.idx == s.idx && o.val == s.val {
				mirror = true
			}
		}
		if len(recvTrue)+len(recvFalse) == 0 {
			mirror = true // no separate receive builder (direction checked some other way: C01.R3 decides that)
		}
	}
	r.Decide(mirror, "C02.R3", "receive nonce builder mirrors send", p.Pos(cx.decrypt.Pos()),
		"the receive builder expects the role byte the opposite role sends",
		"the receive-side expected nonce does not mirror the send-side role byte")

	// R5: key confinement
	var keyFld *types.Var
	for f := range cx.fields {
		if a, ok := f.Type().Underlying().(*types.Array); ok && a.Len() == 32 {
			keyFld = f
		}
	}
	if r.Require(keyFld != nil, "anchor-unresolved: 32-byte key field of SessionKey") {
		n := 0
		for _, acc := range p.FieldAccesses(keyFld) {
			n++
			top := kit.TopLevel(acc.Fn)
			okAcc := cx.isSKMethod(top) || len(kit.CallsTo(top, "golang.org/x/crypto/hkdf", "", "New")) > 0
			if !okAcc {
				r.Violation("C02.R5", fmt.Sprintf("%s accesses key", kit.FuncName(acc.Fn)), p.Pos(acc.Instr.Pos()), "the session key is touched outside the SessionKey methods and the derivation constructor")
			}
		}
		r.Count("key_field_accesses", n)
		// AEAD construction sites
		for _, f := range p.RepoFuncs() {
			for _, c := range kit.Calls(f) {
				cal := kit.CalleeOf(c)
				if cal.Pkg == "golang.org/x/crypto/chacha20poly1305" && (cal.Name == "New" || cal.Name == "NewX") {
					top := kit.TopLevel(f)
					// only constructions whose key argument is the SessionKey key field
					ar, ok := kit.AddrRange(kit.Arg(c, 0))
					if !ok {
						continue
					}
					fa, isFA := ar.Root.(*ssa.FieldAddr)
					if !isFA || kit.FieldOfAddr(fa) != keyFld {
						continue // sealed boxes / management keys have their own keys
					}
					r.Decide(top == cx.encrypt || top == cx.decrypt, "C02.R5", "AEAD constructed in "+kit.FuncName(f), p.Pos(c.Pos()),
						"AEAD built from the session key only in the sealing/opening methods", "an AEAD is constructed from the session key outside the sealing/opening methods (nonce counter not shared)")
				}
			}
		}
		// getter returning the key: callers
		for _, m := range cx.methods {
			if m == cx.encrypt || m == cx.decrypt {
				continue
			}
			res := m.Signature.Results()
			if res.Len() == 1 && types.Identical(res.At(0).Type(), keyFld.Type()) {
				callers := p.StaticCallers(m)
				r.Decide(len(callers) == 0, "C02.R5", "callers of "+kit.FuncName(m), p.Pos(m.Pos()),
					"the raw-key getter has no caller in non-test code",
					fmt.Sprintf("the raw session key is extracted by %d non-test call site(s)", len(callers)))
			}
		}
		r.OK("C02.R5", "key field access set", p.Pos(fn.Pos()), "%d accesses, all inside SessionKey methods / constructor", n)
	}
}

// calleeOfWriter returns the SessionKey method whose result is stored into the nonce buffer.
func calleeOfWriter(cx *cryptoCtx, ws interface{}) *ssa.Function {
	type writer = struct {
		in   ssa.Instruction
		from ssa.Value
	}
	if l, ok := ws.([]writer); ok {
		for _, w := range l {
			if w.from == nil {
				continue
			}
			if c, _, ok := kit.ResultOf(w.from); ok {
				if cal := kit.CalleeOf(c); cal.Static != nil && cx.isSKMethod(cal.Static) {
					return cal.Static
				}
			}
		}
	}
	return nil
}
