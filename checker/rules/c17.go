package rules

import (
	"fmt"
	"go/token"
	"go/types"
	"sort"
	"strings"

	"golang.org/x/tools/go/ssa"

	"mmverify/kit"
)

// C17 — tunnel bookkeeping returns to empty.

func init() {
	register(&Check{
		ID: "C17", Level: "other", Patterns: []string{"./internal/agent"},
		Technique: "paired-write analysis in lock regions, exhaustiveness over fields, must-pass-through cleanup",
		Explain:   "Decides that every write of one relay index is paired with the same kind of write of the other index, in one write-lock region, keyed from the same entry (R1); that connCount of the exit and forward handlers moves by +1 with exactly one insertion, by -1 with exactly one deletion of a present key and is zeroed with every bulk reset, in one lock region (R2); that the peer-disconnect callback reaches a by-peer removal for every *relayTable field of Agent and for every frame-created table that records its peer (R3); and that a relay entry inserted by an open handler is deleted again on every path on which forwarding the open failed, and OPEN_ERR/CLOSE/RESET handlers call a peer-checked removing method of the same relay table (R4). Cleanup through idle timeouts and counter drift caused by key collisions (C16.R3) are not decided here.",
		Run:       runC17,
		SelfTests: []SelfTest{
			{Name: "Delete removes only the upstream index", ExpectRule: "C17.R1", ExpectKey: "relayTable).Delete", Edits: []Edit{
				{File: "internal/agent/relay_table.go", Old: "\tdelete(r.byUpstream, e.UpstreamID)\n\tdelete(r.byDownstream, e.DownstreamID)\n\tr.mu.Unlock()\n", New: "\tdelete(r.byUpstream, e.UpstreamID)\n\tr.mu.Unlock()\n"},
			}},
			{Name: "DeleteByPeer forgets the downstream index", ExpectRule: "C17.R1", ExpectKey: "DeleteByPeer", Edits: []Edit{
				{File: "internal/agent/relay_table.go", Old: "\t\t\tdelete(r.byUpstream, id)\n\t\t\tdelete(r.byDownstream, e.DownstreamID)\n\t\t\tn++\n", New: "\t\t\tdelete(r.byUpstream, id)\n\t\t\tn++\n"},
			}},
			{Name: "PopMatchingPeer deletes the downstream index under the upstream id", ExpectRule: "C17.R1", ExpectKey: "byDownstream", Edits: []Edit{
				{File: "internal/agent/relay_table.go", Old: "\t\tdelete(r.byUpstream, down.UpstreamID)\n\t\tdelete(r.byDownstream, down.DownstreamID)\n", New: "\t\tdelete(r.byUpstream, down.UpstreamID)\n\t\tdelete(r.byDownstream, down.UpstreamID)\n"},
			}},
			{Name: "Insert writes the second index after releasing the lock", ExpectRule: "C17.R1", ExpectKey: "relayTable).Insert", Edits: []Edit{
				{File: "internal/agent/relay_table.go", Old: "\tr.byUpstream[e.UpstreamID] = e\n\tr.byDownstream[e.DownstreamID] = e\n\tr.mu.Unlock()\n", New: "\tr.byUpstream[e.UpstreamID] = e\n\tr.mu.Unlock()\n\tr.mu.Lock()\n\tr.byDownstream[e.DownstreamID] = e\n\tr.mu.Unlock()\n"},
			}},
			{Name: "exit: connCount.Add(-1) skipped on removal", ExpectRule: "C17.R2", ExpectKey: "(*exit.Handler).removeConnection", Edits: []Edit{
				{File: "internal/exit/handler.go", Old: "\tdelete(h.connections, streamID)\n\th.connCount.Add(-1)\n", New: "\tdelete(h.connections, streamID)\n"},
			}},
			{Name: "forward: decrement without presence test", ExpectRule: "C17.R2", ExpectKey: "(*forward.Handler).removeConnection", Edits: []Edit{
				{File: "internal/forward/handler.go", Old: "\tac, ok := h.connections[streamID]\n\tif !ok {\n\t\treturn nil\n\t}\n\n\tdelete(h.connections, streamID)", New: "\tac := h.connections[streamID]\n\n\tdelete(h.connections, streamID)"},
			}},
			{Name: "exit: counter incremented outside the lock", ExpectRule: "C17.R2", ExpectKey: "(*exit.Handler).handleStreamOpenAsync", Edits: []Edit{
				{File: "internal/exit/handler.go", Old: "\th.connections[streamID] = ac\n\th.connCount.Add(1)\n\th.mu.Unlock()\n", New: "\th.connections[streamID] = ac\n\th.mu.Unlock()\n\th.connCount.Add(1)\n"},
			}},
			{Name: "forward: counter incremented before the dial", ExpectRule: "C17.R2", ExpectKey: "(*forward.Handler).handleStreamOpenAsync", Edits: []Edit{
				{File: "internal/forward/handler.go", Old: "\th.connections[streamID] = ac\n\th.connCount.Add(1)\n\th.mu.Unlock()\n", New: "\th.connections[streamID] = ac\n\th.mu.Unlock()\n"},
				{File: "internal/forward/handler.go", Old: "\t// Connect to target\n\tdialer := &net.Dialer{Timeout: h.cfg.ConnectTimeout}\n", New: "\th.connCount.Add(1)\n\tdialer := &net.Dialer{Timeout: h.cfg.ConnectTimeout}\n"},
			}},
			{Name: "forward: bulk reset keeps the counter", ExpectRule: "C17.R2", ExpectKey: "(*forward.Handler).Stop", Edits: []Edit{
				{File: "internal/forward/handler.go", Old: "\t\th.connections = make(map[uint64]*ActiveConnection)\n\t\th.connCount.Store(0)\n", New: "\t\th.connections = make(map[uint64]*ActiveConnection)\n"},
			}},
			{Name: "tcp relay no longer cleaned at disconnect", ExpectRule: "C17.R3", ExpectKey: "agent.Agent.tcpRelay", Edits: []Edit{
				{File: "internal/agent/agent.go", Old: "\t// Clean up relay streams involving this peer\n\ta.cleanupRelaysForPeer(peerID)\n", New: ""},
			}},
			{Name: "disconnect cleanup uses the local id", ExpectRule: "C17.R3", ExpectKey: "agent.Agent.tcpRelay", Edits: []Edit{
				{File: "internal/agent/agent.go", Old: "if cleaned := a.tcpRelay.DeleteByPeer(peerID); cleaned > 0 {", New: "if cleaned := a.tcpRelay.DeleteByPeer(a.id); cleaned > 0 {"},
			}},
			{Name: "disconnect cleanup skipped for clean disconnects (early return in front of it)", ExpectRule: "C17.R3", ExpectKey: "agent.Agent.", Edits: []Edit{
				{File: "internal/agent/agent.go", Old: "\t// Clean up relay streams involving this peer\n\ta.cleanupRelaysForPeer(peerID)\n", New: "\tif err == nil {\n\t\treturn\n\t}\n\ta.cleanupRelaysForPeer(peerID)\n"},
			}},
			{Name: "UDP relay cleanup only when the TCP table had entries", ExpectRule: "C17.R3", ExpectKey: "agent.Agent.udpRelay", Edits: []Edit{
				{File: "internal/agent/agent.go", Old: "\tif cleaned := a.udpRelay.DeleteByPeer(peerID); cleaned > 0 {", New: "\tif a.tcpRelay.LookupDownstream(0) == nil {\n\t\treturn\n\t}\n\tif cleaned := a.udpRelay.DeleteByPeer(peerID); cleaned > 0 {"},
			}},
			{Name: "DeleteByPeer matches the upstream side only", ExpectRule: "C17.R3", ExpectKey: "matches every recorded peer", Edits: []Edit{
				{File: "internal/agent/relay_table.go", Old: "if e.UpstreamPeer == peer || e.DownstreamPeer == peer {", New: "if e.UpstreamPeer == peer {"},
			}},
			{Name: "TCP relay entry kept when forwarding the open fails", ExpectRule: "C17.R4", ExpectKey: "handleStreamOpen", Edits: []Edit{
				{File: "internal/agent/agent.go", Old: "\t\t// Clean up relay entry on failure\n\t\ta.tcpRelay.Delete(relay)\n", New: ""},
			}},
			{Name: "UDP relay failure path deletes from the wrong table", ExpectRule: "C17.R4", ExpectKey: "handleUDPOpen", Edits: []Edit{
				{File: "internal/agent/udp.go", Old: "\t\ta.udpRelay.Delete(relay)\n", New: "\t\ta.tcpRelay.Delete(relay)\n"},
			}},
			{Name: "ICMP open error forwarded without removing the entry", ExpectRule: "C17.R4", ExpectKey: "handleICMPOpenErr", Edits: []Edit{
				{File: "internal/agent/icmp.go", Old: "if relay := a.icmpRelay.PopDownstreamFromPeer(frame.StreamID, peerID); relay != nil {", New: "if relay := a.icmpRelay.LookupDownstream(frame.StreamID); relay != nil && relay.DownstreamPeer == peerID {"},
			}},
			{Name: "UDP close pops from the TCP table", ExpectRule: "C17.R4", ExpectKey: "handleUDPClose", Edits: []Edit{
				{File: "internal/agent/udp.go", Old: "if entry, fromUpstream := a.udpRelay.PopMatchingPeer(frame.StreamID, peerID); entry != nil {", New: "if entry, fromUpstream := a.tcpRelay.PopMatchingPeer(frame.StreamID, peerID); entry != nil {"},
			}},
			{Name: "exit: record kept when the open acknowledgement cannot be sent", ExpectRule: "C17.R4", ExpectKey: "(*exit.Handler).handleStreamOpenAsync", Edits: []Edit{
				{File: "internal/exit/handler.go", Old: "\t\tac.Close()\n\t\th.removeConnection(streamID)\n\t\treturn\n", New: "\t\tac.Close()\n\t\treturn\n"},
			}},
			{Name: "udp: association kept when the open acknowledgement cannot be sent", ExpectRule: "C17.R4", ExpectKey: "(*udp.Handler).HandleUDPOpen", Edits: []Edit{
				{File: "internal/udp/handler.go", Old: "\t\th.removeAssociation(streamID)\n\t\treturn fmt.Errorf(\"send UDP_OPEN_ACK: %w\", err)\n", New: "\t\treturn fmt.Errorf(\"send UDP_OPEN_ACK: %w\", err)\n"},
			}},
			{Name: "seed class C17-a: one lookup with fallback, direction inferred from whichever peer matches", ExpectRule: "C17.R4", ExpectKey: "removal matches the sender's side", Edits: []Edit{
				{File: "internal/agent/relay_table.go", Old: "\tif up := r.byUpstream[streamID]; up != nil && up.UpstreamPeer == peer {\n\t\tdelete(r.byUpstream, up.UpstreamID)\n\t\tdelete(r.byDownstream, up.DownstreamID)\n\t\treturn up, true\n\t}\n\tif down := r.byDownstream[streamID]; down != nil && down.DownstreamPeer == peer {\n\t\tdelete(r.byUpstream, down.UpstreamID)\n\t\tdelete(r.byDownstream, down.DownstreamID)\n\t\treturn down, false\n\t}\n\treturn nil, false\n", New: "\te := r.byUpstream[streamID]\n\tif e == nil {\n\t\te = r.byDownstream[streamID]\n\t}\n\tif e == nil {\n\t\treturn nil, false\n\t}\n\tswitch peer {\n\tcase e.UpstreamPeer:\n\t\tfromUpstream = true\n\tcase e.DownstreamPeer:\n\t\tfromUpstream = false\n\tdefault:\n\t\treturn nil, false\n\t}\n\tdelete(r.byUpstream, e.UpstreamID)\n\tdelete(r.byDownstream, e.DownstreamID)\n\treturn e, fromUpstream\n"},
			}},
			{Name: "upstream hit of another peer ends the search", ExpectRule: "C17.R4", ExpectKey: "consults every index", Edits: []Edit{
				{File: "internal/agent/relay_table.go", Old: "\tif up := r.byUpstream[streamID]; up != nil && up.UpstreamPeer == peer {\n\t\tdelete(r.byUpstream, up.UpstreamID)\n\t\tdelete(r.byDownstream, up.DownstreamID)\n\t\treturn up, true\n\t}\n", New: "\tif up := r.byUpstream[streamID]; up != nil {\n\t\tif up.UpstreamPeer != peer {\n\t\t\treturn nil, false\n\t\t}\n\t\tdelete(r.byUpstream, up.UpstreamID)\n\t\tdelete(r.byDownstream, up.DownstreamID)\n\t\treturn up, true\n\t}\n"},
			}},
			{Name: "downstream hit validated against the upstream peer", ExpectRule: "C17.R4", ExpectKey: "byDownstream removal matches the sender's side", Edits: []Edit{
				{File: "internal/agent/relay_table.go", Old: "if down := r.byDownstream[streamID]; down != nil && down.DownstreamPeer == peer {", New: "if down := r.byDownstream[streamID]; down != nil && down.UpstreamPeer == peer {"},
			}},
			{Name: "OPEN_ERR pop accepts either recorded peer", ExpectRule: "C17.R4", ExpectKey: "byDownstream removal matches the sender's side", Edits: []Edit{
				{File: "internal/agent/relay_table.go", Old: "if e == nil || e.DownstreamPeer != peer {", New: "if e == nil || (e.DownstreamPeer != peer && e.UpstreamPeer != peer) {"},
			}},
			{Name: "rewrite: PopMatchingPeer looks both indices up first, then validates each side", Edits: []Edit{
				{File: "internal/agent/relay_table.go", Old: "\tif up := r.byUpstream[streamID]; up != nil && up.UpstreamPeer == peer {\n\t\tdelete(r.byUpstream, up.UpstreamID)\n\t\tdelete(r.byDownstream, up.DownstreamID)\n\t\treturn up, true\n\t}\n\tif down := r.byDownstream[streamID]; down != nil && down.DownstreamPeer == peer {\n\t\tdelete(r.byUpstream, down.UpstreamID)\n\t\tdelete(r.byDownstream, down.DownstreamID)\n\t\treturn down, false\n\t}\n\treturn nil, false\n", New: "\tup, down := r.byUpstream[streamID], r.byDownstream[streamID]\n\tswitch {\n\tcase up != nil && peer == up.UpstreamPeer:\n\t\tentry, fromUpstream = up, true\n\tcase down != nil && peer == down.DownstreamPeer:\n\t\tentry = down\n\tdefault:\n\t\treturn nil, false\n\t}\n\tdelete(r.byDownstream, entry.DownstreamID)\n\tdelete(r.byUpstream, entry.UpstreamID)\n\treturn entry, fromUpstream\n"},
			}},
			{Name: "rewrite: close handlers pop through a shared helper that takes the table", Edits: []Edit{
				{File: "internal/agent/udp.go", Old: "if entry, fromUpstream := a.udpRelay.PopMatchingPeer(frame.StreamID, peerID); entry != nil {", New: "if entry, fromUpstream := a.popRelay(a.udpRelay, frame.StreamID, peerID); entry != nil {"},
				{File: "internal/agent/udp.go", Old: "// sendUDPOpenErr is a helper to send a UDP_OPEN_ERR frame.", New: "func (a *Agent) popRelay(table *relayTable, id uint64, peer identity.AgentID) (*relayEntry, bool) {\n\treturn table.PopMatchingPeer(id, peer)\n}\n\n// sendUDPOpenErr is a helper to send a UDP_OPEN_ERR frame."},
			}},
			{Name: "rewrite: relay registration and failure cleanup through helpers taking the table", Edits: []Edit{
				{File: "internal/agent/icmp.go", Old: "\ta.icmpRelay.Insert(relay)\n", New: "\ta.trackRelay(a.icmpRelay, relay)\n"},
				{File: "internal/agent/icmp.go", Old: "\t\ta.icmpRelay.Delete(relay)\n", New: "\t\ta.untrackRelay(a.icmpRelay, relay)\n"},
				{File: "internal/agent/icmp.go", Old: "// handleICMPOpenAck processes", New: "func (a *Agent) trackRelay(table *relayTable, e *relayEntry) { table.Insert(e) }\n\nfunc (a *Agent) untrackRelay(table *relayTable, e *relayEntry) { table.Delete(e) }\n\n// handleICMPOpenAck processes"},
			}},
			{Name: "rewrite: DeleteByPeer predicate extracted, condition inverted with continue", Edits: []Edit{
				{File: "internal/agent/relay_table.go", Old: "\t\tif e.UpstreamPeer == peer || e.DownstreamPeer == peer {\n\t\t\tdelete(r.byUpstream, id)\n\t\t\tdelete(r.byDownstream, e.DownstreamID)\n\t\t\tn++\n\t\t}\n", New: "\t\tif !e.touchesPeer(peer) {\n\t\t\tcontinue\n\t\t}\n\t\tdelete(r.byUpstream, id)\n\t\tdelete(r.byDownstream, e.DownstreamID)\n\t\tn++\n"},
				{File: "internal/agent/relay_table.go", Old: "// relayTable is a thread-safe bidirectional index", New: "func (e *relayEntry) touchesPeer(p identity.AgentID) bool {\n\treturn e.UpstreamPeer == p || e.DownstreamPeer == p\n}\n\n// relayTable is a thread-safe bidirectional index"},
			}},
			{Name: "rewrite: exit connection registered through a trackConnection helper", Edits: []Edit{
				{File: "internal/exit/handler.go", Old: "\th.mu.Lock()\n\th.connections[streamID] = ac\n\th.connCount.Add(1)\n\th.mu.Unlock()\n", New: "\th.trackConnection(ac)\n"},
				{File: "internal/exit/handler.go", Old: "// HandleStreamData processes incoming stream data.", New: "func (h *Handler) trackConnection(ac *ActiveConnection) {\n\th.mu.Lock()\n\tdefer h.mu.Unlock()\n\th.connections[ac.StreamID] = ac\n\th.connCount.Add(1)\n}\n\n// HandleStreamData processes incoming stream data."},
			}},
			{Name: "rewrite: DeleteByPeer through maps.DeleteFunc", Edits: []Edit{
				{File: "internal/agent/relay_table.go", Old: "import (\n\t\"sync\"\n", New: "import (\n\t\"maps\"\n\t\"sync\"\n"},
				{File: "internal/agent/relay_table.go", Old: "\tfor id, e := range r.byUpstream {\n\t\tif e.UpstreamPeer == peer || e.DownstreamPeer == peer {\n\t\t\tdelete(r.byUpstream, id)\n\t\t\tdelete(r.byDownstream, e.DownstreamID)\n\t\t\tn++\n\t\t}\n\t}\n", New: "\tmaps.DeleteFunc(r.byUpstream, func(_ uint64, e *relayEntry) bool {\n\t\tif e.UpstreamPeer != peer && e.DownstreamPeer != peer {\n\t\t\treturn false\n\t\t}\n\t\tdelete(r.byDownstream, e.DownstreamID)\n\t\tn++\n\t\treturn true\n\t})\n"},
			}},
			{Name: "DeleteFunc callback forgets the downstream index", ExpectRule: "C17.R1", ExpectKey: "DeleteByPeer", Edits: []Edit{
				{File: "internal/agent/relay_table.go", Old: "import (\n\t\"sync\"\n", New: "import (\n\t\"maps\"\n\t\"sync\"\n"},
				{File: "internal/agent/relay_table.go", Old: "\tfor id, e := range r.byUpstream {\n\t\tif e.UpstreamPeer == peer || e.DownstreamPeer == peer {\n\t\t\tdelete(r.byUpstream, id)\n\t\t\tdelete(r.byDownstream, e.DownstreamID)\n\t\t\tn++\n\t\t}\n\t}\n", New: "\tmaps.DeleteFunc(r.byUpstream, func(_ uint64, e *relayEntry) bool {\n\t\tif e.UpstreamPeer != peer && e.DownstreamPeer != peer {\n\t\t\treturn false\n\t\t}\n\t\tn++\n\t\treturn true\n\t})\n"},
			}},
			{Name: "seed class C17-f: UDP open acknowledged before the association is registered", ExpectRule: "C17.R4", ExpectKey: "before the open ack", Edits: []Edit{
				{File: "internal/udp/handler.go", Old: "\t// Register association\n\th.mu.Lock()\n\th.associations[streamID] = assoc\n\th.byRequestID[open.RequestID] = assoc\n\th.mu.Unlock()\n", New: ""},
				{File: "internal/udp/handler.go", Old: "\tassoc.SetOpen()\n", New: "\th.mu.Lock()\n\th.associations[streamID] = assoc\n\th.byRequestID[open.RequestID] = assoc\n\th.mu.Unlock()\n\tassoc.SetOpen()\n"},
			}},
			{Name: "seed class C17-e: per-peer reference counter decremented by the idempotent Delete", ExpectRule: "C17.R2", ExpectKey: "decrements peerRefs only for a present entry", Edits: []Edit{
				{File: "internal/agent/relay_table.go", Old: "\tbyDownstream map[uint64]*relayEntry\n}\n", New: "\tbyDownstream map[uint64]*relayEntry\n\tpeerRefs     map[identity.AgentID]int\n}\n"},
				{File: "internal/agent/relay_table.go", Old: "\t\tbyDownstream: make(map[uint64]*relayEntry),\n", New: "\t\tbyDownstream: make(map[uint64]*relayEntry),\n\t\tpeerRefs:     make(map[identity.AgentID]int),\n"},
				{File: "internal/agent/relay_table.go", Old: "\tr.byDownstream[e.DownstreamID] = e\n\tr.mu.Unlock()\n", New: "\tr.byDownstream[e.DownstreamID] = e\n\tr.peerRefs[e.UpstreamPeer]++\n\tr.mu.Unlock()\n"},
				{File: "internal/agent/relay_table.go", Old: "\tdelete(r.byUpstream, e.UpstreamID)\n\tdelete(r.byDownstream, e.DownstreamID)\n\tr.mu.Unlock()\n", New: "\tdelete(r.byUpstream, e.UpstreamID)\n\tdelete(r.byDownstream, e.DownstreamID)\n\tr.peerRefs[e.UpstreamPeer]--\n\tr.mu.Unlock()\n"},
			}},
			{Name: "rewrite: per-peer reference counter decremented only after a presence test", Edits: []Edit{
				{File: "internal/agent/relay_table.go", Old: "\tbyDownstream map[uint64]*relayEntry\n}\n", New: "\tbyDownstream map[uint64]*relayEntry\n\tpeerRefs     map[identity.AgentID]int\n}\n"},
				{File: "internal/agent/relay_table.go", Old: "\t\tbyDownstream: make(map[uint64]*relayEntry),\n", New: "\t\tbyDownstream: make(map[uint64]*relayEntry),\n\t\tpeerRefs:     make(map[identity.AgentID]int),\n"},
				{File: "internal/agent/relay_table.go", Old: "\tr.byDownstream[e.DownstreamID] = e\n\tr.mu.Unlock()\n", New: "\tr.byDownstream[e.DownstreamID] = e\n\tr.peerRefs[e.UpstreamPeer]++\n\tr.mu.Unlock()\n"},
				{File: "internal/agent/relay_table.go", Old: "\tdelete(r.byUpstream, e.UpstreamID)\n\tdelete(r.byDownstream, e.DownstreamID)\n\tr.mu.Unlock()\n", New: "\tif r.byUpstream[e.UpstreamID] == e {\n\t\tr.unindexLocked(e)\n\t}\n\tr.mu.Unlock()\n"},
				{File: "internal/agent/relay_table.go", Old: "// LookupBoth returns the entries", New: "func (r *relayTable) unindexLocked(e *relayEntry) {\n\tdelete(r.byUpstream, e.UpstreamID)\n\tdelete(r.byDownstream, e.DownstreamID)\n\tr.peerRefs[e.UpstreamPeer]--\n}\n\n// LookupBoth returns the entries"},
			}},
			{Name: "rewrite: disconnect cleanup loops over the relay tables", Edits: []Edit{
				{File: "internal/agent/agent.go", Old: "\t// Clean up relay streams involving this peer\n\ta.cleanupRelaysForPeer(peerID)\n", New: "\tfor _, tab := range []*relayTable{a.tcpRelay, a.udpRelay, a.icmpRelay} {\n\t\ttab.DeleteByPeer(peerID)\n\t}\n"},
			}},
			{Name: "rewrite: index deletes extracted into a helper called with the lock held", Edits: []Edit{
				{File: "internal/agent/relay_table.go", Old: "\tr.mu.Lock()\n\tdelete(r.byUpstream, e.UpstreamID)\n\tdelete(r.byDownstream, e.DownstreamID)\n\tr.mu.Unlock()\n}\n", New: "\tr.mu.Lock()\n\tr.removeLocked(e)\n\tr.mu.Unlock()\n}\n\nfunc (r *relayTable) removeLocked(e *relayEntry) {\n\tdelete(r.byUpstream, e.UpstreamID)\n\tdelete(r.byDownstream, e.DownstreamID)\n}\n"},
				{File: "internal/agent/relay_table.go", Old: "\tif e == nil || e.DownstreamPeer != peer {\n\t\treturn nil\n\t}\n\tdelete(r.byUpstream, e.UpstreamID)\n\tdelete(r.byDownstream, e.DownstreamID)\n\treturn e\n", New: "\tif e == nil || e.DownstreamPeer != peer {\n\t\treturn nil\n\t}\n\tr.removeLocked(e)\n\treturn e\n"},
			}},
			{Name: "rewrite: deferred unlock and swapped order in Delete", Edits: []Edit{
				{File: "internal/agent/relay_table.go", Old: "\tr.mu.Lock()\n\tdelete(r.byUpstream, e.UpstreamID)\n\tdelete(r.byDownstream, e.DownstreamID)\n\tr.mu.Unlock()\n", New: "\tr.mu.Lock()\n\tdefer r.mu.Unlock()\n\tdelete(r.byDownstream, e.DownstreamID)\n\tdelete(r.byUpstream, e.UpstreamID)\n"},
			}},
			{Name: "rewrite: counter bumped before the insertion, deferred unlock", Edits: []Edit{
				{File: "internal/exit/handler.go", Old: "\th.mu.Lock()\n\th.connections[streamID] = ac\n\th.connCount.Add(1)\n\th.mu.Unlock()\n", New: "\tfunc() {\n\t\th.mu.Lock()\n\t\tdefer h.mu.Unlock()\n\t\th.connCount.Add(1)\n\t\th.connections[streamID] = ac\n\t}()\n"},
			}},
			{Name: "rewrite: presence test written with a nil comparison", Edits: []Edit{
				{File: "internal/forward/handler.go", Old: "\tac, ok := h.connections[streamID]\n\tif !ok {\n\t\treturn nil\n\t}\n", New: "\tac := h.connections[streamID]\n\tif ac == nil {\n\t\treturn nil\n\t}\n"},
			}},
			{Name: "rewrite: relay cleanup inlined into the disconnect callback", Edits: []Edit{
				{File: "internal/agent/agent.go", Old: "\t// Clean up relay streams involving this peer\n\ta.cleanupRelaysForPeer(peerID)\n", New: "\ta.cleanupRelaysForPeer(conn.RemoteID)\n"},
			}},
			{Name: "rewrite: failure cleanup before logging", Edits: []Edit{
				{File: "internal/agent/udp.go", Old: "\t\ta.logger.Debug(\"failed to relay UDP_OPEN\",\n\t\t\t\"error\", err,\n\t\t\t\"next_hop\", nextHop.ShortString())\n\n\t\t// Clean up relay entry\n\t\ta.udpRelay.Delete(relay)\n", New: "\t\ta.udpRelay.Delete(relay)\n\t\ta.logger.Debug(\"failed to relay UDP_OPEN\",\n\t\t\t\"error\", err,\n\t\t\t\"next_hop\", nextHop.ShortString())\n"},
			}},
			{Name: "rewrite: success returns early, failure handled in else", Edits: []Edit{
				{File: "internal/agent/agent.go", Old: "\tif err := a.peerMgr.SendToPeer(nextHop, fwdFrame); err != nil {\n\t\t// Clean up relay entry on failure\n\t\ta.tcpRelay.Delete(relay)\n", New: "\tif err := a.peerMgr.SendToPeer(nextHop, fwdFrame); err == nil {\n\t\treturn\n\t} else {\n\t\t// Clean up relay entry on failure\n\t\ta.tcpRelay.Delete(relay)\n"},
			}},
		},
	})
}

// ---------------------------------------------------------------------------------------------
// helpers
// ---------------------------------------------------------------------------------------------

// c17MustFollow: once a has executed, b executes before the function returns on every path.
func c17MustFollow(a, b ssa.Instruction) bool {
	fn := a.Parent()
	avoid := map[ssa.Instruction]bool{b: true}
	for _, ret := range kit.Returns(fn) {
		if ret.Block() == fn.Recover || ssa.Instruction(ret) == b {
			continue
		}
		if kit.CanReachAvoiding(a, ret, avoid) {
			return false
		}
	}
	return true
}

// c17Paired: a and b are executed together: one precedes the other on every path and the later
// one follows on every path to a return.
func c17Paired(a, b ssa.Instruction) bool {
	if a.Parent() != b.Parent() {
		return false
	}
	if kit.Precedes(a, b) {
		return c17MustFollow(a, b)
	}
	if kit.Precedes(b, a) {
		return c17MustFollow(b, a)
	}
	return false
}

// c17WriteRegion: both instructions lie in one region of some mutex that is acquired with Lock
// (not RLock). Returns the mutex name.
func c17WriteRegion(li *kit.LockInfo, a, b ssa.Instruction) (string, bool) {
	first, second := a, b
	if kit.Precedes(b, a) {
		first, second = b, a
	}
	for _, mu := range li.AnyHeldAt(first) {
		acq, held := li.HeldAt(first, mu)
		if !held || acq == nil {
			continue
		}
		if c, ok := acq.(ssa.CallInstruction); !ok || kit.CalleeOf(c).Name != "Lock" {
			continue
		}
		if li.SameRegion(first, second, mu) {
			return mu.Name(), true
		}
	}
	return "", false
}

// c17Together: a and b lie in one write-lock region of their function, or the function takes no
// lock itself (a "…Locked" helper) and every static call site of it holds a write lock.
func c17Together(p *kit.Program, li *kit.LockInfo, a, b ssa.Instruction) bool {
	if _, ok := c17WriteRegion(li, a, b); ok {
		return true
	}
	fn := a.Parent()
	if len(li.Ops) > 0 {
		return false
	}
	if par := fn.Parent(); par != nil {
		// a closure handed to a call (maps.DeleteFunc(index, func…), a locked helper taking a
		// callback) runs inside the critical section in which that call is made
		pli := kit.Locks(par)
		ok := false
		kit.Instrs(par, func(in ssa.Instruction) {
			mc, isMC := in.(*ssa.MakeClosure)
			if !isMC || mc.Fn != fn || mc.Referrers() == nil {
				return
			}
			for _, rf := range *mc.Referrers() {
				c, isCall := rf.(*ssa.Call)
				if !isCall {
					continue
				}
				for _, mu := range pli.AnyHeldAt(c) {
					if acq, held := pli.HeldAt(c, mu); held && acq != nil {
						if lc, isL := acq.(ssa.CallInstruction); isL && kit.CalleeOf(lc).Name == "Lock" {
							ok = true
						}
					}
				}
			}
		})
		return ok
	}
	sites := p.StaticCallers(fn)
	if len(sites) == 0 {
		return false
	}
	for _, site := range sites {
		cli := kit.Locks(site.Parent())
		held := false
		for _, mu := range cli.AnyHeldAt(site) {
			if acq, ok := cli.HeldAt(site, mu); ok && acq != nil {
				if c, isCall := acq.(ssa.CallInstruction); isCall && kit.CalleeOf(c).Name == "Lock" {
					held = true
				}
			}
		}
		if !held {
			return false
		}
	}
	return true
}

func c17IsSyncMutex(t types.Type) bool {
	n, ok := t.(*types.Named)
	return ok && n.Obj().Pkg() != nil && n.Obj().Pkg().Path() == "sync" && (n.Obj().Name() == "Mutex" || n.Obj().Name() == "RWMutex")
}

func c17Ord(m map[string]int, k string) string {
	m[k]++
	return fmt.Sprintf("%s#%d", k, m[k])
}

// c17FieldLoadOf: v is a load of field f of some base → base.
func c17FieldLoadOf(v ssa.Value, f *types.Var) (ssa.Value, bool) {
	lf, base := kit.LoadedField(v)
	if lf != nil && lf == f {
		return base, true
	}
	return nil, false
}

func runC17(p *kit.Program, r *kit.Report) {
	r.Rule("C17.R1", "paired indices: every insertion into / deletion from one relay index is executed together with the same kind of write of every other index, in one write-lock region, with keys taken from the same entry; each index is always keyed by the same entry field")
	r.Rule("C17.R2", "paired counters: in exit.Handler and forward.Handler connCount.Add(+1) goes with exactly one insertion into connections, Add(-1) with exactly one deletion of a key known to be present, Store(0) with every bulk reset — each pair in one lock region")
	r.Rule("C17.R3", "disconnect coverage: for every *relayTable field of Agent the by-peer removal is called on it with the disconnected peer in code reachable from the OnPeerDisconnect callback; every frame-created table that records its peer has a removal reachable from that callback")
	r.Rule("C17.R4", "failure cleanup: a relay entry inserted by an open handler is deleted from the same table on every path on which forwarding the open returned an error; OPEN_ERR, CLOSE and RESET handlers call a peer-checked removing method of the family's relay table")
	cx := c16NewCtx(p)
	rt := p.NamedType("internal/agent", "relayTable")
	agent := p.NamedType("internal/agent", "Agent")
	if !r.Require(rt != nil, "anchor-unresolved: type internal/agent.relayTable") || !r.Require(agent != nil, "anchor-unresolved: type internal/agent.Agent") {
		return
	}
	c17R1(p, r, rt)
	c17R2(p, r, "internal/exit")
	c17R2(p, r, "internal/forward")
	c17R3(p, r, cx, rt, agent)
	c17R4(p, r, rt, agent)
	c17R4Handlers(p, r)
	c17R4RelaySide(p, r, cx, rt)
	c17R4AckOrder(p, r)
	c17R2Derived(p, r, rt)
	r.Note("R5 (dependency): DeleteByPeer walks one index and relies on 'every entry is in both indices'; that invariant additionally needs C16.R3 (no clobbering insertion), reported by C16. Counter drift caused by inserting over an existing key is likewise C16.R3.")
}

// ---------------------------------------------------------------------------------------------
// R1 — paired relay indices
// ---------------------------------------------------------------------------------------------

type c17Write struct {
	acc      kit.FieldAccess
	field    *types.Var
	root     ssa.Value  // the entry (or range iterator) the key is taken from; nil when not entry-derived
	keyField *types.Var // entry field used as key (nil for a range key)
	rangeKey bool
}

func c17RelayIndexes(rt *types.Named) (idx []*types.Var, entry types.Type) {
	for _, f := range kit.StructFields(rt) {
		m, ok := f.Type().Underlying().(*types.Map)
		if !ok {
			continue
		}
		if pt, ok := m.Elem().(*types.Pointer); ok {
			if _, isStruct := pt.Elem().Underlying().(*types.Struct); isStruct {
				idx = append(idx, f)
				entry = m.Elem()
			}
		}
	}
	return
}

func c17KeyRoot(key ssa.Value, entry types.Type) (root ssa.Value, keyField *types.Var, rangeKey bool) {
	key = c16Strip(key)
	if f, base := kit.LoadedField(key); f != nil && base != nil && types.Identical(base.Type(), entry) {
		if e, ok := base.(*ssa.Extract); ok {
			if nx, isNext := e.Tuple.(*ssa.Next); isNext {
				return nx, f, false
			}
		}
		// a local variable holding the entry (named result, captured local): the variable is the root
		if ld, ok := base.(*ssa.UnOp); ok && ld.Op == token.MUL {
			if a, isAlloc := ld.X.(*ssa.Alloc); isAlloc {
				return a, f, false
			}
		}
		return base, f, false
	}
	if e, ok := key.(*ssa.Extract); ok && e.Index == 1 {
		if nx, isNext := e.Tuple.(*ssa.Next); isNext {
			return nx, nil, true
		}
	}
	return nil, nil, false
}

func c17R1(p *kit.Program, r *kit.Report, rt *types.Named) {
	idx, entry := c17RelayIndexes(rt)
	if !r.Require(len(idx) >= 2, "anchor-unresolved: relayTable has %d map-of-entry index fields (need >= 2)", len(idx)) {
		return
	}
	byFn := map[*ssa.Function][]c17Write{}
	var fns []*ssa.Function
	for _, f := range idx {
		for _, acc := range p.FieldAccessesOfKind(f, kit.MapInsert, kit.MapDelete) {
			w := c17Write{acc: acc, field: f}
			w.root, w.keyField, w.rangeKey = c17KeyRoot(acc.Key, entry)
			if _, seen := byFn[acc.Fn]; !seen {
				fns = append(fns, acc.Fn)
			}
			byFn[acc.Fn] = append(byFn[acc.Fn], w)
		}
	}
	// maps.DeleteFunc(index, func(k, e) bool): each "return true" of the closure is a deletion
	// of the visited entry e from that index
	for _, site := range c17DeleteFuncSites(p, idx) {
		g := site.closure
		if !types.Identical(g.Params[1].Type(), entry) {
			continue
		}
		for _, ret := range kit.Returns(g) {
			if len(ret.Results) != 1 {
				continue
			}
			if b, isConst := kit.ConstBool(kit.ReturnResult(ret, 0)); isConst && !b {
				continue
			}
			w := c17Write{acc: kit.FieldAccess{Kind: kit.MapDelete, Field: site.field, Fn: g, Instr: ret}, field: site.field, root: g.Params[1], rangeKey: true}
			if _, seen := byFn[g]; !seen {
				fns = append(fns, g)
			}
			byFn[g] = append(byFn[g], w)
		}
	}
	sort.Slice(fns, func(i, j int) bool { return kit.FuncName(fns[i]) < kit.FuncName(fns[j]) })
	r.Count("relay_index_fields", len(idx))
	r.Count("relay_index_writers", len(fns))
	r.Require(len(fns) >= 1, "floor: no function writes the relay indices")
	keyFields := map[*types.Var]map[*types.Var]bool{}
	for _, fn := range fns {
		li := kit.Locks(fn)
		ord := map[string]int{}
		for _, w := range byFn[fn] {
			kind := "insert"
			if w.acc.Kind == kit.MapDelete {
				kind = "delete"
			}
			key := kit.FuncName(fn) + " " + c17Ord(ord, kind+" "+w.field.Name())
			pos := p.Pos(w.acc.Instr.Pos())
			if w.root == nil {
				r.Violation("C17.R1", key, pos, "the key of this index write is not taken from a relay entry: the two indices cannot be kept in step")
				continue
			}
			if w.keyField != nil {
				if keyFields[w.field] == nil {
					keyFields[w.field] = map[*types.Var]bool{}
				}
				keyFields[w.field][w.keyField] = true
			}
			var missing []string
			for _, other := range idx {
				if other == w.field {
					continue
				}
				found := false
				for _, w2 := range byFn[fn] {
					if w2.field != other || w2.acc.Kind != w.acc.Kind || w2.root != w.root {
						continue
					}
					if !c17Paired(w.acc.Instr, w2.acc.Instr) {
						continue
					}
					if !c17Together(p, li, w.acc.Instr, w2.acc.Instr) {
						continue
					}
					found = true
				}
				if !found {
					missing = append(missing, other.Name())
				}
			}
			r.Decide(len(missing) == 0, "C17.R1", key, pos,
				"executed together with the same write of the other index, same entry, one write-lock region",
				fmt.Sprintf("no matching %s of %s for the same entry in the same write-lock region on every path: an entry stays in (or is missing from) one index, so it is never found again or never removed", kind, strings.Join(missing, ", ")))
		}
	}
	// each index is keyed by one entry field, and different indices by different fields
	used := map[*types.Var]*types.Var{}
	for _, f := range idx {
		var names []string
		for kf := range keyFields[f] {
			names = append(names, kf.Name())
		}
		sort.Strings(names)
		ok := len(names) == 1
		if ok {
			for kf := range keyFields[f] {
				if prev, dup := used[kf]; dup && prev != f {
					ok = false
				}
				used[kf] = f
			}
		}
		r.Decide(ok, "C17.R1", "relayTable."+f.Name()+" key field", p.Pos(f.Pos()),
			"always keyed by entry field "+strings.Join(names, ","),
			fmt.Sprintf("index %s is written under entry fields {%s}: an entry inserted under one field is deleted under another and stays behind", f.Name(), strings.Join(names, ", ")))
	}
}

// ---------------------------------------------------------------------------------------------
// R2 — paired counters
// ---------------------------------------------------------------------------------------------

type c17Event struct {
	in    ssa.Instruction
	kind  string // "insert", "delete", "reset" for table events; "add+1", "add-1", "store0", "other" for counter events
	key   ssa.Value
	label string
}

func c17R2(p *kit.Program, r *kit.Report, pkg string) {
	short := strings.TrimPrefix(pkg, "internal/")
	h := p.NamedType(pkg, "Handler")
	if !r.Require(h != nil, "anchor-unresolved: type %s.Handler", pkg) {
		return
	}
	var table, counter *types.Var
	for _, t := range c16Tables {
		if t.Pkg == pkg && t.Type == "Handler" && t.Class == c16PerConn {
			table = p.Field(pkg, "Handler", t.Field)
		}
	}
	for _, f := range kit.StructFields(h) {
		if n, ok := f.Type().(*types.Named); ok && n.Obj().Pkg() != nil && n.Obj().Pkg().Path() == "sync/atomic" && (n.Obj().Name() == "Int64" || n.Obj().Name() == "Int32") {
			// the connection counter: an atomic integer on which Add is called
			for _, acc := range p.FieldAccessesOfKind(f, kit.FieldAddrUse) {
				if c, ok := acc.Instr.(ssa.CallInstruction); ok && kit.CalleeOf(c).Name == "Add" {
					counter = f
				}
			}
		}
	}
	if !r.Require(table != nil, "anchor-unresolved: connection table of %s.Handler", short) || !r.Require(counter != nil, "anchor-unresolved: atomic connection counter of %s.Handler", short) {
		return
	}
	tabEv := map[*ssa.Function][]c17Event{}
	cntEv := map[*ssa.Function][]c17Event{}
	fnSet := map[*ssa.Function]bool{}
	for _, acc := range p.FieldAccesses(table) {
		switch acc.Kind {
		case kit.MapInsert:
			tabEv[acc.Fn] = append(tabEv[acc.Fn], c17Event{acc.Instr, "insert", acc.Key, "insert " + table.Name()})
		case kit.MapDelete:
			tabEv[acc.Fn] = append(tabEv[acc.Fn], c17Event{acc.Instr, "delete", acc.Key, "delete " + table.Name()})
		case kit.FieldClear:
			tabEv[acc.Fn] = append(tabEv[acc.Fn], c17Event{acc.Instr, "reset", nil, "reset " + table.Name()})
		case kit.FieldStore:
			if _, fresh := acc.Base.(*ssa.Alloc); fresh {
				continue // constructor literal
			}
			tabEv[acc.Fn] = append(tabEv[acc.Fn], c17Event{acc.Instr, "reset", nil, "reset " + table.Name()})
		default:
			continue
		}
		fnSet[acc.Fn] = true
	}
	for _, acc := range p.FieldAccessesOfKind(counter, kit.FieldAddrUse, kit.FieldStore) {
		c, ok := acc.Instr.(ssa.CallInstruction)
		if !ok {
			if acc.Kind == kit.FieldStore {
				if _, fresh := acc.Base.(*ssa.Alloc); fresh {
					continue
				}
				cntEv[acc.Fn] = append(cntEv[acc.Fn], c17Event{acc.Instr, "other", nil, counter.Name() + " overwritten"})
				fnSet[acc.Fn] = true
			}
			continue
		}
		cal := kit.CalleeOf(c)
		ev := c17Event{in: acc.Instr, kind: "other", label: counter.Name() + "." + cal.Name}
		switch cal.Name {
		case "Load":
			continue
		case "Add":
			if k, isc := kit.ConstInt(kit.Arg(c, 0)); isc && k == 1 {
				ev.kind, ev.label = "add+1", counter.Name()+".Add(+1)"
			} else if isc && k == -1 {
				ev.kind, ev.label = "add-1", counter.Name()+".Add(-1)"
			}
		case "Store":
			if k, isc := kit.ConstInt(kit.Arg(c, 0)); isc && k == 0 {
				ev.kind, ev.label = "store0", counter.Name()+".Store(0)"
			}
		}
		cntEv[acc.Fn] = append(cntEv[acc.Fn], ev)
		fnSet[acc.Fn] = true
	}
	var fns []*ssa.Function
	for fn := range fnSet {
		fns = append(fns, fn)
	}
	sort.Slice(fns, func(i, j int) bool { return kit.FuncName(fns[i]) < kit.FuncName(fns[j]) })
	want := map[string]string{"insert": "add+1", "delete": "add-1", "reset": "store0", "add+1": "insert", "add-1": "delete", "store0": "reset"}
	nIns, nDel := 0, 0
	for _, fn := range fns {
		li := kit.Locks(fn)
		ord := map[string]int{}
		judge := func(ev c17Event, partners []c17Event) {
			key := kit.FuncName(fn) + " " + c17Ord(ord, ev.label)
			pos := p.Pos(ev.in.Pos())
			if ev.kind == "other" {
				r.Violation("C17.R2", key, pos, "the connection counter is changed by something other than Add(+1), Add(-1) or Store(0): it no longer equals the number of tracked connections")
				return
			}
			n := 0
			for _, pe := range partners {
				if pe.kind != want[ev.kind] || !c17Paired(ev.in, pe.in) {
					continue
				}
				if !c17Together(p, li, ev.in, pe.in) {
					continue
				}
				n++
			}
			ok := n == 1
			detail := fmt.Sprintf("%d matching %s executed together with it in one lock region (need exactly 1)", n, want[ev.kind])
			if ok && (ev.kind == "delete" || ev.kind == "add-1") {
				// the deleted key must be known to be present
				del := ev
				if ev.kind == "add-1" {
					for _, pe := range partners {
						if pe.kind == "delete" && c17Paired(ev.in, pe.in) {
							del = pe
						}
					}
				}
				if !c17PresentGuard(p, li, del, table) {
					ok = false
					detail = "the deletion is not dominated by a presence test of the same key in the same lock region: closing an unknown or already closed stream decrements the counter again"
				}
			}
			r.Decide(ok, "C17.R2", key, pos, detail, detail+": connCount drifts away from len(connections), so MaxConnections is consumed by (or ignores) tunnels that do not exist")
		}
		for _, ev := range tabEv[fn] {
			if ev.kind == "insert" {
				nIns++
			}
			if ev.kind == "delete" {
				nDel++
			}
			judge(ev, cntEv[fn])
		}
		for _, ev := range cntEv[fn] {
			judge(ev, tabEv[fn])
		}
	}
	r.Count(short+"_connection_inserts", nIns)
	r.Count(short+"_connection_deletes", nDel)
	r.Require(nIns >= 1 && nDel >= 1, "floor: %s.Handler has %d insertion(s) and %d deletion(s) of %s", short, nIns, nDel, table.Name())
}

// c17PresentGuard: the deletion is dominated by "key is present" (comma-ok or non-nil lookup of
// the same key in the same table) inside the same lock region.
func c17PresentGuard(p *kit.Program, li *kit.LockInfo, del c17Event, table *types.Var) bool {
	// the key of a range over the same table is present by construction
	if e, ok := c16Strip(del.key).(*ssa.Extract); ok && e.Index == 1 {
		if nx, isNext := e.Tuple.(*ssa.Next); isNext {
			if rg, isRange := nx.Iter.(*ssa.Range); isRange {
				for _, leaf := range kit.PhiLeaves(rg.X) {
					if f, _ := kit.LoadedField(leaf); f == table {
						return true
					}
				}
			}
		}
	}
	for _, g := range kit.GuardsOf(del.in) {
		// presence is the negation of absence
		lk, ok := c16AbsentGuard(kit.Guard{Cond: g.Cond, Polarity: !g.Polarity, If: g.If}, table, del.key)
		if !ok {
			continue
		}
		if c17Together(p, li, lk, del.in) {
			return true
		}
	}
	return false
}

// ---------------------------------------------------------------------------------------------
// R3 — disconnect coverage
// ---------------------------------------------------------------------------------------------

// c17DisconnectHandlers finds the functions installed as peer.ManagerConfig.OnPeerDisconnect.
func c17DisconnectHandlers(p *kit.Program) []*ssa.Function {
	f := p.Field("internal/peer", "ManagerConfig", "OnPeerDisconnect")
	if f == nil {
		return nil
	}
	var out []*ssa.Function
	for _, acc := range p.FieldAccessesOfKind(f, kit.FieldStore) {
		var fn *ssa.Function
		switch v := acc.Val.(type) {
		case *ssa.MakeClosure:
			fn, _ = v.Fn.(*ssa.Function)
		case *ssa.Function:
			fn = v
		}
		if fn == nil {
			continue
		}
		if fn.Synthetic != "" {
			// bound-method wrapper: the method it calls
			var target *ssa.Function
			for _, c := range kit.Calls(fn) {
				if cal := kit.CalleeOf(c); cal.Static != nil {
					target = cal.Static
				}
			}
			if target == nil {
				name := strings.TrimSuffix(fn.Name(), "$bound")
				if sig := fn.Signature; sig != nil {
					target = p.Func("internal/agent", "Agent", name)
				}
			}
			fn = target
		}
		if fn != nil {
			out = append(out, fn)
		}
	}
	return out
}

func c17StaticReach(roots []*ssa.Function) map[*ssa.Function]bool {
	seen := map[*ssa.Function]bool{}
	work := append([]*ssa.Function{}, roots...)
	for len(work) > 0 {
		fn := work[len(work)-1]
		work = work[:len(work)-1]
		if fn == nil || seen[fn] {
			continue
		}
		seen[fn] = true
		work = append(work, fn.AnonFuncs...)
		for _, c := range kit.Calls(fn) {
			if cal := kit.CalleeOf(c); cal.Static != nil && cal.Static.Blocks != nil && kit.IsRepoPkg(kit.FuncPkgPath(cal.Static)) {
				work = append(work, cal.Static)
			}
		}
	}
	return seen
}

// c17DisconnectedPeer: v is the id of the peer whose connection went away: an AgentID parameter
// or the AgentID field of a *peer.Connection.
func c17DisconnectedPeer(v ssa.Value) bool {
	for _, leaf := range kit.PhiLeaves(v) {
		switch x := leaf.(type) {
		case *ssa.Parameter:
			if !c16IsAgentID(x.Type()) {
				return false
			}
		default:
			f, base := kit.LoadedField(leaf)
			if f == nil || !c16IsAgentID(f.Type()) {
				return false
			}
			t := base.Type()
			if pt, ok := t.(*types.Pointer); ok {
				t = pt.Elem()
			}
			n, ok := t.(*types.Named)
			if !ok || n.Obj().Name() != "Connection" || n.Obj().Pkg() == nil || n.Obj().Pkg().Path() != kit.PkgPath("internal/peer") {
				return false
			}
		}
	}
	return true
}

// c17Unconditional: the call is executed on every run of its function: no return is reachable
// from the entry without passing the call's block. A call inside a loop body is accepted (the
// loop ranges over a fixed list of tables in the idiom this is meant for).
func c17Unconditional(c ssa.CallInstruction) bool {
	fn := c.Parent()
	if len(fn.Blocks) == 0 {
		return false
	}
	cb := c.Block()
	if cb == fn.Blocks[0] {
		return true
	}
	if kit.CanReach(c, c) {
		return true // loop body
	}
	reach := kit.Reach(fn.Blocks[0], nil, map[*ssa.BasicBlock]bool{cb: true})
	for _, ret := range kit.Returns(fn) {
		if ret.Block() == fn.Recover || ret.Block() == cb {
			continue
		}
		if reach[ret.Block()] {
			return false
		}
	}
	return true
}

// c17FieldsBehind lists the struct fields (of v's type) a value can have been loaded from:
// directly, through phis, or after travelling through local aggregates — an array/slice literal
// of tables, a table of struct{table, msg} rows ranged over, a local copy of a row. Local
// aggregates are followed flow-insensitively through every store into them.
func c17FieldsBehind(v ssa.Value) []*types.Var {
	if v == nil {
		return nil
	}
	want := v.Type()
	var out []*types.Var
	seen := map[ssa.Value]bool{}
	var visit func(x ssa.Value)
	// every value stored into a local aggregate (or any address derived from it)
	var drain func(addr ssa.Value)
	drained := map[ssa.Value]bool{}
	drain = func(addr ssa.Value) {
		if addr == nil || drained[addr] || addr.Referrers() == nil {
			return
		}
		drained[addr] = true
		for _, rf := range *addr.Referrers() {
			switch y := rf.(type) {
			case *ssa.Store:
				if y.Addr == addr {
					visit(y.Val)
				}
			case *ssa.FieldAddr:
				drain(y)
			case *ssa.IndexAddr:
				drain(y)
			case *ssa.Slice:
				drain(y)
			}
		}
	}
	localRoot := func(addr ssa.Value) ssa.Value {
		for {
			switch y := addr.(type) {
			case *ssa.FieldAddr:
				addr = y.X
			case *ssa.IndexAddr:
				addr = y.X
			case *ssa.Slice:
				addr = y.X
			case *ssa.Alloc:
				return y
			default:
				return nil
			}
		}
	}
	visit = func(x ssa.Value) {
		if x == nil || seen[x] {
			return
		}
		seen[x] = true
		switch y := x.(type) {
		case *ssa.Phi:
			for _, e := range y.Edges {
				visit(e)
			}
		case *ssa.Field:
			visit(y.X)
		case *ssa.Index:
			visit(y.X)
		case *ssa.Slice:
			visit(y.X)
		case *ssa.Alloc:
			drain(y)
		case *ssa.UnOp:
			if y.Op != token.MUL {
				return
			}
			if root := localRoot(y.X); root != nil {
				drain(root)
				return
			}
			if f, _ := kit.LoadedField(y); f != nil && types.Identical(f.Type(), want) {
				out = append(out, f)
			}
		}
	}
	visit(v)
	return out
}

// c17DeleteFuncSite is a call maps.DeleteFunc(x.idx, func(k, v) bool {…}) on an index field:
// every "return true" of the closure deletes the visited element of that index.
type c17DeleteFuncSite struct {
	field   *types.Var
	call    ssa.CallInstruction
	closure *ssa.Function
}

func c17DeleteFuncSites(p *kit.Program, idx []*types.Var) []c17DeleteFuncSite {
	var out []c17DeleteFuncSite
	for _, fn := range p.FuncsInPkg("internal/agent") {
		for _, c := range kit.Calls(fn) {
			cal := kit.CalleeOf(c)
			if cal.Pkg != "maps" || cal.Name != "DeleteFunc" || len(c.Common().Args) != 2 {
				continue
			}
			var field *types.Var
			for _, leaf := range kit.PhiLeaves(c.Common().Args[0]) {
				if f, _ := kit.LoadedField(leaf); f != nil {
					for _, x := range idx {
						if x == f {
							field = f
						}
					}
				}
			}
			mc, ok := c.Common().Args[1].(*ssa.MakeClosure)
			if field == nil || !ok {
				continue
			}
			if g, ok := mc.Fn.(*ssa.Function); ok && len(g.Params) == 2 {
				out = append(out, c17DeleteFuncSite{field, c, g})
			}
		}
	}
	return out
}

// c17Effects: which index fields a relayTable method inserts into / deletes from / ranges over,
// directly or through other relayTable methods it calls (two levels: "…Locked" helpers).
func c17Effects(p *kit.Program, m *ssa.Function, idx []*types.Var) (ins, del map[*types.Var]bool, rng bool) {
	ins, del = map[*types.Var]bool{}, map[*types.Var]bool{}
	methods := map[*ssa.Function]bool{}
	for _, x := range p.Methods("internal/agent", "relayTable") {
		methods[x] = true
	}
	fns := map[*ssa.Function]bool{m: true}
	for round := 0; round < 2; round++ {
		for fn := range fns {
			for _, c := range kit.Calls(fn) {
				if cal := kit.CalleeOf(c); cal.Static != nil && methods[cal.Static] {
					fns[cal.Static] = true
				}
			}
		}
	}
	for fn := range fns {
		for _, cl := range kit.WithClosures(fn) {
			fns[cl] = true
		}
	}
	for _, f := range idx {
		for _, acc := range p.FieldAccessesOfKind(f, kit.MapInsert, kit.MapDelete, kit.MapRange) {
			if !fns[acc.Fn] {
				continue
			}
			switch acc.Kind {
			case kit.MapInsert:
				ins[f] = true
			case kit.MapDelete:
				del[f] = true
			case kit.MapRange:
				rng = true
			}
		}
	}
	// maps.DeleteFunc(index, pred) walks the index and deletes from it
	for _, site := range c17DeleteFuncSites(p, idx) {
		if fns[site.call.Parent()] {
			del[site.field] = true
			rng = true
		}
	}
	return
}

func c17R3(p *kit.Program, r *kit.Report, cx *c16Ctx, rt, agent *types.Named) {
	roots := c17DisconnectHandlers(p)
	if !r.Require(len(roots) >= 1, "anchor-unresolved: no function is installed as peer.ManagerConfig.OnPeerDisconnect") {
		return
	}
	reach := c17StaticReach(roots)
	r.Count("functions_reachable_from_disconnect_callback", len(reach))
	idx, _ := c17RelayIndexes(rt)
	// by-peer removers: relayTable methods with an AgentID parameter that range over an index and delete from every index
	removers := map[*ssa.Function]bool{}
	for _, m := range p.Methods("internal/agent", "relayTable") {
		hasPeer := false
		for _, pa := range c16ExplicitParams(m) {
			if c16IsAgentID(pa.Type()) {
				hasPeer = true
			}
		}
		if !hasPeer {
			continue
		}
		_, dels, rng := c17Effects(p, m, idx)
		if rng && len(dels) == len(idx) {
			removers[m] = true
		}
	}
	if !r.Require(len(removers) >= 1, "anchor-unresolved: relayTable has no by-peer removal method (ranges over an index, deletes from all indices, takes an AgentID)") {
		return
	}
	var relayFields []*types.Var
	for _, f := range kit.StructFields(agent) {
		if pt, ok := f.Type().(*types.Pointer); ok {
			if n, ok := pt.Elem().(*types.Named); ok && n.Obj() == rt.Obj() {
				relayFields = append(relayFields, f)
			}
		}
	}
	r.Count("agent_relay_table_fields", len(relayFields))
	r.Require(len(relayFields) >= 3, "floor: Agent has %d *relayTable fields (expected tcp, udp, icmp)", len(relayFields))
	// functions that run on every invocation of the callback: reached through calls that no
	// early return or branch can skip (calls inside a loop body are taken as executed)
	always := map[*ssa.Function]bool{}
	work := append([]*ssa.Function{}, roots...)
	for len(work) > 0 {
		fn := work[len(work)-1]
		work = work[:len(work)-1]
		if fn == nil || always[fn] {
			continue
		}
		always[fn] = true
		for _, c := range kit.Calls(fn) {
			if cal := kit.CalleeOf(c); cal.Static != nil && cal.Static.Blocks != nil && c17Unconditional(c) {
				work = append(work, cal.Static)
			}
		}
	}
	covered := map[*types.Var]string{}
	conditional := map[*types.Var]string{}
	for fn := range reach {
		for _, c := range kit.Calls(fn) {
			cal := kit.CalleeOf(c)
			if cal.Static == nil || !removers[cal.Static] {
				continue
			}
			if !c17DisconnectedPeer(kit.Arg(c, 0)) {
				continue
			}
			for _, f := range c17FieldsBehind(kit.Receiver(c)) {
				if always[fn] && c17Unconditional(c) {
					covered[f] = kit.FuncName(fn)
				} else {
					conditional[f] = p.Pos(c.Pos())
				}
			}
		}
	}
	for _, f := range relayFields {
		where, ok := covered[f]
		bad := "the by-peer removal of this relay table is never called with the disconnected peer from the OnPeerDisconnect callback: relay entries of a peer that went away stay in both indices forever"
		if at, cond := conditional[f]; cond && !ok {
			bad = "the by-peer removal of this relay table (call at " + at + ") is skipped on some paths through the OnPeerDisconnect callback (early return or branch in front of it): for those disconnects the peer's relay entries stay in both indices forever"
		}
		r.Decide(ok, "C17.R3", "agent.Agent."+f.Name(), p.Pos(f.Pos()),
			"by-peer removal called with the disconnected peer on every path, in "+where, bad)
	}
	// the by-peer removal matches an entry on every peer it records
	for m := range removers {
		_, entry := c17RelayIndexes(rt)
		var peerFields []*types.Var
		if pt, ok := entry.(*types.Pointer); ok {
			if st, ok := pt.Elem().Underlying().(*types.Struct); ok {
				for i := 0; i < st.NumFields(); i++ {
					if c16IsAgentID(st.Field(i).Type()) {
						peerFields = append(peerFields, st.Field(i))
					}
				}
			}
		}
		compared := map[*types.Var]bool{}
		// the remover itself plus the small helpers it calls (predicate methods such as
		// entry.touchesPeer(peer)), two levels
		scope := map[*ssa.Function]bool{}
		for _, f := range kit.WithClosures(m) {
			scope[f] = true
		}
		for round := 0; round < 2; round++ {
			for f := range scope {
				for _, c := range kit.Calls(f) {
					if cal := kit.CalleeOf(c); cal.Static != nil && cal.Static.Blocks != nil && kit.IsRepoPkg(kit.FuncPkgPath(cal.Static)) {
						for _, g := range kit.WithClosures(cal.Static) {
							scope[g] = true
						}
					}
				}
			}
		}
		for f := range scope {
			kit.Instrs(f, func(in ssa.Instruction) {
				var a, b ssa.Value
				switch x := in.(type) {
				case *ssa.BinOp:
					if x.Op != token.EQL && x.Op != token.NEQ {
						return
					}
					a, b = x.X, x.Y
				case *ssa.Call:
					if !kit.CalleeOf(x).Is("internal/identity", "AgentID", "Equal") || len(x.Call.Args) != 2 {
						return
					}
					a, b = x.Call.Args[0], x.Call.Args[1]
				default:
					return
				}
				for _, pair := range [][2]ssa.Value{{a, b}, {b, a}} {
					pf, base := kit.LoadedField(pair[0])
					if pf == nil || base == nil || !types.Identical(base.Type(), entry) {
						continue
					}
					if !c16IsAgentID(pair[1].Type()) {
						continue
					}
					if _, isParam := pair[1].(*ssa.Parameter); isParam {
						compared[pf] = true
					}
					if ld, isLd := pair[1].(*ssa.UnOp); isLd && ld.Op == token.MUL {
						if _, isFV := ld.X.(*ssa.FreeVar); isFV {
							compared[pf] = true // the peer parameter captured by a callback
						}
					}
				}
			})
		}
		var missing []string
		for _, pf := range peerFields {
			if !compared[pf] {
				missing = append(missing, pf.Name())
			}
		}
		r.Decide(len(missing) == 0, "C17.R3", kit.FuncName(m)+" matches every recorded peer", p.Pos(m.Pos()),
			fmt.Sprintf("the by-peer removal compares all %d recorded peers of an entry with the disconnected peer", len(peerFields)),
			"the by-peer removal never compares "+strings.Join(missing, ", ")+" with the disconnected peer: entries in which the peer that went away plays that role stay in both indices forever")
	}
	// frame-created tables that record their peer
	n := 0
	for _, ev := range c16ResolveTablesQuiet(p) {
		if ev.T.Class != c16PerConn || ev.Composite || ev.Owner.Obj() == rt.Obj() {
			continue // the relay indices are judged field by field above
		}
		elem := c16EntryType(ev)
		pt, ok := elem.(*types.Pointer)
		if !ok {
			continue
		}
		st, ok := pt.Elem().Underlying().(*types.Struct)
		if !ok {
			continue
		}
		records := false
		for i := 0; i < st.NumFields(); i++ {
			if c16IsAgentID(st.Field(i).Type()) {
				records = true
			}
		}
		// created on behalf of a received frame and recording its sender: somewhere an entry of
		// this type is built with an AgentID field set to the sending-peer parameter of a
		// frame-driven function (wherever the insertion itself was moved to)
		frameCreated := false
		for _, fn := range p.RepoFuncs() {
			if frameCreated || !cx.frameDriven[fn] {
				continue
			}
			kit.Instrs(fn, func(in ssa.Instruction) {
				a, isAlloc := in.(*ssa.Alloc)
				if !isAlloc || !types.Identical(a.Type(), elem) {
					return
				}
				for _, rf := range *a.Referrers() {
					fa, isFA := rf.(*ssa.FieldAddr)
					if !isFA || !c16IsAgentID(kit.FieldOfAddr(fa).Type()) {
						continue
					}
					for _, rf2 := range *fa.Referrers() {
						if st, isSt := rf2.(*ssa.Store); isSt && st.Addr == fa && cx.peerValue(st.Val) {
							frameCreated = true
						}
					}
				}
			})
		}
		if !records || !frameCreated {
			continue
		}
		n++
		where := ""
		for _, acc := range p.FieldAccessesOfKind(ev.Field, kit.MapDelete, kit.FieldClear) {
			if reach[acc.Fn] {
				where = kit.FuncName(acc.Fn)
			}
		}
		r.Decide(where != "", "C17.R3", ev.Name, ev.Pos,
			"entries are removed in "+where+", reachable from the disconnect callback",
			"no deletion from this table is reachable from the OnPeerDisconnect callback: records created for a peer that disconnected (and, for exit/forward, their share of connCount) remain until the outbound socket fails or idles out")
	}
	r.Count("frame_created_peer_tables", n)
}

// c16ResolveTablesQuiet resolves the table list without reporting floors (C16 reports them).
func c16ResolveTablesQuiet(p *kit.Program) []*c16Eval {
	return c16ResolveTables(p, kit.NewReport("-", "-"))
}

// ---------------------------------------------------------------------------------------------
// R4 — failure cleanup
// ---------------------------------------------------------------------------------------------

func c17R4(p *kit.Program, r *kit.Report, rt, agent *types.Named) {
	idx, entry := c17RelayIndexes(rt)
	inserters, deleters, poppers := map[*ssa.Function]bool{}, map[*ssa.Function]bool{}, map[*ssa.Function]bool{}
	for _, m := range p.Methods("internal/agent", "relayTable") {
		ins, del, rng := c17Effects(p, m, idx)
		hasPeer, hasEntry := false, false
		for _, pa := range c16ExplicitParams(m) {
			if c16IsAgentID(pa.Type()) {
				hasPeer = true
			}
			if types.Identical(pa.Type(), entry) {
				hasEntry = true
			}
		}
		switch {
		case len(ins) > 0 && hasEntry:
			inserters[m] = true
		case len(del) > 0 && hasEntry && !hasPeer:
			deleters[m] = true
		case len(del) == len(idx) && hasPeer && !rng:
			poppers[m] = true
		}
	}
	if !r.Require(len(inserters) >= 1 && len(deleters) >= 1 && len(poppers) >= 1,
		"anchor-unresolved: relayTable roles: %d inserting, %d delete-by-entry, %d peer-checked removing method(s)", len(inserters), len(deleters), len(poppers)) {
		return
	}
	relayFieldOf := func(recv ssa.Value) *types.Var {
		f, base := kit.LoadedField(recv)
		if f == nil || base == nil {
			return nil
		}
		t := base.Type()
		if pt, ok := t.(*types.Pointer); ok {
			t = pt.Elem()
		}
		if n, ok := t.(*types.Named); ok && n.Obj() == agent.Obj() {
			return f
		}
		return nil
	}
	// insertWrappers: a function whose body calls the inserting method with one of its own
	// parameters as the table and another as the entry → (table parameter index, entry index)
	insertWrappers := func(g *ssa.Function) (int, int, bool) {
		if g == nil || g.Blocks == nil || !kit.IsRepoPkg(kit.FuncPkgPath(g)) {
			return 0, 0, false
		}
		idxOf := func(v ssa.Value) int {
			for i, pa := range g.Params {
				if ssa.Value(pa) == v {
					return i
				}
			}
			return -1
		}
		for _, c := range kit.Calls(g) {
			if cal := kit.CalleeOf(c); cal.Static != nil && inserters[cal.Static] {
				ti, ei := idxOf(kit.Receiver(c)), idxOf(kit.Arg(c, 0))
				if ti >= 0 && ei >= 0 {
					return ti, ei, true
				}
			}
		}
		return 0, 0, false
	}
	// deleteWrappers likewise for the delete-by-entry method
	deleteWrappers := func(g *ssa.Function) (int, int, bool) {
		if g == nil || g.Blocks == nil || !kit.IsRepoPkg(kit.FuncPkgPath(g)) {
			return 0, 0, false
		}
		idxOf := func(v ssa.Value) int {
			for i, pa := range g.Params {
				if ssa.Value(pa) == v {
					return i
				}
			}
			return -1
		}
		for _, c := range kit.Calls(g) {
			if cal := kit.CalleeOf(c); cal.Static != nil && deleters[cal.Static] {
				ti, ei := idxOf(kit.Receiver(c)), idxOf(kit.Arg(c, 0))
				if ti >= 0 && ei >= 0 {
					return ti, ei, true
				}
			}
		}
		return 0, 0, false
	}
	// (a) insert … forward fails … delete
	nSites := 0
	for _, fn := range p.FuncsInPkg("internal/agent") {
		ord := map[string]int{}
		for _, c := range kit.Calls(fn) {
			cal := kit.CalleeOf(c)
			if cal.Static == nil {
				continue
			}
			var tab *types.Var
			var e ssa.Value
			if inserters[cal.Static] {
				tab, e = relayFieldOf(kit.Receiver(c)), kit.Arg(c, 0)
			} else if ti, ei, ok := insertWrappers(cal.Static); ok && ti < len(c.Common().Args) && ei < len(c.Common().Args) {
				// a helper that inserts its entry argument into its table argument
				tab, e = relayFieldOf(c.Common().Args[ti]), c.Common().Args[ei]
			}
			if tab == nil || e == nil {
				continue
			}
			nSites++
			key := kit.FuncName(fn) + " " + c17Ord(ord, "insert into "+tab.Name())
			pos := p.Pos(c.Pos())
			// error checks of calls made after the insertion
			checked, bad := 0, ""
			kit.Instrs(fn, func(in ssa.Instruction) {
				ifi, ok := in.(*ssa.If)
				if !ok {
					return
				}
				x, trueMeansNil, ok := kit.IsErrNilCheck(ifi.Cond)
				if !ok || !kit.IsErrorType(x.Type()) {
					return
				}
				src, _, isCall := kit.ResultOf(x)
				if !isCall || !kit.Precedes(c, src) {
					return
				}
				checked++
				errSucc := ifi.Block().Succs[0]
				if trueMeansNil {
					errSucc = ifi.Block().Succs[1]
				}
				// every path from the failure branch to a return passes a delete of e from tab
				stop := map[*ssa.BasicBlock]bool{}
				kit.Instrs(fn, func(in2 ssa.Instruction) {
					c2, ok := in2.(ssa.CallInstruction)
					if !ok {
						return
					}
					if _, isGo := in2.(*ssa.Go); isGo {
						return
					}
					cal2 := kit.CalleeOf(c2)
					if cal2.Static != nil && deleters[cal2.Static] && relayFieldOf(kit.Receiver(c2)) == tab && kit.Arg(c2, 0) == e {
						stop[in2.Block()] = true
					}
					if ti, ei, ok := deleteWrappers(cal2.Static); ok && ti < len(c2.Common().Args) && ei < len(c2.Common().Args) &&
						relayFieldOf(c2.Common().Args[ti]) == tab && c2.Common().Args[ei] == e {
						stop[in2.Block()] = true
					}
				})
				if stop[errSucc] {
					return
				}
				for b := range kit.Reach(errSucc, nil, stop) {
					if stop[b] {
						continue
					}
					for _, in2 := range b.Instrs {
						if _, isRet := in2.(*ssa.Return); isRet {
							bad = "the failure branch at " + p.Pos(ifi.Pos()) + " returns without deleting the entry from " + tab.Name()
						}
					}
				}
			})
			switch {
			case checked == 0:
				r.Violation("C17.R4", key, pos, "no call after the insertion has its error result checked: when forwarding the open fails the entry stays in %s forever", tab.Name())
			default:
				r.Decide(bad == "", "C17.R4", key, pos,
					fmt.Sprintf("%d error check(s) after the insertion, each failure branch deletes the entry from %s before returning", checked, tab.Name()),
					bad+": the open was never forwarded, nothing will ever close this entry")
			}
		}
	}
	r.Count("relay_insert_sites", nSites)
	r.Require(nSites >= 1, "floor: no call of the inserting relayTable method on a relay table of Agent found in internal/agent")

	// (b) OPEN_ERR / CLOSE / RESET handlers pop from the family's table
	disp, arms := c17FrameDispatch(p)
	if !r.Require(disp != nil, "anchor-unresolved: frame dispatcher (function comparing frame.Type with >= 20 protocol.Frame* constants)") {
		return
	}
	families := map[string][]*types.Var{}
	inFamily := map[*types.Var]string{}
	for name, h := range arms {
		if !strings.HasSuffix(name, "Open") {
			continue
		}
		var tabs []*types.Var
		for f := range c17TablesUsed(h, agent, inserters) {
			tabs = append(tabs, f)
		}
		sort.Slice(tabs, func(i, j int) bool { return tabs[i].Name() < tabs[j].Name() })
		if len(tabs) > 0 {
			fam := strings.TrimSuffix(name, "Open")
			families[fam] = tabs
			for _, t := range tabs {
				inFamily[t] = fam
			}
		}
	}
	r.Count("relay_frame_families", len(families))
	r.Require(len(families) >= 1, "floor: no frame family whose …Open handler inserts into a relay table of Agent found")
	// every relay table of Agent must belong to a family, otherwise its terminating handlers are not judged
	for _, f := range kit.StructFields(agent) {
		if pt, ok := f.Type().(*types.Pointer); ok {
			if n, ok := pt.Elem().(*types.Named); ok && n.Obj() == rt.Obj() && inFamily[f] == "" {
				r.Floor("anchor-unresolved: no …Open frame handler is seen inserting into Agent.%s: the family whose close/reset handlers must clean it cannot be determined", f.Name())
			}
		}
	}
	var names []string
	for name := range arms {
		names = append(names, name)
	}
	sort.Strings(names)
	nClose := 0
	for _, name := range names {
		var fam, suffix string
		for _, sfx := range []string{"OpenErr", "Close", "Reset"} {
			if strings.HasSuffix(name, sfx) {
				fam, suffix = strings.TrimSuffix(name, sfx), sfx
			}
		}
		tabs, ok := families[fam]
		if !ok || suffix == "" {
			continue
		}
		h := arms[name]
		popped := c17TablesUsed(h, agent, poppers)
		for _, tab := range tabs {
			nClose++
			r.Decide(popped[tab], "C17.R4", kit.FuncName(h)+" removes "+tab.Name()+" entry", p.Pos(h.Pos()),
				"handler of "+name+" calls a peer-checked removing method of "+tab.Name()+" (directly or through the helpers it calls)",
				"neither the handler of "+name+" nor any helper it calls invokes a peer-checked removing method of "+tab.Name()+": relay entries of finished tunnels are never removed")
		}
	}
	r.Count("relay_terminating_frame_handlers", nClose)
	r.Require(nClose >= 1, "floor: no OPEN_ERR/CLOSE/RESET handler of a relay family found")
}

// c17R4Handlers: a record registered in a per-connection table is removed again on every path on
// which a later call of that function reported an error (the acknowledgement could not be sent).
// c17R4AckOrder: the record of a tunnel is in its table before the message that lets the peer
// refer to the tunnel — the open acknowledgement — is sent. In every function that both
// registers a record in a per-connection handler table (the insertion itself or a call of the
// helper that inserts) and sends an …OpenAck for it, the registration dominates the send:
// otherwise a CLOSE/RESET the peer sends right after the ack finds nothing, and the record
// registered afterwards is never closed.
func c17R4AckOrder(p *kit.Program, r *kit.Report) {
	isOpenAck := func(c ssa.CallInstruction) bool {
		name := kit.CalleeOf(c).Name
		return strings.HasPrefix(name, "Write") && strings.HasSuffix(name, "OpenAck")
	}
	type pair struct {
		fn       *ssa.Function
		table    string
		ack      ssa.CallInstruction
		regFirst bool
	}
	var pairs []pair
	for _, ev := range c16ResolveTablesQuiet(p) {
		if ev.T.Class != c16PerConn || ev.T.Type == "relayTable" {
			continue
		}
		regs := map[*ssa.Function][]ssa.Instruction{}
		for _, ia := range p.FieldAccessesOfKind(ev.Field, kit.MapInsert) {
			regs[ia.Fn] = append(regs[ia.Fn], ia.Instr)
			for _, cs := range p.StaticCallers(kit.TopLevel(ia.Fn)) {
				if _, isGo := cs.(*ssa.Go); !isGo {
					regs[cs.Parent()] = append(regs[cs.Parent()], cs)
				}
			}
		}
		for fn, rs := range regs {
			for _, c := range kit.Calls(fn) {
				if !isOpenAck(c) {
					continue
				}
				first := false
				for _, reg := range rs {
					if kit.Precedes(reg, c) {
						first = true
					}
				}
				pairs = append(pairs, pair{fn, ev.Name, c, first})
			}
		}
	}
	sort.Slice(pairs, func(i, j int) bool {
		if kit.FuncName(pairs[i].fn) != kit.FuncName(pairs[j].fn) {
			return kit.FuncName(pairs[i].fn) < kit.FuncName(pairs[j].fn)
		}
		return pairs[i].ack.Pos() < pairs[j].ack.Pos()
	})
	agree := 0
	for _, pr := range pairs {
		if pr.regFirst {
			agree++
		}
	}
	r.Count("registration_and_open_ack_pairs", len(pairs))
	ord := map[string]int{}
	for _, pr := range pairs {
		key := kit.FuncName(pr.fn) + " " + c17Ord(ord, "registers in "+pr.table+" before the open ack")
		switch {
		case pr.regFirst:
			r.OK("C17.R4", key, p.Pos(pr.ack.Pos()), "the registration dominates the %s call", kit.CalleeOf(pr.ack).Name)
		case agree > 0:
			r.Violation("C17.R4", key, p.Pos(pr.ack.Pos()), "%s is sent on a path on which the record is not yet in %s (unlike %d sibling handler(s)): a CLOSE or RESET the peer sends right after the ack finds no record, the record registered afterwards is never closed and keeps its share of the connection count", kit.CalleeOf(pr.ack).Name, pr.table, agree)
		default:
			r.Infof("C17.R4", key, p.Pos(pr.ack.Pos()), "no handler registers before its open ack: no order to agree on")
		}
	}
}

// c17R2Derived: a derived counter of the relay table (a map with a numeric element type, e.g.
// references per peer) that is decremented together with the removal of an entry from the
// indices stays equal to what it summarises only if the removal really happened. A helper that
// deletes an entry it is handed from the indices and decrements such a counter must therefore be
// called with an entry known to be in the table: looked up / ranged over in the same function, or
// guarded by a presence test — never with an entry that merely was passed in from outside
// (Delete(e) is idempotent on the indices, not on the counter). Otherwise the counter
// under-counts a peer and a clean-up gated by it skips the table.
func c17R2Derived(p *kit.Program, r *kit.Report, rt *types.Named) {
	idx, entry := c17RelayIndexes(rt)
	var derived []*types.Var
	for _, f := range kit.StructFields(rt) {
		if m, ok := f.Type().Underlying().(*types.Map); ok {
			if b, isB := m.Elem().Underlying().(*types.Basic); isB && b.Info()&types.IsNumeric != 0 {
				derived = append(derived, f)
			}
		}
	}
	r.Count("relay_derived_counter_fields", len(derived))
	if len(derived) == 0 {
		return
	}
	methods := map[*ssa.Function]bool{}
	for _, m := range p.Methods("internal/agent", "relayTable") {
		methods[m] = true
	}
	// functions that decrement a derived counter, directly or through relayTable methods (2 levels)
	dec := map[*ssa.Function]string{}
	for _, d := range derived {
		for _, acc := range p.FieldAccessesOfKind(d, kit.MapDelete, kit.MapInsert) {
			if acc.Kind == kit.MapInsert {
				b, ok := acc.Val.(*ssa.BinOp)
				if !ok || b.Op != token.SUB {
					continue
				}
			}
			dec[kit.TopLevel(acc.Fn)] = d.Name()
		}
	}
	for round := 0; round < 2; round++ {
		for f, d := range dec {
			for _, site := range p.StaticCallers(f) {
				if methods[kit.TopLevel(site.Parent())] {
					if _, have := dec[kit.TopLevel(site.Parent())]; !have {
						dec[kit.TopLevel(site.Parent())] = d
					}
				}
			}
		}
	}
	// helpers that delete an entry PARAMETER from the indices and decrement
	type helper struct {
		fn    *ssa.Function
		param int
	}
	var work []helper
	for _, f := range idx {
		for _, acc := range p.FieldAccessesOfKind(f, kit.MapDelete) {
			if _, isDec := dec[acc.Fn]; !isDec {
				continue
			}
			root, _, _ := c17KeyRoot(acc.Key, entry)
			if pa, ok := root.(*ssa.Parameter); ok {
				work = append(work, helper{acc.Fn, c39ParamIndex(acc.Fn, pa)})
			}
		}
	}
	isIndexEntry := func(v ssa.Value) bool {
		for _, leaf := range kit.PhiLeaves(v) {
			var lk ssa.Value = leaf
			if e, ok := leaf.(*ssa.Extract); ok {
				lk = e.Tuple
			}
			switch x := lk.(type) {
			case *ssa.Lookup:
				for _, l2 := range kit.PhiLeaves(x.X) {
					if f, _ := kit.LoadedField(l2); f != nil {
						for _, i := range idx {
							if i == f {
								return true
							}
						}
					}
				}
			case *ssa.Next:
				return true
			}
		}
		return false
	}
	present := func(site ssa.CallInstruction, arg ssa.Value) bool {
		for _, g := range kit.GuardsOf(site) {
			b, ok := g.Cond.(*ssa.BinOp)
			if !ok || (b.Op != token.EQL && b.Op != token.NEQ) || (b.Op == token.EQL) != g.Polarity {
				continue
			}
			if (b.X == arg && isIndexEntry(b.Y)) || (b.Y == arg && isIndexEntry(b.X)) {
				return true
			}
		}
		return false
	}
	seen := map[helper]bool{}
	reported := map[string]bool{}
	n := 0
	for depth := 0; len(work) > 0 && depth < 50; depth++ {
		h := work[0]
		work = work[1:]
		if seen[h] || h.param < 0 {
			continue
		}
		seen[h] = true
		inside := 0
		for _, site := range p.StaticCallers(h.fn) {
			caller := kit.TopLevel(site.Parent())
			if !methods[caller] || h.param >= len(site.Common().Args) {
				continue
			}
			inside++
			arg := site.Common().Args[h.param]
			n++
			switch {
			case isIndexEntry(arg) || present(site, arg):
			default:
				if pa, ok := arg.(*ssa.Parameter); ok {
					work = append(work, helper{site.Parent(), c39ParamIndex(site.Parent(), pa)})
					continue
				}
				key := kit.FuncName(site.Parent()) + " decrements " + dec[h.fn] + " only for a present entry"
				if !reported[key] {
					reported[key] = true
					r.Violation("C17.R2", key, p.Pos(site.Pos()), "the entry handed to %s (which removes it from the indices and decrements %s) is not known to be in the table", kit.FuncName(h.fn), dec[h.fn])
				}
			}
		}
		if inside == 0 {
			// an API method: whatever entry its callers hold is removed and un-counted
			key := kit.FuncName(h.fn) + " decrements " + dec[h.fn] + " only for a present entry"
			if !reported[key] {
				reported[key] = true
				r.Violation("C17.R2", key, p.Pos(h.fn.Pos()), "%s removes the entry it is handed from the indices (a no-op when the entry is already gone) and decrements the derived counter %s unconditionally: a repeated removal under-counts a peer, and a clean-up that consults %s first then skips entries that are still in the table", kit.FuncName(h.fn), dec[h.fn], dec[h.fn])
			}
		}
	}
	r.Count("derived_counter_decrement_call_sites", n)
	if len(reported) == 0 {
		r.OK("C17.R2", "relayTable derived counters decremented only for present entries", p.Pos(rt.Obj().Pos()), "%d call site(s) of unindexing helpers, each with a looked-up, ranged or presence-tested entry", n)
	}
}

func c17R4Handlers(p *kit.Program, r *kit.Report) {
	n := 0
	for _, ev := range c16ResolveTablesQuiet(p) {
		if ev.T.Class != c16PerConn || ev.T.Type == "relayTable" {
			continue
		}
		// functions that delete from the table, directly or through one or two static calls
		removes := map[*ssa.Function]bool{}
		for _, acc := range p.FieldAccessesOfKind(ev.Field, kit.MapDelete) {
			removes[kit.TopLevel(acc.Fn)] = true
		}
		for round := 0; round < 2; round++ {
			for fn := range removes {
				for _, site := range p.StaticCallers(fn) {
					removes[kit.TopLevel(site.Parent())] = true
				}
			}
		}
		ord := map[string]int{}
		// registration sites: the insertion itself and, when it sits in a small helper
		// (trackConnection(ac)), every static call of that helper
		type regSite struct {
			fn *ssa.Function
			in ssa.Instruction
		}
		var sites []regSite
		for _, ia := range p.FieldAccessesOfKind(ev.Field, kit.MapInsert) {
			sites = append(sites, regSite{ia.Fn, ia.Instr})
			for _, cs := range p.StaticCallers(kit.TopLevel(ia.Fn)) {
				if _, isGo := cs.(*ssa.Go); !isGo {
					sites = append(sites, regSite{cs.Parent(), cs})
				}
			}
		}
		for _, acc := range sites {
			fn := acc.fn
			checked, bad := 0, ""
			kit.Instrs(fn, func(in ssa.Instruction) {
				ifi, ok := in.(*ssa.If)
				if !ok {
					return
				}
				x, trueMeansNil, ok := kit.IsErrNilCheck(ifi.Cond)
				if !ok || !kit.IsErrorType(x.Type()) {
					return
				}
				src, _, isCall := kit.ResultOf(x)
				if !isCall || !kit.Precedes(acc.in, src) {
					return
				}
				checked++
				errSucc := ifi.Block().Succs[0]
				if trueMeansNil {
					errSucc = ifi.Block().Succs[1]
				}
				stop := map[*ssa.BasicBlock]bool{}
				kit.Instrs(fn, func(in2 ssa.Instruction) {
					c2, ok := in2.(ssa.CallInstruction)
					if !ok {
						return
					}
					if _, isGo := in2.(*ssa.Go); isGo {
						return
					}
					cal2 := kit.CalleeOf(c2)
					if cal2.Built == "delete" && len(c2.Common().Args) == 2 {
						for _, leaf := range kit.PhiLeaves(c2.Common().Args[0]) {
							if f, _ := kit.LoadedField(leaf); f == ev.Field {
								stop[in2.Block()] = true
							}
						}
					}
					if cal2.Static != nil && removes[cal2.Static] && cal2.Static != fn {
						stop[in2.Block()] = true
					}
				})
				if stop[errSucc] {
					return
				}
				for b := range kit.Reach(errSucc, nil, stop) {
					if stop[b] {
						continue
					}
					for _, in2 := range b.Instrs {
						if _, isRet := in2.(*ssa.Return); isRet {
							bad = "the failure branch at " + p.Pos(ifi.Pos()) + " returns without removing the record from " + ev.Name
						}
					}
				}
			})
			if checked == 0 {
				continue // nothing can fail after the registration inside this function
			}
			n++
			r.Decide(bad == "", "C17.R4", kit.FuncName(fn)+" "+c17Ord(ord, "registers in "+ev.Name), p.Pos(acc.in.Pos()),
				fmt.Sprintf("%d error check(s) after the registration, each failure branch removes the record before returning", checked),
				bad+": the peer never learned about the tunnel, so nothing will ever close this record (and its connCount share)")
		}
	}
	r.Count("handler_registrations_with_failure_paths", n)
	r.Require(n >= 2, "floor: %d handler registration(s) followed by an error check found (expected exit and forward at least)", n)
}

// c17R4RelaySide: the relay indices are numbered per peer connection, so the same number can be
// the upstream id of one entry and the downstream id of another. A frame-driven function that
// removes relay entries must (i) accept an entry found in an index only after comparing the peer
// that owns that index's id space (byUpstream ↔ upstream peer, byDownstream ↔ downstream peer)
// with the sender, and (ii) report "no entry" only after it consulted every index: a miss — or
// a hit that belongs to somebody else — in one index says nothing about the other.
func c17R4RelaySide(p *kit.Program, r *kit.Report, cx *c16Ctx, rt *types.Named) {
	idx, _ := c17RelayIndexes(rt)
	var evs []*c16Eval
	for _, ev := range c16ResolveTablesQuiet(p) {
		for _, f := range idx {
			if ev.Field == f {
				evs = append(evs, ev)
			}
		}
	}
	if !r.Require(len(evs) == len(idx), "anchor-unresolved: relay indices are not all in the classified table list (%d of %d)", len(evs), len(idx)) {
		return
	}
	removes := func(fn *ssa.Function) bool {
		// fn deletes from a relay index itself or through relayTable methods it calls
		for _, f := range kit.WithClosures(fn) {
			if _, del, _ := c17Effects(p, f, idx); len(del) > 0 {
				return true
			}
			for _, c := range kit.Calls(f) {
				if cal := kit.CalleeOf(c); cal.Static != nil {
					if _, del, _ := c17Effects(p, cal.Static, idx); len(del) > 0 {
						return true
					}
				}
			}
		}
		return false
	}
	states := []*c16R2State{}
	for _, ev := range evs {
		cx.c16EvalR1(ev)
		if ev.R1OK {
			r.OK("C17.R4", ev.Name+" removal matches the sender's side", ev.Pos, "not applicable: keys of this index are collision-free (C16.R1)")
			continue
		}
		cx.c16EvalR2(ev)
		var bad []string
		for _, fn := range ev.R2BadFns {
			if removes(fn) {
				bad = append(bad, kit.FuncName(fn))
			}
		}
		side := "the recorded peer"
		if ev.SidePeer != nil {
			side = ev.SidePeer.Name()
		}
		r.Decide(len(bad) == 0, "C17.R4", ev.Name+" removal matches the sender's side", ev.Pos,
			"every frame-driven removal accepts an entry found in this index only after comparing its "+side+" with the sender",
			fmt.Sprintf("%s removes (or declines to remove) an entry found in %s without comparing the entry's %s with the sender: a close for stream n of one connection pops the entry another connection registered under n, or nothing, and the closed tunnel's entry stays in both indices", strings.Join(bad, ", "), ev.Field.Name(), side))
		s := &c16R2State{cx: cx, ev: ev, entries: map[*ssa.Function]c16Origins{}, accessor: map[*ssa.Function]map[int]bool{},
			operator: map[*ssa.Function]map[int]bool{}, directFns: map[*ssa.Function]bool{}}
		s.sidePeer = ev.SidePeer
		s.collect()
		states = append(states, s)
	}
	if len(states) < 2 {
		return
	}
	// (ii) functions that look several indices up under one key and know the sender
	look := map[*ssa.Function][]kit.FieldAccess{}
	for _, f := range idx {
		for _, acc := range p.FieldAccessesOfKind(f, kit.MapLookup) {
			look[acc.Fn] = append(look[acc.Fn], acc)
		}
	}
	var fns []*ssa.Function
	for fn, accs := range look {
		fields := map[*types.Var]bool{}
		for _, a := range accs {
			fields[a.Field] = true
		}
		hasPeer := false
		for _, pa := range c16ExplicitParams(fn) {
			if c16IsAgentID(pa.Type()) {
				hasPeer = true
			}
		}
		if len(fields) >= 2 && hasPeer && len(fn.Blocks) > 0 {
			fns = append(fns, fn)
		}
	}
	sort.Slice(fns, func(i, j int) bool { return kit.FuncName(fns[i]) < kit.FuncName(fns[j]) })
	r.Count("relay_direction_disambiguating_functions", len(fns))
	for _, fn := range fns {
		blocked := map[kit.Edge]bool{}
		for _, s := range states {
			for _, ve := range s.validEdges(fn) {
				blocked[ve.edge] = true
			}
		}
		bad := ""
		for _, acc := range look[fn] {
			lb := acc.Instr.Block()
			if lb == fn.Blocks[0] {
				continue
			}
			reach := kit.Reach(fn.Blocks[0], blocked, map[*ssa.BasicBlock]bool{lb: true})
			for _, ret := range kit.Returns(fn) {
				if ret.Block() == fn.Recover || ret.Block() == lb {
					continue
				}
				if reach[ret.Block()] {
					bad = fmt.Sprintf("the return at %s is reached without a sender-validated hit and without looking into %s", p.Pos(ret.Pos()), acc.Field.Name())
				}
			}
		}
		r.Decide(bad == "", "C17.R4", kit.FuncName(fn)+" consults every index", p.Pos(fn.Pos()),
			"every return without a sender-validated hit comes after all index lookups",
			bad+": when the number is also registered in the other index for a different connection, the sender's own entry is never found and stays behind")
	}
}

// c17TablesUsed answers "on which fields of struct `owner` does code run on behalf of `root` call
// one of the `targets` methods?". It follows static calls out of root (closures included, three
// levels, repository functions only) and resolves a receiver that is a parameter through the
// argument bound at the call site, so a shared helper taking the table as an argument
// (relayTeardown(a.udpRelay, …)) counts for the field its caller passed.
func c17TablesUsed(root *ssa.Function, owner *types.Named, targets map[*ssa.Function]bool) map[*types.Var]bool {
	out := map[*types.Var]bool{}
	fieldOf := func(v ssa.Value) *types.Var {
		f, base := kit.LoadedField(v)
		if f == nil || base == nil {
			return nil
		}
		t := base.Type()
		if pt, ok := t.(*types.Pointer); ok {
			t = pt.Elem()
		}
		if n, ok := t.(*types.Named); ok && n.Obj() == owner.Obj() {
			return f
		}
		return nil
	}
	type env map[*ssa.Parameter][]*types.Var
	resolve := func(v ssa.Value, e env) []*types.Var {
		var fs []*types.Var
		for _, leaf := range kit.PhiLeaves(v) {
			if pa, ok := leaf.(*ssa.Parameter); ok {
				fs = append(fs, e[pa]...)
				continue
			}
			if f := fieldOf(leaf); f != nil {
				fs = append(fs, f)
				continue
			}
			for _, f := range c17FieldsBehind(leaf) {
				fs = append(fs, f)
			}
		}
		return fs
	}
	visited := map[*ssa.Function]int{}
	var walk func(fn *ssa.Function, e env, depth int)
	walk = func(fn *ssa.Function, e env, depth int) {
		if fn == nil || fn.Blocks == nil || depth > 3 {
			return
		}
		if len(e) == 0 {
			if visited[fn] > 0 {
				return
			}
			visited[fn]++
		} else if visited[fn] > 8 {
			return
		} else {
			visited[fn]++
		}
		for _, f := range kit.WithClosures(fn) {
			for _, c := range kit.Calls(f) {
				cal := kit.CalleeOf(c)
				if cal.Static == nil {
					continue
				}
				if targets[cal.Static] {
					for _, fld := range resolve(kit.Receiver(c), e) {
						out[fld] = true
					}
					continue
				}
				if !kit.IsRepoPkg(kit.FuncPkgPath(cal.Static)) || cal.Static.Blocks == nil {
					continue
				}
				ne := env{}
				for i, a := range c.Common().Args {
					if i < len(cal.Static.Params) {
						if fs := resolve(a, e); len(fs) > 0 {
							ne[cal.Static.Params[i]] = fs
						}
					}
				}
				walk(cal.Static, ne, depth+1)
			}
		}
	}
	walk(root, env{}, 0)
	return out
}

// c17FrameDispatch finds the function that compares a frame type with >= 20 protocol.Frame*
// constants and maps each constant's name (without the Frame prefix) to the function its arm calls.
func c17FrameDispatch(p *kit.Program) (*ssa.Function, map[string]*ssa.Function) {
	pk := p.Package("internal/protocol")
	if pk == nil {
		return nil, nil
	}
	byVal := map[int64]string{}
	sc := pk.Types.Scope()
	for _, name := range sc.Names() {
		c, ok := sc.Lookup(name).(*types.Const)
		if !ok || !strings.HasPrefix(name, "Frame") {
			continue
		}
		if b, ok := c.Type().Underlying().(*types.Basic); !ok || b.Kind() != types.Uint8 {
			continue
		}
		var v int64
		if _, err := fmt.Sscanf(c.Val().ExactString(), "%d", &v); err == nil {
			byVal[v] = strings.TrimPrefix(name, "Frame")
		}
	}
	var best *ssa.Function
	var bestArms map[string]*ssa.Function
	for _, fn := range p.FuncsInPkg("internal/agent") {
		arms := map[string]*ssa.Function{}
		kit.Instrs(fn, func(in ssa.Instruction) {
			ifi, ok := in.(*ssa.If)
			if !ok {
				return
			}
			b, ok := ifi.Cond.(*ssa.BinOp)
			if !ok || b.Op != token.EQL {
				return
			}
			k, isc := kit.ConstInt(b.Y)
			if !isc {
				return
			}
			if f, _ := kit.LoadedField(b.X); f == nil || f.Name() != "Type" {
				return
			}
			name, ok := byVal[k]
			if !ok {
				return
			}
			for _, in2 := range ifi.Block().Succs[0].Instrs {
				if c, ok := in2.(ssa.CallInstruction); ok {
					if cal := kit.CalleeOf(c); cal.Static != nil && kit.IsRepoPkg(kit.FuncPkgPath(cal.Static)) {
						arms[name] = cal.Static
						break
					}
				}
			}
		})
		if len(arms) >= 20 && len(arms) > len(bestArms) {
			best, bestArms = fn, arms
		}
	}
	return best, bestArms
}
