package rules

import (
	"fmt"
	"go/token"
	"go/types"
	"regexp/syntax"
	"sort"
	"strings"

	"golang.org/x/tools/go/ssa"

	"mmverify/kit"
)

const c25Pkg = "internal/shell"

// c25Meta is the frozen shell metacharacter set of the property (DESIGN C25.R4).
const c25Meta = ";&|$`(){}[]<>\\!*?~"

func init() {
	register(&Check{
		ID: "C25", Level: "other", Patterns: []string{"./internal/shell"},
		Technique: "must-pass-through over accepting CFG edges, return-witness analysis, regexp/syntax class extraction, lock regions, per-path release counting",
		Explain:   "Decides on the SSA of internal/shell (linux; windows and darwin in the thorough tier) that (R1) every process construction/start is reached only after the validation gate returned nil for the very ShellMeta whose Command/Args are executed, (R2) the gate returns nil only with Enabled, ValidateAuth(meta.Password)==nil, IsCommandAllowed(meta.Command), ValidateArgs(meta.Args)==nil and AcquireSession()==nil, (R3) ValidateAuth returns nil only for an empty configured hash or a bcrypt success on (PasswordHash, password), IsCommandAllowed returns true only via the wildcard or exact string equality with a whitelist element after rejecting path separators, (R4) ValidateArgs outside wildcard mode tests every argument against an unanchored character class containing all 19 frozen metacharacters and against filepath.IsAbs, (R5) the session counter is only written under the executor mutex, incremented by one in the region of the comparison that excludes sessions >= MaxSessions, and released exactly once on every error path after acquisition and only behind a once-flag elsewhere, (R6) the wildcard test is exact equality of a whitelist element with \"*\", (R7) the ShellMeta reaching the gate is freshly allocated per request or, if recycled (sync.Pool, package variable, field of a longer-lived object), completely reset before decoding so that no field - in particular the password - survives from an earlier request. What a whitelisted program does with its arguments, WorkDir and Env are not covered; the order of the five gate checks is not enforced (only their conjunction).",
		Run:       runC25,
		OtherGOOS: []string{"windows", "darwin"},
		RunGOOS:   func(p *kit.Program, r *kit.Report, goos string) { c25Run(p, r, "["+goos+"] ") },
		SelfTests: c25SelfTests,
	})
}

type c25Ctx struct {
	p    *kit.Program
	r    *kit.Report
	pre  string // key prefix (GOOS runs)
	fns  []*ssa.Function
	exec *types.Named

	auth, allowed, vargs, acquire, release *ssa.Function
	gates                                  map[*ssa.Function]bool
	usedGates                              map[*ssa.Function]bool // gates that actually guard a process construction
	wild                                   map[*ssa.Function]bool // functions used as wildcard test
	mu, sessions                           *types.Var
	inlineWild                             bool
}

func runC25(p *kit.Program, r *kit.Report) { c25Run(p, r, "") }

func c25Run(p *kit.Program, r *kit.Report, pre string) {
	r.Rule("C25.R1", "every process construction (exec.Command*, ConPty.Spawn, os.StartProcess) in internal/shell is reached only through gate(meta)==nil and executes meta.Command/meta.Args of that meta; every Cmd start operates on a Cmd built by such a construction")
	r.Rule("C25.R2", "the gate returns nil only with Enabled, ValidateAuth(meta.Password)==nil, IsCommandAllowed(meta.Command)==true, ValidateArgs(meta.Args)==nil and AcquireSession()==nil")
	r.Rule("C25.R3", "ValidateAuth returns nil only if PasswordHash is empty or bcrypt.CompareHashAndPassword(PasswordHash, password)==nil; IsCommandAllowed returns true only via the wildcard or exact equality with a whitelist element after rejecting '/' and '\\'")
	r.Rule("C25.R4", "outside wildcard mode ValidateArgs returns nil only after every argument failed the metacharacter pattern (an unanchored class containing all of ; & | $ ` ( ) { } [ ] < > \\ ! * ? ~) and filepath.IsAbs")
	r.Rule("C25.R5", "the session counter is written only under the executor mutex; it is incremented by one in the same region as the comparison excluding sessions >= MaxSessions (or MaxSessions <= 0); a slot is released exactly once on error paths after acquisition, never on success paths, and elsewhere only behind a once-flag set in the same critical section")
	r.Rule("C25.R7", "the ShellMeta handed to the validation gate is fresh for the request being authorised: a new allocation filled by decoding, or - when taken from a sync.Pool, a package variable or a field of a longer-lived object - reset as a whole or field by field over ALL its fields before it is decoded into (after the fetch, or before every Put into that pool)")
	r.Rule("C25.R6", "the wildcard test is true only if some whitelist element equals \"*\" exactly")
	cx := &c25Ctx{p: p, r: r, pre: pre, gates: map[*ssa.Function]bool{}, usedGates: map[*ssa.Function]bool{}, wild: map[*ssa.Function]bool{}}
	cx.fns = p.FuncsInPkg(c25Pkg)
	if !r.Require(len(cx.fns) > 0, "anchor-unresolved: %spackage %s not loaded", pre, c25Pkg) {
		return
	}
	r.Count(pre+"functions_analysed", len(cx.fns))
	cx.exec = p.NamedType(c25Pkg, "Executor")
	cx.auth = p.Func(c25Pkg, "Executor", "ValidateAuth")
	cx.allowed = p.Func(c25Pkg, "Executor", "IsCommandAllowed")
	cx.vargs = p.Func(c25Pkg, "Executor", "ValidateArgs")
	cx.acquire = p.Func(c25Pkg, "Executor", "AcquireSession")
	cx.release = p.Func(c25Pkg, "Executor", "ReleaseSession")
	ok := r.Require(cx.exec != nil, "anchor-unresolved: %stype shell.Executor", pre)
	for name, f := range map[string]*ssa.Function{"ValidateAuth": cx.auth, "IsCommandAllowed": cx.allowed, "ValidateArgs": cx.vargs, "AcquireSession": cx.acquire, "ReleaseSession": cx.release} {
		ok = r.Require(f != nil, "anchor-unresolved: %smethod Executor.%s", pre, name) && ok
	}
	if !ok {
		return
	}
	for _, f := range kit.StructFields(cx.exec) {
		if c24Named(f.Type(), "sync", "Mutex") || c24Named(f.Type(), "sync", "RWMutex") {
			cx.mu = f
		}
	}
	// gates: Executor methods (meta *ShellMeta) error
	for _, m := range p.Methods(c25Pkg, "Executor") {
		res := m.Signature.Results()
		if res.Len() == 1 && kit.IsErrorType(res.At(0).Type()) && cx.metaParam(m) != nil {
			cx.gates[m] = true
		}
	}
	r.Require(len(cx.gates) >= 1, "anchor-unresolved: %sno Executor method (meta *ShellMeta) error (validation gate)", pre)
	if len(r.Floors) > 0 {
		return
	}
	cx.ruleR1()
	cx.ruleR2()
	cx.ruleR3()
	cx.ruleR4()
	cx.ruleR5()
	cx.ruleR7()
}

func (cx *c25Ctx) key(s string) string { return cx.pre + s }

func (cx *c25Ctx) metaParam(f *ssa.Function) *ssa.Parameter {
	for _, prm := range f.Params {
		if c24Named(prm.Type(), kit.PkgPath(c25Pkg), "ShellMeta") {
			return prm
		}
	}
	return nil
}

// metaField: v is a load of ShellMeta.<name>; returns the meta value.
func c25MetaField(v ssa.Value, name string) (ssa.Value, bool) {
	return kit.G8LoadOfField(v, c25Pkg, "ShellMeta", name)
}

func c25CfgField(v ssa.Value, name string) bool {
	_, ok := kit.G8LoadOfField(v, c25Pkg, "Config", name)
	return ok
}

// whitelist element: *(&W[i]) with W a load of Config.Whitelist
func c25IsWhitelistElem(v ssa.Value) bool {
	u, ok := v.(*ssa.UnOp)
	if !ok || u.Op != token.MUL {
		return false
	}
	ia, ok := u.X.(*ssa.IndexAddr)
	return ok && c25CfgField(ia.X, "Whitelist")
}

// ---------------------------------------------------------------- R1

type c25Sink struct {
	call       ssa.CallInstruction
	nameIdx    int // index into Common().Args of the command name; -1: Cmd start sink
	argsIdx    int
	cmdOperand ssa.Value
}

func (cx *c25Ctx) sinkOf(c ssa.CallInstruction) (c25Sink, bool) {
	cal := kit.CalleeOf(c)
	args := c.Common().Args
	switch {
	case cal.Pkg == "os/exec" && cal.Recv == "" && cal.Name == "Command":
		return c25Sink{call: c, nameIdx: 0, argsIdx: 1}, true
	case cal.Pkg == "os/exec" && cal.Recv == "" && cal.Name == "CommandContext":
		return c25Sink{call: c, nameIdx: 1, argsIdx: 2}, true
	case cal.Pkg == "os" && cal.Recv == "" && cal.Name == "StartProcess":
		return c25Sink{call: c, nameIdx: 0, argsIdx: 1}, true
	case cal.Pkg == "syscall" && (cal.Name == "StartProcess" || cal.Name == "ForkExec" || cal.Name == "Exec"):
		return c25Sink{call: c, nameIdx: 0, argsIdx: 1}, true
	case strings.HasSuffix(cal.Pkg, "/conpty") && cal.Name == "Spawn" && len(args) >= 3:
		return c25Sink{call: c, nameIdx: 1, argsIdx: 2}, true // receiver is Args[0]
	case cal.Pkg == "os/exec" && cal.Recv == "Cmd" && (cal.Name == "Start" || cal.Name == "Run" || cal.Name == "Output" || cal.Name == "CombinedOutput"):
		if len(args) > 0 {
			return c25Sink{call: c, nameIdx: -1, cmdOperand: args[0]}, true
		}
	case cal.Pkg == "github.com/creack/pty" && strings.HasPrefix(cal.Name, "Start"):
		for _, a := range args {
			if c24Named(a.Type(), "os/exec", "Cmd") {
				return c25Sink{call: c, nameIdx: -1, cmdOperand: a}, true
			}
		}
	}
	return c25Sink{}, false
}

// gateFact: the fact "g(meta) == nil" for a gate g.
func (cx *c25Ctx) gateFact(meta ssa.Value) func(kit.G8Fact) bool {
	return func(f kit.G8Fact) bool {
		if !f.Nil || !f.Pol {
			return false
		}
		c, ok := f.V.(*ssa.Call)
		if !ok {
			return false
		}
		cal := kit.CalleeOf(c)
		if cal.Static == nil || !cx.gates[cal.Static] {
			return false
		}
		for _, a := range c.Call.Args {
			if a == meta {
				cx.usedGates[cal.Static] = true
				return true
			}
		}
		return false
	}
}

// judgedGates: the gates R2/R5 reason about - those guarding a construction, or every
// candidate when none does.
func (cx *c25Ctx) judgedGates() map[*ssa.Function]bool {
	if len(cx.usedGates) > 0 {
		return cx.usedGates
	}
	return cx.gates
}

func (cx *c25Ctx) ruleR1() {
	p, r := cx.p, cx.r
	construct := map[ssa.CallInstruction]bool{}
	var starts []c25Sink
	nC := 0
	for _, f := range cx.fns {
		k := 0
		for _, c := range kit.Calls(f) {
			s, ok := cx.sinkOf(c)
			if !ok {
				continue
			}
			if s.nameIdx < 0 {
				starts = append(starts, s)
				continue
			}
			k++
			nC++
			construct[c] = true
			key := cx.key(fmt.Sprintf("%s process construction #%d (%s)", kit.FuncName(f), k, kit.CalleeOf(c).Name))
			args := c.Common().Args
			meta, ok1 := c25MetaField(args[s.nameIdx], "Command")
			meta2, ok2 := c25MetaField(args[s.argsIdx], "Args")
			if !ok1 || !ok2 || meta != meta2 {
				r.Violation("C25.R1", key, p.Pos(c.Pos()), "the executed command/arguments are not meta.Command/meta.Args of one ShellMeta: what runs is not what the gate validated")
				continue
			}
			good := cx.gatedAt(c, meta, 0)
			r.Decide(good, "C25.R1", key, p.Pos(c.Pos()),
				"reached only after the gate returned nil for the executed meta",
				"a path reaches the process construction without the validation gate having returned nil for this meta: a disabled shell, a wrong password or a non-whitelisted command still starts a process")
		}
	}
	r.Count(cx.pre+"process_constructions", nC)
	r.Require(nC >= 1, "floor: %sno process construction found in %s", cx.pre, c25Pkg)
	// start sinks: the Cmd comes from a construction in this package
	ord := map[*ssa.Function]int{}
	for _, s := range starts {
		f := s.call.Parent()
		ord[f]++
		key := cx.key(fmt.Sprintf("%s process start #%d (%s)", kit.FuncName(f), ord[f], kit.CalleeOf(s.call).Name))
		ok, why := cx.cmdOrigin(s.cmdOperand, construct, map[ssa.Value]bool{}, 0)
		r.Decide(ok, "C25.R1", key, p.Pos(s.call.Pos()), "starts a Cmd built by a gated construction", why+": the started process is not one that passed the gate")
	}
	r.Count(cx.pre+"process_starts", len(starts))
}

// gatedAt: the instruction is reached only after gate(meta)==nil, in its own function or -
// when meta is a parameter of an extracted helper - at every call site of that helper.
func (cx *c25Ctx) gatedAt(in ssa.Instruction, meta ssa.Value, depth int) bool {
	if kit.G8MustPass(in, cx.gateFact(meta)) {
		return true
	}
	prm, ok := meta.(*ssa.Parameter)
	if !ok || depth >= 2 {
		return false
	}
	fn := prm.Parent()
	idx := -1
	for i, q := range fn.Params {
		if q == prm {
			idx = i
		}
	}
	sites := cx.p.StaticCallers(fn)
	if idx < 0 || len(sites) == 0 {
		return false
	}
	for _, site := range sites {
		args := site.Common().Args
		if idx >= len(args) {
			return false
		}
		if _, isGo := site.(*ssa.Go); isGo {
			return false
		}
		if !cx.gatedAt(site, args[idx], depth+1) {
			return false
		}
	}
	return true
}

// cmdOrigin: every origin of the *exec.Cmd value is a gated construction in the package.
func (cx *c25Ctx) cmdOrigin(v ssa.Value, construct map[ssa.CallInstruction]bool, seen map[ssa.Value]bool, depth int) (bool, string) {
	if seen[v] {
		return true, ""
	}
	seen[v] = true
	switch x := v.(type) {
	case *ssa.Call:
		if construct[x] {
			return true, ""
		}
		if cal := kit.CalleeOf(x); cal.Static != nil && cal.Static.Blocks != nil && kit.FuncPkgPath(cal.Static) == kit.PkgPath(c25Pkg) && depth < 2 {
			res := cal.Static.Signature.Results()
			for i := 0; i < res.Len(); i++ {
				if !c24Named(res.At(i).Type(), "os/exec", "Cmd") {
					continue
				}
				for _, ret := range kit.Returns(cal.Static) {
					if ret.Block() == cal.Static.Recover {
						continue
					}
					if ok, why := cx.cmdOrigin(kit.ReturnResult(ret, i), construct, seen, depth+1); !ok {
						return false, why
					}
				}
			}
			return true, ""
		}
		return false, "the Cmd is produced by " + kit.CalleeOf(x).String()
	case *ssa.Extract:
		return cx.cmdOrigin(x.Tuple, construct, seen, depth)
	case *ssa.Phi:
		for _, e := range x.Edges {
			if ok, why := cx.cmdOrigin(e, construct, seen, depth); !ok {
				return false, why
			}
		}
		return true, ""
	case *ssa.Const:
		return true, "" // nil
	case *ssa.FreeVar:
		fn := x.Parent()
		idx := -1
		for i, fv := range fn.FreeVars {
			if fv == x {
				idx = i
			}
		}
		ok, why := true, ""
		if fn.Parent() == nil || idx < 0 {
			return false, "the Cmd is a free variable that cannot be traced"
		}
		kit.Instrs(fn.Parent(), func(in ssa.Instruction) {
			if mc, isMC := in.(*ssa.MakeClosure); isMC && mc.Fn == fn && idx < len(mc.Bindings) {
				if o, w := cx.cmdOrigin(mc.Bindings[idx], construct, seen, depth); !o {
					ok, why = false, w
				}
			}
		})
		return ok, why
	case *ssa.Alloc:
		// a local variable: every store into it
		ok, why := true, ""
		if x.Referrers() != nil {
			for _, ref := range *x.Referrers() {
				if st, isSt := ref.(*ssa.Store); isSt && st.Addr == x {
					if o, w := cx.cmdOrigin(st.Val, construct, seen, depth); !o {
						ok, why = false, w
					}
				}
			}
		}
		return ok, why
	case *ssa.UnOp:
		if x.Op != token.MUL {
			break
		}
		switch a := x.X.(type) {
		case *ssa.Alloc:
			return cx.cmdOrigin(a, construct, seen, depth)
		case *ssa.FreeVar:
			return cx.cmdOrigin(a, construct, seen, depth)
		case *ssa.FieldAddr:
			fld := kit.FieldOfAddr(a)
			if fld == nil || depth > 2 {
				break
			}
			stores := cx.p.FieldAccessesOfKind(fld, kit.FieldStore, kit.FieldAddrUse)
			if len(stores) == 0 {
				return false, "the Cmd field " + fld.Name() + " is never assigned in analysed code"
			}
			for _, acc := range stores {
				if acc.Kind != kit.FieldStore {
					return false, "the address of Cmd field " + fld.Name() + " escapes in " + kit.FuncName(acc.Fn)
				}
				if ok, why := cx.cmdOrigin(acc.Val, construct, seen, depth+1); !ok {
					return false, "field " + fld.Name() + " written in " + kit.FuncName(acc.Fn) + ": " + why
				}
			}
			return true, ""
		}
	}
	return false, "the origin of the started Cmd cannot be traced to a gated construction"
}

// ---------------------------------------------------------------- R2

// c25Atom is one of the five conditions of the gate, parameterised by the SSA value that is
// "the meta" in the function under examination (nil when the meta is not available there).
type c25Atom struct {
	name string
	mk   func(meta ssa.Value) func(kit.G8Fact) bool
	bad  string
}

func (cx *c25Ctx) gateAtoms() []c25Atom {
	callOn := func(meta ssa.Value, f kit.G8Fact, callee *ssa.Function, field string) bool {
		c, ok := f.V.(*ssa.Call)
		if !ok || kit.CalleeOf(c).Static != callee {
			return false
		}
		if field == "" {
			return true
		}
		if meta == nil {
			return false
		}
		for _, a := range c.Call.Args {
			if m, ok := c25MetaField(a, field); ok && m == meta {
				return true
			}
		}
		return false
	}
	return []c25Atom{
		{"Enabled", func(meta ssa.Value) func(kit.G8Fact) bool {
			return func(f kit.G8Fact) bool { return !f.Nil && f.Pol && c25CfgField(f.V, "Enabled") }
		}, "with the shell disabled a request still starts a process"},
		{"ValidateAuth(meta.Password)==nil", func(meta ssa.Value) func(kit.G8Fact) bool {
			return func(f kit.G8Fact) bool { return f.Nil && f.Pol && callOn(meta, f, cx.auth, "Password") }
		}, "a request with a wrong or missing password starts a process"},
		{"IsCommandAllowed(meta.Command)", func(meta ssa.Value) func(kit.G8Fact) bool {
			return func(f kit.G8Fact) bool { return !f.Nil && f.Pol && callOn(meta, f, cx.allowed, "Command") }
		}, "a command outside the whitelist is executed"},
		{"ValidateArgs(meta.Args)==nil", func(meta ssa.Value) func(kit.G8Fact) bool {
			return func(f kit.G8Fact) bool { return f.Nil && f.Pol && callOn(meta, f, cx.vargs, "Args") }
		}, "arguments with shell metacharacters or absolute paths are passed to the command"},
		{"AcquireSession()==nil", func(meta ssa.Value) func(kit.G8Fact) bool {
			return func(f kit.G8Fact) bool { return f.Nil && f.Pol && callOn(meta, f, cx.acquire, "") }
		}, "sessions start without a slot: the concurrent-session maximum is exceeded"},
	}
}

// withHelpers lets an atom be established inside a package-local helper: the fact "helper(...)
// returned nil / the bool outcome" is accepted when every way the helper yields that outcome
// passes the atom (with the meta mapped to the helper's parameter).
func (cx *c25Ctx) withHelpers(a c25Atom, meta ssa.Value, depth int) func(kit.G8Fact) bool {
	direct := a.mk(meta)
	return func(f kit.G8Fact) bool {
		if direct(f) {
			return true
		}
		c, ok := f.V.(*ssa.Call)
		if !ok || depth >= 2 || (f.Nil && !f.Pol) {
			return false
		}
		cal := kit.CalleeOf(c)
		h := cal.Static
		if h == nil || h.Blocks == nil || kit.FuncPkgPath(h) != kit.PkgPath(c25Pkg) || h.Signature.Results().Len() != 1 {
			return false
		}
		if h == cx.auth || h == cx.allowed || h == cx.vargs || h == cx.acquire || h == cx.release {
			return false
		}
		var sub ssa.Value
		for i, arg := range c.Call.Args {
			if meta != nil && arg == meta && i < len(h.Params) {
				sub = h.Params[i]
			}
		}
		ws := kit.G8Witnesses(h, 0, f.Pol)
		if len(ws) == 0 {
			return false
		}
		acc := cx.withHelpers(a, sub, depth+1)
		for _, w := range ws {
			if !w.Passes(acc) {
				return false
			}
		}
		return true
	}
}

func (cx *c25Ctx) ruleR2() {
	p, r := cx.p, cx.r
	var gs []*ssa.Function
	for g := range cx.judgedGates() {
		gs = append(gs, g)
	}
	sort.Slice(gs, func(i, j int) bool { return gs[i].Pos() < gs[j].Pos() })
	atoms := cx.gateAtoms()
	for _, g := range gs {
		meta := ssa.Value(cx.metaParam(g))
		gname := kit.FuncName(g)
		ws := kit.G8Witnesses(g, 0, true)
		r.Count(cx.pre+"gate_nil_returns", len(ws))
		r.Require(len(ws) >= 1, "floor: %sgate %s never returns nil", cx.pre, gname)
		for i, w := range ws {
			for _, a := range atoms {
				r.Decide(w.Passes(cx.withHelpers(a, meta, 0)), "C25.R2", cx.key(fmt.Sprintf("%s nil-return #%d requires %s", gname, i+1, a.name)), p.Pos(w.Pos()),
					"established on every path to this nil return",
					"the gate can return nil without "+a.name+": "+a.bad)
			}
		}
	}
}

// ---------------------------------------------------------------- R3 / R6

func (cx *c25Ctx) strParam(f *ssa.Function) ssa.Value {
	for _, prm := range f.Params {
		if b, ok := prm.Type().Underlying().(*types.Basic); ok && b.Kind() == types.String {
			return prm
		}
	}
	return nil
}

// wildcardFact: a true result of a parameterless bool method of Executor (checked by R6).
func (cx *c25Ctx) wildcardFact(f kit.G8Fact) bool {
	if c25StarFact(f) {
		cx.inlineWild = true
		return true
	}
	if f.Nil || !f.Pol {
		return false
	}
	c, ok := f.V.(*ssa.Call)
	if !ok {
		return false
	}
	cal := kit.CalleeOf(c)
	if cal.Static == nil || cal.Recv != "Executor" || kit.FuncPkgPath(cal.Static) != kit.PkgPath(c25Pkg) || len(cal.Static.Params) != 1 {
		return false
	}
	res := cal.Static.Signature.Results()
	if res.Len() != 1 || !types.Identical(res.At(0).Type(), types.Typ[types.Bool]) {
		return false
	}
	// it must read the whitelist and nothing decides without the "*" comparison (R6)
	cx.wild[cal.Static] = true
	return true
}

func c25RejectsChar(f kit.G8Fact, subject ssa.Value, ch byte) bool {
	if f.Nil || f.Pol {
		return false
	}
	c, ok := f.V.(*ssa.Call)
	if !ok {
		return false
	}
	cal := kit.CalleeOf(c)
	if cal.Pkg != "strings" || len(c.Call.Args) != 2 || c.Call.Args[0] != subject {
		return false
	}
	switch cal.Name {
	case "ContainsAny", "Contains":
		s, ok := kit.ConstString(c.Call.Args[1])
		if cal.Name == "Contains" {
			return ok && s == string(ch)
		}
		return ok && strings.IndexByte(s, ch) >= 0
	case "ContainsRune":
		k, ok := kit.ConstInt(c.Call.Args[1])
		return ok && k == int64(ch)
	}
	return false
}

func (cx *c25Ctx) ruleR3() {
	p, r := cx.p, cx.r
	// ValidateAuth
	pw := cx.strParam(cx.auth)
	if r.Require(pw != nil, "anchor-unresolved: %sValidateAuth has no string parameter", cx.pre) {
		fromHash := func(v ssa.Value) bool {
			return kit.G8Derives(v, func(y ssa.Value) bool { return c25CfgField(y, "PasswordHash") })
		}
		fromPw := func(v ssa.Value) bool { return kit.G8Derives(v, func(y ssa.Value) bool { return y == pw }) }
		acc := func(f kit.G8Fact) bool {
			if f.Nil {
				c, ok := f.V.(*ssa.Call)
				return ok && f.Pol && kit.CalleeOf(c).Is("golang.org/x/crypto/bcrypt", "", "CompareHashAndPassword") && fromHash(c.Call.Args[0]) && fromPw(c.Call.Args[1])
			}
			b, ok := f.V.(*ssa.BinOp)
			if !ok {
				return false
			}
			x, y, op := b.X, b.Y, b.Op
			if _, isC := x.(*ssa.Const); isC {
				x, y, op = y, x, flipCmp(op)
			}
			if s, isS := kit.ConstString(y); isS && s == "" && c25CfgField(x, "PasswordHash") {
				return (op == token.EQL) == f.Pol && (op == token.EQL || op == token.NEQ)
			}
			if k, isK := kit.ConstInt(y); isK && k == 0 {
				if c, isCall := x.(*ssa.Call); isCall && kit.CalleeOf(c).Built == "len" && c25CfgField(c.Call.Args[0], "PasswordHash") {
					return cmpHolds(op, 1) != f.Pol
				}
			}
			return false
		}
		ws := kit.G8Witnesses(cx.auth, 0, true)
		r.Require(len(ws) >= 1, "floor: %sValidateAuth never returns nil", cx.pre)
		for i, w := range ws {
			r.Decide(w.Passes(acc), "C25.R3", cx.key(fmt.Sprintf("%s nil-return #%d", kit.FuncName(cx.auth), i+1)), p.Pos(w.Pos()),
				"nil only with an empty configured hash or after bcrypt success",
				"ValidateAuth returns nil on a path where a password hash is configured and bcrypt.CompareHashAndPassword(PasswordHash, password) did not succeed: a wrong password is accepted")
		}
	}
	// IsCommandAllowed
	cmd := cx.strParam(cx.allowed)
	if r.Require(cmd != nil, "anchor-unresolved: %sIsCommandAllowed has no string parameter", cx.pre) {
		exact := func(f kit.G8Fact) bool {
			if f.Nil {
				return false
			}
			if c25IndexFound(f, func(v ssa.Value) bool { return v == cmd }) {
				return true
			}
			switch x := f.V.(type) {
			case *ssa.BinOp:
				if !((x.Op == token.EQL && f.Pol) || (x.Op == token.NEQ && !f.Pol)) {
					return false
				}
				return (x.X == cmd && c25IsWhitelistElem(x.Y)) || (x.Y == cmd && c25IsWhitelistElem(x.X))
			case *ssa.Call:
				cal := kit.CalleeOf(x)
				if f.Pol && cal.Pkg == "slices" && cal.Name == "Contains" && len(x.Call.Args) == 2 {
					return c25CfgField(x.Call.Args[0], "Whitelist") && x.Call.Args[1] == cmd
				}
			}
			return false
		}
		ws := kit.G8Witnesses(cx.allowed, 0, true)
		r.Require(len(ws) >= 1, "floor: %sIsCommandAllowed never returns true", cx.pre)
		for i, w := range ws {
			key := cx.key(fmt.Sprintf("%s true-return #%d", kit.FuncName(cx.allowed), i+1))
			if w.Passes(cx.wildcardFact) {
				r.OK("C25.R3", key, p.Pos(w.Pos()), "true via the wildcard test")
				continue
			}
			okExact := w.Passes(exact)
			okSep := w.Passes(func(f kit.G8Fact) bool { return c25RejectsChar(f, cmd, '/') }) &&
				w.Passes(func(f kit.G8Fact) bool { return c25RejectsChar(f, cmd, '\\') })
			switch {
			case !okExact:
				r.Violation("C25.R3", key, p.Pos(w.Pos()), "IsCommandAllowed returns true without the wildcard and without exact equality of the command with a whitelist element: a command that is not whitelisted (prefix, case variant, empty whitelist) is executed")
			case !okSep:
				r.Violation("C25.R3", key, p.Pos(w.Pos()), "IsCommandAllowed returns true for a command containing '/' or '\\': a whitelist entry written as a path makes a non-base-name command executable")
			default:
				r.OK("C25.R3", key, p.Pos(w.Pos()), "true only on exact equality with a whitelist element, path separators rejected")
			}
		}
	}
}

// c25IndexFound: the fact establishes slices.Index(Whitelist, needle) != -1 where needle
// satisfies isNeedle.
func c25IndexFound(f kit.G8Fact, isNeedle func(ssa.Value) bool) bool {
	if f.Nil {
		return false
	}
	b, ok := f.V.(*ssa.BinOp)
	if !ok {
		return false
	}
	x, y, op := b.X, b.Y, b.Op
	if _, isC := x.(*ssa.Const); isC {
		x, y, op = y, x, flipCmp(op)
	}
	c, ok := x.(*ssa.Call)
	k, isK := kit.ConstInt(y)
	if !ok || !isK || (k != 0 && k != -1) {
		return false
	}
	cal := kit.CalleeOf(c)
	if cal.Pkg != "slices" || cal.Name != "Index" || len(c.Call.Args) != 2 || !c25CfgField(c.Call.Args[0], "Whitelist") || !isNeedle(c.Call.Args[1]) {
		return false
	}
	switch op {
	case token.LSS, token.LEQ, token.GTR, token.GEQ, token.EQL, token.NEQ:
	default:
		return false
	}
	// the edge must exclude the outcome -1 (ordering of -1 relative to k)
	ord := -1
	if k == -1 {
		ord = 0
	}
	return cmpHolds(op, ord) != f.Pol
}

// c25StarFact: some whitelist element equals "*" exactly.
func c25StarFact(f kit.G8Fact) bool {
	if f.Nil {
		return false
	}
	if c25IndexFound(f, func(v ssa.Value) bool { s, ok := kit.ConstString(v); return ok && s == "*" }) {
		return true
	}
	switch x := f.V.(type) {
	case *ssa.BinOp:
		if !((x.Op == token.EQL && f.Pol) || (x.Op == token.NEQ && !f.Pol)) {
			return false
		}
		if s, ok := kit.ConstString(x.Y); ok && s == "*" && c25IsWhitelistElem(x.X) {
			return true
		}
		if s, ok := kit.ConstString(x.X); ok && s == "*" && c25IsWhitelistElem(x.Y) {
			return true
		}
	case *ssa.Call:
		cal := kit.CalleeOf(x)
		if f.Pol && cal.Pkg == "slices" && cal.Name == "Contains" && len(x.Call.Args) == 2 {
			s, ok := kit.ConstString(x.Call.Args[1])
			return ok && s == "*" && c25CfgField(x.Call.Args[0], "Whitelist")
		}
	}
	return false
}

func (cx *c25Ctx) ruleR6() {
	p, r := cx.p, cx.r
	var ws []*ssa.Function
	for f := range cx.wild {
		ws = append(ws, f)
	}
	sort.Slice(ws, func(i, j int) bool { return ws[i].Pos() < ws[j].Pos() })
	r.Require(len(ws) >= 1 || cx.inlineWild, "floor: %sno wildcard test is consulted by IsCommandAllowed/ValidateArgs", cx.pre)
	star := c25StarFact
	for _, wf := range ws {
		wit := kit.G8Witnesses(wf, 0, true)
		for i, w := range wit {
			r.Decide(w.Passes(star), "C25.R6", cx.key(fmt.Sprintf("%s true-return #%d", kit.FuncName(wf), i+1)), p.Pos(w.Pos()),
				"true only when a whitelist element equals \"*\"",
				"the wildcard test is true without a whitelist element being exactly \"*\": a restrictive whitelist is treated as allow-all and argument validation is skipped")
		}
		if len(wit) == 0 {
			r.OK("C25.R6", cx.key(kit.FuncName(wf)+" never true"), p.Pos(wf.Pos()), "the wildcard test is never true")
		}
	}
}

// ---------------------------------------------------------------- R4

// c25ClassRunes: the set of single characters whose presence anywhere makes the regexp match,
// when the regexp is an unanchored single-character matcher. ok=false otherwise.
func c25ClassRunes(re *syntax.Regexp) (func(rune) bool, bool) {
	switch re.Op {
	case syntax.OpCapture:
		return c25ClassRunes(re.Sub[0])
	case syntax.OpCharClass:
		rs := append([]rune{}, re.Rune...)
		return func(c rune) bool {
			for i := 0; i+1 < len(rs); i += 2 {
				if rs[i] <= c && c <= rs[i+1] {
					return true
				}
			}
			return false
		}, true
	case syntax.OpLiteral:
		if len(re.Rune) == 1 && re.Flags&syntax.FoldCase == 0 {
			lit := re.Rune[0]
			return func(c rune) bool { return c == lit }, true
		}
	case syntax.OpAnyChar, syntax.OpAnyCharNotNL:
		return func(c rune) bool { return c != '\n' || re.Op == syntax.OpAnyChar }, true
	case syntax.OpAlternate:
		var subs []func(rune) bool
		for _, s := range re.Sub {
			f, ok := c25ClassRunes(s)
			if !ok {
				return nil, false
			}
			subs = append(subs, f)
		}
		return func(c rune) bool {
			for _, f := range subs {
				if f(c) {
					return true
				}
			}
			return false
		}, true
	}
	return nil, false
}

// patternOf: the constant pattern of the *regexp.Regexp value v (a load of a package variable
// initialised once by regexp.MustCompile/Compile of a constant, or such a call itself).
func (cx *c25Ctx) patternOf(v ssa.Value) (string, string) {
	compileArg := func(x ssa.Value) (string, bool) {
		if e, ok := x.(*ssa.Extract); ok {
			x = e.Tuple
		}
		c, ok := x.(*ssa.Call)
		if !ok {
			return "", false
		}
		cal := kit.CalleeOf(c)
		if cal.Pkg != "regexp" || (cal.Name != "MustCompile" && cal.Name != "Compile") {
			return "", false
		}
		return kit.ConstString(c.Call.Args[0])
	}
	if s, ok := compileArg(v); ok {
		return s, ""
	}
	u, ok := v.(*ssa.UnOp)
	if !ok || u.Op != token.MUL {
		return "", "the pattern is not a package variable"
	}
	g, ok := u.X.(*ssa.Global)
	if !ok {
		return "", "the pattern is not a package variable"
	}
	pat, found := "", 0
	scan := func(f *ssa.Function, isInit bool) string {
		bad := ""
		kit.Instrs(f, func(in ssa.Instruction) {
			if st, ok := in.(*ssa.Store); ok && st.Addr == g {
				if s, ok := compileArg(st.Val); ok && isInit {
					pat = s
					found++
				} else {
					bad = "the pattern variable " + g.Name() + " is assigned in " + kit.FuncName(f)
				}
			}
		})
		return bad
	}
	if sp := cx.p.SSAPkg(c25Pkg); sp != nil {
		if initFn := sp.Func("init"); initFn != nil {
			if bad := scan(initFn, true); bad != "" {
				return "", bad + " with a non-constant pattern"
			}
		}
	}
	for _, f := range cx.p.RepoFuncs() {
		if bad := scan(f, false); bad != "" {
			return "", bad
		}
	}
	if found != 1 {
		return "", "the pattern variable " + g.Name() + " has no single constant initialiser"
	}
	return pat, ""
}

func (cx *c25Ctx) ruleR4() {
	p, r := cx.p, cx.r
	fn := cx.vargs
	fname := kit.FuncName(fn)
	var args ssa.Value
	for _, prm := range fn.Params {
		if s, ok := prm.Type().Underlying().(*types.Slice); ok {
			if b, ok := s.Elem().Underlying().(*types.Basic); ok && b.Kind() == types.String {
				args = prm
			}
		}
	}
	if !r.Require(args != nil, "anchor-unresolved: %sValidateArgs has no []string parameter", cx.pre) {
		return
	}
	// loop headers over args: If on idx < len(args)
	isLenArgs := func(v ssa.Value) bool {
		c, ok := v.(*ssa.Call)
		return ok && kit.CalleeOf(c).Built == "len" && c.Call.Args[0] == args
	}
	// idxOK: idx runs 0,1,2,...: (phi[-1, idx]) + 1, or phi[0, idx+1]
	idxOK := func(idx ssa.Value) bool {
		if b, ok := idx.(*ssa.BinOp); ok && b.Op == token.ADD {
			if k, isK := kit.ConstInt(b.Y); isK && k == 1 {
				if ph, isPhi := b.X.(*ssa.Phi); isPhi && len(ph.Edges) == 2 {
					for i, e := range ph.Edges {
						if k0, ok := kit.ConstInt(e); ok && k0 == -1 && ph.Edges[1-i] == idx {
							return true
						}
					}
				}
			}
		}
		if ph, ok := idx.(*ssa.Phi); ok && len(ph.Edges) == 2 {
			for i, e := range ph.Edges {
				if k0, ok := kit.ConstInt(e); ok && k0 == 0 {
					if b, ok := ph.Edges[1-i].(*ssa.BinOp); ok && b.Op == token.ADD && b.X == idx {
						if k, isK := kit.ConstInt(b.Y); isK && k == 1 {
							return true
						}
					}
				}
			}
		}
		return false
	}
	type loop struct {
		header *ssa.BasicBlock
		body   *ssa.BasicBlock
		idx    ssa.Value
	}
	var loops []loop
	loopDone := func(f kit.G8Fact) bool { // idx >= len(args): the range is exhausted
		if f.Nil {
			return false
		}
		b, ok := f.V.(*ssa.BinOp)
		if !ok {
			return false
		}
		x, y, op := b.X, b.Y, b.Op
		if isLenArgs(x) {
			x, y, op = y, x, flipCmp(op)
		}
		if !isLenArgs(y) {
			return false
		}
		// no arguments at all: `k OP len(args)` on this edge excludes len(args) > k for a constant k <= 0
		if k, isK := kit.ConstInt(x); isK && k <= 0 {
			return cmpHolds(op, -1) != f.Pol
		}
		if !idxOK(x) {
			return false
		}
		switch op {
		case token.LSS, token.GEQ:
			return cmpHolds(op, -1) != f.Pol
		}
		return false
	}
	for _, b := range fn.Blocks {
		for si, s := range b.Succs {
			if f, ok := kit.G8EdgeFact(b, s); ok && loopDone(f) {
				bo := f.V.(*ssa.BinOp)
				idx := bo.X
				if isLenArgs(bo.X) {
					idx = bo.Y
				}
				if _, isConst := idx.(*ssa.Const); isConst {
					continue // the `len(args) == 0` fast path, not a loop
				}
				loops = append(loops, loop{header: b, body: b.Succs[1-si], idx: idx})
			}
		}
	}
	elemOf := func(idx ssa.Value) func(ssa.Value) bool {
		return func(v ssa.Value) bool {
			u, ok := v.(*ssa.UnOp)
			if !ok || u.Op != token.MUL {
				return false
			}
			ia, ok := u.X.(*ssa.IndexAddr)
			return ok && ia.X == args && ia.Index == idx
		}
	}
	patMsg := ""
	var patClass func(rune) bool
	// viaHelper: the fact is the "acceptable" outcome of a package-local per-argument helper
	// applied to the subject; every way the helper yields that outcome must pass mk(param).
	viaHelper := func(f kit.G8Fact, isSubj func(ssa.Value) bool, mk func(func(ssa.Value) bool, int) func(kit.G8Fact) bool, depth int) bool {
		c, ok := f.V.(*ssa.Call)
		if !ok || depth >= 2 {
			return false
		}
		cal := kit.CalleeOf(c)
		if cal.Static == nil || cal.Static.Blocks == nil || kit.FuncPkgPath(cal.Static) != kit.PkgPath(c25Pkg) || cal.Static == fn {
			return false
		}
		if f.Nil && !f.Pol {
			return false
		}
		if cal.Static.Signature.Results().Len() != 1 {
			return false
		}
		var prm ssa.Value
		for i, a := range c.Call.Args {
			if isSubj(a) && i < len(cal.Static.Params) {
				prm = cal.Static.Params[i]
			}
		}
		if prm == nil {
			return false
		}
		ws := kit.G8Witnesses(cal.Static, 0, f.Pol)
		sub := mk(func(v ssa.Value) bool { return v == prm }, depth+1)
		for _, w := range ws {
			if !w.Passes(sub) {
				return false
			}
		}
		return true
	}
	var patRejects, absRejects func(isSubj func(ssa.Value) bool, depth int) func(kit.G8Fact) bool
	patRejects = func(isSubj func(ssa.Value) bool, depth int) func(kit.G8Fact) bool {
		return func(f kit.G8Fact) bool {
			c, ok := f.V.(*ssa.Call)
			if !ok {
				return false
			}
			cal := kit.CalleeOf(c)
			switch {
			case cal.Pkg == "regexp" && cal.Recv == "Regexp" && cal.Name == "MatchString" && len(c.Call.Args) == 2 && isSubj(c.Call.Args[1]):
				if f.Nil || f.Pol {
					return false
				}
				pat, bad := cx.patternOf(c.Call.Args[0])
				if bad != "" {
					patMsg = bad
					return false
				}
				re, err := syntax.Parse(pat, syntax.Perl)
				if err != nil {
					patMsg = "the pattern does not parse: " + err.Error()
					return false
				}
				cls, ok := c25ClassRunes(re.Simplify())
				if !ok {
					patMsg = "the pattern " + pat + " is not an unanchored single-character class: a metacharacter is only detected at particular positions"
					return false
				}
				patClass = cls
				return true
			case cal.Pkg == "strings" && cal.Name == "ContainsAny" && isSubj(c.Call.Args[0]):
				if f.Nil || f.Pol {
					return false
				}
				s, ok := kit.ConstString(c.Call.Args[1])
				if !ok {
					return false
				}
				patClass = func(ch rune) bool { return strings.ContainsRune(s, ch) }
				return true
			}
			return viaHelper(f, isSubj, patRejects, depth)
		}
	}
	absRejects = func(isSubj func(ssa.Value) bool, depth int) func(kit.G8Fact) bool {
		return func(f kit.G8Fact) bool {
			c, ok := f.V.(*ssa.Call)
			if !ok {
				return false
			}
			if kit.CalleeOf(c).Is("path/filepath", "", "IsAbs") && isSubj(c.Call.Args[0]) {
				return !f.Nil && !f.Pol
			}
			return viaHelper(f, isSubj, absRejects, depth)
		}
	}
	ws := kit.G8Witnesses(fn, 0, true)
	r.Require(len(ws) >= 1, "floor: %sValidateArgs never returns nil", cx.pre)
	r.Count(cx.pre+"validateargs_loops", len(loops))
	nonWild := 0
	for i, w := range ws {
		key := cx.key(fmt.Sprintf("%s nil-return #%d", fname, i+1))
		if w.Passes(cx.wildcardFact) {
			r.OK("C25.R4", key, p.Pos(w.Pos()), "nil in wildcard mode")
			continue
		}
		nonWild++
		// functional form: slices.ContainsFunc / IndexFunc over the arguments with a predicate
		// whose negative outcome implies both rejections
		allVia := func(mk func(func(ssa.Value) bool, int) func(kit.G8Fact) bool) func(kit.G8Fact) bool {
			return func(f kit.G8Fact) bool {
				if f.Nil {
					return false
				}
				var call *ssa.Call
				wantPred := false // outcome of the predicate for every element on this edge
				switch x := f.V.(type) {
				case *ssa.Call:
					call = x
					if kit.CalleeOf(x).Name != "ContainsFunc" || f.Pol {
						return false
					}
				case *ssa.BinOp: // slices.IndexFunc(args, pred) < 0 / == -1 / >= 0 ...
					c, ok := x.X.(*ssa.Call)
					k, isK := kit.ConstInt(x.Y)
					if !ok || !isK || kit.CalleeOf(c).Name != "IndexFunc" {
						return false
					}
					// the edge must exclude every index >= 0
					holdsNeg := (k == 0 && cmpHolds(x.Op, -1) == f.Pol && cmpHolds(x.Op, 0) != f.Pol && cmpHolds(x.Op, 1) != f.Pol) ||
						(k == -1 && cmpHolds(x.Op, 0) == f.Pol && cmpHolds(x.Op, 1) != f.Pol)
					if !holdsNeg {
						return false
					}
					call = c
				default:
					return false
				}
				cal := kit.CalleeOf(call)
				if cal.Pkg != "slices" || len(call.Call.Args) != 2 || call.Call.Args[0] != args {
					return false
				}
				pred := kit.G8FuncOfValue(cx.p, call.Call.Args[1])
				if pred == nil || pred.Blocks == nil || len(pred.Params) == 0 {
					return false
				}
				prm := ssa.Value(pred.Params[len(pred.Params)-1])
				sub := mk(func(v ssa.Value) bool { return v == prm }, 1)
				ws := kit.G8Witnesses(pred, 0, wantPred)
				if len(ws) == 0 {
					return false
				}
				for _, w2 := range ws {
					if !w2.Passes(sub) {
						return false
					}
				}
				return true
			}
		}
		if w.Passes(allVia(patRejects)) && w.Passes(allVia(absRejects)) {
			r.OK("C25.R4", key, p.Pos(w.Pos()), "nil only after slices.ContainsFunc/IndexFunc found no argument matching the pattern or being absolute")
			continue
		}
		// the return must lie behind the exhausted range over args (or the wildcard)
		if !w.Passes(func(f kit.G8Fact) bool { return loopDone(f) || cx.wildcardFact(f) }) || len(loops) == 0 {
			r.Violation("C25.R4", key, p.Pos(w.Pos()), "ValidateArgs returns nil outside wildcard mode without having iterated over all arguments: arguments with metacharacters or absolute paths reach the command")
			continue
		}
		bad := ""
		for _, l := range loops {
			for _, chk := range []struct {
				acc  func(kit.G8Fact) bool
				what string
			}{{patRejects(elemOf(l.idx), 0), "the metacharacter pattern"}, {absRejects(elemOf(l.idx), 0), "filepath.IsAbs"}} {
				blocked := kit.G8AcceptingEdges(fn, chk.acc)
				if kit.Reach(l.body, blocked, nil)[l.header] {
					bad = "an iteration can complete without the argument having failed " + chk.what
					if patMsg != "" && chk.what == "the metacharacter pattern" {
						bad += " (" + patMsg + ")"
					}
				}
			}
		}
		r.Decide(bad == "", "C25.R4", key, p.Pos(w.Pos()), "nil only after every argument failed the metacharacter pattern and filepath.IsAbs",
			bad+": an argument containing a shell metacharacter or an absolute path is accepted")
	}
	if nonWild > 0 {
		if patClass == nil {
			if patMsg == "" {
				patMsg = "no metacharacter test on the arguments was found"
			}
			r.Violation("C25.R4", cx.key(fname+" metacharacter class"), p.Pos(fn.Pos()), "%s: arguments with shell metacharacters are accepted", patMsg)
		} else {
			for _, ch := range c25Meta {
				r.Decide(patClass(ch), "C25.R4", cx.key(fmt.Sprintf("%s metacharacter %q", fname, string(ch))), p.Pos(fn.Pos()),
					"in the rejected class", fmt.Sprintf("the rejected character class does not contain %q: an argument containing it passes validation", string(ch)))
			}
		}
	}
	cx.ruleR6()
}

// ---------------------------------------------------------------- R5

func (cx *c25Ctx) ruleR5() {
	p, r := cx.p, cx.r
	// the counter: the field incremented by one in AcquireSession or its package-local callees
	var mus []*types.Var
	var scan func(f *ssa.Function, depth int)
	seenFn := map[*ssa.Function]bool{}
	scan = func(f *ssa.Function, depth int) {
		if f == nil || f.Blocks == nil || seenFn[f] {
			return
		}
		seenFn[f] = true
		kit.Instrs(f, func(in ssa.Instruction) {
			st, ok := in.(*ssa.Store)
			if !ok || cx.sessions != nil {
				return
			}
			fa, ok := st.Addr.(*ssa.FieldAddr)
			if !ok {
				return
			}
			b, ok := st.Val.(*ssa.BinOp)
			if !ok || b.Op != token.ADD {
				return
			}
			if lf, _ := kit.LoadedField(b.X); lf == nil || lf != kit.FieldOfAddr(fa) {
				return
			}
			cx.sessions = kit.FieldOfAddr(fa)
			t := fa.X.Type()
			if pt, ok := t.Underlying().(*types.Pointer); ok {
				t = pt.Elem()
			}
			if n, ok := t.(*types.Named); ok {
				for _, fld := range kit.StructFields(n) {
					if c24Named(fld.Type(), "sync", "Mutex") || c24Named(fld.Type(), "sync", "RWMutex") {
						mus = append(mus, fld)
					}
				}
			}
		})
		if depth < 2 {
			for _, c := range kit.Calls(f) {
				if cal := kit.CalleeOf(c); cal.Static != nil && kit.FuncPkgPath(cal.Static) == kit.PkgPath(c25Pkg) {
					scan(cal.Static, depth+1)
				}
			}
		}
	}
	scan(cx.acquire, 0)
	if cx.sessions == nil {
		r.Violation("C25.R5", cx.key(kit.FuncName(cx.acquire)+" counter"), p.Pos(cx.acquire.Pos()), "AcquireSession does not advance any session counter: the number of concurrent sessions is unbounded")
		return
	}
	if len(mus) == 0 && cx.mu != nil {
		mus = []*types.Var{cx.mu}
	}
	// heldMu: a mutex of the counter's struct held at the instruction
	heldMu := func(li *kit.LockInfo, in ssa.Instruction) *types.Var {
		for _, m := range mus {
			if _, held := li.HeldAt(in, m); held {
				return m
			}
		}
		return nil
	}
	// isMax: the configured maximum - Config.MaxSessions, or a field/parameter that only ever
	// receives it
	var isMax func(v ssa.Value, depth int) bool
	isMax = func(v ssa.Value, depth int) bool {
		if c25CfgField(v, "MaxSessions") {
			return true
		}
		if depth > 2 {
			return false
		}
		if prm, ok := v.(*ssa.Parameter); ok {
			fn := prm.Parent()
			idx := -1
			for i, q := range fn.Params {
				if q == prm {
					idx = i
				}
			}
			sites := p.StaticCallers(fn)
			if idx < 0 || len(sites) == 0 {
				return false
			}
			for _, site := range sites {
				if args := site.Common().Args; idx >= len(args) || !isMax(args[idx], depth+1) {
					return false
				}
			}
			return true
		}
		if fld, _ := kit.LoadedField(v); fld != nil && fld != cx.sessions {
			stores := p.FieldAccessesOfKind(fld, kit.FieldStore, kit.FieldAddrUse)
			if len(stores) == 0 {
				return false
			}
			for _, acc := range stores {
				if acc.Kind != kit.FieldStore || !isMax(acc.Val, depth+1) {
					return false
				}
			}
			return true
		}
		return false
	}
	isSess := func(v ssa.Value) bool { f, _ := kit.LoadedField(v); return f == cx.sessions }
	n := 0
	for _, acc := range p.FieldAccessesOfKind(cx.sessions, kit.FieldStore, kit.FieldAddrUse) {
		n++
		key := cx.key(fmt.Sprintf("%s write of %s #%d", kit.FuncName(acc.Fn), cx.sessions.Name(), n))
		pos := p.Pos(acc.Instr.Pos())
		if acc.Kind == kit.FieldAddrUse {
			r.Violation("C25.R5", key, pos, "the address of the session counter escapes: it can be modified outside the executor mutex")
			continue
		}
		if k, ok := kit.ConstInt(acc.Val); ok && k == 0 && !seenFn[acc.Fn] && acc.Fn != cx.release {
			if _, isAlloc := acc.Base.(*ssa.Alloc); isAlloc {
				r.OK("C25.R5", key, pos, "zero initialisation of a fresh Executor")
				continue
			}
		}
		li := kit.Locks(acc.Fn)
		mu := heldMu(li, acc.Instr)
		if mu == nil {
			r.Violation("C25.R5", key, pos, "the session counter is written without holding the executor mutex: two concurrent acquisitions both see sessions < MaxSessions and the maximum is exceeded")
			continue
		}
		b, isB := acc.Val.(*ssa.BinOp)
		k := int64(0)
		if isB {
			k, _ = kit.ConstInt(b.Y)
		}
		switch {
		case isB && b.Op == token.ADD && k == 1 && isSess(b.X):
			ld := b.X.(ssa.Instruction)
			st := acc.Instr
			bound := func(f kit.G8Fact) bool {
				if f.Nil {
					return false
				}
				c, ok := f.V.(*ssa.BinOp)
				if !ok {
					return false
				}
				x, y, op := c.X, c.Y, c.Op
				switch op {
				case token.LSS, token.LEQ, token.GTR, token.GEQ, token.EQL, token.NEQ:
				default:
					return false
				}
				if isSess(y) && isMax(x, 0) {
					x, y, op = y, x, flipCmp(op)
				}
				if z, ok := kit.ConstInt(x); ok && z == 0 && isMax(y, 0) {
					x, y, op = y, x, flipCmp(op)
				}
				if isMax(x, 0) {
					// unlimited: MaxSessions OP 0 on this edge excludes MaxSessions > 0
					if z, ok := kit.ConstInt(y); ok && z == 0 {
						return cmpHolds(op, 1) != f.Pol
					}
					return false
				}
				if !isSess(x) || !isMax(y, 0) {
					return false
				}
				// sessions OP max on this edge must exclude sessions == max and sessions > max
				if cmpHolds(op, 0) == f.Pol || cmpHolds(op, 1) == f.Pol {
					return false
				}
				return li.SameRegion(x.(ssa.Instruction), st, mu)
			}
			ok := li.SameRegion(ld, st, mu) && kit.G8MustPass(st, bound)
			r.Decide(ok, "C25.R5", key, pos, "incremented by one in the region of the comparison excluding sessions >= MaxSessions",
				"the increment is not preceded, in the same critical section, by a comparison that excludes sessions >= MaxSessions (for MaxSessions > 0): concurrent or boundary acquisitions exceed the configured maximum")
		case isB && b.Op == token.SUB && k >= 1 && isSess(b.X):
			r.OK("C25.R5", key, pos, "decrement under the mutex")
		default:
			r.Violation("C25.R5", key, pos, "the session counter is assigned something other than sessions+1 / sessions-k: live sessions are forgotten and the maximum is exceeded")
		}
	}
	r.Count(cx.pre+"session_counter_writes", n)
	cx.releaseOnce()
}

// releaseOnce: per-path release counting in the functions that call the gate, once-flag
// discipline for every other reference to ReleaseSession.
func (cx *c25Ctx) releaseOnce() {
	p, r := cx.p, cx.r
	isRelease := func(in ssa.Instruction) bool {
		c, ok := in.(ssa.CallInstruction)
		if !ok {
			return false
		}
		if _, isGo := in.(*ssa.Go); isGo {
			return false
		}
		return kit.CalleeOf(c).Static == cx.release
	}
	judged := map[ssa.Instruction]bool{}
	// a local clean-up closure that is only ever called (never stored, deferred or spawned) and
	// releases exactly once on each of its paths counts as one release at each of its call
	// sites in the parent: its call sites are judged, not its body in isolation
	direct := isRelease
	closureRel := map[*ssa.MakeClosure]int{} // 0 unknown, 1 yes, 2 no
	releasingClosure := func(in ssa.Instruction) *ssa.MakeClosure {
		c, ok := in.(*ssa.Call)
		if !ok {
			return nil
		}
		mc, ok := c.Call.Value.(*ssa.MakeClosure)
		if !ok {
			return nil
		}
		if closureRel[mc] == 0 {
			closureRel[mc] = 2
			fn, _ := mc.Fn.(*ssa.Function)
			onlyCalled := fn != nil && fn.Blocks != nil && mc.Referrers() != nil
			if onlyCalled {
				for _, ref := range *mc.Referrers() {
					rc, isCall := ref.(*ssa.Call)
					if !isCall || rc.Call.Value != ssa.Value(mc) {
						onlyCalled = false
						break
					}
					for _, a := range rc.Call.Args {
						if a == ssa.Value(mc) {
							onlyCalled = false
						}
					}
				}
			}
			if onlyCalled {
				// exactly one release on every path of the closure
				st := map[*ssa.BasicBlock]uint8{fn.Blocks[0]: 1}
				cnt := func(b *ssa.BasicBlock, s uint8) uint8 {
					for _, ins := range b.Instrs {
						if direct(ins) {
							var o uint8
							if s&1 != 0 {
								o |= 2
							}
							if s&6 != 0 {
								o |= 4
							}
							s = o
						}
					}
					return s
				}
				for changed := true; changed; {
					changed = false
					for _, b := range fn.Blocks {
						s0, ok := st[b]
						if !ok {
							continue
						}
						o := cnt(b, s0)
						for _, succ := range b.Succs {
							if st[succ]|o != st[succ] {
								st[succ] |= o
								changed = true
							}
						}
					}
				}
				once, any := true, false
				for _, ret := range kit.Returns(fn) {
					if ret.Block() == fn.Recover {
						continue
					}
					if s0, ok := st[ret.Block()]; ok {
						any = true
						if cnt(ret.Block(), s0) != 2 {
							once = false
						}
					}
				}
				if once && any {
					closureRel[mc] = 1
					kit.Instrs(fn, func(ins ssa.Instruction) {
						if direct(ins) {
							judged[ins] = true
						}
					})
				}
			}
		}
		if closureRel[mc] == 1 {
			return mc
		}
		return nil
	}
	isRelease = func(in ssa.Instruction) bool { return direct(in) || releasingClosure(in) != nil }
	nCtor := 0
	for _, f := range cx.fns {
		var gateCall *ssa.Call
		for _, c := range kit.Calls(f) {
			if cal := kit.CalleeOf(c); cal.Static != nil && cx.judgedGates()[cal.Static] && !cx.gates[f] {
				gateCall, _ = c.(*ssa.Call)
			}
		}
		if gateCall == nil {
			continue
		}
		nCtor++
		var meta ssa.Value
		for _, a := range gateCall.Call.Args {
			if c24Named(a.Type(), kit.PkgPath(c25Pkg), "ShellMeta") {
				meta = a
			}
		}
		// forward dataflow: possible numbers of releases executed (0,1,2=many) at block entry
		in := map[*ssa.BasicBlock]uint8{f.Blocks[0]: 1}
		count := func(b *ssa.BasicBlock, s uint8) uint8 {
			for _, ins := range b.Instrs {
				if isRelease(ins) {
					judged[ins] = true
					var o uint8
					if s&1 != 0 {
						o |= 2
					}
					if s&6 != 0 {
						o |= 4
					}
					s = o
				}
			}
			return s
		}
		for changed := true; changed; {
			changed = false
			for _, b := range f.Blocks {
				s, ok := in[b]
				if !ok {
					continue
				}
				out := count(b, s)
				for _, succ := range b.Succs {
					if in[succ]|out != in[succ] {
						in[succ] |= out
						changed = true
					}
				}
			}
		}
		for i, ret := range kit.Returns(f) {
			if ret.Block() == f.Recover {
				continue
			}
			s, ok := in[ret.Block()]
			if !ok {
				continue
			}
			got := count(ret.Block(), s)
			key := cx.key(fmt.Sprintf("%s return #%d releases", kit.FuncName(f), i+1))
			afterGate := kit.G8MustPass(ret, cx.gateFact(meta))
			want := uint8(1) // exactly zero
			what := "no slot is held (gate not passed) or the session was handed to the caller"
			if afterGate && !kit.ReturnsNilError(ret) {
				want, what = 2, "error after acquisition"
			}
			msg := ""
			switch {
			case got == want:
			case want == 2 && got&1 != 0:
				msg = "an error return after a successful acquisition does not release the slot on some path (slot leak; not a bound violation, reported for completeness)"
			case want == 2:
				msg = "an error return after a successful acquisition releases the slot more than once: the counter drops below the number of live sessions and the maximum is exceeded"
			default:
				msg = "a slot is released on a path that does not own one (gate failed, or the session is returned to the caller who releases it again): the counter drops below the number of live sessions and the maximum is exceeded"
			}
			if msg != "" && want == 2 && got&1 != 0 && got&4 == 0 {
				r.OK("C25.R5", key, p.Pos(ret.Pos()), "%s", "leak only: "+msg)
				continue
			}
			r.Decide(msg == "", "C25.R5", key, p.Pos(ret.Pos()), "release count matches: "+what, msg)
		}
	}
	r.Count(cx.pre+"gate_callers", nCtor)
	// every other reference to ReleaseSession
	n := 0
	perFn := map[*ssa.Function]int{}
	for _, f := range p.RepoFuncs() {
		kit.Instrs(f, func(in ssa.Instruction) {
			ref := false
			if c, ok := in.(ssa.CallInstruction); ok && kit.CalleeOf(c).Static == cx.release {
				ref = true
			}
			if mc, ok := in.(*ssa.MakeClosure); ok {
				if fn := kit.G8FuncOfValue(p, mc); fn == cx.release {
					ref = true
				}
			}
			if !ref || judged[in] {
				return
			}
			n++
			perFn[f]++
			key := cx.key(fmt.Sprintf("%s release reference #%d", kit.FuncName(f), perFn[f]))
			ok, why := cx.onceGuarded(f, in)
			r.Decide(ok, "C25.R5", key, p.Pos(in.Pos()), why,
				why+": the slot of one session can be released twice, the counter drops below the number of live sessions and more than MaxSessions run concurrently")
		})
	}
	r.Count(cx.pre+"other_release_references", n)
}

// onceGuarded accepts a release call that (a) is reached only through `flag == false` of a
// bool struct field that is set to true in the same mutex region, or (b) directly follows a
// failed start of a session that was just constructed and is not published anywhere.
func (cx *c25Ctx) onceGuarded(f *ssa.Function, in ssa.Instruction) (bool, string) {
	call, isCall := in.(*ssa.Call)
	if !isCall {
		return false, "ReleaseSession is taken as a method value / deferred / spawned, outside any once-flag discipline"
	}
	li := kit.Locks(f)
	// (a)
	var flagOK bool
	acc := func(fa kit.G8Fact) bool {
		if fa.Nil || fa.Pol {
			return false
		}
		fld, base := kit.LoadedField(fa.V)
		if fld == nil {
			return false
		}
		if b, ok := fld.Type().Underlying().(*types.Basic); !ok || b.Kind() != types.Bool {
			return false
		}
		ld, _ := fa.V.(ssa.Instruction)
		found := false
		kit.Instrs(f, func(x ssa.Instruction) {
			st, ok := x.(*ssa.Store)
			if !ok {
				return
			}
			sfa, ok := st.Addr.(*ssa.FieldAddr)
			if !ok || kit.FieldOfAddr(sfa) != fld || sfa.X != base {
				return
			}
			if v, isC := kit.ConstBool(st.Val); !isC || !v {
				return
			}
			for _, held := range li.AnyHeldAt(st) {
				if ld != nil && li.SameRegion(ld, st, held) && kit.Precedes(st, call) {
					found = true
				}
			}
		})
		return found
	}
	if kit.G8MustPass(call, acc) {
		flagOK = true
	}
	if flagOK {
		return true, "released behind a once-flag that is set in the same critical section"
	}
	// (b)
	var sess ssa.Value
	failed := func(fa kit.G8Fact) bool {
		if !fa.Nil || fa.Pol {
			return false
		}
		c, ok := fa.V.(*ssa.Call)
		if !ok {
			return false
		}
		cal := kit.CalleeOf(c)
		if cal.Static == nil || cal.Name != "Start" || kit.FuncPkgPath(cal.Static) != kit.PkgPath(c25Pkg) || len(c.Call.Args) == 0 {
			return false
		}
		sess = c.Call.Args[0]
		return true
	}
	if kit.G8MustPass(call, failed) && sess != nil {
		if cc, _, ok := kit.ResultOf(sess); ok {
			if cal := kit.CalleeOf(cc); cal.Static != nil && cx.callsGate(cal.Static) {
				// the session must not be stored anywhere that the once-guarded release consults
				published := false
				if sess.Referrers() != nil {
					for _, ref := range *sess.Referrers() {
						if st, ok := ref.(*ssa.Store); ok && st.Val == sess && (kit.CanReach(st, call) || kit.CanReach(call, st)) {
							published = true
						}
					}
				}
				if !published {
					return true, "released once after a failed start of a session that was never published"
				}
				return false, "the slot is released after a failed start although the session is also published to the stream (released again on close)"
			}
		}
	}
	return false, "ReleaseSession is called without a once-flag and not on a construction error path"
}

func (cx *c25Ctx) callsGate(f *ssa.Function) bool {
	for _, c := range kit.Calls(f) {
		if cal := kit.CalleeOf(c); cal.Static != nil && cx.gates[cal.Static] {
			return true
		}
	}
	return false
}

// ---------------------------------------------------------------- R7

// c25Origin is one place the gate's ShellMeta pointer can come from.
type c25Origin struct {
	kind string // fresh | pool | global | field | boundary | unknown
	v    ssa.Value
	fn   *ssa.Function
	pool ssa.Value // receiver of Pool.Get
	what string
}

// metaOrigins traces a *ShellMeta value backwards to its allocation / fetch sites.
func (cx *c25Ctx) metaOrigins(v ssa.Value, depth int, seen map[ssa.Value]bool, out *[]c25Origin) {
	if v == nil || seen[v] {
		return
	}
	seen[v] = true
	fnOf := func(x ssa.Value) *ssa.Function {
		if in, ok := x.(ssa.Instruction); ok {
			return in.Parent()
		}
		if p, ok := x.(*ssa.Parameter); ok {
			return p.Parent()
		}
		return nil
	}
	add := func(kind string, x ssa.Value, pool ssa.Value, what string) {
		*out = append(*out, c25Origin{kind: kind, v: x, fn: fnOf(x), pool: pool, what: what})
	}
	switch x := v.(type) {
	case *ssa.Alloc:
		add("fresh", x, nil, "new allocation")
	case *ssa.Const:
		add("fresh", x, nil, "nil")
	case *ssa.MakeInterface:
		cx.metaOrigins(x.X, depth, seen, out)
	case *ssa.ChangeType:
		cx.metaOrigins(x.X, depth, seen, out)
	case *ssa.ChangeInterface:
		cx.metaOrigins(x.X, depth, seen, out)
	case *ssa.Phi:
		for _, e := range x.Edges {
			cx.metaOrigins(e, depth, seen, out)
		}
	case *ssa.TypeAssert:
		if c, ok := x.X.(*ssa.Call); ok {
			if cal := kit.CalleeOf(c); cal.Pkg == "sync" && cal.Recv == "Pool" && cal.Name == "Get" {
				add("pool", x, kit.Receiver(c), "sync.Pool.Get")
				return
			}
		}
		cx.metaOrigins(x.X, depth, seen, out)
	case *ssa.Extract:
		if c, ok := x.Tuple.(*ssa.Call); ok {
			cx.callOrigins(c, x.Index, depth, seen, out)
			return
		}
		if ta, ok := x.Tuple.(*ssa.TypeAssert); ok {
			cx.metaOrigins(ta, depth, seen, out)
			return
		}
		add("unknown", x, nil, "untraced value")
	case *ssa.Call:
		cx.callOrigins(x, 0, depth, seen, out)
	case *ssa.FieldAddr:
		if root := c25AllocRoot(x.X); root != nil {
			add("fresh", x, nil, "field of a new allocation")
			return
		}
		add("field", x, nil, "embedded field "+kit.FieldOfAddr(x).Name()+" of a longer-lived object")
	case *ssa.Global:
		add("global", x, nil, "package variable "+x.Name())
	case *ssa.UnOp:
		if x.Op != token.MUL {
			add("unknown", x, nil, "untraced value")
			return
		}
		switch a := x.X.(type) {
		case *ssa.Alloc: // local variable holding the pointer
			if a.Referrers() != nil {
				for _, ref := range *a.Referrers() {
					if st, ok := ref.(*ssa.Store); ok && st.Addr == a {
						cx.metaOrigins(st.Val, depth, seen, out)
					}
				}
			}
		case *ssa.Global:
			add("global", x, nil, "package variable "+a.Name())
		case *ssa.FieldAddr:
			if root := c25AllocRoot(a.X); root != nil {
				// field of a local struct: follow its stores
				n := 0
				if a.Referrers() != nil {
					for _, ref := range *a.Referrers() {
						if st, ok := ref.(*ssa.Store); ok && st.Addr == a {
							n++
							cx.metaOrigins(st.Val, depth, seen, out)
						}
					}
				}
				if n > 0 {
					return
				}
			}
			add("field", x, nil, "field "+kit.FieldOfAddr(a).Name()+" of a longer-lived object")
		default:
			add("unknown", x, nil, "untraced value")
		}
	case *ssa.Parameter:
		fn := x.Parent()
		idx := -1
		for i, q := range fn.Params {
			if q == x {
				idx = i
			}
		}
		sites := cx.p.StaticCallers(fn)
		if idx < 0 || len(sites) == 0 || depth >= 4 {
			add("boundary", x, nil, "parameter of "+kit.FuncName(fn)+" (no further in-repo callers)")
			return
		}
		for _, site := range sites {
			if args := site.Common().Args; idx < len(args) {
				cx.metaOrigins(args[idx], depth+1, seen, out)
			}
		}
	case *ssa.FreeVar:
		add("unknown", x, nil, "captured variable")
	default:
		add("unknown", v, nil, "untraced value")
	}
}

func (cx *c25Ctx) callOrigins(c *ssa.Call, idx int, depth int, seen map[ssa.Value]bool, out *[]c25Origin) {
	cal := kit.CalleeOf(c)
	if cal.Pkg == "sync" && cal.Recv == "Pool" && cal.Name == "Get" {
		*out = append(*out, c25Origin{kind: "pool", v: c, fn: c.Parent(), pool: kit.Receiver(c), what: "sync.Pool.Get"})
		return
	}
	if cal.Built == "new" {
		*out = append(*out, c25Origin{kind: "fresh", v: c, fn: c.Parent(), what: "new"})
		return
	}
	if cal.Static == nil || cal.Static.Blocks == nil || !kit.IsRepoPkg(kit.FuncPkgPath(cal.Static)) || depth >= 4 {
		*out = append(*out, c25Origin{kind: "unknown", v: c, fn: c.Parent(), what: "result of " + cal.String()})
		return
	}
	for _, ret := range kit.Returns(cal.Static) {
		if ret.Block() == cal.Static.Recover {
			continue
		}
		cx.metaOrigins(kit.ReturnResult(ret, idx), depth+1, seen, out)
	}
}

func c25AllocRoot(v ssa.Value) *ssa.Alloc {
	for i := 0; i < 10; i++ {
		switch x := v.(type) {
		case *ssa.Alloc:
			return x
		case *ssa.FieldAddr:
			v = x.X
		case *ssa.IndexAddr:
			v = x.X
		default:
			return nil
		}
	}
	return nil
}

// resetBefore: the fields of the struct *ptr that are certainly overwritten/cleared before
// instruction `before` executes (stores and clear() that precede it; one level of
// package-local helpers called on ptr). whole=true: a whole-struct zero store precedes.
func (cx *c25Ctx) resetBefore(ptr ssa.Value, before ssa.Instruction, depth int) (fields map[string]bool, whole bool) {
	fields = map[string]bool{}
	fn := before.Parent()
	same := func(v ssa.Value) bool { return v == ptr || kit.G8Unwrap(v) == ptr }
	kit.Instrs(fn, func(in ssa.Instruction) {
		if in == before || !kit.Precedes(in, before) {
			return
		}
		switch x := in.(type) {
		case *ssa.Store:
			if same(x.Addr) {
				if c, ok := x.Val.(*ssa.Const); ok {
					if _, isStruct := c.Type().Underlying().(*types.Struct); isStruct {
						whole = true
					}
				}
				if u, ok := x.Val.(*ssa.UnOp); ok && u.Op == token.MUL {
					if a, ok := u.X.(*ssa.Alloc); ok && c25NeverWritten(a) {
						whole = true
					}
				}
			}
			if fa, ok := x.Addr.(*ssa.FieldAddr); ok && same(fa.X) {
				fields[kit.FieldOfAddr(fa).Name()] = true
			}
		case ssa.CallInstruction:
			cal := kit.CalleeOf(x)
			args := x.Common().Args
			if cal.Built == "clear" && len(args) == 1 {
				if f, base := kit.LoadedField(args[0]); f != nil && same(base) {
					fields[f.Name()] = true
				}
			}
			if cal.Static != nil && cal.Static.Blocks != nil && kit.FuncPkgPath(cal.Static) == kit.PkgPath(c25Pkg) && depth < 1 {
				for i, a := range args {
					if same(a) && i < len(cal.Static.Params) {
						// fields reset on every path of the helper: before each return
						var acc map[string]bool
						w := true
						for _, ret := range kit.Returns(cal.Static) {
							if ret.Block() == cal.Static.Recover {
								continue
							}
							f2, w2 := cx.resetBefore(cal.Static.Params[i], ret, depth+1)
							if acc == nil {
								acc = f2
							} else {
								for k := range acc {
									if !f2[k] {
										delete(acc, k)
									}
								}
							}
							w = w && w2
						}
						for k := range acc {
							fields[k] = true
						}
						if w && acc != nil {
							whole = true
						}
					}
				}
			}
		}
	})
	return
}

// c25NeverWritten: the local struct is only read (still its zero value).
func c25NeverWritten(a *ssa.Alloc) bool {
	if a.Referrers() == nil {
		return true
	}
	for _, ref := range *a.Referrers() {
		switch x := ref.(type) {
		case *ssa.UnOp:
		case *ssa.DebugRef:
		default:
			_ = x
			return false
		}
	}
	return true
}

func (cx *c25Ctx) ruleR7() {
	p, r := cx.p, cx.r
	// S: functions that forward a ShellMeta parameter to the gate (transitively)
	S := map[*ssa.Function]bool{}
	for g := range cx.gates {
		S[g] = true
	}
	for changed := true; changed; {
		changed = false
		for _, f := range cx.fns {
			if S[f] || cx.metaParam(f) == nil {
				continue
			}
			for _, c := range kit.Calls(f) {
				if cal := kit.CalleeOf(c); cal.Static != nil && S[cal.Static] {
					for _, a := range c.Common().Args {
						if a == ssa.Value(cx.metaParam(f)) {
							S[f] = true
							changed = true
						}
					}
				}
			}
		}
	}
	st := p.NamedType(c25Pkg, "ShellMeta")
	var allFields []string
	for _, f := range kit.StructFields(st) {
		allFields = append(allFields, f.Name())
	}
	// Put sites per pool
	type putSite struct {
		call ssa.CallInstruction
		arg  ssa.Value
	}
	puts := map[ssa.Value][]putSite{}
	for _, f := range p.RepoFuncs() {
		for _, c := range kit.Calls(f) {
			if cal := kit.CalleeOf(c); cal.Pkg == "sync" && cal.Recv == "Pool" && cal.Name == "Put" {
				puts[kit.Receiver(c)] = append(puts[kit.Receiver(c)], putSite{c, kit.G8Unwrap(kit.Arg(c, 0))})
			}
		}
	}
	nSites := 0
	ord := map[*ssa.Function]int{}
	for _, f := range p.RepoFuncs() {
		if S[f] {
			continue // forwarding only: judged at its callers
		}
		for _, c := range kit.Calls(f) {
			cal := kit.CalleeOf(c)
			if cal.Static == nil || !S[cal.Static] {
				continue
			}
			var meta ssa.Value
			for _, a := range c.Common().Args {
				if c24Named(a.Type(), kit.PkgPath(c25Pkg), "ShellMeta") {
					meta = a
				}
			}
			if meta == nil {
				continue
			}
			nSites++
			ord[f]++
			key := cx.key(fmt.Sprintf("%s meta for %s #%d", kit.FuncName(f), cal.Static.Name(), ord[f]))
			var origins []c25Origin
			cx.metaOrigins(meta, 0, map[ssa.Value]bool{}, &origins)
			bad := ""
			for _, o := range origins {
				switch o.kind {
				case "fresh", "boundary", "unknown":
					continue
				}
				// recycled storage: a complete reset must precede the first use of the object
				// as a call argument (the decode), or every Put into the pool
				var firstUse ssa.Instruction
				if o.fn != nil {
					kit.Instrs(o.fn, func(in ssa.Instruction) {
						if firstUse != nil {
							return
						}
						if oi, _ := o.v.(ssa.Instruction); in == oi {
							return
						}
						if ci, ok := in.(ssa.CallInstruction); ok {
							for _, a := range ci.Common().Args {
								if kit.G8Unwrap(a) == o.v && kit.CalleeOf(ci).Built == "" {
									firstUse = in
								}
							}
						}
					})
				}
				covered := map[string]bool{}
				whole := false
				if firstUse != nil {
					covered, whole = cx.resetBefore(o.v, firstUse, 0)
				}
				if !whole && o.kind == "pool" {
					// reset before every Put of this pool
					var sites []putSite
					for recv, ps := range puts {
						if recv == o.pool {
							sites = ps
						}
					}
					var inter map[string]bool
					allWhole := len(sites) > 0
					for _, ps := range sites {
						f2, w2 := cx.resetBefore(ps.arg, ps.call, 0)
						if w2 {
							f2 = map[string]bool{}
							for _, n := range allFields {
								f2[n] = true
							}
						}
						allWhole = allWhole && w2
						if inter == nil {
							inter = f2
						} else {
							for k := range inter {
								if !f2[k] {
									delete(inter, k)
								}
							}
						}
					}
					if len(sites) == 0 {
						whole = true // nothing is ever put back: Get always runs New
					}
					for k := range inter {
						covered[k] = true
					}
					whole = whole || allWhole
				}
				if whole {
					continue
				}
				var missing []string
				for _, n := range allFields {
					if !covered[n] {
						missing = append(missing, n)
					}
				}
				if len(missing) > 0 {
					bad = fmt.Sprintf("the ShellMeta comes from %s in %s and field(s) %s are not reset before the request is decoded into it", o.what, kit.FuncName(o.fn), strings.Join(missing, ", "))
					break
				}
			}
			r.Decide(bad == "", "C25.R7", key, p.Pos(c.Pos()),
				"the meta is freshly allocated per request (or completely reset before decoding)",
				bad+": json.Unmarshal leaves absent keys untouched, so a request omitting them (e.g. \"password\") is authorised with a previous request's values")
		}
	}
	r.Count(cx.pre+"gate_entry_sites", nSites)
	r.Require(nSites >= 1, "floor: %sno call site hands a ShellMeta to the gate", cx.pre)
}

// ---------------------------------------------------------------- self-tests

const (
	c25E = "internal/shell/executor.go"
	c25H = "internal/shell/handler.go"
	c25P = "internal/shell/pty_unix.go"
	c25M = "internal/shell/messages.go"
)

const c25AcquireBody = "\te.mu.Lock()\n\tdefer e.mu.Unlock()\n\n\tif e.config.MaxSessions > 0 && e.sessions >= e.config.MaxSessions {\n\t\treturn fmt.Errorf(\"max sessions (%d) reached\", e.config.MaxSessions)\n\t}\n\n\te.sessions++\n\treturn nil\n"

var c25SelfTests = []SelfTest{
	// ---- mutants
	{Name: "IsCommandAllowed removed from the gate", ExpectRule: "C25.R2", ExpectKey: "IsCommandAllowed", Edits: []Edit{
		{File: c25E, Old: "\tif !e.IsCommandAllowed(meta.Command) {\n\t\treturn fmt.Errorf(\"command '%s' is not allowed\", meta.Command)\n\t}\n\n", New: ""},
	}},
	{Name: "ValidateAuth removed from the gate", ExpectRule: "C25.R2", ExpectKey: "ValidateAuth", Edits: []Edit{
		{File: c25E, Old: "\tif err := e.ValidateAuth(meta.Password); err != nil {\n\t\treturn err\n\t}\n\n", New: ""},
	}},
	{Name: "auth failure ignored for empty passwords", ExpectRule: "C25.R2", ExpectKey: "ValidateAuth", Edits: []Edit{
		{File: c25E, Old: "if err := e.ValidateAuth(meta.Password); err != nil {", New: "if err := e.ValidateAuth(meta.Password); err != nil && meta.Password != \"\" {"},
	}},
	{Name: "Enabled check removed from the gate", ExpectRule: "C25.R2", ExpectKey: "Enabled", Edits: []Edit{
		{File: c25E, Old: "\tif !e.config.Enabled {\n\t\treturn fmt.Errorf(\"shell is disabled\")\n\t}\n\n", New: ""},
	}},
	{Name: "arguments not validated (nil passed)", ExpectRule: "C25.R2", ExpectKey: "ValidateArgs", Edits: []Edit{
		{File: c25E, Old: "e.ValidateArgs(meta.Args); err != nil {", New: "e.ValidateArgs(nil); err != nil {"},
	}},
	{Name: "command checked is not the command executed", ExpectRule: "C25.R2", ExpectKey: "IsCommandAllowed", Edits: []Edit{
		{File: c25E, Old: "if !e.IsCommandAllowed(meta.Command) {", New: "if !e.IsCommandAllowed(meta.WorkDir) {"},
	}},
	{Name: "session slot not acquired", ExpectRule: "C25.R2", ExpectKey: "AcquireSession", Edits: []Edit{
		{File: c25E, Old: "\treturn e.AcquireSession()\n", New: "\tgo e.AcquireSession()\n\treturn nil\n"},
	}},
	{Name: "exec before validation (PTY)", ExpectRule: "C25.R1", ExpectKey: "NewPTYSession process construction", Edits: []Edit{
		{File: c25P, Old: "\tif err := e.validateAndAcquire(meta); err != nil {\n\t\treturn nil, err\n\t}\n\n\tsessionCtx, cancel := context.WithCancel(ctx)\n\n\t// Create command\n\tcmd := exec.CommandContext(sessionCtx, meta.Command, meta.Args...)\n", New: "\tsessionCtx, cancel := context.WithCancel(ctx)\n\n\t// Create command\n\tcmd := exec.CommandContext(sessionCtx, meta.Command, meta.Args...)\n\tif err := e.validateAndAcquire(meta); err != nil {\n\t\tcancel()\n\t\treturn nil, err\n\t}\n"},
	}},
	{Name: "gate error ignored in NewSession", ExpectRule: "C25.R1", ExpectKey: "NewSession process construction", Edits: []Edit{
		{File: c25E, Old: "(*Session, error) {\n\tif err := e.validateAndAcquire(meta); err != nil {", New: "(*Session, error) {\n\tif err := e.validateAndAcquire(meta); err != nil && ctx == nil {"},
	}},
	{Name: "command wrapped in a shell", ExpectRule: "C25.R1", ExpectKey: "NewSession process construction", Edits: []Edit{
		{File: c25E, Old: "exec.CommandContext(sessionCtx, meta.Command, meta.Args...)", New: "exec.CommandContext(sessionCtx, \"/bin/sh\", append([]string{\"-c\", meta.Command}, meta.Args...)...)"},
	}},
	{Name: "second, ungated exec helper", ExpectRule: "C25.R1", ExpectKey: "process construction", Edits: []Edit{
		{File: c25E, Old: "// RequireDrain arms the Session", New: "func (e *Executor) Quick(ctx context.Context, meta *ShellMeta) ([]byte, error) {\n\treturn exec.CommandContext(ctx, meta.Command, meta.Args...).Output()\n}\n\n// RequireDrain arms the Session"},
	}},
	{Name: "bcrypt result inverted", ExpectRule: "C25.R3", ExpectKey: "ValidateAuth", Edits: []Edit{
		{File: c25E, Old: "\tif err != nil {\n\t\treturn fmt.Errorf(\"invalid credentials\")", New: "\tif err == nil {\n\t\treturn fmt.Errorf(\"invalid credentials\")"},
	}},
	{Name: "empty password accepted", ExpectRule: "C25.R3", ExpectKey: "ValidateAuth", Edits: []Edit{
		{File: c25E, Old: "\tif password == \"\" {\n\t\treturn fmt.Errorf(\"authentication required\")\n\t}", New: "\tif password == \"\" {\n\t\treturn nil\n\t}"},
	}},
	{Name: "password compared with the hash itself", ExpectRule: "C25.R3", ExpectKey: "ValidateAuth", Edits: []Edit{
		{File: c25E, Old: "\tif password == \"\" {\n\t\treturn fmt.Errorf(\"authentication required\")\n\t}", New: "\tif password == hash {\n\t\treturn nil\n\t}"},
	}},
	{Name: "whitelist prefix match", ExpectRule: "C25.R3", ExpectKey: "IsCommandAllowed", Edits: []Edit{
		{File: c25E, Old: "if allowed == command {", New: "if strings.HasPrefix(command, allowed) {"},
	}},
	{Name: "whitelist case-insensitive match", ExpectRule: "C25.R3", ExpectKey: "IsCommandAllowed", Edits: []Edit{
		{File: c25E, Old: "if allowed == command {", New: "if strings.EqualFold(allowed, command) {"},
	}},
	{Name: "backslash no longer rejected in command", ExpectRule: "C25.R3", ExpectKey: "IsCommandAllowed", Edits: []Edit{
		{File: c25E, Old: "strings.ContainsAny(command, \"/\\\\\")", New: "strings.ContainsAny(command, \"/\")"},
	}},
	{Name: "non-empty whitelist allows everything", ExpectRule: "C25.R3", ExpectKey: "IsCommandAllowed", Edits: []Edit{
		{File: c25E, Old: "\tif len(e.config.Whitelist) == 0 {\n\t\treturn false\n\t}\n\n\tif e.hasWildcard() {", New: "\tif len(e.config.Whitelist) == 0 {\n\t\treturn false\n\t}\n\n\tif e.hasWildcard() || !e.config.Enabled {"},
	}},
	{Name: "metacharacter dropped from the pattern", ExpectRule: "C25.R4", ExpectKey: "metacharacter \"~\"", Edits: []Edit{
		{File: c25E, Old: "`(){}[\\]<>\\\\!*?~]`)", New: "`(){}[\\]<>\\\\!*?]`)"},
	}},
	{Name: "backtick dropped from the pattern", ExpectRule: "C25.R4", ExpectKey: "metacharacter \"`\"", Edits: []Edit{
		{File: c25E, Old: "regexp.MustCompile(`[;&|$` + \"`\" + `(){}", New: "regexp.MustCompile(`[;&|$` + \"\" + `(){}"},
	}},
	{Name: "pattern anchored to the first character", ExpectRule: "C25.R4", ExpectKey: "nil-return", Edits: []Edit{
		{File: c25E, Old: "regexp.MustCompile(`[;&|$`", New: "regexp.MustCompile(`^[;&|$`"},
	}},
	{Name: "absolute paths only rejected after the first argument", ExpectRule: "C25.R4", ExpectKey: "nil-return", Edits: []Edit{
		{File: c25E, Old: "if filepath.IsAbs(arg) {", New: "if filepath.IsAbs(arg) && i > 0 {"},
	}},
	{Name: "metacharacters only rejected in the first argument", ExpectRule: "C25.R4", ExpectKey: "nil-return", Edits: []Edit{
		{File: c25E, Old: "if dangerousArgPattern.MatchString(arg) {", New: "if dangerousArgPattern.MatchString(arg) && i == 0 {"},
	}},
	{Name: "only the first argument is examined", ExpectRule: "C25.R4", ExpectKey: "nil-return", Edits: []Edit{
		{File: c25E, Old: "\tfor i, arg := range args {\n", New: "\tfor i, arg := range args[:min(1, len(args))] {\n"},
	}},
	{Name: "pattern replaced at run time", ExpectRule: "C25.R4", ExpectKey: "nil-return", Edits: []Edit{
		{File: c25E, Old: "func NewExecutor(cfg Config) *Executor {\n", New: "func NewExecutor(cfg Config) *Executor {\n\tif cfg.Timeout < 0 {\n\t\tdangerousArgPattern = regexp.MustCompile(`[;]`)\n\t}\n"},
	}},
	{Name: "wildcard test weakened to substring", ExpectRule: "C25.R6", ExpectKey: "hasWildcard", Edits: []Edit{
		{File: c25E, Old: "\t\tif w == \"*\" {", New: "\t\tif strings.Contains(w, \"*\") {"},
	}},
	{Name: "empty whitelist treated as wildcard", ExpectRule: "C25.R6", ExpectKey: "hasWildcard", Edits: []Edit{
		{File: c25E, Old: "\t\tif w == \"*\" {\n\t\t\treturn true\n\t\t}\n\t}\n\treturn false", New: "\t\tif w == \"*\" {\n\t\t\treturn true\n\t\t}\n\t}\n\treturn len(e.config.Whitelist) == 0"},
	}},
	{Name: "sessions incremented outside the mutex", ExpectRule: "C25.R5", ExpectKey: "write of sessions", Edits: []Edit{
		{File: c25E, Old: c25AcquireBody, New: "\te.mu.Lock()\n\tif e.config.MaxSessions > 0 && e.sessions >= e.config.MaxSessions {\n\t\te.mu.Unlock()\n\t\treturn fmt.Errorf(\"max sessions (%d) reached\", e.config.MaxSessions)\n\t}\n\te.mu.Unlock()\n\n\te.sessions++\n\treturn nil\n"},
	}},
	{Name: "check and increment in separate critical sections", ExpectRule: "C25.R5", ExpectKey: "write of sessions", Edits: []Edit{
		{File: c25E, Old: c25AcquireBody, New: "\te.mu.Lock()\n\tif e.config.MaxSessions > 0 && e.sessions >= e.config.MaxSessions {\n\t\te.mu.Unlock()\n\t\treturn fmt.Errorf(\"max sessions (%d) reached\", e.config.MaxSessions)\n\t}\n\te.mu.Unlock()\n\n\te.mu.Lock()\n\te.sessions++\n\te.mu.Unlock()\n\treturn nil\n"},
	}},
	{Name: "session bound off by one", ExpectRule: "C25.R5", ExpectKey: "write of sessions", Edits: []Edit{
		{File: c25E, Old: "e.sessions >= e.config.MaxSessions {", New: "e.sessions > e.config.MaxSessions {"},
	}},
	{Name: "bound skipped for small maxima", ExpectRule: "C25.R5", ExpectKey: "write of sessions", Edits: []Edit{
		{File: c25E, Old: "if e.config.MaxSessions > 0 && e.sessions >= e.config.MaxSessions {", New: "if e.config.MaxSessions > 1 && e.sessions >= e.config.MaxSessions {"},
	}},
	{Name: "counter reset on release", ExpectRule: "C25.R5", ExpectKey: "write of sessions", Edits: []Edit{
		{File: c25E, Old: "\tif e.sessions > 0 {\n\t\te.sessions--\n\t}", New: "\tif e.sessions > 0 {\n\t\te.sessions = 0\n\t}"},
	}},
	{Name: "slot released twice on an error path", ExpectRule: "C25.R5", ExpectKey: "NewSession return", Edits: []Edit{
		{File: c25E, Old: "\t\tcancel()\n\t\te.ReleaseSession()\n\t\treturn nil, fmt.Errorf(\"failed to create stdout pipe: %w\", err)", New: "\t\tcancel()\n\t\te.ReleaseSession()\n\t\te.ReleaseSession()\n\t\treturn nil, fmt.Errorf(\"failed to create stdout pipe: %w\", err)"},
	}},
	{Name: "slot released although the session is returned", ExpectRule: "C25.R5", ExpectKey: "NewPTYSession return", Edits: []Edit{
		{File: c25P, Old: "\treturn session, nil\n", New: "\te.ReleaseSession()\n\treturn session, nil\n"},
	}},
	{Name: "slot also released by the wait goroutine", ExpectRule: "C25.R5", ExpectKey: "release reference", Edits: []Edit{
		{File: c25P, Old: "\tgo func() {\n\t\terr := cmd.Wait()\n", New: "\tgo func() {\n\t\tdefer e.ReleaseSession()\n\t\terr := cmd.Wait()\n"},
	}},
	{Name: "once-flag dropped from the handler's release", ExpectRule: "C25.R5", ExpectKey: "release reference", Edits: []Edit{
		{File: c25H, Old: "\tif !ss.Released {\n\t\tss.Released = true\n", New: "\t{\n\t\tss.Released = true\n"},
	}},
	{Name: "once-flag never set", ExpectRule: "C25.R5", ExpectKey: "release reference", Edits: []Edit{
		{File: c25H, Old: "\tif !ss.Released {\n\t\tss.Released = true\n", New: "\tif !ss.Released {\n"},
	}},
	// ---- behaviour-preserving rewrites
	{Name: "rewrite: gate tail with a shared error variable", Edits: []Edit{
		{File: c25E, Old: "\tif !e.IsCommandAllowed(meta.Command) {\n\t\treturn fmt.Errorf(\"command '%s' is not allowed\", meta.Command)\n\t}\n\n\tif err := e.ValidateArgs(meta.Args); err != nil {\n\t\treturn err\n\t}\n\n\treturn e.AcquireSession()", New: "\tif allowed := e.IsCommandAllowed(meta.Command); allowed == false {\n\t\treturn fmt.Errorf(\"command '%s' is not allowed\", meta.Command)\n\t}\n\terr := e.ValidateArgs(meta.Args)\n\tif err == nil {\n\t\terr = e.AcquireSession()\n\t}\n\treturn err"},
	}},
	{Name: "rewrite: gate as one switch", Edits: []Edit{
		{File: c25E, Old: "\tif !e.config.Enabled {\n\t\treturn fmt.Errorf(\"shell is disabled\")\n\t}\n\n\tif err := e.ValidateAuth(meta.Password); err != nil {\n\t\treturn err\n\t}\n", New: "\tswitch {\n\tcase !e.config.Enabled:\n\t\treturn fmt.Errorf(\"shell is disabled\")\n\tcase e.ValidateAuth(meta.Password) != nil:\n\t\treturn fmt.Errorf(\"invalid credentials\")\n\t}\n"},
	}},
	{Name: "rewrite: whitelist membership via slices.Contains", Edits: []Edit{
		{File: c25E, Old: "\t\"regexp\"\n", New: "\t\"regexp\"\n\t\"slices\"\n"},
		{File: c25E, Old: "\tfor _, allowed := range e.config.Whitelist {\n\t\tif allowed == command {\n\t\t\treturn true\n\t\t}\n\t}\n\n\treturn false\n", New: "\treturn slices.Contains(e.config.Whitelist, command)\n"},
	}},
	{Name: "rewrite: separators rejected by two Contains calls", Edits: []Edit{
		{File: c25E, Old: "strings.ContainsAny(command, \"/\\\\\")", New: "strings.Contains(command, \"/\") || strings.Contains(command, \"\\\\\")"},
	}},
	{Name: "rewrite: classic index loop in ValidateArgs", Edits: []Edit{
		{File: c25E, Old: "\tfor i, arg := range args {\n", New: "\tfor i := 0; i < len(args); i++ {\n\t\targ := args[i]\n"},
	}},
	{Name: "rewrite: IsAbs tested before the pattern, wider class", Edits: []Edit{
		{File: c25E, Old: "\t\tif dangerousArgPattern.MatchString(arg) {\n\t\t\treturn fmt.Errorf(\"argument %d contains dangerous characters\", i)\n\t\t}\n", New: "\t\tif filepath.IsAbs(arg) || dangerousArgPattern.MatchString(arg) {\n\t\t\treturn fmt.Errorf(\"argument %d contains dangerous characters\", i)\n\t\t}\n"},
		{File: c25E, Old: "regexp.MustCompile(`[;&|$`", New: "regexp.MustCompile(`[;&|$#'\"`"},
	}},
	{Name: "rewrite: wildcard loop by index, operands swapped", Edits: []Edit{
		{File: c25E, Old: "\tfor _, w := range e.config.Whitelist {\n\t\tif w == \"*\" {", New: "\tfor i := range e.config.Whitelist {\n\t\tif \"*\" == e.config.Whitelist[i] {"},
	}},
	{Name: "rewrite: explicit unlock in AcquireSession", Edits: []Edit{
		{File: c25E, Old: c25AcquireBody, New: "\te.mu.Lock()\n\tif e.config.MaxSessions > 0 && e.sessions >= e.config.MaxSessions {\n\t\te.mu.Unlock()\n\t\treturn fmt.Errorf(\"max sessions (%d) reached\", e.config.MaxSessions)\n\t}\n\te.sessions++\n\te.mu.Unlock()\n\treturn nil\n"},
	}},
	{Name: "rewrite: bound comparison with swapped operands", Edits: []Edit{
		{File: c25E, Old: "if e.config.MaxSessions > 0 && e.sessions >= e.config.MaxSessions {", New: "if 0 < e.config.MaxSessions && !(e.config.MaxSessions > e.sessions) {"},
	}},
	{Name: "rewrite: bound as nested positive conditions", Edits: []Edit{
		{File: c25E, Old: c25AcquireBody, New: "\te.mu.Lock()\n\tdefer e.mu.Unlock()\n\n\tif e.config.MaxSessions <= 0 || e.sessions < e.config.MaxSessions {\n\t\te.sessions += 1\n\t\treturn nil\n\t}\n\treturn fmt.Errorf(\"max sessions (%d) reached\", e.config.MaxSessions)\n"},
	}},
	{Name: "rewrite: ValidateAuth returns nil inside the success branch", Edits: []Edit{
		{File: c25E, Old: "\terr := bcrypt.CompareHashAndPassword([]byte(hash), []byte(password))\n\tif err != nil {\n\t\treturn fmt.Errorf(\"invalid credentials\")\n\t}\n\n\treturn nil", New: "\tif err := bcrypt.CompareHashAndPassword([]byte(e.config.PasswordHash), []byte(password)); err == nil {\n\t\treturn nil\n\t}\n\treturn fmt.Errorf(\"invalid credentials\")"},
	}},
	{Name: "rewrite: once-flag tested with early return and deferred unlock", Edits: []Edit{
		{File: c25H, Old: "\tss.mu.Lock()\n\tif !ss.Released {\n\t\tss.Released = true\n", New: "\tss.mu.Lock()\n\tdefer ss.mu.Unlock()\n\tif ss.Released {\n\t\treturn\n\t}\n\t{\n\t\tss.Released = true\n"},
		{File: c25H, Old: "\t\t\tss.PTYSession.Close()\n\t\t\th.executor.ReleaseSession()\n\t\t}\n\t}\n\tss.mu.Unlock()\n", New: "\t\t\tss.PTYSession.Close()\n\t\t\th.executor.ReleaseSession()\n\t\t}\n\t}\n"},
	}},
	{Name: "rewrite: per-argument checks extracted into a helper", Edits: []Edit{
		{File: c25E, Old: "\t\tif dangerousArgPattern.MatchString(arg) {\n\t\t\treturn fmt.Errorf(\"argument %d contains dangerous characters\", i)\n\t\t}\n\t\tif filepath.IsAbs(arg) {\n\t\t\treturn fmt.Errorf(\"argument %d: absolute paths not allowed\", i)\n\t\t}\n\t}\n\treturn nil\n}\n", New: "\t\tif err := checkShellArg(i, arg); err != nil {\n\t\t\treturn err\n\t\t}\n\t}\n\treturn nil\n}\n\nfunc checkShellArg(i int, arg string) error {\n\tif dangerousArgPattern.MatchString(arg) {\n\t\treturn fmt.Errorf(\"argument %d contains dangerous characters\", i)\n\t}\n\tif filepath.IsAbs(arg) {\n\t\treturn fmt.Errorf(\"argument %d: absolute paths not allowed\", i)\n\t}\n\treturn nil\n}\n"},
	}},
	{Name: "per-argument helper forgets absolute paths", ExpectRule: "C25.R4", ExpectKey: "nil-return", Edits: []Edit{
		{File: c25E, Old: "\t\tif dangerousArgPattern.MatchString(arg) {\n\t\t\treturn fmt.Errorf(\"argument %d contains dangerous characters\", i)\n\t\t}\n\t\tif filepath.IsAbs(arg) {\n\t\t\treturn fmt.Errorf(\"argument %d: absolute paths not allowed\", i)\n\t\t}\n\t}\n\treturn nil\n}\n", New: "\t\tif err := checkShellArg(i, arg); err != nil {\n\t\t\treturn err\n\t\t}\n\t}\n\treturn nil\n}\n\nfunc checkShellArg(i int, arg string) error {\n\tif dangerousArgPattern.MatchString(arg) {\n\t\treturn fmt.Errorf(\"argument %d contains dangerous characters\", i)\n\t}\n\tif filepath.IsAbs(arg) && i > 0 {\n\t\treturn fmt.Errorf(\"argument %d: absolute paths not allowed\", i)\n\t}\n\treturn nil\n}\n"},
	}},
	{Name: "rewrite: command construction extracted into a helper", Edits: []Edit{
		{File: c25E, Old: "\tcmd := exec.CommandContext(sessionCtx, meta.Command, meta.Args...)\n", New: "\tcmd := buildShellCmd(sessionCtx, meta)\n"},
		{File: c25E, Old: "// RequireDrain arms the Session", New: "func buildShellCmd(ctx context.Context, meta *ShellMeta) *exec.Cmd {\n\treturn exec.CommandContext(ctx, meta.Command, meta.Args...)\n}\n\n// RequireDrain arms the Session"},
	}},
	{Name: "extracted construction helper also reachable without the gate", ExpectRule: "C25.R1", ExpectKey: "buildShellCmd process construction", Edits: []Edit{
		{File: c25E, Old: "\tcmd := exec.CommandContext(sessionCtx, meta.Command, meta.Args...)\n", New: "\tcmd := buildShellCmd(sessionCtx, meta)\n"},
		{File: c25E, Old: "// RequireDrain arms the Session", New: "func buildShellCmd(ctx context.Context, meta *ShellMeta) *exec.Cmd {\n\treturn exec.CommandContext(ctx, meta.Command, meta.Args...)\n}\n\nfunc (e *Executor) Probe(ctx context.Context, meta *ShellMeta) error {\n\treturn buildShellCmd(ctx, meta).Run()\n}\n\n// RequireDrain arms the Session"},
	}},
	{Name: "rewrite: wildcard test inlined into IsCommandAllowed", Edits: []Edit{
		{File: c25E, Old: "\tif e.hasWildcard() {\n\t\treturn true\n\t}\n\n\t// Only allow base command names", New: "\tfor _, w := range e.config.Whitelist {\n\t\tif w == \"*\" {\n\t\t\treturn true\n\t\t}\n\t}\n\n\t// Only allow base command names"},
	}},
	// ---- round 2: request freshness, callbacks, fast paths
	{Name: "pooled request metadata, reset omits the password", ExpectRule: "C25.R7", ExpectKey: "meta for", Edits: []Edit{
		{File: c25M, Old: "\t\"fmt\"\n)", New: "\t\"fmt\"\n\t\"sync\"\n)"},
		{File: c25M, Old: "\tvar meta ShellMeta\n\tif err := json.Unmarshal(payload, &meta); err != nil {\n\t\treturn nil, fmt.Errorf(\"failed to unmarshal meta: %w\", err)\n\t}\n\treturn &meta, nil\n}\n", New: "\tmeta := metaPool.Get().(*ShellMeta)\n\tif err := json.Unmarshal(payload, meta); err != nil {\n\t\treturn nil, fmt.Errorf(\"failed to unmarshal meta: %w\", err)\n\t}\n\treturn meta, nil\n}\n\nvar metaPool = sync.Pool{New: func() any { return new(ShellMeta) }}\n\n// ReleaseMeta recycles meta.\nfunc ReleaseMeta(meta *ShellMeta) {\n\tif meta == nil {\n\t\treturn\n\t}\n\tmeta.Command = \"\"\n\tmeta.Args = meta.Args[:0]\n\tclear(meta.Env)\n\tmeta.WorkDir = \"\"\n\tmeta.TTY = nil\n\tmeta.Timeout = 0\n\tmetaPool.Put(meta)\n}\n"},
		{File: c25H, Old: "\t\t\tss.PTYSession.Close()\n\t\t\th.executor.ReleaseSession()\n\t\t}\n", New: "\t\t\tss.PTYSession.Close()\n\t\t\th.executor.ReleaseSession()\n\t\t}\n\t\tif ss.Meta != nil {\n\t\t\tReleaseMeta(ss.Meta)\n\t\t\tss.Meta = nil\n\t\t}\n"},
	}},
	{Name: "request decoded into a package-level scratch value", ExpectRule: "C25.R7", ExpectKey: "meta for", Edits: []Edit{
		{File: c25M, Old: "\tvar meta ShellMeta\n\tif err := json.Unmarshal(payload, &meta); err != nil {\n\t\treturn nil, fmt.Errorf(\"failed to unmarshal meta: %w\", err)\n\t}\n\treturn &meta, nil\n}\n", New: "\tmeta := &decodeScratch\n\tif err := json.Unmarshal(payload, meta); err != nil {\n\t\treturn nil, fmt.Errorf(\"failed to unmarshal meta: %w\", err)\n\t}\n\treturn meta, nil\n}\n\nvar decodeScratch ShellMeta\n"},
	}},
	{Name: "request decoded into the previous metadata kept by the handler", ExpectRule: "C25.R7", ExpectKey: "meta for", Edits: []Edit{
		{File: c25M, Old: "\tvar meta ShellMeta\n\tif err := json.Unmarshal(payload, &meta); err != nil {\n\t\treturn nil, fmt.Errorf(\"failed to unmarshal meta: %w\", err)\n\t}\n\treturn &meta, nil\n}\n", New: "\treturn DecodeMetaInto(new(ShellMeta), payload)\n}\n\n// DecodeMetaInto decodes into dst.\nfunc DecodeMetaInto(dst *ShellMeta, payload []byte) (*ShellMeta, error) {\n\tif err := json.Unmarshal(payload, dst); err != nil {\n\t\treturn nil, fmt.Errorf(\"failed to unmarshal meta: %w\", err)\n\t}\n\treturn dst, nil\n}\n"},
		{File: c25H, Old: "\tmeta, err := DecodeMeta(payload)\n", New: "\tif h.lastMeta == nil {\n\t\th.lastMeta = new(ShellMeta)\n\t}\n\tmeta, err := DecodeMetaInto(h.lastMeta, payload)\n"},
		{File: c25H, Old: "\tstreams  map[uint64]*ShellStream\n", New: "\tstreams  map[uint64]*ShellStream\n\tlastMeta *ShellMeta\n"},
	}},
	{Name: "rewrite: pooled metadata zeroed as a whole before decoding", Edits: []Edit{
		{File: c25M, Old: "\t\"fmt\"\n)", New: "\t\"fmt\"\n\t\"sync\"\n)"},
		{File: c25M, Old: "\tvar meta ShellMeta\n\tif err := json.Unmarshal(payload, &meta); err != nil {\n\t\treturn nil, fmt.Errorf(\"failed to unmarshal meta: %w\", err)\n\t}\n\treturn &meta, nil\n}\n", New: "\tmeta := metaPool.Get().(*ShellMeta)\n\t*meta = ShellMeta{}\n\tif err := json.Unmarshal(payload, meta); err != nil {\n\t\treturn nil, fmt.Errorf(\"failed to unmarshal meta: %w\", err)\n\t}\n\treturn meta, nil\n}\n\nvar metaPool = sync.Pool{New: func() any { return new(ShellMeta) }}\n\n// ReleaseMeta recycles meta.\nfunc ReleaseMeta(meta *ShellMeta) {\n\tif meta == nil {\n\t\treturn\n\t}\n\tmeta.Command = \"\"\n\tmeta.Args = meta.Args[:0]\n\tclear(meta.Env)\n\tmeta.WorkDir = \"\"\n\tmeta.TTY = nil\n\tmeta.Timeout = 0\n\tmetaPool.Put(meta)\n}\n"},
		{File: c25H, Old: "\t\t\tss.PTYSession.Close()\n\t\t\th.executor.ReleaseSession()\n\t\t}\n", New: "\t\t\tss.PTYSession.Close()\n\t\t\th.executor.ReleaseSession()\n\t\t}\n\t\tif ss.Meta != nil {\n\t\t\tReleaseMeta(ss.Meta)\n\t\t\tss.Meta = nil\n\t\t}\n"},
	}},
	{Name: "rewrite: pooled metadata with a complete field-wise reset before Put", Edits: []Edit{
		{File: c25M, Old: "\t\"fmt\"\n)", New: "\t\"fmt\"\n\t\"sync\"\n)"},
		{File: c25M, Old: "\tvar meta ShellMeta\n\tif err := json.Unmarshal(payload, &meta); err != nil {\n\t\treturn nil, fmt.Errorf(\"failed to unmarshal meta: %w\", err)\n\t}\n\treturn &meta, nil\n}\n", New: "\tmeta := metaPool.Get().(*ShellMeta)\n\tif err := json.Unmarshal(payload, meta); err != nil {\n\t\treturn nil, fmt.Errorf(\"failed to unmarshal meta: %w\", err)\n\t}\n\treturn meta, nil\n}\n\nvar metaPool = sync.Pool{New: func() any { return new(ShellMeta) }}\n\n// ReleaseMeta recycles meta.\nfunc ReleaseMeta(meta *ShellMeta) {\n\tif meta == nil {\n\t\treturn\n\t}\n\tmeta.Command = \"\"\n\tmeta.Args = meta.Args[:0]\n\tclear(meta.Env)\n\tmeta.WorkDir = \"\"\n\tmeta.TTY = nil\n\tmeta.Timeout = 0\n\tmeta.Password = \"\"\n\tmetaPool.Put(meta)\n}\n"},
		{File: c25H, Old: "\t\t\tss.PTYSession.Close()\n\t\t\th.executor.ReleaseSession()\n\t\t}\n", New: "\t\t\tss.PTYSession.Close()\n\t\t\th.executor.ReleaseSession()\n\t\t}\n\t\tif ss.Meta != nil {\n\t\t\tReleaseMeta(ss.Meta)\n\t\t\tss.Meta = nil\n\t\t}\n"},
	}},
	{Name: "rewrite: DecodeMeta allocates with new and decodes through a helper", Edits: []Edit{
		{File: c25M, Old: "\tvar meta ShellMeta\n\tif err := json.Unmarshal(payload, &meta); err != nil {\n\t\treturn nil, fmt.Errorf(\"failed to unmarshal meta: %w\", err)\n\t}\n\treturn &meta, nil\n}\n", New: "\treturn decodeMetaInto(new(ShellMeta), payload)\n}\n\nfunc decodeMetaInto(dst *ShellMeta, payload []byte) (*ShellMeta, error) {\n\tif err := json.Unmarshal(payload, dst); err != nil {\n\t\treturn nil, fmt.Errorf(\"failed to unmarshal meta: %w\", err)\n\t}\n\treturn dst, nil\n}\n"},
	}},
	{Name: "session carries its own release callback (double release on a failed start)", ExpectRule: "C25.R5", ExpectKey: "release reference", Edits: []Edit{
		{File: c25E, Old: "\tstartTime   time.Time\n}", New: "\tstartTime   time.Time\n\trelease     func()\n}"},
		{File: c25E, Old: "\t\tstartTime: time.Now(),\n\t}\n\n\treturn session, nil\n", New: "\t\tstartTime: time.Now(),\n\t\trelease:   e.ReleaseSession,\n\t}\n\n\treturn session, nil\n"},
		{File: c25E, Old: "\tif err := s.cmd.Start(); err != nil {\n\t\ts.mu.Unlock()\n", New: "\tif err := s.cmd.Start(); err != nil {\n\t\ts.mu.Unlock()\n\t\ts.cancel()\n\t\tif s.release != nil {\n\t\t\ts.release()\n\t\t}\n"},
	}},
	{Name: "validation skipped for long argument lists", ExpectRule: "C25.R4", ExpectKey: "nil-return", Edits: []Edit{
		{File: c25E, Old: "\tfor i, arg := range args {\n", New: "\tif len(args) > 8 {\n\t\treturn nil\n\t}\n\tfor i, arg := range args {\n"},
	}},
	{Name: "rewrite: fast path for an empty argument list", Edits: []Edit{
		{File: c25E, Old: "\tfor i, arg := range args {\n", New: "\tif len(args) == 0 {\n\t\treturn nil\n\t}\n\tfor i, arg := range args {\n"},
	}},
	{Name: "whitelist compared with a normalised command", ExpectRule: "C25.R3", ExpectKey: "IsCommandAllowed", Edits: []Edit{
		{File: c25E, Old: "if allowed == command {", New: "if allowed == strings.TrimSpace(command) {"},
	}},
	{Name: "last good password remembered", ExpectRule: "C25.R3", ExpectKey: "ValidateAuth", Edits: []Edit{
		{File: c25E, Old: "\terr := bcrypt.CompareHashAndPassword([]byte(hash), []byte(password))\n", New: "\tif password == lastGoodPassword {\n\t\treturn nil\n\t}\n\terr := bcrypt.CompareHashAndPassword([]byte(hash), []byte(password))\n"},
		{File: c25E, Old: "// dangerousArgPattern matches shell metacharacters", New: "var lastGoodPassword = \"\"\n\n// dangerousArgPattern matches shell metacharacters"},
	}},
	{Name: "already validated metadata skips the gate", ExpectRule: "C25.R1", ExpectKey: "NewSession process construction", Edits: []Edit{
		{File: c25E, Old: "(*Session, error) {\n\tif err := e.validateAndAcquire(meta); err != nil {\n\t\treturn nil, err\n\t}", New: "(*Session, error) {\n\tif meta.Timeout >= 0 {\n\t\tif err := e.validateAndAcquire(meta); err != nil {\n\t\t\treturn nil, err\n\t\t}\n\t}"},
	}},
	{Name: "rewrite: gate delegates the command and argument checks to a helper", Edits: []Edit{
		{File: c25E, Old: "\tif !e.IsCommandAllowed(meta.Command) {\n\t\treturn fmt.Errorf(\"command '%s' is not allowed\", meta.Command)\n\t}\n\n\tif err := e.ValidateArgs(meta.Args); err != nil {\n\t\treturn err\n\t}\n\n\treturn e.AcquireSession()\n}\n", New: "\tif err := e.checkCommand(meta); err != nil {\n\t\treturn err\n\t}\n\n\treturn e.AcquireSession()\n}\n\nfunc (e *Executor) checkCommand(meta *ShellMeta) error {\n\tif !e.IsCommandAllowed(meta.Command) {\n\t\treturn fmt.Errorf(\"command '%s' is not allowed\", meta.Command)\n\t}\n\treturn e.ValidateArgs(meta.Args)\n}\n"},
	}},
	{Name: "merged helper accepts when either check passes", ExpectRule: "C25.R2", ExpectKey: "requires", Edits: []Edit{
		{File: c25E, Old: "\tif !e.IsCommandAllowed(meta.Command) {\n\t\treturn fmt.Errorf(\"command '%s' is not allowed\", meta.Command)\n\t}\n\n\tif err := e.ValidateArgs(meta.Args); err != nil {\n\t\treturn err\n\t}\n\n\treturn e.AcquireSession()\n}\n", New: "\tif err := e.checkCommand(meta); err != nil {\n\t\treturn err\n\t}\n\n\treturn e.AcquireSession()\n}\n\nfunc (e *Executor) checkCommand(meta *ShellMeta) error {\n\tif e.IsCommandAllowed(meta.Command) || e.ValidateArgs(meta.Args) == nil {\n\t\treturn nil\n\t}\n\treturn fmt.Errorf(\"command '%s' is not allowed\", meta.Command)\n}\n"},
	}},
	// ---- round 3: refactoring classes
	{Name: "rewrite: ValidateArgs via slices.IndexFunc with a per-argument predicate", Edits: []Edit{
		{File: c25E, Old: "\t\"regexp\"\n", New: "\t\"regexp\"\n\t\"slices\"\n"},
		{File: c25E, Old: "\tfor i, arg := range args {\n\t\tif dangerousArgPattern.MatchString(arg) {\n\t\t\treturn fmt.Errorf(\"argument %d contains dangerous characters\", i)\n\t\t}\n\t\tif filepath.IsAbs(arg) {\n\t\t\treturn fmt.Errorf(\"argument %d: absolute paths not allowed\", i)\n\t\t}\n\t}\n\treturn nil\n}\n", New: "\tif i := slices.IndexFunc(args, unsafeShellArg); i >= 0 {\n\t\treturn fmt.Errorf(\"argument %d is not allowed\", i)\n\t}\n\treturn nil\n}\n\nfunc unsafeShellArg(arg string) bool {\n\treturn dangerousArgPattern.MatchString(arg) || filepath.IsAbs(arg)\n}\n"},
	}},
	{Name: "IndexFunc predicate requires both conditions", ExpectRule: "C25.R4", ExpectKey: "nil-return", Edits: []Edit{
		{File: c25E, Old: "\t\"regexp\"\n", New: "\t\"regexp\"\n\t\"slices\"\n"},
		{File: c25E, Old: "\tfor i, arg := range args {\n\t\tif dangerousArgPattern.MatchString(arg) {\n\t\t\treturn fmt.Errorf(\"argument %d contains dangerous characters\", i)\n\t\t}\n\t\tif filepath.IsAbs(arg) {\n\t\t\treturn fmt.Errorf(\"argument %d: absolute paths not allowed\", i)\n\t\t}\n\t}\n\treturn nil\n}\n", New: "\tif i := slices.IndexFunc(args, unsafeShellArg); i >= 0 {\n\t\treturn fmt.Errorf(\"argument %d is not allowed\", i)\n\t}\n\treturn nil\n}\n\nfunc unsafeShellArg(arg string) bool {\n\treturn dangerousArgPattern.MatchString(arg) && filepath.IsAbs(arg)\n}\n"},
	}},
	{Name: "rewrite: session accounting extracted into a limiter struct with its own mutex", Edits: []Edit{
		{File: c25E, Old: "type Executor struct {\n\tconfig   Config\n\tmu       sync.Mutex\n\tsessions int // Active session count\n}", New: "type Executor struct {\n\tconfig  Config\n\tlimiter sessionLimiter\n}\n\ntype sessionLimiter struct {\n\tmu     sync.Mutex\n\tactive int\n}\n\nfunc (l *sessionLimiter) acquire(max int) bool {\n\tl.mu.Lock()\n\tdefer l.mu.Unlock()\n\tif max > 0 && l.active >= max {\n\t\treturn false\n\t}\n\tl.active++\n\treturn true\n}\n\nfunc (l *sessionLimiter) release() {\n\tl.mu.Lock()\n\tdefer l.mu.Unlock()\n\tif l.active > 0 {\n\t\tl.active--\n\t}\n}\n\nfunc (l *sessionLimiter) count() int {\n\tl.mu.Lock()\n\tdefer l.mu.Unlock()\n\treturn l.active\n}"},
		{File: c25E, Old: c25AcquireBody, New: "\tif !e.limiter.acquire(e.config.MaxSessions) {\n\t\treturn fmt.Errorf(\"max sessions (%d) reached\", e.config.MaxSessions)\n\t}\n\treturn nil\n"},
		{File: c25E, Old: "\te.mu.Lock()\n\tdefer e.mu.Unlock()\n\n\tif e.sessions > 0 {\n\t\te.sessions--\n\t}\n", New: "\te.limiter.release()\n"},
		{File: c25E, Old: "\te.mu.Lock()\n\tdefer e.mu.Unlock()\n\treturn e.sessions\n", New: "\treturn e.limiter.count()\n"},
	}},
	{Name: "limiter struct with an off-by-one bound", ExpectRule: "C25.R5", ExpectKey: "write of active", Edits: []Edit{
		{File: c25E, Old: "type Executor struct {\n\tconfig   Config\n\tmu       sync.Mutex\n\tsessions int // Active session count\n}", New: "type Executor struct {\n\tconfig  Config\n\tlimiter sessionLimiter\n}\n\ntype sessionLimiter struct {\n\tmu     sync.Mutex\n\tactive int\n}\n\nfunc (l *sessionLimiter) acquire(max int) bool {\n\tl.mu.Lock()\n\tdefer l.mu.Unlock()\n\tif max > 0 && l.active > max {\n\t\treturn false\n\t}\n\tl.active++\n\treturn true\n}\n\nfunc (l *sessionLimiter) release() {\n\tl.mu.Lock()\n\tdefer l.mu.Unlock()\n\tif l.active > 0 {\n\t\tl.active--\n\t}\n}\n\nfunc (l *sessionLimiter) count() int {\n\tl.mu.Lock()\n\tdefer l.mu.Unlock()\n\treturn l.active\n}"},
		{File: c25E, Old: c25AcquireBody, New: "\tif !e.limiter.acquire(e.config.MaxSessions) {\n\t\treturn fmt.Errorf(\"max sessions (%d) reached\", e.config.MaxSessions)\n\t}\n\treturn nil\n"},
		{File: c25E, Old: "\te.mu.Lock()\n\tdefer e.mu.Unlock()\n\n\tif e.sessions > 0 {\n\t\te.sessions--\n\t}\n", New: "\te.limiter.release()\n"},
		{File: c25E, Old: "\te.mu.Lock()\n\tdefer e.mu.Unlock()\n\treturn e.sessions\n", New: "\treturn e.limiter.count()\n"},
	}},
	// ---- round 5: refactoring classes
	{Name: "rewrite: construction error clean-up in a local closure", Edits: []Edit{
		{File: c25E, Old: "\t// Create command\n\tcmd := exec.CommandContext(sessionCtx, meta.Command, meta.Args...)\n", New: "\t// abandon undoes what has been set up so far.\n\tabandon := func(opened ...io.Closer) {\n\t\tfor _, c := range opened {\n\t\t\tc.Close()\n\t\t}\n\t\tcancel()\n\t\te.ReleaseSession()\n\t}\n\n\t// Create command\n\tcmd := exec.CommandContext(sessionCtx, meta.Command, meta.Args...)\n"},
		{File: c25E, Old: "\t\tstdin.Close()\n\t\tstdout.Close()\n\t\tcancel()\n\t\te.ReleaseSession()\n\t\treturn nil, fmt.Errorf(\"failed to create stderr pipe", New: "\t\tabandon(stdin, stdout)\n\t\treturn nil, fmt.Errorf(\"failed to create stderr pipe"},
		{File: c25E, Old: "\t\tstdin.Close()\n\t\tcancel()\n\t\te.ReleaseSession()\n\t\treturn nil, fmt.Errorf(\"failed to create stdout pipe", New: "\t\tabandon(stdin)\n\t\treturn nil, fmt.Errorf(\"failed to create stdout pipe"},
		{File: c25E, Old: "\t\tcancel()\n\t\te.ReleaseSession()\n\t\treturn nil, fmt.Errorf(\"failed to create stdin pipe", New: "\t\tabandon()\n\t\treturn nil, fmt.Errorf(\"failed to create stdin pipe"},
	}},
	{Name: "clean-up closure also run on the success path", ExpectRule: "C25.R5", ExpectKey: "NewSession return", Edits: []Edit{
		{File: c25E, Old: "\t// Create command\n\tcmd := exec.CommandContext(sessionCtx, meta.Command, meta.Args...)\n", New: "\t// abandon undoes what has been set up so far.\n\tabandon := func(opened ...io.Closer) {\n\t\tfor _, c := range opened {\n\t\t\tc.Close()\n\t\t}\n\t\tcancel()\n\t\te.ReleaseSession()\n\t}\n\n\t// Create command\n\tcmd := exec.CommandContext(sessionCtx, meta.Command, meta.Args...)\n"},
		{File: c25E, Old: "\t\tstdin.Close()\n\t\tstdout.Close()\n\t\tcancel()\n\t\te.ReleaseSession()\n\t\treturn nil, fmt.Errorf(\"failed to create stderr pipe", New: "\t\tabandon(stdin, stdout)\n\t\treturn nil, fmt.Errorf(\"failed to create stderr pipe"},
		{File: c25E, Old: "\t\tstdin.Close()\n\t\tcancel()\n\t\te.ReleaseSession()\n\t\treturn nil, fmt.Errorf(\"failed to create stdout pipe", New: "\t\tabandon(stdin)\n\t\treturn nil, fmt.Errorf(\"failed to create stdout pipe"},
		{File: c25E, Old: "\t\tcancel()\n\t\te.ReleaseSession()\n\t\treturn nil, fmt.Errorf(\"failed to create stdin pipe", New: "\t\tabandon()\n\t\treturn nil, fmt.Errorf(\"failed to create stdin pipe"},
		{File: c25E, Old: "\treturn session, nil\n", New: "\tabandon()\n\treturn session, nil\n"},
	}},
	{Name: "clean-up closure deferred", ExpectRule: "C25.R5", ExpectKey: "release reference", Edits: []Edit{
		{File: c25E, Old: "\t// Create command\n\tcmd := exec.CommandContext(sessionCtx, meta.Command, meta.Args...)\n", New: "\t// abandon undoes what has been set up so far.\n\tabandon := func(opened ...io.Closer) {\n\t\tfor _, c := range opened {\n\t\t\tc.Close()\n\t\t}\n\t\tcancel()\n\t\te.ReleaseSession()\n\t}\n\n\t// Create command\n\tcmd := exec.CommandContext(sessionCtx, meta.Command, meta.Args...)\n"},
		{File: c25E, Old: "\t\tstdin.Close()\n\t\tstdout.Close()\n\t\tcancel()\n\t\te.ReleaseSession()\n\t\treturn nil, fmt.Errorf(\"failed to create stderr pipe", New: "\t\tabandon(stdin, stdout)\n\t\treturn nil, fmt.Errorf(\"failed to create stderr pipe"},
		{File: c25E, Old: "\t\tstdin.Close()\n\t\tcancel()\n\t\te.ReleaseSession()\n\t\treturn nil, fmt.Errorf(\"failed to create stdout pipe", New: "\t\tabandon(stdin)\n\t\treturn nil, fmt.Errorf(\"failed to create stdout pipe"},
		{File: c25E, Old: "\t\tcancel()\n\t\te.ReleaseSession()\n\t\treturn nil, fmt.Errorf(\"failed to create stdin pipe", New: "\t\tabandon()\n\t\treturn nil, fmt.Errorf(\"failed to create stdin pipe"},
		{File: c25E, Old: "\t// Set up pipes\n", New: "\tdefer abandon()\n\n\t// Set up pipes\n"},
	}},
	{Name: "rewrite: whitelist decided in one pass with a loop-carried flag, wildcard via slices.Index", Edits: []Edit{
		{File: c25E, Old: "\t\"regexp\"\n", New: "\t\"regexp\"\n\t\"slices\"\n"},
		{File: c25E, Old: "\tfor _, w := range e.config.Whitelist {\n\t\tif w == \"*\" {\n\t\t\treturn true\n\t\t}\n\t}\n\treturn false\n}", New: "\treturn slices.Index(e.config.Whitelist, \"*\") >= 0\n}"},
		{File: c25E, Old: "\tif len(e.config.Whitelist) == 0 {\n\t\treturn false\n\t}\n\n\tif e.hasWildcard() {\n\t\treturn true\n\t}\n\n\t// Only allow base command names - no paths allowed\n\tif strings.ContainsAny(command, \"/\\\\\") {\n\t\treturn false\n\t}\n\n\t// Command must match exactly (case-sensitive)\n\tfor _, allowed := range e.config.Whitelist {\n\t\tif allowed == command {\n\t\t\treturn true\n\t\t}\n\t}\n\n\treturn false\n}\n", New: "\tlisted := false\n\tfor _, entry := range e.config.Whitelist {\n\t\tif entry == \"*\" {\n\t\t\treturn true\n\t\t}\n\t\tif entry == command {\n\t\t\tlisted = true\n\t\t}\n\t}\n\treturn listed && !strings.ContainsAny(command, \"/\\\\\")\n}\n"},
	}},
	{Name: "one-pass whitelist flag set on a prefix match", ExpectRule: "C25.R3", ExpectKey: "IsCommandAllowed", Edits: []Edit{
		{File: c25E, Old: "\tif len(e.config.Whitelist) == 0 {\n\t\treturn false\n\t}\n\n\tif e.hasWildcard() {\n\t\treturn true\n\t}\n\n\t// Only allow base command names - no paths allowed\n\tif strings.ContainsAny(command, \"/\\\\\") {\n\t\treturn false\n\t}\n\n\t// Command must match exactly (case-sensitive)\n\tfor _, allowed := range e.config.Whitelist {\n\t\tif allowed == command {\n\t\t\treturn true\n\t\t}\n\t}\n\n\treturn false\n}\n", New: "\tlisted := false\n\tfor _, entry := range e.config.Whitelist {\n\t\tif entry == \"*\" {\n\t\t\treturn true\n\t\t}\n\t\tif strings.HasPrefix(command, entry) {\n\t\t\tlisted = true\n\t\t}\n\t}\n\treturn listed && !strings.ContainsAny(command, \"/\\\\\")\n}\n"},
	}},
	{Name: "wildcard via slices.Index with the wrong bound", ExpectRule: "C25.R6", ExpectKey: "hasWildcard", Edits: []Edit{
		{File: c25E, Old: "\t\"regexp\"\n", New: "\t\"regexp\"\n\t\"slices\"\n"},
		{File: c25E, Old: "\tfor _, w := range e.config.Whitelist {\n\t\tif w == \"*\" {\n\t\t\treturn true\n\t\t}\n\t}\n\treturn false\n}", New: "\treturn slices.Index(e.config.Whitelist, \"*\") >= -1\n}"},
	}},
}
