package rules

// Session model (shared by C01 and C02): a bounded, path-enumerating abstract evaluation of the
// SSA of the sealing/opening entry methods of crypto.SessionKey together with every repository
// function they call. Nothing from the repository is executed; the SSA is evaluated over an
// abstract domain chosen so that the clauses of C01/C02 become statements about paths:
//
//   - bytes are concrete, unknown, or "byte k of symbol+offset" (sxByte); integers are concrete,
//     symbol+offset (a 64-bit counter) or eight abstract bytes (so that shifts/ors/masks,
//     encoding/binary reads and writes, byte/array/uint32 comparisons all evaluate exactly);
//   - the role field is a concrete boolean of the analysed world, the received nonce prefix is
//     concrete (the prefix the send path produces for one of the roles);
//   - the shared counters are symbols with a *version*: acquiring the session mutex, or touching
//     a counter without holding it, yields a fresh version (another goroutine may have moved
//     the counter), so "read and write in one critical section" is "same version";
//   - the relation between the received counter C and a version E of the expected counter is
//     chosen (once per path and version) from a finite sample of differences C-E.
//
// A branch on an unknown condition is followed both ways (stateless depth-first search: the
// path is re-evaluated from the entry under the next decision vector). The rule sets inspect
// the event trace of every path (field loads/stores, lock operations, Seal/Open with the nonce
// bytes, the returned error).

import (
	"go/constant"
	"go/token"
	"go/types"
	"strings"

	"golang.org/x/tools/go/ssa"

	"mmverify/kit"
)

// ---------- values ----------

type sxKind uint8

const (
	sxUnknown sxKind = iota
	sxInt
	sxBool
	sxNil    // nil pointer / slice / interface / map / func
	sxNonNil // some non-nil reference (error value, AEAD, function, ...)
	sxPtr
	sxSlice
	sxArray
	sxTuple
)

// sxSym is a symbolic 64-bit quantity: one version of a shared counter field, or the counter
// carried by the received nonce (field == nil).
type sxSym struct {
	field *types.Var
	ver   int
}

type sxByteKind uint8

const (
	sbUnknown sxByteKind = iota
	sbConc
	sbPart // byte k (0 = least significant) of sym+off
)

type sxByte struct {
	kind sxByteKind
	c    uint8
	sym  *sxSym
	off  int64
	k    int
}

const (
	siConc uint8 = iota
	siLin
	siBytes
)

type sxVal struct {
	k     sxKind
	form  uint8  // sxInt: siConc / siLin / siBytes
	u     uint64 // siConc value (truncated to the width of its type)
	sym   *sxSym // siLin: sym + off
	off   int64
	by    *[8]sxByte    // siBytes, little-endian significance
	b     bool          // sxBool
	obj   int           // sxPtr / sxSlice: object id
	idx   int           // sxPtr: element index, -1 whole object, -2 unknown element; sxSlice: first element
	n     int           // sxSlice: length, -1 unknown
	elems []sxVal       // sxArray / sxTuple; closure bindings
	fn    *ssa.Function // sxNonNil: the closure's function, when known
	typ   types.Type    // sxNonNil made by MakeInterface: the dynamic type
	uid   int           // sxUnknown boolean: identity of the undetermined condition (0: none)
	neg   bool          // sxUnknown boolean: negation of condition uid
}

func sxConc(u uint64) sxVal            { return sxVal{k: sxInt, form: siConc, u: u} }
func sxBoolV(b bool) sxVal             { return sxVal{k: sxBool, b: b} }
func sxLinV(s *sxSym, off int64) sxVal { return sxVal{k: sxInt, form: siLin, sym: s, off: off} }

func (v sxVal) isConc() bool { return v.k == sxInt && v.form == siConc }

func sxIntInfo(t types.Type) (bits int, signed bool) {
	if b, ok := t.Underlying().(*types.Basic); ok {
		switch b.Kind() {
		case types.Int8:
			return 8, true
		case types.Uint8:
			return 8, false
		case types.Int16:
			return 16, true
		case types.Uint16:
			return 16, false
		case types.Int32:
			return 32, true
		case types.Uint32:
			return 32, false
		case types.Int, types.Int64, types.UntypedInt:
			return 64, true
		case types.Uint, types.Uint64, types.Uintptr:
			return 64, false
		}
	}
	return 0, false
}

func sxMask(u uint64, bits int) uint64 {
	if bits <= 0 || bits >= 64 {
		return u
	}
	return u & (1<<uint(bits) - 1)
}

func sxSignExt(u uint64, bits int) int64 {
	if bits <= 0 || bits >= 64 {
		return int64(u)
	}
	sh := uint(64 - bits)
	return int64(u<<sh) >> sh
}

// bytesOf gives the eight abstract bytes of an integer value.
func (v sxVal) bytesOf() [8]sxByte {
	var out [8]sxByte
	if v.k != sxInt {
		return out // all unknown
	}
	switch v.form {
	case siConc:
		for i := 0; i < 8; i++ {
			out[i] = sxByte{kind: sbConc, c: uint8(v.u >> (8 * uint(i)))}
		}
	case siLin:
		for i := 0; i < 8; i++ {
			out[i] = sxByte{kind: sbPart, sym: v.sym, off: v.off, k: i}
		}
	case siBytes:
		out = *v.by
	}
	return out
}

// sxFromBytes normalises eight abstract bytes into the most precise integer form.
func sxFromBytes(by [8]sxByte) sxVal {
	allConc, allUnk, lin := true, true, true
	for i, b := range by {
		if b.kind != sbConc {
			allConc = false
		}
		if b.kind != sbUnknown {
			allUnk = false
		}
		if b.kind != sbPart || b.k != i || b.sym != by[0].sym || b.off != by[0].off {
			lin = false
		}
	}
	switch {
	case allConc:
		var u uint64
		for i, b := range by {
			u |= uint64(b.c) << (8 * uint(i))
		}
		return sxConc(u)
	case lin:
		return sxLinV(by[0].sym, by[0].off)
	case allUnk:
		return sxVal{}
	}
	c := by
	return sxVal{k: sxInt, form: siBytes, by: &c}
}

func sxTruncBytes(by [8]sxByte, bits int) [8]sxByte {
	if bits <= 0 || bits >= 64 {
		return by
	}
	for i := bits / 8; i < 8; i++ {
		by[i] = sxByte{kind: sbConc}
	}
	return by
}

// byteVal converts an abstract byte into a uint8-typed value.
func sxByteVal(b sxByte) sxVal {
	var by [8]sxByte
	for i := range by {
		by[i] = sxByte{kind: sbConc}
	}
	by[0] = b
	if b.kind == sbUnknown {
		return sxVal{}
	}
	if b.kind == sbConc {
		return sxConc(uint64(b.c))
	}
	return sxVal{k: sxInt, form: siBytes, by: &by}
}

// sxLowByte gives the abstract low byte of a (uint8-typed) value.
func sxLowByte(v sxVal) sxByte {
	if v.k != sxInt {
		return sxByte{}
	}
	return v.bytesOf()[0]
}

func sxByteEq(a, b sxByte) (eq, known bool) {
	switch {
	case a.kind == sbConc && b.kind == sbConc:
		return a.c == b.c, true
	case a.kind == sbPart && b.kind == sbPart && a.sym == b.sym && a.off == b.off && a.k == b.k:
		return true, true
	}
	return false, false
}

// ---------- memory ----------

type sxObj struct {
	cells  []sxVal // scalar: one cell; array: the elements
	fields []int   // struct: object ids of the fields
	kind   uint8   // 0 scalar, 1 array, 2 struct
	open   bool    // array of unknown length (elements beyond cells are unknown)
	field  *types.Var
	elem   types.Type
	isSK   bool // the object is a SessionKey struct
}

// ---------- events ----------

type sxEvKind uint8

const (
	seLoad sxEvKind = iota
	seStore
	seLock
	seUnlock
	seSeal
	seOpen
	seNewAEAD
)

type sxEvent struct {
	kind   sxEvKind
	instr  ssa.Instruction
	field  *types.Var // load/store: the SessionKey field
	val    sxVal      // store: value written (scalar fields)
	cur    *sxSym     // store: the version of the counter the writer owns (nil: none, i.e. not exclusive)
	atomic bool       // store: part of a sync/atomic read-modify-write
	excl   bool       // the session mutex is held exclusively
	nonce  []sxByte   // Seal/Open
	errNil bool       // Open / NewAEAD outcome
	fromSK bool       // NewAEAD: key argument is the SessionKey key field
}

// sxPath is the trace of one explored path.
type sxPath struct {
	events  []sxEvent
	results []sxVal
	ended   string // "return", "panic", "truncated: ..."
	rel     map[*sxSym]int64
	relSeq  []*sxSym
}

// accepts: the path returns a nil error (last result).
func (pt *sxPath) accepts() bool {
	if pt.ended != "return" || len(pt.results) == 0 {
		return false
	}
	return pt.results[len(pt.results)-1].k == sxNil
}

func (pt *sxPath) rejects() bool {
	if pt.ended != "return" || len(pt.results) == 0 {
		return false
	}
	return pt.results[len(pt.results)-1].k != sxNil
}

// ---------- machine ----------

var sxDeltas = []int64{-1000, -2, -1, 0, 1, 2, 1000}

type sxDeferred struct {
	call ssa.CallInstruction
	args []sxVal
	fnv  sxVal
}

type sxMachine struct {
	cx *cryptoCtx
	// decision vector (persistent across the re-evaluations of one exploration)
	dec   []int
	arity []int
	pos   int
	// per-path state
	objs   []*sxObj
	events []sxEvent
	held   int
	rheld  int
	cur    map[*types.Var]*sxSym
	cell   map[*types.Var]int // counter field -> object id of its cell
	nsym   int
	wire   *sxSym
	recvF  *types.Var // the field C is related to
	rel    map[*sxSym]int64
	relSeq []*sxSym
	steps  int
	abort  string
	nuid   int
	cond   map[int]bool // outcome chosen for an undetermined condition on this path
	// accumulated over all paths of all explorations sharing the sink
	sink *sxCoverage
}

type sxCoverage struct {
	instrs map[ssa.Instruction]bool
	funcs  map[*ssa.Function]bool
}

func newSxCoverage() *sxCoverage {
	return &sxCoverage{instrs: map[ssa.Instruction]bool{}, funcs: map[*ssa.Function]bool{}}
}

func (m *sxMachine) choose(n int) int {
	if m.pos < len(m.dec) {
		v := m.dec[m.pos]
		m.pos++
		return v
	}
	m.dec = append(m.dec, 0)
	m.arity = append(m.arity, n)
	m.pos++
	return 0
}

// advance moves to the next decision vector; false when the search is complete.
func (m *sxMachine) advance() bool {
	for i := len(m.dec) - 1; i >= 0; i-- {
		if m.dec[i]+1 < m.arity[i] {
			m.dec[i]++
			m.dec = m.dec[:i+1]
			m.arity = m.arity[:i+1]
			return true
		}
	}
	return false
}

func (m *sxMachine) resetPath() {
	m.pos = 0
	m.objs = nil
	m.events = nil
	m.held, m.rheld = 0, 0
	m.cur = map[*types.Var]*sxSym{}
	m.cell = map[*types.Var]int{}
	m.nsym = 0
	m.rel = map[*sxSym]int64{}
	m.relSeq = nil
	m.steps = 0
	m.abort = ""
	m.nuid = 0
	m.cond = map[int]bool{}
	m.wire = &sxSym{}
}

// ---------- object construction ----------

func (m *sxMachine) addObj(o *sxObj) int {
	m.objs = append(m.objs, o)
	return len(m.objs) - 1
}

func sxIsByteType(t types.Type) bool {
	b, ok := t.Underlying().(*types.Basic)
	return ok && (b.Kind() == types.Uint8 || b.Kind() == types.Int8)
}

func (m *sxMachine) zero(t types.Type) sxVal {
	switch u := t.Underlying().(type) {
	case *types.Basic:
		switch {
		case u.Info()&types.IsBoolean != 0:
			return sxBoolV(false)
		case u.Info()&types.IsInteger != 0:
			return sxConc(0)
		}
		return sxVal{}
	case *types.Pointer, *types.Slice, *types.Interface, *types.Map, *types.Signature, *types.Chan:
		return sxVal{k: sxNil}
	case *types.Array:
		if u.Len() > 1<<12 {
			return sxVal{}
		}
		el := make([]sxVal, u.Len())
		for i := range el {
			el[i] = m.zero(u.Elem())
		}
		return sxVal{k: sxArray, elems: el}
	}
	return sxVal{}
}

// newObjOf allocates a zero-initialised object of type t. tag marks SessionKey fields.
func (m *sxMachine) newObjOf(t types.Type, tag *types.Var) int {
	switch u := t.Underlying().(type) {
	case *types.Array:
		n := int(u.Len())
		if n > 1<<12 {
			return m.addObj(&sxObj{kind: 1, open: true, field: tag, elem: u.Elem()})
		}
		o := &sxObj{kind: 1, field: tag, elem: u.Elem(), cells: make([]sxVal, n)}
		for i := range o.cells {
			o.cells[i] = m.zero(u.Elem())
		}
		return m.addObj(o)
	case *types.Struct:
		o := &sxObj{kind: 2, field: tag}
		id := m.addObj(o)
		o.isSK = tag == nil && types.Identical(types.Unalias(t), m.cx.sk)
		for i := 0; i < u.NumFields(); i++ {
			ft := tag
			if o.isSK {
				ft = u.Field(i) // fields of the session object are tagged with themselves
			}
			o.fields = append(o.fields, m.newObjOf(u.Field(i).Type(), ft))
		}
		return id
	}
	return m.addObj(&sxObj{kind: 0, field: tag, elem: t, cells: []sxVal{m.zero(t)}})
}

// ---------- loads and stores ----------

func (m *sxMachine) isCounter(f *types.Var) bool { return f != nil && m.cx.counters[f] }

func (m *sxMachine) fresh(f *types.Var) *sxSym {
	m.nsym++
	s := &sxSym{field: f, ver: m.nsym}
	m.cur[f] = s
	if id, ok := m.cell[f]; ok {
		m.objs[id].cells[0] = sxLinV(s, 0)
	}
	return s
}

func (m *sxMachine) load(p sxVal, at ssa.Instruction) sxVal {
	if p.k != sxPtr || p.obj < 0 || p.obj >= len(m.objs) {
		return sxVal{}
	}
	o := m.objs[p.obj]
	if o.field != nil && o.kind == 0 {
		if m.isCounter(o.field) && m.held == 0 && m.rheld == 0 {
			m.fresh(o.field) // an unprotected read sees whatever another goroutine left
		}
		m.events = append(m.events, sxEvent{kind: seLoad, instr: at, field: o.field, excl: m.held > 0})
	}
	switch o.kind {
	case 0:
		if p.idx == -1 {
			return o.cells[0]
		}
	case 1:
		switch {
		case p.idx == -1:
			if o.open {
				return sxVal{}
			}
			return sxVal{k: sxArray, elems: append([]sxVal(nil), o.cells...)}
		case p.idx >= 0 && p.idx < len(o.cells):
			return o.cells[p.idx]
		}
	}
	return sxVal{}
}

func (m *sxMachine) store(p sxVal, v sxVal, at ssa.Instruction, atomic bool) {
	if p.k != sxPtr || p.obj < 0 || p.obj >= len(m.objs) {
		return
	}
	o := m.objs[p.obj]
	if o.field != nil {
		ev := sxEvent{kind: seStore, instr: at, field: o.field, val: v, excl: m.held > 0, atomic: atomic}
		if m.isCounter(o.field) && (m.held > 0 || atomic) {
			ev.cur = m.cur[o.field]
		}
		m.events = append(m.events, ev)
	}
	switch o.kind {
	case 0:
		if p.idx == -1 {
			o.cells[0] = v
		}
	case 1:
		switch {
		case p.idx == -1:
			if v.k == sxArray && len(v.elems) == len(o.cells) {
				copy(o.cells, v.elems)
			} else {
				for i := range o.cells {
					o.cells[i] = sxVal{}
				}
			}
		case p.idx == -2:
			for i := range o.cells {
				o.cells[i] = sxVal{}
			}
		case p.idx >= 0:
			for p.idx >= len(o.cells) && o.open && p.idx < 1<<12 {
				o.cells = append(o.cells, sxVal{})
			}
			if p.idx < len(o.cells) {
				o.cells[p.idx] = v
			}
		}
	case 2:
		m.havocObj(p.obj, at)
	}
}

// havocObj makes the contents of an object (and of its fields) unknown; clearing part of the
// session object is recorded as a store.
func (m *sxMachine) havocObj(id int, at ssa.Instruction) {
	o := m.objs[id]
	if o.field != nil && o.kind != 2 && len(o.cells) > 0 {
		m.events = append(m.events, sxEvent{kind: seStore, instr: at, field: o.field, excl: m.held > 0})
	}
	for i := range o.cells {
		o.cells[i] = sxVal{}
	}
	for _, f := range o.fields {
		m.havocObj(f, at)
	}
}

// slice element access
func (m *sxMachine) sliceGet(s sxVal, i int) sxVal {
	if s.k != sxSlice || s.obj < 0 || s.obj >= len(m.objs) {
		return sxVal{}
	}
	o := m.objs[s.obj]
	j := s.idx + i
	if j >= 0 && j < len(o.cells) {
		return o.cells[j]
	}
	return sxVal{}
}

func (m *sxMachine) sliceSet(s sxVal, i int, v sxVal, at ssa.Instruction) {
	if s.k != sxSlice {
		return
	}
	m.store(sxVal{k: sxPtr, obj: s.obj, idx: s.idx + i}, v, at, false)
}

func (m *sxMachine) sliceBytes(s sxVal) ([]sxByte, bool) {
	if s.k != sxSlice || s.n < 0 {
		return nil, false
	}
	out := make([]sxByte, s.n)
	for i := range out {
		out[i] = sxLowByte(m.sliceGet(s, i))
	}
	return out, true
}

// ---------- locks ----------

func (m *sxMachine) lockOp(name string, at ssa.Instruction) {
	switch name {
	case "Lock":
		if m.held == 0 {
			for f := range m.cx.counters {
				m.fresh(f)
			}
		}
		m.held++
		m.events = append(m.events, sxEvent{kind: seLock, instr: at, excl: true})
	case "Unlock":
		if m.held > 0 {
			m.held--
		}
		m.events = append(m.events, sxEvent{kind: seUnlock, instr: at})
	case "RLock":
		if m.held == 0 && m.rheld == 0 {
			for f := range m.cx.counters {
				m.fresh(f)
			}
		}
		m.rheld++
	case "RUnlock":
		if m.rheld > 0 {
			m.rheld--
		}
	}
}

// ---------- relation between the received counter and the expected counter ----------

// diff returns a-b for two symbolic values when it is determined on this path.
func (m *sxMachine) diff(a, b sxVal) (int64, bool) {
	if a.k != sxInt || b.k != sxInt || a.form != siLin || b.form != siLin {
		return 0, false
	}
	if a.sym == b.sym {
		return a.off - b.off, true
	}
	if a.sym == m.wire && b.sym.field != nil && b.sym.field == m.recvF {
		return m.delta(b.sym) + a.off - b.off, true
	}
	if b.sym == m.wire && a.sym.field != nil && a.sym.field == m.recvF {
		return -(m.delta(a.sym) + b.off - a.off), true
	}
	return 0, false
}

// delta: C - E for version E of the expected counter, chosen once per path.
func (m *sxMachine) delta(e *sxSym) int64 {
	if d, ok := m.rel[e]; ok {
		return d
	}
	d := sxDeltas[m.choose(len(sxDeltas))]
	m.rel[e] = d
	m.relSeq = append(m.relSeq, e)
	return d
}

// ---------- evaluation ----------

const (
	sxMaxSteps   = 200000
	sxMaxVisits  = 5000
	sxMaxDepth   = 12
	sxLoopUnroll = 3
)

// sxLoopExit: for a block ending in an If, the index of the successor from which the block
// cannot be reached again (the loop exit), or -1 when there is no such unique successor.
func sxLoopExit(b *ssa.BasicBlock) int {
	if len(b.Succs) != 2 {
		return -1
	}
	back := func(from *ssa.BasicBlock) bool {
		seen := map[*ssa.BasicBlock]bool{}
		work := []*ssa.BasicBlock{from}
		for len(work) > 0 {
			x := work[len(work)-1]
			work = work[:len(work)-1]
			if x == b {
				return true
			}
			if seen[x] {
				continue
			}
			seen[x] = true
			work = append(work, x.Succs...)
		}
		return false
	}
	b0, b1 := back(b.Succs[0]), back(b.Succs[1])
	switch {
	case b0 && !b1:
		return 1
	case b1 && !b0:
		return 0
	}
	return -1
}

func (m *sxMachine) constVal(c *ssa.Const) sxVal {
	if c.Value == nil {
		return m.zero(c.Type())
	}
	switch c.Value.Kind() {
	case constant.Bool:
		return sxBoolV(constant.BoolVal(c.Value))
	case constant.Int:
		bits, _ := sxIntInfo(c.Type())
		if i, ok := constant.Int64Val(c.Value); ok {
			return sxConc(sxMask(uint64(i), bits))
		}
		if u, ok := constant.Uint64Val(c.Value); ok {
			return sxConc(sxMask(u, bits))
		}
	case constant.String:
		return sxVal{k: sxNonNil}
	}
	return sxVal{}
}

type sxFrame struct {
	fn     *ssa.Function
	env    map[ssa.Value]sxVal
	defers []sxDeferred
}

func (m *sxMachine) get(fr *sxFrame, v ssa.Value) sxVal {
	if v == nil {
		return sxVal{}
	}
	if x, ok := fr.env[v]; ok {
		return x
	}
	switch c := v.(type) {
	case *ssa.Const:
		return m.constVal(c)
	case *ssa.Function:
		return sxVal{k: sxNonNil}
	}
	return sxVal{}
}

// call evaluates fn on args. ok=false: the path ended inside (panic / truncation).
func (m *sxMachine) call(fn *ssa.Function, args []sxVal, free []sxVal, depth int) ([]sxVal, bool) {
	if len(fn.Blocks) == 0 {
		return nil, true
	}
	if m.sink != nil {
		m.sink.funcs[fn] = true
	}
	fr := &sxFrame{fn: fn, env: map[ssa.Value]sxVal{}}
	for i, p := range fn.Params {
		if i < len(args) {
			fr.env[p] = args[i]
		}
	}
	for i, fv := range fn.FreeVars {
		if i < len(free) {
			fr.env[fv] = free[i]
		}
	}
	visits := map[*ssa.BasicBlock]int{}
	b := fn.Blocks[0]
	var prev *ssa.BasicBlock
	for {
		visits[b]++
		if visits[b] > sxMaxVisits {
			m.abort = "truncated: loop bound exceeded in " + kit.FuncName(fn)
			return nil, false
		}
		// phis are evaluated simultaneously
		var phiVals []sxVal
		var phis []*ssa.Phi
		for _, in := range b.Instrs {
			ph, ok := in.(*ssa.Phi)
			if !ok {
				break
			}
			v := sxVal{}
			for k, p := range b.Preds {
				if p == prev && k < len(ph.Edges) {
					v = m.get(fr, ph.Edges[k])
				}
			}
			phis = append(phis, ph)
			phiVals = append(phiVals, v)
		}
		for i, ph := range phis {
			fr.env[ph] = phiVals[i]
		}
		var next *ssa.BasicBlock
		for _, in := range b.Instrs[len(phis):] {
			m.steps++
			if m.steps > sxMaxSteps {
				m.abort = "truncated: step budget exceeded in " + kit.FuncName(fn)
				return nil, false
			}
			if m.sink != nil {
				m.sink.instrs[in] = true
			}
			switch x := in.(type) {
			case *ssa.If:
				c := m.get(fr, x.Cond)
				take := 0
				if c.k == sxBool {
					if !c.b {
						take = 1
					}
				} else if exit := sxLoopExit(b); visits[b] > sxLoopUnroll && exit >= 0 {
					take = exit // an undetermined loop condition is unrolled a bounded number of times
				} else if c.k == sxUnknown && c.uid > 0 {
					v, done := m.cond[c.uid]
					if !done {
						v = m.choose(2) == 0
						m.cond[c.uid] = v
					}
					if v == c.neg {
						take = 1
					}
				} else {
					take = m.choose(2)
				}
				next = b.Succs[take]
			case *ssa.Jump:
				next = b.Succs[0]
			case *ssa.Return:
				res := make([]sxVal, len(x.Results))
				for i, rv := range x.Results {
					res[i] = m.get(fr, rv)
				}
				return res, true
			case *ssa.Panic:
				m.abort = "panic"
				return nil, false
			case *ssa.Store:
				m.store(m.get(fr, x.Addr), m.get(fr, x.Val), x, false)
			case *ssa.Defer:
				d := sxDeferred{call: x, fnv: m.get(fr, x.Call.Value)}
				for _, a := range x.Call.Args {
					d.args = append(d.args, m.get(fr, a))
				}
				fr.defers = append(fr.defers, d)
			case *ssa.RunDefers:
				for i := len(fr.defers) - 1; i >= 0; i-- {
					d := fr.defers[i]
					if _, ok := m.doCall(d.call, d.fnv, d.args, depth); !ok {
						return nil, false
					}
				}
				fr.defers = nil
			case *ssa.Go, *ssa.DebugRef, *ssa.MapUpdate, *ssa.Send:
			case *ssa.Call:
				cargs := make([]sxVal, len(x.Call.Args))
				for i, a := range x.Call.Args {
					cargs[i] = m.get(fr, a)
				}
				res, ok := m.doCall(x, m.get(fr, x.Call.Value), cargs, depth)
				if !ok {
					return nil, false
				}
				switch len(res) {
				case 0:
					fr.env[x] = sxVal{}
				case 1:
					fr.env[x] = res[0]
				default:
					fr.env[x] = sxVal{k: sxTuple, elems: res}
				}
			case ssa.Value:
				fr.env[x] = m.compute(fr, x)
			}
			if next != nil {
				break
			}
		}
		if next == nil {
			m.abort = "truncated: block without terminator in " + kit.FuncName(fn)
			return nil, false
		}
		prev, b = b, next
	}
}

func (m *sxMachine) compute(fr *sxFrame, v ssa.Value) sxVal {
	switch x := v.(type) {
	case *ssa.Alloc:
		pt, ok := x.Type().Underlying().(*types.Pointer)
		if !ok {
			return sxVal{}
		}
		return sxVal{k: sxPtr, obj: m.newObjOf(pt.Elem(), nil), idx: -1}
	case *ssa.FieldAddr:
		p := m.get(fr, x.X)
		if p.k == sxPtr && p.idx == -1 && p.obj < len(m.objs) {
			o := m.objs[p.obj]
			if o.kind == 2 && x.Field < len(o.fields) {
				return sxVal{k: sxPtr, obj: o.fields[x.Field], idx: -1}
			}
		}
		return sxVal{}
	case *ssa.IndexAddr:
		base := m.get(fr, x.X)
		i := m.get(fr, x.Index)
		switch base.k {
		case sxPtr:
			if base.idx != -1 {
				return sxVal{}
			}
			if i.isConc() {
				return sxVal{k: sxPtr, obj: base.obj, idx: int(int64(i.u))}
			}
			return sxVal{k: sxPtr, obj: base.obj, idx: -2}
		case sxSlice:
			if i.isConc() {
				return sxVal{k: sxPtr, obj: base.obj, idx: base.idx + int(int64(i.u))}
			}
			return sxVal{k: sxPtr, obj: base.obj, idx: -2}
		}
		return sxVal{}
	case *ssa.Index:
		base := m.get(fr, x.X)
		i := m.get(fr, x.Index)
		if base.k == sxArray && i.isConc() && int(i.u) < len(base.elems) {
			return base.elems[int(i.u)]
		}
		return sxVal{}
	case *ssa.Slice:
		return m.sliceOp(fr, x)
	case *ssa.UnOp:
		return m.unop(fr, x)
	case *ssa.BinOp:
		return m.binop(x.Op, m.get(fr, x.X), m.get(fr, x.Y), x.X.Type(), x.Type())
	case *ssa.Convert:
		return m.convert(m.get(fr, x.X), x.X.Type(), x.Type())
	case *ssa.ChangeType:
		return m.get(fr, x.X)
	case *ssa.ChangeInterface:
		return m.get(fr, x.X)
	case *ssa.MakeInterface:
		return sxVal{k: sxNonNil, typ: x.X.Type(), elems: []sxVal{m.get(fr, x.X)}}
	case *ssa.SliceToArrayPointer:
		// [N]T(slice) / (*[N]T)(slice): modelled as a pointer to a snapshot of the N elements
		// (exact for the value conversion, which copies through the pointer at once)
		src := m.get(fr, x.X)
		pt, _ := x.Type().Underlying().(*types.Pointer)
		if pt == nil || src.k != sxSlice {
			return sxVal{}
		}
		at, _ := pt.Elem().Underlying().(*types.Array)
		if at == nil || at.Len() > 1<<12 {
			return sxVal{}
		}
		o := &sxObj{kind: 1, elem: at.Elem(), cells: make([]sxVal, int(at.Len()))}
		for i := range o.cells {
			o.cells[i] = m.sliceGet(src, i)
		}
		return sxVal{k: sxPtr, obj: m.addObj(o), idx: -1}
	case *ssa.MakeClosure:
		out := sxVal{k: sxNonNil}
		out.fn, _ = x.Fn.(*ssa.Function)
		for _, b := range x.Bindings {
			out.elems = append(out.elems, m.get(fr, b))
		}
		return out
	case *ssa.MakeMap, *ssa.MakeChan:
		return sxVal{k: sxNonNil}
	case *ssa.MakeSlice:
		n := m.get(fr, x.Len)
		st, _ := x.Type().Underlying().(*types.Slice)
		if st == nil {
			return sxVal{}
		}
		if n.isConc() && n.u <= 1<<12 {
			o := &sxObj{kind: 1, open: true, elem: st.Elem(), cells: make([]sxVal, int(n.u))}
			for i := range o.cells {
				o.cells[i] = m.zero(st.Elem())
			}
			return sxVal{k: sxSlice, obj: m.addObj(o), idx: 0, n: int(n.u)}
		}
		return sxVal{k: sxSlice, obj: m.addObj(&sxObj{kind: 1, open: true, elem: st.Elem()}), idx: 0, n: -1}
	case *ssa.Extract:
		t := m.get(fr, x.Tuple)
		if t.k == sxTuple && x.Index < len(t.elems) {
			return t.elems[x.Index]
		}
		return sxVal{}
	case *ssa.Phi:
		return fr.env[x]
	}
	return sxVal{}
}

func (m *sxMachine) sliceOp(fr *sxFrame, x *ssa.Slice) sxVal {
	base := m.get(fr, x.X)
	lo, hi := 0, -1
	if x.Low != nil {
		l := m.get(fr, x.Low)
		if !l.isConc() {
			return sxVal{}
		}
		lo = int(int64(l.u))
	}
	hiKnown := false
	if x.High != nil {
		h := m.get(fr, x.High)
		if h.isConc() {
			hi, hiKnown = int(int64(h.u)), true
		}
	}
	switch base.k {
	case sxPtr:
		if base.idx != -1 || base.obj >= len(m.objs) {
			return sxVal{}
		}
		o := m.objs[base.obj]
		if o.kind != 1 {
			return sxVal{}
		}
		if x.High == nil && !o.open {
			hi, hiKnown = len(o.cells), true
		}
		n := -1
		if hiKnown {
			n = hi - lo
		}
		return sxVal{k: sxSlice, obj: base.obj, idx: lo, n: n}
	case sxSlice:
		if x.High == nil && base.n >= 0 {
			hi, hiKnown = base.n, true
		}
		n := -1
		if hiKnown {
			n = hi - lo
		}
		return sxVal{k: sxSlice, obj: base.obj, idx: base.idx + lo, n: n}
	case sxNil:
		return sxVal{k: sxNil}
	}
	return sxVal{}
}

func (m *sxMachine) unop(fr *sxFrame, x *ssa.UnOp) sxVal {
	a := m.get(fr, x.X)
	switch x.Op {
	case token.MUL:
		return m.load(a, x)
	case token.NOT:
		if a.k == sxBool {
			return sxBoolV(!a.b)
		}
		if a.k == sxUnknown && a.uid > 0 {
			return sxVal{uid: a.uid, neg: !a.neg}
		}
	case token.SUB:
		if a.isConc() {
			bits, _ := sxIntInfo(x.Type())
			return sxConc(sxMask(-a.u, bits))
		}
	case token.XOR:
		if a.isConc() {
			bits, _ := sxIntInfo(x.Type())
			return sxConc(sxMask(^a.u, bits))
		}
	}
	return sxVal{}
}

func (m *sxMachine) convert(a sxVal, from, to types.Type) sxVal {
	fb, fs := sxIntInfo(from)
	tb, _ := sxIntInfo(to)
	if fb == 0 || tb == 0 || a.k != sxInt {
		return sxVal{}
	}
	if a.form == siConc {
		u := a.u
		if fs {
			u = uint64(sxSignExt(u, fb))
		}
		return sxConc(sxMask(u, tb))
	}
	if fs {
		return sxVal{} // sign extension of a symbolic value is not modelled
	}
	if tb >= fb && a.form == siLin {
		return a
	}
	return sxFromBytes(sxTruncBytes(a.bytesOf(), tb))
}

func sxCmpInts(op token.Token, d int64) bool {
	switch op {
	case token.LSS:
		return d < 0
	case token.LEQ:
		return d <= 0
	case token.GTR:
		return d > 0
	case token.GEQ:
		return d >= 0
	case token.EQL:
		return d == 0
	case token.NEQ:
		return d != 0
	}
	return false
}

func (m *sxMachine) binop(op token.Token, a, b sxVal, opT, resT types.Type) sxVal {
	isCmp := op == token.EQL || op == token.NEQ || op == token.LSS || op == token.LEQ || op == token.GTR || op == token.GEQ
	if isCmp {
		return m.compare(op, a, b, opT)
	}
	if a.k == sxBool && b.k == sxBool {
		switch op {
		case token.AND, token.LAND:
			return sxBoolV(a.b && b.b)
		case token.OR, token.LOR:
			return sxBoolV(a.b || b.b)
		case token.XOR:
			return sxBoolV(a.b != b.b)
		}
		return sxVal{}
	}
	bits, signed := sxIntInfo(resT)
	if bits == 0 {
		return sxVal{}
	}
	if a.isConc() && b.isConc() {
		x, y := a.u, b.u
		var r uint64
		switch op {
		case token.ADD:
			r = x + y
		case token.SUB:
			r = x - y
		case token.MUL:
			r = x * y
		case token.QUO:
			if y == 0 {
				return sxVal{}
			}
			if signed {
				r = uint64(sxSignExt(x, bits) / sxSignExt(y, bits))
			} else {
				r = x / y
			}
		case token.REM:
			if y == 0 {
				return sxVal{}
			}
			if signed {
				r = uint64(sxSignExt(x, bits) % sxSignExt(y, bits))
			} else {
				r = x % y
			}
		case token.AND:
			r = x & y
		case token.OR:
			r = x | y
		case token.XOR:
			r = x ^ y
		case token.AND_NOT:
			r = x &^ y
		case token.SHL:
			if y >= 64 {
				r = 0
			} else {
				r = x << y
			}
		case token.SHR:
			if signed {
				if y >= 64 {
					y = 63
				}
				r = uint64(sxSignExt(x, bits) >> y)
			} else if y >= 64 {
				r = 0
			} else {
				r = x >> y
			}
		default:
			return sxVal{}
		}
		return sxConc(sxMask(r, bits))
	}
	if a.k != sxInt && b.k != sxInt {
		return sxVal{}
	}
	switch op {
	case token.ADD:
		if bits == 64 {
			if a.k == sxInt && a.form == siLin && b.isConc() {
				return sxLinV(a.sym, a.off+int64(b.u))
			}
			if b.k == sxInt && b.form == siLin && a.isConc() {
				return sxLinV(b.sym, b.off+int64(a.u))
			}
		}
	case token.SUB:
		if bits == 64 {
			if a.k == sxInt && a.form == siLin && b.isConc() {
				return sxLinV(a.sym, a.off-int64(b.u))
			}
			if d, ok := m.diff(a, b); ok {
				return sxConc(uint64(d))
			}
		}
	case token.AND, token.OR, token.XOR, token.AND_NOT:
		if signed {
			return sxVal{}
		}
		ab, bb := a.bytesOf(), b.bytesOf()
		var out [8]sxByte
		for i := 0; i < 8; i++ {
			out[i] = sxByteOp(op, ab[i], bb[i])
		}
		return sxFromBytes(sxTruncBytes(out, bits))
	case token.SHL, token.SHR:
		if signed || !b.isConc() || a.k != sxInt {
			return sxVal{}
		}
		if b.u%8 != 0 {
			return sxVal{}
		}
		sh := int(b.u / 8)
		ab := sxTruncBytes(a.bytesOf(), bits) // the operand has the width of the result type
		var out [8]sxByte
		for i := range out {
			out[i] = sxByte{kind: sbConc}
		}
		for i := 0; i < 8; i++ {
			var j int
			if op == token.SHL {
				j = i + sh
			} else {
				j = i - sh
			}
			if j >= 0 && j < 8 {
				out[j] = ab[i]
			}
		}
		return sxFromBytes(sxTruncBytes(out, bits))
	}
	return sxVal{}
}

func sxByteOp(op token.Token, a, b sxByte) sxByte {
	if a.kind == sbConc && b.kind == sbConc {
		switch op {
		case token.AND:
			return sxByte{kind: sbConc, c: a.c & b.c}
		case token.OR:
			return sxByte{kind: sbConc, c: a.c | b.c}
		case token.XOR:
			return sxByte{kind: sbConc, c: a.c ^ b.c}
		case token.AND_NOT:
			return sxByte{kind: sbConc, c: a.c &^ b.c}
		}
	}
	same, _ := sxByteEq(a, b)
	switch op {
	case token.AND:
		for _, p := range [][2]sxByte{{a, b}, {b, a}} {
			if p[0].kind == sbConc && p[0].c == 0xff {
				return p[1]
			}
			if p[0].kind == sbConc && p[0].c == 0 {
				return sxByte{kind: sbConc}
			}
		}
		if same {
			return a
		}
	case token.OR:
		for _, p := range [][2]sxByte{{a, b}, {b, a}} {
			if p[0].kind == sbConc && p[0].c == 0 {
				return p[1]
			}
			if p[0].kind == sbConc && p[0].c == 0xff {
				return sxByte{kind: sbConc, c: 0xff}
			}
		}
		if same {
			return a
		}
	case token.XOR:
		for _, p := range [][2]sxByte{{a, b}, {b, a}} {
			if p[0].kind == sbConc && p[0].c == 0 {
				return p[1]
			}
		}
		if same {
			return sxByte{kind: sbConc}
		}
	case token.AND_NOT:
		if b.kind == sbConc && b.c == 0 {
			return a
		}
		if b.kind == sbConc && b.c == 0xff {
			return sxByte{kind: sbConc}
		}
		if a.kind == sbConc && a.c == 0 {
			return sxByte{kind: sbConc}
		}
		if same {
			return sxByte{kind: sbConc}
		}
	}
	return sxByte{}
}

// compare evaluates a comparison; an undetermined result is a fresh named condition, so that
// branching on the same value twice is consistent on a path.
func (m *sxMachine) compare(op token.Token, a, b sxVal, opT types.Type) sxVal {
	r := m.compare0(op, a, b, opT)
	if r.k == sxUnknown && r.uid == 0 {
		m.nuid++
		r.uid = m.nuid
	}
	return r
}

func (m *sxMachine) compare0(op token.Token, a, b sxVal, opT types.Type) sxVal {
	eqOnly := op == token.EQL || op == token.NEQ
	res := func(eq bool) sxVal {
		if op == token.NEQ {
			return sxBoolV(!eq)
		}
		return sxBoolV(eq)
	}
	// references
	isRef := func(v sxVal) bool {
		return v.k == sxNil || v.k == sxNonNil || v.k == sxPtr || v.k == sxSlice
	}
	if eqOnly && isRef(a) && isRef(b) {
		switch {
		case a.k == sxNil && b.k == sxNil:
			return res(true)
		case a.k == sxNil || b.k == sxNil:
			return res(false)
		case a.k == sxPtr && b.k == sxPtr:
			if a.idx != -2 && b.idx != -2 {
				return res(a.obj == b.obj && a.idx == b.idx)
			}
		}
		return sxVal{}
	}
	if a.k == sxBool && b.k == sxBool && eqOnly {
		return res(a.b == b.b)
	}
	if a.k == sxArray && b.k == sxArray && eqOnly && len(a.elems) == len(b.elems) {
		all := true
		for i := range a.elems {
			r := m.compare0(token.EQL, a.elems[i], b.elems[i], nil)
			if r.k != sxBool {
				all = false
				continue
			}
			if !r.b {
				return res(false)
			}
		}
		if all {
			return res(true)
		}
		return sxVal{}
	}
	if a.k != sxInt || b.k != sxInt {
		return sxVal{}
	}
	bits, signed := 64, false
	if opT != nil {
		bits, signed = sxIntInfo(opT)
		if bits == 0 {
			bits = 64
		}
	}
	if a.form == siConc && b.form == siConc {
		if signed {
			x, y := sxSignExt(a.u, bits), sxSignExt(b.u, bits)
			switch {
			case x < y:
				return sxBoolV(sxCmpInts(op, -1))
			case x > y:
				return sxBoolV(sxCmpInts(op, 1))
			}
			return sxBoolV(sxCmpInts(op, 0))
		}
		switch {
		case a.u < b.u:
			return sxBoolV(sxCmpInts(op, -1))
		case a.u > b.u:
			return sxBoolV(sxCmpInts(op, 1))
		}
		return sxBoolV(sxCmpInts(op, 0))
	}
	if d, ok := m.diff(a, b); ok {
		return sxBoolV(sxCmpInts(op, d))
	}
	if eqOnly {
		ab, bb := a.bytesOf(), b.bytesOf()
		all := true
		for i := 0; i < 8; i++ {
			eq, known := sxByteEq(ab[i], bb[i])
			if !known {
				all = false
				continue
			}
			if !eq {
				return res(false)
			}
		}
		if all {
			return res(true)
		}
	}
	return sxVal{}
}

// ---------- calls ----------

// sxPureLib: library packages whose functions do not write through their arguments.
var sxPureLib = map[string]bool{
	"fmt": true, "errors": true, "bytes": true, "crypto/subtle": true, "encoding/hex": true,
	"strings": true, "strconv": true, "log": true, "log/slog": true, "unicode/utf8": true,
	"golang.org/x/crypto/chacha20poly1305": true, "encoding/binary": true, "sync": true, "sync/atomic": true,
}

// sxDescendLib: library packages whose (small, pure) functions are evaluated like repository
// code: slices.Equal, bytes.HasPrefix, cmp.Compare, bits.ReverseBytes64, ...
var sxDescendLib = map[string]bool{"slices": true, "bytes": true, "cmp": true, "math/bits": true}

func (m *sxMachine) unknownResults(sig *types.Signature) []sxVal {
	if sig == nil {
		return nil
	}
	n := sig.Results().Len()
	out := make([]sxVal, n)
	for i := 0; i < n; i++ {
		if kit.IsErrorType(sig.Results().At(i).Type()) {
			if m.choose(2) == 0 {
				out[i] = sxVal{k: sxNil}
			} else {
				out[i] = sxVal{k: sxNonNil}
			}
		}
	}
	return out
}

func (m *sxMachine) havocArgs(args []sxVal, at ssa.Instruction) {
	for _, a := range args {
		switch a.k {
		case sxPtr:
			if a.obj < len(m.objs) {
				m.store(a, sxVal{}, at, false)
			}
		case sxSlice:
			if a.obj < len(m.objs) {
				o := m.objs[a.obj]
				hi := len(o.cells)
				if a.n >= 0 && a.idx+a.n < hi {
					hi = a.idx + a.n
				}
				for i := a.idx; i >= 0 && i < hi; i++ {
					m.store(sxVal{k: sxPtr, obj: a.obj, idx: i}, sxVal{}, at, false)
				}
			}
		}
	}
}

func (m *sxMachine) doCall(c ssa.CallInstruction, fnv sxVal, args []sxVal, depth int) ([]sxVal, bool) {
	cc := c.Common()
	cal := kit.CalleeOf(c)
	sig := cc.Signature()
	// builtins
	if cal.Built != "" {
		return m.builtin(cal.Built, c, args), true
	}
	// interface methods
	if cc.IsInvoke() {
		if cal.Pkg == "crypto/cipher" && cal.Recv == "AEAD" {
			switch cal.Name {
			case "Seal", "Open":
				ev := sxEvent{kind: seSeal, instr: c, excl: m.held > 0}
				if len(args) >= 2 {
					ev.nonce, _ = m.sliceBytes(args[1])
				}
				out := sxVal{k: sxSlice, obj: m.addObj(&sxObj{kind: 1, open: true}), idx: 0, n: -1}
				if cal.Name == "Seal" {
					m.events = append(m.events, ev)
					return []sxVal{out}, true
				}
				ev.kind = seOpen
				ev.errNil = m.choose(2) == 0
				m.events = append(m.events, ev)
				if ev.errNil {
					return []sxVal{out, {k: sxNil}}, true
				}
				return []sxVal{{k: sxNil}, {k: sxNonNil}}, true
			case "NonceSize":
				return []sxVal{sxConc(12)}, true
			case "Overhead":
				return []sxVal{sxConc(16)}, true
			}
		}
		// interface value of known dynamic type: dispatch to its method
		if fnv.k == sxNonNil && fnv.typ != nil && cc.Method != nil {
			if f := m.cx.p.SSA.LookupMethod(fnv.typ, cc.Method.Pkg(), cc.Method.Name()); f != nil {
				cal = kit.Callee{Name: f.Name(), Static: f, Pkg: kit.FuncPkgPath(f)}
				if f.Signature != nil && f.Signature.Recv() != nil {
					rt := f.Signature.Recv().Type()
					if p, ok := rt.(*types.Pointer); ok {
						rt = p.Elem()
					}
					if n, ok := types.Unalias(rt).(*types.Named); ok {
						cal.Recv = n.Obj().Name()
					}
				}
				recv := sxVal{}
				if len(fnv.elems) > 0 {
					recv = fnv.elems[0]
				}
				args = append([]sxVal{recv}, args...)
				fnv = sxVal{}
				return m.doStatic(cal, c, fnv, args, depth)
			}
		}
		return m.unknownResults(sig), true
	}
	return m.doStatic(cal, c, fnv, args, depth)
}

// doStatic evaluates a call whose target function is known.
func (m *sxMachine) doStatic(cal kit.Callee, c ssa.CallInstruction, fnv sxVal, args []sxVal, depth int) ([]sxVal, bool) {
	sig := c.Common().Signature()
	// static callees with models
	switch {
	case cal.Pkg == "sync" && (cal.Recv == "Mutex" || cal.Recv == "RWMutex"):
		if len(args) > 0 && args[0].k == sxPtr && args[0].obj < len(m.objs) && m.objs[args[0].obj].field == m.cx.mu {
			m.lockOp(cal.Name, c)
		}
		return m.unknownResultsNoErr(sig), true
	case cal.Pkg == "sync/atomic":
		if res, ok := m.atomicOp(cal, c, args); ok {
			return res, true
		}
	case cal.Pkg == "encoding/binary" && (cal.Recv == "bigEndian" || cal.Recv == "littleEndian"):
		if res, ok := m.binaryOp(cal, c, args); ok {
			return res, true
		}
	case cal.Pkg == "bytes" && cal.Name == "Equal" && len(args) == 2:
		return []sxVal{m.bytesEqual(args[0], args[1], false)}, true
	case cal.Pkg == "crypto/subtle" && cal.Name == "ConstantTimeCompare" && len(args) == 2:
		return []sxVal{m.bytesEqual(args[0], args[1], true)}, true
	case (cal.Pkg == "fmt" && cal.Name == "Errorf") || (cal.Pkg == "errors" && cal.Name == "New"):
		return []sxVal{{k: sxNonNil}}, true
	case cal.Pkg == "golang.org/x/crypto/chacha20poly1305" && (cal.Name == "New" || cal.Name == "NewX"):
		ev := sxEvent{kind: seNewAEAD, instr: c, errNil: m.choose(2) == 0}
		if len(args) > 0 && args[0].k == sxSlice && args[0].obj < len(m.objs) {
			ev.fromSK = m.objs[args[0].obj].field == m.cx.keyFld && m.cx.keyFld != nil
		}
		m.events = append(m.events, ev)
		if ev.errNil {
			return []sxVal{{k: sxNonNil}, {k: sxNil}}, true
		}
		return []sxVal{{k: sxNil}, {k: sxNonNil}}, true
	}
	if f := cal.Static; f != nil && len(f.Blocks) > 0 && kit.IsRepoPkg(kit.FuncPkgPath(f)) {
		if depth >= sxMaxDepth {
			m.abort = "truncated: call depth exceeded at " + kit.FuncName(f)
			return nil, false
		}
		return m.call(f, args, fnv.elems, depth+1)
	}
	if f := cal.Static; f != nil && len(f.Blocks) > 0 && sxDescendLib[kit.FuncPkgPath(f)] && depth < sxMaxDepth {
		return m.call(f, args, fnv.elems, depth+1)
	}
	if fnv.fn != nil && len(fnv.fn.Blocks) > 0 && depth < sxMaxDepth {
		return m.call(fnv.fn, args, fnv.elems, depth+1)
	}
	if !sxPureLib[cal.Pkg] {
		m.havocArgs(args, c)
	}
	return m.unknownResults(sig), true
}

func (m *sxMachine) unknownResultsNoErr(sig *types.Signature) []sxVal {
	if sig == nil {
		return nil
	}
	return make([]sxVal, sig.Results().Len())
}

func (m *sxMachine) builtin(name string, c ssa.CallInstruction, args []sxVal) []sxVal {
	switch name {
	case "len", "cap":
		if len(args) == 1 {
			switch args[0].k {
			case sxSlice:
				if args[0].n >= 0 && name == "len" {
					return []sxVal{sxConc(uint64(args[0].n))}
				}
			case sxNil:
				return []sxVal{sxConc(0)}
			case sxArray:
				return []sxVal{sxConc(uint64(len(args[0].elems)))}
			}
		}
		return []sxVal{{}}
	case "copy":
		if len(args) == 2 && args[0].k == sxSlice {
			dst, src := args[0], args[1]
			n := dst.n
			if src.k == sxSlice && src.n >= 0 && (n < 0 || src.n < n) {
				n = src.n
			}
			if src.k == sxNil {
				n = 0
			}
			if n < 0 {
				m.havocArgs(args[:1], c)
				return []sxVal{{}}
			}
			vals := make([]sxVal, n)
			for i := 0; i < n; i++ {
				if src.k == sxSlice {
					vals[i] = m.sliceGet(src, i)
				}
			}
			for i := 0; i < n; i++ {
				m.sliceSet(dst, i, vals[i], c)
			}
			if (dst.n >= 0 || src.k != sxSlice || src.n >= 0) && dst.n >= 0 && (src.k != sxSlice || src.n >= 0) {
				return []sxVal{sxConc(uint64(n))}
			}
			return []sxVal{{}}
		}
		return []sxVal{{}}
	case "append":
		if len(args) == 2 {
			base, add := args[0], args[1]
			baseN := 0
			switch base.k {
			case sxSlice:
				baseN = base.n
			case sxNil:
			default:
				baseN = -1
			}
			addN := 0
			switch add.k {
			case sxSlice:
				addN = add.n
			case sxNil:
			default:
				addN = -1
			}
			if baseN < 0 || addN < 0 {
				return []sxVal{{k: sxSlice, obj: m.addObj(&sxObj{kind: 1, open: true}), idx: 0, n: -1}}
			}
			o := &sxObj{kind: 1, open: true}
			for i := 0; i < baseN; i++ {
				o.cells = append(o.cells, m.sliceGet(base, i))
			}
			for i := 0; i < addN; i++ {
				o.cells = append(o.cells, m.sliceGet(add, i))
			}
			return []sxVal{{k: sxSlice, obj: m.addObj(o), idx: 0, n: baseN + addN}}
		}
		return []sxVal{{}}
	case "min", "max":
		if len(args) == 2 && args[0].isConc() && args[1].isConc() {
			a, b := int64(args[0].u), int64(args[1].u)
			if (name == "min") == (a < b) {
				return []sxVal{args[0]}
			}
			return []sxVal{args[1]}
		}
	}
	sig := c.Common().Signature()
	if sig != nil {
		return make([]sxVal, sig.Results().Len())
	}
	return []sxVal{{}}
}

func (m *sxMachine) bytesEqual(a, b sxVal, asInt bool) sxVal {
	out := func(eq bool) sxVal {
		if asInt {
			if eq {
				return sxConc(1)
			}
			return sxConc(0)
		}
		return sxBoolV(eq)
	}
	ab, ok1 := m.sliceBytes(a)
	bb, ok2 := m.sliceBytes(b)
	if a.k == sxNil {
		ab, ok1 = nil, true
	}
	if b.k == sxNil {
		bb, ok2 = nil, true
	}
	if !ok1 || !ok2 {
		return sxVal{}
	}
	if len(ab) != len(bb) {
		return out(false)
	}
	all := true
	for i := range ab {
		eq, known := sxByteEq(ab[i], bb[i])
		if !known {
			all = false
			continue
		}
		if !eq {
			return out(false)
		}
	}
	if all {
		return out(true)
	}
	return sxVal{}
}

func (m *sxMachine) binaryOp(cal kit.Callee, c ssa.CallInstruction, args []sxVal) ([]sxVal, bool) {
	big := cal.Recv == "bigEndian"
	width := 0
	switch {
	case strings.HasSuffix(cal.Name, "Uint16"):
		width = 2
	case strings.HasSuffix(cal.Name, "Uint32"):
		width = 4
	case strings.HasSuffix(cal.Name, "Uint64"):
		width = 8
	}
	if width == 0 || len(args) < 2 {
		return nil, false
	}
	pos := func(i int) int { // buffer index of significance byte i
		if big {
			return width - 1 - i
		}
		return i
	}
	switch {
	case strings.HasPrefix(cal.Name, "Uint"):
		s := args[1]
		if s.k != sxSlice {
			return []sxVal{{}}, true
		}
		var by [8]sxByte
		for i := range by {
			by[i] = sxByte{kind: sbConc}
		}
		for i := 0; i < width; i++ {
			by[i] = sxLowByte(m.sliceGet(s, pos(i)))
		}
		return []sxVal{sxFromBytes(by)}, true
	case strings.HasPrefix(cal.Name, "PutUint") && len(args) >= 3:
		s := args[1]
		if s.k != sxSlice {
			return nil, true
		}
		by := args[2].bytesOf()
		for i := 0; i < width; i++ {
			m.sliceSet(s, pos(i), sxByteVal(by[i]), c)
		}
		return nil, true
	case strings.HasPrefix(cal.Name, "AppendUint") && len(args) >= 3:
		s := args[1]
		n := 0
		switch s.k {
		case sxSlice:
			n = s.n
		case sxNil:
		default:
			n = -1
		}
		if n < 0 {
			return []sxVal{{k: sxSlice, obj: m.addObj(&sxObj{kind: 1, open: true}), idx: 0, n: -1}}, true
		}
		o := &sxObj{kind: 1, open: true}
		for i := 0; i < n; i++ {
			o.cells = append(o.cells, m.sliceGet(s, i))
		}
		by := args[2].bytesOf()
		tail := make([]sxVal, width)
		for i := 0; i < width; i++ {
			tail[pos(i)] = sxByteVal(by[i])
		}
		o.cells = append(o.cells, tail...)
		return []sxVal{{k: sxSlice, obj: m.addObj(o), idx: 0, n: n + width}}, true
	}
	return nil, false
}

// atomicOp models sync/atomic functions and the methods of atomic.Uint64/Int64 on a counter
// field of the session: a read-modify-write is one indivisible load+store of one version.
func (m *sxMachine) atomicOp(cal kit.Callee, c ssa.CallInstruction, args []sxVal) ([]sxVal, bool) {
	if len(args) == 0 || args[0].k != sxPtr || args[0].obj >= len(m.objs) {
		return nil, false
	}
	p := args[0]
	o := m.objs[p.obj]
	// methods of atomic.Uint64: the receiver is the struct; its value cell is the first scalar field
	if o.kind == 2 {
		id := p.obj
		for m.objs[id].kind == 2 && len(m.objs[id].fields) > 0 {
			// the value is the last field (after the noCopy / align markers)
			id = m.objs[id].fields[len(m.objs[id].fields)-1]
		}
		p = sxVal{k: sxPtr, obj: id, idx: -1}
		o = m.objs[id]
	}
	if o.kind != 0 || !m.isCounter(o.field) {
		return nil, false
	}
	name := cal.Name
	switch {
	case strings.HasPrefix(name, "Load"):
		return []sxVal{m.load(p, c)}, true
	case strings.HasPrefix(name, "Store") && len(args) >= 2:
		m.store(p, args[1], c, false)
		return nil, true
	case strings.HasPrefix(name, "Add") && len(args) >= 2:
		if m.held == 0 {
			m.fresh(o.field)
		}
		m.events = append(m.events, sxEvent{kind: seLoad, instr: c, field: o.field, excl: m.held > 0})
		old := o.cells[0]
		nv := m.binop(token.ADD, old, args[1], types.Typ[types.Uint64], types.Typ[types.Uint64])
		m.store(p, nv, c, true)
		return []sxVal{nv}, true
	case strings.HasPrefix(name, "Swap") && len(args) >= 2:
		if m.held == 0 {
			m.fresh(o.field)
		}
		old := o.cells[0]
		m.store(p, args[1], c, true)
		return []sxVal{old}, true
	}
	return nil, false
}

// ---------- exploration driver ----------

const sxMaxPaths = 20000

// explore enumerates the paths of entry. setup builds the arguments in a fresh machine state.
func (cx *cryptoCtx) explore(entry *ssa.Function, sink *sxCoverage, recvF *types.Var, setup func(m *sxMachine) ([]sxVal, bool)) (paths []*sxPath, incomplete string) {
	m := &sxMachine{cx: cx, sink: sink}
	for {
		m.resetPath()
		m.recvF = recvF
		args, ok := setup(m)
		var res []sxVal
		if ok {
			res, ok = m.call(entry, args, nil, 0)
		}
		pt := &sxPath{events: m.events, results: res, rel: m.rel, relSeq: m.relSeq}
		switch {
		case ok:
			pt.ended = "return"
		default:
			pt.ended = m.abort
		}
		if strings.HasPrefix(pt.ended, "truncated") && incomplete == "" {
			incomplete = pt.ended
		}
		paths = append(paths, pt)
		if len(paths) > sxMaxPaths {
			return paths, "truncated: more than 20000 paths"
		}
		if !m.advance() {
			return paths, incomplete
		}
	}
}

// newReceiver builds the session object of a world and returns the pointer to it. When the
// package has a derivation constructor (a function returning *SessionKey with a bool
// parameter), the object is what that constructor leaves behind for role as its bool argument
// (so the role may be kept as a bool, an enum, precomputed direction bytes, ...); otherwise a
// zero SessionKey with the bool role field set. Counters are symbolic (any moment in the life
// of the session), key bytes unknown. ok=false: the path ended inside the constructor.
func (m *sxMachine) newReceiver(role bool) (sxVal, bool) {
	cx := m.cx
	var ptr sxVal
	if cx.ctor != nil {
		args := make([]sxVal, len(cx.ctor.Params))
		for i, prm := range cx.ctor.Params {
			if b, ok := prm.Type().Underlying().(*types.Basic); ok && b.Kind() == types.Bool {
				args[i] = sxBoolV(role)
			}
		}
		sink := m.sink
		m.sink = nil
		res, ok := m.call(cx.ctor, args, nil, 0)
		m.sink = sink
		if !ok {
			m.events = nil // what the constructor did is not part of the entry's path
			return sxVal{}, false
		}
		for _, v := range res {
			if v.k == sxPtr && v.idx == -1 && v.obj < len(m.objs) && m.objs[v.obj].kind == 2 && m.objs[v.obj].isSK {
				ptr = v
			}
		}
		if ptr.k != sxPtr {
			m.abort = "truncated: the derivation constructor does not return a session object in the model"
			return sxVal{}, false
		}
		m.events = nil
		m.held, m.rheld = 0, 0
	} else {
		ptr = sxVal{k: sxPtr, obj: m.newObjOf(cx.sk, nil), idx: -1}
		if cx.isInit != nil {
			st := cx.sk.Underlying().(*types.Struct)
			for i := 0; i < st.NumFields(); i++ {
				if st.Field(i) == cx.isInit {
					m.objs[m.objs[ptr.obj].fields[i]].cells[0] = sxBoolV(role)
				}
			}
		}
	}
	o := m.objs[ptr.obj]
	st := cx.sk.Underlying().(*types.Struct)
	for i := 0; i < st.NumFields() && i < len(o.fields); i++ {
		f := st.Field(i)
		fid := o.fields[i]
		switch {
		case cx.counters[f]:
			cell := fid
			for m.objs[cell].kind == 2 && len(m.objs[cell].fields) > 0 {
				cell = m.objs[cell].fields[len(m.objs[cell].fields)-1]
			}
			m.cell[f] = cell
			s := &sxSym{field: f}
			m.cur[f] = s
			m.objs[cell].cells[0] = sxLinV(s, 0)
		case f == cx.keyFld:
			for i := range m.objs[fid].cells {
				m.objs[fid].cells[i] = sxVal{}
			}
		}
	}
	return ptr, true
}

// openBytes builds a byte slice of unknown length whose first bytes are given.
func (m *sxMachine) openBytes(prefix []sxByte) sxVal {
	o := &sxObj{kind: 1, open: true}
	for _, b := range prefix {
		o.cells = append(o.cells, sxByteVal(b))
	}
	return sxVal{k: sxSlice, obj: m.addObj(o), idx: 0, n: -1}
}
