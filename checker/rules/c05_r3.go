package rules

import (
	"go/token"
	"go/types"

	"golang.org/x/tools/go/ssa"

	"mmverify/kit"
)

// Round-3 generalisations of C05: codec wrappers, copy-equivalent fields, predicate helpers and
// validators in allocation-size guards, parameters followed to their callers, constant-trip loops.

// findWrappers registers encoders that only return another encoder's bytes and decoders that hand
// their input buffer unchanged to another decoder (e.g. SleepCommand.Encode -> signedCommand.encode).
func (cx *c05ctx) findWrappers() {
	isPartial := func(fn *ssa.Function) bool {
		mt := cx.encSet[fn]
		return len(mt) > 10 && mt[len(mt)-10:] == " (partial)"
	}
	for round := 0; round < 4; round++ {
		changed := false
		for _, fn := range cx.funcs {
			if fn.Parent() != nil || fn.Blocks == nil || cx.wMeth[fn] || cx.rMeth[fn] || fn == cx.wNew || fn == cx.rNew {
				continue
			}
			sig := fn.Signature
			// ---- encoder wrapper
			if _, have := cx.encSet[fn]; !have && sig.Results().Len() >= 1 && c05isByteSlice(sig.Results().At(0).Type()) {
				var inner *ssa.Function
				ok, n := true, 0
				for _, ret := range kit.Returns(fn) {
					if ret.Block() == fn.Recover {
						continue
					}
					v := kit.ReturnResult(ret, 0)
					if kit.IsNilConst(v) {
						continue
					}
					n++
					call, idx, isRes := kit.ResultOf(v)
					if !isRes || idx != 0 {
						ok = false
						break
					}
					st := kit.CalleeOf(call).Static
					if _, isEnc := cx.encSet[st]; st == nil || !isEnc || (inner != nil && inner != st) {
						ok = false
						break
					}
					inner = st
				}
				var t types.Type
				if sig.Recv() != nil {
					t = sig.Recv().Type()
				} else if sig.Params().Len() >= 1 {
					t = sig.Params().At(0).Type()
				}
				if ok && n > 0 && inner != nil && t != nil {
					mt := c05msgType(t)
					cx.encWrap[fn] = inner
					changed = true
					if isPartial(inner) {
						cx.encSet[fn] = mt + " (partial)"
					} else if old, dup := cx.encoders[mt]; dup && old != fn {
						cx.encSet[fn] = mt + " (partial)"
					} else {
						cx.encSet[fn] = mt
						cx.encoders[mt] = fn
					}
				}
			}
			// ---- decoder wrapper
			if _, have := cx.decSet[fn]; !have && len(fn.Params) >= 1 && sig.Params().Len() >= 1 && c05isByteSlice(sig.Params().At(0).Type()) &&
				sig.Recv() == nil && sig.Results().Len() >= 2 && kit.IsErrorType(sig.Results().At(sig.Results().Len()-1).Type()) {
				for _, c := range kit.Calls(fn) {
					st := kit.CalleeOf(c).Static
					if _, isDec := cx.decSet[st]; st == nil || !isDec {
						continue
					}
					if args := c.Common().Args; len(args) > 0 && args[0] == ssa.Value(fn.Params[0]) {
						mt := c05msgType(sig.Results().At(0).Type())
						cx.decWrap[fn] = st
						cx.decSet[fn] = mt
						if _, dup := cx.decoders[mt]; !dup {
							cx.decoders[mt] = fn
						}
						changed = true
						break
					}
				}
			}
		}
		if !changed {
			break
		}
	}
}

// buildFieldClasses unions struct fields that are copied into one another somewhere in the package
// (x.F = y.G): the lengths of such fields are the same quantity for the size expressions.
func (cx *c05ctx) buildFieldClasses() {
	var find func(f *types.Var) *types.Var
	find = func(f *types.Var) *types.Var {
		p, ok := cx.fieldRep[f]
		if !ok || p == f {
			return f
		}
		r := find(p)
		cx.fieldRep[f] = r
		return r
	}
	for _, fn := range cx.funcs {
		kit.Instrs(fn, func(in ssa.Instruction) {
			st, ok := in.(*ssa.Store)
			if !ok {
				return
			}
			fa, ok := st.Addr.(*ssa.FieldAddr)
			if !ok {
				return
			}
			dst := kit.FieldOfAddr(fa)
			src, _ := kit.LoadedField(st.Val)
			if dst == nil || src == nil || dst == src || !types.Identical(dst.Type(), src.Type()) {
				return
			}
			a, b := find(dst), find(src)
			if a != b {
				// deterministic representative: the earlier declared field
				if a.Pos() > b.Pos() {
					a, b = b, a
				}
				cx.fieldRep[b] = a
				if _, ok := cx.fieldRep[a]; !ok {
					cx.fieldRep[a] = a
				}
			}
		})
	}
}

func (cx *c05ctx) rep(f *types.Var) *types.Var {
	for i := 0; i < 16; i++ {
		p, ok := cx.fieldRep[f]
		if !ok || p == f {
			return f
		}
		f = p
	}
	return f
}

// c05tripCount: the loop with header h runs a constant number of times (range over a fixed-size
// array, or i := 0; i < N; i++ with nothing else leaving the loop).
func c05tripCount(h *ssa.BasicBlock, body map[*ssa.BasicBlock]bool) (int64, bool) {
	if len(h.Instrs) == 0 {
		return 0, false
	}
	ifi, ok := h.Instrs[len(h.Instrs)-1].(*ssa.If)
	if !ok {
		return 0, false
	}
	// every exit of the loop must be the header's
	for b := range body {
		for _, s := range b.Succs {
			if !body[s] && b != h {
				return 0, false
			}
		}
	}
	cmp, ok := ifi.Cond.(*ssa.BinOp)
	if !ok || cmp.Op != token.LSS {
		return 0, false
	}
	n, ok := kit.ConstInt(cmp.Y)
	if !ok || n < 0 || n > 16 {
		return 0, false
	}
	// i+1 < N with i starting at -1 (range), or i < N with i starting at 0 and i+1 on the back edge
	isCounter := func(phi *ssa.Phi, init int64) bool {
		if phi.Block() != h || len(phi.Edges) != 2 {
			return false
		}
		okInit, okStep := false, false
		for i, e := range phi.Edges {
			if h.Dominates(h.Preds[i]) && body[h.Preds[i]] {
				if add, ok := e.(*ssa.BinOp); ok && add.Op == token.ADD && add.X == ssa.Value(phi) {
					if c, isc := kit.ConstInt(add.Y); isc && c == 1 {
						okStep = true
					}
				}
			} else if c, isc := kit.ConstInt(e); isc && c == init {
				okInit = true
			}
		}
		return okInit && okStep
	}
	switch x := cmp.X.(type) {
	case *ssa.Phi:
		if isCounter(x, 0) {
			return n, true
		}
	case *ssa.BinOp:
		if phi, ok := x.X.(*ssa.Phi); ok && x.Op == token.ADD {
			if c, isc := kit.ConstInt(x.Y); isc && c == 1 && isCounter(phi, -1) {
				return n, true
			}
		}
	}
	return 0, false
}

// ---------- allocation-size guards through helpers ----------

// condExcludesHuge evaluates a branch condition with leaf = 2^40: true when the branch outcome pol is
// impossible. Conditions that are calls of a small predicate function (one return of a comparison) are
// evaluated inside the callee with the parameter bound to the argument.
func (cx *c05ctx) condExcludesHuge(cond ssa.Value, pol bool, leaf ssa.Value, depth int) bool {
	for {
		u, ok := cond.(*ssa.UnOp)
		if !ok || u.Op != token.NOT {
			break
		}
		cond, pol = u.X, !pol
	}
	if call, ok := cond.(*ssa.Call); ok && depth < 3 {
		st := kit.CalleeOf(call).Static
		if st == nil || st.Blocks == nil || !kit.IsRepoPkg(kit.FuncPkgPath(st)) {
			return false
		}
		rets := kit.Returns(st)
		if len(rets) != 1 || len(rets[0].Results) != 1 {
			return false
		}
		for i, a := range call.Call.Args {
			if i < len(st.Params) && (a == leaf || g2stripConv(a) == g2stripConv(leaf)) {
				if cx.condExcludesHuge(kit.ReturnResult(rets[0], 0), pol, st.Params[i], depth+1) {
					return true
				}
			}
		}
		return false
	}
	return cx.guardExcludesHuge(kit.Guard{Cond: cond, Polarity: pol}, leaf)
}

// boundedViaValidator: a guard establishes the success result (true / nil error) of a call V(.., leaf, ..)
// and every success return of V is reached only under a guard excluding a huge value of that parameter.
func (cx *c05ctx) boundedViaValidator(g kit.Guard, leaf ssa.Value, depth int) bool {
	if depth > 2 {
		return false
	}
	var call *ssa.Call
	var idx int
	wantTrue := false
	if x, trueMeansNil, ok := kit.IsErrNilCheck(g.Cond); ok {
		if trueMeansNil != g.Polarity {
			return false
		}
		c, i, isRes := kit.ResultOf(x)
		if !isRes {
			return false
		}
		call, idx = c, i
	} else {
		cond, pol := g.Cond, g.Polarity
		for {
			u, ok := cond.(*ssa.UnOp)
			if !ok || u.Op != token.NOT {
				break
			}
			cond, pol = u.X, !pol
		}
		c, i, isRes := kit.ResultOf(cond)
		if !isRes || !pol || c05basicKind(cond.Type()) != types.Bool {
			return false
		}
		call, idx, wantTrue = c, i, true
	}
	st := kit.CalleeOf(call).Static
	if st == nil || st.Blocks == nil || kit.FuncPkgPath(st) != kit.PkgPath("internal/protocol") {
		return false
	}
	for i, a := range call.Call.Args {
		if i >= len(st.Params) || !(a == leaf || g2stripConv(a) == g2stripConv(leaf)) {
			continue
		}
		prm := st.Params[i]
		n, all := 0, true
		for _, ret := range kit.Returns(st) {
			if ret.Block() == st.Recover || idx >= len(ret.Results) {
				continue
			}
			res := kit.ReturnResult(ret, idx)
			if wantTrue {
				if b, isc := kit.ConstBool(res); isc && !b {
					continue // failure return
				}
			} else if !kit.IsNilConst(res) {
				continue // error return
			}
			n++
			okRet := false
			for _, g2 := range kit.GuardsOf(ret) {
				if cx.condExcludesHuge(g2.Cond, g2.Polarity, prm, 0) {
					okRet = true
				}
			}
			if !okRet {
				all = false
			}
		}
		if n > 0 && all {
			return true
		}
	}
	return false
}

// boundedAtCallers: parameter leaf of fn is bounded at every static call site.
func (cx *c05ctx) boundedAtCallers(prm *ssa.Parameter, depth int) (bool, string) {
	fn := prm.Parent()
	idx := -1
	for i, q := range fn.Params {
		if q == prm {
			idx = i
		}
	}
	sites := cx.p.StaticCallers(fn)
	if idx < 0 || len(sites) == 0 || depth > 2 {
		return false, ""
	}
	for _, site := range sites {
		args := site.Common().Args
		si, ok := site.(ssa.Instruction)
		if !ok || idx >= len(args) {
			return false, ""
		}
		for _, l := range c05sizeLeaves(args[idx]) {
			if ok, _ := cx.leafBounded(l, si, depth+1); !ok {
				return false, ""
			}
		}
	}
	return true, "bounded at every call site of " + kit.FuncName(fn)
}
