package rules

import (
	"fmt"
	"go/types"
	"sort"

	"golang.org/x/tools/go/ssa"

	"mmverify/kit"
)

func init() {
	const fl = "internal/flood/flood.go"
	register(&Check{
		ID: "C29", Level: "other",
		Explain:   "Decides, for the Flooder's seen-cache of sleep/wake commands (the map keyed by SleepCommandKey): that a receiving handler records a command only after the verifier returned nil (or removes the record again on every failure path); that, evaluated abstractly from the cleanup entry points with the configured retention and window values, no delete on the cache is reachable for an entry younger than twice the timestamp window — neither because the retention is too short nor because a branch deletes without looking at the entry's age; that the cache is never reset wholesale; and that the lookup deciding 'new' and the insert lie in one write-locked region of one mutex. Clock monotonicity and Ed25519 are trusted; designs not based on a seen-cache are outside this rule set.",
		Technique: "dominance by verification guards; path-sensitive abstract evaluation of the cache-cleanup code over sample (age, retention, window) points; lock regions",
		Run:       runC29,
		SelfTests: []SelfTest{
			{Name: "mark before verify (sleep)", ExpectRule: "C29.R1", ExpectKey: "HandleSleepCommand", Edits: []Edit{
				{File: fl, Old: "\tif containsAgent(cmd.SeenBy, f.localID) {\n\t\treturn false\n\t}\n\n\t// Verify signature if signing key is configured\n\tif err := f.verifySleepCommand(cmd); err != nil {", New: "\tif containsAgent(cmd.SeenBy, f.localID) {\n\t\treturn false\n\t}\n\tfirst := f.markSleepCmdSeen(cmd.OriginAgent, cmd.CommandID, fromPeer)\n\n\t// Verify signature if signing key is configured\n\tif err := f.verifySleepCommand(cmd); err != nil || !first {"},
			}},
			{Name: "retention back to the plain seen-cache TTL", ExpectRule: "C29.R2", Edits: []Edit{
				{File: fl, Old: "\tf.cleanupSleepCmdCache(now, f.sleepCmdRetention())", New: "\tf.cleanupSleepCmdCache(now, expiry)"},
			}},
			{Name: "retention is one window only", ExpectRule: "C29.R2", Edits: []Edit{
				{File: fl, Old: "\tretention := 2 * f.timestampWindow\n", New: "\tretention := f.timestampWindow\n"},
			}},
			{Name: "age comparison inverted", ExpectRule: "C29.R3", Edits: []Edit{
				{File: fl, Old: "\tfor key, entry := range f.sleepCmdSeenCache {\n\t\tif now.Sub(entry.SeenAt) > expiry {", New: "\tfor key, entry := range f.sleepCmdSeenCache {\n\t\tif now.Sub(entry.SeenAt) < expiry {"},
			}},
			{Name: "size cap evicts arbitrary entries", ExpectRule: "C29.R3", Edits: []Edit{
				{File: fl, Old: "\tfor key, entry := range f.sleepCmdSeenCache {\n\t\tif now.Sub(entry.SeenAt) > expiry {\n\t\t\tdelete(f.sleepCmdSeenCache, key)\n\t\t}\n\t}\n", New: "\tfor key, entry := range f.sleepCmdSeenCache {\n\t\tif now.Sub(entry.SeenAt) > expiry {\n\t\t\tdelete(f.sleepCmdSeenCache, key)\n\t\t}\n\t}\n\tfor key := range f.sleepCmdSeenCache {\n\t\tif len(f.sleepCmdSeenCache) <= f.cfg.MaxSeenCacheSize {\n\t\t\tbreak\n\t\t}\n\t\tdelete(f.sleepCmdSeenCache, key)\n\t}\n"},
			}},
			{Name: "cache reset when full", ExpectRule: "C29.R3", Edits: []Edit{
				{File: fl, Old: "\tfor key, entry := range f.sleepCmdSeenCache {\n\t\tif now.Sub(entry.SeenAt) > expiry {\n\t\t\tdelete(f.sleepCmdSeenCache, key)\n\t\t}\n\t}\n", New: "\tfor key, entry := range f.sleepCmdSeenCache {\n\t\tif now.Sub(entry.SeenAt) > expiry {\n\t\t\tdelete(f.sleepCmdSeenCache, key)\n\t\t}\n\t}\n\tif len(f.sleepCmdSeenCache) > f.cfg.MaxSeenCacheSize {\n\t\tf.sleepCmdSeenCache = make(map[SleepCommandKey]*SeenSleepCommand)\n\t}\n"},
			}},
			{Name: "lookup under read lock, insert under a second lock", ExpectRule: "C29.R4", Edits: []Edit{
				{File: fl, Old: "\tf.sleepCmdMu.Lock()\n\tdefer f.sleepCmdMu.Unlock()\n\n\tif existing, ok := f.sleepCmdSeenCache[key]; ok {\n\t\tif existing.SeenFrom != fromPeer {\n\t\t\texisting.SeenAt = time.Now()\n\t\t}\n\t\treturn false\n\t}\n", New: "\tf.sleepCmdMu.RLock()\n\t_, seen := f.sleepCmdSeenCache[key]\n\tf.sleepCmdMu.RUnlock()\n\tif seen {\n\t\treturn false\n\t}\n\tf.sleepCmdMu.Lock()\n\tdefer f.sleepCmdMu.Unlock()\n"},
			}},
			{Name: "insert not conditional on the lookup", ExpectRule: "C29.R4", Edits: []Edit{
				{File: fl, Old: "\tif existing, ok := f.sleepCmdSeenCache[key]; ok {\n\t\tif existing.SeenFrom != fromPeer {\n\t\t\texisting.SeenAt = time.Now()\n\t\t}\n\t\treturn false\n\t}\n", New: "\tif existing, ok := f.sleepCmdSeenCache[key]; ok {\n\t\tif existing.SeenFrom != fromPeer {\n\t\t\texisting.SeenAt = time.Now()\n\t\t}\n\t}\n"},
			}},
			{Name: "seeded class: an accepted wake releases the origin's earlier entries", ExpectRule: "C29.R3", ExpectKey: "HandleWakeCommand", Edits: []Edit{
				{File: fl, Old: "\tf.storePendingWake(cmd)\n\n\treturn true", New: "\tf.storePendingWake(cmd)\n\n\tf.sleepCmdMu.Lock()\n\tfor key := range f.sleepCmdSeenCache {\n\t\tif key.OriginAgent == cmd.OriginAgent && key.CommandID < cmd.CommandID {\n\t\t\tdelete(f.sleepCmdSeenCache, key)\n\t\t}\n\t}\n\tf.sleepCmdMu.Unlock()\n\n\treturn true"},
			}},
			{Name: "exported Forget API drops a recorded command", ExpectRule: "C29.R3", ExpectKey: "c29Forget", Edits: []Edit{
				{File: fl, Old: "// HandleWakeCommand processes an incoming WAKE_COMMAND frame.\n", New: "func (f *Flooder) c29Forget(origin identity.AgentID, id uint64) {\n\tf.sleepCmdMu.Lock()\n\tdelete(f.sleepCmdSeenCache, SleepCommandKey{OriginAgent: origin, CommandID: id})\n\tf.sleepCmdMu.Unlock()\n}\n\n// HandleWakeCommand processes an incoming WAKE_COMMAND frame.\n"},
			}},
			{Name: "dedup bypassed for commands delivered by their origin", ExpectRule: "C29.R1", ExpectKey: "HandleSleepCommand accepts", Edits: []Edit{
				{File: fl, Old: "\t// (origin, id) and fill the cache with unauthenticated entries.\n\tif !f.markSleepCmdSeen(cmd.OriginAgent, cmd.CommandID, fromPeer) {", New: "\t// (origin, id) and fill the cache with unauthenticated entries.\n\tif !f.markSleepCmdSeen(cmd.OriginAgent, cmd.CommandID, fromPeer) && fromPeer != cmd.OriginAgent {"},
			}},
			{Name: "a recorded command seen from another peer counts as new again", ExpectRule: "C29.R4", ExpectKey: "answers 'seen'", Edits: []Edit{
				{File: fl, Old: "\t\tif existing.SeenFrom != fromPeer {\n\t\t\texisting.SeenAt = time.Now()\n\t\t}\n\t\treturn false\n\t}\n\n\t// Cache full", New: "\t\tif existing.SeenFrom != fromPeer {\n\t\t\texisting.SeenAt = time.Now()\n\t\t\texisting.SeenFrom = fromPeer\n\t\t\treturn true\n\t\t}\n\t\treturn false\n\t}\n\n\t// Cache full"},
			}},
			{Name: "cache keyed by the delivering peer instead of the origin", ExpectRule: "C29.R5", Edits: []Edit{
				{File: fl, Old: "\tkey := SleepCommandKey{\n\t\tOriginAgent: originAgent,\n\t\tCommandID:   commandID,\n\t}\n\n\tf.sleepCmdMu.Lock()", New: "\tkey := SleepCommandKey{\n\t\tOriginAgent: fromPeer,\n\t\tCommandID:   commandID,\n\t}\n\n\tf.sleepCmdMu.Lock()"},
			}},
			{Name: "full cache accepts the command without recording it", ExpectRule: "C29.R4", ExpectKey: "only after recording", Edits: []Edit{
				{File: fl, Old: "\t\t\t\"command_id\", commandID)\n\t\treturn false\n\t}\n\n\tf.sleepCmdSeenCache[key] = &SeenSleepCommand{", New: "\t\t\t\"command_id\", commandID)\n\t\treturn true\n\t}\n\n\tf.sleepCmdSeenCache[key] = &SeenSleepCommand{"},
			}},
			{Name: "rewrite: sweep with maps.DeleteFunc, retention with the max builtin", Edits: []Edit{
				{File: fl, Old: "\tfor key, entry := range f.sleepCmdSeenCache {\n\t\tif now.Sub(entry.SeenAt) > expiry {\n\t\t\tdelete(f.sleepCmdSeenCache, key)\n\t\t}\n\t}\n}\n", New: "\tmaps.DeleteFunc(f.sleepCmdSeenCache, func(_ SleepCommandKey, seen *SeenSleepCommand) bool {\n\t\tage := now.Sub(seen.SeenAt)\n\t\treturn expiry < age\n\t})\n}\n"},
				{File: fl, Old: "\tretention := 2 * f.timestampWindow\n\tif f.cfg.SeenCacheTTL > retention {\n\t\tretention = f.cfg.SeenCacheTTL\n\t}\n\treturn retention\n", New: "\treturn max(2*f.timestampWindow, f.cfg.SeenCacheTTL)\n"},
				{File: fl, Old: "import (\n", New: "import (\n\t\"maps\"\n"},
			}},
			{Name: "rewrite: lookup and capacity test in helpers called under the lock", Edits: []Edit{
				{File: fl, Old: "\tif existing, ok := f.sleepCmdSeenCache[key]; ok {\n\t\tif existing.SeenFrom != fromPeer {\n\t\t\texisting.SeenAt = time.Now()\n\t\t}\n\t\treturn false\n\t}\n\n\t// Cache full: refuse the command rather than forget a live entry.\n\tif f.cfg.MaxSeenCacheSize > 0 && len(f.sleepCmdSeenCache) >= f.cfg.MaxSeenCacheSize {", New: "\tif f.c29Touch(key, fromPeer) {\n\t\treturn false\n\t}\n\n\t// Cache full: refuse the command rather than forget a live entry.\n\tif f.c29Full() {"},
				{File: fl, Old: "// HandleSleepCommand processes an incoming SLEEP_COMMAND frame.\n", New: "func (f *Flooder) c29Touch(key SleepCommandKey, fromPeer identity.AgentID) bool {\n\texisting, ok := f.sleepCmdSeenCache[key]\n\tif !ok {\n\t\treturn false\n\t}\n\tif existing.SeenFrom != fromPeer {\n\t\texisting.SeenAt = time.Now()\n\t}\n\treturn true\n}\n\nfunc (f *Flooder) c29Full() bool {\n\tif f.cfg.MaxSeenCacheSize <= 0 {\n\t\treturn false\n\t}\n\treturn len(f.sleepCmdSeenCache) >= f.cfg.MaxSeenCacheSize\n}\n\n// HandleSleepCommand processes an incoming SLEEP_COMMAND frame.\n"},
			}},
			{Name: "maps.DeleteFunc sweep that ignores the entry's age", ExpectRule: "C29.R3", Edits: []Edit{
				{File: fl, Old: "\tfor key, entry := range f.sleepCmdSeenCache {\n\t\tif now.Sub(entry.SeenAt) > expiry {\n\t\t\tdelete(f.sleepCmdSeenCache, key)\n\t\t}\n\t}\n}\n", New: "\tmaps.DeleteFunc(f.sleepCmdSeenCache, func(k SleepCommandKey, seen *SeenSleepCommand) bool {\n\t\treturn now.Sub(seen.SeenAt) > expiry || k.CommandID%2 == 0\n\t})\n}\n"},
				{File: fl, Old: "import (\n", New: "import (\n\t\"maps\"\n"},
			}},
			{Name: "rewrite: an unrelated cache swept by a generic helper with an accessor closure in cleanup()", Edits: []Edit{
				{File: fl, Old: "\tf.mu.Lock()\n\tf.cleanupSeenCache(now, expiry)\n\tf.mu.Unlock()\n", New: "\tf.mu.Lock()\n\tc29Prune(f.seenCache, func(s *SeenAdvertisement) time.Time { return s.SeenAt }, now, expiry, f.cfg.MaxSeenCacheSize)\n\tf.mu.Unlock()\n"},
				{File: fl, Old: "// HandleWakeCommand processes an incoming WAKE_COMMAND frame.\n", New: "func c29Prune[K comparable, V any](cache map[K]V, seenAt func(V) time.Time, now time.Time, expiry time.Duration, limit int) {\n\tfor key, entry := range cache {\n\t\tif age := now.Sub(seenAt(entry)); age > expiry {\n\t\t\tdelete(cache, key)\n\t\t}\n\t}\n\texcess := len(cache) - limit\n\tif excess <= 0 {\n\t\treturn\n\t}\n\tfor key := range cache {\n\t\tdelete(cache, key)\n\t\tif excess--; excess == 0 {\n\t\t\tbreak\n\t\t}\n\t}\n}\n\n// HandleWakeCommand processes an incoming WAKE_COMMAND frame.\n"},
			}},
			{Name: "rewrite: explicit unlocks, lookup result in a variable", Edits: []Edit{
				{File: fl, Old: "\tf.sleepCmdMu.Lock()\n\tdefer f.sleepCmdMu.Unlock()\n\n\tif existing, ok := f.sleepCmdSeenCache[key]; ok {\n\t\tif existing.SeenFrom != fromPeer {\n\t\t\texisting.SeenAt = time.Now()\n\t\t}\n\t\treturn false\n\t}\n", New: "\tf.sleepCmdMu.Lock()\n\texisting, found := f.sleepCmdSeenCache[key]\n\tswitch {\n\tcase found && existing.SeenFrom != fromPeer:\n\t\texisting.SeenAt = time.Now()\n\t\tfallthrough\n\tcase found:\n\t\tf.sleepCmdMu.Unlock()\n\t\treturn false\n\t}\n\tdefer f.sleepCmdMu.Unlock()\n"},
			}},
			{Name: "rewrite: age test respelled with Before/Add, retention inlined", Edits: []Edit{
				{File: fl, Old: "\tfor key, entry := range f.sleepCmdSeenCache {\n\t\tif now.Sub(entry.SeenAt) > expiry {", New: "\tfor key, entry := range f.sleepCmdSeenCache {\n\t\tif deadline := entry.SeenAt.Add(expiry); !deadline.After(now) && !deadline.Equal(now) {"},
			}},
			{Name: "rewrite: mark first but unmark on verification failure", Edits: []Edit{
				{File: fl, Old: "\t// Verify signature if signing key is configured\n\tif err := f.verifyWakeCommand(cmd); err != nil {\n", New: "\tif !f.markSleepCmdSeen(cmd.OriginAgent, cmd.CommandID, fromPeer) {\n\t\treturn false\n\t}\n\tif err := f.verifyWakeCommand(cmd); err != nil {\n\t\tf.c29Unmark(SleepCommandKey{OriginAgent: cmd.OriginAgent, CommandID: cmd.CommandID})\n"},
				{File: fl, Old: "\t// Only an authenticated wake command is recorded as seen (see HandleSleepCommand).\n\tif !f.markSleepCmdSeen(cmd.OriginAgent, cmd.CommandID, fromPeer) {\n\t\treturn false\n\t}\n", New: ""},
				{File: fl, Old: "// HandleWakeCommand processes an incoming WAKE_COMMAND frame.\n", New: "func (f *Flooder) c29Unmark(key SleepCommandKey) {\n\tf.sleepCmdMu.Lock()\n\tdelete(f.sleepCmdSeenCache, key)\n\tf.sleepCmdMu.Unlock()\n}\n\n// HandleWakeCommand processes an incoming WAKE_COMMAND frame.\n"},
			}},
		},
	})
}

func runC29(p *kit.Program, r *kit.Report) {
	r.Rule("C29.R1", "a handler that consults the verifier records the command in the seen cache only after the verifier returned nil, or removes the record on every verification-failure path; it returns true only when the recording step reported the command as new")
	r.Rule("C29.R2", "no delete on the seen cache is reachable for an entry younger than 2x the timestamp window (a command stamped t verifies during [t-W, t+W]) under the configured retention/window values")
	r.Rule("C29.R3", "every delete on the seen cache depends on the entry's age (no delete reachable for a fresh entry); the cache map is never replaced or cleared outside construction")
	r.Rule("C29.R4", "each insert into the seen cache is guarded by a lookup of the cache reporting 'absent', both inside one write-locked region of the same mutex; on the 'present' edge the recording function answers false")
	r.Rule("C29.R5", "the key under which a command is recorded derives from the command's OriginAgent and CommandID (signed fields) and from nothing that varies between deliveries of the same command")
	cx := c28NewCtx(p, r)
	if cx == nil {
		return
	}
	// the cache field: a Flooder map keyed by SleepCommandKey
	var cache *types.Var
	for _, f := range kit.StructFields(cx.flooder) {
		if m, ok := f.Type().Underlying().(*types.Map); ok {
			if n, ok := m.Key().(*types.Named); ok && n.Obj().Name() == "SleepCommandKey" {
				cache = f
			}
		}
	}
	if !r.Require(cache != nil, "anchor-unresolved: Flooder field of type map[SleepCommandKey]...") {
		return
	}
	inserts := p.FieldAccessesOfKind(cache, kit.MapInsert)
	deletes := p.FieldAccessesOfKind(cache, kit.MapDelete)
	r.Count("cache_insert_sites", len(inserts))
	r.Count("cache_delete_sites", len(deletes))
	if !r.Require(len(inserts) >= 1, "floor: no insert into Flooder.%s found", cache.Name()) {
		return
	}
	inserter := map[*ssa.Function]bool{}
	for _, a := range inserts {
		inserter[a.Fn] = true
	}
	deleter := map[*ssa.Function]bool{}
	for _, a := range deletes {
		deleter[a.Fn] = true
	}

	// ---------------- R1 (semantic): evaluated on the exported handlers with a key configured
	isInsert := map[ssa.Instruction]bool{}
	for _, a := range inserts {
		isInsert[a.Instr] = true
	}
	nHandlers := 0
	for _, h := range cx.handlers {
		nHandlers++
		hname := kit.FuncName(h)
		args := c28BindArgs(h)
		// (a) with crypto.Verify rejecting the command, no insert into the cache is reached
		insertHit := false
		obs := &c28Obs{cache: cache}
		cfg := cx.pxFlood(c28Scenario{"", 0, false, true}, obs, nil)
		cfg.Visit = func(fr *kit.PxFrame, in ssa.Instruction) bool {
			if isInsert[in] {
				insertHit = true
			}
			return true
		}
		run := kit.PathxExplore(h, args, cfg)
		if run.Truncated {
			r.Floor("checker: abstract evaluation of %s exceeded its step budget", hname)
			continue
		}
		ok, detail := !insertHit, "no insert into the seen cache is reachable while crypto.Verify rejects the command"
		if !ok && c29StructuralR1(cx, p, h, inserts, inserter, deleter) {
			ok, detail = true, "recorded before verification, but removed again on every verification-failure path"
		}
		r.Decide(ok, "C29.R1", hname+" records only verified commands", p.Pos(h.Pos()), detail,
			"the command id is recorded as seen before (or regardless of) verification: any peer can pre-empt a genuine command by sending its (origin, id) unsigned first, and unsigned floods fill the cache until genuine entries are evicted and become replayable")
		// (b) with the command already recorded (lookup: present), the handler never answers true
		acceptedDup := false
		obs2 := &c28Obs{cache: cache, present: 1}
		cfg2 := cx.pxFlood(c28Scenario{"", 0, true, false}, obs2, nil)
		cfg2.Return = func(fr *kit.PxFrame, ret *ssa.Return, res []kit.PxVal) {
			if ret.Block() == h.Recover || len(res) == 0 {
				return
			}
			if v := res[0]; !(v.K == kit.PxBool && !v.B) {
				acceptedDup = true
			}
		}
		if run := kit.PathxExplore(h, args, cfg2); run.Truncated {
			r.Floor("checker: abstract evaluation of %s exceeded its step budget", hname)
			continue
		}
		// model fit: with the command absent and valid, the handler can answer true and records it
		insertGood, acceptedGood := false, false
		obs3 := &c28Obs{cache: cache, present: 2}
		cfg3 := cx.pxFlood(c28Scenario{"", 0, true, false}, obs3, nil)
		cfg3.Visit = func(fr *kit.PxFrame, in ssa.Instruction) bool {
			if isInsert[in] {
				insertGood = true
			}
			return true
		}
		cfg3.Return = func(fr *kit.PxFrame, ret *ssa.Return, res []kit.PxVal) {
			if len(res) > 0 && !(res[0].K == kit.PxBool && !res[0].B) {
				acceptedGood = true
			}
		}
		kit.PathxExplore(h, args, cfg3)
		r.Require(insertGood && acceptedGood, "checker: abstract evaluation of %s does not reach the recording step / a true return for a new valid command (model does not fit the code)", hname)
		r.Decide(!acceptedDup, "C29.R1", hname+" accepts only commands recorded as new", p.Pos(h.Pos()),
			"with the command already in the seen cache no path returns true",
			"the handler can return true although the seen-cache already holds the command (result ignored, a bypass for some senders, or a fallback): the same signed command is acted on again when it is replayed")
	}
	r.Count("verifying_handlers", nHandlers)

	// ---------------- R2 / R3
	c29Retention(cx, p, r, cache, deletes)
	nReset := 0
	for _, a := range p.FieldAccessesOfKind(cache, kit.FieldStore, kit.FieldClear) {
		if a.Kind == kit.FieldStore {
			if _, fresh := c28Root(a.Base).(*ssa.Alloc); fresh {
				continue // construction of a new Flooder
			}
		}
		nReset++
		r.Violation("C29.R3", fmt.Sprintf("%s resets %s #%d", kit.FuncName(a.Fn), cache.Name(), nReset), p.Pos(a.Instr.Pos()),
			"the seen cache is replaced/cleared wholesale: every live entry is forgotten and each recorded command can be replayed within its window")
	}
	if nReset == 0 {
		r.OK("C29.R3", "no wholesale reset of "+cache.Name(), p.Pos(cx.handlers[0].Pos()), "the map is only assigned at construction")
	}

	// ---------------- R4
	lookups := p.FieldAccessesOfKind(cache, kit.MapLookup)
	lookupFn := map[*ssa.Function]bool{}
	for _, lk := range lookups {
		lookupFn[lk.Fn] = true
	}
	ord := map[*ssa.Function]int{}
	for _, ins := range inserts {
		ord[ins.Fn]++
		key := fmt.Sprintf("%s insert #%d", kit.FuncName(ins.Fn), ord[ins.Fn])
		li := kit.Locks(ins.Fn)
		ok, detail := false, "the insert is not performed under a write lock taken in the same function"
		for _, op := range li.Ops {
			if op.Mutex == nil || !op.Acquire || op.Read {
				continue
			}
			acq, held := li.HeldAt(ins.Instr, op.Mutex)
			if !held || acq == nil {
				continue
			}
			if lo, isOp := c29LockOp(li, acq); !isOp || lo.Read {
				detail = "the insert happens under a read lock"
				continue
			}
			detail = "no lookup of the cache in the same locked region reports 'absent' on the way to the insert"
			for _, lk := range lookups {
				if lk.Fn != ins.Fn {
					continue
				}
				look, isL := lk.Instr.(*ssa.Lookup)
				if !isL || !look.CommaOk {
					continue
				}
				if !li.SameRegion(lk.Instr, ins.Instr, op.Mutex) {
					continue
				}
				if c29AbsentGuard(look, ins.Instr) {
					ok, detail = true, "lookup and insert share one write-locked region; the insert is on the 'absent' edge"
				}
			}
			// the lookup may live in a helper called inside the same region ("is it there?")
			if !ok {
				for _, c := range kit.Calls(ins.Fn) {
					call, isCall := c.(*ssa.Call)
					cal := kit.CalleeOf(c)
					if !isCall || cal.Static == nil || !lookupFn[cal.Static] || !li.SameRegion(c, ins.Instr, op.Mutex) {
						continue
					}
					presentRes, known := c29PresentResult(cx, cal.Static, cache)
					if !known {
						continue
					}
					for _, g := range kit.GuardsOf(ins.Instr) {
						cond, pol := c28StripBool(g.Cond, g.Polarity)
						if cond == ssa.Value(call) && pol == !presentRes {
							ok, detail = true, "the lookup helper and the insert share one write-locked region; the insert is on the helper's 'absent' answer"
						}
					}
				}
			}
			if ok {
				break
			}
		}
		r.Decide(ok, "C29.R4", key, p.Pos(ins.Instr.Pos()), detail,
			detail+": two concurrent deliveries of one command can both be reported as new and both take effect")
	}
	// R4 (second half): on the 'present' edge of the lookup the record step never answers "new"
	for fn := range inserter {
		res := fn.Signature.Results()
		if res.Len() == 0 {
			continue
		}
		if b, ok := res.At(0).Type().Underlying().(*types.Basic); !ok || b.Kind() != types.Bool {
			continue
		}
		bad := ssa.Instruction(nil)
		// semantic form first: with the command present in the cache, no path answers "new"
		semantic := false
		if fn.Parent() == nil {
			obsP := &c28Obs{cache: cache, present: 1}
			cfgP := cx.pxFlood(c28Scenario{"", 0, true, false}, obsP, nil)
			nRet := 0
			cfgP.Return = func(fr *kit.PxFrame, ret *ssa.Return, res []kit.PxVal) {
				if ret.Block() == fn.Recover || len(res) == 0 {
					return
				}
				nRet++
				if !(res[0].K == kit.PxBool && !res[0].B) {
					bad = ret
				}
			}
			if run := kit.PathxExplore(fn, c28BindArgs(fn), cfgP); !run.Truncated && nRet > 0 {
				semantic = true
			} else {
				bad = nil
			}
		}
		for _, lk := range lookups {
			look, isL := lk.Instr.(*ssa.Lookup)
			if semantic || lk.Fn != fn || !isL || !look.CommaOk {
				continue
			}
			for _, ret := range kit.Returns(fn) {
				if ret.Block() == fn.Recover {
					continue
				}
				present := false
				for _, g := range kit.GuardsOf(ret) {
					cond, pol := c28StripBool(g.Cond, g.Polarity)
					if ex, ok := cond.(*ssa.Extract); ok && ex.Tuple == ssa.Value(look) && ex.Index == 1 && pol {
						present = true
					}
				}
				if !present {
					continue
				}
				if b, ok := kit.ConstBool(kit.ReturnResult(ret, 0)); !ok || b {
					bad = ret
				}
			}
		}
		pos := p.Pos(fn.Pos())
		if bad != nil {
			pos = p.Pos(bad.Pos())
		}
		// ... and "new" is answered only after the record has been written
		var unrec ssa.Instruction
		for _, ret := range kit.Returns(fn) {
			if ret.Block() == fn.Recover {
				continue
			}
			if b, ok := kit.ConstBool(kit.ReturnResult(ret, 0)); ok && !b {
				continue
			}
			recorded := false
			for _, ins := range inserts {
				if ins.Fn == fn && kit.Precedes(ins.Instr, ret) {
					recorded = true
				}
			}
			if !recorded {
				unrec = ret
			}
		}
		upos := p.Pos(fn.Pos())
		if unrec != nil {
			upos = p.Pos(unrec.Pos())
		}
		r.Decide(unrec == nil, "C29.R4", kit.FuncName(fn)+" answers 'new' only after recording", upos,
			"every possibly-true return is dominated by the insert",
			"the recording function can answer 'new' without having written the record (e.g. when the cache is full): the command is acted on now and again on every replay")
		r.Decide(bad == nil, "C29.R4", kit.FuncName(fn)+" answers 'seen' for a recorded command", pos,
			"every return on the lookup's 'present' edge yields false",
			"a command that is already recorded can be reported as new again (e.g. 'entry looks stale' or 'seen from another peer'): the replayed command takes effect a second time")
	}
	// R5: the cache key is exactly the signed identity of the command. Decided on the abstract
	// value of the key where the evaluation from the package's entry points determines it
	// completely; otherwise by provenance.
	keyGood, keyBad, keyUndet := map[ssa.Instruction]bool{}, map[ssa.Instruction]string{}, map[ssa.Instruction]bool{}
	entryFns, _ := c29Tops(p, inserter)
	for _, top := range entryFns {
		if top.Parent() != nil {
			continue
		}
		obsK := &c28Obs{cache: cache, present: 2}
		cfgK := cx.pxFlood(c28Scenario{"", 0, true, false}, obsK, nil)
		cfgK.Visit = func(fr *kit.PxFrame, in ssa.Instruction) bool {
			mu, ok := in.(*ssa.MapUpdate)
			if !ok || !isInsert[in] {
				return true
			}
			kv, _ := fr.Value(mu.Key)
			verdict, why := c29KeyVerdict(kv)
			switch verdict {
			case 1:
				keyGood[in] = true
			case 2:
				keyBad[in] = why
			default:
				keyUndet[in] = true
			}
			return true
		}
		kit.PathxExplore(top, c28BindArgs(top), cfgK)
	}
	ordK := map[*ssa.Function]int{}
	for _, ins := range inserts {
		ordK[ins.Fn]++
		key := fmt.Sprintf("%s insert #%d key", kit.FuncName(ins.Fn), ordK[ins.Fn])
		if keyBad[ins.Instr] != "" || (keyGood[ins.Instr] && !keyUndet[ins.Instr]) {
			okK := keyBad[ins.Instr] == ""
			d := "on every evaluated path the key is exactly (cmd.OriginAgent, cmd.CommandID)"
			if !okK {
				d = "the cache key does not consist of exactly the command's signed identity (" + keyBad[ins.Instr] + ")"
			}
			r.Decide(okK, "C29.R5", key, p.Pos(ins.Instr.Pos()), d,
				d+": the same signed command presented with a different value of that component is treated as new and takes effect again — or distinct commands collide")
			continue
		}
		have := map[string]bool{}
		foreign := ""
		for _, src := range kit.Slice(ins.Key, kit.SliceOpts{Prog: p, FollowParams: true, ParamDepth: 2}) {
			switch src.Kind {
			case kit.SrcField:
				if src.Field == nil {
					continue
				}
				owner := c28IsCmdPtr(src.Base.Type())
				switch {
				case owner != "" && (src.Field.Name() == "OriginAgent" || src.Field.Name() == "CommandID" || src.Field.Name() == "Timestamp"):
					have[src.Field.Name()] = true
				case owner != "":
					foreign = "command field " + src.Field.Name() + " (not part of the signed bytes / changes per hop)"
				default:
					foreign = "field " + src.Field.Name()
				}
			case kit.SrcParam:
				if c28IsCmdPtr(src.Value.Type()) != "" {
					continue
				}
				if src.Fn != nil && src.Fn.Signature.Recv() != nil && len(src.Fn.Params) > 0 && src.Value == ssa.Value(src.Fn.Params[0]) {
					continue
				}
				foreign = "parameter " + src.Value.Name() + " of " + kit.FuncName(src.Fn)
			case kit.SrcCall, kit.SrcGlobal, kit.SrcRecv, kit.SrcLookup:
				foreign = src.String()
			}
		}
		okKey := have["OriginAgent"] && have["CommandID"] && foreign == ""
		detail := "the key derives from the command's OriginAgent and CommandID only"
		if !okKey {
			detail = "the cache key does not consist of exactly the command's signed identity"
			if foreign != "" {
				detail += " (it depends on " + foreign + ")"
			} else {
				detail += " (OriginAgent/CommandID of the command do not both reach it)"
			}
		}
		r.Decide(okKey, "C29.R5", key, p.Pos(ins.Instr.Pos()), detail,
			detail+": the same signed command presented with a different value of that component (another neighbour, another SeenBy list) is treated as new and takes effect again — or distinct commands collide")
	}
}

// c29KeyVerdict judges the abstract value of a cache key: 1 = exactly the command's signed
// identity, 2 = contains something else that is known, 0 = not fully determined.
func c29KeyVerdict(kv kit.PxVal) (int, string) {
	if kv.K != kit.PxAgg {
		return 0, ""
	}
	have := map[string]bool{}
	undet := false
	for _, e := range kv.Agg {
		switch {
		case e.K == kit.PxSym && (e.Sym == "$origin" || e.Sym == "$id"):
			have[e.Sym] = true
		case e.K == kit.PxInt && e.I == c28TS:
			// the (signed) timestamp
		case e.K == kit.PxUnknown:
			undet = true
		default:
			return 2, "a component is neither the command's OriginAgent nor its CommandID"
		}
	}
	if undet {
		return 0, ""
	}
	if have["$origin"] && have["$id"] {
		return 1, ""
	}
	return 2, "OriginAgent and CommandID of the command do not both reach it"
}

// c29PresentResult evaluates a bool-valued lookup helper with the command present in the
// cache: the constant it then returns (e.g. touchSeen -> true, isNew -> false).
func c29PresentResult(cx *c28Ctx, fn *ssa.Function, cache *types.Var) (res bool, known bool) {
	if fn.Signature.Results().Len() == 0 {
		return false, false
	}
	var vals []kit.PxVal
	obs := &c28Obs{cache: cache, present: 1}
	cfg := cx.pxFlood(c28Scenario{"", 0, true, false}, obs, nil)
	cfg.Return = func(fr *kit.PxFrame, ret *ssa.Return, r []kit.PxVal) {
		if ret.Block() != fn.Recover && len(r) > 0 {
			vals = append(vals, r[0])
		}
	}
	if run := kit.PathxExplore(fn, c28BindArgs(fn), cfg); run.Truncated || len(vals) == 0 {
		return false, false
	}
	for _, v := range vals {
		if v.K != kit.PxBool || v.B != vals[0].B {
			return false, false
		}
	}
	return vals[0].B, true
}

// c29MarkedNew: control reaches b only when a call of an inserting function returned true.
func c29MarkedNew(b *ssa.BasicBlock, inserter map[*ssa.Function]bool) bool {
	for _, g := range kit.Guards(b) {
		cond, pol := c28StripBool(g.Cond, g.Polarity)
		if !pol {
			continue
		}
		all := true
		n := 0
		for _, leaf := range kit.PhiLeaves(cond) {
			if bv, ok := kit.ConstBool(leaf); ok && !bv {
				continue
			}
			c, _, ok := kit.ResultOf(leaf)
			if !ok {
				all = false
				break
			}
			if cal := kit.CalleeOf(c); cal.Static == nil || !inserter[cal.Static] {
				all = false
				break
			}
			n++
		}
		if all && n > 0 {
			return true
		}
	}
	return false
}

// c29StructuralR1: the mark-then-unmark idiom, judged structurally in the handler itself: every
// recording site in h is dominated by verifier == nil or compensated on every failure path.
func c29StructuralR1(cx *c28Ctx, p *kit.Program, h *ssa.Function, inserts []kit.FieldAccess, inserter, deleter map[*ssa.Function]bool) bool {
	var vcalls []*ssa.Call
	for _, c := range kit.Calls(h) {
		if cal := kit.CalleeOf(c); cal.Static != nil && cx.isVerify[cal.Static] {
			if call, ok := c.(*ssa.Call); ok {
				vcalls = append(vcalls, call)
			}
		}
	}
	var marks []ssa.Instruction
	kit.Instrs(h, func(in ssa.Instruction) {
		switch x := in.(type) {
		case ssa.CallInstruction:
			if cal := kit.CalleeOf(x); cal.Static != nil && inserter[cal.Static] {
				marks = append(marks, in)
			}
		case *ssa.MapUpdate:
			for _, a := range inserts {
				if a.Instr == in {
					marks = append(marks, in)
				}
			}
		}
	})
	if len(vcalls) == 0 || len(marks) == 0 {
		return false
	}
	for _, m := range marks {
		if !cx.verifiedAt(m) && !c29Compensated(cx, h, m, vcalls, deleter) {
			return false
		}
	}
	return true
}

func c29LockOp(li *kit.LockInfo, in ssa.Instruction) (kit.LockOp, bool) {
	for _, op := range li.Ops {
		if op.Instr == in {
			return op, true
		}
	}
	return kit.LockOp{}, false
}

// c29AbsentGuard: the insert executes only when the comma-ok lookup said "not present".
func c29AbsentGuard(look *ssa.Lookup, ins ssa.Instruction) bool {
	for _, g := range kit.GuardsOf(ins) {
		cond, pol := c28StripBool(g.Cond, g.Polarity)
		if ex, ok := cond.(*ssa.Extract); ok && ex.Tuple == ssa.Value(look) && ex.Index == 1 && !pol {
			return true
		}
	}
	return false
}

// c29Compensated: the mark precedes the verifier call, and every path from a verification-failure
// edge to a return passes a removal from the cache (a delete here, or a call of a function that
// deletes a key derived from its parameters).
func c29Compensated(cx *c28Ctx, h *ssa.Function, mark ssa.Instruction, vcalls []*ssa.Call, deleter map[*ssa.Function]bool) bool {
	unmarkBlocks := map[*ssa.BasicBlock]bool{}
	kit.Instrs(h, func(in ssa.Instruction) {
		if c, ok := in.(ssa.CallInstruction); ok {
			cal := kit.CalleeOf(c)
			if cal.Built == "delete" || (cal.Static != nil && deleter[cal.Static] && c29DeletesParamKey(cal.Static)) {
				unmarkBlocks[in.Block()] = true
			}
		}
	})
	if len(unmarkBlocks) == 0 {
		return false
	}
	found := false
	for _, v := range vcalls {
		if !kit.Precedes(mark, v) {
			continue
		}
		errV := kit.ErrResultOf(v)
		if errV == nil || errV.Referrers() == nil {
			return false
		}
		// the If(s) testing the verifier's error
		for _, b := range h.Blocks {
			if len(b.Instrs) == 0 {
				continue
			}
			ifi, ok := b.Instrs[len(b.Instrs)-1].(*ssa.If)
			if !ok {
				continue
			}
			failSucc := -1
			for pol := 0; pol < 2; pol++ {
				cond, p2 := c28StripBool(ifi.Cond, pol == 0)
				if x, trueMeansNil, isNil := kit.IsErrNilCheck(cond); isNil && x == errV && trueMeansNil != p2 {
					failSucc = pol
				}
			}
			if failSucc < 0 {
				continue
			}
			found = true
			start := b.Succs[failSucc]
			reach := kit.Reach(start, nil, unmarkBlocks)
			for rb := range reach {
				if unmarkBlocks[rb] {
					continue
				}
				for _, in := range rb.Instrs {
					if _, isRet := in.(*ssa.Return); isRet {
						return false
					}
				}
			}
		}
	}
	return found
}

func c29DeletesParamKey(fn *ssa.Function) bool {
	ok := false
	for _, c := range kit.Calls(fn) {
		if kit.CalleeOf(c).Built == "delete" && len(c.Common().Args) == 2 {
			for _, s := range kit.Slice(c.Common().Args[1], kit.SliceOpts{}) {
				if s.Kind == kit.SrcParam {
					ok = true
				}
			}
		}
	}
	return ok
}

// ---------- retention / eviction by abstract evaluation ----------

type c29Sample struct{ ttl, w int64 } // seconds

func c29Retention(cx *c28Ctx, p *kit.Program, r *kit.Report, cache *types.Var, deletes []kit.FieldAccess) {
	// maps.DeleteFunc(cache, pred) is the loop `for k, v := range cache { if pred(k, v) { delete } }`
	delFuncSite := map[ssa.Instruction]bool{}
	for _, fn := range p.RepoFuncs() {
		for _, c := range kit.Calls(fn) {
			cal := kit.CalleeOf(c)
			if cal.Pkg == "maps" && cal.Name == "DeleteFunc" && len(c.Common().Args) == 2 {
				if f, base := c29MapField(c.Common().Args[0]); f == cache {
					delFuncSite[c] = true
					deletes = append(deletes, kit.FieldAccess{Kind: kit.MapDelete, Field: cache, Fn: fn, Instr: c, Base: base})
				}
			}
		}
	}
	r.Count("cache_deletefunc_sites", len(delFuncSite))
	if len(deletes) == 0 {
		r.OK("C29.R3", "no delete on "+cache.Name(), p.Pos(cx.handlers[0].Pos()), "entries are never removed")
		return
	}
	samples, how := c29Samples(cx, p)
	r.Note("C29 retention samples (%s): %v [seconds: ttl, window]", how, samples)
	isDelete := map[ssa.Instruction]int{}
	ordOf := map[*ssa.Function]int{}
	keys := map[ssa.Instruction]string{}
	delFns := map[*ssa.Function]bool{}
	for _, d := range deletes {
		ordOf[d.Fn]++
		isDelete[d.Instr] = ordOf[d.Fn]
		keys[d.Instr] = fmt.Sprintf("%s delete #%d", kit.FuncName(d.Fn), ordOf[d.Fn])
		delFns[d.Fn] = true
	}
	// entry points: the delete functions' transitive static callers inside the package that have no
	// plain-call caller there (goroutine bodies, exported handlers). EVERY delete of the cache in the
	// repository is judged, wherever it lives.
	tops, onPath := c29Tops(p, delFns)
	// deletes / deleter calls on a verification-failure edge remove an unauthenticated record
	compensating := map[ssa.Instruction]bool{}
	for fn := range onPath {
		kit.Instrs(fn, func(in ssa.Instruction) {
			c, ok := in.(ssa.CallInstruction)
			if !ok {
				return
			}
			cal := kit.CalleeOf(c)
			if !(isDelete[in] > 0 || (cal.Static != nil && delFns[cal.Static])) {
				return
			}
			for _, g := range kit.GuardsOf(in) {
				if cx.guardVerifies(g.Cond, !g.Polarity) && !cx.guardVerifies(g.Cond, g.Polarity) {
					compensating[in] = true
				}
			}
		})
	}
	var topNames []string
	for _, t := range tops {
		topNames = append(topNames, kit.FuncName(t))
	}
	sort.Strings(topNames)
	r.Note("C29 cleanup entry points: %v", topNames)
	r.Count("cleanup_entry_points", len(tops))

	const sec = int64(1e9)
	const now = int64(5_000_000) // seconds
	restricted := false          // second attempt: interpret only the functions leading to a delete
	explore := func(ageSec int64, s c29Sample) (map[ssa.Instruction]bool, bool) {
		hit := map[ssa.Instruction]bool{}
		trunc := false
		for _, top := range tops {
			args := make([]kit.PxVal, len(top.Params))
			for i, prm := range top.Params {
				switch {
				case i == 0 && top.Signature.Recv() != nil:
					args[i] = kit.PxS("recv")
				case prm.Type().String() == "time.Time":
					args[i] = kit.PxI(now * sec) // a `now` parameter of an entry point
				}
			}
			cfg := &kit.PxConfig{
				Now: now * sec,
				Load: func(fr *kit.PxFrame, sym string, at ssa.Instruction) (kit.PxVal, bool) {
					switch {
					case cx.winSyms[sym]:
						return kit.PxI(s.w * sec), true
					case sym == "recv.cfg.SeenCacheTTL":
						return kit.PxI(s.ttl * sec), true
					case sym == "entry.SeenAt":
						return kit.PxI((now - ageSec) * sec), true
					}
					return kit.PxVal{}, false
				},
				Call: func(fr *kit.PxFrame, c ssa.CallInstruction, a []kit.PxVal) ([]kit.PxVal, bool) {
					if !delFuncSite[c] || len(a) != 2 {
						return nil, false
					}
					results, ok := fr.CallFunc(a[1], []kit.PxVal{kit.PxS("key"), kit.PxS("entry")})
					if !ok {
						hit[c] = true // predicate not resolvable: assume it may delete
						return []kit.PxVal{}, true
					}
					for _, res := range results {
						if len(res) == 0 || !(res[0].K == kit.PxBool && !res[0].B) {
							hit[c] = true
						}
					}
					return []kit.PxVal{}, true
				},
				Compute: func(fr *kit.PxFrame, v ssa.Value) ([]kit.PxVal, bool) {
					switch x := v.(type) {
					case *ssa.Next:
						if rg, ok := x.Iter.(*ssa.Range); ok {
							if f, _ := c29MapField(rg.X); f == cache {
								return []kit.PxVal{{}, kit.PxS("key"), kit.PxS("entry")}, true
							}
						}
					case *ssa.Lookup:
						if f, _ := c29MapField(x.X); f == cache {
							if x.CommaOk {
								return []kit.PxVal{kit.PxS("entry"), {}}, true
							}
							return []kit.PxVal{kit.PxS("entry")}, true
						}
					}
					return nil, false
				},
				Descend: func(c ssa.CallInstruction, callee *ssa.Function) bool {
					if kit.FuncPkgPath(callee) != kit.PkgPath(c28Flood) {
						return false
					}
					if onPath[callee] {
						return true
					}
					// small value helpers (the retention computation); other caches' cleanups
					// are irrelevant and would only multiply paths
					if restricted {
						return false
					}
					res := callee.Signature.Results()
					if !(res.Len() == 1 && len(callee.Blocks) <= 12 && (c28IsDuration(res.At(0).Type()) || c29IsIntLike(res.At(0).Type()))) {
						return false
					}
					for _, b := range callee.Blocks {
						for _, sc := range b.Succs {
							if sc.Dominates(b) {
								return false
							}
						}
					}
					return true
				},
				Visit: func(fr *kit.PxFrame, in ssa.Instruction) bool {
					if compensating[in] {
						return false // removal of a record whose verification just failed (R1 idiom)
					}
					if isDelete[in] > 0 && !delFuncSite[in] {
						hit[in] = true // (DeleteFunc sites are judged by their predicate, in Call)
					}
					return true
				},
				MaxDepth: 5,
			}
			run := kit.PathxExplore(top, args, cfg)
			if run.Truncated {
				trunc = true
			}
		}
		return hit, trunc
	}
	// R3: fresh entry (age 0) under the first sample
	fresh, trunc := explore(0, samples[0])
	if trunc {
		restricted = true
		fresh, trunc = explore(0, samples[0])
	}
	if trunc {
		// degrade: nothing can be decided exactly about retention / eviction on this tree; the
		// structural clauses (R1, R4, R5, wholesale reset) are still judged
		r.Note("C29: abstract evaluation of the cache cleanup exceeded its step budget even when restricted to the deleting functions; R2/R3 delete reachability not decided on this tree")
		return
	}
	// liveness control: some delete must be reachable for a very old entry, else the model does not fit
	old, _ := explore(1000*samples[0].w+1000*samples[0].ttl, samples[0])
	r.Require(len(old) >= 1, "checker: no delete on %s is reachable for an arbitrarily old entry from %v (model does not fit the code)", cache.Name(), topNames)
	var order []ssa.Instruction
	for in := range keys {
		order = append(order, in)
	}
	sort.Slice(order, func(i, j int) bool { return keys[order[i]] < keys[order[j]] })
	for _, in := range order {
		if !old[in] && !fresh[in] {
			// never reached by the evaluation: fine only for the compensating removal of R1
			comp := compensating[in]
			if !comp {
				sites := 0
				all := true
				for _, site := range p.StaticCallers(in.Parent()) {
					sites++
					if !compensating[site] {
						all = false
					}
				}
				comp = sites > 0 && all
			}
			if comp {
				r.OK("C29.R3", keys[in], p.Pos(in.Pos()), "only executed on a verification-failure path (removes the record of a rejected command)")
			} else {
				r.Floor("checker: the delete %s is not reached by the abstract evaluation from %v", keys[in], topNames)
			}
			continue
		}
		r.Decide(!fresh[in], "C29.R3", keys[in], p.Pos(in.Pos()),
			"not reachable for a fresh entry: the delete depends on the entry's age",
			"this delete is reachable for an entry recorded just now (it does not depend on the entry's age — a size cap evicting in map order, a 'superseded by a later command' release, an explicit forget): a recorded command is forgotten while it still verifies, so replaying it takes effect a second time")
	}
	// R2: age just below 2W under every sample
	for _, in := range order {
		if fresh[in] || !old[in] {
			continue // already reported under R3 / compensating removal
		}
		bad := ""
		for _, s := range samples {
			young, tr := explore(2*s.w-1, s)
			if tr {
				r.Note("C29: abstract evaluation of the cache cleanup exceeded its step budget in the retention scenario; R2 not decided on this tree")
				return
			}
			if young[in] {
				bad = fmt.Sprintf("retention %ds / window %ds", s.ttl, s.w)
				break
			}
		}
		r.Decide(bad == "", "C29.R2", keys[in]+" retention", p.Pos(in.Pos()),
			"an entry younger than 2x window is never deleted under the configured values",
			"with "+bad+" an entry aged 2*window-1s is deleted: a command stamped near now+window, first accepted now, is forgotten after the retention and verifies again until its timestamp leaves the window — it takes effect twice")
	}
}

func c29MapField(v ssa.Value) (*types.Var, ssa.Value) {
	for _, leaf := range kit.PhiLeaves(v) {
		if f, base := kit.LoadedField(leaf); f != nil {
			return f, base
		}
	}
	return nil, nil
}

// c29Tops: functions from which the delete functions are reached through plain static calls and
// which themselves have no plain static caller (goroutine entry points, exported API).
func c29Tops(p *kit.Program, delFns map[*ssa.Function]bool) ([]*ssa.Function, map[*ssa.Function]bool) {
	seen := map[*ssa.Function]bool{}
	var tops []*ssa.Function
	var up func(fn *ssa.Function, d int)
	up = func(fn *ssa.Function, d int) {
		if seen[fn] {
			return
		}
		seen[fn] = true
		n := 0
		if d < 6 {
			for _, site := range p.StaticCallers(fn) {
				if _, isCall := site.(*ssa.Call); !isCall {
					continue
				}
				// stay inside the cache's package: a function called from other packages
				// (an exported handler) is an entry point of its own, explored with unknown
				// arguments
				if site.Parent() == fn || kit.FuncPkgPath(site.Parent()) != kit.PkgPath(c28Flood) {
					continue
				}
				n++
				up(site.Parent(), d+1)
			}
		}
		if n == 0 {
			tops = append(tops, fn)
		}
	}
	var fns []*ssa.Function
	for fn := range delFns {
		fns = append(fns, fn)
	}
	sort.Slice(fns, func(i, j int) bool { return fns[i].Pos() < fns[j].Pos() })
	for _, fn := range fns {
		up(fn, 0)
	}
	return tops, seen
}

func c29IsIntLike(t types.Type) bool {
	b, ok := t.Underlying().(*types.Basic)
	return ok && b.Info()&(types.IsInteger|types.IsBoolean) != 0
}

// c29Samples: the (retention TTL, window) pairs the running agent can have: the constants of
// DefaultFloodConfig / NewFlooder; generic pairs are added when repository code outside the
// flood package assigns these configuration fields.
func c29Samples(cx *c28Ctx, p *kit.Program) ([]c29Sample, string) {
	ttlF := p.Field(c28Flood, "FloodConfig", "SeenCacheTTL")
	winF := p.Field(c28Flood, "FloodConfig", "TimestampWindow")
	constOf := func(f *types.Var, inFlood bool) (vals []int64, nonConst bool) {
		if f == nil {
			return nil, true
		}
		for _, a := range p.FieldAccessesOfKind(f, kit.FieldStore) {
			if (kit.FuncPkgPath(a.Fn) == kit.PkgPath(c28Flood)) != inFlood {
				continue
			}
			if k, ok := kit.ConstInt(a.Val); ok {
				if k > 0 {
					vals = append(vals, k/1e9)
				}
			} else {
				nonConst = true
			}
		}
		return
	}
	ttlD, _ := constOf(ttlF, true)
	winD, _ := constOf(winF, true)
	// NewFlooder's fallback constant for a zero window
	for _, fn := range p.FuncsInPkg(c28Flood) {
		if fn.Name() != "NewFlooder" {
			continue
		}
		kit.Instrs(fn, func(in ssa.Instruction) {
			if phi, ok := in.(*ssa.Phi); ok && c28IsDuration(phi.Type()) {
				for _, e := range phi.Edges {
					if k, ok := kit.ConstInt(e); ok && k > 0 {
						winD = append(winD, k/1e9)
					}
				}
			}
		})
	}
	ttlO, ttlNC := constOf(ttlF, false)
	winO, winNC := constOf(winF, false)
	how := "defaults of DefaultFloodConfig/NewFlooder; no assignment outside internal/flood"
	var out []c29Sample
	add := func(t, w int64) {
		for _, s := range out {
			if s.ttl == t && s.w == w {
				return
			}
		}
		out = append(out, c29Sample{t, w})
	}
	ttls := append(append([]int64{}, ttlD...), ttlO...)
	wins := append(append([]int64{}, winD...), winO...)
	for _, t := range ttls {
		for _, w := range wins {
			add(t, w)
		}
	}
	if len(out) == 0 || ttlNC || winNC {
		how = "generic (configuration fields are assigned from non-constants or defaults not found)"
		add(60, 300)
		add(300, 300)
		add(300, 3600)
		add(3600, 30)
	} else if len(ttlO)+len(winO) > 0 {
		how = "defaults plus constants assigned outside internal/flood"
	}
	return out, how
}
