package rules

import (
	"fmt"
	"go/token"
	"go/types"
	"sort"
	"strings"

	"golang.org/x/tools/go/ssa"

	"mmverify/kit"
)

func init() {
	const exh = "internal/exit/handler.go"
	const agt = "internal/agent/agent.go"
	register(&Check{
		ID: "C19", Level: "other", Patterns: []string{"./internal/agent"},
		Technique: "CFG liveness under falsified allow predicates, value flow of the dial address, field write-sets with lock regions, control dependence",
		Explain: "Decides on the SSA of internal/exit and internal/agent: (R1) every TCP dial of package exit is unreachable when both the domain-pattern predicate and the CIDR predicate are false, the dialled address is built from the very IP value that was checked (no second resolution of the requested name), and a domain-allowed flag handed over as a parameter is the domain predicate applied to the same requested address; (R2) the CIDR predicate returns true only after a Contains hit of the requested IP on an element of AllowedRoutes, and the domain predicate returns true only on an exact match or on a single-label wildcard match that is anchored at the end of the name (an unanchored occurrence of the pattern inside the name never suffices); (R3) AllowedRoutes is written only by AddAllowedRoute/RemoveAllowedRoute under the routes write lock (constructor literals aside), read under that lock, and the mutators are called only next to the dynamic-route operations; (R4) ManageRoute adds to the allow-list only after AddDynamicRoute succeeded, removes from it whenever RemoveDynamicRoute succeeded, with the same network value, and the allow-list has set semantics (idempotent add, or remove-all, or add skipped for an existing dynamic route) under the same network identity relation as the dynamic-route table (every comparison of two networks in the allow-list mutators compares the key function routing.Manager applies). " +
			"Not decided: DNS answers changing between requests, UDP/ICMP exits, the correctness of net.IPNet.Contains.",
		Run: runC19,
		SelfTests: []SelfTest{
			{Name: "dial when neither predicate allows (|| instead of &&)", ExpectRule: "C19.R1", ExpectKey: "guard", Edits: []Edit{
				{File: exh, Old: "\tif !domainAllowed && !h.isAllowed(ip) {", New: "\tif !domainAllowed && h.isAllowed(ip) {"},
			}},
			{Name: "allow check dropped for IP literals", ExpectRule: "C19.R1", ExpectKey: "guard", Edits: []Edit{
				{File: exh, Old: "\tif !domainAllowed && !h.isAllowed(ip) {", New: "\tif !domainAllowed && net.ParseIP(destAddr) == nil && !h.isAllowed(ip) {"},
			}},
			{Name: "rejection no longer returns", ExpectRule: "C19.R1", ExpectKey: "guard", Edits: []Edit{
				{File: exh, Old: "\t\th.sendOpenErr(remoteID, streamID, requestID, protocol.ErrNotAllowed, \"destination not allowed\")\n\t\treturn\n", New: "\t\th.sendOpenErr(remoteID, streamID, requestID, protocol.ErrNotAllowed, \"destination not allowed\")\n"},
			}},
			{Name: "dial the requested name instead of the checked IP", ExpectRule: "C19.R1", ExpectKey: "address", Edits: []Edit{
				{File: exh, Old: "\taddr := fmt.Sprintf(\"%s:%d\", ip.String(), destPort)", New: "\taddr := fmt.Sprintf(\"%s:%d\", destAddr, destPort)"},
			}},
			{Name: "domain-allowed flag defaults to true", ExpectRule: "C19.R1", ExpectKey: "domainAllowed", Edits: []Edit{
				{File: exh, Old: "\tdomainAllowed := false\n\tif net.ParseIP(destAddr) == nil {", New: "\tdomainAllowed := true\n\tif net.ParseIP(destAddr) == nil {"},
			}},
			{Name: "CIDR predicate allows everything when the list is empty", ExpectRule: "C19.R2", ExpectKey: "isAllowed", Edits: []Edit{
				{File: exh, Old: "\t\treturn false // Deny by default when no routes configured", New: "\t\treturn true"},
			}},
			{Name: "CIDR predicate falls through to allow", ExpectRule: "C19.R2", ExpectKey: "isAllowed", Edits: []Edit{
				{File: exh, Old: "\t\tif route.Contains(ip) {\n\t\t\treturn true\n\t\t}\n\t}\n\n\treturn false\n}", New: "\t\tif route.Contains(ip) {\n\t\t\treturn true\n\t\t}\n\t}\n\n\treturn len(h.cfg.AllowedRoutes) > 0\n}"},
			}},
			{Name: "CIDR predicate tests the network's own address", ExpectRule: "C19.R2", ExpectKey: "Contains", Edits: []Edit{
				{File: exh, Old: "\t\tif route.Contains(ip) {", New: "\t\tif route.Contains(route.IP) {"},
			}},
			{Name: "domain predicate allows when no exact match", ExpectRule: "C19.R2", ExpectKey: "isDomainAllowed", Edits: []Edit{
				{File: exh, Old: "\t\t\tif domain == strings.ToLower(dp.Pattern) {", New: "\t\t\tif domain != strings.ToLower(dp.Pattern) {"},
			}},
			{Name: "wildcard matches any depth of sub-domain", ExpectRule: "C19.R2", ExpectKey: "wildcard", Edits: []Edit{
				{File: exh, Old: "\t\t\t\tif !strings.Contains(prefix, \".\") && len(prefix) > 0 {", New: "\t\t\t\tif len(prefix) > 0 {"},
			}},
			{Name: "allow-list appended outside the routes lock", ExpectRule: "C19.R3", Edits: []Edit{
				{File: exh, Old: "// AllowedRouteCount returns the number of allowed routes.", New: "// AllowRoute adds without locking.\nfunc (h *Handler) AllowRoute(n *net.IPNet) {\n\th.cfg.AllowedRoutes = append(h.cfg.AllowedRoutes, n)\n}\n\n// AllowedRouteCount returns the number of allowed routes."},
			}},
			{Name: "allow-list mutated under the read lock", ExpectRule: "C19.R3", ExpectKey: "RemoveAllowedRoute", Edits: []Edit{
				{File: exh, Old: "func (h *Handler) RemoveAllowedRoute(network *net.IPNet) bool {\n\th.routesMu.Lock()\n\tdefer h.routesMu.Unlock()\n", New: "func (h *Handler) RemoveAllowedRoute(network *net.IPNet) bool {\n\th.routesMu.RLock()\n\tdefer h.routesMu.RUnlock()\n"},
			}},
			{Name: "advertised routes are mirrored into the allow-list", ExpectRule: "C19.R3", ExpectKey: "caller", Edits: []Edit{
				{File: agt, Old: "// ensureExitHandler creates an exit handler on demand if one does not exist.", New: "func (a *Agent) allowNetwork(n *net.IPNet) {\n\tif a.exitHandler != nil {\n\t\ta.exitHandler.AddAllowedRoute(n)\n\t}\n}\n\n// ensureExitHandler creates an exit handler on demand if one does not exist."},
			}},
			{Name: "allow-list extended before the dynamic route is accepted", ExpectRule: "C19.R4", ExpectKey: "add", Edits: []Edit{
				{File: agt, Old: "\t\tif err := a.routeMgr.AddDynamicRoute(ipNet, metric); err != nil {\n\t\t\treturn nil, err\n\t\t}\n\n\t\ta.ensureExitHandler().AddAllowedRoute(ipNet)\n", New: "\t\ta.ensureExitHandler().AddAllowedRoute(ipNet)\n\t\tif err := a.routeMgr.AddDynamicRoute(ipNet, metric); err != nil {\n\t\t\treturn nil, err\n\t\t}\n\n"},
			}},
			{Name: "dynamic route removal no longer revokes the permission", ExpectRule: "C19.R4", ExpectKey: "remove", Edits: []Edit{
				{File: agt, Old: "\t\tif a.exitHandler != nil {\n\t\t\ta.exitHandler.RemoveAllowedRoute(ipNet)\n\t\t}\n", New: ""},
			}},
			{Name: "allow-list add appends duplicates again", ExpectRule: "C19.R4", ExpectKey: "set semantics", Edits: []Edit{
				{File: exh, Old: "\t\tif route.String() == target {\n\t\t\treturn\n\t\t}\n\t}\n\th.cfg.AllowedRoutes = append(h.cfg.AllowedRoutes, network)", New: "\t\tif route.String() == target {\n\t\t\th.logger.Debug(\"duplicate allowed route\")\n\t\t}\n\t}\n\th.cfg.AllowedRoutes = append(h.cfg.AllowedRoutes, network)"},
			}},
			{Name: "agent starts the exit with an extra default network", ExpectRule: "C19.R3", ExpectKey: "initial allow-list", Edits: []Edit{
				{File: agt, Old: "\t\t\tAllowedRoutes:  routes,\n", New: "\t\t\tAllowedRoutes:  append(routes, routing.MustParseCIDR(\"0.0.0.0/0\")),\n"},
			}},
			{Name: "wildcard split at the first occurrence of the base (strings.Cut), remainder ignored", ExpectRule: "C19.R2", ExpectKey: "end-anchored", Edits: []Edit{
				{File: exh, Old: "\t\t\tif strings.HasSuffix(domain, suffix) {\n\t\t\t\t// Count dots before the suffix - should be zero for single-level wildcard\n\t\t\t\tprefix := domain[:len(domain)-len(suffix)]\n\t\t\t\tif !strings.Contains(prefix, \".\") && len(prefix) > 0 {\n\t\t\t\t\treturn true\n\t\t\t\t}\n\t\t\t}\n", New: "\t\t\tif label, _, found := strings.Cut(domain, suffix); found {\n\t\t\t\tif label != \"\" && !strings.Contains(label, \".\") {\n\t\t\t\t\treturn true\n\t\t\t\t}\n\t\t\t}\n"},
			}},
			{Name: "wildcard tested with strings.Index instead of a suffix test", ExpectRule: "C19.R2", ExpectKey: "end-anchored", Edits: []Edit{
				{File: exh, Old: "\t\t\tif strings.HasSuffix(domain, suffix) {\n\t\t\t\t// Count dots before the suffix - should be zero for single-level wildcard\n\t\t\t\tprefix := domain[:len(domain)-len(suffix)]\n\t\t\t\tif !strings.Contains(prefix, \".\") && len(prefix) > 0 {\n\t\t\t\t\treturn true\n\t\t\t\t}\n\t\t\t}\n", New: "\t\t\tif i := strings.Index(domain, suffix); i > 0 {\n\t\t\t\tif !strings.Contains(domain[:i], \".\") {\n\t\t\t\t\treturn true\n\t\t\t\t}\n\t\t\t}\n"},
			}},
			{Name: "exact pattern accepted as a mere substring", ExpectRule: "C19.R2", ExpectKey: "end-anchored", Edits: []Edit{
				{File: exh, Old: "\t\t\tif domain == strings.ToLower(dp.Pattern) {", New: "\t\t\tif strings.Contains(domain, strings.ToLower(dp.Pattern)) {"},
			}},
			{Name: "exact pattern accepted as a suffix", ExpectRule: "C19.R2", Edits: []Edit{
				{File: exh, Old: "\t\t\tif domain == strings.ToLower(dp.Pattern) {", New: "\t\t\tif strings.HasSuffix(domain, strings.ToLower(dp.Pattern)) {"},
			}},
			{Name: "allow decisions cached per address survive route removal", ExpectRule: "C19.R2", ExpectKey: "deny-by-default", Edits: []Edit{
				{File: exh, Old: "\tif len(h.cfg.AllowedRoutes) == 0 {\n\t\treturn false // Deny by default when no routes configured\n\t}\n", New: "\tif c19seen[ip.String()] {\n\t\treturn true\n\t}\n\tif len(h.cfg.AllowedRoutes) == 0 {\n\t\treturn false // Deny by default when no routes configured\n\t}\n"},
				{File: exh, Old: "// AllowedRouteCount returns the number of allowed routes.", New: "var c19seen = map[string]bool{}\n\n// AllowedRouteCount returns the number of allowed routes."},
			}},
			{Name: "allow-list compares networks by raw IP and mask bytes (helper)", ExpectRule: "C19.R4", ExpectKey: "network identity", Edits: []Edit{
				{File: exh, Old: "\ttarget := network.String()\n\tfor _, route := range h.cfg.AllowedRoutes {\n\t\tif route.String() == target {\n\t\t\treturn\n\t\t}\n\t}\n", New: "\tfor _, route := range h.cfg.AllowedRoutes {\n\t\tif sameNetwork(route, network) {\n\t\t\treturn\n\t\t}\n\t}\n"},
				{File: exh, Old: "// AllowedRouteCount returns the number of allowed routes.", New: "func sameNetwork(a, b *net.IPNet) bool {\n\treturn a.IP.Equal(b.IP) && a.Mask.String() == b.Mask.String()\n}\n\n// AllowedRouteCount returns the number of allowed routes."},
			}},
			{Name: "allow-list removal matches on the address only", ExpectRule: "C19.R4", ExpectKey: "network identity", Edits: []Edit{
				{File: exh, Old: "\ttarget := network.String()\n\tfor i, route := range h.cfg.AllowedRoutes {\n\t\tif route.String() == target {", New: "\tfor i, route := range h.cfg.AllowedRoutes {\n\t\tif route.IP.String() == network.IP.String() {"},
			}},
			{Name: "allow-list add de-duplicates by pointer", ExpectRule: "C19.R4", ExpectKey: "network identity", Edits: []Edit{
				{File: exh, Old: "\ttarget := network.String()\n\tfor _, route := range h.cfg.AllowedRoutes {\n\t\tif route.String() == target {\n\t\t\treturn\n\t\t}\n\t}\n", New: "\tfor _, route := range h.cfg.AllowedRoutes {\n\t\tif route == network {\n\t\t\treturn\n\t\t}\n\t}\n"},
			}},
			{Name: "admission helper no longer rejects when nothing allows", ExpectRule: "C19.R1", ExpectKey: "guard", Edits: []Edit{
				{File: exh, Old: "\t// Resolve address\n\tip, err := h.resolver.Resolve(ctx, destAddr)\n\tif err != nil {\n\t\th.sendOpenErr(remoteID, streamID, requestID, protocol.ErrHostUnreachable, err.Error())\n\t\treturn\n\t}\n\n\t// Check if destination is allowed (domain patterns OR CIDR routes)\n\tif !domainAllowed && !h.isAllowed(ip) {\n\t\th.sendOpenErr(remoteID, streamID, requestID, protocol.ErrNotAllowed, \"destination not allowed\")\n\t\treturn\n\t}\n", New: "\tip, rejection := h.admitDestination(ctx, destAddr, domainAllowed)\n\tif rejection != nil {\n\t\th.sendOpenErr(remoteID, streamID, requestID, rejection.code, rejection.message)\n\t\treturn\n\t}\n"},
				{File: exh, Old: "// AllowedRouteCount returns the number of allowed routes.", New: "type openRejection struct {\n\tcode    uint16\n\tmessage string\n}\n\nfunc (h *Handler) admitDestination(ctx context.Context, destAddr string, domainAllowed bool) (net.IP, *openRejection) {\n\tip, err := h.resolver.Resolve(ctx, destAddr)\n\tif err != nil {\n\t\treturn nil, &openRejection{code: protocol.ErrHostUnreachable, message: err.Error()}\n\t}\n\tswitch {\n\tcase domainAllowed:\n\tcase h.isAllowed(ip):\n\tdefault:\n\t\th.logger.Debug(\"destination not allowed\")\n\t}\n\treturn ip, nil\n}\n\n// AllowedRouteCount returns the number of allowed routes."},
			}},
			{Name: "wildcard helper anchors the base at the start of the name", ExpectRule: "C19.R2", ExpectKey: "end-anchored", Edits: []Edit{
				{File: exh, Old: "\t\t\tif strings.HasSuffix(domain, suffix) {\n\t\t\t\t// Count dots before the suffix - should be zero for single-level wildcard\n\t\t\t\tprefix := domain[:len(domain)-len(suffix)]\n\t\t\t\tif !strings.Contains(prefix, \".\") && len(prefix) > 0 {\n\t\t\t\t\treturn true\n\t\t\t\t}\n\t\t\t}\n", New: "\t\t\tif singleLabelUnder(domain, strings.ToLower(dp.BaseDomain)) {\n\t\t\t\treturn true\n\t\t\t}\n\t\t\t_ = suffix\n"},
				{File: exh, Old: "// AllowedRouteCount returns the number of allowed routes.", New: "func singleLabelUnder(name, base string) bool {\n\tsuffix := \".\" + base\n\tif !strings.HasPrefix(name, suffix) {\n\t\treturn false\n\t}\n\tlabel := name[len(suffix):]\n\treturn len(label) > 0 && !strings.Contains(label, \".\")\n}\n\n// AllowedRouteCount returns the number of allowed routes."},
			}},
			{Name: "CIDR helper allows when the list is empty", ExpectRule: "C19.R2", ExpectKey: "deny-by-default", Edits: []Edit{
				{File: exh, Old: "\tif len(h.cfg.AllowedRoutes) == 0 {\n\t\treturn false // Deny by default when no routes configured\n\t}\n\n\tfor _, route := range h.cfg.AllowedRoutes {\n\t\tif route.Contains(ip) {\n\t\t\treturn true\n\t\t}\n\t}\n\n\treturn false\n}", New: "\treturn anyRouteContains(h.cfg.AllowedRoutes, ip)\n}\n\nfunc anyRouteContains(routes []*net.IPNet, ip net.IP) bool {\n\tif len(routes) == 0 {\n\t\treturn true\n\t}\n\tfor i := 0; i < len(routes); i++ {\n\t\tif routes[i].Contains(ip) {\n\t\t\treturn true\n\t\t}\n\t}\n\treturn false\n}"},
			}},
			{Name: "wildcard makes the dot in front of the base optional", ExpectRule: "C19.R2", ExpectKey: "label-anchored", Edits: []Edit{
				{File: exh, Old: "\t\t\tsuffix := \".\" + strings.ToLower(dp.BaseDomain)\n\t\t\tif strings.HasSuffix(domain, suffix) {\n\t\t\t\t// Count dots before the suffix - should be zero for single-level wildcard\n\t\t\t\tprefix := domain[:len(domain)-len(suffix)]\n\t\t\t\tif !strings.Contains(prefix, \".\") && len(prefix) > 0 {\n\t\t\t\t\treturn true\n\t\t\t\t}\n\t\t\t}\n", New: "\t\t\tbase := strings.ToLower(dp.BaseDomain)\n\t\t\tif strings.HasSuffix(domain, base) {\n\t\t\t\tlabel := strings.TrimSuffix(domain[:len(domain)-len(base)], \".\")\n\t\t\t\tif label != \"\" && !strings.Contains(label, \".\") {\n\t\t\t\t\treturn true\n\t\t\t\t}\n\t\t\t}\n"},
			}},
			{Name: "wildcard cuts the bare base off the name", ExpectRule: "C19.R2", ExpectKey: "label-anchored", Edits: []Edit{
				{File: exh, Old: "\t\t\tsuffix := \".\" + strings.ToLower(dp.BaseDomain)\n\t\t\tif strings.HasSuffix(domain, suffix) {\n\t\t\t\t// Count dots before the suffix - should be zero for single-level wildcard\n\t\t\t\tprefix := domain[:len(domain)-len(suffix)]\n\t\t\t\tif !strings.Contains(prefix, \".\") && len(prefix) > 0 {\n\t\t\t\t\treturn true\n\t\t\t\t}\n\t\t\t}\n", New: "\t\t\tif prefix, ok := strings.CutSuffix(domain, strings.ToLower(dp.BaseDomain)); ok {\n\t\t\t\tif !strings.Contains(prefix, \".\") && len(prefix) > 0 {\n\t\t\t\t\treturn true\n\t\t\t\t}\n\t\t\t}\n"},
			}},
			{Name: "wildcard accepts the separator or nothing in front of the base", ExpectRule: "C19.R2", ExpectKey: "label-anchored", Edits: []Edit{
				{File: exh, Old: "\t\t\tsuffix := \".\" + strings.ToLower(dp.BaseDomain)\n\t\t\tif strings.HasSuffix(domain, suffix) {\n\t\t\t\t// Count dots before the suffix - should be zero for single-level wildcard\n\t\t\t\tprefix := domain[:len(domain)-len(suffix)]\n\t\t\t\tif !strings.Contains(prefix, \".\") && len(prefix) > 0 {\n\t\t\t\t\treturn true\n\t\t\t\t}\n\t\t\t}\n", New: "\t\t\tbase := strings.ToLower(dp.BaseDomain)\n\t\t\tif strings.HasSuffix(domain, base) {\n\t\t\t\tprefix := domain[:len(domain)-len(base)]\n\t\t\t\tif strings.Count(prefix, \".\") <= 1 && len(prefix) > 0 {\n\t\t\t\t\treturn true\n\t\t\t\t}\n\t\t\t}\n"},
			}},
			// rewrites
			{Name: "rewrite: allow decision as a named boolean", Edits: []Edit{
				{File: exh, Old: "\tif !domainAllowed && !h.isAllowed(ip) {", New: "\tallowed := domainAllowed || h.isAllowed(ip)\n\tif !allowed {"},
			}},
			{Name: "rewrite: De Morgan on the allow check", Edits: []Edit{
				{File: exh, Old: "\tif !domainAllowed && !h.isAllowed(ip) {", New: "\tif !(domainAllowed || h.isAllowed(ip)) {"},
			}},
			{Name: "rewrite: address through net.JoinHostPort", Edits: []Edit{
				{File: exh, Old: "\taddr := fmt.Sprintf(\"%s:%d\", ip.String(), destPort)", New: "\taddr := net.JoinHostPort(ip.String(), fmt.Sprint(destPort))"},
			}},
			{Name: "rewrite: CIDR predicate with a found flag", Edits: []Edit{
				{File: exh, Old: "\tfor _, route := range h.cfg.AllowedRoutes {\n\t\tif route.Contains(ip) {\n\t\t\treturn true\n\t\t}\n\t}\n\n\treturn false\n}", New: "\tfound := false\n\tfor _, route := range h.cfg.AllowedRoutes {\n\t\tif route.Contains(ip) {\n\t\t\tfound = true\n\t\t\tbreak\n\t\t}\n\t}\n\n\treturn found\n}"},
			}},
			{Name: "rewrite: idempotent add through a found flag", Edits: []Edit{
				{File: exh, Old: "\t\tif route.String() == target {\n\t\t\treturn\n\t\t}\n\t}\n\th.cfg.AllowedRoutes = append(h.cfg.AllowedRoutes, network)", New: "\t\tif route.String() == target {\n\t\t\tpresent = true\n\t\t\tbreak\n\t\t}\n\t}\n\tif !present {\n\t\th.cfg.AllowedRoutes = append(h.cfg.AllowedRoutes, network)\n\t}"},
				{File: exh, Old: "\ttarget := network.String()\n\tfor _, route := range h.cfg.AllowedRoutes {\n\t\tif route.String() == target {\n\t\t\tp", New: "\ttarget := network.String()\n\tpresent := false\n\tfor _, route := range h.cfg.AllowedRoutes {\n\t\tif route.String() == target {\n\t\t\tp"},
			}},
			{Name: "rewrite: remove-all instead of idempotent add", Edits: []Edit{
				{File: exh, Old: "\ttarget := network.String()\n\tfor _, route := range h.cfg.AllowedRoutes {\n\t\tif route.String() == target {\n\t\t\treturn\n\t\t}\n\t}\n\th.cfg.AllowedRoutes = append(h.cfg.AllowedRoutes, network)", New: "\th.cfg.AllowedRoutes = append(h.cfg.AllowedRoutes, network)"},
				{File: exh, Old: "\ttarget := network.String()\n\tfor i, route := range h.cfg.AllowedRoutes {\n\t\tif route.String() == target {\n\t\t\th.cfg.AllowedRoutes = append(h.cfg.AllowedRoutes[:i], h.cfg.AllowedRoutes[i+1:]...)\n\t\t\treturn true\n\t\t}\n\t}\n\treturn false\n", New: "\ttarget := network.String()\n\tkept := make([]*net.IPNet, 0, len(h.cfg.AllowedRoutes))\n\tfor _, route := range h.cfg.AllowedRoutes {\n\t\tif route.String() != target {\n\t\t\tkept = append(kept, route)\n\t\t}\n\t}\n\tremoved := len(kept) != len(h.cfg.AllowedRoutes)\n\th.cfg.AllowedRoutes = kept\n\treturn removed\n"},
			}},
			{Name: "rewrite: removal mirrored through a local handler variable", Edits: []Edit{
				{File: agt, Old: "\t\tif a.exitHandler != nil {\n\t\t\ta.exitHandler.RemoveAllowedRoute(ipNet)\n\t\t}\n", New: "\t\tif eh := a.exitHandler; eh != nil {\n\t\t\teh.RemoveAllowedRoute(ipNet)\n\t\t}\n"},
			}},
			{Name: "rewrite: both predicates behind one helper", Edits: []Edit{
				{File: exh, Old: "\tif !domainAllowed && !h.isAllowed(ip) {", New: "\tif !h.destinationAllowed(domainAllowed, ip) {"},
				{File: exh, Old: "// AllowedRouteCount returns the number of allowed routes.", New: "func (h *Handler) destinationAllowed(domainAllowed bool, ip net.IP) bool {\n\tif domainAllowed {\n\t\treturn true\n\t}\n\treturn h.isAllowed(ip)\n}\n\n// AllowedRouteCount returns the number of allowed routes."},
			}},
			{Name: "rewrite: CIDR predicate through slices.ContainsFunc", Edits: []Edit{
				{File: exh, Old: "\t\"strings\"\n\t\"sync\"\n", New: "\t\"slices\"\n\t\"strings\"\n\t\"sync\"\n"},
				{File: exh, Old: "\tfor _, route := range h.cfg.AllowedRoutes {\n\t\tif route.Contains(ip) {\n\t\t\treturn true\n\t\t}\n\t}\n\n\treturn false\n}", New: "\treturn slices.ContainsFunc(h.cfg.AllowedRoutes, func(n *net.IPNet) bool { return n.Contains(ip) })\n}"},
			}},
			{Name: "rewrite: suffix anchored through LastIndex and the length of the name", Edits: []Edit{
				{File: exh, Old: "\t\t\tif strings.HasSuffix(domain, suffix) {\n\t\t\t\t// Count dots before the suffix - should be zero for single-level wildcard\n\t\t\t\tprefix := domain[:len(domain)-len(suffix)]\n\t\t\t\tif !strings.Contains(prefix, \".\") && len(prefix) > 0 {\n\t\t\t\t\treturn true\n\t\t\t\t}\n\t\t\t}\n", New: "\t\t\tif i := strings.LastIndex(domain, suffix); i > 0 && i+len(suffix) == len(domain) {\n\t\t\t\tif !strings.Contains(domain[:i], \".\") {\n\t\t\t\t\treturn true\n\t\t\t\t}\n\t\t\t}\n"},
			}},
			{Name: "rewrite: suffix anchored through Cut with an empty remainder", Edits: []Edit{
				{File: exh, Old: "\t\t\tif strings.HasSuffix(domain, suffix) {\n\t\t\t\t// Count dots before the suffix - should be zero for single-level wildcard\n\t\t\t\tprefix := domain[:len(domain)-len(suffix)]\n\t\t\t\tif !strings.Contains(prefix, \".\") && len(prefix) > 0 {\n\t\t\t\t\treturn true\n\t\t\t\t}\n\t\t\t}\n", New: "\t\t\tif label, rest, found := strings.Cut(domain, suffix); found && rest == \"\" {\n\t\t\t\tif label != \"\" && !strings.Contains(label, \".\") {\n\t\t\t\t\treturn true\n\t\t\t\t}\n\t\t\t}\n"},
			}},
			{Name: "rewrite: suffix anchored through CutSuffix", Edits: []Edit{
				{File: exh, Old: "\t\t\tif strings.HasSuffix(domain, suffix) {\n\t\t\t\t// Count dots before the suffix - should be zero for single-level wildcard\n\t\t\t\tprefix := domain[:len(domain)-len(suffix)]\n\t\t\t\tif !strings.Contains(prefix, \".\") && len(prefix) > 0 {\n\t\t\t\t\treturn true\n\t\t\t\t}\n\t\t\t}\n", New: "\t\t\tif prefix, found := strings.CutSuffix(domain, suffix); found {\n\t\t\t\tif !strings.Contains(prefix, \".\") && len(prefix) > 0 {\n\t\t\t\t\treturn true\n\t\t\t\t}\n\t\t\t}\n"},
			}},
			{Name: "rewrite: network identity through a String()-based helper", Edits: []Edit{
				{File: exh, Old: "\ttarget := network.String()\n\tfor _, route := range h.cfg.AllowedRoutes {\n\t\tif route.String() == target {\n\t\t\treturn\n\t\t}\n\t}\n", New: "\tfor _, route := range h.cfg.AllowedRoutes {\n\t\tif sameRoute(route, network) {\n\t\t\treturn\n\t\t}\n\t}\n"},
				{File: exh, Old: "// AllowedRouteCount returns the number of allowed routes.", New: "func sameRoute(a, b *net.IPNet) bool { return a.String() == b.String() }\n\n// AllowedRouteCount returns the number of allowed routes."},
			}},
			{Name: "rewrite: bare-base suffix test plus an explicit separator check", Edits: []Edit{
				{File: exh, Old: "\t\t\tsuffix := \".\" + strings.ToLower(dp.BaseDomain)\n\t\t\tif strings.HasSuffix(domain, suffix) {\n\t\t\t\t// Count dots before the suffix - should be zero for single-level wildcard\n\t\t\t\tprefix := domain[:len(domain)-len(suffix)]\n\t\t\t\tif !strings.Contains(prefix, \".\") && len(prefix) > 0 {\n\t\t\t\t\treturn true\n\t\t\t\t}\n\t\t\t}\n", New: "\t\t\tbase := strings.ToLower(dp.BaseDomain)\n\t\t\tif strings.HasSuffix(domain, base) && len(domain) > len(base) && domain[len(domain)-len(base)-1] == '.' {\n\t\t\t\tprefix := domain[:len(domain)-len(base)-1]\n\t\t\t\tif !strings.Contains(prefix, \".\") && len(prefix) > 0 {\n\t\t\t\t\treturn true\n\t\t\t\t}\n\t\t\t}\n"},
			}},
			{Name: "rewrite: allow decision in an admission helper returning (ip, rejection)", Edits: []Edit{
				{File: exh, Old: "\t// Resolve address\n\tip, err := h.resolver.Resolve(ctx, destAddr)\n\tif err != nil {\n\t\th.sendOpenErr(remoteID, streamID, requestID, protocol.ErrHostUnreachable, err.Error())\n\t\treturn\n\t}\n\n\t// Check if destination is allowed (domain patterns OR CIDR routes)\n\tif !domainAllowed && !h.isAllowed(ip) {\n\t\th.sendOpenErr(remoteID, streamID, requestID, protocol.ErrNotAllowed, \"destination not allowed\")\n\t\treturn\n\t}\n", New: "\tip, rejection := h.admitDestination(ctx, destAddr, domainAllowed)\n\tif rejection != nil {\n\t\th.sendOpenErr(remoteID, streamID, requestID, rejection.code, rejection.message)\n\t\treturn\n\t}\n"},
				{File: exh, Old: "// AllowedRouteCount returns the number of allowed routes.", New: "type openRejection struct {\n\tcode    uint16\n\tmessage string\n}\n\nfunc (h *Handler) admitDestination(ctx context.Context, destAddr string, domainAllowed bool) (net.IP, *openRejection) {\n\tip, err := h.resolver.Resolve(ctx, destAddr)\n\tif err != nil {\n\t\treturn nil, &openRejection{code: protocol.ErrHostUnreachable, message: err.Error()}\n\t}\n\tswitch {\n\tcase domainAllowed:\n\tcase h.isAllowed(ip):\n\tdefault:\n\t\treturn nil, &openRejection{code: protocol.ErrNotAllowed, message: \"destination not allowed\"}\n\t}\n\treturn ip, nil\n}\n\n// AllowedRouteCount returns the number of allowed routes."},
			}},
			{Name: "rewrite: per-pattern match in a DomainPattern method using CutSuffix", Edits: []Edit{
				{File: exh, Old: "\tfor _, dp := range h.cfg.AllowedDomains {\n\t\tif dp.IsWildcard {", New: "\tfor _, dp := range h.cfg.AllowedDomains {\n\t\tif dp.covers(domain) {\n\t\t\treturn true\n\t\t}\n\t}\n\tfor _, dp := range h.cfg.AllowedDomains[:0] {\n\t\tif dp.IsWildcard {"},
				{File: exh, Old: "// AllowedRouteCount returns the number of allowed routes.", New: "func (dp DomainPattern) covers(domain string) bool {\n\tif !dp.IsWildcard {\n\t\treturn domain == strings.ToLower(dp.Pattern)\n\t}\n\tlabel, ok := strings.CutSuffix(domain, \".\"+strings.ToLower(dp.BaseDomain))\n\tif !ok {\n\t\treturn false\n\t}\n\treturn len(label) > 0 && !strings.Contains(label, \".\")\n}\n\n// AllowedRouteCount returns the number of allowed routes."},
			}},
			{Name: "rewrite: CIDR search in a plain helper function with an index loop", Edits: []Edit{
				{File: exh, Old: "\tif len(h.cfg.AllowedRoutes) == 0 {\n\t\treturn false // Deny by default when no routes configured\n\t}\n\n\tfor _, route := range h.cfg.AllowedRoutes {\n\t\tif route.Contains(ip) {\n\t\t\treturn true\n\t\t}\n\t}\n\n\treturn false\n}", New: "\treturn anyRouteContains(h.cfg.AllowedRoutes, ip)\n}\n\nfunc anyRouteContains(routes []*net.IPNet, ip net.IP) bool {\n\tif 0 == len(routes) {\n\t\treturn false\n\t}\n\tfor i := 0; i < len(routes); i++ {\n\t\tif !routes[i].Contains(ip) {\n\t\t\tcontinue\n\t\t}\n\t\treturn true\n\t}\n\treturn false\n}"},
			}},
			{Name: "rewrite: on-demand exit configuration built by a helper that receives the routes", Edits: []Edit{
				{File: agt, Old: "\texitCfg := exit.HandlerConfig{\n\t\tAllowedRoutes:  nil,\n", New: "\texitCfg := a.onDemandExitConfig(nil)\n\t_ = exit.HandlerConfig{\n"},
				{File: agt, Old: "// ManageRoute handles dynamic route management (add/remove/list).", New: "func (a *Agent) onDemandExitConfig(routes []*net.IPNet) exit.HandlerConfig {\n\treturn exit.HandlerConfig{AllowedRoutes: routes, ConnectTimeout: 30 * time.Second, Logger: a.logger}\n}\n\n// ManageRoute handles dynamic route management (add/remove/list)."},
			}},
		},
	})
}

type c19Ctx struct {
	p *kit.Program
	r *kit.Report

	fRoutes, fDomains *types.Var
	cidr, domain      map[*ssa.Function]bool
	derived           map[*ssa.Function]bool // helpers combining the predicates, false whenever both are false
	admit             map[*ssa.Function]c19Admit
	add, remove       *ssa.Function
	routesMu          *types.Var
	handlerT          *types.Named
}

func c19IsNetIP(t types.Type) bool {
	n, ok := t.(*types.Named)
	return ok && n.Obj().Pkg() != nil && n.Obj().Pkg().Path() == "net" && n.Obj().Name() == "IP"
}

func c19IsBool(t types.Type) bool {
	b, ok := t.Underlying().(*types.Basic)
	return ok && b.Kind() == types.Bool
}

func newC19Ctx(p *kit.Program, r *kit.Report) *c19Ctx {
	cx := &c19Ctx{p: p, r: r, cidr: map[*ssa.Function]bool{}, domain: map[*ssa.Function]bool{}, derived: map[*ssa.Function]bool{}}
	cx.handlerT = p.NamedType("internal/exit", "Handler")
	cx.fRoutes = p.Field("internal/exit", "HandlerConfig", "AllowedRoutes")
	cx.fDomains = p.Field("internal/exit", "HandlerConfig", "AllowedDomains")
	if !r.Require(cx.handlerT != nil && cx.fRoutes != nil && cx.fDomains != nil, "anchor-unresolved: exit.Handler / HandlerConfig.AllowedRoutes / AllowedDomains") {
		return nil
	}
	loads := func(fn *ssa.Function, fld *types.Var) bool {
		found := false
		kit.Instrs(fn, func(in ssa.Instruction) {
			if v, ok := in.(ssa.Value); ok {
				if f, _ := kit.LoadedField(v); f == fld {
					found = true
				}
			}
		})
		return found
	}
	for _, m := range p.Methods("internal/exit", "Handler") {
		sig := m.Signature
		if sig.Results().Len() != 1 || !c19IsBool(sig.Results().At(0).Type()) || sig.Params().Len() != 1 {
			continue
		}
		pt := sig.Params().At(0).Type()
		if c19IsNetIP(pt) && loads(m, cx.fRoutes) {
			cx.cidr[m] = true
		}
		if kit.IsStringType(pt) && loads(m, cx.fDomains) {
			cx.domain[m] = true
		}
	}
	cx.add = p.Func("internal/exit", "Handler", "AddAllowedRoute")
	cx.remove = p.Func("internal/exit", "Handler", "RemoveAllowedRoute")
	r.Require(len(cx.cidr) >= 1, "anchor-unresolved: exit.Handler method (net.IP) bool reading AllowedRoutes (CIDR predicate)")
	r.Require(len(cx.domain) >= 1, "anchor-unresolved: exit.Handler method (string) bool reading AllowedDomains (domain predicate)")
	r.Require(cx.add != nil && cx.remove != nil, "anchor-unresolved: exit.Handler.AddAllowedRoute / RemoveAllowedRoute")
	if len(r.Floors) > 0 {
		return nil
	}
	// the routes mutex: the sync mutex field of Handler held where the CIDR predicate reads the list,
	// else the one held where AddAllowedRoute writes it
	pick := func(fn *ssa.Function) {
		if cx.routesMu != nil {
			return
		}
		li := kit.Locks(fn)
		kit.Instrs(fn, func(in ssa.Instruction) {
			fa, ok := in.(*ssa.FieldAddr)
			if !ok || kit.FieldOfAddr(fa) != cx.fRoutes || cx.routesMu != nil {
				return
			}
			for _, m := range li.AnyHeldAt(in) {
				if v, ok := m.(*types.Var); ok {
					cx.routesMu = v
				}
			}
		})
	}
	// derived predicates: bool functions of package exit that call the CIDR predicate and can only
	// answer false when neither base predicate allows (a combined "destination allowed" helper)
	for _, f := range p.FuncsInPkg("internal/exit") {
		if cx.cidr[f] || cx.domain[f] || f.Parent() != nil {
			continue
		}
		res := f.Signature.Results()
		if res.Len() != 1 || !c19IsBool(res.At(0).Type()) {
			continue
		}
		calls := false
		for _, c := range kit.Calls(f) {
			if s := kit.CalleeOf(c).Static; s != nil && cx.cidr[s] {
				calls = true
			}
		}
		if !calls {
			continue
		}
		boolPars := map[*ssa.Parameter]bool{}
		for _, q := range f.Params {
			if c19IsBool(q.Type()) {
				boolPars[q] = true
			}
		}
		l := kit.LiveUnder(f, cx.allowAtom(boolPars))
		deny := true
		for _, ret := range l.LiveReturns() {
			if l.Eval(kit.ReturnResult(ret, 0)) != kit.TriFalse {
				deny = false
			}
		}
		if deny {
			cx.derived[f] = true
		}
	}
	cx.computeAdmission()
	var ms []*ssa.Function
	for m := range cx.cidr {
		ms = append(ms, m)
	}
	sort.Slice(ms, func(i, j int) bool { return ms[i].Pos() < ms[j].Pos() })
	for _, m := range ms {
		pick(m)
	}
	pick(cx.add)
	pick(cx.remove)
	return cx
}

func runC19(p *kit.Program, r *kit.Report) {
	r.Rule("C19.R1", "every TCP dial of package exit is unreachable when the domain predicate and the CIDR predicate are both false; the dialled address is computed from the checked IP value and from no requested name; a domain-allowed parameter is the domain predicate of the same requested address (or false)")
	r.Rule("C19.R2", "the CIDR predicate returns true only after Contains(requested ip) hit on an element of AllowedRoutes; the domain predicate returns true only on exact match or on a single-label wildcard match")
	r.Rule("C19.R3", "AllowedRoutes is stored only by AddAllowedRoute/RemoveAllowedRoute under the routes write lock (constructor literals aside) and loaded under the routes lock; the two mutators are called only from the function that performs the dynamic-route operation")
	r.Rule("C19.R4", "the allow-list mirrors the dynamic routes as a set: add only after AddDynamicRoute succeeded, remove whenever RemoveDynamicRoute succeeded, same network value, and a repeated add cannot leave a copy behind after one remove")
	cx := newC19Ctx(p, r)
	if cx == nil {
		return
	}
	cx.ruleR1()
	cx.ruleR2()
	cx.ruleR3()
	cx.ruleR4()
}

// ---------- R1 ----------

var c19DialNames = map[string]bool{"Dial": true, "DialContext": true, "DialTimeout": true, "DialTCP": true, "DialIP": true, "DialUDP": true, "DialUnix": true}

// dialArgs returns the network and address operands of a net dial call.
func c19DialArgs(c ssa.CallInstruction) (network, addr ssa.Value, ok bool) {
	cal := kit.CalleeOf(c)
	if cal.Pkg != "net" || !c19DialNames[cal.Name] {
		return nil, nil, false
	}
	var strs []ssa.Value
	var last ssa.Value
	for i := 0; ; i++ {
		a := kit.Arg(c, i)
		if a == nil {
			break
		}
		if kit.IsStringType(a.Type()) {
			strs = append(strs, a)
		}
		last = a
	}
	switch {
	case len(strs) >= 2:
		return strs[0], strs[1], true
	case len(strs) == 1 && last != nil:
		return strs[0], last, true // DialTCP(network, laddr, raddr)
	}
	return nil, nil, false
}

// allowAtom builds the assignment "no predicate allows": CIDR and domain predicate calls are
// false, the given bool parameters are false; loads of locals are resolved through Origins.
func (cx *c19Ctx) allowAtom(boolParams map[*ssa.Parameter]bool) kit.AtomEval {
	var base func(v ssa.Value) (bool, bool)
	base = func(v ssa.Value) (bool, bool) {
		switch x := v.(type) {
		case *ssa.Const:
			return kit.ConstBool(x)
		case *ssa.Call:
			if s := kit.CalleeOf(x).Static; s != nil && (cx.cidr[s] || cx.domain[s]) {
				return false, true
			} else if s != nil && cx.derived[s] {
				// combined helper: false when every bool it is handed is false as well
				for _, a := range x.Call.Args {
					if !c19IsBool(a.Type()) {
						continue
					}
					known := false
					for _, o := range kit.Origins(a) {
						v, ok := base(o)
						if !ok || v {
							return false, false
						}
						known = true
					}
					if !known {
						return false, false
					}
				}
				return false, true
			}
		case *ssa.Parameter:
			if boolParams[x] {
				return false, true
			}
		}
		return false, false
	}
	return func(cond ssa.Value) (bool, bool) {
		if v, ok := base(cond); ok {
			return v, true
		}
		if v, ok := cx.admitCond(cond, base); ok {
			return v, true
		}
		if u, ok := cond.(*ssa.UnOp); ok && u.Op == token.MUL {
			os := kit.Origins(cond)
			if len(os) == 0 || (len(os) == 1 && os[0] == cond) {
				return false, false
			}
			first, known := false, false
			for i, o := range os {
				v, ok := base(o)
				if !ok {
					return false, false
				}
				if i == 0 {
					first, known = v, true
				} else if v != first {
					return false, false
				}
			}
			return first, known
		}
		return false, false
	}
}

func (cx *c19Ctx) ruleR1() {
	p, r := cx.p, cx.r
	nTCP, nOther := 0, 0
	ord := map[string]int{}
	for _, f := range p.FuncsInPkg("internal/exit") {
		for _, c := range kit.Calls(f) {
			network, addr, ok := c19DialArgs(c)
			if !ok {
				continue
			}
			if s, isc := kit.ConstString(network); isc && !strings.HasPrefix(s, "tcp") {
				nOther++
				r.Infof("C19.R1", fmt.Sprintf("%s dial %q", kit.FuncName(f), s), p.Pos(c.Pos()), "non-TCP dial (resolver transport), outside the property")
				continue
			}
			nTCP++
			base := kit.FuncName(f) + " dial"
			ord[base]++
			cx.judgeDial(f, c, addr, fmt.Sprintf("%s #%d", base, ord[base]), 0)
		}
	}
	r.Count("r1_tcp_dial_sites", nTCP)
	r.Count("r1_other_dial_sites", nOther)
	r.Require(nTCP >= 1, "floor: no TCP dial found in internal/exit")
}

// judgeDial decides R1 for one dial (or, lifted, one call that leads to the dial) in fn.
func (cx *c19Ctx) judgeDial(fn *ssa.Function, site ssa.CallInstruction, addr ssa.Value, key string, depth int) {
	p, r := cx.p, cx.r
	pos := p.Pos(site.Pos())
	var cidrCalls []*ssa.Call
	for _, c := range kit.Calls(fn) {
		if cc, ok := c.(*ssa.Call); ok {
			s := kit.CalleeOf(c).Static
			if s != nil && (cx.cidr[s] || cx.derived[s]) {
				cidrCalls = append(cidrCalls, cc)
			}
			if _, isAdmit := cx.admit[s]; s != nil && isAdmit {
				cidrCalls = append(cidrCalls, cc)
			}
		}
	}
	if len(cidrCalls) == 0 {
		// the check may live in the caller: lift once or twice through static call sites
		callers := p.StaticCallers(fn)
		var addrPar []*ssa.Parameter
		for v := range kit.FlowSet(addr, nil) {
			if q, ok := v.(*ssa.Parameter); ok && q.Parent() == fn && (c19IsNetIP(q.Type()) || kit.IsStringType(q.Type())) {
				addrPar = append(addrPar, q)
			}
		}
		if depth < 2 && len(callers) > 0 && len(addrPar) == 1 {
			idx := -1
			for i, q := range fn.Params {
				if q == addrPar[0] {
					idx = i
				}
			}
			for i, cs := range callers {
				if idx >= 0 && idx < len(cs.Common().Args) {
					cx.judgeDial(cs.Parent(), cs, cs.Common().Args[idx], fmt.Sprintf("%s via %s #%d", key, kit.FuncName(cs.Parent()), i+1), depth+1)
				}
			}
			return
		}
		r.Violation("C19.R1", key+" guard", pos, "no CIDR allow check is made on the way to this dial: the exit connects to any destination a peer asks for")
		return
	}
	// bool parameters of fn that steer a branch: candidates for the "domain allowed" flag
	boolPars := map[*ssa.Parameter]bool{}
	kit.Instrs(fn, func(in ssa.Instruction) {
		ifi, ok := in.(*ssa.If)
		if !ok {
			return
		}
		for v := range kit.FlowSet(ifi.Cond, func(x ssa.Value) bool { _, isCall := x.(*ssa.Call); return isCall }) {
			if q, ok := v.(*ssa.Parameter); ok && q.Parent() == fn && c19IsBool(q.Type()) {
				boolPars[q] = true
			}
		}
	})
	for _, cc := range cidrCalls {
		for _, a := range cc.Call.Args {
			if !c19IsBool(a.Type()) {
				continue
			}
			for _, o := range kit.Origins(a) {
				if q, ok := o.(*ssa.Parameter); ok && q.Parent() == fn {
					boolPars[q] = true
				}
			}
		}
	}
	l := kit.LiveUnder(fn, cx.allowAtom(boolPars))
	guarded := !l.CanReachFromEntry(site, nil)
	r.Decide(guarded, "C19.R1", key+" guard", pos,
		"the dial is unreachable when the domain predicate and the CIDR predicate are both false",
		"the dial stays reachable when neither the domain pattern nor any allowed CIDR matches: the exit opens TCP connections to destinations outside its permitted set")
	// the address is computed from the checked ip
	var ipVals []ssa.Value
	for _, cc := range cidrCalls {
		if a, isAdmit := cx.admit[kit.CalleeOf(cc).Static]; isAdmit {
			// the checked IP is the one the admission helper hands back
			if a.ipIdx >= 0 {
				if e := kit.ExtractOf(cc, a.ipIdx); e != nil {
					ipVals = append(ipVals, e)
				}
			}
			continue
		}
		for i := 0; ; i++ {
			a := kit.Arg(cc, i)
			if a == nil {
				break
			}
			if c19IsNetIP(a.Type()) {
				ipVals = append(ipVals, a)
			}
		}
	}
	isIP := func(v ssa.Value) bool {
		for _, iv := range ipVals {
			if v == iv {
				return true
			}
		}
		return false
	}
	flow := kit.FlowSet(addr, isIP)
	fromIP, bad := false, ""
	for v := range flow {
		if isIP(v) {
			fromIP = true
			continue
		}
		switch x := v.(type) {
		case *ssa.Parameter:
			if kit.IsStringType(x.Type()) || c19IsNetIP(x.Type()) {
				bad = "parameter " + x.Name()
			}
		case *ssa.Call:
			cal := kit.CalleeOf(x)
			if cal.Name == "Resolve" || strings.HasPrefix(cal.Name, "Lookup") {
				bad = "a second resolution (" + cal.String() + ")"
			}
		}
	}
	okAddr := fromIP && bad == ""
	msg := "the dialled address does not derive from the IP value handed to the CIDR predicate"
	if bad != "" {
		msg = "the dialled address is computed from " + bad + " rather than only from the checked IP"
	}
	r.Decide(okAddr, "C19.R1", key+" address", pos,
		"the dialled host is the IP value that was checked",
		msg+": the name can resolve to a different, non-permitted address at dial time (DNS rebinding)")
	// provenance of every steering bool parameter at the call sites of fn
	var bps []*ssa.Parameter
	for q := range boolPars {
		bps = append(bps, q)
	}
	sort.Slice(bps, func(i, j int) bool { return bps[i].Pos() < bps[j].Pos() })
	// string parameters of fn the checked ip is resolved from
	var namePars []*ssa.Parameter
	for _, iv := range ipVals {
		for v := range kit.FlowSet(iv, nil) {
			if q, ok := v.(*ssa.Parameter); ok && q.Parent() == fn && kit.IsStringType(q.Type()) {
				namePars = append(namePars, q)
			}
		}
	}
	parIndex := func(q *ssa.Parameter) int {
		for i, x := range fn.Params {
			if x == q {
				return i
			}
		}
		return -1
	}
	for _, q := range bps {
		k := fmt.Sprintf("%s parameter %s", kit.FuncName(fn), q.Name())
		callers := p.StaticCallers(fn)
		if len(callers) == 0 {
			r.Violation("C19.R1", k, p.Pos(fn.Pos()), "the flag that bypasses the CIDR check has no visible origin (no static caller)")
			continue
		}
		okAll, why := true, ""
		for _, cs := range callers {
			idx := parIndex(q)
			if idx < 0 || idx >= len(cs.Common().Args) {
				okAll, why = false, "argument not found"
				continue
			}
			for _, o := range kit.Origins(cs.Common().Args[idx]) {
				if b, isc := kit.ConstBool(o); isc {
					if b {
						okAll, why = false, "constant true at "+p.Pos(cs.Pos())
					}
					continue
				}
				oc, isCall := o.(*ssa.Call)
				if !isCall || kit.CalleeOf(oc).Static == nil || !cx.domain[kit.CalleeOf(oc).Static] {
					okAll, why = false, "a value that is not the domain predicate at "+p.Pos(cs.Pos())
					continue
				}
				// same requested name as the one resolved and dialled
				want := c19OriginSet(kit.Arg(oc, 0))
				for _, np := range namePars {
					ni := parIndex(np)
					if ni < 0 || ni >= len(cs.Common().Args) {
						continue
					}
					got := c19OriginSet(cs.Common().Args[ni])
					if !c19SameSet(want, got) {
						okAll, why = false, "the domain predicate of a different name than the one resolved, at "+p.Pos(cs.Pos())
					}
				}
			}
		}
		r.Decide(okAll, "C19.R1", k, p.Pos(fn.Pos()),
			"at every call site the flag is false or the domain predicate applied to the requested address",
			"the flag that bypasses the CIDR check is "+why+": destinations matching no allowed domain pattern are dialled")
	}
}

func c19OriginSet(v ssa.Value) map[ssa.Value]bool {
	out := map[ssa.Value]bool{}
	for _, o := range kit.Origins(v) {
		out[o] = true
	}
	return out
}

func c19SameSet(a, b map[ssa.Value]bool) bool {
	if len(a) != len(b) || len(a) == 0 {
		return false
	}
	for k := range a {
		if !b[k] {
			return false
		}
	}
	return true
}

// ---------- R2 ----------

func c19StringsCall(v ssa.Value) (string, *ssa.Call) {
	c, ok := v.(*ssa.Call)
	if !ok {
		return "", nil
	}
	cal := kit.CalleeOf(c)
	if cal.Pkg == "strings" && cal.Recv == "" {
		return cal.Name, c
	}
	return "", nil
}

// isDotArg: the searched-for operand denotes the label separator.
func c19IsDot(v ssa.Value) bool {
	if s, ok := kit.ConstString(v); ok {
		return s == "."
	}
	if k, ok := kit.ConstInt(v); ok {
		return k == '.'
	}
	return false
}

// domainAtom: assignment over the string tests of the domain predicate.
//
//	mode "none":  nothing matches (equalities false, every strings.* predicate false)
//	mode "multi": the name ends with the wildcard base, is not an exact match, and the part in front
//	              of the base contains a dot (a multi-label prefix)
func c19DomainAtom(mode string) kit.AtomEval {
	return func(cond ssa.Value) (bool, bool) {
		switch x := cond.(type) {
		case *ssa.BinOp:
			if kit.IsStringType(x.X.Type()) && (x.Op == token.EQL || x.Op == token.NEQ) {
				if s, ok := kit.ConstString(x.Y); ok && s == "" {
					return false, false // emptiness test, not a match
				}
				if s, ok := kit.ConstString(x.X); ok && s == "" {
					return false, false
				}
				return x.Op == token.NEQ, true
			}
			// nothing is found: Index* yields -1, Count yields 0
			if mode == "none" {
				for _, side := range []struct {
					v, other ssa.Value
					flip     bool
				}{{x.X, x.Y, false}, {x.Y, x.X, true}} {
					name, c := c19StringsCall(side.v)
					if c == nil {
						continue
					}
					k, isc := kit.ConstInt(side.other)
					if !isc {
						continue
					}
					val := int64(-1)
					switch {
					case name == "Count":
						val = 0
					case strings.HasPrefix(name, "Index") || strings.HasPrefix(name, "LastIndex"):
					default:
						continue
					}
					op := x.Op
					if side.flip {
						op = flipCmp(op)
					}
					ord := 0
					if val < k {
						ord = -1
					} else if val > k {
						ord = 1
					}
					switch op {
					case token.EQL, token.NEQ, token.LSS, token.LEQ, token.GTR, token.GEQ:
						return cmpHolds(op, ord), true
					}
				}
			}
			// Count / Index forms of the dot test
			if mode == "multi" {
				for _, side := range []struct {
					v, other ssa.Value
					flip     bool
				}{{x.X, x.Y, false}, {x.Y, x.X, true}} {
					name, c := c19StringsCall(side.v)
					if c == nil || len(c.Call.Args) < 2 || !c19IsDot(c.Call.Args[1]) {
						continue
					}
					k, isc := kit.ConstInt(side.other)
					if !isc {
						continue
					}
					op := x.Op
					if side.flip {
						op = flipCmp(op)
					}
					ord := func(v int64) int {
						switch {
						case v < k:
							return -1
						case v > k:
							return 1
						}
						return 0
					}
					switch name {
					case "Count":
						// at least one dot: agree for 1 and 2
						if cmpHolds(op, ord(1)) == cmpHolds(op, ord(2)) {
							return cmpHolds(op, ord(1)), true
						}
					case "Index", "IndexByte", "IndexRune", "IndexAny", "LastIndex", "LastIndexByte", "LastIndexAny":
						// found at some position >= 0: agree for 0 and 1
						if cmpHolds(op, ord(0)) == cmpHolds(op, ord(1)) {
							return cmpHolds(op, ord(0)), true
						}
					}
				}
			}
		case *ssa.Call:
			name, c := c19StringsCall(x)
			if c == nil || !c19IsBool(c.Type()) {
				return false, false
			}
			if mode == "none" {
				return false, true
			}
			switch name {
			case "HasSuffix":
				return true, true
			case "EqualFold":
				return false, true
			case "Contains", "ContainsRune", "ContainsAny":
				if len(c.Call.Args) >= 2 && c19IsDot(c.Call.Args[1]) {
					return true, true
				}
			}
		case *ssa.Extract:
			if name, c := c19StringsCall(x.Tuple); c != nil && strings.HasPrefix(name, "Cut") && c19IsBool(x.Type()) {
				if mode == "none" {
					return false, true
				}
			}
		}
		return false, false
	}
}

func (cx *c19Ctx) ruleR2() {
	p, r := cx.p, cx.r
	var cidrs, doms []*ssa.Function
	for m := range cx.cidr {
		cidrs = append(cidrs, m)
	}
	for m := range cx.domain {
		doms = append(doms, m)
	}
	sort.Slice(cidrs, func(i, j int) bool { return cidrs[i].Pos() < cidrs[j].Pos() })
	sort.Slice(doms, func(i, j int) bool { return doms[i].Pos() < doms[j].Pos() })
	trueReturn := func(l *kit.Live) string {
		for _, ret := range l.LiveReturns() {
			if len(ret.Results) != 1 {
				continue
			}
			if l.Eval(kit.ReturnResult(ret, 0)) != kit.TriFalse {
				return p.Pos(ret.Pos())
			}
		}
		return ""
	}
	for _, m := range cidrs {
		fname := kit.FuncName(m)
		var contains []*ssa.Call
		var scope []*ssa.Function
		for f := range kit.StaticCallClosure(m, func(g *ssa.Function) bool { return c19InExit(g) }) {
			scope = append(scope, f)
		}
		sort.Slice(scope, func(i, j int) bool { return scope[i].Pos() < scope[j].Pos() })
		for _, f := range scope {
			for _, c := range kit.Calls(f) {
				cal := kit.CalleeOf(c)
				if cc, ok := c.(*ssa.Call); ok && cal.Pkg == "net" && cal.Recv == "IPNet" && cal.Name == "Contains" {
					contains = append(contains, cc)
				}
			}
		}
		r.Count("r2_contains_calls", len(contains))
		if !r.Require(len(contains) >= 1, "floor: the CIDR predicate %s never calls net.IPNet.Contains", fname) {
			continue
		}
		isContains := map[ssa.Value]bool{}
		for _, c := range contains {
			isContains[c] = true
		}
		noHit := func(cond ssa.Value) (bool, bool) {
			if isContains[cond] {
				return false, true
			}
			return false, false
		}
		// slices.ContainsFunc / IndexFunc over a predicate closure: false / -1 when the closure can only say false
		closureDenies := func(v ssa.Value) bool {
			mc, ok := v.(*ssa.MakeClosure)
			if !ok {
				return false
			}
			f, ok := mc.Fn.(*ssa.Function)
			if !ok || f.Signature.Results().Len() != 1 {
				return false
			}
			lc := kit.LiveUnder(f, noHit)
			for _, ret := range lc.LiveReturns() {
				if lc.Eval(kit.ReturnResult(ret, 0)) != kit.TriFalse {
					return false
				}
			}
			return true
		}
		l := kit.LiveUnder(m, cx.deepAtom(func(cond ssa.Value) (bool, bool) {
			if v, ok := noHit(cond); ok {
				return v, true
			}
			if c, ok := cond.(*ssa.Call); ok {
				cal := kit.CalleeOf(c)
				if cal.Pkg == "slices" && cal.Name == "ContainsFunc" && len(c.Call.Args) == 2 && closureDenies(c.Call.Args[1]) {
					return false, true
				}
			}
			return false, false
		}, 0, map[*ssa.Function]bool{m: true}))
		bad := trueReturn(l)
		r.Decide(bad == "", "C19.R2", fname+" deny-by-default", p.Pos(m.Pos()),
			"without a Contains hit every return yields false",
			"the return at "+bad+" can yield true although no allowed network contains the address (in particular with nothing configured): destinations outside every configured network are permitted")
		var ipPar *ssa.Parameter
		for _, q := range m.Params {
			if c19IsNetIP(q.Type()) {
				ipPar = q
			}
		}
		for i, c := range contains {
			argFlow := cx.flowDeep(kit.Arg(c, 0), m)
			recvFlow := cx.flowDeep(kit.Receiver(c), m)
			argOK := ipPar != nil && argFlow[ipPar]
			for v := range argFlow {
				if f, _ := kit.LoadedField(v); f == cx.fRoutes {
					argOK = false
				}
			}
			recvOK := false
			for v := range recvFlow {
				if f, _ := kit.LoadedField(v); f == cx.fRoutes {
					recvOK = true
				}
				// element handed to a predicate closure by slices.ContainsFunc/IndexFunc over AllowedRoutes
				if q, ok := v.(*ssa.Parameter); ok && q.Parent() != nil && q.Parent().Parent() != nil {
					cl := q.Parent()
					for _, oc := range kit.Calls(cl.Parent()) {
						cal := kit.CalleeOf(oc)
						if cal.Pkg != "slices" {
							continue
						}
						usesCl, overList := false, false
						for _, a := range oc.Common().Args {
							if mc, ok := a.(*ssa.MakeClosure); ok && mc.Fn == ssa.Value(cl) {
								usesCl = true
								continue
							}
							for fv := range kit.FlowSet(a, nil) {
								if f, _ := kit.LoadedField(fv); f == cx.fRoutes {
									overList = true
								}
							}
						}
						if usesCl && overList {
							recvOK = true
						}
					}
				}
			}
			r.Decide(argOK && recvOK, "C19.R2", fmt.Sprintf("%s Contains #%d operands", fname, i+1), p.Pos(c.Pos()),
				"an element of AllowedRoutes is asked whether it contains the requested IP",
				"Contains is not applied to (element of AllowedRoutes, requested IP): the predicate answers for a different address than the one that will be dialled")
		}
	}
	for _, m := range doms {
		fname := kit.FuncName(m)
		bad := trueReturn(kit.LiveUnder(m, cx.deepAtom(c19DomainAtom("none"), 0, map[*ssa.Function]bool{m: true})))
		r.Decide(bad == "", "C19.R2", fname+" deny-by-default", p.Pos(m.Pos()),
			"when no string test matches every return yields false",
			"the return at "+bad+" can yield true although no pattern matched the name: arbitrary domains are permitted")
		bad = trueReturn(kit.LiveUnder(m, cx.deepAtom(c19DomainAtom("multi"), 0, map[*ssa.Function]bool{m: true})))
		r.Decide(bad == "", "C19.R2", fname+" single-label wildcard", p.Pos(m.Pos()),
			"a name whose part in front of the wildcard base contains a dot is not accepted",
			"the return at "+bad+" can yield true for a name with several labels in front of the wildcard base: *.example.com also permits a.b.example.com, beyond the documented single-level pattern")
		bad = trueReturn(kit.LiveUnder(m, cx.unanchoredAtom(m, nil, 0, map[*ssa.Function]bool{m: true})))
		r.Decide(bad == "", "C19.R2", fname+" end-anchored match", p.Pos(m.Pos()),
			"an occurrence of the pattern inside the name, with no relation anchored at the end of the name, is not accepted",
			"the return at "+bad+" can yield true when the pattern's base merely occurs somewhere in the name (substring / first-occurrence search) and nothing ties it to the end of the name: db.corp.example.attacker.test matches *.corp.example and the exit dials whatever that foreign name resolves to")
		bad = trueReturn(kit.LiveUnder(m, cx.roleAtom("label", m, nil, 0, map[*ssa.Function]bool{m: true})))
		r.Decide(bad == "", "C19.R2", fname+" label-anchored match", p.Pos(m.Pos()),
			"a name that merely ends with the pattern's base, without a dot in front of it, is not accepted",
			"the return at "+bad+" can yield true for a name that ends with the pattern's base but has no dot in front of it: evilcorp.example matches *.corp.example, a different registrable domain, and the exit dials whatever it resolves to")
	}
}

// ---------- R3 ----------

func (cx *c19Ctx) ruleR3() {
	p, r := cx.p, cx.r
	isLocalConfig := func(base ssa.Value) bool {
		// field of a HandlerConfig that is a local value / literal under construction
		for {
			switch x := base.(type) {
			case *ssa.Alloc:
				return true
			case *ssa.FieldAddr:
				base = x.X
				continue
			}
			return false
		}
	}
	nStores, nLoads := 0, 0
	ord := map[string]int{}
	for _, acc := range p.FieldAccesses(cx.fRoutes) {
		fn := acc.Fn
		fname := kit.FuncName(fn)
		switch acc.Kind {
		case kit.FieldStore, kit.FieldAddrUse, kit.FieldClear:
			if isLocalConfig(acc.Base) {
				r.Count("r3_config_literal_initialisations", 1)
				if acc.Kind == kit.FieldStore {
					// initial allow-list: nothing, or what ParseAllowedRoutes made of the configured exit routes
					okInit, what := true, ""
					var judge func(v ssa.Value, depth int)
					judge = func(v ssa.Value, depth int) {
						for _, o := range kit.Origins(v) {
							if kit.IsNilConst(o) {
								continue
							}
							if e, ok := o.(*ssa.Extract); ok && e.Index == 0 {
								if c, ok := e.Tuple.(*ssa.Call); ok && kit.CalleeOf(c).Is("internal/exit", "", "ParseAllowedRoutes") {
									continue
								}
							}
							if q, ok := o.(*ssa.Parameter); ok {
								// a configuration builder: judged at its call sites
								owner := q.Parent()
								idx := -1
								for i, fp := range owner.Params {
									if fp == q {
										idx = i
									}
								}
								callers := p.StaticCallers(owner)
								if idx >= 0 && len(callers) > 0 && depth < 3 {
									for _, cs := range callers {
										if idx < len(cs.Common().Args) {
											judge(cs.Common().Args[idx], depth+1)
										}
									}
									continue
								}
								if c19InExit(owner) {
									continue // handed in by the caller of a constructor in package exit
								}
							}
							okInit, what = false, o.String()
						}
					}
					judge(acc.Val, 0)
					ord[fname+" init"]++
					r.Decide(okInit, "C19.R3", fmt.Sprintf("%s initial allow-list #%d", fname, ord[fname+" init"]), p.Pos(acc.Instr.Pos()),
						"the initial AllowedRoutes is nil or the parsed configured exit routes",
						"the initial AllowedRoutes comes from "+what+" rather than from the configured exit routes: an agent with nothing configured starts with permitted destinations")
				}
				continue
			}
			nStores++
			ord[fname+" store"]++
			key := fmt.Sprintf("%s store #%d", fname, ord[fname+" store"])
			top := kit.TopLevel(fn)
			okWho := top == cx.add || top == cx.remove
			if !okWho && c19InExit(top) {
				// unexported helper used only by the two mutators
				callers := p.StaticCallers(top)
				okWho = len(callers) > 0 && top.Object() != nil && !top.Object().Exported()
				for _, cs := range callers {
					if ct := kit.TopLevel(cs.Parent()); ct != cx.add && ct != cx.remove {
						okWho = false
					}
				}
			}
			okLock := cx.routesMu != nil && p.HeldWithCallers(acc.Instr, cx.routesMu, true)
			switch {
			case !okWho:
				r.Violation("C19.R3", key, p.Pos(acc.Instr.Pos()), "AllowedRoutes is written outside AddAllowedRoute/RemoveAllowedRoute: the permitted set can change without a matching route operation")
			case !okLock:
				r.Violation("C19.R3", key, p.Pos(acc.Instr.Pos()), "AllowedRoutes is written without holding the routes write lock: a concurrent permission check ranges over a slice that is being shifted and can see a removed network or miss a present one")
			default:
				r.OK("C19.R3", key, p.Pos(acc.Instr.Pos()), "written by the allow-list mutator under the routes write lock")
			}
		case kit.FieldLoad:
			if isLocalConfig(acc.Base) {
				continue
			}
			// element stores through a loaded slice outside the mutators
			if v, ok := acc.Instr.(ssa.Value); ok && v.Referrers() != nil {
				for _, ref := range *v.Referrers() {
					if ia, ok := ref.(*ssa.IndexAddr); ok && ia.Referrers() != nil {
						for _, rr := range *ia.Referrers() {
							if st, ok := rr.(*ssa.Store); ok && st.Addr == ssa.Value(ia) {
								top := kit.TopLevel(fn)
								if top != cx.add && top != cx.remove {
									ord[fname+" element"]++
									r.Violation("C19.R3", fmt.Sprintf("%s element store #%d", fname, ord[fname+" element"]), p.Pos(st.Pos()),
										"an element of AllowedRoutes is overwritten outside the allow-list mutators")
								}
							}
						}
					}
				}
			}
			if !c19InExit(fn) {
				continue
			}
			nLoads++
			ord[fname+" load"]++
			key := fmt.Sprintf("%s load #%d", fname, ord[fname+" load"])
			held := cx.routesMu != nil && p.HeldWithCallers(acc.Instr, cx.routesMu, false)
			r.Decide(held, "C19.R3", key, p.Pos(acc.Instr.Pos()),
				"read while the routes lock is held",
				"AllowedRoutes is read without the routes lock: the permission check races with AddAllowedRoute/RemoveAllowedRoute and can range over a half-shifted slice")
		}
	}
	r.Count("r3_allowedroutes_stores", nStores)
	r.Count("r3_allowedroutes_loads", nLoads)
	r.Require(nStores >= 1, "floor: no store to AllowedRoutes through a Handler found")
	// callers of the mutators: only functions that perform the dynamic-route operation
	dyn := func(fn *ssa.Function, name string) bool {
		for _, f := range kit.WithClosures(kit.TopLevel(fn)) {
			for _, c := range kit.Calls(f) {
				cal := kit.CalleeOf(c)
				if cal.Name == name && cal.Recv == "Manager" && cal.Pkg == kit.PkgPath("internal/routing") {
					return true
				}
			}
		}
		return false
	}
	nCallers := 0
	for _, m := range []struct {
		fn   *ssa.Function
		need string
	}{{cx.add, "AddDynamicRoute"}, {cx.remove, "RemoveDynamicRoute"}} {
		for i, cs := range p.StaticCallers(m.fn) {
			nCallers++
			g := cs.Parent()
			r.Decide(dyn(g, m.need), "C19.R3", fmt.Sprintf("caller %s of %s #%d", kit.FuncName(g), m.fn.Name(), i+1), p.Pos(cs.Pos()),
				"called from the function that performs routing.Manager."+m.need,
				"the allow-list is changed by a function that does not perform routing.Manager."+m.need+": the permitted set no longer follows the dynamic routes")
		}
	}
	r.Count("r3_mutator_call_sites", nCallers)
	r.Require(nCallers >= 1, "floor: AddAllowedRoute/RemoveAllowedRoute have no static call site")
}

func c19InExit(fn *ssa.Function) bool { return kit.FuncPkgPath(fn) == kit.PkgPath("internal/exit") }

// ---------- R4 ----------

// relatesNetworkToList: the condition compares something computed from par with something
// computed from the current AllowedRoutes.
func (cx *c19Ctx) relatesNetworkToList(cond ssa.Value, par *ssa.Parameter) bool {
	flow := kit.FlowSet(cond, nil)
	if !flow[par] {
		return false
	}
	for v := range flow {
		if f, _ := kit.LoadedField(v); f == cx.fRoutes {
			return true
		}
		// helper method of the handler reading the list
		if c, ok := v.(*ssa.Call); ok {
			if s := kit.CalleeOf(c).Static; s != nil && c19InExit(s) {
				hit := false
				kit.Instrs(s, func(in ssa.Instruction) {
					if iv, ok := in.(ssa.Value); ok {
						if f, _ := kit.LoadedField(iv); f == cx.fRoutes {
							hit = true
						}
					}
				})
				if hit {
					return true
				}
			}
		}
	}
	return false
}

func (cx *c19Ctx) listStores(fn *ssa.Function) []*ssa.Store {
	var out []*ssa.Store
	kit.Instrs(fn, func(in ssa.Instruction) {
		if st, ok := in.(*ssa.Store); ok {
			if fa, ok := st.Addr.(*ssa.FieldAddr); ok && kit.FieldOfAddr(fa) == cx.fRoutes {
				out = append(out, st)
			}
		}
	})
	return out
}

func c19NetParam(fn *ssa.Function) *ssa.Parameter {
	for _, q := range fn.Params {
		if pt, ok := q.Type().(*types.Pointer); ok {
			if n, ok := pt.Elem().(*types.Named); ok && n.Obj().Name() == "IPNet" {
				return q
			}
		}
	}
	return nil
}

func (cx *c19Ctx) ruleR4() {
	p, r := cx.p, cx.r
	// ---- pairing in the route-management function(s)
	isDyn := func(c ssa.CallInstruction, name string) bool {
		cal := kit.CalleeOf(c)
		return cal.Name == name && cal.Recv == "Manager" && cal.Pkg == kit.PkgPath("internal/routing")
	}
	nAdd, nRem := 0, 0
	var addSites []ssa.CallInstruction
	for _, f := range p.FuncsInPkg("internal/agent") {
		var dynAdd, dynRem []*ssa.Call
		var alAdd, alRem []ssa.CallInstruction
		for _, c := range kit.Calls(f) {
			cc, isCall := c.(*ssa.Call)
			switch {
			case isCall && isDyn(c, "AddDynamicRoute"):
				dynAdd = append(dynAdd, cc)
			case isCall && isDyn(c, "RemoveDynamicRoute"):
				dynRem = append(dynRem, cc)
			}
			if s := kit.CalleeOf(c).Static; s != nil {
				if s == cx.add {
					alAdd = append(alAdd, c)
				}
				if s == cx.remove {
					alRem = append(alRem, c)
				}
			}
		}
		fname := kit.FuncName(f)
		for i, a := range alAdd {
			nAdd++
			addSites = append(addSites, a)
			ok, why := false, "no successful AddDynamicRoute precedes it"
			for _, d := range dynAdd {
				errv := kit.ErrResultOf(d)
				if errv == nil || !kit.Precedes(d, a) {
					continue
				}
				// reachable only when the error is nil
				l := kit.LiveUnder(f, func(cond ssa.Value) (bool, bool) {
					if x, tn, isNil := kit.IsErrNilCheck(cond); isNil && x == errv {
						return !tn, true // err != nil
					}
					return false, false
				})
				if l.CanReach(d, a, nil) {
					why = "it is reachable although AddDynamicRoute failed"
					continue
				}
				if kit.Arg(d, 0) != kit.Arg(a, 0) {
					why = "it is given a different network value than AddDynamicRoute"
					continue
				}
				ok = true
			}
			r.Decide(ok, "C19.R4", fmt.Sprintf("%s add pairing #%d", fname, i+1), p.Pos(a.Pos()),
				"AddAllowedRoute runs only after AddDynamicRoute succeeded, on the same network",
				"AddAllowedRoute is not tied to a successful AddDynamicRoute ("+why+"): a destination becomes permitted without a dynamic route that could later revoke it")
		}
		for i, d := range dynRem {
			nRem++
			errv := kit.ErrResultOf(d)
			// assignment: removal succeeded and an exit handler exists
			handlerNil := func(cond ssa.Value) (isTest, trueMeansNil bool) {
				b, ok := cond.(*ssa.BinOp)
				if !ok || (b.Op != token.EQL && b.Op != token.NEQ) {
					return false, false
				}
				var other ssa.Value
				switch {
				case kit.IsNilConst(b.Y):
					other = b.X
				case kit.IsNilConst(b.X):
					other = b.Y
				default:
					return false, false
				}
				pt, ok := other.Type().(*types.Pointer)
				if !ok {
					return false, false
				}
				if n, ok := pt.Elem().(*types.Named); !ok || n != cx.handlerT {
					return false, false
				}
				return true, b.Op == token.EQL
			}
			l := kit.LiveUnder(f, func(cond ssa.Value) (bool, bool) {
				if x, tn, isNil := kit.IsErrNilCheck(cond); isNil && errv != nil && x == errv {
					return tn, true // err == nil
				}
				if isT, tn := handlerNil(cond); isT {
					return !tn, true // handler present
				}
				return false, false
			})
			avoid := map[ssa.Instruction]bool{}
			sameNet := true
			for _, c := range alRem {
				avoid[c] = true
				if l.CanReach(d, c, nil) && kit.Arg(c, 0) != kit.Arg(d, 0) {
					sameNet = false
				}
			}
			bad := ""
			for _, ret := range l.LiveReturns() {
				if l.CanReach(d, ret, avoid) {
					bad = p.Pos(ret.Pos())
				}
			}
			r.Decide(bad == "" && sameNet, "C19.R4", fmt.Sprintf("%s remove pairing #%d", fname, i+1), p.Pos(d.Pos()),
				"after a successful RemoveDynamicRoute every path calls RemoveAllowedRoute with the same network (when an exit handler exists)",
				"after RemoveDynamicRoute succeeded the function can return (at "+bad+") without RemoveAllowedRoute on the same network: the dynamic route is gone but the exit keeps dialling its destinations")
		}
	}
	r.Count("r4_add_pairings", nAdd)
	r.Count("r4_remove_pairings", nRem)
	r.Require(nAdd >= 1 && nRem >= 1, "floor: no AddAllowedRoute call / RemoveDynamicRoute call found in internal/agent (ManageRoute role)")

	// ---- set semantics
	addPar, remPar := c19NetParam(cx.add), c19NetParam(cx.remove)
	if !r.Require(addPar != nil && remPar != nil, "anchor-unresolved: *net.IPNet parameter of AddAllowedRoute/RemoveAllowedRoute") {
		return
	}
	ctrlDepOnMembership := func(fn *ssa.Function, par *ssa.Parameter, in ssa.Instruction) bool {
		for _, b := range fn.Blocks {
			if len(b.Instrs) == 0 {
				continue
			}
			ifi, ok := b.Instrs[len(b.Instrs)-1].(*ssa.If)
			if !ok || !cx.relatesNetworkToList(ifi.Cond, par) {
				continue
			}
			if kit.ControlDependentOn(in, b) {
				return true
			}
		}
		return false
	}
	// I1: idempotent add — every append-store in AddAllowedRoute is control dependent on a membership test
	addStores := cx.listStores(cx.add)
	idem := len(addStores) > 0
	for _, st := range addStores {
		if !ctrlDepOnMembership(cx.add, addPar, st) {
			idem = false
		}
	}
	// I2: remove-all — the store in RemoveAllowedRoute is not itself selected by one match, but its value
	// is assembled under a membership test (filter), or comes from slices.DeleteFunc
	remStores := cx.listStores(cx.remove)
	remAll := len(remStores) > 0
	for _, st := range remStores {
		viaDeleteFunc, filtered := false, false
		for v := range kit.FlowSet(st.Val, nil) {
			c, ok := v.(*ssa.Call)
			if !ok {
				continue
			}
			cal := kit.CalleeOf(c)
			if cal.Pkg == "slices" && cal.Name == "DeleteFunc" {
				viaDeleteFunc = true
			}
			if cal.Built == "append" && ctrlDepOnMembership(cx.remove, remPar, c) {
				filtered = true
			}
		}
		if viaDeleteFunc {
			continue
		}
		if ctrlDepOnMembership(cx.remove, remPar, st) || !filtered {
			remAll = false
		}
	}
	// I3: the add is skipped for a route that is already dynamic: the AddAllowedRoute call is control
	// dependent on a routing.Manager query made before AddDynamicRoute (or on a non-error result of it)
	skipExisting := len(addSites) > 0
	for _, a := range addSites {
		f := a.Parent()
		dep := false
		for _, b := range f.Blocks {
			if len(b.Instrs) == 0 {
				continue
			}
			ifi, ok := b.Instrs[len(b.Instrs)-1].(*ssa.If)
			if !ok || !kit.ControlDependentOn(a, b) {
				continue
			}
			for v := range kit.FlowSet(ifi.Cond, nil) {
				c, ok := v.(*ssa.Call)
				if !ok {
					continue
				}
				cal := kit.CalleeOf(c)
				if cal.Recv != "Manager" || cal.Pkg != kit.PkgPath("internal/routing") {
					continue
				}
				if cal.Name == "AddDynamicRoute" {
					// only a non-error result counts
					if e, isE := ifi.Cond.(*ssa.BinOp); isE {
						if x, _, isNil := kit.IsErrNilCheck(e); isNil && kit.IsErrorType(x.Type()) {
							continue
						}
					}
					dep = true
					continue
				}
				before := false
				for _, c2 := range kit.Calls(f) {
					if isDyn(c2, "AddDynamicRoute") && kit.Precedes(c, c2) {
						before = true
					}
				}
				if before && c19IsBool(c.Type()) {
					dep = true
				}
			}
		}
		if !dep {
			skipExisting = false
		}
	}
	ok := idem || remAll || skipExisting
	how := "none"
	switch {
	case idem:
		how = "AddAllowedRoute appends only when the network is not already present"
	case remAll:
		how = "RemoveAllowedRoute removes every matching entry"
	case skipExisting:
		how = "the add is skipped when the route is already dynamic"
	}
	r.Decide(ok, "C19.R4", kit.FuncName(cx.add)+" set semantics", p.Pos(cx.add.Pos()), how,
		"re-adding an existing dynamic route (metric update) appends a second copy to AllowedRoutes while RemoveAllowedRoute deletes one match: after add, add, remove of the same CIDR the route is gone but isAllowed still permits its destinations")
	cx.ruleIdentity()
}
