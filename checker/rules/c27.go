package rules

import (
	"fmt"
	"go/token"
	"go/types"
	"sort"
	"strings"

	"golang.org/x/tools/go/ssa"

	"mmverify/kit"
)

func init() {
	const tf = "internal/filetransfer/tar.go"
	const hs = "internal/health/server.go"
	const sf = "internal/filetransfer/stream.go"
	register(&Check{
		ID: "C27", Level: "other",
		Technique: "link-aware containment: backward path-flow from every mutating file-system sink to archive/tar.Header.Name/Linkname, with the resolve-and-contain helper as the only barrier",
		Explain: "Decides, for every function in the loaded packages, that a path built from a tar header's Name or Linkname reaches a mutating os.* call (MkdirAll, OpenFile, Symlink, Link, Remove, ...) only as the result of a containment resolver: a function whose returned paths all derive from filepath.EvalSymlinks and whose every return of such a path is preceded, on every CFG path, by a comparison that involves the resolved value and another parameter (the destination root); that a hard link's source goes through the same barrier; that the text of a symbolic link is passed through the containment resolver, with its error checked, before os.Symlink; and that calls which follow a link in the last component never receive a contained path whose last component was left unresolved (the follow flag is evaluated under the entry-type guards of the call). " +
			"Not decided: the comparison's exact predicate (prefix with separator) and the resolver's algorithm, archive size, races with concurrent writers. Operations through an *os.Root are not sinks.",
		Run: runC27,
		SelfTests: []SelfTest{
			{Name: "entries placed by their lexical path again", ExpectRule: "C27.R1", ExpectKey: "ExtractTar", Edits: []Edit{
				{File: tf, Old: "\t\ttargetPath, err = containedPath(realDest, targetPath, !isLink)\n\t\tif err != nil {\n\t\t\treturn err\n\t\t}\n", New: "\t\t_ = isLink\n"},
			}},
			{Name: "containment helper returns the unresolved path", ExpectRule: "C27.R1", ExpectKey: "ExtractTar", Edits: []Edit{
				{File: tf, Old: "\t\treturn \"\", fmt.Errorf(\"path escapes destination directory: %s\", path)\n\t}\n\n\treturn realPath, nil\n", New: "\t\treturn \"\", fmt.Errorf(\"path escapes destination directory: %s\", path)\n\t}\n\n\treturn path, nil\n"},
			}},
			{Name: "containment test dropped from the helper", ExpectRule: "C27.R1", ExpectKey: "ExtractTar", Edits: []Edit{
				{File: tf, Old: "\troot := strings.TrimSuffix(realDest, string(filepath.Separator))\n\tif realPath != realDest && !strings.HasPrefix(realPath, root+string(filepath.Separator)) {\n\t\treturn \"\", fmt.Errorf(\"path escapes destination directory: %s\", path)\n\t}\n", New: ""},
			}},
			{Name: "containment tested on the lexical path", ExpectRule: "C27.R1", ExpectKey: "ExtractTar", Edits: []Edit{
				{File: tf, Old: "\tif realPath != realDest && !strings.HasPrefix(realPath, root+string(filepath.Separator)) {", New: "\tif path != realDest && !strings.HasPrefix(path, root+string(filepath.Separator)) {"},
			}},
			{Name: "parent directories created from the lexical entry path", ExpectRule: "C27.R1", ExpectKey: "os.MkdirAll", Edits: []Edit{
				{File: tf, Old: "\t\t// Resolve links created by earlier entries and hold the result to the destination.\n", New: "\t\tif err := os.MkdirAll(filepath.Dir(targetPath), 0755); err != nil {\n\t\t\treturn err\n\t\t}\n"},
			}},
			{Name: "hard link source only checked lexically", ExpectRule: "C27.R2", ExpectKey: "os.Link", Edits: []Edit{
				{File: tf, Old: "\t\t\tlinkTarget, err = containedPath(realDest, linkTarget, true)\n\t\t\tif err != nil {\n\t\t\t\treturn err\n\t\t\t}\n", New: ""},
			}},
			{Name: "symlink target only checked lexically", ExpectRule: "C27.R2", ExpectKey: "os.Symlink", Edits: []Edit{
				{File: tf, Old: "\t\t\tlinkDir, _ := filepath.Split(targetPath)\n\t\t\tif _, err := containedPath(realDest, linkDir+filepath.FromSlash(header.Linkname), true); err != nil {\n\t\t\t\treturn fmt.Errorf(\"symlink target escapes destination: %s -> %s\", targetPath, header.Linkname)\n\t\t\t}\n", New: ""},
			}},
			{Name: "symlink target resolved but the verdict ignored", ExpectRule: "C27.R2", ExpectKey: "os.Symlink", Edits: []Edit{
				{File: tf, Old: "\t\t\tif _, err := containedPath(realDest, linkDir+filepath.FromSlash(header.Linkname), true); err != nil {\n\t\t\t\treturn fmt.Errorf(\"symlink target escapes destination: %s -> %s\", targetPath, header.Linkname)\n\t\t\t}\n", New: "\t\t\t_, _ = containedPath(realDest, linkDir+filepath.FromSlash(header.Linkname), true)\n"},
			}},
			{Name: "second extractor with a lexical prefix test only", ExpectRule: "C27.R1", ExpectKey: "extractTarWithFallback", Edits: []Edit{
				{File: hs, Old: "import (\n\t\"bytes\"\n", New: "import (\n\t\"archive/tar\"\n\t\"bytes\"\n"},
				{File: hs, Old: "\treturn filetransfer.ExtractTar(reader, destDir)\n", New: "\ttr := tar.NewReader(reader)\n\tfor {\n\t\th, err := tr.Next()\n\t\tif err != nil {\n\t\t\tbreak\n\t\t}\n\t\ttarget := filepath.Join(destDir, h.Name)\n\t\tif !strings.HasPrefix(filepath.Clean(target), filepath.Clean(destDir)) {\n\t\t\treturn fmt.Errorf(\"traversal\")\n\t\t}\n\t\tif err := os.MkdirAll(target, 0755); err != nil {\n\t\t\treturn err\n\t\t}\n\t}\n\treturn nil\n"},
			}},
			{Name: "follow flag negated: regular files placed with the last component unresolved", ExpectRule: "C27.R3", ExpectKey: "os.OpenFile", Edits: []Edit{
				{File: tf, Old: "targetPath, err = containedPath(realDest, targetPath, !isLink)", New: "targetPath, err = containedPath(realDest, targetPath, isLink)"},
			}},
			{Name: "every entry placed with the last component unresolved", ExpectRule: "C27.R3", ExpectKey: "os.MkdirAll #1", Edits: []Edit{
				{File: tf, Old: "targetPath, err = containedPath(realDest, targetPath, !isLink)", New: "_ = isLink\n\t\ttargetPath, err = containedPath(realDest, targetPath, false)"},
			}},
			{Name: "rewrite: follow flag computed by a switch on the entry type", Edits: []Edit{
				{File: tf, Old: "\t\tisLink := header.Typeflag == tar.TypeSymlink || header.Typeflag == tar.TypeLink\n\t\ttargetPath, err = containedPath(realDest, targetPath, !isLink)\n", New: "\t\tfollow := true\n\t\tswitch header.Typeflag {\n\t\tcase tar.TypeSymlink, tar.TypeLink:\n\t\t\tfollow = false\n\t\t}\n\t\ttargetPath, err = containedPath(realDest, targetPath, follow)\n"},
			}},
			// ---- round 2: seeded classes and neighbours
			{Name: "containment by bare string prefix (sibling dest-old counts as inside dest)", ExpectRule: "C27.R4", ExpectKey: "containedPath", Edits: []Edit{
				{File: tf, Old: "\troot := strings.TrimSuffix(realDest, string(filepath.Separator))\n\tif realPath != realDest && !strings.HasPrefix(realPath, root+string(filepath.Separator)) {\n", New: "\tif !strings.HasPrefix(realPath, realDest) {\n"},
			}},
			{Name: "containment by substring", ExpectRule: "C27.R4", ExpectKey: "strings.Contains", Edits: []Edit{
				{File: tf, Old: "\tif realPath != realDest && !strings.HasPrefix(realPath, root+string(filepath.Separator)) {\n", New: "\tif realPath != realDest && !strings.Contains(realPath, root+string(filepath.Separator)) {\n"},
			}},
			{Name: "containment delegated to a helper that forgets the separator", ExpectRule: "C27.R4", ExpectKey: "insideRoot", Edits: []Edit{
				{File: tf, Old: "\troot := strings.TrimSuffix(realDest, string(filepath.Separator))\n\tif realPath != realDest && !strings.HasPrefix(realPath, root+string(filepath.Separator)) {\n", New: "\tif !insideRoot(realDest, realPath) {\n"},
				{File: tf, Old: "// CalculateDirectorySize calculates", New: "func insideRoot(root, p string) bool { return p == root || strings.HasPrefix(p, root) }\n\n// CalculateDirectorySize calculates"},
			}},
			{Name: "link entries recognised by the link-name field instead of the type flag", ExpectRule: "C27.R3", ExpectKey: "os.OpenFile", Edits: []Edit{
				{File: tf, Old: "isLink := header.Typeflag == tar.TypeSymlink || header.Typeflag == tar.TypeLink", New: "isLink := header.Linkname != \"\""},
			}},
			{Name: "empty entries treated like links", ExpectRule: "C27.R3", ExpectKey: "os.OpenFile", Edits: []Edit{
				{File: tf, Old: "isLink := header.Typeflag == tar.TypeSymlink || header.Typeflag == tar.TypeLink", New: "isLink := header.Typeflag == tar.TypeSymlink || header.Typeflag == tar.TypeLink || header.Size == 0"},
			}},
			{Name: "follow decision cached from the previous entry", ExpectRule: "C27.R3", ExpectKey: "os.OpenFile", Edits: []Edit{
				{File: tf, Old: "\ttr := tar.NewReader(r)\n\n\tfor {\n\t\theader, err := tr.Next()\n\t\tif err == io.EOF {\n\t\t\tbreak\n\t\t}\n\t\tif err != nil {\n\t\t\treturn fmt.Errorf(\"failed to read tar header: %w\", err)\n\t\t}\n\n\t\t// Validate and sanitize the path\n\t\ttargetPath, err := sanitizeTarPath(destDir, header.Name)", New: "\ttr := tar.NewReader(r)\n\tprevLink := false\n\n\tfor {\n\t\theader, err := tr.Next()\n\t\tif err == io.EOF {\n\t\t\tbreak\n\t\t}\n\t\tif err != nil {\n\t\t\treturn fmt.Errorf(\"failed to read tar header: %w\", err)\n\t\t}\n\n\t\t// Validate and sanitize the path\n\t\ttargetPath, err := sanitizeTarPath(destDir, header.Name)"},
				{File: tf, Old: "\t\tisLink := header.Typeflag == tar.TypeSymlink || header.Typeflag == tar.TypeLink\n", New: "\t\tisLink := prevLink\n\t\tprevLink = header.Typeflag == tar.TypeSymlink || header.Typeflag == tar.TypeLink\n"},
			}},
			{Name: "rewrite: link types recognised by a small helper", Edits: []Edit{
				{File: tf, Old: "isLink := header.Typeflag == tar.TypeSymlink || header.Typeflag == tar.TypeLink", New: "isLink := isLinkType(header.Typeflag)"},
				{File: tf, Old: "// CalculateDirectorySize calculates", New: "func isLinkType(t byte) bool { return t == tar.TypeSymlink || t == tar.TypeLink }\n\n// CalculateDirectorySize calculates"},
			}},
			{Name: "rewrite: regular-file case also takes the old-style type flag", Edits: []Edit{
				{File: tf, Old: "\t\tcase tar.TypeReg:\n\t\t\t// Create parent directories if needed", New: "\t\tcase tar.TypeReg, tar.TypeRegA:\n\t\t\t// Create parent directories if needed"},
			}},
			{Name: "rewrite: separator-terminated root built once by a helper", Edits: []Edit{
				{File: tf, Old: "\troot := strings.TrimSuffix(realDest, string(filepath.Separator))\n\tif realPath != realDest && !strings.HasPrefix(realPath, root+string(filepath.Separator)) {\n", New: "\tif realPath != realDest && !strings.HasPrefix(realPath, dirPrefix(realDest)) {\n"},
				{File: tf, Old: "// CalculateDirectorySize calculates", New: "func dirPrefix(d string) string {\n\treturn strings.TrimSuffix(d, string(filepath.Separator)) + string(filepath.Separator)\n}\n\n// CalculateDirectorySize calculates"},
			}},
			// ---- round 3: refactoring classes that used to alarm
			{Name: "rewrite: link entries recognised by a helper taking the header", Edits: []Edit{
				{File: tf, Old: "isLink := header.Typeflag == tar.TypeSymlink || header.Typeflag == tar.TypeLink", New: "isLink := isLinkEntry(header)"},
				{File: tf, Old: "// CalculateDirectorySize calculates", New: "func isLinkEntry(h *tar.Header) bool {\n\tswitch h.Typeflag {\n\tcase tar.TypeSymlink, tar.TypeLink:\n\t\treturn true\n\t}\n\treturn false\n}\n\n// CalculateDirectorySize calculates"},
			}},
			{Name: "rewrite: containment helper picks the resolver through a function value", Edits: []Edit{
				{File: tf, Old: "\tif followFinal {\n\t\trealPath, err = resolvePath(path)\n\t} else {\n\t\trealPath, err = resolveParent(path)\n\t}\n", New: "\tresolve := resolveParent\n\tif followFinal {\n\t\tresolve = resolvePath\n\t}\n\trealPath, err = resolve(path)\n"},
			}},
			{Name: "rewrite: sanitising and containment merged into a per-entry helper that switches on the type", Edits: []Edit{
				{File: tf, Old: "\t\tisLink := header.Typeflag == tar.TypeSymlink || header.Typeflag == tar.TypeLink\n\t\ttargetPath, err = containedPath(realDest, targetPath, !isLink)\n", New: "\t\ttargetPath, err = placeEntry(realDest, targetPath, header)\n"},
				{File: tf, Old: "// CalculateDirectorySize calculates", New: "func placeEntry(realDest, lexical string, h *tar.Header) (string, error) {\n\tswitch h.Typeflag {\n\tcase tar.TypeSymlink, tar.TypeLink:\n\t\treturn containedPath(realDest, lexical, false)\n\tdefault:\n\t\treturn containedPath(realDest, lexical, true)\n\t}\n}\n\n// CalculateDirectorySize calculates"},
			}},
			{Name: "per-entry helper resolves every entry without its last component", ExpectRule: "C27.R3", ExpectKey: "os.OpenFile", Edits: []Edit{
				{File: tf, Old: "\t\tisLink := header.Typeflag == tar.TypeSymlink || header.Typeflag == tar.TypeLink\n\t\ttargetPath, err = containedPath(realDest, targetPath, !isLink)\n", New: "\t\ttargetPath, err = placeEntry(realDest, targetPath, header)\n"},
				{File: tf, Old: "// CalculateDirectorySize calculates", New: "func placeEntry(realDest, lexical string, h *tar.Header) (string, error) {\n\tswitch h.Typeflag {\n\tcase tar.TypeSymlink, tar.TypeLink, tar.TypeReg:\n\t\treturn containedPath(realDest, lexical, false)\n\tdefault:\n\t\treturn containedPath(realDest, lexical, true)\n\t}\n}\n\n// CalculateDirectorySize calculates"},
			}},
			{Name: "rewrite: the link is created by a closure called synchronously", Edits: []Edit{
				{File: tf, Old: "\t\t\tif err := os.Symlink(header.Linkname, targetPath); err != nil {\n", New: "\t\t\tcreate := func() error { return os.Symlink(header.Linkname, targetPath) }\n\t\t\tif err := create(); err != nil {\n"},
			}},
			{Name: "link created by a closure, target check dropped", ExpectRule: "C27.R2", ExpectKey: "os.Symlink", Edits: []Edit{
				{File: tf, Old: "\t\t\tif err := os.Symlink(header.Linkname, targetPath); err != nil {\n", New: "\t\t\tcreate := func() error { return os.Symlink(header.Linkname, targetPath) }\n\t\t\tif err := create(); err != nil {\n"},
				{File: tf, Old: "\t\t\tlinkDir, _ := filepath.Split(targetPath)\n\t\t\tif _, err := containedPath(realDest, linkDir+filepath.FromSlash(header.Linkname), true); err != nil {\n\t\t\t\treturn fmt.Errorf(\"symlink target escapes destination: %s -> %s\", targetPath, header.Linkname)\n\t\t\t}\n", New: ""},
			}},
			// ---- round 5: evidence for "this component does not exist" in the real-path resolver
			{Name: "resolver fast path: last component declared missing on the word of os.Stat", ExpectRule: "C27.R5", ExpectKey: "resolvePath", Edits: []Edit{
				{File: sf, Old: "\trest := \"\"\n\tcur := path\n\tfor hops := 0; ; {\n", New: "\trest := \"\"\n\tcur := path\n\tif _, err := os.Stat(cur); os.IsNotExist(err) {\n\t\tif dir, file := filepath.Split(cur); file != \"\" && file != \".\" && file != \"..\" && len(dir) > len(filepath.VolumeName(dir))+1 {\n\t\t\trest, cur = file, dir[:len(dir)-1]\n\t\t}\n\t}\n\tfor hops := 0; ; {\n"},
			}},
			{Name: "resolver fast path: last component declared missing because os.Open fails", ExpectRule: "C27.R5", ExpectKey: "resolvePath", Edits: []Edit{
				{File: sf, Old: "\trest := \"\"\n\tcur := path\n\tfor hops := 0; ; {\n", New: "\trest := \"\"\n\tcur := path\n\tif f, err := os.Open(cur); err == nil {\n\t\tf.Close()\n\t} else if os.IsNotExist(err) {\n\t\tif dir, file := filepath.Split(cur); dir != \"\" && file != \"\" && file != \"..\" {\n\t\t\trest, cur = file, dir\n\t\t}\n\t}\n\tfor hops := 0; ; {\n"},
			}},
			{Name: "resolver fast path: os.Stat of the whole path, Dir/Base split", ExpectRule: "C27.R5", ExpectKey: "resolvePath", Edits: []Edit{
				{File: sf, Old: "\trest := \"\"\n\tcur := path\n\tfor hops := 0; ; {\n", New: "\trest := \"\"\n\tcur := path\n\tif _, serr := os.Stat(path); os.IsNotExist(serr) && filepath.Base(path) != \"..\" {\n\t\trest, cur = filepath.Base(path), filepath.Dir(path)\n\t}\n\tfor hops := 0; ; {\n"},
			}},
			{Name: "resolver no longer looks for a dangling link before stripping a component", ExpectRule: "C27.R5", ExpectKey: "resolvePath", Edits: []Edit{
				{File: sf, Old: "\t\tif target, lerr := os.Readlink(cur); lerr == nil {\n", New: "\t\tif target, lerr := \"\", error(os.ErrNotExist); lerr == nil {\n"},
			}},
			{Name: "rewrite: resolver fast path on os.Lstat evidence", Edits: []Edit{
				{File: sf, Old: "\trest := \"\"\n\tcur := path\n\tfor hops := 0; ; {\n", New: "\trest := \"\"\n\tcur := path\n\tif _, err := os.Lstat(cur); os.IsNotExist(err) {\n\t\tif dir, file := filepath.Split(cur); file != \"\" && file != \".\" && file != \"..\" && len(dir) > len(filepath.VolumeName(dir))+1 {\n\t\t\trest, cur = file, dir[:len(dir)-1]\n\t\t}\n\t}\n\tfor hops := 0; ; {\n"},
			}},
			{Name: "rewrite: dangling-link step and component stripping extracted into helpers", Edits: []Edit{
				{File: sf, Old: "\t\tif target, lerr := os.Readlink(cur); lerr == nil {\n\t\t\tif hops++; hops > 32 {\n\t\t\t\treturn \"\", fmt.Errorf(\"too many levels of symbolic links: %s\", path)\n\t\t\t}\n\t\t\tif !filepath.IsAbs(target) {\n\t\t\t\tdir, _ := filepath.Split(cur)\n\t\t\t\ttarget = dir + target\n\t\t\t}\n\t\t\tcur = target\n\t\t\tcontinue\n\t\t}\n", New: "\t\tif target, dangling := danglingTarget(cur); dangling {\n\t\t\tif hops++; hops > 32 {\n\t\t\t\treturn \"\", fmt.Errorf(\"too many levels of symbolic links: %s\", path)\n\t\t\t}\n\t\t\tcur = target\n\t\t\tcontinue\n\t\t}\n"},
				{File: sf, Old: "// resolveParent is resolvePath for operations", New: "func danglingTarget(p string) (string, bool) {\n\ttarget, err := os.Readlink(p)\n\tif err != nil {\n\t\treturn \"\", false\n\t}\n\tif filepath.IsAbs(target) {\n\t\treturn target, true\n\t}\n\tdir, _ := filepath.Split(p)\n\treturn dir + target, true\n}\n\n// resolveParent is resolvePath for operations"},
			}},
			// ---- round 4
			{Name: "follow flag is 'entry is a directory': regular files keep their last component", ExpectRule: "C27.R3", ExpectKey: "os.OpenFile", Edits: []Edit{
				{File: tf, Old: "\t\tisLink := header.Typeflag == tar.TypeSymlink || header.Typeflag == tar.TypeLink\n\t\ttargetPath, err = containedPath(realDest, targetPath, !isLink)\n", New: "\t\tisDir := header.Typeflag == tar.TypeDir\n\t\ttargetPath, err = containedPath(realDest, targetPath, isDir)\n"},
			}},
			{Name: "rewrite: link entries defined as everything but directories and regular files", Edits: []Edit{
				{File: tf, Old: "isLink := header.Typeflag == tar.TypeSymlink || header.Typeflag == tar.TypeLink", New: "isLink := header.Typeflag != tar.TypeDir && header.Typeflag != tar.TypeReg"},
			}},
			{Name: "rewrite: containment test written with filepath.Rel", Edits: []Edit{
				{File: tf, Old: "\troot := strings.TrimSuffix(realDest, string(filepath.Separator))\n\tif realPath != realDest && !strings.HasPrefix(realPath, root+string(filepath.Separator)) {\n", New: "\trel, rerr := filepath.Rel(realDest, realPath)\n\tif rerr != nil || rel == \"..\" || strings.HasPrefix(rel, \"..\"+string(filepath.Separator)) {\n"},
			}},
			{Name: "rewrite: directory creation moved into a helper", Edits: []Edit{
				{File: tf, Old: "if err := os.MkdirAll(targetPath, os.FileMode(header.Mode)); err != nil {", New: "if err := mkdirMode(targetPath, header.Mode); err != nil {"},
				{File: tf, Old: "// CalculateDirectorySize calculates", New: "func mkdirMode(p string, mode int64) error { return os.MkdirAll(p, os.FileMode(mode)) }\n\n// CalculateDirectorySize calculates"},
			}},
			{Name: "rewrite: link-target check through a named error variable", Edits: []Edit{
				{File: tf, Old: "\t\t\tif _, err := containedPath(realDest, linkDir+filepath.FromSlash(header.Linkname), true); err != nil {\n", New: "\t\t\t_, lerr := containedPath(realDest, filepath.Join(linkDir, filepath.FromSlash(header.Linkname)), true)\n\t\t\tif lerr != nil {\n"},
			}},
		},
	})
}

// c27Mutators: package-level functions that create, change or remove the file-system
// object named by the listed arguments.
var c27Mutators = map[string][]int{
	"os.OpenFile": {0}, "os.Create": {0}, "os.WriteFile": {0}, "os.Chmod": {0}, "os.Chown": {0},
	"os.Lchown": {0}, "os.Chtimes": {0}, "os.Remove": {0}, "os.RemoveAll": {0}, "os.Mkdir": {0},
	"os.MkdirAll": {0}, "os.Rename": {0, 1}, "os.Symlink": {1}, "os.Link": {0, 1}, "os.Truncate": {0},
	"io/ioutil.WriteFile": {0},
}

// c27FollowsLast: the call follows a symbolic link found as the last component of argument ai.
func c27FollowsLast(name string, ai int) bool {
	switch name {
	case "os.Remove", "os.RemoveAll", "os.Rename", "os.Symlink", "os.Link", "os.Lchown", "os.Mkdir":
		return false
	}
	return true
}

type c27Ctx struct {
	*c26Ctx
	contained map[*ssa.Function]int // 1 yes, 2 no
	notes     map[*ssa.Function]string
}

// isContainmentResolver: fn is a resolver (all returned paths derive from EvalSymlinks) and
// every return of such a path is preceded on every CFG path by a branch whose condition
// involves the resolved value and a parameter of fn (the root it is held to).
func (cx *c27Ctx) isContainmentResolver(fn *ssa.Function) bool {
	switch cx.contained[fn] {
	case 1:
		return true
	case 2:
		return false
	}
	cx.contained[fn] = 2
	if !cx.isResolverFn(fn) {
		return false
	}
	ok := true
	for _, ret := range kit.Returns(fn) {
		v := kit.ReturnResult(ret, 0)
		if _, isConst := v.(*ssa.Const); isConst {
			continue
		}
		res := cx.leadWalk(fn, v)
		barrier := map[ssa.Value]bool{}
		for _, b := range res.Barriers {
			barrier[b] = true
		}
		tests := map[*ssa.BasicBlock]bool{}
		for _, b := range fn.Blocks {
			if len(b.Instrs) == 0 {
				continue
			}
			ifi, isIf := b.Instrs[len(b.Instrs)-1].(*ssa.If)
			if !isIf {
				continue
			}
			q := &kit.PathFlow{Prog: cx.p, Within: fn, Barrier: func(x ssa.Value) bool { return barrier[x] }}
			dep := q.Walk(ifi.Cond)
			if len(dep.Barriers) > 0 && len(dep.Params) > 0 {
				tests[b] = true
			}
		}
		if !kit.MustPassOneOf(fn, ret.Block(), tests) {
			ok = false
			cx.notes[fn] = fmt.Sprintf("%s returns a resolved path at %s that was not compared with any other parameter (no containment test on the resolved value)", kit.FuncName(fn), cx.p.Pos(ret.Pos()))
		}
	}
	if ok {
		cx.contained[fn] = 1
	}
	return ok
}

// checkContainmentPredicate decides R4 for one containment resolver: every
// strings.HasPrefix/HasSuffix/Contains/EqualFold call in it (and, one level deep, in the
// repository helpers it calls with the resolved value) that relates a resolver-derived
// string to a parameter-derived one.
func (cx *c27Ctx) checkContainmentPredicate(r *kit.Report, fn *ssa.Function) {
	p := cx.p
	type site struct {
		f   *ssa.Function
		rel g9StringRel
	}
	var sites []site
	for _, rel := range g9StringRels(fn) {
		sw := (&kit.PathFlow{Prog: p, Within: fn, Barrier: cx.isResolverResult}).Walk(rel.s)
		pw := (&kit.PathFlow{Prog: p, Within: fn, Barrier: cx.isResolverResult}).Walk(rel.p)
		if len(sw.Barriers) > 0 && len(pw.Params) > 0 && len(pw.Barriers) == 0 {
			sites = append(sites, site{fn, rel})
		}
	}
	// helpers receiving the resolved value: comparisons between two different parameters
	for _, c := range kit.Calls(fn) {
		h := kit.CalleeOf(c).Static
		if h == nil || h.Blocks == nil || h == fn || !kit.IsRepoPkg(kit.FuncPkgPath(h)) || cx.isResolverFn(h) {
			continue
		}
		takesResolved := false
		for _, a := range c.Common().Args {
			if c26IsStringType(a.Type()) && len((&kit.PathFlow{Prog: p, Within: fn, Barrier: cx.isResolverResult}).Walk(a).Barriers) > 0 {
				takesResolved = true
			}
		}
		if !takesResolved {
			continue
		}
		for _, rel := range g9StringRels(h) {
			sp := (&kit.PathFlow{Prog: p, Within: h}).Walk(rel.s).Params
			pp := (&kit.PathFlow{Prog: p, Within: h}).Walk(rel.p).Params
			if len(sp) == 0 || len(pp) == 0 {
				continue
			}
			inS := map[*ssa.Parameter]bool{}
			for _, x := range sp {
				inS[x] = true
			}
			differ := false
			for _, x := range pp {
				if !inS[x] {
					differ = true
				}
			}
			if differ {
				sites = append(sites, site{h, rel})
			}
		}
	}
	ord := map[string]int{}
	for _, st := range sites {
		k := kit.FuncName(st.f) + " strings." + st.rel.name
		ord[k]++
		key := fmt.Sprintf("%s #%d", k, ord[k])
		pos := p.Pos(st.rel.call.Pos())
		if st.rel.name != "HasPrefix" {
			r.Violation("C27.R4", key, pos, "the resolved path is compared with the destination by strings.%s: substring, suffix and case-insensitive matches accept locations outside the destination (<parent>/x/<dest>, <parent>/Dest) - containment needs a separator-terminated prefix test or filepath.Rel", st.rel.name)
			continue
		}
		r.Decide(g9EndsWithSep(st.rel.p, 0), "C27.R4", key, pos,
			"the prefix operand provably ends with the path separator",
			"strings.HasPrefix against the destination path without a trailing separator: the sibling <parent>/dest-old has <parent>/dest as a string prefix, so an entry that resolves into it (reached through a planted link) passes the containment test and is written outside the destination")
	}
	r.Count("containment_string_comparisons", len(sites))
}

// factsFor returns the environments (entry-type facts) under which a barrier value v, found
// after descending through chain, is consumed: the facts hold in the function where the
// descent started (the sink's own function, or the function from which the path is handed
// to the sink's function - then the facts at that hand-over call).
func (cx *c27Ctx) factsFor(s c26SinkSite, sinkEnvs []c26Env, v ssa.Value, chain []*ssa.Call) []c26Env {
	var f0 *ssa.Function
	var through ssa.Value = v
	if len(chain) > 0 {
		f0 = chain[0].Parent()
		through = chain[0]
	} else if in, ok := v.(ssa.Instruction); ok {
		f0 = in.Parent()
	}
	if f0 == nil {
		return []c26Env{{}}
	}
	if f0 == s.fn {
		return sinkEnvs
	}
	// a closure of f0: the facts at its creation
	for fn := s.fn; fn != nil && fn.Parent() != nil; fn = fn.Parent() {
		if fn.Parent() == f0 {
			var envs []c26Env
			for _, in := range g9Instrs(f0) {
				if mc, ok := in.(*ssa.MakeClosure); ok && mc.Fn == ssa.Value(fn) {
					envs = append(envs, c26EnvsAt(mc)...)
				}
			}
			if len(envs) > 0 {
				return envs
			}
		}
	}
	if sites := cx.consumerSites(f0, through, s.fn); len(sites) > 0 {
		var envs []c26Env
		for _, k := range sites {
			envs = append(envs, c26EnvsAt(k)...)
		}
		return envs
	}
	return []c26Env{{}}
}

// consumerSites: the calls in f that hand a value derived from v (a value, or any result of
// the call v) to a function from which target is reachable (the path leaves f there on its
// way to the sink).
func (cx *c27Ctx) consumerSites(f *ssa.Function, v ssa.Value, target *ssa.Function) []ssa.Instruction {
	var out []ssa.Instruction
	for _, k := range kit.Calls(f) {
		t, ok := kit.CallTargets(k)
		if !ok {
			continue
		}
		reaches := false
		for _, callee := range t {
			reaches = reaches || g9Reaches(callee, target, cx.reach)
		}
		if !reaches {
			continue
		}
		for _, a := range k.Common().Args {
			if !c26IsStringType(a.Type()) {
				continue
			}
			res := (&kit.PathFlow{Prog: cx.p, Within: f}).Walk(a)
			hit := res.Reached(v)
			for x := range res.Visited {
				if c := c26ResultCall(x); c != nil && ssa.Value(c) == v {
					hit = true
				}
			}
			if hit {
				out = append(out, k)
				break
			}
		}
	}
	return out
}

func c27CallsEvalSymlinks(fn *ssa.Function) bool {
	for _, c := range kit.Calls(fn) {
		if t, ok := kit.CallTargets(c); ok {
			for _, f := range t {
				if c26IsEvalSymlinksFn(f) {
					return true
				}
			}
		}
	}
	return false
}

// c27ProbeKind classifies a function as a file-system probe: +1 it only observes names
// without following a link in the last component (os.Lstat, os.Readlink, or a repository
// helper built from them and from no following probe), -1 it follows links (os.Stat,
// os.Open*, os.ReadFile, os.ReadDir, filepath.EvalSymlinks, or a helper containing one), 0 neither.
func c27ProbeKind(f *ssa.Function, depth int) int {
	if f == nil {
		return 0
	}
	if f.Blocks == nil || !kit.IsRepoPkg(kit.FuncPkgPath(f)) {
		if f.Pkg == nil || f.Signature.Recv() != nil {
			return 0
		}
		switch f.Pkg.Pkg.Path() + "." + f.Name() {
		case "os.Lstat", "os.Readlink":
			return 1
		case "os.Stat", "os.Open", "os.OpenFile", "os.ReadFile", "os.ReadDir", "path/filepath.EvalSymlinks", "path/filepath.Glob", "io/ioutil.ReadFile", "io/ioutil.ReadDir":
			return -1
		}
		return 0
	}
	if depth > 2 {
		return 0
	}
	kind := 0
	for _, c := range kit.Calls(f) {
		t, ok := kit.CallTargets(c)
		if !ok {
			continue
		}
		for _, g := range t {
			switch c27ProbeKind(g, depth+1) {
			case -1:
				return -1
			case 1:
				kind = 1
			}
		}
	}
	return kind
}

// checkRemainderEvidence decides R5 for one resolver function.
func (cx *c27Ctx) checkRemainderEvidence(r *kit.Report, fn *ssa.Function) {
	p := cx.p
	// branches on the result of a no-follow probe
	tests := map[*ssa.BasicBlock]bool{}
	for _, b := range fn.Blocks {
		if len(b.Instrs) == 0 {
			continue
		}
		ifi, isIf := b.Instrs[len(b.Instrs)-1].(*ssa.If)
		if !isIf {
			continue
		}
		for x := range (&kit.PathFlow{Prog: p, Within: fn}).Walk(ifi.Cond).Visited {
			if c, _, ok := kit.ResultOf(x); ok {
				if t, ok := kit.CallTargets(c); ok {
					for _, g := range t {
						if c27ProbeKind(g, 0) == 1 {
							tests[b] = true
						}
					}
				}
			}
		}
	}
	// places where a component enters the remainder of a returned resolved+remainder path
	type update struct {
		v   ssa.Value
		loc *ssa.BasicBlock
	}
	var updates []update
	seen := map[ssa.Value]bool{}
	var visit func(v ssa.Value, loc *ssa.BasicBlock)
	visit = func(v ssa.Value, loc *ssa.BasicBlock) {
		switch x := v.(type) {
		case *ssa.Const:
			return
		case *ssa.Phi:
			if seen[x] {
				return
			}
			seen[x] = true
			for i, e := range x.Edges {
				visit(e, x.Block().Preds[i])
			}
			return
		case *ssa.BinOp:
			if x.Op == token.ADD {
				visit(x.X, x.Block())
				visit(x.Y, x.Block())
				return
			}
		case *ssa.Call:
			if cal := kit.CalleeOf(x); cal.Pkg == "path/filepath" && cal.Name == "Join" && len(x.Call.Args) == 1 {
				if seen[x] {
					return
				}
				seen[x] = true
				for _, e := range kit.VariadicElems(x.Call.Args[0]) {
					visit(e, x.Block())
				}
				return
			}
		}
		updates = append(updates, update{v, loc})
	}
	for _, ret := range kit.Returns(fn) {
		v := kit.ReturnResult(ret, 0)
		var tails []ssa.Value
		switch x := v.(type) {
		case *ssa.Call:
			if cal := kit.CalleeOf(x); cal.Pkg == "path/filepath" && cal.Name == "Join" && len(x.Call.Args) == 1 {
				if elems := kit.VariadicElems(x.Call.Args[0]); len(elems) > 1 {
					tails = elems[1:]
				}
			}
		case *ssa.BinOp:
			if x.Op == token.ADD {
				tails = []ssa.Value{x.Y}
			}
		}
		for _, t := range tails {
			visit(t, ret.Block())
		}
	}
	name := kit.FuncName(fn)
	if len(updates) == 0 {
		r.OK("C27.R5", name+" remainder", p.Pos(fn.Pos()), "no component is appended unresolved to a returned path")
		return
	}
	for i, u := range updates {
		ok := kit.MustPassOneOf(fn, u.loc, tests)
		pos := p.Pos(u.v.Pos())
		for j := len(u.loc.Instrs) - 1; pos == "-" && j >= 0; j-- {
			pos = p.Pos(u.loc.Instrs[j].Pos())
		}
		if pos == "-" {
			pos = p.Pos(fn.Pos())
		}
		r.Decide(ok, "C27.R5", fmt.Sprintf("%s remainder update #%d", name, i+1), pos,
			"the component joins the remainder only after a branch on a no-follow probe (Lstat/Readlink)",
			"a path component is moved to the remainder (the part appended as named, assumed not to exist and to contain no link) on a path that passes no branch on os.Lstat/os.Readlink evidence: a probe that follows links (os.Stat, os.Open, EvalSymlinks) reports a dangling symbolic link as missing, the link is then appended unresolved, the containment test accepts it and O_CREATE writes through it outside the destination")
	}
}

func (cx *c27Ctx) isBarrier(v ssa.Value) bool {
	c := c26ResultCall(v)
	if c == nil {
		return false
	}
	cal := kit.CalleeOf(c)
	return cal.Static != nil && cx.isContainmentResolver(cal.Static)
}

func runC27(p *kit.Program, r *kit.Report) {
	r.Rule("C27.R1", "every mutating file-system call whose path is built from a tar header's Name/Linkname receives the result of a containment resolver (paths derive from filepath.EvalSymlinks; a comparison of the resolved value with the root precedes every return)")
	r.Rule("C27.R3", "a mutating call that follows a link in the last path component (OpenFile, MkdirAll, WriteFile, Chmod, ...) receives a fully resolved contained path; a contained path whose last component was kept as named reaches only calls that act on that name itself (Remove, Symlink/Link new name, Rename, Mkdir) or has that component stripped (filepath.Dir) first")
	r.Rule("C27.R4", "the containment comparison is component-wise: a strings.HasPrefix between the resolved path and the root uses a prefix that provably ends with the path separator (or the test is made with filepath.Rel / equality); substring, suffix and case-insensitive comparisons are not containment tests")
	r.Rule("C27.R5", "in a real-path resolver (a function that calls filepath.EvalSymlinks and returns resolved + remainder) a component enters the remainder - the part appended as named and assumed free of links - only where control has passed a branch on the result of a probe that does not follow links (os.Lstat, os.Readlink, or a helper made of them) - never on the word of os.Stat/os.Open/EvalSymlinks alone, which call a dangling link 'missing'")
	r.Rule("C27.R2", "link targets: the source of a hard link passes the same barrier, and the text of a symbolic link taken from the archive is passed through a containment resolver whose error is checked before os.Symlink")
	c27Analyse(p, r, nil, true)
}

// c27Analyse runs the C27 rule set over the mutating sinks accepted by filter (nil = all).
// With floors false a missing subject (no archive/tar, no extractor) is a note, not a floor:
// that is how C26 embeds the analysis for the extraction that a directory upload performs.
func c27Analyse(p *kit.Program, r *kit.Report, filter func(s c26SinkSite) bool, floors bool) {
	cx := &c27Ctx{c26Ctx: newC26Ctx(p), contained: map[*ssa.Function]int{}, notes: map[*ssa.Function]string{}}
	var linkname *types.Var
	if tp := p.All["archive/tar"]; tp != nil && tp.Types != nil {
		if tn, ok := tp.Types.Scope().Lookup("Header").(*types.TypeName); ok {
			if st, ok := tn.Type().Underlying().(*types.Struct); ok {
				for i := 0; i < st.NumFields(); i++ {
					switch st.Field(i).Name() {
					case "Name":
						cx.taint[st.Field(i)] = true
					case "Linkname":
						cx.taint[st.Field(i)] = true
						linkname = st.Field(i)
					}
				}
			}
		}
	}
	if len(cx.taint) != 2 || linkname == nil {
		if floors {
			r.Floor("anchor-unresolved: archive/tar.Header fields Name and Linkname (is archive/tar imported by the loaded packages?)")
		} else {
			r.Note("archive/tar is not among the loaded packages: no tar extraction to judge")
		}
		return
	}
	// extractors: functions calling (*tar.Reader).Next
	nExtract := 0
	for _, fn := range p.RepoFuncs() {
		if len(kit.CallsTo(fn, "archive/tar", "Reader", "Next")) > 0 {
			nExtract++
			r.Infof("C27.R1", "extractor "+kit.FuncName(fn), p.Pos(fn.Pos()), "iterates a tar stream")
		}
	}
	r.Count("tar_extractor_functions", nExtract)
	if nExtract < 1 {
		if floors {
			r.Floor("floor: no function in the loaded packages calls (*archive/tar.Reader).Next")
		} else {
			r.Note("no function in the loaded packages iterates a tar stream")
		}
		return
	}

	sinks := c26FindSinks(p, c27Mutators)
	r.Count("mutating_fs_calls_in_repo", len(sinks))
	nBar, nBad, nFollow := 0, 0, 0
	for _, s := range sinks {
		if filter != nil && !filter(s) {
			continue
		}
		args := s.call.Common().Args
		for _, ai := range s.args {
			if ai >= len(args) {
				continue
			}
			var partial []ssa.Value // containment results whose last component was left unresolved
			sinkEnvs := c26EnvsAt(s.call)
			q := &kit.PathFlow{Prog: p, FollowBodies: true, FollowParams: true, Source: cx.isTaintLoad, Barrier: cx.isBarrier,
				Mark: c26StripsLast,
				OnBarrierChain: func(v ssa.Value, stripped bool, chain []*ssa.Call) {
					if stripped {
						return
					}
					for _, env := range cx.factsFor(s, sinkEnvs, v, chain) {
						if cx.barrierPartial(v, c26ChainEval(env, chain)) {
							partial = append(partial, v)
							break
						}
					}
				},
				ReturnFilter: func(chain []*ssa.Call, ret *ssa.Return) bool {
					if len(chain) == 0 {
						return true
					}
					for _, env := range cx.factsFor(s, sinkEnvs, nil, chain) {
						if c26ChainEval(env, chain).blockFeasible(ret.Block(), 0) {
							return true
						}
					}
					return false
				}}
			res := q.Walk(args[ai])
			rule := "C27.R1"
			if s.name == "os.Link" && ai == 0 {
				rule = "C27.R2"
			}
			pos := p.Pos(s.call.Pos())
			switch {
			case len(res.Sources) > 0:
				nBad++
				f, _ := kit.LoadedField(res.Sources[0])
				why := ""
				for x := range res.Visited {
					if c := c26ResultCall(x); c != nil {
						if cal := kit.CalleeOf(c); cal.Static != nil && cx.notes[cal.Static] != "" {
							why = " (" + cx.notes[cal.Static] + ")"
						}
					}
				}
				r.Violation(rule, s.key(ai), pos,
					"the path handed to %s is built from the archive's header.%s (loaded at %s) without passing through a containment resolver%s: a symbolic link planted by an earlier entry redirects this operation outside the destination directory",
					s.name, f.Name(), p.Pos(res.Sources[0].Pos()), why)
			case res.Top:
				r.Undecided(rule, s.key(ai), pos, "path-flow walk exceeded its bounds")
			case len(res.Barriers) > 0:
				nBar++
				r.OK(rule, s.key(ai), pos, "path comes from %d containment-resolver result(s) only", len(res.Barriers))
				if c27FollowsLast(s.name, ai) {
					nFollow++
					r.Decide(len(partial) == 0, "C27.R3", s.key(ai), pos,
						"the call follows a link in the last component and receives a fully resolved contained path",
						fmt.Sprintf("%s follows a symbolic link in the last path component, but the contained path it receives (from %s) is not provably fully resolved under the entry-type conditions that select this call (the follow flag is false, or is not a function of the same type field): an earlier entry can plant a link under that name and the call then writes outside the destination", s.name, c26Where(p, partial)))
				}
			}
		}
		// R2(b): the link text of a symlink created from the archive
		if strings.Contains(s.name, "os.Symlink") && len(args) >= 1 {
			cx.checkSymlinkText(r, s, linkname)
		}
	}
	// R4: the comparisons inside the containment resolvers that were used as barriers
	var used []*ssa.Function
	for fn, st := range cx.contained {
		if st == 1 {
			used = append(used, fn)
		}
	}
	sort.Slice(used, func(i, j int) bool { return used[i].Pos() < used[j].Pos() })
	for _, fn := range used {
		cx.checkContainmentPredicate(r, fn)
	}
	// R5: the resolvers themselves
	nRes := 0
	for _, fn := range p.RepoFuncs() {
		if fn.Parent() != nil || !c27CallsEvalSymlinks(fn) || !cx.isResolverFn(fn) {
			continue
		}
		nRes++
		cx.checkRemainderEvidence(r, fn)
	}
	r.Count("real_path_resolver_functions", nRes)
	r.Count("archive_paths_reaching_sinks_contained", nBar)
	r.Count("link_following_sinks_contained", nFollow)
	r.Count("archive_paths_reaching_sinks_uncontained", nBad)
	if nBar+nBad == 0 {
		r.Note("no archive-derived path reaches a package-level mutating os.* call (extraction through *os.Root or no extraction): R1/R2 hold vacuously")
	}
}

// checkSymlinkText decides R2 for one os.Symlink call whose link text comes from the archive.
func (cx *c27Ctx) checkSymlinkText(r *kit.Report, s c26SinkSite, linkname *types.Var) {
	p := cx.p
	fn := s.fn
	text := s.call.Common().Args[0]
	tw := (&kit.PathFlow{Prog: p, FollowBodies: true, FollowParams: true, Source: cx.isTaintLoad}).Walk(text)
	if len(tw.Sources) == 0 {
		return // link text is not taken from the archive
	}
	// the parameters of fn the text comes from (a helper receiving the text)
	origin := map[ssa.Value]bool{}
	for _, prm := range (&kit.PathFlow{Prog: p, Within: fn}).Walk(text).Params {
		origin[prm] = true
	}
	key := fmt.Sprintf("%s os.Symlink #%d link text", kit.FuncName(fn), s.ord)
	found := cx.textChecked(fn, s.call, origin, linkname, 0)
	r.Decide(found, "C27.R2", key, p.Pos(s.call.Pos()),
		"the archive's link text is passed through a containment resolver whose error is checked before the link is created",
		"the link text taken from the archive is only judged lexically (or not at all) before os.Symlink: a target such as up/.. that passes through an earlier link really points outside the destination")
}

// textChecked: on the way to anchor (an instruction of fn: the os.Symlink call, the creation
// of the closure that contains it, or the call of the helper that contains it) the archive's
// link text was handed - directly or one helper deep - to a containment resolver whose error
// is known to be nil at anchor. When fn itself does not do that, every place fn is entered
// from (closure creation sites, static call sites) must.
func (cx *c27Ctx) textChecked(fn *ssa.Function, anchor ssa.Instruction, origin map[ssa.Value]bool, linkname *types.Var, depth int) bool {
	p := cx.p
	carriesText := func(a ssa.Value) bool {
		res := (&kit.PathFlow{Prog: p, Within: fn, Source: func(v ssa.Value) bool {
			f, _ := kit.LoadedField(v)
			return f == linkname
		}}).Walk(a)
		if len(res.Sources) > 0 {
			return true
		}
		for _, prm := range res.Params {
			if origin[prm] {
				return true
			}
		}
		return false
	}
	for _, c := range kit.Calls(fn) {
		k, ok := c.(*ssa.Call)
		if !ok || ssa.Instruction(k) == anchor {
			continue
		}
		cal := kit.CalleeOf(k)
		if cal.Static == nil || !kit.IsRepoPkg(cal.Pkg) || !kit.Precedes(k, anchor) {
			continue
		}
		errv := kit.ErrResultOf(k)
		if errv == nil || !kit.ErrNilOn(kit.GuardsOf(anchor), errv) {
			continue
		}
		var idx []int
		for i, a := range k.Call.Args {
			if carriesText(a) {
				idx = append(idx, i)
			}
		}
		if len(idx) == 0 {
			continue
		}
		if cx.isContainmentResolver(cal.Static) {
			return true
		}
		// one level: a helper that hands its link-text parameter to a containment resolver
		for _, c2 := range kit.Calls(cal.Static) {
			k2, ok := c2.(*ssa.Call)
			if !ok {
				continue
			}
			cal2 := kit.CalleeOf(k2)
			if cal2.Static == nil || !cx.isContainmentResolver(cal2.Static) || kit.ErrResultOf(k2) == nil {
				continue
			}
			for _, a2 := range k2.Call.Args {
				for _, prm := range (&kit.PathFlow{Prog: p, Within: cal.Static}).Walk(a2).Params {
					for _, i := range idx {
						if i < len(cal.Static.Params) && cal.Static.Params[i] == prm {
							return true
						}
					}
				}
			}
		}
	}
	if depth >= 3 {
		return false
	}
	// not in fn: every entry into fn must have done it
	if parent := fn.Parent(); parent != nil {
		n := 0
		for _, in := range g9Instrs(parent) {
			if mc, ok := in.(*ssa.MakeClosure); ok && mc.Fn == ssa.Value(fn) {
				n++
				if !cx.textChecked(parent, mc, nil, linkname, depth+1) {
					return false
				}
			}
		}
		return n > 0
	}
	sites := p.StaticCallers(fn)
	for _, site := range sites {
		if !cx.textChecked(site.Parent(), site, nil, linkname, depth+1) {
			return false
		}
	}
	return len(sites) > 0
}
