package rules

import (
	"fmt"
	"go/token"
	"go/types"
	"sort"

	"golang.org/x/tools/go/ssa"

	"mmverify/kit"
)

// Round-2 rules of C06: the route slices handed to the encoder are unmodified views of the announced
// list (R3), the chunk loop covers the whole list (R4), every chunk gets its own sequence number (R5).

// c06loopOf returns the innermost natural loop (header, body) of fn that contains block b.
func c06loopOf(fn *ssa.Function, b *ssa.BasicBlock) (*ssa.BasicBlock, map[*ssa.BasicBlock]bool) {
	w := c05newWalker(nil, fn, nil)
	var best *ssa.BasicBlock
	var bestBody map[*ssa.BasicBlock]bool
	for h, body := range w.loops {
		if body[b] && (bestBody == nil || len(body) < len(bestBody)) {
			best, bestBody = h, body
		}
	}
	return best, bestBody
}

// c06elemSources collects the values appended/stored as elements of the slice-of-slices v (through
// phis, local variables and the results of repository functions).
func c06elemSources(v ssa.Value, seen map[ssa.Value]bool, d int) []ssa.Value {
	if v == nil || seen[v] || d > 8 {
		return nil
	}
	seen[v] = true
	var out []ssa.Value
	elemStores := func(arr ssa.Value) {
		if arr.Referrers() == nil {
			return
		}
		for _, ref := range *arr.Referrers() {
			if ia, ok := ref.(*ssa.IndexAddr); ok && ia.Referrers() != nil {
				for _, r2 := range *ia.Referrers() {
					if st, ok := r2.(*ssa.Store); ok && st.Addr == ia {
						out = append(out, st.Val)
					}
				}
			}
		}
	}
	switch x := v.(type) {
	case *ssa.Phi:
		for _, e := range x.Edges {
			out = append(out, c06elemSources(e, seen, d+1)...)
		}
	case *ssa.MakeSlice:
		elemStores(x)
	case *ssa.Slice:
		out = append(out, c06elemSources(x.X, seen, d+1)...)
	case *ssa.UnOp:
		if a, ok := x.X.(*ssa.Alloc); ok && x.Op == token.MUL && a.Referrers() != nil {
			for _, ref := range *a.Referrers() {
				if st, ok := ref.(*ssa.Store); ok && st.Addr == a {
					out = append(out, c06elemSources(st.Val, seen, d+1)...)
				}
			}
		}
	case *ssa.Call:
		cal := kit.CalleeOf(x)
		if cal.Built == "append" {
			out = append(out, c06elemSources(x.Call.Args[0], seen, d+1)...)
			if len(x.Call.Args) > 1 {
				if sl, ok := x.Call.Args[1].(*ssa.Slice); ok {
					if a, ok := sl.X.(*ssa.Alloc); ok {
						elemStores(a)
						break
					}
				}
				out = append(out, c06elemSources(x.Call.Args[1], seen, d+1)...)
			}
			break
		}
		if cal.Static != nil && cal.Static.Blocks != nil && kit.IsRepoPkg(kit.FuncPkgPath(cal.Static)) {
			for _, ret := range kit.Returns(cal.Static) {
				if len(ret.Results) > 0 {
					out = append(out, c06elemSources(kit.ReturnResult(ret, 0), seen, d+1)...)
				}
			}
		}
	}
	return out
}

// c06sharesCapacity: v is a two-index sub-slice X[a:b] of a slice (its capacity extends past b into
// memory that X still owns), not the empty-prefix reuse idiom X[:0].
func c06sharesCapacity(v ssa.Value) (*ssa.Slice, bool) {
	s, ok := v.(*ssa.Slice)
	if !ok || s.High == nil || s.Max != nil {
		return nil, false
	}
	if _, isSlice := s.X.Type().Underlying().(*types.Slice); !isSlice {
		return nil, false
	}
	if c, isc := kit.ConstInt(s.High); isc && c == 0 {
		return nil, false
	}
	return s, true
}

func c06more(p *kit.Program, r *kit.Report, counted []*types.Var, owner map[*types.Var]string) {
	r.Rule("C06.R3", "in the functions that build route announcements nothing is appended to (or stored through) a capacity-sharing sub-slice of a route list that is still read afterwards: each chunk is an unmodified view of the announced list")
	r.Rule("C06.R4", "a chunk loop over the route list advances by at most the chunk width, is left only when the start has reached the length, and no stored route slice is a bare bounded prefix of a longer list")
	r.Rule("C06.R5", "when the stored route slice varies inside a loop, the Sequence stored into the same message is produced inside that loop (one sequence number per message)")

	// builders: functions with a store to a counted Routes field, outside internal/protocol
	type build struct {
		fn     *ssa.Function
		stores []kit.FieldAccess
	}
	byFn := map[*ssa.Function]*build{}
	var builders []*build
	for _, f := range counted {
		for _, acc := range p.FieldAccessesOfKind(f, kit.FieldStore) {
			if kit.FuncPkgPath(acc.Fn) == kit.PkgPath("internal/protocol") {
				continue
			}
			b := byFn[acc.Fn]
			if b == nil {
				b = &build{fn: acc.Fn}
				byFn[acc.Fn] = b
				builders = append(builders, b)
			}
			b.stores = append(b.stores, acc)
		}
	}
	sort.Slice(builders, func(i, j int) bool { return builders[i].fn.Pos() < builders[j].fn.Pos() })
	r.Count("announcement_builders", len(builders))

	for _, b := range builders {
		fn := b.fn
		fname := kit.FuncName(fn)

		// ---- R3: aliasing writes
		nApp := 0
		for _, c := range kit.Calls(fn) {
			call, ok := c.(*ssa.Call)
			if !ok || kit.CalleeOf(c).Built != "append" || len(call.Call.Args) == 0 {
				continue
			}
			first := call.Call.Args[0]
			bad := ""
			if s, ok := c06sharesCapacity(first); ok {
				// is the base (or this very sub-slice expression, in a loop) read again after the append?
				base := s.X
				again := false
				var users []ssa.Instruction
				if base.Referrers() != nil {
					users = append(users, *base.Referrers()...)
				}
				for _, u := range users {
					switch t := u.(type) {
					case *ssa.Slice, *ssa.IndexAddr, *ssa.Range, *ssa.Store, *ssa.Phi, *ssa.MakeInterface:
						if kit.CanReach(call, t) {
							again = true
						}
					case ssa.CallInstruction:
						if b := kit.CalleeOf(t).Built; b == "len" || b == "cap" {
							continue
						}
						if ti, ok := t.(ssa.Instruction); ok && ti != ssa.Instruction(call) && kit.CanReach(call, ti) {
							again = true
						}
					}
				}
				if again {
					bad = "a sub-slice of a list that is read again afterwards; the append writes into the list's backing array past the sub-slice's end"
				}
			} else if ld, ok := first.(*ssa.UnOp); ok && ld.Op == token.MUL {
				if ia, ok := ld.X.(*ssa.IndexAddr); ok {
					if st, ok := ia.X.Type().Underlying().(*types.Slice); ok {
						if _, inner := st.Elem().Underlying().(*types.Slice); inner {
							for _, e := range c06elemSources(ia.X, map[ssa.Value]bool{}, 0) {
								if _, shares := c06sharesCapacity(e); shares {
									bad = "a chunk that is a capacity-sharing sub-slice of the full list (built at " + p.Pos(e.Pos()) + "); the append overwrites the first element of the next chunk"
								}
							}
						}
					}
				}
			}
			if bad == "" {
				continue
			}
			nApp++
			r.Violation("C06.R3", fmt.Sprintf("%s append to shared chunk #%d", fname, nApp), p.Pos(call.Pos()),
				"append's first operand is %s: a route of the announced set is replaced by a duplicate and never reaches the neighbours", bad)
		}
		if nApp == 0 {
			r.OK("C06.R3", fname+" route list views", p.Pos(fn.Pos()), "no append to a capacity-sharing sub-slice of a list that is still in use")
		}

		// ---- R4 / R5 per store
		ord := 0
		for _, acc := range b.stores {
			ord++
			key := fmt.Sprintf("%s %s.Routes #%d", fname, owner[acc.Field], ord)
			pos := p.Pos(acc.Instr.Pos())
			c06coverage(p, r, fn, acc.Val, key, pos)
			c06sequence(p, r, fn, acc, key, pos)
		}
	}
}

// c06coverage decides R4 for one stored route slice.
func c06coverage(p *kit.Program, r *kit.Report, fn *ssa.Function, v ssa.Value, key, pos string) {
	// look through an append that adds to a chunk (the chunk itself is what must cover the list)
	for i := 0; i < 3; i++ {
		if c, ok := v.(*ssa.Call); ok && kit.CalleeOf(c).Built == "append" && len(c.Call.Args) > 0 {
			v = c.Call.Args[0]
			continue
		}
		break
	}
	s, ok := v.(*ssa.Slice)
	if !ok {
		return // whole list, parameter, field or helper element: nothing is cut here
	}
	if _, isSlice := s.X.Type().Underlying().(*types.Slice); !isSlice {
		return
	}
	k, isChunk := g2chunkWidth(s)
	if isChunk {
		// idiom A: X[start:min(start+K,len)]
		phi, isPhi := s.Low.(*ssa.Phi)
		stepOK, detail := false, "the chunk start is not a loop variable advanced from 0"
		if isPhi {
			zero, adv := false, false
			for i, e := range phi.Edges {
				pred := phi.Block().Preds[i]
				back := phi.Block().Dominates(pred)
				if c, isc := kit.ConstInt(e); isc && c == 0 && !back {
					zero = true
				}
				if !back {
					continue
				}
				if e == s.High {
					adv = true
				} else if bo, ok := e.(*ssa.BinOp); ok && bo.Op == token.ADD {
					var step int64 = -1
					if c, isc := kit.ConstInt(bo.Y); isc && bo.X == ssa.Value(phi) {
						step = c
					} else if c, isc := kit.ConstInt(bo.X); isc && bo.Y == ssa.Value(phi) {
						step = c
					}
					if step >= 1 && step <= k {
						adv = true
					} else {
						detail = fmt.Sprintf("the start advances by %d but a chunk holds at most %d routes: the routes in between are never announced", step, k)
					}
				}
			}
			stepOK = zero && adv
			if !zero && adv {
				detail = "the first chunk does not start at 0"
			}
		}
		r.Decide(stepOK, "C06.R4", key+" chunk step", pos,
			fmt.Sprintf("chunks of width %d start at 0 and the start advances by at most the width", k), detail)
		// exits of the loop
		if isPhi {
			_, body := c06loopOf(fn, phi.Block())
			isLow := func(x ssa.Value) bool { return x == ssa.Value(phi) }
			isLenX := func(x ssa.Value) bool {
				c, ok := g2stripConv(x).(*ssa.Call)
				return ok && kit.CalleeOf(c).Built == "len" && len(c.Call.Args) == 1 && c.Call.Args[0] == s.X
			}
			good, badExit := 0, ""
			for blk := range body {
				ifi, ok := blk.Instrs[len(blk.Instrs)-1].(*ssa.If)
				if !ok {
					continue
				}
				for si, succ := range blk.Succs {
					if body[succ] {
						continue
					}
					g := kit.Guard{Cond: ifi.Cond, Polarity: si == 0, If: ifi}
					holds, rel := g2orderGuard(g, isLow, isLenX, -1)
					if !rel {
						// an exit on an unrelated integer comparison (a cap on the number of messages, a
						// counter) abandons the rest of the list; exits on errors, contexts or channels
						// are deliberate aborts and are not judged
						if c06intComparison(ifi.Cond) {
							badExit = p.Pos(ifi.Cond.Pos())
						}
						continue
					}
					if holds {
						badExit = p.Pos(ifi.Cond.Pos())
					} else {
						good++
					}
				}
			}
			r.Decide(body != nil && good > 0 && badExit == "", "C06.R4", key+" loop exit", pos,
				"the chunk loop is left only when the start has reached the end of the list",
				"the chunk loop can be left while the start is still below the length of the list (exit condition at "+badExit+"): the remaining routes are never announced")
		}
		return
	}
	// idiom B: rest[:n] with rest = phi(list, rest[n:])
	if phi, ok := s.X.(*ssa.Phi); ok && s.High != nil {
		cont := false
		for i, e := range phi.Edges {
			if !phi.Block().Dominates(phi.Block().Preds[i]) {
				continue
			}
			if nx, ok := e.(*ssa.Slice); ok && nx.X == ssa.Value(phi) && nx.High == nil && nx.Low == s.High {
				cont = true
			}
		}
		r.Decide(cont, "C06.R4", key+" chunk step", pos,
			"the remaining list continues exactly after the chunk",
			"the chunk is cut from the front of the remaining list but the remainder does not continue at the chunk's end: routes are skipped or the rest is never sent")
		return
	}
	// a bounded prefix outside any chunking loop
	if s.High != nil {
		lowZero := s.Low == nil
		if c, isc := kit.ConstInt(s.Low); s.Low != nil && isc && c == 0 {
			lowZero = true
		}
		if lowZero {
			r.Violation("C06.R4", key+" truncation", pos,
				"only a bounded prefix of the route list is put into the message and nothing sends the remainder: a larger route set is silently truncated")
		}
	}
}

// c06sequence decides R5 for one store to a Routes field.
func c06sequence(p *kit.Program, r *kit.Report, fn *ssa.Function, acc kit.FieldAccess, key, pos string) {
	valInstr, ok := acc.Val.(ssa.Instruction)
	if !ok {
		return // parameter / constant: does not vary inside a loop of this function
	}
	hdr, body := c06loopOf(fn, acc.Instr.Block())
	// the innermost loop around the store in which the stored slice is (re)computed
	for body != nil && !body[valInstr.Block()] {
		// value defined outside this loop: look at enclosing loops
		var outerH *ssa.BasicBlock
		var outerB map[*ssa.BasicBlock]bool
		w := c05newWalker(nil, fn, nil)
		for h, bd := range w.loops {
			if h != hdr && bd[hdr] && len(bd) > len(body) && (outerB == nil || len(bd) < len(outerB)) {
				outerH, outerB = h, bd
			}
		}
		hdr, body = outerH, outerB
	}
	if body == nil {
		return
	}
	// the Sequence field of the same message
	st, ok := acc.Instr.(*ssa.Store)
	if !ok {
		return
	}
	fa, ok := st.Addr.(*ssa.FieldAddr)
	if !ok || fa.X.Referrers() == nil {
		return
	}
	for _, ref := range *fa.X.Referrers() {
		fa2, ok := ref.(*ssa.FieldAddr)
		if !ok || fa2.Referrers() == nil {
			continue
		}
		f2 := kit.FieldOfAddr(fa2)
		if f2 == nil || f2.Name() != "Sequence" {
			continue
		}
		for _, r2 := range *fa2.Referrers() {
			s2, ok := r2.(*ssa.Store)
			if !ok || s2.Addr != fa2 {
				continue
			}
			inside := false
			if vi, ok := s2.Val.(ssa.Instruction); ok && body[vi.Block()] {
				if _, isPhi := vi.(*ssa.Phi); !isPhi || vi.Block() != hdr {
					inside = true
				} else {
					inside = true // a loop-carried counter also differs per iteration
				}
			}
			r.Decide(inside, "C06.R5", key+" sequence", p.Pos(s2.Pos()),
				"each message built in the loop gets a sequence number produced in that loop",
				"every message built in this loop carries the same sequence number (computed before the loop): receivers treat all but the first as already seen and drop their routes")
		}
	}
}

// c06intComparison: cond is (a negation of) an ordering/equality comparison between integers.
func c06intComparison(cond ssa.Value) bool {
	for {
		u, ok := cond.(*ssa.UnOp)
		if !ok || u.Op != token.NOT {
			break
		}
		cond = u.X
	}
	b, ok := cond.(*ssa.BinOp)
	if !ok {
		return false
	}
	switch b.Op {
	case token.LSS, token.LEQ, token.GTR, token.GEQ, token.EQL, token.NEQ:
	default:
		return false
	}
	bt, ok := b.X.Type().Underlying().(*types.Basic)
	return ok && bt.Info()&types.IsInteger != 0
}
